/-
  Scc.RV.RefInt — THREE-WAY SIMULATION of the statements that do not touch the heap (`lit`, `op`, `ifc`;
  there is no `print` on RV64) under the typed relation `X3` (contexts may hold object variables).  The
  left halves are Theorem A's `sim2_lit`, `sim2_op`, `sim2_ifc`; the right halves are the instruction
  contracts of Scc/RV/Lemmas.lean (Props/C08RV.lean `C08_B_literal`, `C08_B_op`, `C08_B_compare`).
-/
import Scc.RV.RefX3
import Scc.Backend.ProofsSim2

set_option linter.unusedVariables false
set_option linter.unusedSimpArgs false

namespace Scc.RV.Ref

open Scc.AxCut Scc.AxCut.Pos Scc.Backend Scc.Backend.Abs Scc.Backend.Sim Scc.Backend.Sim2 Scc.RV
open Scc.Heap (HState InvS InvW)
open Scc.Heap.Refine (HRef)

/-! ## runs of the RV `variable_temporary` -/

theorem getPosition_go (id : Nat) : ∀ (Γ : Ctx) (k : Nat),
    getPosition.go id Γ k = (Γ.findIdx? (fun b => b.var.id == id)).map (· + k)
  | [], k => rfl
  | b :: bs, k => by
    simp only [getPosition.go, List.findIdx?_cons]
    by_cases h : (b.var.id == id) = true
    · simp [h]
    · simp only [h, if_false, Bool.false_eq_true]
      rw [getPosition_go id bs (k + 1)]
      cases List.findIdx? (fun b => b.var.id == id) bs <;> simp [Nat.add_assoc, Nat.add_comm 1]

theorem getPosition_eq_posOf (Γ : Ctx) (id : Nat) : getPosition Γ id = Pos.posOf Γ id := by
  unfold Pos.posOf getPosition
  rw [getPosition_go]
  cases List.findIdx? (fun b => b.var.id == id) Γ <;> simp

theorem positionRegister_run (num : TempNum) (pos c : Nat) (t : Register) (c' : Nat) :
    (positionRegister num pos).run c = .ok (t, c') ↔
      2 * pos + num.toNat < 28 ∧ t = posTemp (2 * pos + num.toNat) ∧ c = c' := by
  unfold positionRegister
  dsimp only
  by_cases h : 2 * pos + num.toNat + reserved < registerNum
  · rw [if_pos h, run_pure_ok]
    simp only [reserved, registerNum] at h
    constructor
    · rintro ⟨rfl, rfl⟩; exact ⟨by omega, rfl, rfl⟩
    · rintro ⟨_, rfl, rfl⟩; exact ⟨rfl, rfl⟩
  · rw [if_neg h, run_throw_ok]
    simp only [reserved, registerNum] at h
    constructor
    · intro hf; exact hf.elim
    · rintro ⟨h', _⟩; omega

theorem rv_vt_run_ok (num : TempNum) (ctx : Ctx) (id : Nat) (c : Nat) (t : Register) (c' : Nat) :
    (rvBackend.variableTemporary num ctx id).run c = .ok (t, c') ↔
      ∃ pos, Pos.posOf ctx id = some pos ∧ 2 * pos + num.toNat < 28 ∧
        t = posTemp (2 * pos + num.toNat) ∧ c = c' := by
  show (variableTemporary num ctx id).run c = .ok (t, c') ↔ _
  unfold variableTemporary
  rw [getPosition_eq_posOf]
  cases hp : Pos.posOf ctx id with
  | none => simp [run_throw_ok]
  | some pos =>
    simp only [Option.some.injEq, exists_eq_left', positionRegister_run]

theorem rv_ft_run_ok (num : TempNum) (ctx : Ctx) (c : Nat) (t : Register) (c' : Nat) :
    (rvBackend.freshTemporary num ctx).run c = .ok (t, c') ↔
      2 * ctx.length + num.toNat < 28 ∧ t = posTemp (2 * ctx.length + num.toNat) ∧ c = c' :=
  positionRegister_run num ctx.length c t c'

/-! ## helpers -/

theorem stepsTo_one_inv {P : Abs.Program} {c c' : Config} (h : stepsTo P 1 c c') : Abs.step P c = .next c' := by
  obtain ⟨c1, hs, e⟩ := h
  have : c1 = c' := e
  rw [← this]; exact hs

/-- a new `ext` position does not change the roots -/
theorem roots_snoc_ext (σ σ' : Temps) (Γ : Ctx) (b : Binding) (hb : b.chi = .ext)
    (h : ∀ t, t < 2 * Γ.length → σ'.get t = σ.get t) : roots (Γ ++ [b]) σ' = roots Γ σ := by
  rw [roots_append_ext _ _ _ hb]
  exact roots_congr _ _ _ (fun i hi => h (2 * i) (by omega))

theorem execFwd_single {mc : MonCfg} {la : String → Option Nat} {c : Code} {s s1 : State}
    (h : exec mc la 0 c s = .ok (s1, .fall)) : execFwd mc la [c] s = .ok (s1, .fall) := by
  rw [execFwd_cons, h]
  simp only [contFwd]
  exact execFwd_nil mc la s1

theorem getT_next {σ : Temps} {t : Nat} {k : Word → StepRes} {c' : Config}
    (h : getT σ t k = .next c') : ∃ v, σ.get t = some v ∧ k v = .next c' := by
  unfold getT at h
  cases hv : σ.get t with
  | none => simp [hv, stuck] at h
  | some v => simp only [hv] at h; exact ⟨v, rfl, h⟩

theorem getT_done {σ : Temps} {t : Nat} {k : Word → StepRes} {w : Word}
    (h : getT σ t k = .halt (.done w)) : ∃ v, σ.get t = some v ∧ k v = .halt (.done w) := by
  unfold getT at h
  cases hv : σ.get t with
  | none => simp [hv, stuck] at h
  | some v => simp only [hv] at h; exact ⟨v, rfl, h⟩

/-- a jump of the abstract machine changes only the program counter and `TEMP` -/
structure JumpFacts (cfg cfg' : Config) : Prop where
  temps : cfg'.temps = clobberTemp cfg.temps
  heap : cfg'.heap = cfg.heap
  next : cfg'.next = cfg.next
  out : cfg'.out = cfg.out

/-- what an abstract step keeps that writes neither the heap nor the temporaries of the positions below `n` -/
structure FrameFacts (cfg cfg' : Config) (n : Nat) : Prop where
  heap : cfg'.heap = cfg.heap
  low : ∀ t, t < 2 * n → cfg'.temps.get t = cfg.temps.get t

theorem JumpFacts.frame {cfg cfg' : Config} (J : JumpFacts cfg cfg') {n : Nat} (hn : 2 * n ≤ Mock.T_TEMP) :
    FrameFacts cfg cfg' n :=
  ⟨J.heap, fun t ht => by rw [J.temps, get_clobberTemp _ (by omega)]⟩

theorem jumpTo_facts {P : Abs.Program} {cfg cfg' : Config} {n : String} (h : jumpTo P cfg n = .next cfg') :
    JumpFacts cfg cfg' := by
  unfold jumpTo at h
  split at h
  · injection h with h; subst h; exact ⟨rfl, rfl, rfl, rfl⟩
  · simp [stuck] at h

theorem step_jif_facts {P : Abs.Program} {cfg cfg' : Config} {c : IfSort} {a b : Nat} {n : String}
    (hc : P.code[cfg.pc]? = some (.jif c a b n)) (h : Abs.step P cfg = .next cfg') : JumpFacts cfg cfg' := by
  simp only [Abs.step, hc] at h
  obtain ⟨va, _, h⟩ := getT_next h
  obtain ⟨vb, _, h⟩ := getT_next h
  split at h
  · exact jumpTo_facts h
  · injection h with h; subst h; exact ⟨rfl, rfl, rfl, rfl⟩

theorem step_jifz_facts {P : Abs.Program} {cfg cfg' : Config} {c : IfSort} {a : Nat} {n : String}
    (hc : P.code[cfg.pc]? = some (.jifz c a n)) (h : Abs.step P cfg = .next cfg') : JumpFacts cfg cfg' := by
  simp only [Abs.step, hc] at h
  obtain ⟨va, _, h⟩ := getT_next h
  split at h
  · exact jumpTo_facts h
  · injection h with h; subst h; exact ⟨rfl, rfl, rfl, rfl⟩

theorem step_jumpLabel_facts {P : Abs.Program} {cfg cfg' : Config} {n : String}
    (hc : P.code[cfg.pc]? = some (.jumpLabel n)) (h : Abs.step P cfg = .next cfg') : JumpFacts cfg cfg' := by
  simp only [Abs.step, hc] at h
  split at h
  · obtain ⟨v, _, h⟩ := getT_next h
    cases h
  · exact jumpTo_facts h

theorem X3.jump {mc : MonCfg} {cw : Nat → Word} {τ : Nat → Nat → Word} {Γ : Ctx} {cfg cfg' : Config} {hs : HState} {ι : Nat → Nat}
    {st : State} (X : X3 mc cw τ Γ cfg hs ι st) (J : JumpFacts cfg cfg') : X3 mc cw τ Γ cfg' hs ι st :=
  X.absCongr (fun t ht => by
    rw [J.temps, get_clobberTemp _ (by unfold Mock.T_TEMP; have := X.cap; omega)]) J.heap J.next

/-- a label inside code that lies in the kept codes -/
theorem KAt.lab_at {ks : List Code} {pc : Nat} {a b : List Code} {l : String}
    (h : KAt ks pc (a ++ Code.LAB l :: b)) : ∃ j, ks[j]? = some (Code.LAB l) ∧ KAt ks (j + 1) b := by
  obtain ⟨ka, _, _, h2⟩ := h.split
  obtain ⟨h3, h4⟩ := h2.head rfl
  exact ⟨_, h3, h4⟩

theorem binop_single (o : BinOp) (t a b : Register) :
    ∃ c, rvBackend.binop o t a b = [c] ∧ PcFree c = true ∧ c.isInstr = true := by
  cases o <;> exact ⟨_, rfl, rfl, rfl⟩

theorem jumpLabelIf_single (srt : IfSort) (a b : Register) (l : String) :
    ∃ c, rvBackend.jumpLabelIf srt a b l = [c] ∧ PcFree c = true ∧ c.isInstr = true := by
  cases srt <;> exact ⟨_, rfl, rfl, rfl⟩

section Int3

variable {mc : MonCfg} {cw : Nat → Word} {τ : Nat → Nat → Word} {p : RV.Program} {ks : List Code} (L : Loaded p ks)
  (hndL : (labs ks).Nodup) (hheap : mc.heap = false)

include L hndL hheap in
/-- THREE-WAY SIMULATION OF `lit` -/
theorem lit_x3 {P : Abs.Program} {hooks : Bool} {prog : AxCut.Prog} {Γ : Ctx} {ρ : List Value} {x : Ident}
    {n : Int} {next : Stmt} {fv : FV} {cfg : Config}
    (R : RelX P hooks prog ⟨Γ, ρ, .lit x n next fv⟩ cfg)
    (hfresh : ∀ b ∈ Γ, b.var.id ≠ x.id) (hcap : 2 * (Γ.length + 1) + 2 < Mock.T_TEMP)
    {hs : HState} {ι : Nat → Nat} {st : State} (X : X3 mc cw τ Γ cfg hs ι st)
    {kx kx' : Nat} {items : List Code}
    (hrunX : (codeStatementR rvBackend hooks natRen prog.types (.lit x n next fv) Γ).run kx = .ok (items, kx'))
    (hatX : KAt ks st.pc items) :
    ∃ cfg' st', stepsTo P 1 cfg cfg' ∧ Reach p mc st st' ∧
      cfg'.out = cfg.out ∧ cfg'.next = cfg.next ∧ FrameFacts cfg cfg' Γ.length ∧
      RelX P hooks prog ⟨Γ ++ [⟨x, .ext, .i64⟩], ρ ++ [.int (BitVec.ofInt 64 n)], next⟩ cfg' ∧
      X3 mc cw τ (Γ ++ [⟨x, .ext, .i64⟩]) cfg' hs ι st' ∧
      ∃ k1 k1' items', (codeStatementR rvBackend hooks natRen prog.types next
          (Γ ++ [⟨x, .ext, .i64⟩])).run k1 = .ok (items', k1') ∧ KAt ks st'.pc items' := by
  obtain ⟨cfg', hst, hout, hnext, R'⟩ := sim2_lit R hfresh hcap
  -- the mock code, the abstract step explicitly
  obtain ⟨c, c', ops, hrun, hat⟩ := R.code
  simp only [codeStatementR, run_bind_ok, run_pure_ok, mockSym_variableTemporary, vt_run_ok] at hrun
  obtain ⟨t, k1, ⟨pos, hpos, rfl, rfl⟩, c2, k2, h2, rfl, rfl⟩ := hrun
  have hp : pos = Γ.length := by
    rw [ctxPosition_eq_posOf] at hpos
    have := posOf_append_fresh Γ ⟨x, .ext, .i64⟩ hfresh
    rw [this] at hpos
    exact (Option.some.inj hpos).symm
  subst hp
  simp only [mockSym_loadImmediate, mockSym_comment, List.append_assoc, CodeAt_hook] at hat
  simp only [List.cons_append, List.nil_append, CodeAt, TempNum.toNat] at hat
  obtain ⟨hcode, _⟩ := hat
  have hB := step_li P cfg _ n hcode (by unfold Mock.T_TEMP at hcap ⊢; omega)
  rw [stepsTo_one_inv hst] at hB
  injection hB with hB
  -- the RV code
  simp only [codeStatementR, run_bind_ok, run_pure_ok] at hrunX
  obtain ⟨tX, _, htX, c2X, k2X, h2X, rfl, rfl⟩ := hrunX
  obtain ⟨pX, hpX, hltX, rfl, rfl⟩ := (rv_vt_run_ok _ _ _ _ _ _).1 htX
  have hpX' : pX = Γ.length := by
    have := posOf_append_fresh Γ ⟨x, .ext, .i64⟩ hfresh
    rw [this] at hpX
    exact (Option.some.inj hpX).symm
  subst hpX'
  simp only [TempNum.toNat] at hltX
  generalize hc0 : hookCode rvBackend hooks Γ ++
    [rvBackend.comment ("lit " ++ x.print ++ " <- " ++ toString n ++ ";")] = c0 at hatX
  have hc0c : ∀ y ∈ c0, ∃ m', y = Code.COMMENT m' := by rw [← hc0]; exact hook_comments hooks Γ _
  have hxl : rvBackend.loadImmediate (posTemp (2 * Γ.length + TempNum.snd.toNat)) n =
      [Code.LI (posTemp (2 * Γ.length + 1)) n] := rfl
  rw [hxl] at hatX
  have hatA : KAt ks st.pc (c0 ++ ([Code.LI (posTemp (2 * Γ.length + 1)) n] ++ c2X)) := by
    simpa [List.append_assoc] using hatX
  obtain ⟨pc0, k0, hr0, hat0⟩ := pass_comments L hndL hheap hatA hc0c
  have X0 : X3 mc cw τ Γ cfg hs ι (setPS st pc0 k0) := X3R.setPS X _ _
  obtain ⟨pc2, k2', hr2, hat2⟩ := exec_block L hndL hheap (s := setPS st pc0 k0) hat0
    (fun c hc => by simp at hc; subst hc; rfl) (by simp)
    (execFwd_single (show exec mc p.labelAddr 0 (Code.LI (posTemp (2 * Γ.length + 1)) n) _ = .ok (_, .fall) from rfl))
  have K := keep_writeReg X0.bnd.wf (posTemp (2 * Γ.length + 1)) (imm n)
  have X2 : X3R mc cw τ (Γ ++ [⟨x, .ext, .i64⟩]) cfg' (roots Γ cfg.temps) hs ι
      ((setPS st pc0 k0).writeReg (posTemp (2 * Γ.length + 1)) (imm n)) :=
    X3R.snoc X0 (by omega) K (a := BitVec.ofInt 64 n)
      (by rw [rv_writeReg_same X0.bnd.wf (by omega)]; rfl) (by rw [hB]) (by rw [hB])
      (by rw [hB]) (fun h => absurd rfl h)
  refine ⟨cfg', _, hst, hr0.trans hr2, hout, hnext, (⟨by rw [hB], fun t ht => by
      rw [hB]; simp only
      rw [get_set_other _ _ (by omega), get_clobberTemp _ (by unfold Mock.T_TEMP at hcap ⊢; omega)]⟩ :
      FrameFacts cfg cfg' Γ.length), R', ?_, _, _, c2X, h2X, hat2⟩
  show X3R mc cw τ _ cfg' (roots _ cfg'.temps) hs ι _
  rw [roots_snoc_ext cfg.temps cfg'.temps Γ _ rfl (fun t ht => by
    rw [hB]; simp only
    rw [get_set_other _ _ (by omega), get_clobberTemp _ (by unfold Mock.T_TEMP; omega)])]
  exact X3R.setPS X2 _ _

/-- an integer variable read by the positional machine: its position, its word, its kind -/
theorem readInt_facts {P : Abs.Program} {hooks : Bool} {prog : AxCut.Prog} {Γ : Ctx} {ρ : List Value} {s : Stmt}
    {cfg : Config} (R : RelX P hooks prog ⟨Γ, ρ, s⟩ cfg) {y : Ident} {w : Word} (hy : readInt Γ ρ y = .ok w) :
    ∃ i, Pos.posOf Γ y.id = some i ∧ ∃ hi : i < Γ.length, cfg.temps.get (2 * i + 1) = some w ∧
      Γ[i].chi = .ext := by
  obtain ⟨i, hi, hl, hg⟩ := R.readInt hy
  simp only at hi hl
  rw [ctxPosition_eq_posOf] at hi
  refine ⟨i, hi, hl, hg, ?_⟩
  have := (R.vals i hl (by show _ < ρ.length; have hlen : ρ.length = Γ.length := R.len; omega)).2.2.1
  simp only at this
  obtain ⟨_, hpo, hval⟩ := readInt_ok hy
  rw [hi] at hpo
  cases hpo
  rw [List.getElem?_eq_getElem (by show _ < ρ.length; have hlen : ρ.length = Γ.length := R.len; omega)] at hval
  injection hval with hval
  rw [this, hval]; rfl

include L hndL hheap in
/-- THREE-WAY SIMULATION OF `op` -/
theorem op_x3 {P : Abs.Program} {hooks : Bool} {prog : AxCut.Prog} {Γ : Ctx} {ρ : List Value} {x a b : Ident}
    {o : BinOp} {next : Stmt} {fv : FV} {cfg : Config} {va vb v : Word}
    (R : RelX P hooks prog ⟨Γ, ρ, .op x a o b next fv⟩ cfg)
    (hfresh : ∀ b' ∈ Γ, b'.var.id ≠ x.id) (hcap : 2 * (Γ.length + 1) + 2 < Mock.T_TEMP)
    (ha : readInt Γ ρ a = .ok va) (hb : readInt Γ ρ b = .ok vb) (hv : Pos.evalOp o va vb = .ok v)
    {hs : HState} {ι : Nat → Nat} {st : State} (X : X3 mc cw τ Γ cfg hs ι st)
    {kx kx' : Nat} {items : List Code}
    (hrunX : (codeStatementR rvBackend hooks natRen prog.types (.op x a o b next fv) Γ).run kx = .ok (items, kx'))
    (hatX : KAt ks st.pc items) :
    ∃ cfg' st', stepsTo P 1 cfg cfg' ∧ Reach p mc st st' ∧
      cfg'.out = cfg.out ∧ cfg'.next = cfg.next ∧ FrameFacts cfg cfg' Γ.length ∧
      RelX P hooks prog ⟨Γ ++ [⟨x, .ext, .i64⟩], ρ ++ [.int v], next⟩ cfg' ∧
      X3 mc cw τ (Γ ++ [⟨x, .ext, .i64⟩]) cfg' hs ι st' ∧
      ∃ k1 k1' items', (codeStatementR rvBackend hooks natRen prog.types next
          (Γ ++ [⟨x, .ext, .i64⟩])).run k1 = .ok (items', k1') ∧ KAt ks st'.pc items' := by
  obtain ⟨cfg', hst, hout, hnext, R'⟩ := sim2_op R hfresh hcap ha hb hv
  obtain ⟨c, c', ops, hrun, hat⟩ := R.code
  simp only [codeStatementR, run_bind_ok, run_pure_ok, mockSym_variableTemporary, vt_run_ok] at hrun
  obtain ⟨t, k1, ⟨pos, hpos, rfl, rfl⟩, s1, k2, ⟨p1, hp1, rfl, rfl⟩, s2, k3, ⟨p2, hp2, rfl, rfl⟩,
    c2, k4, h2, rfl, rfl⟩ := hrun
  have hp : pos = Γ.length := by
    rw [ctxPosition_eq_posOf] at hpos
    have := posOf_append_fresh Γ ⟨x, .ext, .i64⟩ hfresh
    rw [this] at hpos
    exact (Option.some.inj hpos).symm
  subst hp
  obtain ⟨i1, hi1, hl1, hg1, hchi1⟩ := readInt_facts R ha
  obtain ⟨i2, hi2, hl2, hg2, hchi2⟩ := readInt_facts R hb
  have e1 : p1 = i1 := by
    rw [ctxPosition_eq_posOf] at hp1
    have := posOf_append_old [⟨x, .ext, .i64⟩] hi1
    rw [this] at hp1; exact (Option.some.inj hp1).symm
  have e2 : p2 = i2 := by
    rw [ctxPosition_eq_posOf] at hp2
    have := posOf_append_old [⟨x, .ext, .i64⟩] hi2
    rw [this] at hp2; exact (Option.some.inj hp2).symm
  subst e1 e2
  simp only [mockSym_binop, mockSym_comment, List.append_assoc, CodeAt_hook] at hat
  simp only [List.cons_append, List.nil_append, CodeAt, TempNum.toNat] at hat
  obtain ⟨hcode, _⟩ := hat
  have hB := step_binop P cfg o _ _ _ va vb v hcode (by unfold Mock.T_TEMP at hcap ⊢; omega) hg1 hg2
    (evalBinOp_of_evalOp hv)
  rw [stepsTo_one_inv hst] at hB
  injection hB with hB
  -- the RV code
  simp only [codeStatementR, run_bind_ok, run_pure_ok] at hrunX
  obtain ⟨tX, _, htX, s1X, _, hs1X, s2X, _, hs2X, c2X, k2X, h2X, rfl, rfl⟩ := hrunX
  obtain ⟨pX, hpX, hltX, rfl, rfl⟩ := (rv_vt_run_ok _ _ _ _ _ _).1 htX
  obtain ⟨q1, hq1, hlt1, rfl, rfl⟩ := (rv_vt_run_ok _ _ _ _ _ _).1 hs1X
  obtain ⟨q2, hq2, hlt2, rfl, rfl⟩ := (rv_vt_run_ok _ _ _ _ _ _).1 hs2X
  have hpX' : pX = Γ.length := by
    have := posOf_append_fresh Γ ⟨x, .ext, .i64⟩ hfresh
    rw [this] at hpX
    exact (Option.some.inj hpX).symm
  subst hpX'
  have eq1 : q1 = p1 := by
    have := posOf_append_old [⟨x, .ext, .i64⟩] hi1
    rw [this] at hq1; exact (Option.some.inj hq1).symm
  have eq2 : q2 = p2 := by
    have := posOf_append_old [⟨x, .ext, .i64⟩] hi2
    rw [this] at hq2; exact (Option.some.inj hq2).symm
  subst eq1 eq2
  simp only [TempNum.toNat] at hltX hlt1 hlt2
  generalize hc0 : hookCode rvBackend hooks Γ ++
    [rvBackend.comment (x.print ++ " <- " ++ a.print ++ " " ++ o.sym ++ " " ++ b.print ++ ";")] = c0 at hatX
  have hc0c : ∀ y ∈ c0, ∃ m', y = Code.COMMENT m' := by rw [← hc0]; exact hook_comments hooks Γ _
  obtain ⟨ci, hci, hcf, hcin⟩ := binop_single o (posTemp (2 * Γ.length + 1)) (posTemp (2 * q1 + 1))
    (posTemp (2 * q2 + 1))
  have hxl : rvBackend.binop o (posTemp (2 * Γ.length + TempNum.snd.toNat))
      (posTemp (2 * q1 + TempNum.snd.toNat)) (posTemp (2 * q2 + TempNum.snd.toNat)) = [ci] := hci
  rw [hxl] at hatX
  have hatA : KAt ks st.pc (c0 ++ ([ci] ++ c2X)) := by
    simpa [List.append_assoc] using hatX
  obtain ⟨pc0, k0, hr0, hat0⟩ := pass_comments L hndL hheap hatA hc0c
  have X0 : X3 mc cw τ Γ cfg hs ι (setPS st pc0 k0) := X3R.setPS X _ _
  have hw1 := X0.words q1 hl1 va hg1
  have hw2 := X0.words q2 hl2 vb hg2
  rw [hchi1] at hw1
  rw [hchi2] at hw2
  have hex : exec mc p.labelAddr 0 ci (setPS st pc0 k0) =
      .ok ((setPS st pc0 k0).writeReg (posTemp (2 * Γ.length + 1)) v, .fall) := by
    have := exec_binop mc p.labelAddr 0 o (posTemp (2 * Γ.length + 1)) (posTemp (2 * q1 + 1))
      (posTemp (2 * q2 + 1)) (setPS st pc0 k0) va vb v (readReg_of_rv hw1) (readReg_of_rv hw2) hv
    rw [hci, execList_singleton] at this
    exact this
  obtain ⟨pc2, k2', hr2, hat2⟩ := exec_block L hndL hheap (s := setPS st pc0 k0) hat0
    (fun c hc => by simp at hc; subst hc; exact hcf)
    (by simp; intro e; rw [← e] at hcin; simp [Code.isInstr] at hcin)
    (execFwd_single hex)
  have K := keep_writeReg X0.bnd.wf (posTemp (2 * Γ.length + 1)) v
  have X2 : X3R mc cw τ (Γ ++ [⟨x, .ext, .i64⟩]) cfg' (roots Γ cfg.temps) hs ι
      ((setPS st pc0 k0).writeReg (posTemp (2 * Γ.length + 1)) v) :=
    X3R.snoc X0 (by omega) K (a := v)
      (by rw [rv_writeReg_same X0.bnd.wf (by omega)]; rfl) (by rw [hB]) (by rw [hB])
      (by rw [hB]) (fun h => absurd rfl h)
  refine ⟨cfg', _, hst, hr0.trans hr2, hout, hnext, (⟨by rw [hB], fun t ht => by
      rw [hB]; simp only
      rw [get_set_other _ _ (by omega), get_clobberTemp _ (by unfold Mock.T_TEMP at hcap ⊢; omega)]⟩ :
      FrameFacts cfg cfg' Γ.length), R', ?_, _, _, c2X, h2X, hat2⟩
  show X3R mc cw τ _ cfg' (roots _ cfg'.temps) hs ι _
  rw [roots_snoc_ext cfg.temps cfg'.temps Γ _ rfl (fun t ht => by
    rw [hB]; simp only
    rw [get_set_other _ _ (by omega), get_clobberTemp _ (by unfold Mock.T_TEMP; omega)])]
  exact X3R.setPS X2 _ _

include L hndL hheap in
/-- THREE-WAY SIMULATION OF `ifc` -/
theorem ifc_x3 {P : Abs.Program} {hooks : Bool} {prog : AxCut.Prog} {Γ : Ctx} {ρ : List Value} {a : Ident}
    {b : Option Ident} {srt : IfSort} {t e : Stmt} {cfg : Config} {va vb : Word}
    (R : RelX P hooks prog ⟨Γ, ρ, .ifc srt a b t e⟩ cfg) (ha : readInt Γ ρ a = .ok va)
    (hb : match b with | none => vb = 0 | some b' => readInt Γ ρ b' = .ok vb)
    {hs : HState} {ι : Nat → Nat} {st : State} (X : X3 mc cw τ Γ cfg hs ι st)
    {kx kx' : Nat} {items : List Code}
    (hrunX : (codeStatementR rvBackend hooks natRen prog.types (.ifc srt a b t e) Γ).run kx = .ok (items, kx'))
    (hatX : KAt ks st.pc items) :
    ∃ cfg' st', stepsTo P 1 cfg cfg' ∧ Reach p mc st st' ∧
      cfg'.out = cfg.out ∧ cfg'.next = cfg.next ∧ FrameFacts cfg cfg' Γ.length ∧
      RelX P hooks prog ⟨Γ, ρ, if Pos.evalCmp srt va vb then t else e⟩ cfg' ∧ X3 mc cw τ Γ cfg' hs ι st' ∧
      ∃ k1 k1' items', (codeStatementR rvBackend hooks natRen prog.types
          (if Pos.evalCmp srt va vb then t else e) Γ).run k1 = .ok (items', k1') ∧ KAt ks st'.pc items' := by
  obtain ⟨cfg', hst, hout, hnext, R'⟩ := sim2_ifc R ha hb
  have hstep := stepsTo_one_inv hst
  -- the abstract step changes only the program counter and TEMP
  have J : JumpFacts cfg cfg' := by
    obtain ⟨c, c', ops, hrun, hat⟩ := R.code
    simp only [codeStatementR, run_bind_ok, run_pure_ok, freshLabelStr_run_ok] at hrun
    obtain ⟨num, k1, ⟨rfl, rfl⟩, c1, k2, h1, c2, k3, h2, c3, k4, h3, rfl, rfl⟩ := hrun
    simp only [mockSym_comment, mockSym_label, List.append_assoc, CodeAt_hook] at hat
    simp only [List.cons_append, List.nil_append, CodeAt] at hat
    rw [CodeAt_append] at hat
    obtain ⟨hat1, _⟩ := hat
    cases b with
    | none =>
      simp only [run_bind_ok, run_pure_ok, mockSym_variableTemporary, vt_run_ok] at h1
      obtain ⟨ta, k5, ⟨p, hp, rfl, rfl⟩, rfl, rfl⟩ := h1
      simp only [mockSym_jumpLabelIfZero, CodeAt] at hat1
      exact step_jifz_facts hat1.1 hstep
    | some b' =>
      simp only [run_bind_ok, run_pure_ok, mockSym_variableTemporary, vt_run_ok] at h1
      obtain ⟨ta, k5, ⟨p, hp, rfl, rfl⟩, tb, k6, ⟨q, hq, rfl, rfl⟩, rfl, rfl⟩ := h1
      simp only [mockSym_jumpLabelIf, CodeAt] at hat1
      exact step_jif_facts hat1.1 hstep
  -- the RV code
  simp only [codeStatementR, run_bind_ok, run_pure_ok, freshLabelStr_run_ok] at hrunX
  obtain ⟨num, _, ⟨rfl, rfl⟩, c1X, k2X, h1X, c2X, k3X, h2X, c3X, k4X, h3X, rfl, rfl⟩ := hrunX
  generalize hc0 : hookCode rvBackend hooks Γ ++ [rvBackend.comment (ifcComment srt a b)] = c0 at hatX
  have hc0c : ∀ y ∈ c0, ∃ m', y = Code.COMMENT m' := by rw [← hc0]; exact hook_comments hooks Γ _
  generalize hlbl : "lab" ++ natRen (kx + 1) = lbl at *
  replace hatX : KAt ks st.pc (c0 ++ (c1X ++ ([Code.COMMENT "else branch"] ++ (c2X ++
      ([Code.LAB lbl, Code.COMMENT "then branch"] ++ c3X))))) := by
    have : KAt ks st.pc (c0 ++ c1X ++ [Code.COMMENT "else branch"] ++ c2X ++
      [Code.LAB lbl, Code.COMMENT "then branch"] ++ c3X) := hatX
    simpa [List.append_assoc] using this
  obtain ⟨pc0, k0, hr0, hat0⟩ := pass_comments L hndL hheap hatX hc0c
  have X0 : X3 mc cw τ Γ cfg hs ι (setPS st pc0 k0) := X3R.setPS X _ _
  -- the comparison: one branch instruction
  have hcmp : ∃ ci, c1X = [ci] ∧ ci.isInstr = true ∧
      ∀ ad, exec mc p.labelAddr ad ci (setPS st pc0 k0) =
        .ok (setPS st pc0 k0, if Pos.evalCmp srt va vb then .label lbl else .fall) := by
    cases b with
    | none =>
      simp only at hb
      subst hb
      simp only [run_bind_ok, run_pure_ok] at h1X
      obtain ⟨ta, _, hta, rfl, rfl⟩ := h1X
      obtain ⟨q, hq, hlt, rfl, rfl⟩ := (rv_vt_run_ok _ _ _ _ _ _).1 hta
      obtain ⟨i, hi, hl, hg, hchi⟩ := readInt_facts R ha
      rw [hi] at hq
      injection hq with hq
      subst hq
      have hw := X0.words i hl va hg
      rw [hchi] at hw
      obtain ⟨ci, hci, _, hcin⟩ := jumpLabelIf_single srt (posTemp (2 * i + TempNum.snd.toNat)) ZERO lbl
      refine ⟨ci, hci, hcin, fun ad => ?_⟩
      have := exec_jumpLabelIfZero mc p.labelAddr ad srt (posTemp (2 * i + TempNum.snd.toNat)) lbl
        (setPS st pc0 k0) va (readReg_of_rv hw)
      have e : rvBackend.jumpLabelIfZero srt (posTemp (2 * i + TempNum.snd.toNat)) lbl = [ci] := hci
      rw [e, execList_singleton] at this
      exact this
    | some b' =>
      simp only at hb
      simp only [run_bind_ok, run_pure_ok] at h1X
      obtain ⟨ta, _, hta, tb, _, htb, rfl, rfl⟩ := h1X
      obtain ⟨q, hq, hlt, rfl, rfl⟩ := (rv_vt_run_ok _ _ _ _ _ _).1 hta
      obtain ⟨q', hq', hltq, rfl, rfl⟩ := (rv_vt_run_ok _ _ _ _ _ _).1 htb
      obtain ⟨i, hi, hl, hg, hchi⟩ := readInt_facts R ha
      obtain ⟨j, hj, hlj, hgj, hchij⟩ := readInt_facts R hb
      rw [hi] at hq
      injection hq with hq
      subst hq
      rw [hj] at hq'
      injection hq' with hq'
      subst hq'
      have hw := X0.words i hl va hg
      rw [hchi] at hw
      have hwj := X0.words j hlj vb hgj
      rw [hchij] at hwj
      obtain ⟨ci, hci, _, hcin⟩ := jumpLabelIf_single srt (posTemp (2 * i + TempNum.snd.toNat))
        (posTemp (2 * j + TempNum.snd.toNat)) lbl
      refine ⟨ci, hci, hcin, fun ad => ?_⟩
      have := exec_jumpLabelIf mc p.labelAddr ad srt (posTemp (2 * i + TempNum.snd.toNat))
        (posTemp (2 * j + TempNum.snd.toNat)) lbl (setPS st pc0 k0) va vb (readReg_of_rv hw) (readReg_of_rv hwj)
      rw [hci, execList_singleton] at this
      exact this
  obtain ⟨ci, rfl, hcin, hjx⟩ := hcmp
  have X1' : X3 mc cw τ Γ cfg' hs ι (setPS st pc0 k0) := X0.jump J
  have hatB : KAt ks (setPS st pc0 k0).pc (ci :: ([Code.COMMENT "else branch"] ++ (c2X ++
      ([Code.LAB lbl, Code.COMMENT "then branch"] ++ c3X)))) := hat0
  by_cases hcnd : Pos.evalCmp srt va vb = true
  · -- the jump is taken: to the label, over the label and the comment
    simp only [hcnd, if_true] at hjx ⊢
    have hatL : KAt ks (setPS st pc0 k0).pc ((ci :: ([Code.COMMENT "else branch"] ++ c2X)) ++
        Code.LAB lbl :: ([Code.COMMENT "then branch"] ++ c3X)) := by
      simpa [List.append_assoc] using hatB
    obtain ⟨j, hj, hatj⟩ := hatL.lab_at
    have hidx := labIdx_of_nodup hndL hj
    have hr1 := step_label L hatB hcin hjx hidx
    have hatj' : KAt ks (setPS (setPS st pc0 k0) j ((setPS st pc0 k0).steps + 1)).pc
        (Code.LAB lbl :: ([Code.COMMENT "then branch"] ++ c3X)) := by
      obtain ⟨k1, ki, rest, e, hl, hk⟩ := hatj
      refine ⟨k1.take j, Code.LAB lbl :: ki, rest, ?_, ?_, .keep rfl hk⟩
      · have hjlt : j < k1.length := by omega
        have hk1 : k1 = k1.take j ++ [Code.LAB lbl] := by
          have h1 : k1[j]? = some (Code.LAB lbl) := by
            rw [e, List.append_assoc, List.getElem?_append_left hjlt] at hj; exact hj
          have h2 : k1.length = j + 1 := hl
          conv => lhs; rw [← List.take_append_drop j k1]
          congr 1
          rw [List.drop_eq_getElem_cons hjlt]
          rw [List.getElem?_eq_getElem hjlt] at h1
          injection h1 with h1
          rw [h1, List.drop_eq_nil_of_le (by omega)]
        rw [e]
        conv => lhs; rw [hk1]
        simp [List.append_assoc]
      · simp [setPS]; omega
    have hcl : lbl ≠ "cleanup" := by
      rw [← hlbl]
      exact labName_ne_cleanup (kx + 1)
    have X1'' : X3 mc cw τ Γ cfg' hs ι (setPS (setPS st pc0 k0) j ((setPS st pc0 k0).steps + 1)) :=
      X3R.setPS X1' _ _
    generalize setPS (setPS st pc0 k0) j ((setPS st pc0 k0).steps + 1) = s1 at hr1 hatj' X1''
    obtain ⟨hr2, hat2⟩ := pass_label L (cfg := mc) hatj' hcl
    obtain ⟨pc3, k3, hr3, hat3⟩ := pass_comments L hndL hheap (c0 := [Code.COMMENT "then branch"])
      (s := setPS s1 (s1.pc + 1) s1.steps) hat2 (fun y hy => by simp at hy; exact ⟨_, hy⟩)
    refine ⟨cfg', _, hst, hr0.trans (hr1.trans (hr2.trans hr3)), hout, hnext,
      J.frame (by have := X.cap; unfold Mock.T_TEMP; omega), ?_,
      X3R.setPS (X3R.setPS X1'' _ _) _ _, _, _, c3X, h3X, hat3⟩
    simpa [hcnd] using R'
  · -- fall through: the comment, then the else branch
    have hcnd' : Pos.evalCmp srt va vb = false := by simpa using hcnd
    simp only [hcnd', Bool.false_eq_true, if_false] at hjx ⊢
    obtain ⟨hr1, hat1⟩ := step_fall L hatB hcin hjx
    obtain ⟨pc3, k3, hr3, hat3⟩ := pass_comments L hndL hheap (c0 := [Code.COMMENT "else branch"])
      (s := setPS (setPS st pc0 k0) ((setPS st pc0 k0).pc + 1) ((setPS st pc0 k0).steps + 1)) hat1
      (fun y hy => by simp at hy; exact ⟨_, hy⟩)
    refine ⟨cfg', _, hst, hr0.trans (hr1.trans hr3), hout, hnext,
      J.frame (by have := X.cap; unfold Mock.T_TEMP; omega), ?_,
      X3R.setPS (X3R.setPS X1' _ _) _ _, _, _, c2X, h2X, hat3.left⟩
    simpa [hcnd'] using R'

end Int3

end Scc.RV.Ref
