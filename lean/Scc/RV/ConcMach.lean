/-
  Scc.RV.ConcMach — generic facts about the RV64 SPEC machine (Scc/RV/Machine.lean), for ANY program (the port of
  Scc/X86/ConcMach.lean), in terms of the transition function `step` of the run loop (Scc/RV/ConcStep.lean):
  * `maxHeapWritten ≤ heapBytes` is an invariant of `step` (a store outside the heap region faults): the highest
    heap address ever written lies inside the heap region; `maxHeapWritten` never decreases (stated for the machine
    with the heap monitor off; NOTE for whoever proves facts about `heapMonitor`: a proof whose kernel check has to
    reduce a `match` on `invCheckFn … heapBase …` runs into "(kernel) deep recursion" — `heapBase` is the LITERAL
    0x10000000 on this machine and `x - 268435456` with symbolic `x` is unfolded 2^28 times — generalise first);
  * MONOTONICITY IN THE HEAP SIZE: a transition that does not fault in a configuration with a SMALLER heap region
    (heap monitor off in both) is the same transition in the larger configuration (`Sub mc' mc`); hence a run that
    ends with `done v` in the smaller heap is, state by state, the run in the larger heap, with the same
    `maxHeapWritten`.
-/
import Scc.RV.ConcStep

set_option linter.unusedVariables false
set_option linter.unusedSimpArgs false

namespace Scc.RV.Conc

open Scc.RV

/-- the highest heap address written lies inside the heap region -/
def MhwOK (mc : MonCfg) (s : State) : Prop := s.maxHeapWritten ≤ mc.heapBytes

/-! ## what an instruction does to `maxHeapWritten` -/

theorem writeReg_mhw (s : State) (r : Register) (v : Word) :
    (s.writeReg r v).maxHeapWritten = s.maxHeapWritten := by
  unfold State.writeReg; split <;> rfl

theorem copyReg_mhw (s : State) (x y : Register) : (s.copyReg x y).maxHeapWritten = s.maxHeapWritten := by
  unfold State.copyReg
  split
  · rfl
  · split <;> rfl

theorem arith3_mhw {s s' : State} {x y z : Register} {f : Word → Word → Except String Word} {n : Next}
    (h : arith3 s x y z f = .ok (s', n)) : s'.maxHeapWritten = s.maxHeapWritten := by
  unfold arith3 at h
  cases h1 : s.readReg y with
  | error e => rw [h1] at h; cases h
  | ok a =>
    rw [h1] at h; dsimp only at h
    cases h2 : s.readReg z with
    | error e => rw [h2] at h; cases h
    | ok b =>
      rw [h2] at h; dsimp only at h
      cases h3 : f a b with
      | error e => rw [h3] at h; cases h
      | ok v =>
        rw [h3] at h
        simp only [Except.ok.injEq, Prod.mk.injEq] at h
        rw [← h.1]; exact writeReg_mhw _ _ _

theorem branch_state {s s' : State} {x y : Register} {l : String} {cond : Word → Word → Bool} {n : Next}
    (h : branch s x y l cond = .ok (s', n)) : s' = s := by
  unfold branch at h
  cases h1 : s.readReg x with
  | error e => rw [h1] at h; cases h
  | ok a =>
    rw [h1] at h; dsimp only at h
    cases h2 : s.readReg y with
    | error e => rw [h2] at h; cases h
    | ok b =>
      rw [h2] at h
      simp only [Except.ok.injEq, Prod.mk.injEq] at h
      exact h.1.symm

theorem checkAddr_ok {mc : MonCfg} {a : Nat} (h : checkAddr mc a = .ok ()) :
    a % 8 = 0 ∧ heapBase ≤ a ∧ a + 8 ≤ heapBase + mc.heapBytes := by
  unfold checkAddr at h
  split at h
  · cases h
  · rename_i h8
    split at h
    · rename_i hin; exact ⟨by omega, hin.1, hin.2⟩
    · cases h

theorem store_mhw {mc : MonCfg} {s s' : State} {a : Nat} {v : Word} (h : s.store mc a v = .ok s') :
    s.maxHeapWritten ≤ s'.maxHeapWritten ∧ (MhwOK mc s → MhwOK mc s') := by
  unfold State.store at h
  cases hc : checkAddr mc a with
  | error e => rw [hc] at h; cases h
  | ok u =>
    rw [hc] at h
    simp only [Except.ok.injEq] at h
    subst h
    obtain ⟨_, h1, h2⟩ := checkAddr_ok hc
    refine ⟨Nat.le_max_left _ _, fun hs => ?_⟩
    unfold MhwOK at *
    show max s.maxHeapWritten _ ≤ _
    omega

/-- one instruction: `maxHeapWritten` does not decrease and stays inside the heap region -/
theorem exec_mhw {mc : MonCfg} {la : String → Option Nat} {pcAddr : Nat} {c : Code} {s s' : State} {n : Next}
    (h : exec mc la pcAddr c s = .ok (s', n)) :
    s.maxHeapWritten ≤ s'.maxHeapWritten ∧ (MhwOK mc s → MhwOK mc s') := by
  have heq : ∀ {t : State}, t.maxHeapWritten = s.maxHeapWritten →
      s.maxHeapWritten ≤ t.maxHeapWritten ∧ (MhwOK mc s → MhwOK mc t) := by
    intro t e
    unfold MhwOK
    rw [e]
    exact ⟨Nat.le_refl _, id⟩
  cases c <;> simp only [exec] at h
  case ADD => exact heq (arith3_mhw h)
  case SUB => exact heq (arith3_mhw h)
  case MUL => exact heq (arith3_mhw h)
  case DIV => exact heq (arith3_mhw h)
  case REM => exact heq (arith3_mhw h)
  case ADDI x y c =>
    cases h1 : s.readReg y with
    | error e => rw [h1] at h; cases h
    | ok a =>
      rw [h1] at h
      simp only [Except.ok.injEq, Prod.mk.injEq] at h
      rw [← h.1]; exact heq (writeReg_mhw _ _ _)
  case LI x c =>
    simp only [Except.ok.injEq, Prod.mk.injEq] at h
    rw [← h.1]; exact heq (writeReg_mhw _ _ _)
  case MV x y =>
    simp only [Except.ok.injEq, Prod.mk.injEq] at h
    rw [← h.1]; exact heq (copyReg_mhw _ _ _)
  case LA x l =>
    cases h1 : la l with
    | none => rw [h1] at h; cases h
    | some a =>
      rw [h1] at h
      simp only [Except.ok.injEq, Prod.mk.injEq] at h
      rw [← h.1]; exact heq (writeReg_mhw _ _ _)
  case LW x y c =>
    cases h1 : s.readReg y with
    | error e => rw [h1] at h; cases h
    | ok b =>
      rw [h1] at h; dsimp only at h
      cases h2 : s.load mc (b + imm c).toNat with
      | error e => rw [h2] at h; cases h
      | ok v =>
        rw [h2] at h
        simp only [Except.ok.injEq, Prod.mk.injEq] at h
        rw [← h.1]; exact heq (writeReg_mhw _ _ _)
  case SW x y c =>
    cases h1 : s.readReg x with
    | error e => rw [h1] at h; cases h
    | ok v =>
      rw [h1] at h; dsimp only at h
      cases h2 : s.readReg y with
      | error e => rw [h2] at h; cases h
      | ok b =>
        rw [h2] at h; dsimp only at h
        cases h3 : s.store mc (b + imm c).toNat v with
        | error e => rw [h3] at h; cases h
        | ok s1 =>
          rw [h3] at h
          simp only [Except.ok.injEq, Prod.mk.injEq] at h
          rw [← h.1]; exact store_mhw h3
  case JAL x l =>
    simp only [Except.ok.injEq, Prod.mk.injEq] at h
    rw [← h.1]; exact heq (writeReg_mhw _ _ _)
  case JALR x y c =>
    cases h1 : s.readReg y with
    | error e => rw [h1] at h; cases h
    | ok b =>
      rw [h1] at h
      simp only [Except.ok.injEq, Prod.mk.injEq] at h
      rw [← h.1]; exact heq (writeReg_mhw _ _ _)
  case BEQ => rw [branch_state h]; exact heq rfl
  case BNE => rw [branch_state h]; exact heq rfl
  case BLT => rw [branch_state h]; exact heq rfl
  case BGE => rw [branch_state h]; exact heq rfl
  case BLE => rw [branch_state h]; exact heq rfl
  case BGT => rw [branch_state h]; exact heq rfl
  case LAB =>
    simp only [Except.ok.injEq, Prod.mk.injEq] at h
    rw [← h.1]; exact heq rfl
  case COMMENT =>
    simp only [Except.ok.injEq, Prod.mk.injEq] at h
    rw [← h.1]; exact heq rfl

theorem stepInstr_mhw {p : Program} {mc : MonCfg} {s s' : State} {it : Item}
    (h : stepInstr p mc s it = .inl s') :
    s.maxHeapWritten ≤ s'.maxHeapWritten ∧ (MhwOK mc s → MhwOK mc s') := by
  unfold stepInstr at h
  cases hx : exec mc p.labelAddr it.addr it.code s with
  | error e => rw [hx] at h; cases h
  | ok r =>
    obtain ⟨s1, next⟩ := r
    rw [hx] at h; dsimp only at h
    have h1 := exec_mhw hx
    have h1' : ∀ pc : Nat, s.maxHeapWritten ≤ ({ s1 with steps := s1.steps + 1, pc := pc } : State).maxHeapWritten ∧
        (MhwOK mc s → MhwOK mc ({ s1 with steps := s1.steps + 1, pc := pc } : State)) := fun _ => h1
    cases next with
    | fall =>
      simp only [Sum.inl.injEq] at h
      rw [← h]; exact h1' _
    | label l =>
      dsimp only at h
      cases hl : p.labelIdx[l]? with
      | none => rw [hl] at h; cases h
      | some i =>
        rw [hl] at h
        simp only [Sum.inl.injEq] at h
        rw [← h]; exact h1' _
    | addr a =>
      dsimp only at h
      cases hl : p.addrIdx[a.toNat]? with
      | none => rw [hl] at h; cases h
      | some i =>
        rw [hl] at h
        simp only [Sum.inl.injEq] at h
        rw [← h]; exact h1' _

theorem stepHook_mhw {mc : MonCfg} (hheap : mc.heap = false) {s s' : State} {it : Item}
    (h : stepHook mc s it = .inl s') : s'.maxHeapWritten = s.maxHeapWritten := by
  unfold stepHook at h
  rw [hheap] at h
  cases hr : it.roots with
  | none =>
    rw [hr] at h
    simp only [Sum.inl.injEq] at h
    rw [← h]
  | some rs =>
    rw [hr] at h
    simp only [Bool.false_eq_true, if_false, Sum.inl.injEq] at h
    rw [← h]

theorem stepLab_mhw {s s' : State} {it : Item} {l : String} (h : stepLab s it l = .inl s') :
    s'.maxHeapWritten = s.maxHeapWritten := by
  unfold stepLab at h
  split at h
  · split at h <;> cases h
  · simp only [Sum.inl.injEq] at h
    rw [← h]

/-- one unit of fuel: `maxHeapWritten` does not decrease and stays inside the heap region -/
theorem step_mhw {p : Program} {mc : MonCfg} (hheap : mc.heap = false) {s s' : State}
    (h : step p mc s = .inl s') :
    s.maxHeapWritten ≤ s'.maxHeapWritten ∧ (MhwOK mc s → MhwOK mc s') := by
  have heq : ∀ {t : State}, t.maxHeapWritten = s.maxHeapWritten →
      s.maxHeapWritten ≤ t.maxHeapWritten ∧ (MhwOK mc s → MhwOK mc t) := by
    intro t e
    unfold MhwOK
    rw [e]
    exact ⟨Nat.le_refl _, id⟩
  cases hit : p.items[s.pc]? with
  | none => rw [step_none hit] at h; cases h
  | some it =>
    rcases code_kind it.code with ⟨l, hc⟩ | ⟨m, hc⟩ | hi
    · rw [step_lab hit hc] at h; exact heq (stepLab_mhw h)
    · rw [step_hook hit hc] at h; exact heq (stepHook_mhw hheap h)
    · rw [step_instr hit hi] at h; exact stepInstr_mhw h

theorem stepN_mhw {p : Program} {mc : MonCfg} (hheap : mc.heap = false) : ∀ (n : Nat) {s s' : State},
    stepN p mc n s = .inl s' →
    s.maxHeapWritten ≤ s'.maxHeapWritten ∧ (MhwOK mc s → MhwOK mc s')
  | 0, s, s', h => by
    simp only [stepN, Sum.inl.injEq] at h
    subst h
    exact ⟨Nat.le_refl _, id⟩
  | n + 1, s, s', h => by
    simp only [stepN] at h
    cases hst : step p mc s with
    | inr r => rw [hst] at h; cases h
    | inl s1 =>
      rw [hst] at h
      have h1 := step_mhw hheap hst
      have h2 := stepN_mhw hheap n h
      exact ⟨Nat.le_trans h1.1 h2.1, fun hs => h2.2 (h1.2 hs)⟩

/-- a step that ends the run with `done v`: the result record carries the `maxHeapWritten` of the state -/
theorem step_done_mhw {p : Program} {mc : MonCfg} {s : State} {r : RunResult} {v : Word}
    (h : step p mc s = .inr r) (hv : r.res = .done v) : r.maxHeapWritten = s.maxHeapWritten := by
  cases hit : p.items[s.pc]? with
  | none =>
    rw [step_none hit] at h
    simp only [Sum.inr.injEq] at h
    rw [← h] at hv; cases hv
  | some it =>
    rcases code_kind it.code with ⟨l, hc⟩ | ⟨m, hc⟩ | hi
    · rw [step_lab hit hc] at h
      unfold stepLab at h
      split at h
      · cases hr : s.readReg RETURN1 with
        | ok w =>
          rw [hr] at h
          simp only [Sum.inr.injEq] at h
          rw [← h]; rfl
        | error e =>
          rw [hr] at h
          simp only [Sum.inr.injEq] at h
          rw [← h] at hv; cases hv
      · cases h
    · rw [step_hook hit hc] at h
      unfold stepHook at h
      cases hr : it.roots with
      | none => rw [hr] at h; cases h
      | some rs =>
        rw [hr] at h; dsimp only at h
        split at h
        · cases hm : heapMonitor mc s rs with
          | error e =>
            rw [hm] at h
            simp only [Sum.inr.injEq] at h
            rw [← h] at hv; cases hv
          | ok s1 => rw [hm] at h; cases h
        · cases h
    · rw [step_instr hit hi] at h
      unfold stepInstr at h
      cases hx : exec mc p.labelAddr it.addr it.code s with
      | error e =>
        rw [hx] at h
        simp only [Sum.inr.injEq] at h
        rw [← h] at hv; cases hv
      | ok r' =>
        obtain ⟨s1, next⟩ := r'
        rw [hx] at h; dsimp only at h
        cases next with
        | fall => cases h
        | label l =>
          dsimp only at h
          cases hl : p.labelIdx[l]? with
          | none =>
            rw [hl] at h
            simp only [Sum.inr.injEq] at h
            rw [← h] at hv; cases hv
          | some i => rw [hl] at h; cases h
        | addr a =>
          dsimp only at h
          cases hl : p.addrIdx[a.toNat]? with
          | none =>
            rw [hl] at h
            simp only [Sum.inr.injEq] at h
            rw [← h] at hv; cases hv
          | some i => rw [hl] at h; cases h

/-! ## monotonicity in the heap size -/

/-- `mc'` is `mc` with a smaller heap region (heap monitor off in both) -/
structure Sub (mc' mc : MonCfg) : Prop where
  bytes : mc'.heapBytes ≤ mc.heapBytes
  heap' : mc'.heap = false
  heap : mc.heap = false

section Mono
variable {mc' mc : MonCfg} (S : Sub mc' mc)
include S

theorem checkAddr_mono {a : Nat} (h : checkAddr mc' a = .ok ()) : checkAddr mc a = .ok () := by
  obtain ⟨h1, h2, h3⟩ := checkAddr_ok h
  have := S.bytes
  unfold checkAddr
  rw [if_neg (by omega), if_pos ⟨h2, by omega⟩]

theorem load_mono {s : State} {a : Nat} {v : Word} (h : s.load mc' a = .ok v) : s.load mc a = .ok v := by
  unfold State.load at *
  cases hc : checkAddr mc' a with
  | error e => rw [hc] at h; cases h
  | ok u => rw [hc] at h; rw [checkAddr_mono S hc]; exact h

theorem store_mono {s s' : State} {a : Nat} {v : Word} (h : s.store mc' a v = .ok s') :
    s.store mc a v = .ok s' := by
  unfold State.store at *
  cases hc : checkAddr mc' a with
  | error e => rw [hc] at h; cases h
  | ok u => rw [hc] at h; rw [checkAddr_mono S hc]; exact h

theorem exec_mono {la : String → Option Nat} {pcAddr : Nat} {c : Code} {s : State} {x : State × Next}
    (h : exec mc' la pcAddr c s = .ok x) : exec mc la pcAddr c s = .ok x := by
  cases c <;> simp only [exec] at h ⊢
  case LW x y c =>
    cases h1 : s.readReg y with
    | error e => rw [h1] at h; cases h
    | ok b =>
      rw [h1] at h; dsimp only at h ⊢
      cases h2 : s.load mc' (b + imm c).toNat with
      | error e => rw [h2] at h; cases h
      | ok v => rw [h2] at h; rw [load_mono S h2]; exact h
  case SW x y c =>
    cases h1 : s.readReg x with
    | error e => rw [h1] at h; cases h
    | ok v =>
      rw [h1] at h; dsimp only at h ⊢
      cases h2 : s.readReg y with
      | error e => rw [h2] at h; cases h
      | ok b =>
        rw [h2] at h; dsimp only at h ⊢
        cases h3 : s.store mc' (b + imm c).toNat v with
        | error e => rw [h3] at h; cases h
        | ok s1 => rw [h3] at h; rw [store_mono S h3]; exact h
  all_goals exact h

theorem stepHook_mono {s : State} {it : Item} : stepHook mc' s it = stepHook mc s it := by
  unfold stepHook
  rw [S.heap', S.heap]
  cases it.roots <;> simp

/-- a transition that does not fault in the smaller heap is the same transition in the larger heap -/
theorem step_mono {p : Program} {s s' : State} (h : step p mc' s = .inl s') : step p mc s = .inl s' := by
  cases hit : p.items[s.pc]? with
  | none => rw [step_none hit] at h; cases h
  | some it =>
    rcases code_kind it.code with ⟨l, hc⟩ | ⟨m, hc⟩ | hi
    · rw [step_lab hit hc] at h ⊢; exact h
    · rw [step_hook hit hc] at h ⊢; rw [← stepHook_mono S]; exact h
    · rw [step_instr hit hi] at h ⊢
      unfold stepInstr at h ⊢
      cases hx : exec mc' p.labelAddr it.addr it.code s with
      | error e => rw [hx] at h; cases h
      | ok r => rw [hx] at h; rw [exec_mono S hx]; exact h

/-- … and the end of the run with `done v` gives the same result record -/
theorem step_mono_done {p : Program} {s : State} {r : RunResult} {v : Word} (h : step p mc' s = .inr r)
    (hv : r.res = .done v) : step p mc s = .inr r := by
  cases hit : p.items[s.pc]? with
  | none => rw [step_none hit] at h ⊢; exact h
  | some it =>
    rcases code_kind it.code with ⟨l, hc⟩ | ⟨m, hc⟩ | hi
    · rw [step_lab hit hc] at h ⊢; exact h
    · rw [step_hook hit hc] at h ⊢; rw [← stepHook_mono S]; exact h
    · rw [step_instr hit hi] at h ⊢
      unfold stepInstr at h ⊢
      cases hx : exec mc' p.labelAddr it.addr it.code s with
      | error e =>
        rw [hx] at h
        simp only [Sum.inr.injEq] at h
        rw [← h] at hv; cases hv
      | ok r' => rw [hx] at h; rw [exec_mono S hx]; exact h

theorem stepN_mono {p : Program} : ∀ (n : Nat) {s s' : State},
    stepN p mc' n s = .inl s' → stepN p mc n s = .inl s'
  | 0, s, s', h => h
  | n + 1, s, s', h => by
    simp only [stepN] at h ⊢
    cases hst : step p mc' s with
    | inr r => rw [hst] at h; cases h
    | inl s1 =>
      rw [hst] at h
      rw [step_mono S hst]
      exact stepN_mono n h

/-- a run that ends with `done v` in the smaller heap is the same run in the larger heap -/
theorem runLoop_larger_heap (p : Program) : ∀ (f : Nat) (s : State) (v : Word),
    (runLoop p mc' f s).res = .done v → runLoop p mc f s = runLoop p mc' f s
  | 0, s, v, h => by rw [runLoop_zero] at h; cases h
  | f + 1, s, v, h => by
    rw [runLoop_succ] at h ⊢
    rw [runLoop_succ p mc' f s]
    cases hst : step p mc' s with
    | inl s1 =>
      rw [hst] at h
      rw [step_mono S hst]
      exact runLoop_larger_heap p f s1 v h
    | inr r =>
      rw [hst] at h
      rw [step_mono_done S hst h]

end Mono

/-- the configuration with a heap of `b` bytes -/
def withHeapBytes (mc : MonCfg) (b : Nat) : MonCfg := { mc with heapBytes := b }

theorem sub_withHeapBytes {mc : MonCfg} (hheap : mc.heap = false) {b : Nat} (hb : b ≤ mc.heapBytes) :
    Sub (withHeapBytes mc b) mc := ⟨hb, hheap, hheap⟩

end Scc.RV.Conc
