/-
  Scc.RV.LayoutLemmas — proof file: facts about the code layout of the RV64 machine
  (Scc/RV/Machine.lean `layoutStep`, `layoutLoop`, `layout`): items are only appended, every
  instruction advances the address by 4, and therefore the entries of a jump table (a label
  followed by `JAL X0 …` instructions) are at `address(label) + 4 k`.  Used by Scc/Props/C14RV.lean.
-/
import Scc.RV.Machine

set_option linter.unusedSimpArgs false

namespace Scc.RV

/-- what layout records about a line: code and address -/
def Item.view (it : Item) : Code × Nat := (it.code, it.addr)

theorem layoutStep_instr (st : LayoutSt) (n : Nat) (c : Code) (hc : c.isInstr = true) :
    layoutStep st (n, c) = .ok { st with
      items := st.items.push ⟨n, c, st.addr, none⟩
      addrIdx := st.addrIdx.insert st.addr (st.pendingLabel.getD st.items.size)
      addr := st.addr + 4
      pendingLabel := none } := by
  cases c <;> simp [layoutStep, Code.isInstr] at hc ⊢

theorem layoutStep_label (st : LayoutSt) (n : Nat) (L : String) :
    ∃ stL, layoutStep st (n, .LAB L) = .ok stL ∧
      stL.items = st.items.push ⟨n, .LAB L, st.addr, none⟩ ∧ stL.addr = st.addr :=
  ⟨_, rfl, rfl, rfl⟩

/-- a layout step only appends items -/
theorem layoutStep_items {st st' : LayoutSt} {lc : Nat × Code} (h : layoutStep st lc = .ok st') :
    st.items.size ≤ st'.items.size ∧ ∀ i, i < st.items.size → st'.items[i]? = st.items[i]? := by
  obtain ⟨n, c⟩ := lc
  by_cases hc : c.isInstr = true
  · rw [layoutStep_instr st n c hc] at h
    injection h with h
    subst h
    refine ⟨by simp, ?_⟩
    intro i hi
    simp [Array.getElem?_push, Nat.ne_of_lt hi]
  · cases c <;> simp [Code.isInstr] at hc
    case LAB l =>
      simp only [layoutStep] at h
      injection h with h
      subst h
      refine ⟨by simp, ?_⟩
      intro i hi
      simp [Array.getElem?_push, Nat.ne_of_lt hi]
    case COMMENT msg =>
      simp only [layoutStep] at h
      split at h
      · injection h with h; subst h; exact ⟨Nat.le_refl _, fun _ _ => rfl⟩
      · cases h
      · injection h with h
        subst h
        refine ⟨by simp, ?_⟩
        intro i hi
        simp [Array.getElem?_push, Nat.ne_of_lt hi]

theorem layoutLoop_items {lines : List (Nat × Code)} : ∀ {st st' : LayoutSt},
    layoutLoop st lines = .ok st' →
    st.items.size ≤ st'.items.size ∧ ∀ i, i < st.items.size → st'.items[i]? = st.items[i]? := by
  induction lines with
  | nil =>
    intro st st' h
    simp only [layoutLoop] at h
    injection h with h; subst h
    exact ⟨Nat.le_refl _, fun _ _ => rfl⟩
  | cons lc rest ih =>
    intro st st' h
    simp only [layoutLoop] at h
    split at h
    · cases h
    · rename_i st1 h1
      have ⟨hs1, hi1⟩ := layoutStep_items h1
      have ⟨hs2, hi2⟩ := ih h
      refine ⟨Nat.le_trans hs1 hs2, ?_⟩
      intro i hi
      rw [hi2 i (Nat.lt_of_lt_of_le hi hs1), hi1 i hi]

theorem layoutLoop_append (a b : List (Nat × Code)) : ∀ (st : LayoutSt),
    layoutLoop st (a ++ b) =
      match layoutLoop st a with
      | .error e => .error e
      | .ok st1 => layoutLoop st1 b := by
  induction a with
  | nil => intro st; simp [layoutLoop]
  | cons lc rest ih =>
    intro st
    simp only [List.cons_append, layoutLoop]
    cases h : layoutStep st lc with
    | error e => rfl
    | ok st1 => simp [ih st1]

/-- a run of `JAL X0 …` lines is laid out at consecutive addresses, 4 bytes apart -/
theorem layoutLoop_jals (es : List (Nat × String)) : ∀ (st : LayoutSt),
    ∃ st', layoutLoop st (es.map fun e => (e.1, Code.JAL ZERO e.2)) = .ok st' ∧
      st'.items.size = st.items.size + es.length ∧
      ∀ k (hk : k < es.length),
        (st'.items[st.items.size + k]?).map Item.view = some (.JAL ZERO es[k].2, st.addr + 4 * k) := by
  induction es with
  | nil => intro st; exact ⟨st, by simp [layoutLoop], by simp, by intro k hk; simp at hk⟩
  | cons e rest ih =>
    intro st
    have hstep := layoutStep_instr st e.1 (.JAL ZERO e.2) rfl
    obtain ⟨st', hl, hsz, hk'⟩ := ih { st with
      items := st.items.push ⟨e.1, .JAL ZERO e.2, st.addr, none⟩
      addrIdx := st.addrIdx.insert st.addr (st.pendingLabel.getD st.items.size)
      addr := st.addr + 4
      pendingLabel := none }
    refine ⟨st', ?_, ?_, ?_⟩
    · simp only [List.map_cons, layoutLoop, hstep]
      exact hl
    · simp only [Array.size_push] at hsz
      simp only [List.length_cons]
      omega
    · intro k hk
      cases k with
      | zero =>
        have ⟨_, hmono⟩ := layoutLoop_items hl
        have := hmono st.items.size (by simp)
        simp only [Nat.add_zero, List.getElem_cons_zero, Nat.mul_zero]
        rw [this]
        simp [Item.view]
      | succ j =>
        have hj : j < rest.length := by simpa using hk
        have := hk' j hj
        simp only [Array.size_push] at this
        simp only [List.getElem_cons_succ]
        rw [show st.items.size + (j + 1) = st.items.size + 1 + j by omega,
          show st.addr + 4 * (j + 1) = st.addr + 4 + 4 * j by omega]
        exact this

/-- C14-T1 on the machine's layout: in the laid-out program, the k-th `JAL` directly after a table
label `L` is at `address(L) + 4 k`.  (`i` = item index of the label, `A` = its address.) -/
theorem layout_table_stride (pre post : List (Nat × Code)) (n0 : Nat) (L : String)
    (es : List (Nat × String)) (p : Program)
    (h : layout (pre ++ ((n0, Code.LAB L) :: es.map fun e => (e.1, Code.JAL ZERO e.2)) ++ post) = .ok p) :
    ∃ i A, (p.items[i]?).map Item.view = some (.LAB L, A) ∧
      ∀ k (hk : k < es.length),
        (p.items[i + 1 + k]?).map Item.view = some (.JAL ZERO es[k].2, A + 4 * k) := by
  unfold layout at h
  split at h
  · cases h
  · rename_i st hloop
    injection h with h
    subst h
    simp only
    rw [List.append_assoc, layoutLoop_append] at hloop
    split at hloop
    · cases hloop
    · rename_i st1 hpre
      obtain ⟨stL, hL, hitems, haddr⟩ := layoutStep_label st1 n0 L
      rw [List.cons_append, layoutLoop, hL] at hloop
      simp only at hloop
      rw [layoutLoop_append] at hloop
      obtain ⟨st2, hjals, hsz2, hk2⟩ := layoutLoop_jals es stL
      rw [hjals] at hloop
      simp only at hloop
      have ⟨hsz3, hmono3⟩ := layoutLoop_items hloop
      have ⟨_, hmono2⟩ := layoutLoop_items hjals
      rw [hitems] at hsz2 hk2 hmono2
      rw [haddr] at hk2
      simp only [Array.size_push] at hsz2 hk2 hmono2
      refine ⟨st1.items.size, st1.addr, ?_, ?_⟩
      · rw [hmono3 _ (by omega), hmono2 _ (by omega)]
        simp [Item.view]
      · intro k hk
        rw [hmono3 _ (by omega)]
        exact hk2 k hk

end Scc.RV
