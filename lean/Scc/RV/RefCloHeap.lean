/-
  Scc.RV.RefCloHeap — Theorem B (RV64), CLOSURES: the representation with machine words (`CV`, RefCloDefs.lean)
  along the heap operations of the abstract machine — the twins of the `RepV` parts of
  `eraseLoop_ok` / `erase_ok` (Backend/ProofsErase.lean), `readFields_ok2` (Backend/ProofsHeap2.lean) and
  `load_sim` (Backend/ProofsLoad.lean).
-/
import Scc.RV.RefCloDefs
import Scc.Backend.ProofsLoad
import Scc.Backend.ProofsErase
import Scc.Backend.ProofsHeap2

set_option linter.unusedVariables false
set_option linter.unusedSimpArgs false

namespace Scc.RV.Ref

open Scc.AxCut Scc.AxCut.Pos Scc.Backend Scc.Backend.Abs Scc.Backend.Sim Scc.Backend.Sim2
open Scc.Heap.Refine (loadAbs)

variable {P : Abs.Program} {hooks : Bool} {types : List TypeDecl} {Q : Word → Ctx → Clauses → Prop}

/-! ## `erase` -/

theorem eraseLoop_cv {τ : Nat → Nat → Word} {next : Nat} :
    ∀ (fuel : Nat) (work : List Nat) (h : Heap) (rs : List Nat),
    HeapOK h (rs ++ work) next → work.length + h.totalFields < fuel →
    ∀ h', Heap.eraseLoop fuel work h = .ok h' →
      ∀ (v : Value) (p : Option Word) (w m : Word), CV P hooks types Q τ h v p w m →
        (∀ r, p = some r → r ≠ 0 → r.toNat ∈ rs) → CV P hooks types Q τ h' v p w m
  | 0, _, _, _, _, hfuel, _, _ => by omega
  | fuel + 1, [], h, rs, H, _, h', he => by
    simp only [Heap.eraseLoop] at he
    injection he with he
    subst he
    exact fun _ _ _ _ hv _ => hv
  | fuel + 1, id :: work, h, rs, H, hfuel, h', he => by
    have hmem : id ∈ rs ++ id :: work := by simp
    have hlive : (h.get id).isSome := by
      apply H.live
      have : 0 < (rs ++ id :: work).count id := List.count_pos_iff.mpr hmem
      simp only [refCount_eq]
      omega
    cases hg : h.get id with
    | none => simp [hg] at hlive
    | some o =>
      by_cases hcount : o.count > 0
      · have H1 : HeapOK (h.set id { o with count := o.count - 1 }) (rs ++ work) next := by
          apply heapOK_setCount H hg
          · intro x hx
            have : ¬ (id = x) := fun e => hx e.symm
            simp [List.count_append, List.count_cons, this]
          · simp [List.count_append, List.count_cons]; omega
        have htf : (h.set id { o with count := o.count - 1 }).totalFields = h.totalFields :=
          totalFields_set H.nodup hg rfl
        have hfuel1 : work.length + (h.set id { o with count := o.count - 1 }).totalFields < fuel := by
          rw [htf]; simp only [List.length_cons] at hfuel; omega
        simp only [Heap.eraseLoop, hg, hcount, if_true] at he
        have R' := eraseLoop_cv (τ := τ) fuel work _ rs H1 hfuel1 h' he
        intro v p w m hv hp
        exact R' v p w m (CV.kept (allFieldsKept_set hg _) (fun _ _ _ => rfl) hv) hp
      · have h0 : o.count = 0 := by omega
        obtain ⟨hcnt, hunref⟩ := heapOK_unique H hg h0 hmem
        have hnotroot : id ∉ rs := by
          intro hm
          have : 0 < rs.count id := List.count_pos_iff.mpr hm
          simp [List.count_append, List.count_cons] at hcnt
          omega
        have hkept : FieldsKept h (h.remove id) id := by
          intro id' o' hne hg'
          exact ⟨o', by rw [heap_get_remove_other _ hne]; exact hg', rfl⟩
        have H1 : HeapOK (h.remove id) (rs ++ (o.children ++ work)) next := by
          apply heapOK_remove H hg h0
          intro x
          simp only [List.count_append, List.count_cons, List.count_nil]
          by_cases hx : x = id
          · subst hx; simp; omega
          · have : ¬ (id = x) := fun e => hx e.symm
            simp [hx, this]; omega
        have hfuel1 : (o.children ++ work).length + (h.remove id).totalFields < fuel := by
          have h1 := totalFields_remove H.nodup hg
          have h2 := Scc.Backend.Sim2.children_length_le o
          simp only [List.length_cons] at hfuel
          simp only [List.length_append]
          omega
        simp only [Heap.eraseLoop, hg, hcount, if_false] at he
        have R' := eraseLoop_cv (τ := τ) fuel (o.children ++ work) _ rs H1 hfuel1 h' he
        intro v p w m hv hp
        refine R' v p w m (CV.transfer hkept hunref (fun _ _ _ _ => rfl) hv ?_) hp
        intro r hr hr0 e
        exact hnotroot (e ▸ hp r hr hr0)

theorem erase_cv {τ : Nat → Nat → Word} {h h' : Heap} {rs : List Nat} {next : Nat} (ref : Word)
    (H : HeapOK h (rs ++ (if ref != 0 then [ref.toNat] else [])) next) (he : h.erase ref = .ok h') :
    ∀ (v : Value) (p : Option Word) (w m : Word), CV P hooks types Q τ h v p w m →
      (∀ r, p = some r → r ≠ 0 → r.toNat ∈ rs) → CV P hooks types Q τ h' v p w m := by
  by_cases hr : ref = 0
  · subst hr
    simp [Heap.erase] at he
    subst he
    exact fun _ _ _ _ hv _ => hv
  · have h1 : (ref != 0) = true := by rw [bne_iff_ne]; exact hr
    have h2 : (ref == 0) = false := by rw [beq_eq_false_iff_ne]; exact hr
    simp only [h1, if_true] at H
    simp only [Heap.erase, h2, Bool.false_eq_true, if_false] at he
    exact eraseLoop_cv (P := P) (hooks := hooks) (types := types) (Q := Q) (τ := τ)
      (h.totalFields + 2) [ref.toNat] h rs H (by simp only [List.length_cons, List.length_nil]; omega) h' he

/-! ## what `store` reads -/

/-- twin of `readFields_ok2`: the fields read by `store` represent the values, the closures among them with the
machine words of their positions -/
theorem readFields_cv {cw : Nat → Word} {τ : Nat → Nat → Word} {h : Heap} {σ : Temps} :
    ∀ (Δ : Ctx) (ρΔ : List Value) (k : Nat) (fields : List Field),
    (∀ i (h1 : i < Δ.length) (h2 : i < ρΔ.length),
      CV P hooks types Q τ h ρΔ[i] (if Δ[i].chi == .ext then none else σ.get (2 * (k + i)))
        ((σ.get (2 * (k + i) + 1)).getD 0) (cw (k + i)) ∧ Δ[i].chi = Sim2.kindOf ρΔ[i]) →
    ρΔ.length = Δ.length → readFields σ (Mock.kindsOf Δ) k = some fields →
    CF P hooks types Q τ h ρΔ fields cw k
  | [], ρΔ, k, fields, _, hl, hf => by
    have : ρΔ = [] := List.length_eq_zero_iff.mp (by simpa using hl)
    subst this
    simp only [Mock.kindsOf, List.map_nil, readFields, Option.some.injEq] at hf
    subst hf
    exact .nil _ _
  | b :: Δ, ρΔ, k, fields, S, hl, hf => by
    cases ρΔ with
    | nil => simp at hl
    | cons v vs =>
      simp only [Mock.kindsOf, List.map_cons, readFields] at hf
      cases hw : σ.get (2 * k + 1) with
      | none => simp [hw] at hf
      | some w =>
        cases hr : readFields σ (Δ.map (·.chi)) (k + 1) with
        | none => simp [hw, hr] at hf
        | some rest =>
          have ih := readFields_cv (cw := cw) (τ := τ) (h := h) (σ := σ) Δ vs (k + 1) rest
            (fun i h1 h2 => by
              have := S (i + 1) (by simp; omega) (by simp; omega)
              simp only [List.getElem_cons_succ] at this
              rw [show k + (i + 1) = k + 1 + i by omega] at this
              exact this)
            (by simpa using hl) hr
          obtain ⟨hv, hkind⟩ := S 0 (by simp) (by simp)
          simp only [List.getElem_cons_zero, Nat.add_zero, hw, Option.getD_some] at hv hkind
          simp only [hw, hr] at hf
          by_cases hext : (b.chi == .ext) = true
          · rw [if_pos hext] at hf
            injection hf with hf
            subst hf
            refine .cons v vs _ rest cw k ?_ hkind ih
            simp only [hext, if_true] at hv ⊢
            exact hv
          · rw [if_neg hext] at hf
            cases hp : σ.get (2 * k) with
            | none => simp [hp] at hf
            | some p =>
              simp only [hp] at hf
              injection hf with hf
              subst hf
              refine .cons v vs _ rest cw k ?_ hkind ih
              simp only [hext, hp] at hv ⊢
              simpa using hv

/-! ## `load` -/

/-- twin of the `ValsOK2` part of `load_sim`, for the explicit heap after the abstract `load` -/
theorem load_cv {cw : Nat → Word} {τ : Nat → Nat → Word} {Γ Δ : Ctx} {ρ vs : List Value} {h h' : Heap}
    {σ σ4 : Temps} {next : Nat} {r : Word} {o : Obj}
    (V : CVals P hooks types Q cw τ h σ Γ ρ) (hlen : ρ.length = Γ.length)
    (hcap : 2 * (Γ.length + Δ.length) + 2 < Mock.T_TEMP)
    (hr0 : r ≠ 0) (hg : h.get r.toNat = some o)
    (hF : CF P hooks types Q τ h vs o.fields (τ r.toNat) 0)
    (hfk : o.fields.map (·.chi) = Mock.kindsOf Δ)
    (H : HeapOK h (roots Γ σ ++ [r.toNat]) next)
    (h4 : ∀ t, t < 2 * Γ.length → σ4.get t = σ.get t)
    (hlo : loadAbs h r.toNat o = .ok h') :
    CVals P hooks types Q (loadCw cw Γ.length (τ r.toNat)) τ h'
      (writeFields (clobberTemp σ4) o.fields Γ.length) (Γ ++ Δ) (ρ ++ vs) := by
  have hflen : o.fields.length = Δ.length := by
    have := congrArg List.length hfk
    simpa [Mock.kindsOf] using this
  have hvlen : vs.length = o.fields.length := CF.length_eq hF
  have hσlow : ∀ t, t < 2 * Γ.length →
      (writeFields (clobberTemp σ4) o.fields Γ.length).get t = σ.get t := by
    intro t ht
    rw [writeFields_get_low _ _ _ _ ht, get_clobberTemp _ (by omega)]
    exact h4 t ht
  have hcwlow : ∀ i, i < Γ.length → loadCw cw Γ.length (τ r.toNat) i = cw i := by
    intro i hi; simp only [loadCw]; rw [if_pos hi]
  -- the loaded positions, in any heap that still represents the fields
  have hnew : (∀ j (h1 : j < vs.length) (h2 : j < o.fields.length),
        CV P hooks types Q τ h' vs[j]
          (if o.fields[j].chi == .ext then none else some o.fields[j].ptr) o.fields[j].val (τ r.toNat j)) →
      ∀ j (h1 : j < Δ.length) (h2 : j < vs.length),
        CV P hooks types Q τ h' vs[j]
          (if Δ[j].chi == .ext then none
           else (writeFields (clobberTemp σ4) o.fields Γ.length).get (2 * (Γ.length + j)))
          (((writeFields (clobberTemp σ4) o.fields Γ.length).get (2 * (Γ.length + j) + 1)).getD 0)
          (loadCw cw Γ.length (τ r.toNat) (Γ.length + j)) := by
    intro hrep j h1 h2
    have h3 : j < o.fields.length := by omega
    have hchi : o.fields[j].chi = Δ[j].chi := by
      have := congrArg (fun l => l[j]?) hfk
      simp only [Mock.kindsOf, List.getElem?_map, List.getElem?_eq_getElem h3,
        List.getElem?_eq_getElem h1, Option.map_some, Option.some.injEq] at this
      exact this
    rw [writeFields_get_val _ _ _ j h3, writeFields_get_ptr _ _ _ j h3, ← hchi]
    have hcwj : loadCw cw Γ.length (τ r.toNat) (Γ.length + j) = τ r.toNat j := by
      simp only [loadCw]
      rw [if_neg (by omega), Nat.add_sub_cancel_left]
    rw [hcwj]
    have := hrep j h2 h3
    by_cases hce : (o.fields[j].chi == .ext) = true
    · simpa [hce] using this
    · simpa [hce] using this
  unfold loadAbs at hlo
  by_cases hcount : o.count = 0
  · have hc0 : (o.count == 0) = true := by rw [hcount]; rfl
    rw [if_pos hc0] at hlo
    injection hlo with hlo
    subst hlo
    have hmemr : r.toNat ∈ roots Γ σ ++ [r.toNat] := by simp
    obtain ⟨hcnt, hunref⟩ := heapOK_unique H hg hcount hmemr
    have hnotroot : r.toNat ∉ roots Γ σ := by
      intro hm
      have : 0 < (roots Γ σ).count r.toNat := List.count_pos_iff.mpr hm
      simp [List.count_append] at hcnt
      omega
    have hkept : FieldsKept h (h.remove r.toNat) r.toNat := by
      intro id o' hne hg'
      exact ⟨o', by rw [heap_get_remove_other _ hne]; exact hg', rfl⟩
    apply CVals.append _ hlen
    · apply hnew
      intro j h1 h2
      have := CF.get hF j h1 h2
      rw [Nat.zero_add] at this
      refine CV.transfer hkept hunref (fun _ _ _ _ => rfl) this ?_
      intro p hp hp0 e
      by_cases hce : (o.fields[j].chi == .ext) = true
      · simp [hce] at hp
      · simp only [hce, Bool.false_eq_true, if_false, Option.some.injEq] at hp
        subst hp
        exact hunref _ _ hg (e ▸ mem_children (List.getElem_mem h2)
          (fun e' => hce ((Sim2.chi_beq_ext _).mpr e')) hp0)
    · apply CVals.congr _ hσlow hcwlow
      apply V.transfer hkept hunref (fun _ _ _ _ => rfl)
      intro i hi hci p hp hp0 e
      exact hnotroot (e ▸ mem_roots hi hci hp hp0)
  · have hc0 : (o.count == 0) = false := by rw [beq_eq_false_iff_ne]; exact hcount
    rw [if_neg (by rw [hc0]; simp)] at hlo
    have H1 : HeapOK (h.set r.toNat { o with count := o.count - 1 }) (roots Γ σ) next := by
      apply heapOK_setCount H hg
      · intro x hx
        have : ¬ (r.toNat = x) := fun e => hx e.symm
        simp [List.count_append, List.count_cons, this]
      · simp [List.count_append]; omega
    have hlive : ∀ c ∈ o.children, 0 < c ∧ c < 2 ^ 64 ∧
        ((h.set r.toNat { o with count := o.count - 1 }).get c).isSome := by
      intro c hc'
      obtain ⟨a, b, d⟩ := heapOK_child_live H hg hc'
      refine ⟨a, b, ?_⟩
      by_cases e : c = r.toNat
      · rw [e, heap_get_set_same]; rfl
      · rw [heap_get_set_other _ _ e]; exact d
    obtain ⟨h'', hs, H', K'⟩ := shareAll_ok o.children _ _ _ H1 hlive
    rw [hlo] at hs
    injection hs with hs
    subst hs
    have K : AllFieldsKept h h' := (allFieldsKept_set hg _).trans K'
    apply CVals.append _ hlen
    · apply hnew
      intro j h1 h2
      have := CF.get hF j h1 h2
      rw [Nat.zero_add] at this
      exact CV.kept K (fun _ _ _ => rfl) this
    · exact CVals.congr (V.kept K (fun _ _ _ => rfl)) hσlow hcwlow

end Scc.RV.Ref
