/-
  Scc.RV.ConcAllFuel — EVERY AMOUNT OF MACHINE FUEL, runs that do not terminate included, ALL PROGRAMS, on RV64 (the
  port of Scc/X86/ConcKProgress.lean and ConcKAllFuel.lean).
  * `run3_progress` — PROGRESS: every `call` and every `invoke` makes the machine consume at least one unit of fuel
    (`ReachP`, Scc/RV/ConcJump.lean; `StepSim3P`, ConcStep3.lean), every other step of the positional machine moves
    to a strictly smaller statement (`size_step`, `hered_size`: Scc/X86/ConcKProgress.lean — about AxCut only).  So
    along a run of the positional machine that is still going after `N·(M + 1) + |stmt|` steps the machine consumes
    at least `N` units of fuel WITHOUT FAULT.
  * facts about the run loop for every amount of fuel: `runLoop_outOfFuel`, `runLoop_res_of_done`, `runLoop_mhw`,
    `runLoop_eq_tight` (a run that does not fault in a smaller heap is the same run in a larger heap).
  * `programs_progress_gen`, `programs_all_fuel_gen`, `programs_dsize_all`.
-/
import Scc.RV.ConcData
import Scc.X86.ConcKProgress
import Scc.X86.ConcAllFuel

set_option linter.unusedVariables false
set_option linter.unusedSimpArgs false

namespace Scc.RV.Conc

open Scc Scc.AxCut Scc.AxCut.Pos Scc.Backend Scc.Backend.Abs Scc.Backend.Sim Scc.Backend.Subst Scc.RV Scc.RV.Ref
open Scc.Backend.Sim2 Scc.Backend.Keys
open Scc.Props.C14Generic (LabelSafe)
open Scc.Props.C06Generic (outAfter WithinCapacity Reachable EnoughHeap CodeFits statesOf stopsWithin)
open Scc.Heap (HState InvS InvW Exhausted)
open Scc.Heap.Refine (HRef FrLe Room FrPk)
open Scc.X86.Conc (FrBound LiveLe LiveLe0 valsFields stmtSize clausesSize stmtSize_pos clausesSize_nth
  run_eq_runState)
open Scc.X86.Ref.K (allocArity AllocLe AllocLeClauses ValAll valAll_ints hered_step hered_allocLe allocArity_le)
open Scc.X86.ConcK (hered_size size_step)

/-! ## progress -/

section Run3P

variable {mc : MonCfg} {pr : RV.Program} {ks : List Code} (L : Loaded pr ks)
  (hndL : (labs ks).Nodup) (hheap : mc.heap = false) {ic : Nat} (hclean : labIdx ks "cleanup" = some ic)
  (hicl : ic + 1 = ks.length)
  (hfitX : codeBase + 4 * icount ks < 2 ^ 64)

include L hndL hheap hclean hicl hfitX in
/-- PROGRESS, all programs: along a run of the positional machine that is still going after
`N·(M + 1) + |stmt|` steps, the machine consumes at least `N` units of fuel without fault -/
theorem run3_progress (hooks : Bool) (prog : AxCut.Prog) (c : Nat) (code : List MockOp) (nargs c' : Nat)
    (hcomp : (compile mockSym hooks prog).run c = .ok ((code, nargs), c'))
    (hsafe : LabelSafe prog = true) (htp : LinTypedProg prog) (hfit : CodeFits code)
    (DX : KDefsAt ks hooks prog) (Pk C A M : Nat)
    (hA : ∀ d ∈ prog.defs, AllocLe A d.body) (hM : ∀ d ∈ prog.defs, stmtSize d.body ≤ M)
    (hbytes : 64 * (Pk + A + 2) ≤ mc.heapBytes) :
    ∀ (fuel N : Nat) (st : Pos.State) (acc : List (Bool × Word)) (cfg : Config) (hs : HState) (X : State)
      (Cb : Nat),
      Pos.StateTyped prog st → (∀ st', Reachable prog st st' → st'.ctx.length ≤ 14) →
      Rel3 mc ks (Program.ofOps code) hooks prog st cfg hs X → AllocLe A st.stmt →
      (∀ w ∈ st.env, ValAll (AllocLeClauses A) w) →
      stmtSize st.stmt ≤ M → (∀ w ∈ st.env, ValAll (fun cl => clausesSize cl ≤ M) w) →
      cfg.next + fuel < 2 ^ 64 → FrBound hs (Pk + 1) →
      FrBound hs Cb → Cb + A * fuel ≤ C →
      PeakFrom mc pr ks (Program.ofOps code) hooks prog st X Pk C →
      (Pos.runState prog fuel st acc).res = .outOfFuel → N * (M + 1) + stmtSize st.stmt ≤ fuel →
      ∃ n X', N ≤ n ∧ stepN pr mc n X = .inl X'
  | _, 0, _, _, _, _, X, _, _, _, _, _, _, _, _, _, _, _, _, _, _, _ => ⟨0, X, Nat.le_refl _, rfl⟩
  | 0, N + 1, st, _, _, _, _, _, _, _, _, _, _, _, _, _, _, _, _, _, _, hN => by
    have := stmtSize_pos st.stmt
    omega
  | fuel + 1, N + 1, st, acc, cfg, hs, X, Cb, T, hcap, R, hlet, hvals, hszM, hvalsM, hnext, hfb,
      hcb, hC, hP, hrun, hN => by
    have hX3 : ∃ Γ' ι cw τ, X3 mc cw τ Γ' cfg hs ι X := by
      obtain ⟨Γ', ι, cw, τ, _, _, X3h, _⟩ := R
      exact ⟨Γ', ι, cw, τ, X3h⟩
    obtain ⟨Γ0, ι0, cw0, τ0, X3h⟩ := hX3
    have hbase := X3h.hrel.base
    have hlimit := X3h.hrel.limit
    have hAr := allocArity_le hlet
    have hroom : Room hs (64 * allocArity st.stmt + 64) :=
      Scc.X86.Conc.Room.of_frBound hfb (by rw [hbase, hlimit]; omega)
    have hsim := step3P L hndL hheap hclean hicl hfitX hooks prog c code nargs c' hcomp hsafe htp hfit
      DX st cfg hs X R T (by unfold EnoughHeap; omega) hroom
    have hsafe' := Pos.step_safe htp st T
    have hw : ∃ rs lin lazy live F, InvS hs rs [] lin lazy live F := by
      obtain ⟨lin, lazy, live, Fr, I⟩ := X3h.href.conc
      exact ⟨_, lin, lazy, live, Fr, I⟩
    unfold StepSim3P at hsim
    simp only [Pos.runState] at hrun
    cases hst : Pos.step prog st with
    | stuck w => simp [hst] at hrun
    | done v' => simp [hst] at hrun
    | next st' o =>
      simp only [hst] at hrun hsim
      rw [hst] at hsafe'
      have hc' := hcap st' (Reachable.step Reachable.refl hst)
      obtain ⟨cfg', hs', X', ⟨k, hk⟩, hreal, h3, hfr, hpk, R'⟩ := hsim (withinCapacity_of_le hc') hc'
      obtain ⟨hlet', hvals'⟩ := hered_step (hered_allocLe A) hA hst hlet hvals
      obtain ⟨hszM', hvalsM'⟩ := hered_step (hered_size M) hM hst hszM hvalsM
      have hcb' : FrBound hs' (Cb + A) := hcb.of_frLe (FrLe.mono' hfr (by omega)) hw
      have hC' : Cb + A + A * fuel ≤ C := by
        have : A * (fuel + 1) = A * fuel + A := Nat.mul_succ A fuel
        omega
      have hcapr : ∀ st'', Reachable prog st' st'' → st''.ctx.length ≤ 14 :=
        fun st'' hr => hcap st'' (Scc.Props.C06Generic.reachable_prepend hst hr)
      have hliveOf : ∀ k, stepN pr mc k X = .inl X' → LiveLe0 hs' Pk :=
        fun k hk => hP k X' st' cfg' hs' (Reachable.step Reachable.refl hst) hk R'
          (fun rs lin lazy live F J => by
            have := hcb' rs lin lazy live F J
            have : A ≤ A * (fuel + 1) := Nat.le_mul_of_pos_right A (by omega)
            omega)
      rcases size_step hst with hj | hsz
      · -- a call or an invoke: at least one unit of fuel; the statement continued with is at most `M`
        obtain ⟨k1, hk1, hk1'⟩ := hreal hj
        have hfb' : FrBound hs' (Pk + 1) := hfb.step hfr.2.1 hpk hw (hliveOf k1 hk1')
        have hN' : N * (M + 1) + stmtSize st'.stmt ≤ fuel := by
          have : (N + 1) * (M + 1) = N * (M + 1) + (M + 1) := Nat.succ_mul N (M + 1)
          have := stmtSize_pos st.stmt
          omega
        obtain ⟨n', X'', hn', hX''⟩ := run3_progress hooks prog c code nargs c' hcomp hsafe htp hfit DX Pk C A M
          hA hM hbytes fuel N st' _ cfg' hs' X' (Cb + A) hsafe' hcapr R' hlet' hvals'
          hszM' hvalsM' (by omega) hfb' hcb' hC' (hP.step hst hk1') hrun hN'
        exact ⟨k1 + n', X'', by omega, stepN_trans pr mc hk1' hX''⟩
      · -- a smaller statement: same target
        have hfb' : FrBound hs' (Pk + 1) := hfb.step hfr.2.1 hpk hw (hliveOf k hk)
        have hN' : (N + 1) * (M + 1) + stmtSize st'.stmt ≤ fuel := by omega
        obtain ⟨n', X'', hn', hX''⟩ := run3_progress hooks prog c code nargs c' hcomp hsafe htp hfit DX Pk C A M
          hA hM hbytes fuel (N + 1) st' _ cfg' hs' X' (Cb + A) hsafe' hcapr R' hlet'
          hvals' hszM' hvalsM' (by omega) hfb' hcb' hC' (hP.step hst hk) hrun hN'
        exact ⟨k + n', X'', by omega, stepN_trans pr mc hk hX''⟩

end Run3P

/-! ## the run loop for every amount of fuel -/

/-- fewer units of fuel than the machine consumes without ending the run: `outOfFuel` -/
theorem runLoop_outOfFuel (p : Program) (mc : MonCfg) (f n : Nat) (s X : State) (hX : stepN p mc n s = .inl X)
    (hn : f ≤ n) : (runLoop p mc f s).res = .outOfFuel := by
  have e : n = f + (n - f) := by omega
  rw [e] at hX
  obtain ⟨s1, h1, _⟩ := stepN_split p mc f (n - f) hX
  rw [runLoop_eq_stepN, h1]
  rfl

/-- once the run has ended it has ended with the same result for every larger amount of fuel -/
theorem stepN_inr_mono (p : Program) (mc : MonCfg) : ∀ (k : Nat) {s : State} {r : RunResult},
    stepN p mc k s = .inr r → ∀ m, k ≤ m → stepN p mc m s = .inr r
  | 0, s, r, h, _, _ => by simp [stepN] at h
  | k + 1, s, r, h, m, hm => by
    obtain ⟨m', rfl⟩ : ∃ m', m = m' + 1 := ⟨m - 1, by omega⟩
    simp only [stepN] at h ⊢
    cases hs : step p mc s with
    | inr r' => rw [hs] at h; exact h
    | inl s1 =>
      rw [hs] at h
      simp only
      exact stepN_inr_mono p mc k h m' (by omega)

/-- a run that ends with `done v` for some amount of fuel gives `outOfFuel` or `done v` for every amount -/
theorem runLoop_res_of_done {p : Program} {mc : MonCfg} {s : State} {f0 : Nat} {v : Word}
    (h : (runLoop p mc f0 s).res = .done v) (f : Nat) :
    (runLoop p mc f s).res = .outOfFuel ∨ (runLoop p mc f s).res = .done v := by
  rw [runLoop_eq_stepN] at h
  rw [runLoop_eq_stepN]
  cases h0 : stepN p mc f0 s with
  | inl s0 => rw [h0] at h; cases h
  | inr r =>
    rw [h0] at h
    cases hf : stepN p mc f s with
    | inl s1 => exact Or.inl rfl
    | inr r' =>
      right
      simp only
      have e1 := stepN_inr_mono p mc f0 h0 (max f0 f) (Nat.le_max_left _ _)
      have e2 := stepN_inr_mono p mc f hf (max f0 f) (Nat.le_max_right _ _)
      rw [e1] at e2
      injection e2 with e2
      rw [← e2]; exact h

theorem stepInstr_inr_mhw {p : Program} {mc : MonCfg} {s : State} {it : Item} {r : RunResult}
    (h : stepInstr p mc s it = .inr r) (hs : MhwOK mc s) : r.maxHeapWritten ≤ mc.heapBytes := by
  unfold stepInstr at h
  cases hx : exec mc p.labelAddr it.addr it.code s with
  | error e =>
    rw [hx] at h
    simp only [Sum.inr.injEq] at h
    rw [← h]; exact hs
  | ok r' =>
    obtain ⟨s1, next⟩ := r'
    rw [hx] at h; dsimp only at h
    have h1 : MhwOK mc s1 := (exec_mhw hx).2 hs
    cases next with
    | fall => cases h
    | label l =>
      dsimp only at h
      cases hl : p.labelIdx[l]? with
      | none =>
        rw [hl] at h
        simp only [Sum.inr.injEq] at h
        rw [← h]; exact h1
      | some i => rw [hl] at h; cases h
    | addr a =>
      dsimp only at h
      cases hl : p.addrIdx[a.toNat]? with
      | none =>
        rw [hl] at h
        simp only [Sum.inr.injEq] at h
        rw [← h]; exact h1
      | some i => rw [hl] at h; cases h

/-- the result record of a step that ends the run (heap monitor off) carries a `maxHeapWritten` inside the heap
region -/
theorem step_inr_mhw {p : Program} {mc : MonCfg} (hheap : mc.heap = false) {s : State} {r : RunResult}
    (h : step p mc s = .inr r) (hs : MhwOK mc s) : r.maxHeapWritten ≤ mc.heapBytes := by
  cases hit : p.items[s.pc]? with
  | none =>
    rw [step_none hit] at h
    simp only [Sum.inr.injEq] at h
    rw [← h]; exact hs
  | some it =>
    rcases code_kind it.code with ⟨l, hc⟩ | ⟨m, hc⟩ | hi
    · rw [step_lab hit hc] at h
      unfold stepLab at h
      split at h
      · cases hr : s.readReg RETURN1 with
        | ok w =>
          rw [hr] at h
          simp only [Sum.inr.injEq] at h
          rw [← h]; exact hs
        | error e =>
          rw [hr] at h
          simp only [Sum.inr.injEq] at h
          rw [← h]; exact hs
      · cases h
    · rw [step_hook hit hc] at h
      unfold stepHook at h
      rw [hheap] at h
      cases hr : it.roots with
      | none => rw [hr] at h; cases h
      | some rs =>
        rw [hr] at h
        simp only [Bool.false_eq_true, if_false] at h
        cases h
    · rw [step_instr hit hi] at h
      exact stepInstr_inr_mhw h hs

/-- EVERY AMOUNT OF FUEL (heap monitor off): the machine's record of the highest heap address written lies inside
the heap region -/
theorem runLoop_mhw {p : Program} {mc : MonCfg} (hheap : mc.heap = false) : ∀ (f : Nat) (s : State),
    MhwOK mc s → (runLoop p mc f s).maxHeapWritten ≤ mc.heapBytes
  | 0, s, hs => by rw [runLoop_zero]; exact hs
  | f + 1, s, hs => by
    rw [runLoop_succ]
    cases hst : step p mc s with
    | inl s1 => exact runLoop_mhw hheap f s1 ((step_mhw hheap hst).2 hs)
    | inr r => exact step_inr_mhw hheap hst hs

/-- no step ends the run with the result `outOfFuel` (heap monitor off) -/
theorem step_inr_not_outOfFuel {p : Program} {mc : MonCfg} (hheap : mc.heap = false) {s : State} {r : RunResult}
    (hst : step p mc s = .inr r) : r.res ≠ .outOfFuel := by
  intro h
  cases hit : p.items[s.pc]? with
  | none =>
    rw [step_none hit] at hst
    simp only [Sum.inr.injEq] at hst
    rw [← hst] at h; cases h
  | some it =>
    rcases code_kind it.code with ⟨l, hc⟩ | ⟨m, hc⟩ | hi
    · rw [step_lab hit hc] at hst
      unfold stepLab at hst
      split at hst
      · cases hr : s.readReg RETURN1 with
        | ok w =>
          rw [hr] at hst
          simp only [Sum.inr.injEq] at hst
          rw [← hst] at h; cases h
        | error e =>
          rw [hr] at hst
          simp only [Sum.inr.injEq] at hst
          rw [← hst] at h; cases h
      · cases hst
    · rw [step_hook hit hc] at hst
      unfold stepHook at hst
      rw [hheap] at hst
      cases hr : it.roots with
      | none => rw [hr] at hst; cases hst
      | some rs =>
        rw [hr] at hst
        simp only [Bool.false_eq_true, if_false] at hst
        cases hst
    · rw [step_instr hit hi] at hst
      unfold stepInstr at hst
      cases hx : exec mc p.labelAddr it.addr it.code s with
      | error e =>
        rw [hx] at hst
        simp only [Sum.inr.injEq] at hst
        rw [← hst] at h; cases h
      | ok r' =>
        obtain ⟨s1, next⟩ := r'
        rw [hx] at hst; dsimp only at hst
        cases next with
        | fall => cases hst
        | label l =>
          dsimp only at hst
          cases hl : p.labelIdx[l]? with
          | none =>
            rw [hl] at hst
            simp only [Sum.inr.injEq] at hst
            rw [← hst] at h; cases h
          | some i => rw [hl] at hst; cases hst
        | addr a =>
          dsimp only at hst
          cases hl : p.addrIdx[a.toNat]? with
          | none =>
            rw [hl] at hst
            simp only [Sum.inr.injEq] at hst
            rw [← hst] at h; cases h
          | some i => rw [hl] at hst; cases hst

theorem stepN_inr_not_outOfFuel {p : Program} {mc : MonCfg} (hheap : mc.heap = false) : ∀ (k : Nat) {s : State}
    {r : RunResult}, stepN p mc k s = .inr r → r.res ≠ .outOfFuel
  | 0, s, r, h => by cases h
  | k + 1, s, r, h => by
    rw [stepN] at h
    cases hst : step p mc s with
    | inl s1 => rw [hst] at h; exact stepN_inr_not_outOfFuel hheap k h
    | inr r' =>
      rw [hst] at h
      injection h with h
      subst h
      exact step_inr_not_outOfFuel hheap hst

/-- a run that does not fault in the smaller heap (it runs out of fuel or ends with `done`) is the same run in the
larger heap -/
theorem runLoop_eq_tight {mc' mc : MonCfg} (S : Sub mc' mc) (p : Program) (f : Nat) (s : State)
    (h : (runLoop p mc' f s).res = .outOfFuel ∨ ∃ v, (runLoop p mc' f s).res = .done v) :
    runLoop p mc f s = runLoop p mc' f s := by
  rcases h with h | ⟨v, h⟩
  · rw [runLoop_eq_stepN] at h
    rw [runLoop_eq_stepN, runLoop_eq_stepN p mc']
    cases h0 : stepN p mc' f s with
    | inl s1 => rw [stepN_mono S f h0]
    | inr r =>
      rw [h0] at h
      exact absurd h (stepN_inr_not_outOfFuel S.heap' f h0)
  · exact runLoop_larger_heap S p f s v h

/-! ## on the lines -/

/-- what `runLines` does: the lines do not load / there is no label / too many arguments (a fault before the run),
or the run loop from the initial state -/
theorem runLines_cases (lines : List (Nat × Code)) (args : List Word) (mc : MonCfg) :
    (∀ f, (runLines lines args f mc).maxHeapWritten = 0 ∧ ∃ e ln, (runLines lines args f mc).res = .fault e ln) ∨
    ∃ pr e regs, layout lines = .ok pr ∧ pr.entry = some e ∧ entryRegs args = some regs := by
  cases hlay : layout lines with
  | error e =>
    left; intro f
    unfold runLines
    rw [hlay]
    exact ⟨rfl, _, _, rfl⟩
  | ok pr =>
    cases he : pr.entry with
    | none =>
      left; intro f
      unfold runLines
      rw [hlay]
      simp only [runProgram, he]
      exact ⟨trivial, _, _, rfl⟩
    | some e =>
      cases hr : entryRegs args with
      | none =>
        left; intro f
        unfold runLines
        rw [hlay]
        simp only [runProgram, he, hr]
        exact ⟨trivial, _, _, rfl⟩
      | some regs => right; exact ⟨pr, e, regs, rfl, he, rfl⟩

/-- EVERY AMOUNT OF FUEL, on the lines: `maxHeapWritten ≤ heapBytes` -/
theorem runLines_mhw (lines : List (Nat × Code)) (args : List Word) (f : Nat) (mc : MonCfg) (hheap : mc.heap = false) :
    (runLines lines args f mc).maxHeapWritten ≤ mc.heapBytes := by
  rcases runLines_cases lines args mc with h | ⟨pr, e, regs, hlay, he, hregs⟩
  · rw [(h f).1]; exact Nat.zero_le _
  · rw [runLines_eq hlay he hregs]
    exact runLoop_mhw hheap f _ (mhwOK_init mc regs e)

/-- a run on the lines that does not fault in the smaller heap is the same run in the larger heap -/
theorem runLines_eq_tight {mc' mc : MonCfg} (S : Sub mc' mc) (lines : List (Nat × Code)) (args : List Word)
    (f : Nat)
    (h : (runLines lines args f mc').res = .outOfFuel ∨ ∃ v, (runLines lines args f mc').res = .done v) :
    runLines lines args f mc = runLines lines args f mc' := by
  rcases runLines_cases lines args mc' with h0 | ⟨pr, e, regs, hlay, he, hregs⟩
  · obtain ⟨_, e, ln, hres⟩ := h0 f
    rcases h with h | ⟨v, h⟩ <;> (rw [hres] at h; cases h)
  · rw [runLines_eq hlay he hregs] at h ⊢
    rw [runLines_eq hlay he hregs]
    exact runLoop_eq_tight S pr f _ h

/-! ## the runs, for any source of the peak hypothesis -/

/-- progress from the initial state (for any source of the peak hypothesis) -/
theorem programs_progress_gen (p : AxCut.Prog) (args : List Word) (hooks : Bool) (instrs hdr : List Code)
    (nargs cX : Nat) (d0 : Def) (ops : List MockOp) (c' : Nat)
    (hsafe : LabelSafe p = true) (htp : LinTypedProg p)
    (hcompM : (compile mockSym hooks p).run 0 = .ok ((ops, nargs), c')) (hfit : CodeFits ops)
    {cX0 : Nat} (hcompX : (compile rvBackend hooks p).run cX0 = .ok ((instrs, nargs), cX))
    (hnd : (labs (instrs ++ [Code.LAB "cleanup"])).Nodup) (hfitX : codeBase + 4 * instrs.length < 2 ^ 64)
    (hd : p.defs.head? = some d0) (hentry : ∀ b ∈ d0.ctx, b.chi = .ext ∧ b.ty = .i64)
    (hlen : d0.ctx.length = args.length)
    (hcap : ∀ st, Reachable p ⟨d0.ctx, args.map .int, d0.body⟩ st → st.ctx.length ≤ 14)
    (fuel : Nat) (hfuel : fuel + 1 < 2 ^ 64)
    (mc : MonCfg) (hheap : mc.heap = false) (htop : heapBase + mc.heapBytes ≤ 2 ^ 63)
    (Pk A M : Nat) (hA : ∀ d ∈ p.defs, AllocLe A d.body) (hM : ∀ d ∈ p.defs, stmtSize d.body ≤ M)
    (hbytes : 64 * (Pk + A + 2) ≤ mc.heapBytes)
    (lines : List (Nat × Code)) (hhdr : ∀ c ∈ hdr, c.isComment = true)
    (hlines : (lines.map (·.2)).map stripC = (hdr ++ instrs ++ [Code.LAB "cleanup"]).map stripC)
    (hhook : ∀ x ∈ lines, ¬ badHook x.2)
    (hP : ∀ pr e regs, layout lines = .ok pr → pr.entry = some e → entryRegs args = some regs →
      PeakHyp p hooks (keptOf lines) ops mc pr (initState regs e) d0 args Pk (A * fuel + 1))
    (hrun : (Pos.runState p fuel ⟨d0.ctx, args.map .int, d0.body⟩ []).res = .outOfFuel)
    (N : Nat) (hN : N * (M + 1) + stmtSize d0.body ≤ fuel) :
    ∃ pr e regs, layout lines = .ok pr ∧ pr.entry = some e ∧ entryRegs args = some regs ∧
      ∃ n X, N ≤ n ∧ stepN pr mc n (initState regs e) = .inl X := by
  have hmem : d0 ∈ p.defs := by
    cases hdefs : p.defs with
    | nil => rw [hdefs] at hd; simp at hd
    | cons d ds => rw [hdefs] at hd; simp at hd; subst hd; simp
  have hc0 := hcap _ Reachable.refl
  simp only at hc0
  obtain ⟨pr, ic, e, regs, X0, a, En⟩ := entry_setup p args hooks instrs hdr nargs cX d0 ops c' hsafe htp hcompM
    hcompX hnd hfitX hd hentry hlen hc0 mc htop (by omega) lines hhdr hlines hhook
  have hPF := hP pr e regs En.lay En.entry En.hregs 1 X0 En.steps
  have hfb0 : FrBound (Scc.Heap.init heapBase (heapBase + mc.heapBytes)) (Pk + 1) :=
    frBound_init (by decide) (by omega) (by omega)
  have hcb0 : FrBound (Scc.Heap.init heapBase (heapBase + mc.heapBytes)) 1 :=
    frBound_init (by decide) (by omega) (Nat.le_refl _)
  obtain ⟨n, X, hn, hX⟩ := run3_progress En.loaded En.nd hheap En.clean En.icl En.fit hooks p 0 ops nargs
    c' hcompM hsafe htp hfit En.defs Pk (A * fuel + 1) A M hA hM hbytes fuel N _ [] (initConfig a args) _ X0 1
    En.typed hcap En.rel (hA d0 hmem) (valAll_ints _ args) (hM d0 hmem)
    (valAll_ints _ args) (by rw [En.next1]; omega) hfb0 hcb0 (by omega) hPF hrun hN
  exact ⟨pr, e, regs, En.lay, En.entry, En.hregs, 1 + n, X, by omega, stepN_trans pr mc En.steps hX⟩

/-- EVERY AMOUNT OF MACHINE FUEL (heap monitor off), all programs, for any source of the peak hypothesis: the
result of the machine on the lines of the routine is `outOfFuel`, or `done v` with `v` the result of the
positional machine — provided the positional machine never gets stuck (no division by zero / overflow) -/
theorem programs_all_fuel_gen (p : AxCut.Prog) (args : List Word) (hooks : Bool) (instrs hdr : List Code)
    (nargs cX : Nat) (d0 : Def) (ops : List MockOp) (c' : Nat)
    (hsafe : LabelSafe p = true) (htp : LinTypedProg p)
    (hcompM : (compile mockSym hooks p).run 0 = .ok ((ops, nargs), c')) (hfit : CodeFits ops)
    {cX0 : Nat} (hcompX : (compile rvBackend hooks p).run cX0 = .ok ((instrs, nargs), cX))
    (hnd : (labs (instrs ++ [Code.LAB "cleanup"])).Nodup) (hfitX : codeBase + 4 * instrs.length < 2 ^ 64)
    (hd : p.defs.head? = some d0) (hentry : ∀ b ∈ d0.ctx, b.chi = .ext ∧ b.ty = .i64)
    (hlen : d0.ctx.length = args.length)
    (hcap : ∀ st, Reachable p ⟨d0.ctx, args.map .int, d0.body⟩ st → st.ctx.length ≤ 14)
    (hnostuck : ∀ fuel w, (Pos.run p args fuel).res ≠ .stuck w)
    (mc : MonCfg) (hheap : mc.heap = false) (htop : heapBase + mc.heapBytes ≤ 2 ^ 63)
    (Pk A M : Nat) (hA : ∀ d ∈ p.defs, AllocLe A d.body) (hM : ∀ d ∈ p.defs, stmtSize d.body ≤ M)
    (hbytes : 64 * (Pk + A + 2) ≤ mc.heapBytes)
    (lines : List (Nat × Code)) (hhdr : ∀ c ∈ hdr, c.isComment = true)
    (hlines : (lines.map (·.2)).map stripC = (hdr ++ instrs ++ [Code.LAB "cleanup"]).map stripC)
    (hhook : ∀ x ∈ lines, ¬ badHook x.2)
    (fuel' : Nat) (hf : fuel' * (M + 1) + stmtSize d0.body + 1 < 2 ^ 64)
    (hP : ∀ pr e regs, layout lines = .ok pr → pr.entry = some e → entryRegs args = some regs →
      PeakHyp p hooks (keptOf lines) ops mc pr (initState regs e) d0 args Pk
        (A * (fuel' * (M + 1) + stmtSize d0.body) + 1)) :
    (runLines lines args fuel' mc).res = .outOfFuel ∨
      ∃ v, (Pos.run p args (fuel' * (M + 1) + stmtSize d0.body)).res = .done v ∧
        (runLines lines args fuel' mc).res = .done v := by
  have hrs := run_eq_runState hd hlen (fuel' * (M + 1) + stmtSize d0.body)
  cases hres : (Pos.run p args (fuel' * (M + 1) + stmtSize d0.body)).res with
  | stuck w => exact absurd hres (hnostuck (fuel' * (M + 1) + stmtSize d0.body) w)
  | done v =>
    obtain ⟨f0, h2, _⟩ := programs_peak_gen_lines p args hooks instrs hdr nargs cX d0 ops c' hsafe htp
      hcompM hfit hcompX hnd hfitX hd hentry hcap _ v hf hres mc hheap htop Pk A hA hbytes lines hhdr hlines hhook hP
    rcases runLines_cases lines args mc with h0 | ⟨pr, e, regs, hlay, he, hregs⟩
    · obtain ⟨_, e, ln, hr⟩ := h0 f0
      rw [hr] at h2; cases h2
    · rw [runLines_eq hlay he hregs] at h2 ⊢
      rcases runLoop_res_of_done h2 fuel' with h | h
      · exact Or.inl h
      · exact Or.inr ⟨v, rfl, h⟩
  | outOfFuel =>
    left
    rw [hrs] at hres
    obtain ⟨pr, e, regs, hlay, he, hregs, n, X, hn, hX⟩ := programs_progress_gen p args hooks instrs hdr nargs cX d0
      ops c' hsafe htp hcompM hfit hcompX hnd hfitX hd hentry hlen hcap _ hf mc hheap htop Pk A M hA hM hbytes lines
      hhdr hlines hhook hP hres fuel' (Nat.le_refl _)
    rw [runLines_eq hlay he hregs]
    exact runLoop_outOfFuel pr mc fuel' n _ X hX hn

/-- EVERY AMOUNT OF MACHINE FUEL under a bound `D` on the fields of the object and closure values of the
positional machine's environments, all programs: the machine on the lines of the routine, in ANY heap of at
least `64·(D + A + 2)` bytes, ends in `outOfFuel` or in `done v` (the result of the positional machine), and
never writes above `64·(D + A + 2)` bytes of its heap -/
theorem programs_dsize_all (p : AxCut.Prog) (args : List Word) (hooks : Bool) (instrs hdr : List Code)
    (nargs cX : Nat) (d0 : Def) (ops : List MockOp) (c' : Nat)
    (hsafe : LabelSafe p = true) (htp : LinTypedProg p)
    (hcompM : (compile mockSym hooks p).run 0 = .ok ((ops, nargs), c')) (hfit : CodeFits ops)
    {cX0 : Nat} (hcompX : (compile rvBackend hooks p).run cX0 = .ok ((instrs, nargs), cX))
    (hnd : (labs (instrs ++ [Code.LAB "cleanup"])).Nodup) (hfitX : codeBase + 4 * instrs.length < 2 ^ 64)
    (hd : p.defs.head? = some d0) (hentry : ∀ b ∈ d0.ctx, b.chi = .ext ∧ b.ty = .i64)
    (hlen : d0.ctx.length = args.length)
    (hcap : ∀ st, Reachable p ⟨d0.ctx, args.map .int, d0.body⟩ st → st.ctx.length ≤ 14)
    (hnostuck : ∀ fuel w, (Pos.run p args fuel).res ≠ .stuck w)
    (D : Nat) (hD : ∀ st, Reachable p ⟨d0.ctx, args.map .int, d0.body⟩ st → valsFields st.env ≤ D)
    (mc : MonCfg) (hheap : mc.heap = false) (htop : heapBase + mc.heapBytes ≤ 2 ^ 63)
    (A M : Nat) (hA : ∀ d ∈ p.defs, AllocLe A d.body) (hM : ∀ d ∈ p.defs, stmtSize d.body ≤ M)
    (hbytes : 64 * (D + A + 2) ≤ mc.heapBytes)
    (lines : List (Nat × Code)) (hhdr : ∀ c ∈ hdr, c.isComment = true)
    (hlines : (lines.map (·.2)).map stripC = (hdr ++ instrs ++ [Code.LAB "cleanup"]).map stripC)
    (hhook : ∀ x ∈ lines, ¬ badHook x.2)
    (fuel' : Nat) (hf : fuel' * (M + 1) + stmtSize d0.body + 1 < 2 ^ 64) :
    ((runLines lines args fuel' mc).res = .outOfFuel ∨
      ∃ v, (Pos.run p args (fuel' * (M + 1) + stmtSize d0.body)).res = .done v ∧
        (runLines lines args fuel' mc).res = .done v) ∧
    (runLines lines args fuel' mc).maxHeapWritten ≤ 64 * (D + A + 2) := by
  -- the run in the heap cut down to `64·(D + A + 2)` bytes
  have htopt : heapBase + (withHeapBytes mc (64 * (D + A + 2))).heapBytes ≤ 2 ^ 63 := by
    show heapBase + 64 * (D + A + 2) ≤ 2 ^ 63
    omega
  have hmt := runLines_mhw lines args fuel' (withHeapBytes mc (64 * (D + A + 2))) hheap
  have htight := programs_all_fuel_gen p args hooks instrs hdr nargs cX d0 ops c' hsafe htp hcompM hfit hcompX
    hnd hfitX hd hentry hlen hcap hnostuck (withHeapBytes mc (64 * (D + A + 2))) hheap htopt D A M hA hM
    (Nat.le_refl _) lines hhdr hlines hhook fuel' hf (fun _ _ _ _ _ _ => peakHyp_of_data hD)
  have e := runLines_eq_tight (sub_withHeapBytes hheap hbytes) lines args fuel' (by
    rcases htight with h | ⟨v, _, h⟩
    · exact Or.inl h
    · exact Or.inr ⟨v, h⟩)
  rw [e]
  exact ⟨htight, hmt⟩

end Scc.RV.Conc
