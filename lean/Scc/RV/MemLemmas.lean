/-
  Scc.RV.MemLemmas — proof file: the two control combinators of memory.rs (`skip_if_zero`,
  `if_zero_then_else`) and the reference-count operations built from them (`share_block_n`,
  `erase_block`) on the RV64 machine.

  Block semantics with FORWARD local labels (`execFwd`): like `execList`, but a jump to a label that
  is defined further down in the same block continues there; a jump to any other label leaves the
  block.  All jumps emitted by memory.rs are forward jumps to fresh labels, which is what the
  machine's `runLoop` does with them when the labels are unique in the text (C14-T3).
-/
import Scc.RV.Lemmas
import Std.Data.String.ToNat

set_option linter.unusedSimpArgs false

namespace Scc.RV

open Scc.AxCut Scc.Backend

/-- the code after the first definition of label `l` -/
def skipTo (l : String) : List Code → Option (List Code)
  | [] => none
  | c :: cs =>
    match c with
    | .LAB l' => if l' = l then some cs else skipTo l cs
    | _ => skipTo l cs

theorem skipTo_length {l : String} : ∀ {cs r : List Code}, skipTo l cs = some r → r.length < cs.length
  | [], _, h => by simp [skipTo] at h
  | c :: cs, r, h => by
    cases c <;> simp only [skipTo] at h
    case LAB l' =>
      split at h
      · injection h with h; subst h; simp
      · have := skipTo_length h; simp; omega
    all_goals (have := skipTo_length h; simp; omega)

/-- straight-line execution with forward local labels (instruction addresses are irrelevant for
the code of memory.rs: it contains no `LA` and every `JAL` discards its link in `X0`) -/
def execFwd (cfg : MonCfg) (la : String → Option Nat) (code : List Code) (s : State) :
    Except String (State × Next) :=
  match code with
  | [] => .ok (s, .fall)
  | c :: cs =>
    match exec cfg la 0 c s with
    | .error e => .error e
    | .ok (s1, .fall) => execFwd cfg la cs s1
    | .ok (s1, .label l) =>
      match _h : skipTo l cs with
      | some rest => execFwd cfg la rest s1
      | none => .ok (s1, .label l)
    | .ok (s1, .addr a) => .ok (s1, .addr a)
termination_by code.length
decreasing_by
  · simp
  · have := skipTo_length _h; simp; omega

theorem skipTo_append (l : String) (b : List Code) : ∀ (a : List Code),
    skipTo l (a ++ b) = match skipTo l a with
      | some r => some (r ++ b)
      | none => skipTo l b
  | [] => by simp [skipTo]
  | c :: cs => by
    cases c <;> simp only [List.cons_append, skipTo, skipTo_append l b cs]
    case LAB l' => split <;> simp

variable (cfg : MonCfg) (la : String → Option Nat)

/-- how the continuation of a block is entered -/
def contFwd (b : List Code) : Except String (State × Next) → Except String (State × Next)
  | .error e => .error e
  | .ok (s', .fall) => execFwd cfg la b s'
  | .ok (s', .label l) =>
    match skipTo l b with
    | some rest => execFwd cfg la rest s'
    | none => .ok (s', .label l)
  | .ok (s', .addr x) => .ok (s', .addr x)

theorem execFwd_nil (s : State) : execFwd cfg la [] s = .ok (s, .fall) := by
  rw [execFwd]

theorem execFwd_cons (c : Code) (cs : List Code) (s : State) :
    execFwd cfg la (c :: cs) s = contFwd cfg la cs (exec cfg la 0 c s) := by
  rw [execFwd]
  cases h : exec cfg la 0 c s with
  | error e => simp [contFwd]
  | ok r =>
    obtain ⟨s1, n⟩ := r
    cases n with
    | fall => simp [contFwd]
    | addr a => simp [contFwd]
    | label l =>
      simp only [contFwd]
      split <;> rename_i h2 <;> simp [h2]

/-- sequential composition of blocks -/
theorem execFwd_append (b : List Code) : ∀ (n : Nat) (a : List Code) (s : State), a.length ≤ n →
    execFwd cfg la (a ++ b) s = contFwd cfg la b (execFwd cfg la a s) := by
  intro n
  induction n with
  | zero =>
    intro a s h
    have : a = [] := List.eq_nil_of_length_eq_zero (Nat.le_zero.mp h)
    subst this
    simp [execFwd_nil, contFwd]
  | succ n ih =>
    intro a s h
    cases a with
    | nil => simp [execFwd_nil, contFwd]
    | cons c cs =>
      have hcs : cs.length ≤ n := by simpa using h
      rw [List.cons_append, execFwd_cons, execFwd_cons]
      cases hex : exec cfg la 0 c s with
      | error e => simp [contFwd]
      | ok r =>
        obtain ⟨s1, nx⟩ := r
        cases nx with
        | fall => simp only [contFwd]; exact ih cs s1 hcs
        | addr x => simp [contFwd]
        | label l =>
          simp only [contFwd, skipTo_append]
          cases hsk : skipTo l cs with
          | none => simp
          | some r =>
            have := skipTo_length hsk
            simp only
            exact ih r s1 (by omega)

/-! ## the combinators -/

theorem exec_BEQ_zero {x : Register} {l : String} {s : State} {v : Word} (hx : s.readReg x = .ok v) :
    exec cfg la 0 (.BEQ x ZERO l) s = .ok (s, if v = 0 then .label l else .fall) := by
  simp only [exec, branch, hx, readReg_zero]
  by_cases h : v = 0 <;> simp [h]

/-- memory.rs skip_if_zero: shape of the code -/
theorem skipIfZero_run (condition : Register) (toSkip : List Code) (c : Nat) :
    (skipIfZero condition toSkip).run c =
      .ok ([.BEQ condition ZERO (labName (c + 1))] ++ toSkip ++ [.LAB (labName (c + 1))], c + 1) := rfl

/-- memory.rs if_zero_then_else: shape of the code -/
theorem ifZeroThenElse_run (condition : Register) (thenBranch elseBranch : List Code) (c : Nat) :
    (ifZeroThenElse condition thenBranch elseBranch).run c =
      .ok ([.BEQ condition ZERO (labName (c + 1))] ++ elseBranch ++
        [.JAL ZERO (labName (c + 2)), .LAB (labName (c + 1))] ++ thenBranch ++
        [.LAB (labName (c + 2))], c + 2) := rfl

theorem labName_inj {m n : Nat} : labName m = labName n ↔ m = n := by
  unfold labName
  constructor
  · intro h
    have h2 := congrArg String.toList h
    simp only [String.toList_append, List.append_cancel_left_eq] at h2
    have : toString m = toString n := String.toList_inj.mp h2
    exact Nat.repr_inj.mp this
  · rintro rfl; rfl

/-- skip_if_zero, condition zero: nothing happens (the label is fresh for the skipped code) -/
theorem execFwd_skip_zero (cond : Register) (body : List Code) (l : String) (s : State)
    (hv : s.readReg cond = .ok 0) (hfresh : skipTo l body = none) :
    execFwd cfg la ([.BEQ cond ZERO l] ++ body ++ [.LAB l]) s = .ok (s, .fall) := by
  rw [List.append_assoc, List.singleton_append, execFwd_cons, exec_BEQ_zero cfg la hv]
  simp [contFwd, skipTo_append, hfresh, skipTo, execFwd_nil]

/-- skip_if_zero, condition non-zero: the code is executed -/
theorem execFwd_skip_nonzero (cond : Register) (body : List Code) (l : String) (s s' : State)
    (v : Word) (hv : s.readReg cond = .ok v) (hne : v ≠ 0)
    (hbody : execFwd cfg la body s = .ok (s', .fall)) :
    execFwd cfg la ([.BEQ cond ZERO l] ++ body ++ [.LAB l]) s = .ok (s', .fall) := by
  rw [List.append_assoc, List.singleton_append, execFwd_cons, exec_BEQ_zero cfg la hv]
  simp only [hne, if_false, contFwd]
  rw [execFwd_append cfg la _ body.length body s (Nat.le_refl _), hbody]
  simp only [contFwd]
  rw [execFwd_cons]
  simp [exec, contFwd, execFwd_nil]

/-- if_zero_then_else, condition zero: exactly the then-branch runs -/
theorem execFwd_ite_zero (cond : Register) (thenB elseB : List Code) (lt le : String)
    (s s' : State) (hv : s.readReg cond = .ok 0)
    (hfresh : skipTo lt elseB = none)
    (hthen : execFwd cfg la thenB s = .ok (s', .fall)) :
    execFwd cfg la ([.BEQ cond ZERO lt] ++ elseB ++ [.JAL ZERO le, .LAB lt] ++ thenB ++ [.LAB le]) s =
      .ok (s', .fall) := by
  simp only [List.append_assoc, List.singleton_append, List.cons_append, List.nil_append]
  rw [execFwd_cons, exec_BEQ_zero cfg la hv]
  simp only [if_true, contFwd, skipTo_append, hfresh]
  simp only [List.cons_append, List.nil_append, skipTo, if_true]
  rw [execFwd_append cfg la _ thenB.length thenB s (Nat.le_refl _), hthen]
  simp only [contFwd]
  rw [execFwd_cons]
  simp [exec, contFwd, execFwd_nil]

/-- if_zero_then_else, condition non-zero: exactly the else-branch runs (the two labels differ) -/
theorem execFwd_ite_nonzero (cond : Register) (thenB elseB : List Code) (lt le : String)
    (s s' : State) (v : Word) (hv : s.readReg cond = .ok v) (hne : v ≠ 0) (hlab : lt ≠ le)
    (hfresh : skipTo le thenB = none)
    (helse : execFwd cfg la elseB s = .ok (s', .fall)) :
    execFwd cfg la ([.BEQ cond ZERO lt] ++ elseB ++ [.JAL ZERO le, .LAB lt] ++ thenB ++ [.LAB le]) s =
      .ok (s', .fall) := by
  simp only [List.append_assoc, List.singleton_append, List.cons_append, List.nil_append]
  rw [execFwd_cons, exec_BEQ_zero cfg la hv]
  simp only [hne, if_false, contFwd]
  rw [execFwd_append cfg la _ elseB.length elseB s (Nat.le_refl _), helse]
  simp only [contFwd, List.cons_append, List.nil_append]
  rw [execFwd_cons]
  simp only [exec, writeReg_zero, contFwd, skipTo, hlab, if_false, skipTo_append, hfresh, if_true]
  simp [execFwd_nil]

/-! ## loads, stores -/

/-- the effect of a store that passed the address check -/
def State.storeRaw (s : State) (a : Nat) (v : Word) : State :=
  { s with mem := s.mem.insert a v, maxHeapWritten := max s.maxHeapWritten (a + 8 - heapBase) }

theorem storeRaw_readReg (s : State) (a : Nat) (v : Word) (r : Register) :
    (s.storeRaw a v).readReg r = s.readReg r := rfl

theorem storeRaw_wf {s : State} (h : s.WF) (a : Nat) (v : Word) : (s.storeRaw a v).WF := h

theorem storeRaw_mem (s : State) (a : Nat) (v : Word) : (s.storeRaw a v).mem = s.mem.insert a v := rfl

theorem imm_zero : imm 0 = 0#64 := by simp [imm]

theorem exec_LW {x y : Register} {s : State} {b : Word} (c : Int) (hy : s.readReg y = .ok b)
    (hok : checkAddr cfg (b + imm c).toNat = .ok ()) :
    exec cfg la 0 (.LW x y c) s = .ok (s.writeReg x (s.mem.getD (b + imm c).toNat 0), .fall) := by
  simp only [exec, hy, State.load, hok]

theorem exec_SW {x y : Register} {s : State} {v b : Word} (c : Int) (hx : s.readReg x = .ok v)
    (hy : s.readReg y = .ok b) (hok : checkAddr cfg (b + imm c).toNat = .ok ()) :
    exec cfg la 0 (.SW x y c) s = .ok (s.storeRaw (b + imm c).toNat v, .fall) := by
  simp only [exec, hx, hy, State.store, hok, State.storeRaw]

theorem exec_COMMENT (m : String) (s : State) : exec cfg la 0 (.COMMENT m) s = .ok (s, .fall) := rfl

theorem exec_MV (x y : Register) (s : State) :
    exec cfg la 0 (.MV x y) s = .ok (s.copyReg x y, .fall) := rfl

/-! ## share_block_n (memory.rs): `if p ≠ 0 { [p + 0] += n }` -/

theorem shareBlockN_run (toShare : Register) (n c : Nat) :
    (shareBlockN toShare n).run c = .ok ([.BEQ toShare ZERO (labName (c + 1))] ++
      [.COMMENT "####increment refcount", .LW TEMP toShare referenceCountOffset,
       .ADDI TEMP TEMP (n : Int), .SW TEMP toShare referenceCountOffset] ++
      [.LAB (labName (c + 1))], c + 1) := rfl

/-- null pointer: nothing happens -/
theorem shareBlockN_null (r : Register) (n c : Nat) (s : State) (hr : s.readReg r = .ok 0) :
    ∃ code c', (shareBlockN r n).run c = .ok (code, c') ∧ execFwd cfg la code s = .ok (s, .fall) :=
  ⟨_, _, shareBlockN_run r n c, execFwd_skip_zero cfg la r _ _ s hr rfl⟩

/-- non-null pointer `p` to an accessible word: the count at `p` is increased by `n`; only
`TEMP` and that word change -/
theorem shareBlockN_spec (r : Register) (n c : Nat) (s : State) (hs : s.WF) (p : Word)
    (hr : s.readReg r = .ok p) (hp : p ≠ 0) (hrt : r.n ≠ TEMP.n)
    (hok : checkAddr cfg p.toNat = .ok ()) :
    ∃ code c' s', (shareBlockN r n).run c = .ok (code, c') ∧
      execFwd cfg la code s = .ok (s', .fall) ∧
      s'.mem = s.mem.insert p.toNat (s.mem.getD p.toNat 0 + imm (n : Int)) ∧
      (∀ x : Register, x.n ≠ TEMP.n → s'.readReg x = s.readReg x) ∧ s'.WF := by
  have haddr : (p + imm referenceCountOffset).toNat = p.toNat := by
    simp [referenceCountOffset, address, imm_zero]
  let cnt := s.mem.getD p.toNat 0
  let s1 := s.writeReg TEMP cnt
  let s2 := s1.writeReg TEMP (cnt + imm (n : Int))
  have hs1 : s1.WF := writeReg_wf hs _ _
  have hs2 : s2.WF := writeReg_wf hs1 _ _
  have h1t : s1.readReg TEMP = .ok cnt := readReg_writeReg_same hs temp_usable _
  have h2t : s2.readReg TEMP = .ok (cnt + imm (n : Int)) := readReg_writeReg_same hs1 temp_usable _
  have h2r : s2.readReg r = .ok p := by
    rw [readReg_writeReg_other s1 hrt, readReg_writeReg_other s hrt]; exact hr
  refine ⟨_, _, s2.storeRaw p.toNat (cnt + imm (n : Int)), shareBlockN_run r n c, ?_, ?_, ?_,
    storeRaw_wf hs2 _ _⟩
  · apply execFwd_skip_nonzero cfg la r _ _ s _ p hr hp
    rw [execFwd_cons, exec_COMMENT]; simp only [contFwd]
    rw [execFwd_cons, exec_LW cfg la _ hr (by rw [haddr]; exact hok), haddr]; simp only [contFwd]
    rw [execFwd_cons, exec_ADDI cfg la 0 _ h1t]; simp only [contFwd]
    rw [execFwd_cons, exec_SW cfg la _ h2t h2r (by rw [haddr]; exact hok), haddr]; simp only [contFwd]
    rw [execFwd_nil]
  · rw [storeRaw_mem, writeReg_mem, writeReg_mem]
  · intro x hx
    rw [storeRaw_readReg, readReg_writeReg_other s1 hx, readReg_writeReg_other s hx]

/-! ## erase_block (memory.rs):
`if p ≠ 0 { if [p + 0] = 0 { [p + 0] := FREE; FREE := p } else { [p + 0] -= 1 } }` -/

def eraseBlockCode (r : Register) (l1 l2 l3 : String) : List Code :=
  [.BEQ r ZERO l3] ++
    ([.COMMENT "######check refcount", .LW TEMP r referenceCountOffset] ++
      ([.BEQ TEMP ZERO l1] ++
        [.COMMENT "######either decrement refcount ...", .ADDI TEMP TEMP (-1),
         .SW TEMP r referenceCountOffset] ++
        [.JAL ZERO l2, .LAB l1] ++
        [.COMMENT "######... or add block to lazy free list", .SW FREE r nextElementOffset,
         .MV FREE r] ++
        [.LAB l2])) ++
    [.LAB l3]

theorem eraseBlock_run (r : Register) (c : Nat) :
    (eraseBlock r).run c =
      .ok (eraseBlockCode r (labName (c + 1)) (labName (c + 2)) (labName (c + 3)), c + 3) := rfl

theorem eraseBlock_null (r : Register) (c : Nat) (s : State) (hr : s.readReg r = .ok 0) :
    ∃ code c', (eraseBlock r).run c = .ok (code, c') ∧ execFwd cfg la code s = .ok (s, .fall) := by
  refine ⟨_, _, eraseBlock_run r c, ?_⟩
  unfold eraseBlockCode
  apply execFwd_skip_zero cfg la r _ _ s hr
  have h13 : labName (c + 1) ≠ labName (c + 3) := fun h => by have := labName_inj.mp h; omega
  have h23 : labName (c + 2) ≠ labName (c + 3) := fun h => by have := labName_inj.mp h; omega
  simp [skipTo, h13, h23]

theorem free_usable : FREE.Usable := ⟨by decide, by decide⟩

/-- non-null pointer whose count is zero: the block is pushed onto the lazy free list -/
theorem eraseBlock_spec_zero (r : Register) (c : Nat) (s : State) (hs : s.WF) (p f : Word)
    (hr : s.readReg r = .ok p) (hp : p ≠ 0) (hrt : r.n ≠ TEMP.n)
    (hf : s.readReg FREE = .ok f) (hok : checkAddr cfg p.toNat = .ok ())
    (hcnt : s.mem.getD p.toNat 0 = 0) :
    ∃ code c' s', (eraseBlock r).run c = .ok (code, c') ∧
      execFwd cfg la code s = .ok (s', .fall) ∧
      s'.mem = s.mem.insert p.toNat f ∧ s'.readReg FREE = .ok p ∧
      (∀ x : Register, x.n ≠ TEMP.n → x.n ≠ FREE.n → s'.readReg x = s.readReg x) ∧ s'.WF := by
  have haddr : (p + imm referenceCountOffset).toNat = p.toNat := by
    simp [referenceCountOffset, address, imm_zero]
  have haddr' : (p + imm nextElementOffset).toNat = p.toNat := by
    simp [nextElementOffset, address, imm_zero]
  have h12 : labName (c + 1) ≠ labName (c + 2) := fun h => by have := labName_inj.mp h; omega
  have hft : FREE.n ≠ TEMP.n := by decide
  let s1 := s.writeReg TEMP 0
  have hs1 : s1.WF := writeReg_wf hs _ _
  have h1t : s1.readReg TEMP = .ok 0 := readReg_writeReg_same hs temp_usable _
  have h1r : s1.readReg r = .ok p := by rw [readReg_writeReg_other s hrt]; exact hr
  have h1f : s1.readReg FREE = .ok f := by rw [readReg_writeReg_other s hft]; exact hf
  let s2 := s1.storeRaw p.toNat f
  have hs2 : s2.WF := storeRaw_wf hs1 _ _
  let s3 := s2.copyReg FREE r
  refine ⟨_, _, s3, eraseBlock_run r c, ?_, ?_, ?_, ?_, copyReg_wf hs2 _ _⟩
  · unfold eraseBlockCode
    apply execFwd_skip_nonzero cfg la r _ _ s _ p hr hp
    rw [List.cons_append, execFwd_cons, exec_COMMENT]; simp only [contFwd]
    rw [List.cons_append, execFwd_cons, exec_LW cfg la _ hr (by rw [haddr]; exact hok), haddr, hcnt]
    simp only [contFwd, List.nil_append]
    apply execFwd_ite_zero cfg la TEMP _ _ _ _ s1 s3 h1t (by simp [skipTo])
    rw [execFwd_cons, exec_COMMENT]; simp only [contFwd]
    rw [execFwd_cons, exec_SW cfg la _ h1f h1r (by rw [haddr']; exact hok), haddr']; simp only [contFwd]
    rw [execFwd_cons, exec_MV]; simp only [contFwd]
    rw [execFwd_nil]
  · simp only [s3, s2, s1, copyReg_mem, storeRaw_mem, writeReg_mem]
  · exact readReg_copyReg_same hs2 free_usable (by rw [storeRaw_readReg]; exact h1r)
  · intro x hxt hxf
    simp only [s3, s2, s1]
    rw [readReg_copyReg_other _ hxf, storeRaw_readReg, readReg_writeReg_other s hxt]

/-- non-null pointer whose count is not zero: the count is decremented -/
theorem eraseBlock_spec_nonzero (r : Register) (c : Nat) (s : State) (hs : s.WF) (p : Word)
    (hr : s.readReg r = .ok p) (hp : p ≠ 0) (hrt : r.n ≠ TEMP.n)
    (hok : checkAddr cfg p.toNat = .ok ()) (hcnt : s.mem.getD p.toNat 0 ≠ 0) :
    ∃ code c' s', (eraseBlock r).run c = .ok (code, c') ∧
      execFwd cfg la code s = .ok (s', .fall) ∧
      s'.mem = s.mem.insert p.toNat (s.mem.getD p.toNat 0 + imm (-1)) ∧
      (∀ x : Register, x.n ≠ TEMP.n → s'.readReg x = s.readReg x) ∧ s'.WF := by
  have haddr : (p + imm referenceCountOffset).toNat = p.toNat := by
    simp [referenceCountOffset, address, imm_zero]
  have h12 : labName (c + 1) ≠ labName (c + 2) := fun h => by have := labName_inj.mp h; omega
  let cnt := s.mem.getD p.toNat 0
  let s1 := s.writeReg TEMP cnt
  let s2 := s1.writeReg TEMP (cnt + imm (-1))
  have hs1 : s1.WF := writeReg_wf hs _ _
  have hs2 : s2.WF := writeReg_wf hs1 _ _
  have h1t : s1.readReg TEMP = .ok cnt := readReg_writeReg_same hs temp_usable _
  have h2t : s2.readReg TEMP = .ok (cnt + imm (-1)) := readReg_writeReg_same hs1 temp_usable _
  have h2r : s2.readReg r = .ok p := by
    rw [readReg_writeReg_other s1 hrt, readReg_writeReg_other s hrt]; exact hr
  refine ⟨_, _, s2.storeRaw p.toNat (cnt + imm (-1)), eraseBlock_run r c, ?_, ?_, ?_,
    storeRaw_wf hs2 _ _⟩
  · unfold eraseBlockCode
    apply execFwd_skip_nonzero cfg la r _ _ s _ p hr hp
    rw [List.cons_append, execFwd_cons, exec_COMMENT]; simp only [contFwd]
    rw [List.cons_append, execFwd_cons, exec_LW cfg la _ hr (by rw [haddr]; exact hok), haddr]
    simp only [contFwd, List.nil_append]
    apply execFwd_ite_nonzero cfg la TEMP _ _ _ _ s1 _ cnt h1t hcnt h12 (by simp [skipTo])
    rw [execFwd_cons, exec_COMMENT]; simp only [contFwd]
    rw [execFwd_cons, exec_ADDI cfg la 0 _ h1t]; simp only [contFwd]
    rw [execFwd_cons, exec_SW cfg la _ h2t h2r (by rw [haddr]; exact hok), haddr]; simp only [contFwd]
    rw [execFwd_nil]
  · rw [storeRaw_mem, writeReg_mem, writeReg_mem]
  · intro x hx
    rw [storeRaw_readReg, readReg_writeReg_other s1 hx, readReg_writeReg_other s hx]

end Scc.RV
