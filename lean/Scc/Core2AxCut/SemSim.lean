/-
  Scc.Core2AxCut.SemSim — proof file for the semantic part of C04: the step-wise forward simulation.
  From related states (`StRel` of `SemRel.lean`) one step of the focused-Core machine is matched by
  zero or more steps of the named AxCut machine leading to related states; final states (result,
  arithmetic faults) correspond.  One lemma per rule of the translation judgment `Tr`.
-/
import Scc.Core2AxCut.SemLemmas

namespace Scc.Core2AxCut.Sem

open Scc Scc.Core2AxCut
open Scc.AxCut.Named (Value lookup lookupAll bindParams findDef State step)

local notation "sid" => shrinkIdentifier

variable {E : TEnv} {q : AxCut.Prog} {p : Core.FsProg}

/-! ## packaging -/

theorem goal_next {cs : Core.FsState} {as : State} {cs' : Core.FsState} (k : Nat) (as' : State)
    (h1 : Core.fsStep p cs = .next cs') (h2 : Steps q k as as') (h3 : StRel E q cs' as')
    (h4 : k = 0 → sizeStmt cs'.stmt < sizeStmt cs.stmt) : SimGoal p q (StRel E q) cs as := by
  simp only [SimGoal, h1]
  exact ⟨k, as', h2, h3, h4⟩

theorem goal_final {cs : Core.FsState} {as : State} {r : Core.Res} (k : Nat) (as' : State)
    (r' : AxCut.Named.Res) (h1 : Core.fsStep p cs = .final r) (h2 : Steps q k as as')
    (h3 : step q as' = .halt cs.out r') (h4 : ResMatch r r') : SimGoal p q (StRel E q) cs as := by
  simp only [SimGoal, h1]
  exact ⟨k, as', r', h2, h3, h4⟩

theorem stRel_mk {Γ h s t ρ η out} (h1 : Tr E q Γ h s t) (h2 : EnvRel E q Γ h ρ η) :
    StRel E q ⟨s, ρ, out⟩ ⟨t, η, out⟩ := ⟨Γ, h, h1, h2, rfl⟩

/-! ## inversion of the value relation -/

theorem VRel.inv_int {v v'} (h : VRel E q .prd .i64 v v') : ∃ n, v = .int n ∧ v' = .int n := by
  cases h with
  | int n => exact ⟨n, rfl, rfl⟩
  | con _ hd => simp [declOf] at hd
  | cocaseClo _ _ _ _ _ _ hd => simp [declOf] at hd
  | thunk _ _ _ _ _ _ hd => simp [declOf] at hd

theorem EnvRel.int {Γ h ρ η a} (hr : EnvRel E q Γ h ρ η) (ha : occFs Γ ⟨a, .prd, .i64⟩ = true) :
    ∃ n, Core.Env.lookupInt ρ a = .ok n ∧ Core.Env.lookup ρ a = .ok (.int n) ∧ lookup η (h a) = some (.int n) := by
  obtain ⟨v, v', h1, h2, h3⟩ := hr _ ha
  obtain ⟨n, rfl, rfl⟩ := h3.inv_int
  exact ⟨n, by simp [Core.Env.lookupInt, h1], h1, h2⟩

theorem find_mem {d : Core.TypeDecl} {K : Core.Ident} {sig : Core.XtorSig}
    (h : d.xtors.find? (fun x => x.name == K) = some sig) : sig ∈ d.xtors ∧ sig.name = K := by
  refine ⟨List.mem_of_find?_eq_some h, ?_⟩
  have := List.find?_some h
  exact eq_of_beq this

/-- data producer values are constructor objects -/
theorem VRel.inv_con {T d v v'} (h : VRel E q .prd T v v') (hc : isCodata E.codata T = false)
    (hd : declOf E T = some d) : ∃ K sig vs vs', v = .con K vs ∧ v' = .obj (sid K) vs' ∧
      d.xtors.find? (fun x => x.name == K) = some sig ∧ VRelL E q sig.args vs vs' := by
  cases h with
  | int n => simp [declOf] at hd
  | con _ hd2 hs hl => rw [hd] at hd2; cases hd2; exact ⟨_, _, _, _, rfl, rfl, hs, hl⟩
  | cocaseClo _ _ _ _ _ hc2 => rw [hc] at hc2; cases hc2
  | thunk _ _ _ _ _ hc2 => rw [hc] at hc2; cases hc2

/-- codata consumer values are destructor objects -/
theorem VRel.inv_dtor {T v v'} (h : VRel E q .cns T v v') (hc : isCodata E.codata T = true) :
    ∃ d K sig vs vs', v = .dtor K vs ∧ v' = .obj (sid K) vs' ∧ declOf E T = some d ∧
      d.xtors.find? (fun x => x.name == K) = some sig ∧ VRelL E q sig.args vs vs' := by
  cases h with
  | dtor _ hd2 hs hl => exact ⟨_, _, _, _, _, rfl, rfl, hd2, hs, hl⟩
  | caseClo _ _ _ _ _ hc2 => rw [hc] at hc2; cases hc2
  | mutildeInt _ _ _ _ _ => simp [isCodata] at hc
  | mutildeData _ _ _ _ _ hc2 => rw [hc] at hc2; cases hc2

/-- data consumer values are closures -/
theorem VRel.cns_clo {T v v'} (h : VRel E q .cns T v v') (hc : isCodata E.codata T = false) :
    ∃ η' cls, v' = .clo η' cls := by
  cases h with
  | dtor hc2 => rw [hc] at hc2; cases hc2
  | caseClo _ _ _ _ _ _ => exact ⟨_, _, rfl⟩
  | mutildeInt _ _ _ _ _ => exact ⟨_, _, rfl⟩
  | mutildeData _ _ _ _ _ _ => exact ⟨_, _, rfl⟩

/-- codata producer values are closures -/
theorem VRel.prd_clo {T v v'} (h : VRel E q .prd T v v') (hc : isCodata E.codata T = true) :
    ∃ η' cls, v' = .clo η' cls := by
  cases h with
  | int n => simp [isCodata] at hc
  | con hc2 => rw [hc] at hc2; cases hc2
  | cocaseClo _ _ _ _ _ _ => exact ⟨_, _, rfl⟩
  | thunk _ _ _ _ _ _ => exact ⟨_, _, rfl⟩

/-! ## entering a clause -/

/-- skolemised environments of closure values give back `EnvRel` -/
theorem envRel_of_skolem {Γ h ρ η} {val : Core.Binding → Core.FVal} {val' : Core.Binding → Value}
    (h1 : ∀ b, occFs Γ b = true → Core.Env.lookup ρ b.var = .ok (val b))
    (h2 : ∀ b, occFs Γ b = true → lookup η (h b.var) = some (val' b))
    (h3 : ∀ b, occFs Γ b = true → VRel E q b.chi b.ty (val b) (val' b)) : EnvRel E q Γ h ρ η :=
  fun b hb => ⟨val b, val' b, h1 b hb, h2 b hb, h3 b hb⟩

theorem skolem_of_envRel {Γ h ρ η} (hr : EnvRel E q Γ h ρ η) :
    ∃ (val : Core.Binding → Core.FVal) (val' : Core.Binding → Value),
      (∀ b, occFs Γ b = true → Core.Env.lookup ρ b.var = .ok (val b)) ∧
      (∀ b, occFs Γ b = true → lookup η (h b.var) = some (val' b)) ∧
      (∀ b, occFs Γ b = true → VRel E q b.chi b.ty (val b) (val' b)) := by
  have : ∀ b, ∃ vv : Core.FVal × Value, occFs Γ b = true →
      Core.Env.lookup ρ b.var = .ok vv.1 ∧ lookup η (h b.var) = some vv.2 ∧ VRel E q b.chi b.ty vv.1 vv.2 := by
    intro b
    by_cases hb : occFs Γ b = true
    · obtain ⟨v, v', h1, h2, h3⟩ := hr b hb
      exact ⟨(v, v'), fun _ => ⟨h1, h2, h3⟩⟩
    · exact ⟨(.halt, .int 0), fun h => absurd h hb⟩
  obtain ⟨f, hf⟩ := Classical.axiomOfChoice this
  exact ⟨fun b => (f b).1, fun b => (f b).2, fun b hb => (hf b hb).1, fun b hb => (hf b hb).2.1,
    fun b hb => (hf b hb).2.2⟩

/-- translated clauses: the selected clause on both sides, parameters bound -/
theorem clauseEnter {Γ h ρ' η'} {d : Core.TypeDecl} {cl cls K sig vs vs'} (hr : EnvRel E q Γ h ρ' η')
    (hshape : ClausesShape Γ h d.xtors cl cls) (htr : ClausesTr E q Γ h cl cls)
    (hsig : d.xtors.find? (fun x => x.name == K) = some sig) (hvs : VRelL E q sig.args vs vs') :
    ∃ ctx body ctx' body' ρ'' e, cl.find K = some (ctx, body) ∧
      AxCut.Named.findClause (sid K) cls = some (ctx', body') ∧
      Core.Env.bind ρ' ctx vs = .ok ρ'' ∧ bindParams ctx' vs' = some e ∧
      StRel E q ⟨body, ρ'', out⟩ ⟨body', e ++ η', out⟩ := by
  obtain ⟨ctx, body, ctx', body', h1, h2, h3, h4, h5, h6⟩ := hshape K sig hsig
  obtain ⟨ρ'', e, h7, h8, h9⟩ := EnvRel.bind hr ctx ctx' vs vs' (VRelL.congr (sigMatch_symm h2) hvs) h4 h5 h6
  exact ⟨ctx, body, ctx', body', ρ'', e, h1, h3, h7, h8, stRel_mk (htr _ _ _ _ _ h1 h3 h4) h9⟩

/-- eta-expanded clauses: `invoke` enters the clause, the `let` rebuilds the object, then the
    continuation runs with the object bound -/
theorem critEnter {Γ h ρ' η'} {d : Core.TypeDecl} {cls K sig vs vs' bx s val out}
    (hr : EnvRel E q Γ h ρ' η') (hshape : CritShape Γ h d.xtors cls) (htr : CritTr E q Γ h bx s cls)
    (hsig : d.xtors.find? (fun x => x.name == K) = some sig) (hvs : VRelL E q sig.args vs vs')
    (hv : VRel E q bx.chi bx.ty val (.obj (sid K) vs'))
    {v ty args' η} (hl : lookup η v.id = some (.clo η' cls)) (ha : lookupAll η args' = some vs') :
    ∃ as', Steps q 2 ⟨.invoke v (sid K) ty args', η, out⟩ as' ∧ StRel E q ⟨s, (bx.var, val) :: ρ', out⟩ as' := by
  obtain ⟨envC, w, ty', envC', t, fv, h1, h2, h3, h4, h5, h6⟩ := hshape K sig hsig
  obtain ⟨e, he⟩ := bindParams_some envC vs' (by rw [h2, hvs.length.2])
  have hkeys := bindParams_keys he
  have s1 := step_invoke q (ty := ty) (out := out) hl h1 ha he
  have hla : lookupAll (e ++ η') envC' = some vs' := by
    have := lookupAll_bindParams envC envC' vs' e η' he h3 h4 [] (by simp)
    simpa using this
  have s2 := step_let q (v := w) (ty := ty') (tag := sid K) (next := t) (fv := fv) (out := out) hla
  refine ⟨_, .cons s1 (.cons s2 (.refl _)), ?_⟩
  refine stRel_mk (htr _ _ _ _ _ _ _ _ h1) ?_
  exact EnvRel.cons (EnvRel.skipMany hr (by rw [hkeys]; exact h5)) hv h6

/-! ## passing a value to a closure -/

/-- a constructor meets a data consumer value -/
theorem applyCns {T d cv η' cls K sig vs vs'} (hv : VRel E q .cns T cv (.clo η' cls))
    (hc : isCodata E.codata T = false) (hd : declOf E T = some d)
    (hsig : d.xtors.find? (fun x => x.name == K) = some sig) (hvs : VRelL E q sig.args vs vs')
    (st : Core.FsState) :
    ∃ cs', Core.FsState.pass st (.con K vs) cv = .next cs' ∧ cs'.out = st.out ∧
      sizeStmt cs'.stmt < sizeStmt cs'.stmt + 1 ∧
      ∀ v ty args' η, lookup η v.id = some (.clo η' cls) → lookupAll η args' = some vs' →
        ∃ k as', Steps q (k + 1) ⟨.invoke v (sid K) ty args', η, st.out⟩ as' ∧ StRel E q cs' as' := by
  cases hv with
  | caseClo val val' h1 h2 h3 hc2 hd2 hshape htr =>
    rw [hd] at hd2; cases hd2
    obtain ⟨ctx, body, ctx', body', ρ'', e, f1, f2, f3, f4, f5⟩ :=
      clauseEnter (out := st.out) (envRel_of_skolem h1 h2 h3) hshape htr hsig hvs
    refine ⟨{ st with stmt := body, env := ρ'' }, by simp [Core.FsState.pass, Core.FsState.select, f1, f3, Core.FsState.goto],
      rfl, by omega, ?_⟩
    intro v ty args' η hl ha
    exact ⟨0, _, .one (step_invoke q hl f2 ha f4), f5⟩
  | mutildeInt _ _ _ _ _ => simp [declOf] at hd
  | mutildeData val val' h1 h2 h3 hc2 hd2 hshape htr =>
    rw [hd] at hd2; cases hd2
    rename_i Γ h ρ' x s
    refine ⟨{ st with stmt := s, env := (x, .con K vs) :: ρ' }, by simp [Core.FsState.pass, Core.FsState.goto],
      rfl, by omega, ?_⟩
    intro v ty args' η hl ha
    obtain ⟨as', hs, hr⟩ := critEnter (out := st.out) (bx := ⟨x, .prd, T⟩) (envRel_of_skolem h1 h2 h3) hshape htr hsig hvs
      (VRel.con hc hd hsig hvs) (ty := ty) hl ha
    exact ⟨1, as', hs, hr⟩

/-- a destructor meets a codata producer value -/
theorem applyPrd {T d pv η' cls K sig vs vs'} (hv : VRel E q .prd T pv (.clo η' cls))
    (hc : isCodata E.codata T = true) (hd : declOf E T = some d)
    (hsig : d.xtors.find? (fun x => x.name == K) = some sig) (hvs : VRelL E q sig.args vs vs')
    (st : Core.FsState) :
    ∃ cs', Core.FsState.invoke st pv K vs = .next cs' ∧ cs'.out = st.out ∧
      ∀ v ty args' η, lookup η v.id = some (.clo η' cls) → lookupAll η args' = some vs' →
        ∃ k as', Steps q (k + 1) ⟨.invoke v (sid K) ty args', η, st.out⟩ as' ∧ StRel E q cs' as' := by
  cases hv with
  | cocaseClo val val' h1 h2 h3 hc2 hd2 hshape htr =>
    rw [hd] at hd2; cases hd2
    obtain ⟨ctx, body, ctx', body', ρ'', e, f1, f2, f3, f4, f5⟩ :=
      clauseEnter (out := st.out) (envRel_of_skolem h1 h2 h3) hshape htr hsig hvs
    refine ⟨{ st with stmt := body, env := ρ'' }, by simp [Core.FsState.invoke, Core.FsState.select, f1, f3, Core.FsState.goto],
      rfl, ?_⟩
    intro v ty args' η hl ha
    exact ⟨0, _, .one (step_invoke q hl f2 ha f4), f5⟩
  | thunk val val' h1 h2 h3 hc2 hd2 hshape htr =>
    rw [hd] at hd2; cases hd2
    rename_i Γ h ρ' a s
    refine ⟨{ st with stmt := s, env := (a, .dtor K vs) :: ρ' }, by simp [Core.FsState.invoke, Core.FsState.goto],
      rfl, ?_⟩
    intro v ty args' η hl ha
    obtain ⟨as', hs, hr⟩ := critEnter (out := st.out) (bx := ⟨a, .cns, T⟩) (envRel_of_skolem h1 h2 h3) hshape htr hsig hvs
      (VRel.dtor hc hd hsig hvs) (ty := ty) hl ha
    exact ⟨1, as', hs, hr⟩

/-- an integer meets an integer continuation -/
theorem applyCnsInt {cv v'} (hv : VRel E q .cns .i64 cv v') (n : BitVec 64) (st : Core.FsState) :
    ∃ cs' η' cls, v' = .clo η' cls ∧ Core.FsState.pass st (.int n) cv = .next cs' ∧ cs'.out = st.out ∧
      ∀ v ty args' η, lookup η v.id = some (.clo η' cls) → lookupAll η args' = some [.int n] →
        ∃ as', Steps q 1 ⟨.invoke v (sid retName) ty args', η, st.out⟩ as' ∧ StRel E q cs' as' := by
  cases hv with
  | dtor hc => simp [isCodata] at hc
  | caseClo _ _ _ _ _ _ hd => simp [declOf] at hd
  | mutildeData _ _ _ _ _ _ hd => simp [declOf] at hd
  | mutildeInt val val' h1 h2 h3 hf hav htr =>
    rename_i Γ h ρ' η' x s cls bx t
    refine ⟨{ st with stmt := s, env := (x, .int n) :: ρ' }, η', cls, rfl,
      by simp [Core.FsState.pass, Core.FsState.goto], rfl, ?_⟩
    intro v ty args' η hl ha
    refine ⟨_, .one (step_invoke q (e := [(bx.var.id, .int n)]) hl hf ha (by simp [bindParams])), ?_⟩
    exact stRel_mk htr (EnvRel.cons (b0 := ⟨x, .prd, .i64⟩) (envRel_of_skolem h1 h2 h3) (VRel.int n) hav)

/-! ## more helpers -/

theorem sigMatch_trans : ∀ {a b c : Core.Ctx}, sigMatch a b = true → sigMatch b c = true → sigMatch a c = true
  | [], [], [], _, _ => rfl
  | [], [], _ :: _, _, h => by simp [sigMatch] at h
  | [], _ :: _, _, h, _ => by simp [sigMatch] at h
  | _ :: _, [], _, h, _ => by simp [sigMatch] at h
  | _ :: _, _ :: _, [], _, h => by simp [sigMatch] at h
  | x :: xs, y :: ys, z :: zs, h1, h2 => by
    simp only [sigMatch, Bool.and_eq_true, beq_iff_eq] at h1 h2 ⊢
    exact ⟨⟨h1.1.1.trans h2.1.1, h1.1.2.trans h2.1.2⟩, sigMatch_trans h1.2 h2.2⟩

theorem find_size {K ctx body} : ∀ (cl : Core.FsClauses), cl.find K = some (ctx, body) →
    sizeStmt body < sizeClauses cl
  | .nil, h => by simp [Core.FsClauses.find] at h
  | .cons x c b r, h => by
    simp only [Core.FsClauses.find] at h
    split at h
    · simp at h; obtain ⟨_, rfl⟩ := h; simp [sizeClauses]; omega
    · have := find_size r h; simp [sizeClauses]; omega

/-- an AxCut argument list with prescribed ids (names, kinds and types are irrelevant to the machine) -/
def dummyCtx (is : List Nat) : AxCut.Ctx := is.map fun i => ⟨⟨"", i⟩, .ext, .i64⟩

theorem axIds_dummyCtx (is : List Nat) : axIds (dummyCtx is) = is := by
  simp [axIds, dummyCtx, Function.comp_def]

theorem setMany_hId : ∀ (ctx : Core.Ctx), hId.setMany ctx (ctx.map fun b => b.var.id) = hId
  | [] => rfl
  | b :: bs => by
    simp only [List.map_cons, HMap.setMany, setMany_hId bs]
    funext y
    simp only [HMap.set, hId]
    split
    · rename_i e; rw [e]
    · rfl

theorem envRel_nil : EnvRel E q [] hId [] [] := by
  intro b hb; simp [occFs, lookupFs] at hb

theorem findSig_defs {f : Core.Ident} {ps} : ∀ (defs : List Core.FsDef),
    findSig (defs.map fun d => (d.name, d.ctx)) f = some ps →
    ∃ d, defs.find? (fun d => d.name = f) = some d ∧ d.ctx = ps
  | [], h => by simp [findSig] at h
  | d :: ds, h => by
    simp only [findSig, List.map_cons, List.find?_cons] at h
    by_cases hn : d.name = f
    · simp only [hn, beq_self_eq_true] at h
      simp only [Option.some.injEq] at h
      exact ⟨d, by simp [hn], h⟩
    · have : (d.name == f) = false := by simpa using hn
      simp only [this] at h
      obtain ⟨d', h1, h2⟩ := findSig_defs ds (by simpa [findSig] using h)
      exact ⟨d', by simp [hn, h1], h2⟩

theorem prepend_step {cs : Core.FsState} {as as1 : State} (h : step q as = .next as1)
    (g : SimGoal p q (StRel E q) cs as1) : SimGoal p q (StRel E q) cs as := by
  simp only [SimGoal] at g ⊢
  split
  · rename_i cs' hs
    simp only [hs] at g
    obtain ⟨k, as', h1, h2, _⟩ := g
    exact ⟨k + 1, as', .cons h h1, h2, by omega⟩
  · rename_i r hs
    simp only [hs] at g
    obtain ⟨k, as', r', h1, h2, h3⟩ := g
    exact ⟨k + 1, as', r', .cons h h1, h2, h3⟩

/-! ## the rules, one by one -/

section rules
variable (hp : ProgRel E q p)
include hp

omit hp in
theorem sim_exit {Γ h a v ρ η out} (ha : occFs Γ ⟨a, .prd, .i64⟩ = true) (hv : v.id = h a)
    (hr : EnvRel E q Γ h ρ η) : SimGoal p q (StRel E q) ⟨.exit a, ρ, out⟩ ⟨.exit v, η, out⟩ := by
  obtain ⟨n, h1, _, h2⟩ := hr.int ha
  have hs : Core.fsStep p ⟨.exit a, ρ, out⟩ = .final (.done n) := by simp [Core.fsStep, h1]
  exact goal_final 0 _ (.done n) hs (.refl _) (step_exit q (by rw [hv]; exact h2)) rfl

omit hp in
theorem sim_print {Γ h nl a n v t fv ρ η out} (ha : occFs Γ ⟨a, .prd, .i64⟩ = true) (hv : v.id = h a)
    (ht : Tr E q Γ h n t) (hr : EnvRel E q Γ h ρ η) :
    SimGoal p q (StRel E q) ⟨.print nl a n, ρ, out⟩ ⟨.print nl v t fv, η, out⟩ := by
  obtain ⟨x, h1, _, h2⟩ := hr.int ha
  have hs : Core.fsStep p ⟨.print nl a n, ρ, out⟩ = .next ⟨n, ρ, out ++ [(nl, x)]⟩ := by
    simp [Core.fsStep, h1]
  exact goal_next 1 _ hs (.one (step_print q (by rw [hv]; exact h2))) (stRel_mk ht hr) (by omega)

omit hp in
theorem sim_ifz {Γ h srt a t e v t' e' ρ η out} (ha : occFs Γ ⟨a, .prd, .i64⟩ = true) (hv : v.id = h a)
    (ht : Tr E q Γ h t t') (he : Tr E q Γ h e e') (hr : EnvRel E q Γ h ρ η) :
    SimGoal p q (StRel E q) ⟨.ifc srt a none t e, ρ, out⟩ ⟨.ifc (shrinkIfSort srt) v none t' e', η, out⟩ := by
  obtain ⟨x, h1, _, h2⟩ := hr.int ha
  have hs : Core.fsStep p ⟨.ifc srt a none t e, ρ, out⟩ =
      .next ⟨if Core.compare srt x 0 then t else e, ρ, out⟩ := by
    simp [Core.fsStep, h1, Core.FsState.goto]
  refine goal_next 1 _ hs (.one (step_ifz q (by rw [hv]; exact h2))) ?_ (by omega)
  rw [evalCmp_eq]
  by_cases hc : Core.compare srt x 0 = true
  · simp only [hc, if_true]; exact stRel_mk ht hr
  · simp only [hc]; exact stRel_mk he hr

omit hp in
theorem sim_ifc {Γ h srt a b t e v w t' e' ρ η out} (ha : occFs Γ ⟨a, .prd, .i64⟩ = true) (hv : v.id = h a)
    (hb : occFs Γ ⟨b, .prd, .i64⟩ = true) (hw : w.id = h b)
    (ht : Tr E q Γ h t t') (he : Tr E q Γ h e e') (hr : EnvRel E q Γ h ρ η) :
    SimGoal p q (StRel E q) ⟨.ifc srt a (some b) t e, ρ, out⟩
      ⟨.ifc (shrinkIfSort srt) v (some w) t' e', η, out⟩ := by
  obtain ⟨x, h1, _, h2⟩ := hr.int ha
  obtain ⟨y, h3, _, h4⟩ := hr.int hb
  have hs : Core.fsStep p ⟨.ifc srt a (some b) t e, ρ, out⟩ =
      .next ⟨if Core.compare srt x y then t else e, ρ, out⟩ := by
    simp [Core.fsStep, h1, h3, Core.FsState.goto]
  refine goal_next 1 _ hs (.one (step_ifc q (by rw [hv]; exact h2) (by rw [hw]; exact h4))) ?_ (by omega)
  rw [evalCmp_eq]
  by_cases hc : Core.compare srt x y = true
  · simp only [hc, if_true]; exact stRel_mk ht hr
  · simp only [hc]; exact stRel_mk he hr

theorem sim_call {Γ h f args ps args' ρ η out} (hs : findSig E.sigs f = some ps)
    (hm : sigMatch args ps = true) (hocc : ∀ b ∈ args, occFs Γ b = true)
    (hids : axIds args' = args.map (fun b => h b.var)) (hr : EnvRel E q Γ h ρ η) :
    SimGoal p q (StRel E q) ⟨.call f args, ρ, out⟩ ⟨.call (sid f) args', η, out⟩ := by
  obtain ⟨hE, hdefs⟩ := hp
  subst hE
  obtain ⟨d, hd, rfl⟩ := findSig_defs p.defs hs
  obtain ⟨d', hd', hctx, hnd, htr⟩ := hdefs f d hd
  obtain ⟨vs, vs', h1, h2, h3⟩ := hr.argVals args args' hocc hids
  obtain ⟨ρ', e, h4, h5, h6⟩ := EnvRel.bind (E := progTEnv p) (q := q) envRel_nil d.ctx d'.ctx vs vs'
    (VRelL.congr hm h3) (by have := congrArg List.length hctx; simpa [axIds] using this)
    (by rw [hctx]; exact hnd) (by intro i _ b hb; simp [occFs, lookupFs] at hb)
  rw [hctx, setMany_hId] at h6
  simp only [List.append_nil] at h6
  have hs : Core.fsStep p ⟨.call f args, ρ, out⟩ = .next ⟨d.body, ρ', out⟩ := by
    simp [Core.fsStep, hd, h1, h4, Core.FsState.goto]
  exact goal_next 1 _ hs (.one (step_call q hd' h2 h5)) (stRel_mk htr h6) (by omega)

end rules

end Scc.Core2AxCut.Sem
