/-
  Scc.Core2AxCut.TypedArms2 — proof file for the typing part of C04 / C12 (shrinking preserves typing):
  translated clause lists (`shrinkClauses`), `switch`, `create`, and the critical pairs
  (`shrink_critical_pairs`: eta-expansion with `let`, the expanded side shrunk in place or lifted).
-/
import Scc.Core2AxCut.TypedArms

namespace Scc.Core2AxCut.Typed

open Scc Scc.AxCut Scc.Core2AxCut Scc.Core2AxCut.Sem
open Scc.AxCut.Named (findDef)

local notation "sid" => shrinkIdentifier

section step
variable {E : TEnv} {q : AxCut.Prog} {env : Env} {rec : Rec}
  (hE : EnvMatches env E) (hT : EnvOK E q.types) (hS : SigOK E q.sigs)
  (hrec : RecTr E q rec) (hrecT : RecT E q rec) (hmono : RecRel Mono rec)

/-! ## translated clause lists -/

include hE hrecT hmono in
theorem shrinkClauses_typed {Γ f B} : ∀ (xs : List Core.XtorSig) (cl : Core.FsClauses) (st : St) (cls st'),
    shrinkClauses env rec (renClauses f cl) st = .ok (cls, st') → Good q st' → st'.maxId ≤ q.maxId →
    wtClauses E xs cl = true → scClauses Γ cl = true → InvB Γ f B st.maxId → cl.binderIds.Sublist B →
    ∀ Γax, AgreeT E.codata Γ f B st.maxId Γax →
      TqC q cls Γax ∧ ClausesMatch (xs.map (shrinkXtor E.codata)) cls ∧ LiftedOK q st st'
  | [], .nil, st, cls, st', h, _, _, _, _, _, _ => by
    simp only [renClauses, shrinkClauses, Except.ok.injEq, Prod.mk.injEq] at h
    obtain ⟨rfl, rfl⟩ := h
    intro Γax _
    exact ⟨by simp [TqC, TWC], by simp [ClausesMatch], LiftedOK.refl _ _⟩
  | [], .cons _ _ _ _, _, _, _, _, _, _, h, _, _, _ => by simp [wtClauses] at h
  | _ :: _, .nil, _, _, _, _, _, _, h, _, _, _ => by simp [wtClauses] at h
  | x :: xs, .cons tag ctx body rest, st, cls, st', h, hq, hM, hwt, hsc, inv, hB => by
    have hcod : env.codata = E.codata := hE.2
    simp only [wtClauses, Bool.and_eq_true, beq_iff_eq] at hwt
    obtain ⟨⟨⟨htag, hsm⟩, hwb⟩, hwr⟩ := hwt
    simp only [scClauses, Bool.and_eq_true] at hsc
    simp only [Core.FsClauses.binderIds] at hB
    simp only [renClauses, shrinkClauses] at h
    split at h
    · cases h
    · rename_i body' st1 h1
      split at h
      · cases h
      · rename_i rest' st2 h2
        simp only [Except.ok.injEq, Prod.mk.injEq] at h
        obtain ⟨rfl, rfl⟩ := h
        have m1 : st.maxId ≤ st1.maxId := (hmono _ _ _ _ h1).le
        have mr : Mono st1 st2 := shrinkClauses_rel Mono.stRel hmono _ _ _ _ h2
        have hq1 : Good q st1 := Good.of_mono mr hq
        have hM1 : st1.maxId ≤ q.maxId := Nat.le_trans mr.le hM
        have hBc : (Core.ctxIds ctx ++ body.binderIds).Sublist B :=
          (List.sublist_append_left _ _).trans hB
        have hndc : (Core.ctxIds ctx).Nodup := (List.nodup_append.mp (hBc.nodup inv.nd)).1
        have invb : InvB (ctx ++ Γ) f body.binderIds st.maxId := inv.enterS ctx body.binderIds hBc
        have p1 := hrecT _ _ body st body' st1 h1 hq1 hM1 hwb hsc.1 invb
        have ih := shrinkClauses_typed xs rest st1 rest' st2 h2 hq hM hwr hsc.2 (inv.mono m1)
          ((List.sublist_append_right _ _).trans hB)
        intro Γax hag
        obtain ⟨b1, b2⟩ := p1 _ (hag.enter inv ctx body.binderIds hBc)
        obtain ⟨r1, r2, r3⟩ := ih Γax (hag.mono m1)
        rw [hcod]
        refine ⟨?_, ?_, b2.trans r3⟩
        · simp only [TqC, TWC]
          refine ⟨by simp only [NodupIds, ids_shrinkContext]; exact hndc, ?_, b1, r1⟩
          intro i hi
          rw [ids_shrinkContext] at hi
          have hiB : i ∈ B := hBc.subset (List.mem_append_left _ hi)
          exact hag.fresh_binder hiB (by have := inv.bm i hiB; omega)
        · simp only [List.map_cons, ClausesMatch, shrinkXtor]
          exact ⟨by rw [htag], (chiTys_shrinkContext_of_sigMatch _ hsm).symm, r2⟩

/-! ## switch, create -/

include hE hT hrecT hmono in
/-- `Switch`, both orientations: `v` is the scrutinised variable -/
theorem ty_switch {Γ f T cl d st cls st' B} {v : Core.Ident} {pc : Core.PC}
    (h : shrinkClauses env rec (renClauses f cl) st = .ok (cls, st'))
    (hq : Good q st') (hM : st'.maxId ≤ q.maxId) (hd : declOf E T = some d)
    (hv : occFs Γ ⟨v, pc, T⟩ = true)
    (hsb : ∀ w, shrinkBinding E.codata ⟨w, pc, T⟩ = ⟨sid w, .prd, shrinkTy T⟩)
    (hwt : wtClauses E d.xtors cl = true) (hsc : scClauses Γ cl = true)
    (inv : InvB Γ f B st.maxId) (hB : cl.binderIds.Sublist B) :
    PostT E.codata q Γ f B st (.switch (sid (f v)) (shrinkTy T) cls none) st' := by
  intro Γax hag
  obtain ⟨r1, r2, r3⟩ := shrinkClauses_typed hE hrecT hmono d.xtors cl st cls st' h hq hM hwt hsc inv hB Γax hag
  have h1 := hag.occ hv
  rw [hsb] at h1
  refine ⟨?_, r3⟩
  simp only [Tq, TW]
  exact ⟨h1, ⟨_, hT.decl _ _ hd, r2⟩, r1⟩

include hE hT hrecT hmono in
/-- `Create`, both orientations: `b0` is the variable bound by the (tilde-)mu; the clauses are translated
    first, then the continuation -/
theorem ty_create {Γ f T s0 cl d st cls st1 t0 st' B} {b0 : Core.Binding}
    (h : shrinkClauses env rec (renClauses f cl) st = .ok (cls, st1)) (h2 : rec (renStmt f s0) st1 = .ok (t0, st'))
    (hq : Good q st') (hM : st'.maxId ≤ q.maxId) (hd : declOf E T = some d)
    (hsb : shrinkBinding E.codata b0 = ⟨sid b0.var, .cns, shrinkTy T⟩)
    (hwt : wtClauses E d.xtors cl = true) (hsc : scClauses Γ cl = true)
    (hwt0 : wtStmt E s0 = true) (hsc0 : scStmt (b0 :: Γ) s0 = true)
    (inv : InvB Γ f B st.maxId) (hBc : cl.binderIds.Sublist B)
    (hB0 : ([b0].map (·.var.id) ++ s0.binderIds).Sublist B) :
    PostT E.codata q Γ f B st (.create (sid b0.var) (shrinkTy T) none cls t0 none none) st' := by
  intro Γax hag
  have m2 : Mono st1 st' := hmono _ _ _ _ h2
  have m1 : st.maxId ≤ st1.maxId := (shrinkClauses_rel Mono.stRel hmono _ _ _ _ h).le
  obtain ⟨r1, r2, r3⟩ := shrinkClauses_typed hE hrecT hmono d.xtors cl st cls st1 h
    (Good.of_mono m2 hq) (Nat.le_trans m2.le hM) hwt hsc inv hBc Γax hag
  obtain ⟨g1, g2, g3⟩ := ty_under_binder hrecT hmono (b0 := b0) h2 hq hM hwt0 hsc0 (inv.mono m1) hB0 Γax
    (hag.mono m1)
  rw [hsb] at g2
  refine ⟨?_, r3.trans g3⟩
  simp only [Tq, TW]
  exact ⟨trivial, ⟨_, hT.decl _ _ hd, r2⟩, r1, g1, g2⟩

/-! ## critical pairs -/

theorem lookupTypeDecl_cont (hT : EnvOK E q.types) :
    lookupTypeDecl q.types contTy = some (shrinkDeclaration E.codata contInt) :=
  hT.decl _ _ hT.cont

include hT hrecT hmono in
theorem ty_critInt {Γ f a s1 x s2 st t2 st1 t1 st'} (h1 : rec (renStmt f s2) st = .ok (t2, st1))
    (h2 : rec (renStmt f s1) st1 = .ok (t1, st')) (hq : Good q st') (hM : st'.maxId ≤ q.maxId)
    (hwt1 : wtStmt E s1 = true) (hsc1 : scStmt (⟨a, .cns, .i64⟩ :: Γ) s1 = true)
    (hwt2 : wtStmt E s2 = true) (hsc2 : scStmt (⟨x, .prd, .i64⟩ :: Γ) s2 = true)
    (inv : InvB Γ f (Core.FsStmt.cut .i64 (.mu .prd a .i64 s1) (.mu .cns x .i64 s2)).binderIds st.maxId) :
    PostT E.codata q Γ f (Core.FsStmt.cut .i64 (.mu .prd a .i64 s1) (.mu .cns x .i64 s2)).binderIds st
      (.create (sid a) contTy none (.cons (sid retName) [⟨sid x, .ext, .i64⟩] t2 .nil) t1 none none) st' := by
  simp only [Core.FsStmt.binderIds, Core.FsTerm.binderIds] at inv ⊢
  intro Γax hag
  have m1 : st.maxId ≤ st1.maxId := (hmono _ _ _ _ h1).le
  have m2 : Mono st1 st' := hmono _ _ _ _ h2
  obtain ⟨g1, g2, g3⟩ := ty_under_binder hrecT hmono (b0 := ⟨x, .prd, .i64⟩) h1
    (Good.of_mono m2 hq) (Nat.le_trans m2.le hM) hwt2 hsc2 inv
    (by simp only [List.map_cons, List.map_nil, List.singleton_append]; exact List.sublist_append_right _ _)
    Γax hag
  obtain ⟨k1, k2, k3⟩ := ty_under_binder hrecT hmono (b0 := ⟨a, .cns, .i64⟩) h2 hq hM hwt1 hsc1 (inv.mono m1)
    (by simp) Γax (hag.mono m1)
  rw [sb_prd_int] at g2
  rw [sb_cns_int] at k2
  refine ⟨?_, g3.trans k3⟩
  simp only [Tq, TW, TWC]
  refine ⟨trivial, ⟨_, lookupTypeDecl_cont hT, ?_⟩, ⟨?_, ?_, g2, trivial⟩, k1, k2⟩
  · simp [shrinkDeclaration, contInt, ClausesMatch, shrinkXtor, retName, shrinkContext, sb_prd_int, Ctx.chiTys]
  · simp [NodupIds, Ctx.ids]
  · intro i hi
    simp only [Ctx.ids, List.map_cons, List.map_nil, List.mem_singleton] at hi
    subst hi
    exact g1

include hE in
/-- the eta-expansion clauses of `shrink_critical_pairs`: `t2` is the shrunk statement of the expanded
    side, typed under the binding of its variable `vE` -/
theorem criticalClauses_typed (vE : Core.Ident) (tty : AxCut.Ty) (t2 : AxCut.Stmt) (Γax : AxCut.Ctx)
    (ht2 : Tq q t2 (⟨sid vE, .prd, tty⟩ :: Γax)) (hvE : vE.id ∉ Γax.ids) :
    ∀ (xs : List Core.XtorSig) (st : St),
    (∀ x ∈ xs, lookupXtor q.types tty (sid x.name) = some (shrinkContext E.codata x.args)) →
    (∀ i ∈ Γax.ids, i ≤ st.maxId) → (∀ i ∈ axBids t2, i ≤ st.maxId) →
    (criticalClauses env vE tty t2 xs st).2.maxId ≤ q.maxId →
    TqC q (criticalClauses env vE tty t2 xs st).1 Γax ∧
      ClausesMatch (xs.map (shrinkXtor E.codata)) (criticalClauses env vE tty t2 xs st).1
  | [], st, _, _, _, _ => by simp [criticalClauses, TqC, TWC, ClausesMatch]
  | x :: xs, st, hx, hΓ, hb, hM => by
    have hcod : env.codata = E.codata := hE.2
    simp only [criticalClauses] at hM ⊢
    have hn := freshenCtx_nodupIds (shrinkContext env.codata x.args) st
    have hr := freshenCtx_ids_range (c := shrinkContext env.codata x.args) (st := st)
    have hc := freshenCtx_chiTys (shrinkContext env.codata x.args) st
    have hs := (freshenCtx_spec (shrinkContext env.codata x.args) st).2.1
    have hM' := hM
    clear hM
    revert hn hr hc hs hM'
    generalize freshenCtx (shrinkContext env.codata x.args) st = r1
    obtain ⟨envC, st1⟩ := r1
    intro hn hr hc hs hM
    simp only [freshIdentifier] at hM ⊢
    have hmono := (criticalClauses_crit env vE tty t2 xs { st1 with maxId := st1.maxId + 1 }).1
    have ih := criticalClauses_typed vE tty t2 Γax ht2 hvE xs { st1 with maxId := st1.maxId + 1 }
      (fun y hy => hx y (by simp [hy]))
      (fun i hi => by have := hΓ i hi; simp only at hs ⊢; omega)
      (fun i hi => by have := hb i hi; simp only at hs ⊢; omega)
    revert hM hmono ih
    generalize criticalClauses env vE tty t2 xs { st1 with maxId := st1.maxId + 1 } = r2
    obtain ⟨rest, st2⟩ := r2
    intro hM hmono ih
    simp only at hn hr hc hs hM hmono ih ⊢
    obtain ⟨ih1, ih2⟩ := ih hM
    rw [hcod] at hc
    have hst : st.maxId ≤ st1.maxId := by omega
    refine ⟨?_, ?_⟩
    · simp only [TqC, TWC, TW]
      refine ⟨hn, ?_, ⟨⟨_, hx x (by simp), hc⟩, fun a ha => List.mem_append_left _ ha, ?_, ?_⟩, ih1⟩
      · intro i hi
        have := hr i hi
        exact ⟨fun hc' => by have := hΓ i hc'; omega, by omega⟩
      · -- the variable of the `let` is fresh
        refine ⟨?_, by simp only [shrinkIdentifier]; omega⟩
        intro hc'
        rw [ids_append] at hc'
        simp only [shrinkIdentifier] at hc'
        rcases List.mem_append.mp hc' with h' | h'
        · have := (hr _ h').2; omega
        · have := hΓ _ h'; omega
      · -- the shared statement, renamed
        refine TW.subst [(vE.id, sid ⟨vE.name, st1.maxId + 1⟩)] t2 _ _ ht2 ?_ ?_ ?_
        · intro b hb'
          rcases List.mem_cons.mp hb' with rfl | hb'
          · simp [axSubstBinding, axSubstIdent, shrinkIdentifier]
          · rw [axSubstBinding_of_not_dom]
            · exact List.mem_cons_of_mem _ (List.mem_append_right _ hb')
            · simp only [List.mem_singleton, forall_eq]
              exact fun e => hvE (e ▸ mem_ids_of_mem hb')
        · intro i hi hc'
          have hfr := TW.bids_fresh t2 _ ht2 i hi
          simp only [Ctx.ids, List.map_cons, List.map_append, List.mem_cons, List.mem_append,
            shrinkIdentifier, not_or] at hc' hfr
          have hle := hb i hi
          rcases hc' with rfl | h' | h'
          · omega
          · have := (hr i (by simpa [Ctx.ids] using h')).1; omega
          · exact hfr.2 h'
        · intro i hi p hp
          simp only [List.mem_singleton] at hp
          subst hp
          have hfr := TW.bids_fresh t2 _ ht2 i hi
          simp only [Ctx.ids, List.map_cons, List.mem_cons, shrinkIdentifier, not_or] at hfr
          exact fun e => hfr.1 e.symm
    · simp only [List.map_cons, ClausesMatch, shrinkXtor]
      exact ⟨trivial, hc.symm, ih2⟩

include hE hT hrec hrecT hmono in
/-- `shrink_critical_pairs` at a declared type, both orientations: `bK`/`sK` the side that is kept as the
    continuation of `create`, `bE`/`sE` the side that is eta-expanded (shrunk in place or lifted) -/
theorem ty_criticalDecl {Γ f d name T} {bK bE : Core.Binding} {sK sE : Core.FsStmt} {st t st' B}
    (h : criticalDecl env rec d name (shrinkTy T) bK.var (renStmt f sK) bE.var (renStmt f sE) st = .ok (t, st'))
    (hq : Good q st') (hM : st'.maxId ≤ q.maxId)
    (hlift : RecTr E q (lift env rec)) (hliftT : RecT E q (lift env rec))
    (hd : declOf E T = some d) (hname : T = .decl name)
    (hsbK : shrinkBinding E.codata bK = ⟨sid bK.var, .cns, shrinkTy T⟩)
    (hsbE : shrinkBinding E.codata bE = ⟨sid bE.var, .prd, shrinkTy T⟩)
    (hwtK : wtStmt E sK = true) (hscK : scStmt (bK :: Γ) sK = true)
    (hwtE : wtStmt E sE = true) (hscE : scStmt (bE :: Γ) sE = true)
    (inv : InvB Γ f B st.maxId)
    (hBK : ([bK].map (·.var.id) ++ sK.binderIds).Sublist B) (hBE : ([bE].map (·.var.id) ++ sE.binderIds).Sublist B) :
    PostT E.codata q Γ f B st t st' := by
  simp only [criticalDecl] at h
  have key : ∃ F : Rec, RecTr E q F ∧ RecT E q F ∧ RecRel Mono F ∧
      (if inlineExpand d.xtors.length (renStmt f sE) = true then rec (renStmt f sE) st
       else lift env rec (renStmt f sE) st) = F (renStmt f sE) st := by
    split
    · exact ⟨rec, hrec, hrecT, hmono, rfl⟩
    · exact ⟨lift env rec, hlift, hliftT, lift_mono hmono, rfl⟩
  obtain ⟨F, hF, hFT, hFm, e⟩ := key
  rw [e] at h
  split at h
  · cases h
  · rename_i t2 st1 h1
    split at h
    · cases h
    · rename_i tK st3 h3
      simp only [Except.ok.injEq, Prod.mk.injEq] at h
      obtain ⟨rfl, rfl⟩ := h
      have m1 : st.maxId ≤ st1.maxId := (hFm _ _ _ _ h1).le
      have m3 : Mono (criticalClauses env bE.var (shrinkTy T) t2 d.xtors st1).2 st3 := hmono _ _ _ _ h3
      have mc : Mono st1 (criticalClauses env bE.var (shrinkTy T) t2 d.xtors st1).2 :=
        Mono.stRel.frame (criticalClauses_frame env bE.var (shrinkTy T) t2 d.xtors st1)
      have hq1 : Good q st1 := Good.of_mono (Mono.stRel.trans mc m3) hq
      have hMc : (criticalClauses env bE.var (shrinkTy T) t2 d.xtors st1).2.maxId ≤ q.maxId :=
        Nat.le_trans m3.le hM
      have hM1 : st1.maxId ≤ q.maxId := Nat.le_trans mc.le hMc
      -- binder ids of the shared statement (semantic invariant)
      obtain ⟨_, g2s, _, _, _⟩ := tr_under_binder hE hF hFm (b0 := bE) h1 hq1 hwtE hscE inv hBE
      intro Γax hag
      obtain ⟨g1, g2, g3⟩ := ty_under_binder hFT hFm (b0 := bE) h1 hq1 hM1 hwtE hscE inv hBE Γax hag
      obtain ⟨k1, k2, k3⟩ := ty_under_binder hrecT hmono (b0 := bK) h3 hq hM hwtK hscK
        (inv.mono (Nat.le_trans m1 mc.le)) hBK Γax (hag.mono (Nat.le_trans m1 mc.le))
      rw [hsbE] at g2
      rw [hsbK] at k2
      obtain ⟨c1, c2⟩ := criticalClauses_typed (q := q) hE bE.var (shrinkTy T) t2 Γax g2 g1.1 d.xtors st1
        (fun x hx => lookupXtor_of_decl hT hd (find_self_of_nodup d.xtors (hT.xnd _ _ hd) x hx))
        (fun i hi => by have := (hag.rng i hi).2; omega) (fun i hi => (g2s i hi).2) hMc
      refine ⟨?_, g3.trans ((LiftedOK.of_frame (criticalClauses_frame _ _ _ _ _ _)).trans k3)⟩
      have hty : AxCut.Ty.decl (sid name) = shrinkTy T := by rw [hname]; rfl
      simp only [Tq, TW, hty]
      exact ⟨trivial, ⟨_, hT.decl _ _ hd, c2⟩, c1, k1, k2⟩

end step

end Scc.Core2AxCut.Typed
