/-
  Scc.Core2AxCut.Labels — the labels drawn by `lift` (cut.rs: fn lift, the `while` loop over
  `used_labels` added by the label-collision repair):
  * `drawLabel_ne_error`: with the fuel `|used_labels| + 1` used by `lift` the loop terminates (the
    model's `LABELFUEL` outcome is unreachable): the candidates `base_(m+1)`, `base_(m+2)`, .. have
    pairwise distinct printed forms, so at most `|used_labels|` of them can be used (pigeonhole);
  * `drawLabel_spec`: the label returned has the base name, the current `max_id` as id, and its
    printed form differs from the printed form of every used label;
  * `StRel` / `shrinkStmt_rel`: a generic frame rule — every reflexive, transitive relation on states
    that holds for steps changing only `max_id` and holds for `lift` holds for `shrinkStmt`;
  * `LabelsExt` / `shrinkStmt_labelsExt`: `used_labels` only grows, by labels whose printed forms are
    pairwise distinct and distinct from all labels used before; the definitions pushed to
    `lifted_statements` are named exactly by these labels;
  * `shrinkDefs_labels`, `shrinkProg_labels_nodup`: the definitions of the output program have
    pairwise distinct printed names if the definitions of the input program have.
-/
import Scc.Core2AxCut.Model
import Std.Data.String.ToNat

namespace Scc.Core2AxCut

open Scc

/-! ## printed forms -/

/-- `shrink_identifier` keeps the printed form -/
theorem print_shrinkIdentifier (i : Core.Ident) : (shrinkIdentifier i).print = i.print := rfl

/-- the printed forms `base_(n+1)` determine `n` -/
theorem print_fresh_inj (base : String) {n m : Nat}
    (h : (⟨base, n + 1⟩ : Core.Ident).print = (⟨base, m + 1⟩ : Core.Ident).print) : n = m := by
  simpa [Core.Ident.print] using h

theorem labelUsed_iff {used : List Core.Ident} {l : Core.Ident} :
    labelUsed used l = true ↔ ∃ u ∈ used, u.print = l.print := by
  simp [labelUsed]

theorem labelUsed_false {used : List Core.Ident} {l : Core.Ident} :
    labelUsed used l = false ↔ ∀ u ∈ used, u.print ≠ l.print := by
  simp [labelUsed]

/-! ## the label-drawing loop -/

/-- a step that leaves `used_labels` and `lifted_statements` alone and does not decrease `max_id` -/
def Frame (a b : St) : Prop := b.usedLabels = a.usedLabels ∧ b.lifted = a.lifted ∧ a.maxId ≤ b.maxId

theorem Frame.refl (a : St) : Frame a a := ⟨rfl, rfl, Nat.le_refl _⟩

theorem Frame.trans {a b c : St} (h1 : Frame a b) (h2 : Frame b c) : Frame a c :=
  ⟨h2.1.trans h1.1, h2.2.1.trans h1.2.1, Nat.le_trans h1.2.2 h2.2.2⟩

theorem freshIdentifier_frame (st : St) (base : String) : Frame st (freshIdentifier st base).2 :=
  ⟨rfl, rfl, Nat.le_succ _⟩

/-- if the loop runs out of fuel, all `fuel` candidates were used -/
theorem drawLabel_error (base : String) : ∀ fuel st e, drawLabel base fuel st = .error e →
    ∀ i, i < fuel → labelUsed st.usedLabels ⟨base, st.maxId + i + 1⟩ = true
  | 0, _, _, _, i, hi => by omega
  | fuel + 1, st, e, h, i, hi => by
    simp only [drawLabel] at h
    split at h
    · rename_i hu
      cases i with
      | zero => simpa [freshIdentifier] using hu
      | succ j =>
        have := drawLabel_error base fuel _ e h j (by omega)
        simp only [freshIdentifier] at this
        have e : st.maxId + 1 + j + 1 = st.maxId + (j + 1) + 1 := by omega
        rwa [e] at this
    · cases h

/-- cut.rs: fn lift — the `while` loop terminates within `|used_labels| + 1` draws: the model's
    fuel error is unreachable -/
theorem drawLabel_ne_error (base : String) (st : St) (e : String) :
    drawLabel base (st.usedLabels.length + 1) st ≠ .error e := by
  intro h
  have hall := drawLabel_error base _ st e h
  let cands := (List.range (st.usedLabels.length + 1)).map
    fun i => (⟨base, st.maxId + i + 1⟩ : Core.Ident).print
  have hnd : cands.Nodup := by
    refine List.Pairwise.map _ ?_ List.nodup_range
    intro a b hab h
    have := print_fresh_inj base h
    omega
  have hsub : cands ⊆ st.usedLabels.map (·.print) := by
    intro x hx
    simp only [cands, List.mem_map, List.mem_range] at hx
    obtain ⟨i, hi, rfl⟩ := hx
    obtain ⟨u, hu, he⟩ := labelUsed_iff.mp (hall i hi)
    exact List.mem_map.mpr ⟨u, hu, he⟩
  have := List.Nodup.length_le_of_subset hnd hsub
  simp [cands] at this
  omega

theorem drawLabel_ok (base : String) (st : St) : ∃ r, drawLabel base (st.usedLabels.length + 1) st = .ok r := by
  cases h : drawLabel base (st.usedLabels.length + 1) st with
  | error e => exact absurd h (drawLabel_ne_error base st e)
  | ok r => exact ⟨r, rfl⟩

/-- the label returned by the loop: it has the base name and the final `max_id` as id, its printed
    form is not the printed form of a used label, and it is the FIRST such candidate (all
    candidates with smaller ids are used) -/
theorem drawLabel_spec (base : String) : ∀ fuel st label st1, drawLabel base fuel st = .ok (label, st1) →
    Frame st st1 ∧ label = ⟨base, st1.maxId⟩ ∧ st.maxId < st1.maxId ∧
      (∀ u ∈ st.usedLabels, u.print ≠ label.print) ∧
      (∀ j, st.maxId < j → j < st1.maxId → labelUsed st.usedLabels ⟨base, j⟩ = true)
  | 0, _, _, _, h => by simp [drawLabel] at h
  | fuel + 1, st, label, st1, h => by
    simp only [drawLabel] at h
    split at h
    · rename_i hused
      obtain ⟨hf, hl, hm, hu, hmin⟩ := drawLabel_spec base fuel _ label st1 h
      simp only [freshIdentifier] at hm hmin hused
      refine ⟨(freshIdentifier_frame st base).trans hf, hl, by omega, hu, ?_⟩
      intro j h1 h2
      by_cases hj : j = st.maxId + 1
      · rw [hj]; exact hused
      · exact hmin j (by omega) h2
    · rename_i hu
      simp only [freshIdentifier, Except.ok.injEq, Prod.mk.injEq] at h
      obtain ⟨rfl, rfl⟩ := h
      refine ⟨freshIdentifier_frame st base, rfl, Nat.lt_succ_self _, ?_, ?_⟩
      · exact labelUsed_false.mp (by simpa [freshIdentifier] using hu)
      · intro j h1 h2
        simp only at h2
        omega

/-! ## helpers that only draw fresh identifiers -/

theorem freshenCtx_frame : ∀ c st, Frame st (freshenCtx c st).2
  | [], st => by simp [freshenCtx, Frame.refl]
  | b :: bs, st => by
    simp only [freshenCtx]
    exact (freshIdentifier_frame st b.var.name).trans (freshenCtx_frame bs _)

theorem unknownClauses_frame (env : Env) (v ty) : ∀ xs st, Frame st (unknownClauses env v ty xs st).2
  | [], st => by simp [unknownClauses, Frame.refl]
  | x :: xs, st => by
    simp only [unknownClauses]
    exact (freshenCtx_frame _ st).trans (unknownClauses_frame env v ty xs _)

theorem criticalClauses_frame (env : Env) (v ty e) : ∀ xs st, Frame st (criticalClauses env v ty e xs st).2
  | [], st => by simp [criticalClauses, Frame.refl]
  | x :: xs, st => by
    simp only [criticalClauses]
    exact ((freshenCtx_frame _ st).trans (freshIdentifier_frame _ _)).trans
      (criticalClauses_frame env v ty e xs _)

theorem liftFresh_frame : ∀ bs st, Frame st (liftFresh bs st).2
  | [], st => by simp [liftFresh, Frame.refl]
  | b :: bs, st => by
    simp only [liftFresh]
    exact (freshIdentifier_frame st b.var.name).trans (liftFresh_frame bs _)

/-! ## a generic frame rule for `shrinkStmt` -/

/-- a relation between the state before and after a piece of the translation that is a preorder and
    holds for every step that only increases `max_id` -/
structure StRel (R : St → St → Prop) : Prop where
  refl : ∀ st, R st st
  trans : ∀ {a b c}, R a b → R b c → R a c
  frame : ∀ {a b}, Frame a b → R a b

/-- every successful call of `rec` relates the state before and after -/
def RecRel (R : St → St → Prop) (rec : Rec) : Prop := ∀ s st r st', rec s st = .ok (r, st') → R st st'

section rel
variable {R : St → St → Prop} (hR : StRel R) {env : Env} {rec : Rec} (hrec : RecRel R rec)
include hR hrec

theorem shrinkClauses_rel : ∀ cs st r st', shrinkClauses env rec cs st = .ok (r, st') → R st st'
  | .nil, st, r, st', h => by
    simp [shrinkClauses] at h
    obtain ⟨_, rfl⟩ := h
    exact hR.refl _
  | .cons x ctx body rest, st, r, st', h => by
    simp only [shrinkClauses] at h
    split at h
    · cases h
    · rename_i b' st1 hb
      split at h
      · cases h
      · rename_i r' st2 hr
        simp at h
        obtain ⟨_, rfl⟩ := h
        exact hR.trans (hrec _ _ _ _ hb) (shrinkClauses_rel rest st1 r' st2 hr)

omit hrec in
theorem shrinkUnknownCuts_rel (v1 v2 ty st r st') (h : shrinkUnknownCuts env v1 v2 ty st = .ok (r, st')) :
    R st st' := by
  cases ty with
  | i64 =>
    simp [shrinkUnknownCuts] at h
    obtain ⟨_, rfl⟩ := h
    exact hR.refl _
  | decl name =>
    simp only [shrinkUnknownCuts] at h
    split at h
    · cases h
    · simp at h
      obtain ⟨_, rfl⟩ := h
      exact hR.frame (unknownClauses_frame _ _ _ _ _)

omit hR in
theorem shrinkKnownCuts_rel (name args cs st r st') (h : shrinkKnownCuts rec name args cs st = .ok (r, st')) :
    R st st' := by
  simp only [shrinkKnownCuts] at h
  split at h
  · cases h
  · exact hrec _ _ _ _ h

theorem criticalDecl_rel (hlift : RecRel R (lift env rec)) (d name tt vK sK vE sE st r st')
    (h : criticalDecl env rec d name tt vK sK vE sE st = .ok (r, st')) : R st st' := by
  simp only [criticalDecl] at h
  split at h
  · cases h
  · rename_i e st1 he
    split at h
    · cases h
    · rename_i k st3 hk
      simp at h
      obtain ⟨_, rfl⟩ := h
      have h1 : R st st1 := by
        split at he
        · exact hrec _ _ _ _ he
        · exact hlift _ _ _ _ he
      exact hR.trans h1 (hR.trans (hR.frame (criticalClauses_frame _ _ _ _ _ _)) (hrec _ _ _ _ hk))

theorem shrinkCriticalPairs_rel (hlift : RecRel R (lift env rec)) (v1 s1 v2 s2 ty st r st')
    (h : shrinkCriticalPairs env rec v1 s1 v2 s2 ty st = .ok (r, st')) : R st st' := by
  cases ty with
  | i64 =>
    simp only [shrinkCriticalPairs] at h
    split at h
    · cases h
    · rename_i b st1 hb
      split at h
      · cases h
      · rename_i c st2 hc
        simp at h
        obtain ⟨_, rfl⟩ := h
        exact hR.trans (hrec _ _ _ _ hb) (hrec _ _ _ _ hc)
  | decl name =>
    simp only [shrinkCriticalPairs] at h
    split at h
    · cases h
    · split at h
      · exact criticalDecl_rel hR hrec hlift _ _ _ _ _ _ _ _ _ _ h
      · exact criticalDecl_rel hR hrec hlift _ _ _ _ _ _ _ _ _ _ h

omit hR in
/-- one call of `rec`, then a pure wrapper -/
theorem wrap_rel {s : Core.FsStmt} {st : St} {f : AxCut.Stmt → AxCut.Stmt} {r st'}
    (h : (match rec s st with
      | .error e => .error e
      | .ok (next, st1) => .ok (f next, st1)) = (.ok (r, st') : Except String (AxCut.Stmt × St))) :
    R st st' := by
  split at h
  · cases h
  · rename_i next st1 hn
    simp at h
    obtain ⟨_, rfl⟩ := h
    exact hrec _ _ _ _ hn

/-- `shrinkClauses`, then one call of `rec`, then a pure wrapper -/
theorem wrap2_rel {cs : Core.FsClauses} {s : Core.FsStmt} {st : St}
    {f : AxCut.Clauses → AxCut.Stmt → AxCut.Stmt} {r st'}
    (h : (match shrinkClauses env rec cs st with
      | .error e => .error e
      | .ok (cl, st1) =>
        match rec s st1 with
        | .error e => .error e
        | .ok (next, st2) => .ok (f cl next, st2)) = (.ok (r, st') : Except String (AxCut.Stmt × St))) :
    R st st' := by
  split at h
  · cases h
  · rename_i cl st1 hcl
    split at h
    · cases h
    · rename_i next st2 hn
      simp at h
      obtain ⟨_, rfl⟩ := h
      exact hR.trans (shrinkClauses_rel hR hrec _ _ _ _ hcl) (hrec _ _ _ _ hn)

theorem wrapC_rel {cs : Core.FsClauses} {st : St} {f : AxCut.Clauses → AxCut.Stmt} {r st'}
    (h : (match shrinkClauses env rec cs st with
      | .error e => .error e
      | .ok (cl, st1) => .ok (f cl, st1)) = (.ok (r, st') : Except String (AxCut.Stmt × St))) :
    R st st' := by
  split at h
  · cases h
  · rename_i cl st1 hcl
    simp at h
    obtain ⟨_, rfl⟩ := h
    exact shrinkClauses_rel hR hrec _ _ _ _ hcl

theorem shrinkCut_rel (hlift : RecRel R (lift env rec)) (ty p c st r st')
    (h : shrinkCut env rec ty p c st = .ok (r, st')) : R st st' := by
  unfold shrinkCut at h
  split at h
  all_goals first
    | exact hrec _ _ _ _ h
    | exact shrinkKnownCuts_rel hrec _ _ _ _ _ _ h
    | exact shrinkUnknownCuts_rel hR _ _ _ _ _ _ h
    | exact shrinkCriticalPairs_rel hR hrec hlift _ _ _ _ _ _ _ _ h
    | exact wrap_rel hrec h
    | exact wrap2_rel hR hrec h
    | exact wrapC_rel hR hrec h
    | (simp only [Except.ok.injEq, Prod.mk.injEq] at h
       obtain ⟨_, rfl⟩ := h
       first | exact hR.refl _ | exact hR.frame (freshIdentifier_frame _ _))
    | cases h

theorem shrinkStmtStep_rel (hlift : RecRel R (lift env rec)) (s st r st')
    (h : shrinkStmtStep env rec s st = .ok (r, st')) : R st st' := by
  cases s with
  | cut ty p c => exact shrinkCut_rel hR hrec hlift ty p c st r st' h
  | ifc sort a b t e =>
    simp only [shrinkStmtStep] at h
    split at h
    · cases h
    · rename_i t' st1 ht
      split at h
      · cases h
      · rename_i e' st2 he
        simp at h
        obtain ⟨_, rfl⟩ := h
        exact hR.trans (hrec _ _ _ _ ht) (hrec _ _ _ _ he)
  | print nl a nx =>
    simp only [shrinkStmtStep] at h
    exact wrap_rel hrec h
  | call f args =>
    simp [shrinkStmtStep] at h
    obtain ⟨_, rfl⟩ := h
    exact hR.refl _
  | exit a =>
    simp [shrinkStmtStep] at h
    obtain ⟨_, rfl⟩ := h
    exact hR.refl _

end rel

/-- the frame rule: a preorder on states that holds for `max_id`-only steps and is preserved by
    `lift` (given that it holds for the recursive calls) holds for `shrinkStmt` -/
theorem shrinkStmt_rel {R : St → St → Prop} (hR : StRel R) {env : Env}
    (hlift : ∀ rec, RecRel R rec → RecRel R (lift env rec)) : ∀ fuel, RecRel R (shrinkStmt env fuel)
  | 0 => by
    intro s st r st' h
    simp [shrinkStmt] at h
  | fuel + 1 => by
    intro s st r st' h
    have ih := shrinkStmt_rel hR hlift fuel
    exact shrinkStmtStep_rel hR ih (hlift _ ih) s st r st' h

/-! ## `used_labels` grows by fresh, pairwise distinct labels that name the lifted definitions -/

/-- `st'` is reached from `st` by choosing the labels `g` (latest first) and pushing the definitions
    `l`: the printed forms of the new labels are pairwise distinct and differ from the printed form
    of every label used before; the new definitions are named exactly by the new labels -/
def LabelsExt (st st' : St) : Prop :=
  ∃ (g : List Core.Ident) (l : List AxCut.Def),
    st'.usedLabels = g ++ st.usedLabels ∧ st'.lifted = l ++ st.lifted ∧
    (g.map (·.print)).Nodup ∧ (∀ x ∈ g, ∀ u ∈ st.usedLabels, x.print ≠ u.print) ∧
    (l.map (·.name)).Perm (g.map shrinkIdentifier)

theorem LabelsExt.stRel : StRel LabelsExt where
  refl := fun st => ⟨[], [], by simp⟩
  frame := by
    intro a b h
    exact ⟨[], [], by simp [h.1], by simp [h.2.1], by simp, by simp, by simp⟩
  trans := by
    intro a b c h1 h2
    obtain ⟨g1, l1, hu1, hl1, hn1, hd1, hp1⟩ := h1
    obtain ⟨g2, l2, hu2, hl2, hn2, hd2, hp2⟩ := h2
    refine ⟨g2 ++ g1, l2 ++ l1, by simp [hu2, hu1], by simp [hl2, hl1], ?_, ?_, ?_⟩
    · rw [List.map_append, List.nodup_append]
      refine ⟨hn2, hn1, ?_⟩
      intro x hx y hy hxy
      obtain ⟨x', hx', rfl⟩ := List.mem_map.mp hx
      obtain ⟨y', hy', rfl⟩ := List.mem_map.mp hy
      exact hd2 x' hx' y' (by rw [hu1]; simp [hy']) hxy
    · intro x hx u hu
      rcases List.mem_append.mp hx with h | h
      · exact hd2 x h u (by rw [hu1]; simp [hu])
      · exact hd1 x h u hu
    · rw [List.map_append, List.map_append]
      exact List.Perm.append hp2 hp1

/-- cut.rs: fn lift — the label chosen: its printed form differs from the printed form of every
    label in `used_labels` at the time of the call; it is inserted into `used_labels` before the
    body is translated; the call goes to it and the definition pushed afterwards carries it -/
theorem lift_label {env : Env} {rec : Rec} {s : Core.FsStmt} {st : St} {r : AxCut.Stmt} {st' : St}
    (h : lift env rec s st = .ok (r, st')) :
    ∃ (label : Core.Ident) (st2 st3 : St) (body : AxCut.Stmt),
      label.name = "lift_" ++ env.currentLabel ++ "_" ∧
      (liftFresh (tfvStmt s []) st).2.maxId < label.id ∧
      (∀ u ∈ st.usedLabels, u.print ≠ label.print) ∧
      (∀ j, (liftFresh (tfvStmt s []) st).2.maxId < j → j < label.id →
        labelUsed st.usedLabels ⟨"lift_" ++ env.currentLabel ++ "_", j⟩ = true) ∧
      st2.usedLabels = label :: st.usedLabels ∧ st2.lifted = st.lifted ∧ st2.maxId = label.id ∧
      rec (substStmt (liftFresh (tfvStmt s []) st).1.2 s) st2 = .ok (body, st3) ∧
      r = .call (shrinkIdentifier label) (shrinkContext env.codata (tfvStmt s [])) ∧
      st' = { st3 with lifted :=
        ⟨shrinkIdentifier label, shrinkContext env.codata (liftFresh (tfvStmt s []) st).1.1, body⟩ ::
          st3.lifted } := by
  simp only [lift] at h
  split at h
  · cases h
  · rename_i label st1 hd
    split at h
    · cases h
    · rename_i body st3 hb
      simp only [Except.ok.injEq, Prod.mk.injEq] at h
      obtain ⟨rfl, rfl⟩ := h
      obtain ⟨hf, hl, hm, hu, hmin⟩ := drawLabel_spec _ _ _ _ _ hd
      have hf0 := liftFresh_frame (tfvStmt s []) st
      refine ⟨label, _, st3, body, by rw [hl], ?_, ?_, ?_, ?_, ?_, ?_, hb, rfl, rfl⟩
      · rw [hl]; exact hm
      · rw [← hf0.1]; exact hu
      · rw [← hf0.1, hl]; exact hmin
      · simp [hf.1, hf0.1]
      · simp [hf.2.1, hf0.2.1]
      · rw [hl]

theorem lift_labelsExt {env : Env} {rec : Rec} (hrec : RecRel LabelsExt rec) : RecRel LabelsExt (lift env rec) := by
  intro s st r st' h
  obtain ⟨label, st2, st3, body, _, _, hu, _, hu2, hl2, _, hb, _, rfl⟩ := lift_label h
  obtain ⟨g, l, hu3, hl3, hn, hd, hp⟩ := hrec _ _ _ _ hb
  refine ⟨g ++ [label],
    ⟨shrinkIdentifier label, shrinkContext env.codata (liftFresh (tfvStmt s []) st).1.1, body⟩ :: l, by simp [hu3, hu2], by simp [hl3, hl2], ?_, ?_, ?_⟩
  · rw [List.map_append, List.nodup_append]
    refine ⟨hn, by simp, ?_⟩
    intro x hx y hy hxy
    obtain ⟨x', hx', rfl⟩ := List.mem_map.mp hx
    simp only [List.map_cons, List.map_nil, List.mem_singleton] at hy
    subst hy
    exact hd x' hx' label (by simp [hu2]) hxy
  · intro x hx u hu'
    rcases List.mem_append.mp hx with h | h
    · exact hd x h u (by simp [hu2, hu'])
    · simp only [List.mem_singleton] at h
      subst h
      exact fun e => hu u hu' e.symm
  · simp only [List.map_cons, List.map_append, List.map_nil]
    exact (List.Perm.cons _ hp).trans (List.perm_append_singleton _ _).symm

/-- the label invariant of `FsStatement::shrink` -/
theorem shrinkStmt_labelsExt (env : Env) (fuel : Nat) : RecRel LabelsExt (shrinkStmt env fuel) :=
  shrinkStmt_rel LabelsExt.stRel (fun _ h => lift_labelsExt h) fuel

/-! ## definitions and programs -/

/-- def.rs: fn shrink_def — the definitions returned are the translated definition followed by
    definitions named by the new labels -/
theorem shrinkDef_labels {d : Core.FsDef} {data codata used maxId defs used' maxId'}
    (h : shrinkDef d data codata used maxId = .ok (defs, used', maxId')) :
    ∃ g : List Core.Ident, used' = g ++ used ∧ (g.map (·.print)).Nodup ∧
      (∀ x ∈ g, ∀ u ∈ used, x.print ≠ u.print) ∧
      (defs.map (·.name)).Perm (shrinkIdentifier d.name :: g.map shrinkIdentifier) := by
  simp only [shrinkDef] at h
  split at h
  · cases h
  · rename_i body st hb
    simp only [Except.ok.injEq, Prod.mk.injEq] at h
    obtain ⟨rfl, rfl, rfl⟩ := h
    obtain ⟨g, l, hu, hl, hn, hd, hp⟩ := shrinkStmt_labelsExt _ _ _ _ _ _ hb
    simp only [List.append_nil] at hl
    exact ⟨g, hu, hn, hd, by simp only [List.map_cons, hl]; exact List.Perm.cons _ hp⟩

/-- program.rs: the `flat_map` over the definitions -/
theorem shrinkDefs_labels {data codata : List Core.TypeDecl} : ∀ (ds : List Core.FsDef) (used : List Core.Ident)
    (maxId : Nat) defs used' maxId', shrinkDefs data codata ds used maxId = .ok (defs, used', maxId') →
    ∃ g : List Core.Ident, used' = g ++ used ∧ (g.map (·.print)).Nodup ∧
      (∀ x ∈ g, ∀ u ∈ used, x.print ≠ u.print) ∧
      (defs.map (·.name)).Perm (ds.map (fun d => shrinkIdentifier d.name) ++ g.map shrinkIdentifier)
  | [], used, maxId, defs, used', maxId', h => by
    simp [shrinkDefs] at h
    obtain ⟨rfl, rfl, rfl⟩ := h
    exact ⟨[], by simp⟩
  | d :: ds, used, maxId, defs, used', maxId', h => by
    simp only [shrinkDefs] at h
    split at h
    · cases h
    · rename_i d1 u1 m1 h1
      split at h
      · cases h
      · rename_i d2 u2 m2 h2
        simp only [Except.ok.injEq, Prod.mk.injEq] at h
        obtain ⟨rfl, rfl, rfl⟩ := h
        obtain ⟨g1, hu1, hn1, hd1, hp1⟩ := shrinkDef_labels h1
        obtain ⟨g2, hu2, hn2, hd2, hp2⟩ := shrinkDefs_labels ds u1 m1 d2 u2 m2 h2
        refine ⟨g2 ++ g1, by simp [hu2, hu1], ?_, ?_, ?_⟩
        · rw [List.map_append, List.nodup_append]
          refine ⟨hn2, hn1, ?_⟩
          intro x hx y hy hxy
          obtain ⟨x', hx', rfl⟩ := List.mem_map.mp hx
          obtain ⟨y', hy', rfl⟩ := List.mem_map.mp hy
          exact hd2 x' hx' y' (by rw [hu1]; simp [hy']) hxy
        · intro x hx u hu
          rcases List.mem_append.mp hx with h | h
          · exact hd2 x h u (by rw [hu1]; simp [hu])
          · exact hd1 x h u hu
        · simp only [List.map_append, List.map_cons]
          refine (List.Perm.append hp1 hp2).trans ?_
          simp only [List.cons_append]
          refine List.Perm.cons _ ?_
          -- g1' ++ (ds' ++ g2') ~ ds' ++ (g2' ++ g1')
          refine (List.perm_append_comm).trans ?_
          rw [List.append_assoc]

/-- program.rs: fn shrink_prog — the names of the definitions of the output are the names of the
    definitions of the input plus labels with pairwise distinct printed forms that differ from the
    printed forms of all input names -/
theorem shrinkProg_labels {p : Core.FsProg} {q : AxCut.Prog} (h : shrinkProg p = .ok q) :
    ∃ g : List Core.Ident, (g.map (·.print)).Nodup ∧
      (∀ x ∈ g, ∀ d ∈ p.defs, x.print ≠ d.name.print) ∧
      (q.defs.map (·.name)).Perm (p.defs.map (fun d => shrinkIdentifier d.name) ++ g.map shrinkIdentifier) := by
  simp only [shrinkProg] at h
  split at h
  · cases h
  · split at h
    · cases h
    · split at h
      · cases h
      · rename_i defs used m hd
        simp only [Except.ok.injEq] at h
        subst h
        obtain ⟨g, _, hn, hdis, hp⟩ := shrinkDefs_labels _ _ _ _ _ _ hd
        refine ⟨g, hn, ?_, hp⟩
        intro x hx d hd'
        exact hdis x hx d.name (List.mem_map.mpr ⟨d, hd', rfl⟩)

/-- distinct printed names of the input definitions give distinct printed names of the output
    definitions -/
theorem shrinkProg_labels_nodup {p : Core.FsProg} {q : AxCut.Prog} (h : shrinkProg p = .ok q)
    (hp : (p.defs.map (·.name.print)).Nodup) : (q.defs.map (·.name.print)).Nodup := by
  obtain ⟨g, hn, hdis, hperm⟩ := shrinkProg_labels h
  have h1 : (q.defs.map (·.name.print)) = (q.defs.map (·.name)).map (·.print) := by simp
  rw [h1]
  refine (List.Perm.nodup_iff (List.Perm.map _ hperm)).mpr ?_
  simp only [List.map_append, List.map_map]
  rw [List.nodup_append]
  refine ⟨?_, ?_, ?_⟩
  · exact hp
  · exact hn
  · intro a ha b hb hab
    obtain ⟨d, hd, rfl⟩ := List.mem_map.mp ha
    obtain ⟨x, hx, rfl⟩ := List.mem_map.mp hb
    exact hdis x hx d hd hab.symm

end Scc.Core2AxCut
