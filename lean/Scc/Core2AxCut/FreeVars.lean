/-
  Scc.Core2AxCut.FreeVars — proofs for the lifting part of C04:
  * the derived `Ord` of `ContextBinding` (`cmpBinding`) is a strict total order, so the sorted-list
    model of `BTreeSet` has set semantics and no duplicates;
  * `typed_free_vars` (`tfvStmt`, one threaded set, binders removed after their scope) computes
    exactly the scoped free variables `fvStmt` on statements with unique binders;
  * `lift_spec`: the definition pushed by `lift` has as parameters the typed free variables of the
    lifted statement (same order, names, chiralities, types; fresh pairwise distinct ids), its body is
    the image of the renamed statement, and the call passes the free variables in the same order;
    the label is the first candidate `lift_<current>__k` (k after the parameter ids) whose printed
    form is not the printed form of a used label.
-/
import Scc.Core2AxCut.Proofs
import Scc.Core2AxCut.FreeVarsSpec

namespace Scc.Core2AxCut

open Scc

/-! order facts -/
theorem cmpNatList_eq : ∀ a b, cmpNatList a b = .eq → a = b
  | [], [], _ => rfl
  | [], _ :: _, h => by simp [cmpNatList] at h
  | _ :: _, [], h => by simp [cmpNatList] at h
  | a :: as, b :: bs, h => by
    simp only [cmpNatList] at h
    split at h
    · cases h
    · split at h
      · cases h
      · have := cmpNatList_eq as bs h
        have : a = b := by omega
        simp_all

theorem cmpNatList_swap : ∀ a b, cmpNatList a b = .gt → cmpNatList b a = .lt
  | [], [], h => by simp [cmpNatList] at h
  | [], _ :: _, h => by simp [cmpNatList] at h
  | _ :: _, [], _ => by simp [cmpNatList]
  | a :: as, b :: bs, h => by
    simp only [cmpNatList] at h ⊢
    split at h
    · cases h
    · split at h
      · simp [*]
      · rename_i h1 h2
        have := cmpNatList_swap as bs h
        simp [h1, h2, this]

theorem cmpNatList_trans : ∀ a b c, cmpNatList a b = .lt → cmpNatList b c = .lt → cmpNatList a c = .lt
  | [], [], _, h, _ => by simp [cmpNatList] at h
  | [], _ :: _, [], _, h => by simp [cmpNatList] at h
  | [], _ :: _, _ :: _, _, _ => by simp [cmpNatList]
  | _ :: _, [], _, h, _ => by simp [cmpNatList] at h
  | _ :: _, _ :: _, [], _, h => by simp [cmpNatList] at h
  | a :: as, b :: bs, c :: cs, h1, h2 => by
    simp only [cmpNatList] at h1 h2 ⊢
    by_cases hab : a < b
    · by_cases hbc : b < c
      · have : a < c := by omega
        simp [this]
      · simp only [hbc, if_false] at h2
        split at h2
        · cases h2
        · have : a < c := by omega
          simp [this]
    · simp only [hab, if_false] at h1
      split at h1
      · cases h1
      · by_cases hbc : b < c
        · have : a < c := by omega
          simp [this]
        · simp only [hbc, if_false] at h2
          split at h2
          · cases h2
          · have hac : ¬ a < c := by omega
            have hca : ¬ c < a := by omega
            simp only [hac, hca, if_false]
            exact cmpNatList_trans as bs cs h1 h2


theorem cmpNatList_refl : ∀ a, cmpNatList a a = .eq
  | [] => rfl
  | a :: as => by simp [cmpNatList, cmpNatList_refl as]

/-- a comparison function that is a strict total order -/
structure GoodCmp {α : Type} (cmp : α → α → Ordering) : Prop where
  eq_of : ∀ a b, cmp a b = .eq → a = b
  refl : ∀ a, cmp a a = .eq
  swap : ∀ a b, cmp a b = .gt → cmp b a = .lt
  trans : ∀ a b c, cmp a b = .lt → cmp b c = .lt → cmp a c = .lt

theorem thenCmp_eq {x y} : thenCmp x y = .eq ↔ x = .eq ∧ y = .eq := by
  cases x <;> cases y <;> simp [thenCmp]

theorem thenCmp_lt {x y} : thenCmp x y = .lt ↔ x = .lt ∨ (x = .eq ∧ y = .lt) := by
  cases x <;> cases y <;> simp [thenCmp]

theorem thenCmp_gt {x y} : thenCmp x y = .gt ↔ x = .gt ∨ (x = .eq ∧ y = .gt) := by
  cases x <;> cases y <;> simp [thenCmp]

/-- lexicographic combination of two good comparisons along projections `f`, `g` -/
theorem GoodCmp.lex {α β γ : Type} {c1 : β → β → Ordering} {c2 : γ → γ → Ordering} (h1 : GoodCmp c1)
    (h2 : GoodCmp c2) (f : α → β) (g : α → γ) (inj : ∀ a b, f a = f b → g a = g b → a = b) :
    GoodCmp (fun a b => thenCmp (c1 (f a) (f b)) (c2 (g a) (g b))) where
  eq_of := by
    intro a b h
    rw [thenCmp_eq] at h
    exact inj a b (h1.eq_of _ _ h.1) (h2.eq_of _ _ h.2)
  refl := by intro a; simp [thenCmp_eq, h1.refl, h2.refl]
  swap := by
    intro a b h
    rw [thenCmp_gt] at h
    rw [thenCmp_lt]
    rcases h with h | ⟨he, h⟩
    · exact .inl (h1.swap _ _ h)
    · have := h1.eq_of _ _ he
      exact .inr ⟨by rw [this]; exact h1.refl _, h2.swap _ _ h⟩
  trans := by
    intro a b c hab hbc
    rw [thenCmp_lt] at hab hbc ⊢
    rcases hab with hab | ⟨eab, hab⟩ <;> rcases hbc with hbc | ⟨ebc, hbc⟩
    · exact .inl (h1.trans _ _ _ hab hbc)
    · have := h1.eq_of _ _ ebc
      exact .inl (by rw [← this]; exact hab)
    · have := h1.eq_of _ _ eab
      exact .inl (by rw [this]; exact hbc)
    · have e1 := h1.eq_of _ _ eab
      have e2 := h1.eq_of _ _ ebc
      exact .inr ⟨by rw [e1, e2]; exact h1.refl _, h2.trans _ _ _ hab hbc⟩

theorem goodNat : GoodCmp cmpNat where
  eq_of := by
    intro a b h; simp only [cmpNat] at h
    by_cases h1 : a < b <;> by_cases h2 : b < a <;> simp [h1, h2] at h <;> omega
  refl := by intro a; simp [cmpNat]
  swap := by
    intro a b h; simp only [cmpNat] at h ⊢
    by_cases h1 : a < b <;> by_cases h2 : b < a <;> simp [h1, h2] at h ⊢
  trans := by
    intro a b c h1 h2; simp only [cmpNat] at h1 h2 ⊢
    by_cases ha : a < b <;> by_cases hb : b < a <;> simp [ha, hb] at h1
    all_goals (by_cases hc : b < c <;> by_cases hd : c < b <;> simp [hc, hd] at h2)
    all_goals (have : a < c := by omega)
    all_goals simp [this]

theorem goodNatList : GoodCmp cmpNatList :=
  ⟨cmpNatList_eq, cmpNatList_refl, cmpNatList_swap, cmpNatList_trans⟩

theorem goodPC : GoodCmp cmpPC where
  eq_of := by intro a b; cases a <;> cases b <;> simp [cmpPC]
  refl := by intro a; cases a <;> simp [cmpPC]
  swap := by intro a b; cases a <;> cases b <;> simp [cmpPC]
  trans := by intro a b c; cases a <;> cases b <;> cases c <;> simp [cmpPC]


theorem map_toNat_inj : ∀ (a b : List Char), a.map Char.toNat = b.map Char.toNat → a = b
  | [], [], _ => rfl
  | [], _ :: _, h => by simp at h
  | _ :: _, [], h => by simp at h
  | x :: xs, y :: ys, h => by
    simp only [List.map_cons, List.cons.injEq] at h
    rw [Char.toNat_inj.mp h.1, map_toNat_inj xs ys h.2]

theorem goodIdent : GoodCmp cmpIdent := by
  have := GoodCmp.lex goodNatList goodNat (fun a : Core.Ident => a.name.toList.map Char.toNat) (fun a => a.id)
    (by
      intro a b h1 h2
      cases a; cases b
      simp only at h1 h2
      have := String.toList_inj.mp (map_toNat_inj _ _ h1)
      simp_all)
  exact this

theorem goodTy : GoodCmp cmpTy where
  eq_of := by
    intro a b h
    cases a <;> cases b <;> simp only [cmpTy] at h <;> try cases h
    · rfl
    · rw [goodIdent.eq_of _ _ h]
  refl := by intro a; cases a <;> simp [cmpTy, goodIdent.refl]
  swap := by
    intro a b h
    cases a <;> cases b <;> simp only [cmpTy] at h ⊢ <;> try cases h
    · exact goodIdent.swap _ _ h
  trans := by
    intro a b c h1 h2
    cases a <;> cases b <;> cases c <;> simp only [cmpTy] at h1 h2 ⊢ <;>
      first | exact goodIdent.trans _ _ _ h1 h2 | rfl | (cases h1; done) | (cases h2; done)

theorem goodBinding : GoodCmp cmpBinding := by
  have h23 := GoodCmp.lex goodPC goodTy (fun a : Core.PC × Core.Ty => a.1) (fun a => a.2)
    (by intro a b h1 h2; cases a; cases b; simp_all)
  have := GoodCmp.lex goodIdent h23 (fun a : Core.Binding => a.var) (fun a => (a.chi, a.ty))
    (by intro a b h1 h2; cases a; cases b; simp_all)
  exact this


instance : LawfulBEq Core.Binding where
  eq_of_beq := by
    intro a b h
    cases a; cases b
    simp only [BEq.beq, Core.instBEqBinding.beq] at h
    rename_i v1 c1 t1 v2 c2 t2
    have h' : ((v1 == v2) && ((c1 == c2) && (t1 == t2))) = true := h
    simp only [Bool.and_eq_true, beq_iff_eq] at h'
    obtain ⟨rfl, rfl, rfl⟩ := h'
    rfl
  rfl := by
    intro a; cases a
    rename_i v c t
    show ((v == v) && ((c == c) && (t == t))) = true
    simp

/-! ## the sorted-list representation of `BTreeSet<ContextBinding>` -/

/-- strictly increasing under the derived `Ord` -/
def StrictSorted (l : List Core.Binding) : Prop := l.Pairwise (fun a b => cmpBinding a b = .lt)

theorem mem_setInsert {b x : Core.Binding} : ∀ {l}, x ∈ setInsert b l ↔ x = b ∨ x ∈ l
  | [] => by simp [setInsert]
  | y :: ys => by
    simp only [setInsert]
    split
    · simp
    · rename_i he
      have := goodBinding.eq_of _ _ he
      subst this
      simp
    · simp only [List.mem_cons, mem_setInsert (l := ys)]
      constructor
      · rintro (h | h | h) <;> simp [h]
      · rintro (h | h | h) <;> simp [h]

theorem sorted_setInsert {b : Core.Binding} : ∀ {l}, StrictSorted l → StrictSorted (setInsert b l)
  | [], _ => by simp [setInsert, StrictSorted]
  | y :: ys, h => by
    simp only [setInsert]
    have h' := List.pairwise_cons.mp h
    split
    · rename_i hlt
      refine List.pairwise_cons.mpr ⟨?_, h⟩
      intro z hz
      rcases List.mem_cons.mp hz with rfl | hz
      · exact hlt
      · exact goodBinding.trans _ _ _ hlt (h'.1 z hz)
    · exact h
    · rename_i hgt
      refine List.pairwise_cons.mpr ⟨?_, sorted_setInsert h'.2⟩
      intro z hz
      rcases mem_setInsert.mp hz with rfl | hz
      · exact goodBinding.swap _ _ hgt
      · exact h'.1 z hz

theorem StrictSorted.nodup {l} (h : StrictSorted l) : l.Nodup := by
  unfold StrictSorted at h
  refine List.Pairwise.imp ?_ h
  intro a b hlt hab
  subst hab
  rw [goodBinding.refl] at hlt
  cases hlt

theorem mem_setRemove {b x : Core.Binding} {l} : x ∈ setRemove b l ↔ x ∈ l ∧ x ≠ b := by
  simp [setRemove]

theorem sorted_setRemove {b : Core.Binding} {l} (h : StrictSorted l) : StrictSorted (setRemove b l) :=
  List.Pairwise.filter _ h

theorem mem_setExtend {x : Core.Binding} : ∀ {bs l}, x ∈ setExtend bs l ↔ x ∈ bs ∨ x ∈ l
  | [], l => by simp [setExtend]
  | b :: bs, l => by
    have := mem_setExtend (x := x) (bs := bs) (l := setInsert b l)
    simp only [setExtend, List.foldl_cons] at this ⊢
    rw [this, mem_setInsert]
    simp only [List.mem_cons]
    constructor
    · rintro (h | h | h) <;> simp [h]
    · rintro ((h | h) | h) <;> simp [h]

theorem sorted_setExtend : ∀ {bs l}, StrictSorted l → StrictSorted (setExtend bs l)
  | [], l, h => by simpa [setExtend] using h
  | b :: bs, l, h => by
    have := sorted_setExtend (bs := bs) (sorted_setInsert (b := b) h)
    simpa [setExtend] using this

theorem mem_removeAll {x : Core.Binding} : ∀ {ctx l : List Core.Binding},
    x ∈ ctx.foldl (fun acc b => setRemove b acc) l ↔ x ∈ l ∧ x ∉ ctx
  | [], l => by simp
  | b :: bs, l => by
    simp only [List.foldl_cons, mem_removeAll (ctx := bs), mem_setRemove, List.mem_cons, not_or]
    constructor
    · rintro ⟨⟨h1, h2⟩, h3⟩; exact ⟨h1, h2, h3⟩
    · rintro ⟨h1, h2, h3⟩; exact ⟨⟨h1, h2⟩, h3⟩

theorem sorted_removeAll : ∀ {ctx l : List Core.Binding}, StrictSorted l → StrictSorted (ctx.foldl (fun acc b => setRemove b acc) l)
  | [], l, h => by simpa using h
  | b :: bs, l, h => by
    simp only [List.foldl_cons]
    exact sorted_removeAll (sorted_setRemove h)

mutual
  theorem sorted_tfvTerm : ∀ t vs, StrictSorted vs → StrictSorted (tfvTerm t vs)
    | .var _ _ _, vs, h => by simp only [tfvTerm]; exact sorted_setInsert h
    | .lit _, vs, h => by simpa [tfvTerm] using h
    | .op _ _ _, vs, h => by simp only [tfvTerm]; exact sorted_setInsert (sorted_setInsert h)
    | .mu _ _ _ s, vs, h => by simp only [tfvTerm]; exact sorted_setRemove (sorted_tfvStmt s vs h)
    | .xtor _ _ _ _, vs, h => by simp only [tfvTerm]; exact sorted_setExtend h
    | .xcase _ _ cs, vs, h => by simp only [tfvTerm]; exact sorted_tfvClauses cs vs h
  theorem sorted_tfvClauses : ∀ cs vs, StrictSorted vs → StrictSorted (tfvClauses cs vs)
    | .nil, vs, h => by simpa [tfvClauses] using h
    | .cons _ ctx body rest, vs, h => by
      simp only [tfvClauses]
      exact sorted_tfvClauses rest _ (sorted_removeAll (sorted_tfvStmt body vs h))
  theorem sorted_tfvStmt : ∀ s vs, StrictSorted vs → StrictSorted (tfvStmt s vs)
    | .cut _ p c, vs, h => by simp only [tfvStmt]; exact sorted_tfvTerm c _ (sorted_tfvTerm p vs h)
    | .ifc _ a none t e, vs, h => by
      simp only [tfvStmt]; exact sorted_tfvStmt e _ (sorted_tfvStmt t _ (sorted_setInsert h))
    | .ifc _ a (some b) t e, vs, h => by
      simp only [tfvStmt]
      exact sorted_tfvStmt e _ (sorted_tfvStmt t _ (sorted_setInsert (sorted_setInsert h)))
    | .print _ a n, vs, h => by simp only [tfvStmt]; exact sorted_tfvStmt n _ (sorted_setInsert h)
    | .call _ args, vs, h => by simp only [tfvStmt]; exact sorted_setExtend h
    | .exit a, vs, h => by simp only [tfvStmt]; exact sorted_setInsert h
end

/-- the parameter list computed by `lift` has no duplicates -/
theorem tfvStmt_nodup (s : Core.FsStmt) : (tfvStmt s []).Nodup :=
  (sorted_tfvStmt s [] (by simp [StrictSorted])).nodup


/-! ## `typed_free_vars` computes the free variables on statements with unique binders -/

/-- hypotheses under which the threaded-set traversal is exact -/
def Sep (binders fv vs : List Core.Binding) : Prop :=
  binders.Nodup ∧ ∀ β ∈ binders, β ∉ vs ∧ β ∉ fv

mutual
  theorem tfvTerm_correct : ∀ t vs, Sep (bindersTerm t) (fvTerm t) vs →
      ∀ b, b ∈ tfvTerm t vs ↔ b ∈ vs ∨ b ∈ fvTerm t
    | .var pc v ty, vs, _, b => by simp [tfvTerm, fvTerm, mem_setInsert, or_comm]
    | .lit _, vs, _, b => by simp [tfvTerm, fvTerm]
    | .op a _ c, vs, _, b => by
      simp only [tfvTerm, fvTerm, mem_setInsert, List.mem_cons, List.not_mem_nil, or_false]
      constructor
      · rintro (h | h | h) <;> simp [h]
      · rintro (h | h | h) <;> simp [h]
    | .mu pc v ty s, vs, ⟨hnd, hsep⟩, b => by
      simp only [bindersTerm, fvTerm] at hnd hsep
      have hnd' := List.nodup_cons.mp hnd
      have ih := tfvStmt_correct s vs ⟨hnd'.2, by
        intro β hβ
        have := hsep β (List.mem_cons_of_mem _ hβ)
        refine ⟨this.1, ?_⟩
        intro hfv
        apply this.2
        simp only [List.mem_filter, decide_eq_true_eq]
        refine ⟨hfv, ?_⟩
        intro heq; subst heq; exact hnd'.1 hβ⟩ b
      have h0 := (hsep _ (List.mem_cons_self)).1
      simp only [tfvTerm, fvTerm, mem_setRemove, ih, List.mem_filter, decide_eq_true_eq]
      constructor
      · rintro ⟨h | h, hne⟩
        · exact .inl h
        · exact .inr ⟨h, hne⟩
      · rintro (h | ⟨h, hne⟩)
        · exact ⟨.inl h, by intro heq; subst heq; exact h0 h⟩
        · exact ⟨.inr h, hne⟩
    | .xtor _ _ args _, vs, _, b => by simp [tfvTerm, fvTerm, mem_setExtend, or_comm]
    | .xcase _ _ cs, vs, h, b => by
      simp only [tfvTerm, fvTerm]
      exact tfvClauses_correct cs vs h b
  theorem tfvClauses_correct : ∀ cs vs, Sep (bindersClauses cs) (fvClauses cs) vs →
      ∀ b, b ∈ tfvClauses cs vs ↔ b ∈ vs ∨ b ∈ fvClauses cs
    | .nil, vs, _, b => by simp [tfvClauses, fvClauses]
    | .cons x ctx body rest, vs, ⟨hnd, hsep⟩, b => by
      simp only [bindersClauses, fvClauses] at hnd hsep
      have hnd1 := List.nodup_append.mp hnd
      have hnd2 := List.nodup_append.mp hnd1.2.1
      -- the body
      have ihb := tfvStmt_correct body vs ⟨hnd2.1, by
        intro β hβ
        have := hsep β (by simp [hβ])
        refine ⟨this.1, ?_⟩
        intro hfv
        apply this.2
        simp only [List.mem_append, List.mem_filter, notIn_iff]
        refine .inl ⟨hfv, ?_⟩
        intro hctx
        exact hnd1.2.2 β hctx β (by simp [hβ]) rfl⟩
      -- the accumulator after the clause
      have hacc : ∀ y, y ∈ ctx.foldl (fun acc b => setRemove b acc) (tfvStmt body vs) ↔
          y ∈ vs ∨ (y ∈ fvStmt body ∧ y ∉ ctx) := by
        intro y
        rw [mem_removeAll, ihb y]
        constructor
        · rintro ⟨h | h, hn⟩
          · exact .inl h
          · exact .inr ⟨h, hn⟩
        · rintro (h | ⟨h, hn⟩)
          · exact ⟨.inl h, fun hc => (hsep y (by simp [hc])).1 h⟩
          · exact ⟨.inr h, hn⟩
      have ihr := tfvClauses_correct rest (ctx.foldl (fun acc b => setRemove b acc) (tfvStmt body vs))
        ⟨hnd2.2.1, by
          intro β hβ
          have := hsep β (by simp [hβ])
          refine ⟨?_, ?_⟩
          · rw [hacc]
            rintro (h | ⟨h, hn⟩)
            · exact this.1 h
            · apply this.2
              simp only [List.mem_append, List.mem_filter, notIn_iff]
              exact .inl ⟨h, hn⟩
          · intro hfv
            apply this.2
            simp only [List.mem_append]
            exact .inr hfv⟩ b
      simp only [tfvClauses, fvClauses, ihr, hacc, List.mem_append, List.mem_filter, notIn_iff]
      constructor
      · rintro ((h | h) | h)
        · exact .inl h
        · exact .inr (.inl h)
        · exact .inr (.inr h)
      · rintro (h | h | h)
        · exact .inl (.inl h)
        · exact .inl (.inr h)
        · exact .inr h
  theorem tfvStmt_correct : ∀ s vs, Sep (bindersStmt s) (fvStmt s) vs →
      ∀ b, b ∈ tfvStmt s vs ↔ b ∈ vs ∨ b ∈ fvStmt s
    | .cut _ p c, vs, ⟨hnd, hsep⟩, b => by
      simp only [bindersStmt, fvStmt] at hnd hsep
      have hnd1 := List.nodup_append.mp hnd
      have ihp := tfvTerm_correct p vs ⟨hnd1.1, by
        intro β hβ
        have := hsep β (by simp [hβ])
        exact ⟨this.1, fun h => this.2 (by simp [h])⟩⟩
      have ihc := tfvTerm_correct c (tfvTerm p vs) ⟨hnd1.2.1, by
        intro β hβ
        have := hsep β (by simp [hβ])
        refine ⟨?_, fun h => this.2 (by simp [h])⟩
        rw [ihp]
        rintro (h | h)
        · exact this.1 h
        · exact this.2 (by simp [h])⟩ b
      simp only [tfvStmt, fvStmt, ihc, ihp, List.mem_append, or_assoc]
    | .ifc _ a none t e, vs, ⟨hnd, hsep⟩, b => by
      simp only [bindersStmt, fvStmt] at hnd hsep
      have hnd1 := List.nodup_append.mp hnd
      have iht := tfvStmt_correct t (setInsert ⟨a, .prd, .i64⟩ vs) ⟨hnd1.1, by
        intro β hβ
        have := hsep β (by simp [hβ])
        refine ⟨?_, fun h => this.2 (by simp [h])⟩
        rw [mem_setInsert]
        rintro (h | h)
        · exact this.2 (by simp [h])
        · exact this.1 h⟩
      have ihe := tfvStmt_correct e (tfvStmt t (setInsert ⟨a, .prd, .i64⟩ vs)) ⟨hnd1.2.1, by
        intro β hβ
        have := hsep β (by simp [hβ])
        refine ⟨?_, fun h => this.2 (by simp [h])⟩
        rw [iht, mem_setInsert]
        rintro ((h | h) | h)
        · exact this.2 (by simp [h])
        · exact this.1 h
        · exact this.2 (by simp [h])⟩ b
      simp only [tfvStmt, fvStmt, ihe, iht, mem_setInsert, List.mem_cons, List.mem_append]
      constructor
      · rintro (((h | h) | h) | h) <;> simp [h]
      · rintro (h | h | h | h) <;> simp [h]
    | .ifc _ a (some a2) t e, vs, ⟨hnd, hsep⟩, b => by
      simp only [bindersStmt, fvStmt] at hnd hsep
      have hnd1 := List.nodup_append.mp hnd
      have iht := tfvStmt_correct t (setInsert ⟨a2, .prd, .i64⟩ (setInsert ⟨a, .prd, .i64⟩ vs)) ⟨hnd1.1, by
        intro β hβ
        have := hsep β (by simp [hβ])
        refine ⟨?_, fun h => this.2 (by simp [h])⟩
        rw [mem_setInsert, mem_setInsert]
        rintro (h | h | h)
        · exact this.2 (by simp [h])
        · exact this.2 (by simp [h])
        · exact this.1 h⟩
      have ihe := tfvStmt_correct e (tfvStmt t (setInsert ⟨a2, .prd, .i64⟩ (setInsert ⟨a, .prd, .i64⟩ vs)))
        ⟨hnd1.2.1, by
        intro β hβ
        have := hsep β (by simp [hβ])
        refine ⟨?_, fun h => this.2 (by simp [h])⟩
        rw [iht, mem_setInsert, mem_setInsert]
        rintro ((h | h | h) | h)
        · exact this.2 (by simp [h])
        · exact this.2 (by simp [h])
        · exact this.1 h
        · exact this.2 (by simp [h])⟩ b
      simp only [tfvStmt, fvStmt, ihe, iht, mem_setInsert, List.mem_cons, List.mem_append]
      constructor
      · rintro (((h | h | h) | h) | h) <;> simp [h]
      · rintro (h | h | h | h | h) <;> simp [h]
    | .print _ a n, vs, ⟨hnd, hsep⟩, b => by
      simp only [bindersStmt, fvStmt] at hnd hsep
      have ihn := tfvStmt_correct n (setInsert ⟨a, .prd, .i64⟩ vs) ⟨hnd, by
        intro β hβ
        have := hsep β hβ
        refine ⟨?_, fun h => this.2 (by simp [h])⟩
        rw [mem_setInsert]
        rintro (h | h)
        · exact this.2 (by simp [h])
        · exact this.1 h⟩ b
      simp only [tfvStmt, fvStmt, ihn, mem_setInsert, List.mem_cons]
      constructor
      · rintro ((h | h) | h) <;> simp [h]
      · rintro (h | h | h) <;> simp [h]
    | .call _ args, vs, _, b => by simp [tfvStmt, fvStmt, mem_setExtend, or_comm]
    | .exit a, vs, _, b => by simp [tfvStmt, fvStmt, mem_setInsert, or_comm]
end

/-- on statements with unique binders the set computed by the Rust `typed_free_vars` (which `lift`
    turns into the parameter list) is exactly the set of free typed variables -/
theorem tfvStmt_eq_fv (s : Core.FsStmt) (h : UniqueBinders s) :
    ∀ b, b ∈ tfvStmt s [] ↔ b ∈ fvStmt s := by
  intro b
  have := tfvStmt_correct s [] ⟨h.1, fun β hβ => ⟨by simp, h.2 β hβ⟩⟩ b
  simpa using this


/-! ## `lift`: the lifted definition receives exactly the typed free variables -/

theorem liftFresh_spec : ∀ bs st, liftFresh bs st =
    ((liftParams st.maxId bs, liftSubst st.maxId bs), { st with maxId := st.maxId + bs.length })
  | [], st => by simp [liftFresh, liftParams, liftSubst]
  | b :: bs, st => by
    simp only [liftFresh, freshIdentifier, liftFresh_spec bs, liftParams, liftSubst, List.length_cons]
    simp only [Prod.mk.injEq, true_and]
    congr 1
    omega

/-- the i-th parameter and the i-th free variable agree in name, chirality and type; the ids of the
    parameters are `m+1, m+2, ..` -/
theorem liftParams_spec : ∀ (m : Nat) (bs : List Core.Binding),
    (liftParams m bs).length = bs.length ∧
    ∀ i (h : i < bs.length), ∃ h' : i < (liftParams m bs).length,
      (liftParams m bs)[i] = { bs[i] with var := ⟨bs[i].var.name, m + 1 + i⟩ }
  | m, [] => by simp [liftParams]
  | m, b :: bs => by
    obtain ⟨hl, hi⟩ := liftParams_spec (m + 1) bs
    refine ⟨by simp [liftParams, hl], ?_⟩
    intro i h
    cases i with
    | zero => exact ⟨by simp [liftParams], by simp [liftParams]⟩
    | succ j =>
      obtain ⟨h', e⟩ := hi j (by simpa using h)
      refine ⟨by simp [liftParams, hl]; simpa using h, ?_⟩
      simp only [liftParams, List.getElem_cons_succ, e]
      congr 2
      omega

theorem liftSubst_spec : ∀ (m : Nat) (bs : List Core.Binding),
    liftSubst m bs = (bs.map (·.var.id)).zip ((liftParams m bs).map (·.var))
  | m, [] => by simp [liftSubst, liftParams]
  | m, b :: bs => by simp [liftSubst, liftParams, liftSubst_spec (m + 1) bs]

/-- the ids of the parameters of a lifted definition are pairwise distinct -/
theorem liftParams_ids_nodup : ∀ (m : Nat) (bs : List Core.Binding),
    ((liftParams m bs).map (·.var.id)).Nodup ∧ ∀ i ∈ (liftParams m bs).map (·.var.id), m < i
  | m, [] => by simp [liftParams]
  | m, b :: bs => by
    obtain ⟨h1, h2⟩ := liftParams_ids_nodup (m + 1) bs
    simp only [liftParams, List.map_cons, List.nodup_cons, List.mem_cons]
    refine ⟨⟨?_, h1⟩, ?_⟩
    · intro hm
      have := h2 _ hm
      omega
    · rintro i (rfl | hi)
      · omega
      · have := h2 i hi; omega

/-- `shrink_binding` keeps kinds and types apart from the variable: call arguments and parameters
    of the lifted definition agree position by position in chirality and type -/
theorem shrinkContext_liftParams (codata : List Core.TypeDecl) : ∀ (m : Nat) (bs : List Core.Binding),
    (shrinkContext codata (liftParams m bs)).map (fun b => (b.chi, b.ty)) =
    (shrinkContext codata bs).map (fun b => (b.chi, b.ty))
  | m, [] => by simp [liftParams]
  | m, b :: bs => by
    have := shrinkContext_liftParams codata (m + 1) bs
    simp only [shrinkContext] at this
    simp only [liftParams, shrinkContext, List.map_cons, this, List.cons.injEq, and_true]
    simp only [shrinkBinding]
    split <;> split <;> simp

/-- the local specification of `lift`.  The label is `lift_<current>__k` for the first
    `k > max_id + |fv|` whose printed form is not the printed form of a used label (`k` is
    `max_id + |fv| + 1` unless a top-level name collides); it is inserted into `used_labels`
    before the body is translated. -/
theorem lift_spec (env : Env) (rec : Rec) (s : Core.FsStmt) (st : St) (r : AxCut.Stmt) (st' : St)
    (h : lift env rec s st = .ok (r, st')) :
    let fv := tfvStmt s []
    let base := "lift_" ++ env.currentLabel ++ "_"
    ∃ (k : Nat) (body : AxCut.Stmt) (st3 : St),
      st.maxId + fv.length < k ∧
      (∀ u ∈ st.usedLabels, u.print ≠ (⟨base, k⟩ : Core.Ident).print) ∧
      (∀ j, st.maxId + fv.length < j → j < k → labelUsed st.usedLabels ⟨base, j⟩ = true) ∧
      rec (substStmt (liftSubst st.maxId fv) s) ⟨k, ⟨base, k⟩ :: st.usedLabels, st.lifted⟩ = .ok (body, st3) ∧
      r = .call ⟨base, k⟩ (shrinkContext env.codata fv) ∧
      st' = { st3 with lifted :=
        ⟨⟨base, k⟩, shrinkContext env.codata (liftParams st.maxId fv), body⟩ :: st3.lifted } := by
  obtain ⟨label, st2, st3, body, hn, hlt, hu, hmin, hu2, hl2, hm2, hb, hr, hst⟩ := lift_label h
  simp only [liftFresh_spec] at hlt hmin hb hst
  obtain ⟨name, k⟩ := label
  simp only at hn hm2 hlt
  subst hn
  have e2 : st2 = ⟨k, ⟨"lift_" ++ env.currentLabel ++ "_", k⟩ :: st.usedLabels, st.lifted⟩ := by
    cases st2; simp_all
  rw [e2] at hb
  exact ⟨k, body, st3, hlt, hu, hmin, hb, hr, hst⟩

end Scc.Core2AxCut
