/-
  Scc.Core2AxCut.FreeVarsSpec — the textbook (scoped) definition of the typed free variables of a
  focused Core statement, and of its binders.  Spec for C04 ("statements lifted to new top-level
  definitions receive exactly their free variables"); not transcribed from Rust — the Rust function
  `typed_free_vars` (model: `tfvStmt`) threads ONE set through the traversal and removes binders after
  their scope, which is only correct on statements with unique binders
  (`Scc/Core2AxCut/FreeVars.lean: tfvStmt_correct`).   Core imports only.

  A typed variable occurrence is the binding `(identifier, chirality, type)` as annotated at the
  occurrence; integer operands of `op`, `ifc`, `print`, `exit` occur as `prd i64`.
-/
import Scc.Core2AxCut.Model

namespace Scc.Core2AxCut

open Scc

/-- `b` is none of the bindings of `ctx` -/
def notIn (ctx : Core.Ctx) (b : Core.Binding) : Bool := ctx.all (fun c => decide (b ≠ c))

theorem notIn_iff {ctx : Core.Ctx} {b : Core.Binding} : notIn ctx b = true ↔ b ∉ ctx := by
  simp only [notIn, List.all_eq_true, decide_eq_true_eq]
  constructor
  · intro h hm; exact h b hm rfl
  · intro h c hc heq; subst heq; exact h hc

mutual
  /-- free typed variables, with proper scoping: a (tilde-)mu binds its variable in its body, a
      clause binds its parameters in its body -/
  def fvTerm : Core.FsTerm → List Core.Binding
    | .var pc v ty => [⟨v, pc, ty⟩]
    | .lit _ => []
    | .op a _ b => [⟨a, .prd, .i64⟩, ⟨b, .prd, .i64⟩]
    | .mu pc v ty s => (fvStmt s).filter (fun b => decide (b ≠ ⟨v, flipPC pc, ty⟩))
    | .xtor _ _ args _ => args
    | .xcase _ _ cs => fvClauses cs
  def fvClauses : Core.FsClauses → List Core.Binding
    | .nil => []
    | .cons _ ctx body rest => (fvStmt body).filter (notIn ctx) ++ fvClauses rest
  def fvStmt : Core.FsStmt → List Core.Binding
    | .cut _ p c => fvTerm p ++ fvTerm c
    | .ifc _ a none t e => ⟨a, .prd, .i64⟩ :: (fvStmt t ++ fvStmt e)
    | .ifc _ a (some b) t e => ⟨a, .prd, .i64⟩ :: ⟨b, .prd, .i64⟩ :: (fvStmt t ++ fvStmt e)
    | .print _ a n => ⟨a, .prd, .i64⟩ :: fvStmt n
    | .call _ args => args
    | .exit a => [⟨a, .prd, .i64⟩]
end

mutual
  /-- all binders of a statement (mu variables with their chirality and type, clause parameters) -/
  def bindersTerm : Core.FsTerm → List Core.Binding
    | .var _ _ _ => []
    | .lit _ => []
    | .op _ _ _ => []
    | .mu pc v ty s => ⟨v, flipPC pc, ty⟩ :: bindersStmt s
    | .xtor _ _ _ _ => []
    | .xcase _ _ cs => bindersClauses cs
  def bindersClauses : Core.FsClauses → List Core.Binding
    | .nil => []
    | .cons _ ctx body rest => ctx ++ (bindersStmt body ++ bindersClauses rest)
  def bindersStmt : Core.FsStmt → List Core.Binding
    | .cut _ p c => bindersTerm p ++ bindersTerm c
    | .ifc _ _ _ t e => bindersStmt t ++ bindersStmt e
    | .print _ _ n => bindersStmt n
    | .call _ _ => []
    | .exit _ => []
end

/-- the invariant assumed by core2axcut ("all variable bindings in each path through a program
    are unique"), in the form needed here: no binder occurs twice in the statement and no binder is
    also a free variable of the statement -/
def UniqueBinders (s : Core.FsStmt) : Prop :=
  (bindersStmt s).Nodup ∧ ∀ β ∈ bindersStmt s, β ∉ fvStmt s


/-! ## what `lift` does with the free variables (spec side of `liftFresh`) -/

/-- the parameter list of a lifted definition: the i-th free variable (i = 0, 1, ..) keeps its name,
    chirality and type and gets the fresh id `m + 1 + i` -/
def liftParams (m : Nat) : List Core.Binding → List Core.Binding
  | [] => []
  | b :: bs => { b with var := ⟨b.var.name, m + 1⟩ } :: liftParams (m + 1) bs

/-- the renaming applied to the lifted statement: id of the i-th free variable ↦ i-th parameter -/
def liftSubst (m : Nat) : List Core.Binding → List (Nat × Core.Ident)
  | [] => []
  | b :: bs => (b.var.id, ⟨b.var.name, m + 1⟩) :: liftSubst (m + 1) bs


/-! ## a decidable sufficient condition for `UniqueBinders`, run on the S3 dumps -/

def nodupNat : List Nat → Bool
  | [] => true
  | x :: xs => !(xs.contains x) && nodupNat xs

/-- the ids of the parameters and of all binders of a definition are pairwise distinct -/
def uniqueIdsDef (d : Core.FsDef) : Bool :=
  nodupNat ((d.ctx ++ bindersStmt d.body).map (·.var.id))

def uniqueIdsCheck (p : Core.FsProg) : Bool := p.defs.all uniqueIdsDef

end Scc.Core2AxCut
