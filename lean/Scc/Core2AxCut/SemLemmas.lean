/-
  Scc.Core2AxCut.SemLemmas — proof file for the semantic part of C04: environment lemmas for the
  simulation relation of `SemRel.lean` (lookup, extension by one binding, by a parameter list, aliasing),
  step equations of the named AxCut machine, agreement of the arithmetic of the two machines.
-/
import Scc.Core2AxCut.SemRel
import Scc.Core2AxCut.SemRun
import Scc.Core2AxCut.FreeVars
import Scc.AxCut.TypingNamedProofs

namespace Scc.Core2AxCut.Sem

open Scc Scc.Core2AxCut
open Scc.AxCut.Named (Value lookup lookupAll bindParams findDef State step)

local notation "sid" => shrinkIdentifier

/-! ## small facts -/

theorem isCodata_eq (c : List Core.TypeDecl) (t : Core.Ty) : Core.isCodata c t = isCodata c t := by
  cases t <;> rfl

theorem evalCmp_eq (s : Core.IfSort) (a b : BitVec 64) :
    AxCut.Named.evalCmp (shrinkIfSort s) a b = Core.compare s a b := by
  cases s <;> rfl

theorem evalOp_eq (o : Core.BinOp) (a b : BitVec 64) :
    (∀ z, Core.arith o a b = .ok z → AxCut.Named.evalOp (shrinkBinop o) a b = .ok z) ∧
    (∀ e, Core.arith o a b = .error e → ∃ w, AxCut.Named.evalOp (shrinkBinop o) a b = .error w) := by
  cases o <;> simp only [Core.arith, AxCut.Named.evalOp, shrinkBinop, Core.minInt64, AxCut.Named.minInt]
  all_goals first
    | (constructor
       · intro z hz; simpa using hz
       · intro e he; cases he)
    | (by_cases h0 : b = 0
       · simp [h0]
       · by_cases h1 : a = BitVec.intMin 64 ∧ b = -1
         · simp [h1]
         · simp only [h0, if_false, h1, beq_iff_eq, Bool.and_eq_true]
           constructor
           · intro z hz; simpa using hz
           · intro e he; cases he)

theorem sid_inj {a b : Core.Ident} (h : sid a = sid b) : a = b := by
  cases a; cases b; simp only [shrinkIdentifier, AxCut.Ident.mk.injEq] at h
  simp [h.1, h.2]

theorem sid_beq (a b : Core.Ident) : (sid a == sid b) = (a == b) := by
  by_cases h : a = b
  · subst h; simp
  · have h1 : sid a ≠ sid b := fun e => h (sid_inj e)
    have e1 : (sid a == sid b) = false := by simpa using h1
    have e2 : (a == b) = false := by simpa using h
    rw [e1, e2]

theorem HMap.set_self (h : HMap) (x : Core.Ident) (i : Nat) : (h.set x i) x = i := by simp [HMap.set]

theorem HMap.set_ne (h : HMap) {x y : Core.Ident} (i : Nat) (hne : y ≠ x) : (h.set x i) y = h y := by
  simp [HMap.set, hne]

/-! ## scoping -/

theorem occFs_cons {b0 b : Core.Binding} {Γ : Core.Ctx} (h : occFs (b0 :: Γ) b = true) :
    (b = b0) ∨ (b.var.id ≠ b0.var.id ∧ occFs Γ b = true) := by
  simp only [occFs, lookupFs, List.find?_cons] at h
  by_cases hid : (b0.var.id == b.var.id) = true
  · simp only [hid] at h
    left
    exact (Option.some.inj (eq_of_beq h)).symm
  · simp only [hid] at h
    right
    refine ⟨fun e => hid (by simp [e]), ?_⟩
    simpa [occFs, lookupFs] using h

theorem occFs_cons_self (b0 : Core.Binding) (Γ : Core.Ctx) : occFs (b0 :: Γ) b0 = true := by
  simp [occFs, lookupFs]

theorem occFs_cons_of_ne {b0 b : Core.Binding} {Γ : Core.Ctx} (hne : b.var.id ≠ b0.var.id)
    (h : occFs Γ b = true) : occFs (b0 :: Γ) b = true := by
  have : (b0.var.id == b.var.id) = false := by simp; exact fun e => hne e.symm
  simpa [occFs, lookupFs, List.find?_cons, this] using h

theorem var_ne_of_id_ne {a b : Core.Ident} (h : a.id ≠ b.id) : a ≠ b := fun e => h (by rw [e])

/-! ## lookups in the AxCut environment -/

theorem lookup_cons (i : Nat) (v : Value) (η : AxCut.Named.Env) (j : Nat) :
    lookup ((i, v) :: η) j = if i = j then some v else lookup η j := by
  simp only [lookup, List.find?_cons]
  by_cases h : i = j
  · simp [h]
  · have : (i == j) = false := by simp [h]
    simp [this, h]

theorem lookup_cons_self (i : Nat) (v : Value) (η : AxCut.Named.Env) : lookup ((i, v) :: η) i = some v := by
  simp [lookup_cons]

theorem lookup_cons_ne {i j : Nat} (v : Value) (η : AxCut.Named.Env) (h : j ≠ i) :
    lookup ((i, v) :: η) j = lookup η j := by
  have : ¬ i = j := fun e => h e.symm
  simp [lookup_cons, this]

theorem bindParams_keys : ∀ {ctx : AxCut.Ctx} {vs : List Value} {e}, bindParams ctx vs = some e →
    e.map (·.1) = axIds ctx
  | [], [], e, h => by simp [bindParams] at h; subst h; rfl
  | [], _ :: _, e, h => by simp [bindParams] at h
  | _ :: _, [], e, h => by simp [bindParams] at h
  | b :: bs, v :: vs, e, h => by
    simp only [bindParams] at h
    split at h
    · rename_i e' he
      simp only [Option.some.injEq] at h
      subst h
      simp [axIds, bindParams_keys he]
    · cases h

theorem lookup_append_of_not_mem {e η : AxCut.Named.Env} {j : Nat} (h : j ∉ e.map (·.1)) :
    lookup (e ++ η) j = lookup η j := by
  induction e with
  | nil => rfl
  | cons p e ih =>
    obtain ⟨i, v⟩ := p
    simp only [List.map_cons, List.mem_cons, not_or] at h
    rw [List.cons_append, lookup_cons_ne _ _ h.1]
    exact ih h.2

theorem bindParams_some : ∀ (ctx : AxCut.Ctx) (vs : List Value), ctx.length = vs.length →
    ∃ e, bindParams ctx vs = some e
  | [], [], _ => ⟨[], rfl⟩
  | [], _ :: _, h => by simp at h
  | _ :: _, [], h => by simp at h
  | b :: bs, v :: vs, h => by
    obtain ⟨e, he⟩ := bindParams_some bs vs (by simpa using h)
    exact ⟨(b.var.id, v) :: e, by simp [bindParams, he]⟩

/-- looking up the parameters themselves after `bindParams` (distinct ids) returns the values -/
theorem lookupAll_bindParams : ∀ (ctx ctx' : AxCut.Ctx) (vs : List Value) (e : AxCut.Named.Env)
    (η : AxCut.Named.Env), bindParams ctx vs = some e → axIds ctx' = axIds ctx → (axIds ctx).Nodup →
    ∀ pre : AxCut.Named.Env, (∀ i ∈ axIds ctx, i ∉ pre.map (·.1)) → lookupAll (pre ++ e ++ η) ctx' = some vs
  | [], [], [], e, η, _, _, _, pre, _ => by simp [lookupAll]
  | [], _ :: _, _, e, η, _, h, _, _, _ => by simp [axIds] at h
  | _ :: _, [], _, e, η, _, h, _, _, _ => by simp [axIds] at h
  | [], [], _ :: _, e, η, h, _, _, _, _ => by simp [bindParams] at h
  | b :: bs, b' :: bs', [], e, η, h, _, _, _, _ => by simp [bindParams] at h
  | b :: bs, b' :: bs', v :: vs, e, η, h, hids, hnd, pre, hpre => by
    simp only [bindParams] at h
    split at h
    · rename_i e' he
      simp only [Option.some.injEq] at h
      subst h
      simp only [axIds, List.map_cons, List.cons.injEq] at hids
      simp only [axIds, List.map_cons, List.nodup_cons] at hnd
      have h1 : lookup (pre ++ (b.var.id, v) :: e' ++ η) b'.var.id = some v := by
        rw [hids.1, List.append_assoc, lookup_append_of_not_mem (hpre _ (by simp [axIds]))]
        simp [lookup_cons]
      have h2 := lookupAll_bindParams bs bs' vs e' η he hids.2 hnd.2 (pre ++ [(b.var.id, v)]) (by
        intro i hi
        simp only [List.map_append, List.map_cons, List.map_nil, List.mem_append, List.mem_singleton, not_or]
        refine ⟨hpre i (by simp [axIds]; right; simpa [axIds] using hi), ?_⟩
        intro e; subst e; exact hnd.1 (by simpa [axIds] using hi))
      simp only [lookupAll, h1]
      have e2 : pre ++ (b.var.id, v) :: e' ++ η = pre ++ [(b.var.id, v)] ++ e' ++ η := by simp
      rw [e2, h2]
    · cases h

/-! ## step equations of the AxCut machine -/

theorem step_lit (q : AxCut.Prog) (v n next fv η out) :
    step q ⟨.lit v n next fv, η, out⟩ = .next ⟨next, (v.id, .int (BitVec.ofInt 64 n)) :: η, out⟩ := rfl

theorem step_create (q : AxCut.Prog) (v ty cls next fc fn η out) :
    step q ⟨.create v ty none cls next fc fn, η, out⟩ = .next ⟨next, (v.id, .clo η cls) :: η, out⟩ := rfl

theorem step_let (q : AxCut.Prog) {v ty tag args next fv η out vs} (h : lookupAll η args = some vs) :
    step q ⟨.letS v ty tag args next fv, η, out⟩ = .next ⟨next, (v.id, .obj tag vs) :: η, out⟩ := by
  simp [step, h]

theorem step_print (q : AxCut.Prog) {nl v next fv η out x} (h : lookup η v.id = some (.int x)) :
    step q ⟨.print nl v next fv, η, out⟩ = .next ⟨next, η, out ++ [(nl, x)]⟩ := by
  simp [step, h]

theorem step_exit (q : AxCut.Prog) {v η out x} (h : lookup η v.id = some (.int x)) :
    step q ⟨.exit v, η, out⟩ = .halt out (.done x) := by
  simp [step, h]

theorem step_ifz (q : AxCut.Prog) {s v t e η out x} (h : lookup η v.id = some (.int x)) :
    step q ⟨.ifc s v none t e, η, out⟩ = .next ⟨if AxCut.Named.evalCmp s x 0 then t else e, η, out⟩ := by
  simp [step, h]

theorem step_ifc (q : AxCut.Prog) {s v w t e η out x y} (h : lookup η v.id = some (.int x))
    (h2 : lookup η w.id = some (.int y)) :
    step q ⟨.ifc s v (some w) t e, η, out⟩ = .next ⟨if AxCut.Named.evalCmp s x y then t else e, η, out⟩ := by
  simp [step, h, h2]

theorem step_op_ok (q : AxCut.Prog) {v a o b next fv η out x y r} (h : lookup η a.id = some (.int x))
    (h2 : lookup η b.id = some (.int y)) (hr : AxCut.Named.evalOp o x y = .ok r) :
    step q ⟨.op v a o b next fv, η, out⟩ = .next ⟨next, (v.id, .int r) :: η, out⟩ := by
  simp [step, h, h2, hr]

theorem step_op_err (q : AxCut.Prog) {v a o b next fv η out x y w} (h : lookup η a.id = some (.int x))
    (h2 : lookup η b.id = some (.int y)) (hr : AxCut.Named.evalOp o x y = .error w) :
    step q ⟨.op v a o b next fv, η, out⟩ = .halt out (.stuck w) := by
  simp [step, h, h2, hr, AxCut.Named.stuck]

theorem step_invoke (q : AxCut.Prog) {v tag ty args η out cenv cls ctx body vs e}
    (h : lookup η v.id = some (.clo cenv cls)) (hc : AxCut.Named.findClause tag cls = some (ctx, body))
    (ha : lookupAll η args = some vs) (hb : bindParams ctx vs = some e) :
    step q ⟨.invoke v tag ty args, η, out⟩ = .next ⟨body, e ++ cenv, out⟩ := by
  simp [step, h, hc, ha, hb]

theorem step_switch (q : AxCut.Prog) {v ty cls fv η out tag fields ctx body e}
    (h : lookup η v.id = some (.obj tag fields)) (hc : AxCut.Named.findClause tag cls = some (ctx, body))
    (hb : bindParams ctx fields = some e) :
    step q ⟨.switch v ty cls fv, η, out⟩ = .next ⟨body, e ++ η, out⟩ := by
  simp [step, h, hc, hb]

theorem step_call (q : AxCut.Prog) {label args η out d vs e} (h : findDef q label = some d)
    (ha : lookupAll η args = some vs) (hb : bindParams d.ctx vs = some e) :
    step q ⟨.call label args, η, out⟩ = .next ⟨d.body, e, out⟩ := by
  simp [step, h, ha, hb]

/-! ## the environment relation -/

section env
variable {E : TEnv} {q : AxCut.Prog}

theorem Core_lookup_cons_self (x : Core.Ident) (v : Core.FVal) (ρ : Core.FEnv) :
    Core.Env.lookup ((x, v) :: ρ) x = .ok v := by simp [Core.Env.lookup]

theorem Core_lookup_cons_ne {x y : Core.Ident} (v : Core.FVal) (ρ : Core.FEnv) (h : y ≠ x) :
    Core.Env.lookup ((x, v) :: ρ) y = Core.Env.lookup ρ y := by
  have : ¬ x = y := fun e => h e.symm
  simp [Core.Env.lookup, this]

/-- a new binding on both sides -/
theorem EnvRel.cons {Γ h ρ η} {b0 : Core.Binding} {v v'} {i : Nat} (hr : EnvRel E q Γ h ρ η)
    (hv : VRel E q b0.chi b0.ty v v') (ha : Avoids Γ h i) :
    EnvRel E q (b0 :: Γ) (h.set b0.var i) ((b0.var, v) :: ρ) ((i, v') :: η) := by
  intro b hb
  rcases occFs_cons hb with rfl | ⟨hne, hb'⟩
  · exact ⟨v, v', Core_lookup_cons_self _ _ _, by rw [HMap.set_self, lookup_cons_self], hv⟩
  · obtain ⟨w, w', h1, h2, h3⟩ := hr b hb'
    have hvne := var_ne_of_id_ne hne
    refine ⟨w, w', by rw [Core_lookup_cons_ne _ _ hvne]; exact h1, ?_, h3⟩
    rw [HMap.set_ne _ _ hvne, lookup_cons_ne _ _ (ha b hb')]
    exact h2

/-- a new Core binding that is held by an existing AxCut variable -/
theorem EnvRel.alias {Γ h ρ η} {b0 : Core.Binding} {v v'} {i : Nat} (hr : EnvRel E q Γ h ρ η)
    (hv : VRel E q b0.chi b0.ty v v') (hl : lookup η i = some v') :
    EnvRel E q (b0 :: Γ) (h.set b0.var i) ((b0.var, v) :: ρ) η := by
  intro b hb
  rcases occFs_cons hb with rfl | ⟨hne, hb'⟩
  · exact ⟨v, v', Core_lookup_cons_self _ _ _, by rw [HMap.set_self]; exact hl, hv⟩
  · obtain ⟨w, w', h1, h2, h3⟩ := hr b hb'
    have hvne := var_ne_of_id_ne hne
    exact ⟨w, w', by rw [Core_lookup_cons_ne _ _ hvne]; exact h1, by rw [HMap.set_ne _ _ hvne]; exact h2, h3⟩

/-- an AxCut-only binding that no variable in scope uses -/
theorem EnvRel.skip {Γ h ρ η} {w : Value} {i : Nat} (hr : EnvRel E q Γ h ρ η) (ha : Avoids Γ h i) :
    EnvRel E q Γ h ρ ((i, w) :: η) := by
  intro b hb
  obtain ⟨v, v', h1, h2, h3⟩ := hr b hb
  exact ⟨v, v', h1, by rw [lookup_cons_ne _ _ (ha b hb)]; exact h2, h3⟩

theorem EnvRel.skipMany {Γ h ρ η} {e : AxCut.Named.Env} (hr : EnvRel E q Γ h ρ η)
    (ha : ∀ i ∈ e.map (·.1), Avoids Γ h i) : EnvRel E q Γ h ρ (e ++ η) := by
  induction e with
  | nil => exact hr
  | cons p e ih =>
    obtain ⟨i, w⟩ := p
    exact EnvRel.skip (ih (fun j hj => ha j (by simp [hj]))) (ha i (by simp))

theorem Avoids_cons {Γ h} {b0 : Core.Binding} {i j : Nat} (ha : Avoids Γ h j) (hij : i ≠ j) :
    Avoids (b0 :: Γ) (h.set b0.var i) j := by
  intro b hb
  rcases occFs_cons hb with rfl | ⟨hne, hb'⟩
  · rw [HMap.set_self]; exact hij
  · rw [HMap.set_ne _ _ (var_ne_of_id_ne hne)]; exact ha b hb'

theorem Avoids_setMany {Γ h} {j : Nat} (ha : Avoids Γ h j) : ∀ (bs : Core.Ctx) (is : List Nat),
    bs.length = is.length → j ∉ is → Avoids (bs ++ Γ) (h.setMany bs is) j
  | [], _, _, _ => by simpa [HMap.setMany] using ha
  | _ :: _, [], hl, _ => by simp at hl
  | b0 :: bs, i :: is, hl, hj => by
    simp only [List.mem_cons, not_or] at hj
    exact Avoids_cons (Avoids_setMany ha bs is (by simpa using hl) hj.2) (fun e => hj.1 e.symm)

theorem VRelL.length {ctx vs vs'} (h : VRelL E q ctx vs vs') : vs.length = ctx.length ∧ vs'.length = ctx.length := by
  induction ctx generalizing vs vs' with
  | nil => cases h; simp
  | cons b bs ih =>
    cases h with
    | cons hv hl => have := ih hl; simp [this.1, this.2]

/-- the relation on argument lists only depends on chiralities and types -/
theorem VRelL.congr : ∀ {a b : Core.Ctx} {vs vs'}, sigMatch a b = true → VRelL E q a vs vs' → VRelL E q b vs vs'
  | [], [], _, _, _, h => by cases h; exact .nil
  | [], _ :: _, _, _, hm, _ => by simp [sigMatch] at hm
  | _ :: _, [], _, _, hm, _ => by simp [sigMatch] at hm
  | x :: xs, y :: ys, _, _, hm, h => by
    simp only [sigMatch, Bool.and_eq_true, beq_iff_eq] at hm
    cases h with
    | cons hv hl =>
      refine .cons ?_ (VRelL.congr hm.2 hl)
      rw [← hm.1.1, ← hm.1.2]; exact hv

theorem sigMatch_symm : ∀ {a b : Core.Ctx}, sigMatch a b = true → sigMatch b a = true
  | [], [], _ => rfl
  | [], _ :: _, h => by simp [sigMatch] at h
  | _ :: _, [], h => by simp [sigMatch] at h
  | x :: xs, y :: ys, h => by
    simp only [sigMatch, Bool.and_eq_true, beq_iff_eq] at h ⊢
    exact ⟨⟨h.1.1.symm, h.1.2.symm⟩, sigMatch_symm h.2⟩

theorem sigMatch_length : ∀ {a b : Core.Ctx}, sigMatch a b = true → a.length = b.length
  | [], [], _ => rfl
  | [], _ :: _, h => by simp [sigMatch] at h
  | _ :: _, [], h => by simp [sigMatch] at h
  | x :: xs, y :: ys, h => by
    simp only [sigMatch, Bool.and_eq_true] at h
    simp [sigMatch_length h.2]

/-- values of an argument list on both sides -/
theorem EnvRel.argVals {Γ h ρ η} (hr : EnvRel E q Γ h ρ η) : ∀ (args : Core.Ctx) (args' : AxCut.Ctx),
    (∀ b ∈ args, occFs Γ b = true) → axIds args' = args.map (fun b => h b.var) →
    ∃ vs vs', Core.Env.lookupAll ρ args = .ok vs ∧ lookupAll η args' = some vs' ∧ VRelL E q args vs vs'
  | [], [], _, _ => ⟨[], [], rfl, rfl, .nil⟩
  | [], _ :: _, _, h => by simp [axIds] at h
  | _ :: _, [], _, h => by simp [axIds] at h
  | b :: bs, b' :: bs', hocc, hids => by
    simp only [axIds, List.map_cons, List.cons.injEq] at hids
    obtain ⟨v, v', h1, h2, h3⟩ := hr b (hocc b (by simp))
    obtain ⟨vs, vs', h4, h5, h6⟩ := EnvRel.argVals hr bs bs' (fun b hb => hocc b (by simp [hb])) hids.2
    refine ⟨v :: vs, v' :: vs', by simp [Core.Env.lookupAll, h1, h4], ?_, .cons h3 h6⟩
    simp [AxCut.Named.lookupAll, hids.1, h2, h5]

/-- a parameter list is bound on both sides (clause entry, `call`) -/
theorem EnvRel.bind {Γ h ρ η} (hr : EnvRel E q Γ h ρ η) : ∀ (ctx : Core.Ctx) (ctx' : AxCut.Ctx) (vs vs'),
    VRelL E q ctx vs vs' → ctx'.length = ctx.length → (axIds ctx').Nodup →
    (∀ i ∈ axIds ctx', Avoids Γ h i) →
    ∃ ρ' e, Core.Env.bind ρ ctx vs = .ok ρ' ∧ bindParams ctx' vs' = some e ∧
      EnvRel E q (ctx ++ Γ) (h.setMany ctx (axIds ctx')) ρ' (e ++ η)
  | [], [], _, _, hl, _, _, _ => by cases hl; exact ⟨ρ, [], rfl, rfl, by simpa [HMap.setMany] using hr⟩
  | [], _ :: _, _, _, _, h, _, _ => by simp at h
  | _ :: _, [], _, _, _, h, _, _ => by simp at h
  | b :: bs, b' :: bs', _, _, hl, hlen, hnd, hav => by
    cases hl with
    | @cons _ _ v vs v' vs' hv hl =>
      simp only [axIds, List.map_cons, List.nodup_cons] at hnd
      obtain ⟨ρ', e, h1, h2, h3⟩ := EnvRel.bind hr bs bs' _ _ hl (by simpa using hlen) hnd.2
        (fun i hi => hav i (by simp [axIds] at hi ⊢; exact .inr hi))
      refine ⟨(b.var, v) :: ρ', (b'.var.id, v') :: e, by simp [Core.Env.bind, h1], by simp [bindParams, h2], ?_⟩
      have hav' : Avoids (bs ++ Γ) (h.setMany bs (axIds bs')) b'.var.id :=
        Avoids_setMany (hav _ (by simp [axIds])) bs (axIds bs') (by simp [axIds]; simpa using hlen.symm) hnd.1
      exact EnvRel.cons h3 hv hav'

/-- a parameter list is bound on the Core side to values held by existing AxCut variables (known cuts) -/
theorem EnvRel.aliasMany {Γ h ρ η} (hr : EnvRel E q Γ h ρ η) : ∀ (ctx : Core.Ctx) (args' : AxCut.Ctx) (vs vs'),
    VRelL E q ctx vs vs' → lookupAll η args' = some vs' →
    ∃ ρ', Core.Env.bind ρ ctx vs = .ok ρ' ∧ EnvRel E q (ctx ++ Γ) (h.setMany ctx (axIds args')) ρ' η
  | [], _, _, _, hl, _ => by cases hl; exact ⟨ρ, rfl, by simpa [HMap.setMany] using hr⟩
  | b :: bs, [], _, _, hl, hla => by
    cases hl with
    | cons hv hl => simp [AxCut.Named.lookupAll] at hla
  | b :: bs, b' :: bs', _, _, hl, hla => by
    cases hl with
    | @cons _ _ v vs v' vs' hv hl =>
      simp only [AxCut.Named.lookupAll] at hla
      split at hla
      · rename_i w ws hw hws
        simp only [Option.some.injEq, List.cons.injEq] at hla
        obtain ⟨rfl, rfl⟩ := hla
        obtain ⟨ρ', h1, h2⟩ := EnvRel.aliasMany hr bs bs' _ _ hl hws
        exact ⟨(b.var, v) :: ρ', by simp [Core.Env.bind, h1], EnvRel.alias h2 hv hw⟩
      · cases hla

end env

end Scc.Core2AxCut.Sem
