/-
  Scc.Core2AxCut.SizeProofs — the size invariant of shrinking (C19-T3): the AxCut statement
  produced for a focused Core statement `s`, together with all definitions lifted on the way, has at
  most `(d + 1) * size s` nodes, where `d` is the largest number of xtors of a declared type.
  The proof uses the exact sharing condition of `shrink_critical_pairs` (`inlineExpand`): the
  expanded side is copied into every clause only if there is at most one clause or its image is a
  single node (`exit`, `call`, `invoke`).
-/
import Scc.Core2AxCut.Proofs

namespace Scc.Core2AxCut

open Scc

/-! ## auxiliary facts -/

mutual
  theorem axSizeStmt_subst (σ) : ∀ s, axSizeStmt (axSubstStmt σ s) = axSizeStmt s
    | .subst _ n => by simp [axSubstStmt, axSizeStmt, axSizeStmt_subst σ n]
    | .call _ _ => by simp [axSubstStmt, axSizeStmt]
    | .letS _ _ _ _ n _ => by simp [axSubstStmt, axSizeStmt, axSizeStmt_subst σ n]
    | .switch _ _ cs _ => by simp [axSubstStmt, axSizeStmt, axSizeClauses_subst σ cs]
    | .create _ _ _ cs n _ _ => by
      simp [axSubstStmt, axSizeStmt, axSizeClauses_subst σ cs, axSizeStmt_subst σ n]
    | .invoke _ _ _ _ => by simp [axSubstStmt, axSizeStmt]
    | .lit _ _ n _ => by simp [axSubstStmt, axSizeStmt, axSizeStmt_subst σ n]
    | .op _ _ _ _ n _ => by simp [axSubstStmt, axSizeStmt, axSizeStmt_subst σ n]
    | .print _ _ n _ => by simp [axSubstStmt, axSizeStmt, axSizeStmt_subst σ n]
    | .ifc _ _ _ t e => by simp [axSubstStmt, axSizeStmt, axSizeStmt_subst σ t, axSizeStmt_subst σ e]
    | .exit _ => by simp [axSubstStmt, axSizeStmt]
  theorem axSizeClauses_subst (σ) : ∀ cs, axSizeClauses (axSubstClauses σ cs) = axSizeClauses cs
    | .nil => by simp [axSubstClauses, axSizeClauses]
    | .cons _ _ b r => by
      simp [axSubstClauses, axSizeClauses, axSizeStmt_subst σ b, axSizeClauses_subst σ r]
end

theorem defsSize_append : ∀ a b, defsSize (a ++ b) = defsSize a + defsSize b
  | [], b => by simp [defsSize]
  | d :: a, b => by simp [defsSize, defsSize_append a b]; omega

/-- the bound on the number of clauses of an eta-expansion -/
def xtorBound (env : Env) : Nat := max (maxXtors env.data) (maxXtors env.codata)

theorem lookup_len {name : Core.Ident} : ∀ {types : List Core.TypeDecl} {d},
    lookupTypeDeclaration name types = .ok d → d.xtors.length ≤ maxXtors types
  | [], d, h => by simp [lookupTypeDeclaration] at h
  | t :: ts, d, h => by
    by_cases ht : (t.name == name) = true
    · simp [lookupTypeDeclaration, ht] at h
      subst h; simp [maxXtors]; omega
    · have : lookupTypeDeclaration name ts = .ok d := by
        simpa [lookupTypeDeclaration, List.find?_cons, ht] using h
      have := lookup_len this
      simp [maxXtors]; omega

theorem lookup_len_env {env : Env} {name b d}
    (h : lookupTypeDeclaration name (if b = true then env.codata else env.data) = .ok d) :
    d.xtors.length ≤ xtorBound env := by
  have := lookup_len h
  unfold xtorBound
  split at this <;> omega

theorem freshenCtx_lifted : ∀ c st, (freshenCtx c st).2.lifted = st.lifted
  | [], st => by simp [freshenCtx]
  | b :: bs, st => by
    simp only [freshenCtx, freshIdentifier]
    have := freshenCtx_lifted bs { st with maxId := st.maxId + 1 }
    revert this
    generalize freshenCtx bs { st with maxId := st.maxId + 1 } = r
    obtain ⟨rest, st2⟩ := r
    simp

theorem unknownClauses_spec (env : Env) (v ty) : ∀ xs st,
    (unknownClauses env v ty xs st).2.lifted = st.lifted ∧
    axSizeClauses (unknownClauses env v ty xs st).1 = 2 * xs.length
  | [], st => by simp [unknownClauses, axSizeClauses]
  | x :: xs, st => by
    simp only [unknownClauses]
    have h1 := freshenCtx_lifted (shrinkContext env.codata x.args) st
    revert h1
    generalize freshenCtx (shrinkContext env.codata x.args) st = r1
    obtain ⟨envC, st1⟩ := r1
    intro h1
    have h2 := unknownClauses_spec env v ty xs st1
    revert h2
    generalize unknownClauses env v ty xs st1 = r2
    obtain ⟨rest, st2⟩ := r2
    intro h2
    simp only [axSizeClauses, axSizeStmt, List.length_cons] at *
    constructor
    · rw [h2.1, h1]
    · omega

theorem criticalClauses_spec (env : Env) (v ty e) : ∀ xs st,
    (criticalClauses env v ty e xs st).2.lifted = st.lifted ∧
    axSizeClauses (criticalClauses env v ty e xs st).1 = xs.length * (axSizeStmt e + 2)
  | [], st => by simp [criticalClauses, axSizeClauses]
  | x :: xs, st => by
    simp only [criticalClauses, freshIdentifier]
    have h1 := freshenCtx_lifted (shrinkContext env.codata x.args) st
    revert h1
    generalize freshenCtx (shrinkContext env.codata x.args) st = r1
    obtain ⟨envC, st1⟩ := r1
    intro h1
    have h2 := criticalClauses_spec env v ty e xs { st1 with maxId := st1.maxId + 1 }
    revert h2
    generalize criticalClauses env v ty e xs { st1 with maxId := st1.maxId + 1 } = r2
    obtain ⟨rest, st2⟩ := r2
    intro h2
    simp only [axSizeClauses, axSizeStmt, axSizeStmt_subst, List.length_cons] at *
    constructor
    · rw [h2.1, h1]
    · rw [h2.2, Nat.add_mul]; omega

theorem liftFresh_lifted : ∀ bs st, (liftFresh bs st).2.lifted = st.lifted
  | [], st => by simp [liftFresh]
  | b :: bs, st => by
    simp only [liftFresh, freshIdentifier]
    have := liftFresh_lifted bs { st with maxId := st.maxId + 1 }
    revert this
    generalize liftFresh bs { st with maxId := st.maxId + 1 } = r
    obtain ⟨⟨c, s⟩, st2⟩ := r
    simp


/-! ## the invariant -/

/-- what the recursive call guarantees: it only prepends lifted definitions, the result plus the
    new definitions is at most `K * size`, and leaf statements become a single node -/
def RecPost (K n : Nat) (rec : Rec) : Prop :=
  ∀ s st r st', sizeStmt s ≤ n → rec s st = .ok (r, st') →
    ∃ new, st'.lifted = new ++ st.lifted ∧
      axSizeStmt r + defsSize new ≤ K * sizeStmt s ∧
      (isLeafStmt s = true → axSizeStmt r = 1 ∧ new = [])

theorem shrinkClauses_post {env : Env} {K n : Nat} {rec : Rec} (hK : 1 ≤ K) (hrec : RecPost K n rec) :
    ∀ cs st r st', sizeClauses cs ≤ n → shrinkClauses env rec cs st = .ok (r, st') →
      ∃ new, st'.lifted = new ++ st.lifted ∧ axSizeClauses r + defsSize new ≤ K * sizeClauses cs
  | .nil, st, r, st', _, h => by
    simp [shrinkClauses] at h
    obtain ⟨rfl, rfl⟩ := h
    exact ⟨[], by simp, by simp [axSizeClauses, defsSize]⟩
  | .cons x ctx body rest, st, r, st', hs, h => by
    simp only [sizeClauses] at hs
    simp only [shrinkClauses] at h
    split at h
    · cases h
    · rename_i b' st1 hb
      split at h
      · cases h
      · rename_i r' st2 hr
        simp at h
        obtain ⟨rfl, rfl⟩ := h
        obtain ⟨n1, hl1, hz1, _⟩ := hrec body st b' st1 (by omega) hb
        obtain ⟨n2, hl2, hz2⟩ := shrinkClauses_post hK hrec rest st1 r' st2 (by omega) hr
        refine ⟨n2 ++ n1, by rw [hl2, hl1]; simp, ?_⟩
        simp only [axSizeClauses, sizeClauses, defsSize_append, Nat.mul_add]
        omega

theorem lift_post {env : Env} {K n : Nat} {rec : Rec} (hrec : RecPost K n rec) (s st r st')
    (hs : sizeStmt s ≤ n) (h : lift env rec s st = .ok (r, st')) :
    ∃ new, st'.lifted = new ++ st.lifted ∧ axSizeStmt r = 1 ∧ defsSize new ≤ K * sizeStmt s + 1 := by
  obtain ⟨label, st2, st3, body, _, _, _, _, _, hl2, _, hb, rfl, rfl⟩ := lift_label h
  obtain ⟨n1, hl1, hz1, _⟩ := hrec _ _ body st3 (by rw [sizeStmt_subst]; exact hs) hb
  rw [hl2] at hl1
  refine ⟨⟨shrinkIdentifier label, shrinkContext env.codata (liftFresh (tfvStmt s []) st).1.1, body⟩ :: n1,
    by simp only [hl1, List.cons_append], by simp [axSizeStmt], ?_⟩
  simp only [defsSize]
  rw [sizeStmt_subst] at hz1
  omega


theorem isLeaf_size {s} (h : isLeafStmt s = true) : sizeStmt s ≤ 3 := by
  unfold isLeafStmt at h
  split at h <;> simp_all [sizeStmt, sizeTerm]

theorem shrinkUnknownCuts_post {env : Env} {K : Nat} (hK : xtorBound env + 1 ≤ K) (v1 v2 ty st r st')
    (h : shrinkUnknownCuts env v1 v2 ty st = .ok (r, st')) :
    st'.lifted = st.lifted ∧ axSizeStmt r ≤ K * 3 := by
  cases ty with
  | i64 =>
    simp [shrinkUnknownCuts] at h
    obtain ⟨rfl, rfl⟩ := h
    simp [axSizeStmt]; omega
  | decl name =>
    simp only [shrinkUnknownCuts] at h
    split at h
    · cases h
    · rename_i d hd
      have hlen := lookup_len_env hd
      simp at h
      obtain ⟨rfl, rfl⟩ := h
      have := unknownClauses_spec env (if isCodata env.codata (.decl name) = true then v1 else v2)
        (shrinkTy (.decl name)) d.xtors st
      refine ⟨this.1, ?_⟩
      simp only [axSizeStmt, this.2]
      omega

theorem criticalDecl_post {env : Env} {K n : Nat} {rec : Rec} (hK : xtorBound env + 1 ≤ K)
    (hrec : RecPost K n rec) (d : Core.TypeDecl) (hlen : d.xtors.length ≤ xtorBound env)
    (name tt vK sK vE sE st r st') (hsK : sizeStmt sK ≤ n) (hsE : sizeStmt sE ≤ n)
    (h : criticalDecl env rec d name tt vK sK vE sE st = .ok (r, st')) :
    ∃ new, st'.lifted = new ++ st.lifted ∧
      axSizeStmt r + defsSize new ≤ K * (sizeStmt sK + sizeStmt sE + 3) := by
  simp only [criticalDecl] at h
  split at h
  · cases h
  · rename_i e st1 he
    split at h
    · cases h
    · rename_i k st3 hk
      simp at h
      obtain ⟨rfl, rfl⟩ := h
      obtain ⟨hcl1, hcl2⟩ := criticalClauses_spec env vE tt e d.xtors st1
      obtain ⟨nk, hlk, hzk, _⟩ := hrec sK _ k st3 hsK hk
      rw [hcl1] at hlk
      have hposE := sizeStmt_pos sE
      simp only [axSizeStmt, hcl2, Nat.mul_add]
      -- the expanded side: in place or lifted
      by_cases hin : inlineExpand d.xtors.length sE = true
      · simp only [hin, if_true] at he
        obtain ⟨ne, hle, hze, hleaf⟩ := hrec sE st e st1 hsE he
        refine ⟨nk ++ ne, by rw [hlk, hle]; simp, ?_⟩
        simp only [defsSize_append]
        simp only [inlineExpand, Bool.or_eq_true, decide_eq_true_eq] at hin
        rcases hin with hle1 | hlf
        · -- at most one clause
          have : d.xtors.length = 0 ∨ d.xtors.length = 1 := by omega
          rcases this with h0 | h1
          · rw [h0]; omega
          · rw [h1]; omega
        · -- a leaf: its image is a single node and nothing was lifted
          obtain ⟨he1, hne⟩ := hleaf hlf
          subst hne
          rw [he1]
          simp only [defsSize]
          omega
      · simp only [hin] at he
        obtain ⟨ne, hle, he1, hze⟩ := lift_post hrec sE st e st1 hsE he
        refine ⟨nk ++ ne, by rw [hlk, hle]; simp, ?_⟩
        simp only [defsSize_append]
        rw [he1]
        omega

theorem shrinkCriticalPairs_post {env : Env} {K n : Nat} {rec : Rec} (hK : xtorBound env + 1 ≤ K)
    (hrec : RecPost K n rec) (v1 s1 v2 s2 ty st r st') (hs1 : sizeStmt s1 ≤ n) (hs2 : sizeStmt s2 ≤ n)
    (h : shrinkCriticalPairs env rec v1 s1 v2 s2 ty st = .ok (r, st')) :
    ∃ new, st'.lifted = new ++ st.lifted ∧
      axSizeStmt r + defsSize new ≤ K * (sizeStmt s1 + sizeStmt s2 + 3) := by
  cases ty with
  | i64 =>
    simp only [shrinkCriticalPairs] at h
    split at h
    · cases h
    · rename_i b st1 hb
      split at h
      · cases h
      · rename_i c st2 hc
        simp at h
        obtain ⟨rfl, rfl⟩ := h
        obtain ⟨n1, hl1, hz1, _⟩ := hrec s2 st b st1 hs2 hb
        obtain ⟨n2, hl2, hz2, _⟩ := hrec s1 st1 c st2 hs1 hc
        refine ⟨n2 ++ n1, by rw [hl2, hl1]; simp, ?_⟩
        simp only [axSizeStmt, axSizeClauses, defsSize_append, Nat.mul_add]
        omega
  | decl name =>
    simp only [shrinkCriticalPairs] at h
    split at h
    · cases h
    · rename_i d hd
      have hlen := lookup_len_env hd
      split at h
      · have := criticalDecl_post hK hrec d hlen _ _ _ _ _ _ _ _ _ hs2 hs1 h
        rw [Nat.add_comm (sizeStmt s2)] at this
        exact this
      · exact criticalDecl_post hK hrec d hlen _ _ _ _ _ _ _ _ _ hs1 hs2 h


theorem shrinkKnownCuts_post {K n : Nat} {rec : Rec} (hrec : RecPost K n rec)
    (name args cs st r st') (hs : sizeClauses cs ≤ n + 1)
    (h : shrinkKnownCuts rec name args cs st = .ok (r, st')) :
    ∃ new, st'.lifted = new ++ st.lifted ∧ axSizeStmt r + defsSize new ≤ K * sizeClauses cs := by
  simp only [shrinkKnownCuts] at h
  split at h
  · cases h
  · rename_i ctx body hf
    have hsz := findClause_size cs hf
    obtain ⟨nw, hl, hz, _⟩ := hrec _ st r st' (by rw [sizeStmt_subst]; omega) h
    rw [sizeStmt_subst] at hz
    refine ⟨nw, hl, ?_⟩
    have : K * sizeStmt body ≤ K * sizeClauses cs := Nat.mul_le_mul_left K (by omega)
    omega

/-- result of a step that calls `rec` once on `s` and puts one node on top -/
theorem wrap_post {K n : Nat} {rec : Rec} (hK : 1 ≤ K) (hrec : RecPost K n rec) {s st next st1}
    (hs : sizeStmt s ≤ n) (h : rec s st = .ok (next, st1)) (extra : Nat) (hextra : 1 ≤ extra) :
    ∃ new, st1.lifted = new ++ st.lifted ∧ (axSizeStmt next + 1) + defsSize new ≤ K * (sizeStmt s + extra) := by
  obtain ⟨nw, hl, hz, _⟩ := hrec s st next st1 hs h
  refine ⟨nw, hl, ?_⟩
  rw [Nat.mul_add]
  have : K * 1 ≤ K * extra := Nat.mul_le_mul_left K hextra
  omega

theorem shrinkCut_post {env : Env} {K n : Nat} {rec : Rec} (hK : xtorBound env + 1 ≤ K)
    (hrec : RecPost K n rec) (ty p c st r st') (hs : sizeStmt (.cut ty p c) ≤ n + 1)
    (h : shrinkCut env rec ty p c st = .ok (r, st')) :
    ∃ new, st'.lifted = new ++ st.lifted ∧
      axSizeStmt r + defsSize new ≤ K * sizeStmt (.cut ty p c) ∧
      (isLeafStmt (.cut ty p c) = true → axSizeStmt r = 1 ∧ new = []) := by
  have hK1 : 1 ≤ K := by omega
  simp only [sizeStmt] at hs ⊢
  -- one call of `rec` on the body of a mu, one node on top
  have wrap1 : ∀ {s : Core.FsStmt} {st0 : St} {f : AxCut.Stmt → AxCut.Stmt} (other : Nat),
      (∀ x, axSizeStmt (f x) = axSizeStmt x + 1) → sizeStmt s + 1 + other + 1 ≤ n + 1 → 1 ≤ other →
      (match rec s st0 with
        | .error e => .error e
        | .ok (next, st1) => .ok (f next, st1)) = (.ok (r, st') : Except String (AxCut.Stmt × St)) →
      ∃ new, st'.lifted = new ++ st0.lifted ∧ axSizeStmt r + defsSize new ≤ K * (sizeStmt s + 1 + other + 1) := by
    intro s st0 f other hf hsz hother h
    split at h
    · cases h
    · rename_i next st1 hn
      simp at h
      obtain ⟨rfl, rfl⟩ := h
      obtain ⟨nw, hl, hz⟩ := wrap_post hK1 hrec (by omega) hn (1 + other + 1) (by omega)
      refine ⟨nw, hl, ?_⟩
      rw [hf]
      have : sizeStmt s + (1 + other + 1) = sizeStmt s + 1 + other + 1 := by omega
      rw [this] at hz
      exact hz
  cases p with
  | var pc v t =>
    cases c with
    | var _ _ _ =>
      simp only [shrinkCut] at h
      obtain ⟨hl, hz⟩ := shrinkUnknownCuts_post hK _ _ _ _ _ _ h
      exact ⟨[], by simp [hl], by simp [sizeTerm, defsSize]; omega, by simp [isLeafStmt]⟩
    | lit k => simp [shrinkCut] at h
    | op a o b => simp [shrinkCut] at h
    | mu pc2 v2 t2 s =>
      simp only [shrinkCut, shrinkRenaming] at h
      simp only [sizeTerm] at hs ⊢
      obtain ⟨nw, hl, hz, _⟩ := hrec _ st r st' (by rw [sizeStmt_subst]; omega) h
      rw [sizeStmt_subst] at hz
      refine ⟨nw, hl, ?_, by simp [isLeafStmt]⟩
      simp only [Nat.mul_add]; omega
    | xtor _ _ _ _ =>
      simp [shrinkCut] at h
      obtain ⟨rfl, rfl⟩ := h
      exact ⟨[], by simp, by simp [axSizeStmt, defsSize, sizeTerm]; omega, fun _ => ⟨by simp [axSizeStmt], rfl⟩⟩
    | xcase pc2 t2 cs =>
      simp only [shrinkCut] at h
      simp only [sizeTerm] at hs ⊢
      split at h
      · cases h
      · rename_i cl st1 hcl
        simp at h
        obtain ⟨rfl, rfl⟩ := h
        obtain ⟨nw, hl, hz⟩ := shrinkClauses_post hK1 hrec cs st cl st1 (by omega) hcl
        refine ⟨nw, hl, ?_, by simp [isLeafStmt]⟩
        simp only [axSizeStmt, Nat.mul_add]; omega
  | lit k =>
    cases c with
    | var _ _ _ =>
      simp [shrinkCut, freshIdentifier] at h
      obtain ⟨rfl, rfl⟩ := h
      exact ⟨[], by simp, by simp [axSizeStmt, defsSize, sizeTerm, invokeRet]; omega, by simp [isLeafStmt]⟩
    | lit k => simp [shrinkCut] at h
    | op a o b => simp [shrinkCut] at h
    | mu pc2 v2 t2 s =>
      simp only [shrinkCut] at h
      simp only [sizeTerm] at hs ⊢
      have := wrap1 (s := s) (st0 := st) (f := fun x => .lit (shrinkIdentifier v2) k x none) 1
        (by intro x; simp [axSizeStmt]) (by omega) (by omega) h
      obtain ⟨nw, hl, hz⟩ := this
      exact ⟨nw, hl, by have : 1 + (sizeStmt s + 1) + 1 = sizeStmt s + 1 + 1 + 1 := by omega
                        rw [this]; exact hz, by simp [isLeafStmt]⟩
    | xtor _ _ _ _ => simp [shrinkCut] at h
    | xcase _ _ _ => simp [shrinkCut] at h
  | op a o b =>
    cases c with
    | var _ _ _ =>
      simp [shrinkCut, freshIdentifier] at h
      obtain ⟨rfl, rfl⟩ := h
      exact ⟨[], by simp, by simp [axSizeStmt, defsSize, sizeTerm, invokeRet]; omega, by simp [isLeafStmt]⟩
    | lit k => simp [shrinkCut] at h
    | op a o b => simp [shrinkCut] at h
    | mu pc2 v2 t2 s =>
      simp only [shrinkCut] at h
      simp only [sizeTerm] at hs ⊢
      have := wrap1 (s := s) (st0 := st)
        (f := fun x => .op (shrinkIdentifier v2) (shrinkIdentifier a) (shrinkBinop o) (shrinkIdentifier b) x none) 1
        (by intro x; simp [axSizeStmt]) (by omega) (by omega) h
      obtain ⟨nw, hl, hz⟩ := this
      exact ⟨nw, hl, by have : 1 + (sizeStmt s + 1) + 1 = sizeStmt s + 1 + 1 + 1 := by omega
                        rw [this]; exact hz, by simp [isLeafStmt]⟩
    | xtor _ _ _ _ => simp [shrinkCut] at h
    | xcase _ _ _ => simp [shrinkCut] at h
  | mu pc v t s =>
    simp only [sizeTerm] at hs ⊢
    cases c with
    | var _ _ _ =>
      simp only [shrinkCut, shrinkRenaming] at h
      simp only [sizeTerm] at hs ⊢
      obtain ⟨nw, hl, hz, _⟩ := hrec _ st r st' (by rw [sizeStmt_subst]; omega) h
      rw [sizeStmt_subst] at hz
      refine ⟨nw, hl, ?_, by simp [isLeafStmt]⟩
      simp only [Nat.mul_add]; omega
    | lit k => simp [shrinkCut] at h
    | op a o b => simp [shrinkCut] at h
    | mu pc2 v2 t2 s2 =>
      simp only [shrinkCut] at h
      simp only [sizeTerm] at hs ⊢
      obtain ⟨nw, hl, hz⟩ := shrinkCriticalPairs_post hK hrec _ _ _ _ _ _ _ _ (by omega) (by omega) h
      refine ⟨nw, hl, ?_, by simp [isLeafStmt]⟩
      have : sizeStmt s + 1 + (sizeStmt s2 + 1) + 1 = sizeStmt s + sizeStmt s2 + 3 := by omega
      rw [this]; exact hz
    | xtor pc2 name args t2 =>
      simp only [shrinkCut] at h
      simp only [sizeTerm] at hs ⊢
      have := wrap1 (s := s) (st0 := st)
        (f := fun x => .letS (shrinkIdentifier v) (shrinkTy ty) (shrinkIdentifier name)
          (shrinkContext env.codata args) x none) 1
        (by intro x; simp [axSizeStmt]) (by omega) (by omega) h
      obtain ⟨nw, hl, hz⟩ := this
      exact ⟨nw, hl, hz, by simp [isLeafStmt]⟩
    | xcase pc2 t2 cs =>
      simp only [shrinkCut] at h
      simp only [sizeTerm] at hs ⊢
      split at h
      · cases h
      · rename_i cl st1 hcl
        split at h
        · cases h
        · rename_i nx st2 hnx
          simp at h
          obtain ⟨rfl, rfl⟩ := h
          obtain ⟨n1, hl1, hz1⟩ := shrinkClauses_post hK1 hrec cs st cl st1 (by omega) hcl
          obtain ⟨n2, hl2, hz2, _⟩ := hrec s st1 nx st2 (by omega) hnx
          refine ⟨n2 ++ n1, by rw [hl2, hl1]; simp, ?_, by simp [isLeafStmt]⟩
          simp only [axSizeStmt, defsSize_append, Nat.mul_add]; omega
  | xtor pc name args t =>
    cases c with
    | var _ _ _ =>
      simp [shrinkCut] at h
      obtain ⟨rfl, rfl⟩ := h
      exact ⟨[], by simp, by simp [axSizeStmt, defsSize, sizeTerm]; omega, fun _ => ⟨by simp [axSizeStmt], rfl⟩⟩
    | lit k => simp [shrinkCut] at h
    | op a o b => simp [shrinkCut] at h
    | mu pc2 v2 t2 s =>
      simp only [shrinkCut] at h
      simp only [sizeTerm] at hs ⊢
      have := wrap1 (s := s) (st0 := st)
        (f := fun x => .letS (shrinkIdentifier v2) (shrinkTy ty) (shrinkIdentifier name)
          (shrinkContext env.codata args) x none) 1
        (by intro x; simp [axSizeStmt]) (by omega) (by omega) h
      obtain ⟨nw, hl, hz⟩ := this
      exact ⟨nw, hl, by have : 1 + (sizeStmt s + 1) + 1 = sizeStmt s + 1 + 1 + 1 := by omega
                        rw [this]; exact hz, by simp [isLeafStmt]⟩
    | xtor _ _ _ _ => simp [shrinkCut] at h
    | xcase pc2 t2 cs =>
      simp only [shrinkCut] at h
      simp only [sizeTerm] at hs ⊢
      obtain ⟨nw, hl, hz⟩ := shrinkKnownCuts_post hrec _ _ cs st r st' (by omega) h
      refine ⟨nw, hl, ?_, by simp [isLeafStmt]⟩
      simp only [Nat.mul_add]; omega
  | xcase pc t cs =>
    simp only [sizeTerm] at hs ⊢
    cases c with
    | var _ _ _ =>
      simp only [shrinkCut] at h
      simp only [sizeTerm] at hs ⊢
      split at h
      · cases h
      · rename_i cl st1 hcl
        simp at h
        obtain ⟨rfl, rfl⟩ := h
        obtain ⟨nw, hl, hz⟩ := shrinkClauses_post hK1 hrec cs st cl st1 (by omega) hcl
        refine ⟨nw, hl, ?_, by simp [isLeafStmt]⟩
        simp only [axSizeStmt, Nat.mul_add]; omega
    | lit k => simp [shrinkCut] at h
    | op a o b => simp [shrinkCut] at h
    | mu pc2 v2 t2 s =>
      simp only [shrinkCut] at h
      simp only [sizeTerm] at hs ⊢
      split at h
      · cases h
      · rename_i cl st1 hcl
        split at h
        · cases h
        · rename_i nx st2 hnx
          simp at h
          obtain ⟨rfl, rfl⟩ := h
          obtain ⟨n1, hl1, hz1⟩ := shrinkClauses_post hK1 hrec cs st cl st1 (by omega) hcl
          obtain ⟨n2, hl2, hz2, _⟩ := hrec s st1 nx st2 (by omega) hnx
          refine ⟨n2 ++ n1, by rw [hl2, hl1]; simp, ?_, by simp [isLeafStmt]⟩
          simp only [axSizeStmt, defsSize_append, Nat.mul_add]; omega
    | xtor pc2 name args t2 =>
      simp only [shrinkCut] at h
      simp only [sizeTerm] at hs ⊢
      obtain ⟨nw, hl, hz⟩ := shrinkKnownCuts_post hrec _ _ cs st r st' (by omega) h
      refine ⟨nw, hl, ?_, by simp [isLeafStmt]⟩
      simp only [Nat.mul_add]; omega
    | xcase _ _ _ => simp [shrinkCut] at h


theorem shrinkStmtStep_post {env : Env} {K n : Nat} {rec : Rec} (hK : xtorBound env + 1 ≤ K)
    (hrec : RecPost K n rec) (s st r st') (hs : sizeStmt s ≤ n + 1)
    (h : shrinkStmtStep env rec s st = .ok (r, st')) :
    ∃ new, st'.lifted = new ++ st.lifted ∧
      axSizeStmt r + defsSize new ≤ K * sizeStmt s ∧
      (isLeafStmt s = true → axSizeStmt r = 1 ∧ new = []) := by
  have hK1 : 1 ≤ K := by omega
  cases s with
  | cut ty p c => exact shrinkCut_post hK hrec ty p c st r st' hs h
  | ifc sort a b t e =>
    simp only [shrinkStmtStep] at h
    simp only [sizeStmt] at hs ⊢
    split at h
    · cases h
    · rename_i t' st1 ht
      split at h
      · cases h
      · rename_i e' st2 he
        simp at h
        obtain ⟨rfl, rfl⟩ := h
        obtain ⟨n1, hl1, hz1, _⟩ := hrec t st t' st1 (by omega) ht
        obtain ⟨n2, hl2, hz2, _⟩ := hrec e st1 e' st2 (by omega) he
        refine ⟨n2 ++ n1, by rw [hl2, hl1]; simp, ?_, by simp [isLeafStmt]⟩
        simp only [axSizeStmt, defsSize_append, Nat.mul_add]; omega
  | print nl a nx =>
    simp only [shrinkStmtStep] at h
    simp only [sizeStmt] at hs ⊢
    split at h
    · cases h
    · rename_i n' st1 hn
      simp at h
      obtain ⟨rfl, rfl⟩ := h
      obtain ⟨n1, hl1, hz1, _⟩ := hrec nx st n' st1 (by omega) hn
      refine ⟨n1, hl1, ?_, by simp [isLeafStmt]⟩
      simp only [axSizeStmt, Nat.mul_add]; omega
  | call f args =>
    simp [shrinkStmtStep] at h
    obtain ⟨rfl, rfl⟩ := h
    exact ⟨[], by simp, by simp [axSizeStmt, defsSize, sizeStmt]; omega, fun _ => ⟨by simp [axSizeStmt], rfl⟩⟩
  | exit a =>
    simp [shrinkStmtStep] at h
    obtain ⟨rfl, rfl⟩ := h
    exact ⟨[], by simp, by simp [axSizeStmt, defsSize, sizeStmt]; omega, fun _ => ⟨by simp [axSizeStmt], rfl⟩⟩

theorem shrinkStmt_post {env : Env} {K : Nat} (hK : xtorBound env + 1 ≤ K) :
    ∀ fuel, RecPost K fuel (shrinkStmt env fuel)
  | 0 => by
    intro s st r st' _ h
    simp [shrinkStmt] at h
  | fuel + 1 => by
    intro s st r st' hs h
    exact shrinkStmtStep_post hK (shrinkStmt_post hK fuel) s st r st' hs h

/-- C19-T3 for one definition: the image of the definition plus everything lifted out of it -/
theorem shrinkDef_size (d : Core.FsDef) (data codata : List Core.TypeDecl) (used : List Core.Ident)
    (maxId : Nat) (defs u m) (h : shrinkDef d data codata used maxId = .ok (defs, u, m)) :
    defsSize defs ≤ (max (maxXtors data) (maxXtors codata) + 1) * (sizeStmt d.body + 1) := by
  simp only [shrinkDef] at h
  split at h
  · cases h
  · rename_i body st hb
    simp at h
    obtain ⟨rfl, rfl, rfl⟩ := h
    have hK : xtorBound ⟨data, codata, d.name.name⟩ + 1 ≤ max (maxXtors data) (maxXtors codata) + 1 := by
      simp [xtorBound]
    obtain ⟨nw, hl, hz, _⟩ := shrinkStmt_post hK (sizeStmt d.body + 1) d.body ⟨maxId, used, []⟩ body st
      (by omega) hb
    simp only [List.append_nil] at hl
    simp only [defsSize, hl, Nat.mul_add]
    omega

theorem shrinkDefs_size (data codata : List Core.TypeDecl) :
    ∀ (ds : List Core.FsDef) (used : List Core.Ident) (maxId : Nat) (defs u m),
    shrinkDefs data codata ds used maxId = .ok (defs, u, m) →
    defsSize defs ≤ (max (maxXtors data) (maxXtors codata) + 1) * fsDefsSize ds
  | [], _, _, defs, u, m, h => by
    simp [shrinkDefs] at h
    obtain ⟨rfl, rfl, rfl⟩ := h
    simp [defsSize]
  | d :: ds, used, maxId, defs, u, m, h => by
    simp only [shrinkDefs] at h
    split at h
    · cases h
    · rename_i d1 u1 m1 h1
      split at h
      · cases h
      · rename_i d2 u2 m2 h2
        simp at h
        obtain ⟨rfl, rfl, rfl⟩ := h
        have := shrinkDef_size d data codata used maxId d1 u1 m1 h1
        have := shrinkDefs_size data codata ds u1 m1 d2 u2 m2 h2
        simp only [defsSize_append, fsDefsSize, Nat.mul_add] at *
        omega


theorem maxXtors_append : ∀ a b, maxXtors (a ++ b) = max (maxXtors a) (maxXtors b)
  | [], b => by simp [maxXtors]
  | d :: a, b => by simp [maxXtors, maxXtors_append a b, Nat.max_assoc]

/-- C19-T3 for a program: `|S4| ≤ (d + 1) · |S3|` in statement/clause/definition nodes, where `d` is
    the largest number of xtors of a declared type (at least 1 because of `_Cont`) -/
theorem shrinkProg_size (p : Core.FsProg) (q : AxCut.Prog) (h : shrinkProg p = .ok q) :
    defsSize q.defs ≤ (max (max (maxXtors p.dataTypes) (maxXtors p.codataTypes)) 1 + 1) * fsDefsSize p.defs := by
  simp only [shrinkProg] at h
  split at h
  · cases h
  · split at h
    · cases h
    · split at h
      · cases h
      · rename_i defs u m hd
        simp at h
        subst h
        have := shrinkDefs_size _ _ p.defs _ p.maxId defs u m hd
        simp only [maxXtors_append, maxXtors, contInt, List.length_cons, List.length_nil] at this
        have e : max (max (maxXtors p.dataTypes) (max (0 + 1) 0)) (maxXtors p.codataTypes) =
            max (max (maxXtors p.dataTypes) (maxXtors p.codataTypes)) 1 := by omega
        rw [e] at this
        exact this

end Scc.Core2AxCut
