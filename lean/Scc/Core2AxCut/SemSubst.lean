/-
  Scc.Core2AxCut.SemSubst — proof file for the semantic part of C04: the translation judgment `Tr` is
  closed under the id-substitution of the AxCut side (`axSubstStmt [(i, w)]`, as applied by
  `criticalClauses` to the shrunk statement of the expanded side), provided neither `i` nor `w.id` is
  bound in the AxCut statement.
-/
import Scc.Core2AxCut.SemLemmas

namespace Scc.Core2AxCut.Sem

open Scc Scc.Core2AxCut
open Scc.AxCut.Named (Value lookup lookupAll bindParams findDef State step)

local notation "sid" => shrinkIdentifier

/-! ## ids bound in an AxCut statement -/

mutual
  def axBids : AxCut.Stmt → List Nat
    | .subst _ n => axBids n
    | .call _ _ => []
    | .letS v _ _ _ n _ => v.id :: axBids n
    | .switch _ _ cs _ => axBidsC cs
    | .create v _ _ cs n _ _ => v.id :: (axBidsC cs ++ axBids n)
    | .invoke _ _ _ _ => []
    | .lit v _ n _ => v.id :: axBids n
    | .op v _ _ _ n _ => v.id :: axBids n
    | .print _ _ n _ => axBids n
    | .ifc _ _ _ t e => axBids t ++ axBids e
    | .exit _ => []
  def axBidsC : AxCut.Clauses → List Nat
    | .nil => []
    | .cons _ ctx b r => axIds ctx ++ (axBids b ++ axBidsC r)
end

theorem findClause_bids {tag ctx body} : ∀ (cls : AxCut.Clauses),
    AxCut.Named.findClause tag cls = some (ctx, body) →
    (∀ i ∈ axIds ctx, i ∈ axBidsC cls) ∧ (∀ i ∈ axBids body, i ∈ axBidsC cls)
  | .nil, h => by simp [AxCut.Named.findClause] at h
  | .cons x c b r, h => by
    simp only [AxCut.Named.findClause] at h
    split at h
    · simp only [Option.some.injEq, Prod.mk.injEq] at h
      obtain ⟨rfl, rfl⟩ := h
      simp only [axBidsC, List.mem_append]
      exact ⟨fun i hi => .inl hi, fun i hi => .inr (.inl hi)⟩
    · have := findClause_bids r h
      simp only [axBidsC, List.mem_append]
      exact ⟨fun i hi => .inr (.inr (this.1 i hi)), fun i hi => .inr (.inr (this.2 i hi))⟩

/-! ## the substitution on identifiers, contexts, clause lists -/

/-- the renaming of ids performed by `axSubstStmt [(i, w)]` -/
def sub1 (i j : Nat) (k : Nat) : Nat := if k = i then j else k

theorem axSubstIdent_id (i : Nat) (w v : AxCut.Ident) : (axSubstIdent [(i, w)] v).id = sub1 i w.id v.id := by
  simp only [axSubstIdent, List.find?_cons, List.find?_nil, sub1]
  by_cases h : v.id = i
  · simp [h]
  · have : (i == v.id) = false := by simp; exact fun e => h e.symm
    simp [this, h]

theorem axIds_axSubstCtx (i : Nat) (w : AxCut.Ident) (c : AxCut.Ctx) :
    axIds (axSubstCtx [(i, w)] c) = (axIds c).map (sub1 i w.id) := by
  simp only [axIds, axSubstCtx, List.map_map]
  apply List.map_congr_left
  intro b _
  simp [axSubstBinding, axSubstIdent_id]

theorem sub1_of_ne {i j k : Nat} (h : k ≠ i) : sub1 i j k = k := by simp [sub1, h]

theorem map_sub1_of_not_mem {i j : Nat} {l : List Nat} (h : i ∉ l) : l.map (sub1 i j) = l := by
  induction l with
  | nil => rfl
  | cons a l ih =>
    simp only [List.mem_cons, not_or] at h
    simp [sub1_of_ne (fun e => h.1 e.symm), ih h.2]

theorem findClause_axSubst (σ) (tag : AxCut.Ident) : ∀ (cls : AxCut.Clauses),
    AxCut.Named.findClause tag (axSubstClauses σ cls) =
      (AxCut.Named.findClause tag cls).map (fun cb => (cb.1, axSubstStmt σ cb.2))
  | .nil => by simp [axSubstClauses, AxCut.Named.findClause]
  | .cons x c b r => by
    simp only [axSubstClauses, AxCut.Named.findClause]
    split
    · simp
    · exact findClause_axSubst σ tag r

theorem findClause_axSubst_some {σ tag ctx body''} {cls : AxCut.Clauses}
    (h : AxCut.Named.findClause tag (axSubstClauses σ cls) = some (ctx, body'')) :
    ∃ body', AxCut.Named.findClause tag cls = some (ctx, body') ∧ body'' = axSubstStmt σ body' := by
  rw [findClause_axSubst] at h
  cases hf : AxCut.Named.findClause tag cls with
  | none => simp [hf] at h
  | some cb =>
    obtain ⟨c, b⟩ := cb
    simp only [hf, Option.map_some, Option.some.injEq, Prod.mk.injEq] at h
    exact ⟨b, by rw [h.1], h.2.symm⟩

/-! ## transfer of the side conditions -/

section transfer
variable {Γ : Core.Ctx} {h h' : HMap} {i : Nat} {w : AxCut.Ident}
  (hh : ∀ b, occFs Γ b = true → h' b.var = sub1 i w.id (h b.var))
include hh

theorem Avoids_sub {k : Nat} (ha : Avoids Γ h k) (hk : k ≠ w.id) : Avoids Γ h' k := by
  intro b hb
  rw [hh b hb]
  simp only [sub1]
  split
  · exact fun e => hk e.symm
  · exact ha b hb

theorem hh_cons (b0 : Core.Binding) {k k' : Nat} (hk : k' = sub1 i w.id k) :
    ∀ b, occFs (b0 :: Γ) b = true → (h'.set b0.var k') b.var = sub1 i w.id ((h.set b0.var k) b.var) := by
  intro b hb
  rcases occFs_cons hb with rfl | ⟨hne, hb'⟩
  · simp [HMap.set_self, hk]
  · rw [HMap.set_ne _ _ (var_ne_of_id_ne hne), HMap.set_ne _ _ (var_ne_of_id_ne hne)]
    exact hh b hb'

theorem map_hh {args : Core.Ctx} (hocc : ∀ b ∈ args, occFs Γ b = true) :
    args.map (fun b => h' b.var) = (args.map (fun b => h b.var)).map (sub1 i w.id) := by
  rw [List.map_map]
  apply List.map_congr_left
  intro b hb
  exact hh b (hocc b hb)

end transfer

theorem occFs_append {Δ Γ : Core.Ctx} {b : Core.Binding} (h : occFs (Δ ++ Γ) b = true) :
    b ∈ Δ ∨ (b.var.id ∉ Δ.map (·.var.id) ∧ occFs Γ b = true) := by
  induction Δ with
  | nil => right; exact ⟨by simp, h⟩
  | cons d Δ ih =>
    rcases occFs_cons (Γ := Δ ++ Γ) h with rfl | ⟨hne, h'⟩
    · left; simp
    · rcases ih h' with hm | ⟨hn, ho⟩
      · left; simp [hm]
      · right
        refine ⟨?_, ho⟩
        simp only [List.map_cons, List.mem_cons, not_or]
        exact ⟨hne, hn⟩

theorem setMany_of_not_mem (h : HMap) : ∀ (ctx : Core.Ctx) (is : List Nat) (y : Core.Ident),
    y ∉ ctx.map (·.var) → (h.setMany ctx is) y = h y
  | [], _, _, _ => by simp [HMap.setMany]
  | _ :: _, [], _, _ => by simp [HMap.setMany]
  | b :: bs, k :: ks, y, hy => by
    simp only [List.map_cons, List.mem_cons, not_or] at hy
    simp only [HMap.setMany]
    rw [HMap.set_ne _ _ hy.1]
    exact setMany_of_not_mem h bs ks y hy.2

theorem setMany_mem (h : HMap) : ∀ (ctx : Core.Ctx) (is : List Nat) (y : Core.Ident),
    ctx.length = is.length → y ∈ ctx.map (·.var) → (h.setMany ctx is) y ∈ is
  | [], _, _, _, hy => by simp at hy
  | _ :: _, [], _, hl, _ => by simp at hl
  | b :: bs, k :: ks, y, hl, hy => by
    simp only [HMap.setMany]
    by_cases e : y = b.var
    · subst e; simp [HMap.set_self]
    · rw [HMap.set_ne _ _ e]
      simp only [List.map_cons, List.mem_cons] at hy
      rcases hy with hy | hy
      · exact absurd hy e
      · exact List.mem_cons_of_mem _ (setMany_mem h bs ks y (by simpa using hl) hy)

/-- `setMany` commutes with the substitution -/
theorem hh_setMany {Γ : Core.Ctx} {h h' : HMap} {i : Nat} {w : AxCut.Ident}
    (hh : ∀ b, occFs Γ b = true → h' b.var = sub1 i w.id (h b.var)) (ctx : Core.Ctx) (is : List Nat)
    (hl : ctx.length = is.length) :
    ∀ b, occFs (ctx ++ Γ) b = true →
      (h'.setMany ctx (is.map (sub1 i w.id))) b.var = sub1 i w.id ((h.setMany ctx is) b.var) := by
  induction ctx generalizing is with
  | nil => intro b hb; simpa [HMap.setMany] using hh b hb
  | cons c ctx ih =>
    cases is with
    | nil => simp at hl
    | cons k ks =>
      intro b hb
      simp only [List.map_cons, HMap.setMany]
      exact hh_cons (ih ks (by simpa using hl)) c rfl b hb

/-! ## transfer of the clause shapes -/

section shapes
variable {E : TEnv} {q : AxCut.Prog} {Γ : Core.Ctx} {h h' : HMap} {i : Nat} {w : AxCut.Ident}
  (hh : ∀ b, occFs Γ b = true → h' b.var = sub1 i w.id (h b.var))
include hh

theorem ClausesShape.axSubst {xs cl cls} (hs : ClausesShape Γ h xs cl cls) (hj : w.id ∉ axBidsC cls) :
    ClausesShape Γ h' xs cl (axSubstClauses [(i, w)] cls) := by
  intro K sig hsig
  obtain ⟨ctx, body, ctx', body', h1, h2, h3, h4, h5, h6⟩ := hs K sig hsig
  refine ⟨ctx, body, ctx', axSubstStmt [(i, w)] body', h1, h2, by rw [findClause_axSubst, h3]; rfl, h4, h5, ?_⟩
  intro k hk
  exact Avoids_sub hh (h6 k hk) (fun e => hj (by rw [← e]; exact (findClause_bids cls h3).1 k hk))

theorem CritShape.axSubst {xs cls} (hs : CritShape Γ h xs cls) (hi : i ∉ axBidsC cls) (hj : w.id ∉ axBidsC cls) :
    CritShape Γ h' xs (axSubstClauses [(i, w)] cls) := by
  intro K sig hsig
  obtain ⟨envC, w0, ty', envC', t, fv, h1, h2, h3, h4, h5, h6⟩ := hs K sig hsig
  have hb := findClause_bids cls h1
  refine ⟨envC, w0, ty', axSubstCtx [(i, w)] envC', axSubstStmt [(i, w)] t, axSubstFV [(i, w)] fv,
    by rw [findClause_axSubst, h1]; rfl, h2, ?_, h4, ?_, ?_⟩
  · rw [axIds_axSubstCtx, h3]
    exact map_sub1_of_not_mem (fun hm => hi (hb.1 _ hm))
  · intro k hk
    exact Avoids_sub hh (h5 k hk) (fun e => hj (by rw [← e]; exact hb.1 k hk))
  · exact Avoids_sub hh h6 (fun e => hj (by rw [← e]; exact hb.2 _ (by simp [axBids])))

theorem EtaShape.axSubst {target xs cls} (hs : EtaShape Γ h target xs cls) (hi : i ∉ axBidsC cls)
    (hj : w.id ∉ axBidsC cls) :
    EtaShape Γ h' (sub1 i w.id target) xs (axSubstClauses [(i, w)] cls) := by
  intro K sig hsig
  obtain ⟨envC, v, ty', envC', h1, h2, h3, h4, h5, h6⟩ := hs K sig hsig
  have hb := findClause_bids cls h1
  refine ⟨envC, axSubstIdent [(i, w)] v, ty', axSubstCtx [(i, w)] envC',
    by rw [findClause_axSubst, h1]; rfl, by rw [axSubstIdent_id, h2], h3, ?_, h5, ?_⟩
  · rw [axIds_axSubstCtx, h4]
    exact map_sub1_of_not_mem (fun hm => hi (hb.1 _ hm))
  · intro k hk
    exact Avoids_sub hh (h6 k hk) (fun e => hj (by rw [← e]; exact hb.1 k hk))

end shapes

/-! ## the judgment is closed under the substitution -/

section main
variable {E : TEnv} {q : AxCut.Prog}

theorem getElem?_map_sub {l : List Nat} {n : Nat} {k : Nat} (f : Nat → Nat) (h : l[n]? = some k) :
    (l.map f)[n]? = some (f k) := by
  simp [List.getElem?_map, h]

/-- a `let` clause body of a substituted clause list comes from a `let` clause body -/
theorem letS_of_axSubst {σ w0 ty'' tg envC' t fv} {body' : AxCut.Stmt}
    (h : AxCut.Stmt.letS w0 ty'' tg envC' t fv = axSubstStmt σ body') :
    ∃ envC0 t0 fv0, body' = .letS w0 ty'' tg envC0 t0 fv0 ∧ t = axSubstStmt σ t0 := by
  cases body' <;> simp only [axSubstStmt] at h <;> try (cases h; done)
  rename_i v ty tag args next fvn
  simp only [AxCut.Stmt.letS.injEq] at h
  obtain ⟨rfl, rfl, rfl, _, rfl, _⟩ := h
  exact ⟨_, _, _, rfl, rfl⟩

theorem Tr.axSubst (i : Nat) (w : AxCut.Ident) {Γ h s t} (htr : Tr E q Γ h s t) :
    i ∉ axBids t → w.id ∉ axBids t →
    ∀ h', (∀ b, occFs Γ b = true → h' b.var = sub1 i w.id (h b.var)) →
      Tr E q Γ h' s (axSubstStmt [(i, w)] t) := by
  induction htr with
  | exit ha hv =>
    intro _ _ h' hh
    simp only [axSubstStmt]
    exact .exit ha (by rw [axSubstIdent_id, hv, hh _ ha])
  | print ha hv _ ih =>
    intro hi hj h' hh
    simp only [axBids] at hi hj
    simp only [axSubstStmt]
    exact .print ha (by rw [axSubstIdent_id, hv, hh _ ha]) (ih hi hj h' hh)
  | ifz ha hv _ _ iht ihe =>
    intro hi hj h' hh
    simp only [axBids, List.mem_append, not_or] at hi hj
    simp only [axSubstStmt, Option.map_none]
    exact .ifz ha (by rw [axSubstIdent_id, hv, hh _ ha]) (iht hi.1 hj.1 h' hh) (ihe hi.2 hj.2 h' hh)
  | ifc ha hv hb hw _ _ iht ihe =>
    intro hi hj h' hh
    simp only [axBids, List.mem_append, not_or] at hi hj
    simp only [axSubstStmt, Option.map_some]
    exact .ifc ha (by rw [axSubstIdent_id, hv, hh _ ha]) hb (by rw [axSubstIdent_id, hw, hh _ hb])
      (iht hi.1 hj.1 h' hh) (ihe hi.2 hj.2 h' hh)
  | call hs hm hocc hids =>
    intro _ _ h' hh
    simp only [axSubstStmt]
    exact .call hs hm hocc (by rw [axIds_axSubstCtx, hids, map_hh hh hocc])
  | @lifted Γ h s label args' d Γ' hc hfd hsub hlen hnd hargs hcov ht _ =>
    intro _ _ h' hh
    simp only [axSubstStmt]
    refine .lifted hfd hsub (by simpa [axSubstCtx] using hlen) hnd ?_ ?_ ht
    · intro k hk
      rw [axIds_axSubstCtx, List.mem_map] at hk
      obtain ⟨k0, hk0, rfl⟩ := hk
      obtain ⟨b, hb, rfl⟩ := hargs k0 hk0
      exact ⟨b, hb, hh b hb⟩
    · intro b hb
      obtain ⟨n, h1, h2⟩ := hcov b hb
      refine ⟨n, ?_, h2⟩
      rw [axIds_axSubstCtx, hh b (hsub b hb)]
      exact getElem?_map_sub _ h1
  | renL hx _ ih =>
    intro hi hj h' hh
    exact .renL hx (ih hi hj _ (hh_cons hh _ (hh _ hx)))
  | renR hx _ ih =>
    intro hi hj h' hh
    exact .renR hx (ih hi hj _ (hh_cons hh _ (hh _ hx)))
  | @knownData Γ h T K args cl d sig ctx body t hc hd hsig hm hocc hf hm2 _ ih =>
    intro hi hj h' hh
    refine .knownData hc hd hsig hm hocc hf hm2 (ih hi hj _ ?_)
    rw [map_hh hh hocc]
    exact hh_setMany hh ctx _ (by rw [List.length_map, sigMatch_length hm2, sigMatch_length hm])
  | @knownCodata Γ h T K args cl d sig ctx body t hc hd hsig hm hocc hf hm2 _ ih =>
    intro hi hj h' hh
    refine .knownCodata hc hd hsig hm hocc hf hm2 (ih hi hj _ ?_)
    rw [map_hh hh hocc]
    exact hh_setMany hh ctx _ (by rw [List.length_map, sigMatch_length hm2, sigMatch_length hm])
  | unkInt hx hα hv hargs =>
    intro _ _ h' hh
    simp only [axSubstStmt]
    exact .unkInt hx hα (by rw [axSubstIdent_id, hv, hh _ hα])
      (by rw [axIds_axSubstCtx, hargs, hh _ hx]; rfl)
  | unkData hc hd hx hα hv hshape =>
    intro hi hj h' hh
    simp only [axBids] at hi hj
    simp only [axSubstStmt]
    exact .unkData hc hd hx hα (by rw [axSubstIdent_id, hv, hh _ hx])
      (by rw [hh _ hα]; exact hshape.axSubst hh hi hj)
  | unkCodata hc hd hx hα hv hshape =>
    intro hi hj h' hh
    simp only [axBids] at hi hj
    simp only [axSubstStmt]
    exact .unkCodata hc hd hx hα (by rw [axSubstIdent_id, hv, hh _ hα])
      (by rw [hh _ hx]; exact hshape.axSubst hh hi hj)
  | critInt ha hx hbx _ _ ih2 ih1 =>
    intro hi hj h' hh
    simp only [axBids, axBidsC, axIds, List.map_cons, List.map_nil, List.mem_cons, List.mem_append,
      List.not_mem_nil, or_false, not_or] at hi hj
    simp only [axSubstStmt, axSubstClauses, Option.map_none]
    subst hbx
    exact .critInt (Avoids_sub hh ha (fun e => hj.1 e.symm)) (Avoids_sub hh hx (fun e => hj.2.1.1 e.symm)) rfl
      (ih2 hi.2.1.2 hj.2.1.2 _ (hh_cons hh _ (sub1_of_ne (fun e => hi.2.1.1 e.symm)).symm))
      (ih1 hi.2.2 hj.2.2 _ (hh_cons hh _ (sub1_of_ne (fun e => hi.1 e.symm)).symm))
  | critData hc hd ha hshape htr _ ihtr ih1 =>
    intro hi hj h' hh
    simp only [axBids, List.mem_cons, List.mem_append, not_or] at hi hj
    simp only [axSubstStmt, Option.map_none]
    refine .critData hc hd (Avoids_sub hh ha (fun e => hj.1 e.symm)) (hshape.axSubst hh hi.2.1 hj.2.1) ?_
      (ih1 hi.2.2 hj.2.2 _ (hh_cons hh _ (sub1_of_ne (fun e => hi.1 e.symm)).symm))
    intro tag envC w0 ty'' tg envC' t fv hfind
    obtain ⟨body', hf, heq⟩ := findClause_axSubst_some hfind
    obtain ⟨envC0, t0, fv0, rfl, rfl⟩ := letS_of_axSubst heq
    have hb := findClause_bids _ hf
    have hw0 : w0.id ∈ axBids (AxCut.Stmt.letS w0 ty'' tg envC0 t0 fv0) := by simp [axBids]
    refine ihtr _ _ _ _ _ _ _ _ hf (fun hm => hi.2.1 (hb.2 _ (by simp [axBids, hm])))
      (fun hm => hj.2.1 (hb.2 _ (by simp [axBids, hm]))) _
      (hh_cons hh _ (sub1_of_ne (fun e => hi.2.1 (hb.2 _ (by rw [← e]; exact hw0)))).symm)
  | critCodata hc hd hx hshape htr _ ihtr ih2 =>
    intro hi hj h' hh
    simp only [axBids, List.mem_cons, List.mem_append, not_or] at hi hj
    simp only [axSubstStmt, Option.map_none]
    refine .critCodata hc hd (Avoids_sub hh hx (fun e => hj.1 e.symm)) (hshape.axSubst hh hi.2.1 hj.2.1) ?_
      (ih2 hi.2.2 hj.2.2 _ (hh_cons hh _ (sub1_of_ne (fun e => hi.1 e.symm)).symm))
    intro tag envC w0 ty'' tg envC' t fv hfind
    obtain ⟨body', hf, heq⟩ := findClause_axSubst_some hfind
    obtain ⟨envC0, t0, fv0, rfl, rfl⟩ := letS_of_axSubst heq
    have hb := findClause_bids _ hf
    have hw0 : w0.id ∈ axBids (AxCut.Stmt.letS w0 ty'' tg envC0 t0 fv0) := by simp [axBids]
    refine ihtr _ _ _ _ _ _ _ _ hf (fun hm => hi.2.1 (hb.2 _ (by simp [axBids, hm])))
      (fun hm => hj.2.1 (hb.2 _ (by simp [axBids, hm]))) _
      (hh_cons hh _ (sub1_of_ne (fun e => hi.2.1 (hb.2 _ (by rw [← e]; exact hw0)))).symm)
  | litMu hav _ ih =>
    intro hi hj h' hh
    simp only [axBids, List.mem_cons, not_or] at hi hj
    simp only [axSubstStmt]
    exact .litMu (Avoids_sub hh hav (fun e => hj.1 e.symm))
      (ih hi.2 hj.2 _ (hh_cons hh _ (sub1_of_ne (fun e => hi.1 e.symm)).symm))
  | litVar hα hw hv hargs =>
    intro hi hj h' hh
    simp only [axBids, List.mem_cons, List.not_mem_nil, or_false] at hi hj
    simp only [axSubstStmt]
    refine .litVar hα ?_ (by rw [axSubstIdent_id, hv, hh _ hα])
      (by rw [axIds_axSubstCtx, hargs]; simp [sub1_of_ne (fun e => hi e.symm)])
    rw [hh _ hα]
    simp only [sub1]
    split
    · exact fun e => hj e.symm
    · exact hw
  | opMu ha hb hva hvb hav _ ih =>
    intro hi hj h' hh
    simp only [axBids, List.mem_cons, not_or] at hi hj
    simp only [axSubstStmt]
    exact .opMu ha hb (by rw [axSubstIdent_id, hva, hh _ ha]) (by rw [axSubstIdent_id, hvb, hh _ hb])
      (Avoids_sub hh hav (fun e => hj.1 e.symm))
      (ih hi.2 hj.2 _ (hh_cons hh _ (sub1_of_ne (fun e => hi.1 e.symm)).symm))
  | opVar ha hb hva hvb hα hw hv hargs =>
    intro hi hj h' hh
    simp only [axBids, List.mem_cons, List.not_mem_nil, or_false] at hi hj
    simp only [axSubstStmt]
    refine .opVar ha hb (by rw [axSubstIdent_id, hva, hh _ ha]) (by rw [axSubstIdent_id, hvb, hh _ hb]) hα ?_
      (by rw [axSubstIdent_id, hv, hh _ hα])
      (by rw [axIds_axSubstCtx, hargs]; simp [sub1_of_ne (fun e => hi e.symm)])
    rw [hh _ hα]
    simp only [sub1]
    split
    · exact fun e => hj e.symm
    · exact hw
  | letData hc hd hsig hm hocc hids hav _ ih =>
    intro hi hj h' hh
    simp only [axBids, List.mem_cons, not_or] at hi hj
    simp only [axSubstStmt]
    exact .letData hc hd hsig hm hocc (by rw [axIds_axSubstCtx, hids, map_hh hh hocc])
      (Avoids_sub hh hav (fun e => hj.1 e.symm))
      (ih hi.2 hj.2 _ (hh_cons hh _ (sub1_of_ne (fun e => hi.1 e.symm)).symm))
  | letCodata hc hd hsig hm hocc hids hav _ ih =>
    intro hi hj h' hh
    simp only [axBids, List.mem_cons, not_or] at hi hj
    simp only [axSubstStmt]
    exact .letCodata hc hd hsig hm hocc (by rw [axIds_axSubstCtx, hids, map_hh hh hocc])
      (Avoids_sub hh hav (fun e => hj.1 e.symm))
      (ih hi.2 hj.2 _ (hh_cons hh _ (sub1_of_ne (fun e => hi.1 e.symm)).symm))
  | invokeData hc hd hsig hm hocc hids hα hv =>
    intro _ _ h' hh
    simp only [axSubstStmt]
    exact .invokeData hc hd hsig hm hocc (by rw [axIds_axSubstCtx, hids, map_hh hh hocc]) hα
      (by rw [axSubstIdent_id, hv, hh _ hα])
  | invokeCodata hc hd hsig hm hocc hids hx hv =>
    intro _ _ h' hh
    simp only [axSubstStmt]
    exact .invokeCodata hc hd hsig hm hocc (by rw [axIds_axSubstCtx, hids, map_hh hh hocc]) hx
      (by rw [axSubstIdent_id, hv, hh _ hx])
  | switchData hc hd hx hv hshape htr ihtr =>
    intro hi hj h' hh
    simp only [axBids] at hi hj
    simp only [axSubstStmt]
    refine .switchData hc hd hx (by rw [axSubstIdent_id, hv, hh _ hx]) (hshape.axSubst hh hj) ?_
    intro K ctx body ctx' body'' hfc hfind hl
    obtain ⟨body', hf, rfl⟩ := findClause_axSubst_some hfind
    have hb := findClause_bids _ hf
    have := hh_setMany hh ctx (axIds ctx') (by simp [axIds, hl])
    rw [map_sub1_of_not_mem (fun hm => hi (hb.1 _ hm))] at this
    exact ihtr K ctx body ctx' body' hfc hf hl (fun hm => hi (hb.2 _ hm)) (fun hm => hj (hb.2 _ hm)) _ this
  | switchCodata hc hd hα hv hshape htr ihtr =>
    intro hi hj h' hh
    simp only [axBids] at hi hj
    simp only [axSubstStmt]
    refine .switchCodata hc hd hα (by rw [axSubstIdent_id, hv, hh _ hα]) (hshape.axSubst hh hj) ?_
    intro K ctx body ctx' body'' hfc hfind hl
    obtain ⟨body', hf, rfl⟩ := findClause_axSubst_some hfind
    have hb := findClause_bids _ hf
    have := hh_setMany hh ctx (axIds ctx') (by simp [axIds, hl])
    rw [map_sub1_of_not_mem (fun hm => hi (hb.1 _ hm))] at this
    exact ihtr K ctx body ctx' body' hfc hf hl (fun hm => hi (hb.2 _ hm)) (fun hm => hj (hb.2 _ hm)) _ this
  | createData hc hd ha hshape htr _ ihtr ih =>
    intro hi hj h' hh
    simp only [axBids, List.mem_cons, List.mem_append, not_or] at hi hj
    simp only [axSubstStmt, Option.map_none]
    refine .createData hc hd (Avoids_sub hh ha (fun e => hj.1 e.symm)) (hshape.axSubst hh hj.2.1) ?_
      (ih hi.2.2 hj.2.2 _ (hh_cons hh _ (sub1_of_ne (fun e => hi.1 e.symm)).symm))
    intro K ctx body ctx' body'' hfc hfind hl
    obtain ⟨body', hf, rfl⟩ := findClause_axSubst_some hfind
    have hb := findClause_bids _ hf
    have := hh_setMany hh ctx (axIds ctx') (by simp [axIds, hl])
    rw [map_sub1_of_not_mem (fun hm => hi.2.1 (hb.1 _ hm))] at this
    exact ihtr K ctx body ctx' body' hfc hf hl (fun hm => hi.2.1 (hb.2 _ hm)) (fun hm => hj.2.1 (hb.2 _ hm)) _ this
  | createCodata hc hd hx hshape htr _ ihtr ih =>
    intro hi hj h' hh
    simp only [axBids, List.mem_cons, List.mem_append, not_or] at hi hj
    simp only [axSubstStmt, Option.map_none]
    refine .createCodata hc hd (Avoids_sub hh hx (fun e => hj.1 e.symm)) (hshape.axSubst hh hj.2.1) ?_
      (ih hi.2.2 hj.2.2 _ (hh_cons hh _ (sub1_of_ne (fun e => hi.1 e.symm)).symm))
    intro K ctx body ctx' body'' hfc hfind hl
    obtain ⟨body', hf, rfl⟩ := findClause_axSubst_some hfind
    have hb := findClause_bids _ hf
    have := hh_setMany hh ctx (axIds ctx') (by simp [axIds, hl])
    rw [map_sub1_of_not_mem (fun hm => hi.2.1 (hb.1 _ hm))] at this
    exact ihtr K ctx body ctx' body' hfc hf hl (fun hm => hi.2.1 (hb.2 _ hm)) (fun hm => hj.2.1 (hb.2 _ hm)) _ this

end main

end Scc.Core2AxCut.Sem
