/-
  Scc.Core2AxCut.SemSimCut — proof file for the semantic part of C04: the simulation lemmas for the
  rules of `Tr` that translate cuts (one per arm of `shrinkCut`, both orientations), and the main
  simulation theorem `sim_tr` by induction on the translation judgment.
-/
import Scc.Core2AxCut.SemSim

namespace Scc.Core2AxCut.Sem

open Scc Scc.Core2AxCut
open Scc.AxCut.Named (Value lookup lookupAll bindParams findDef State step)

local notation "sid" => shrinkIdentifier

variable {E : TEnv} {q : AxCut.Prog} {p : Core.FsProg}

theorem codEq (hp : ProgRel E q p) (T : Core.Ty) : Core.isCodata p.codataTypes T = isCodata E.codata T := by
  rw [hp.1]; exact isCodata_eq _ _

theorem lookupAll_one {η : AxCut.Named.Env} {args' : AxCut.Ctx} {i : Nat} {v : Value}
    (h : axIds args' = [i]) (hl : lookup η i = some v) : lookupAll η args' = some [v] := by
  match args', h with
  | [b], h =>
    simp only [axIds, List.map_cons, List.map_nil, List.cons.injEq, and_true] at h
    simp [lookupAll, h, hl]

section rules
variable (hp : ProgRel E q p)
include hp

/-! ## renaming -/

theorem sim_renL {Γ h T a s0 x t ρ η out} (hx : occFs Γ ⟨x, .cns, T⟩ = true)
    (ht : Tr E q (⟨a, .cns, T⟩ :: Γ) (h.set a (h x)) s0 t) (hr : EnvRel E q Γ h ρ η) :
    SimGoal p q (StRel E q) ⟨.cut T (.mu .prd a T s0) (.var .cns x T), ρ, out⟩ ⟨t, η, out⟩ := by
  obtain ⟨v, v', h1, h2, h3⟩ := hr _ hx
  have hs : Core.fsStep p ⟨.cut T (.mu .prd a T s0) (.var .cns x T), ρ, out⟩ = .next ⟨s0, (a, v) :: ρ, out⟩ := by
    by_cases hc : isCodata E.codata T = true
    · obtain ⟨d, K, sig, vs, vs', rfl, _⟩ := h3.inv_dtor hc
      simp [Core.fsStep, Core.fsStepCut, codEq hp, hc, Core.fsCnsVal, Core.fsPrdVal, h1, Core.FsState.invoke,
        Core.FsState.goto]
    · simp [Core.fsStep, Core.fsStepCut, codEq hp, hc, Core.fsCnsVal, h1, Core.FsState.goto]
  exact goal_next 0 _ hs (.refl _) (stRel_mk ht (EnvRel.alias (b0 := ⟨a, .cns, T⟩) hr h3 h2))
    (by intro _; simp [sizeStmt, sizeTerm]; omega)

theorem sim_renR {Γ h T y s0 x t ρ η out} (hx : occFs Γ ⟨x, .prd, T⟩ = true)
    (ht : Tr E q (⟨y, .prd, T⟩ :: Γ) (h.set y (h x)) s0 t) (hr : EnvRel E q Γ h ρ η) :
    SimGoal p q (StRel E q) ⟨.cut T (.var .prd x T) (.mu .cns y T s0), ρ, out⟩ ⟨t, η, out⟩ := by
  obtain ⟨v, v', h1, h2, h3⟩ := hr _ hx
  have hs : Core.fsStep p ⟨.cut T (.var .prd x T) (.mu .cns y T s0), ρ, out⟩ = .next ⟨s0, (y, v) :: ρ, out⟩ := by
    by_cases hc : isCodata E.codata T = true
    · simp [Core.fsStep, Core.fsStepCut, codEq hp, hc, Core.fsCnsVal, Core.fsPrdVal, h1, Core.FsState.goto]
    · simp [Core.fsStep, Core.fsStepCut, codEq hp, hc, Core.fsCnsVal, Core.fsPrdVal, h1, Core.FsState.pass,
        Core.FsState.goto]
  exact goal_next 0 _ hs (.refl _) (stRel_mk ht (EnvRel.alias (b0 := ⟨y, .prd, T⟩) hr h3 h2))
    (by intro _; simp [sizeStmt, sizeTerm]; omega)

/-! ## known cuts -/

omit hp in
/-- the clause of a known cut is entered on the Core side only -/
theorem knownEnter {Γ h ρ η} {args : Core.Ctx} {sig : Core.XtorSig} {ctx : Core.Ctx}
    (hr : EnvRel E q Γ h ρ η) (hm : sigMatch args sig.args = true) (hocc : ∀ b ∈ args, occFs Γ b = true)
    (hm2 : sigMatch ctx sig.args = true) :
    ∃ vs ρ', Core.Env.lookupAll ρ args = .ok vs ∧ Core.Env.bind ρ ctx vs = .ok ρ' ∧
      EnvRel E q (ctx ++ Γ) (h.setMany ctx (args.map fun b => h b.var)) ρ' η := by
  obtain ⟨vs, vs', h1, h2, h3⟩ := hr.argVals args (dummyCtx (args.map fun b => h b.var)) hocc (axIds_dummyCtx _)
  obtain ⟨ρ', h4, h5⟩ := EnvRel.aliasMany hr ctx _ vs vs' (VRelL.congr (sigMatch_trans hm (sigMatch_symm hm2)) h3) h2
  rw [axIds_dummyCtx] at h5
  exact ⟨vs, ρ', h1, h4, h5⟩

theorem sim_knownData {Γ h T K args cl d sig ctx body t ρ η out} (hc : isCodata E.codata T = false)
    (_hd : declOf E T = some d) (_hsig : d.xtors.find? (fun x => x.name == K) = some sig)
    (hm : sigMatch args sig.args = true) (hocc : ∀ b ∈ args, occFs Γ b = true)
    (hf : cl.find K = some (ctx, body)) (hm2 : sigMatch ctx sig.args = true)
    (ht : Tr E q (ctx ++ Γ) (h.setMany ctx (args.map fun b => h b.var)) body t) (hr : EnvRel E q Γ h ρ η) :
    SimGoal p q (StRel E q) ⟨.cut T (.xtor .prd K args T) (.xcase .cns T cl), ρ, out⟩ ⟨t, η, out⟩ := by
  obtain ⟨vs, ρ', h1, h2, h3⟩ := knownEnter hr hm hocc hm2
  have hs : Core.fsStep p ⟨.cut T (.xtor .prd K args T) (.xcase .cns T cl), ρ, out⟩ = .next ⟨body, ρ', out⟩ := by
    simp [Core.fsStep, Core.fsStepCut, codEq hp, hc, Core.fsCnsVal, Core.fsPrdVal, h1, Core.FsState.pass,
      Core.FsState.select, hf, h2, Core.FsState.goto]
  exact goal_next 0 _ hs (.refl _) (stRel_mk ht h3)
    (by intro _; have := find_size cl hf; simp [sizeStmt, sizeTerm]; omega)

theorem sim_knownCodata {Γ h T K args cl d sig ctx body t ρ η out} (hc : isCodata E.codata T = true)
    (_hd : declOf E T = some d) (_hsig : d.xtors.find? (fun x => x.name == K) = some sig)
    (hm : sigMatch args sig.args = true) (hocc : ∀ b ∈ args, occFs Γ b = true)
    (hf : cl.find K = some (ctx, body)) (hm2 : sigMatch ctx sig.args = true)
    (ht : Tr E q (ctx ++ Γ) (h.setMany ctx (args.map fun b => h b.var)) body t) (hr : EnvRel E q Γ h ρ η) :
    SimGoal p q (StRel E q) ⟨.cut T (.xcase .prd T cl) (.xtor .cns K args T), ρ, out⟩ ⟨t, η, out⟩ := by
  obtain ⟨vs, ρ', h1, h2, h3⟩ := knownEnter hr hm hocc hm2
  have hs : Core.fsStep p ⟨.cut T (.xcase .prd T cl) (.xtor .cns K args T), ρ, out⟩ = .next ⟨body, ρ', out⟩ := by
    simp [Core.fsStep, Core.fsStepCut, codEq hp, hc, Core.fsCnsVal, Core.fsPrdVal, h1, Core.FsState.invoke,
      Core.FsState.select, hf, h2, Core.FsState.goto]
  exact goal_next 0 _ hs (.refl _) (stRel_mk ht h3)
    (by intro _; have := find_size cl hf; simp [sizeStmt, sizeTerm]; omega)

/-! ## literals and operations -/

omit hp in
theorem sim_litMu {Γ h n x s0 x' t fv ρ η out} (hav : Avoids Γ h x'.id)
    (ht : Tr E q (⟨x, .prd, .i64⟩ :: Γ) (h.set x x'.id) s0 t) (hr : EnvRel E q Γ h ρ η) :
    SimGoal p q (StRel E q) ⟨.cut .i64 (.lit n) (.mu .cns x .i64 s0), ρ, out⟩ ⟨.lit x' n t fv, η, out⟩ := by
  have hs : Core.fsStep p ⟨.cut .i64 (.lit n) (.mu .cns x .i64 s0), ρ, out⟩ =
      .next ⟨s0, (x, .int (BitVec.ofInt 64 n)) :: ρ, out⟩ := by
    simp [Core.fsStep, Core.fsStepCut, Core.isCodata, Core.fsCnsVal, Core.fsPrdVal, Core.FsState.pass,
      Core.FsState.goto]
  exact goal_next 1 _ hs (.one (step_lit q _ _ _ _ _ _))
    (stRel_mk ht (EnvRel.cons (b0 := ⟨x, .prd, .i64⟩) hr (VRel.int _) hav)) (by omega)

omit hp in
theorem sim_litVar {Γ h n α w v ty' args' fv ρ η out} (hα : occFs Γ ⟨α, .cns, .i64⟩ = true)
    (hw : w.id ≠ h α) (hv : v.id = h α) (hargs : axIds args' = [w.id]) (hr : EnvRel E q Γ h ρ η) :
    SimGoal p q (StRel E q) ⟨.cut .i64 (.lit n) (.var .cns α .i64), ρ, out⟩
      ⟨.lit w n (.invoke v (sid retName) ty' args') fv, η, out⟩ := by
  obtain ⟨cv, cv', h1, h2, h3⟩ := hr _ hα
  obtain ⟨cs', η', cls, rfl, h4, h5, h6⟩ := applyCnsInt h3 (BitVec.ofInt 64 n)
    ⟨.cut .i64 (.lit n) (.var .cns α .i64), ρ, out⟩
  have hs : Core.fsStep p ⟨.cut .i64 (.lit n) (.var .cns α .i64), ρ, out⟩ = .next cs' := by
    simp [Core.fsStep, Core.fsStepCut, Core.isCodata, Core.fsCnsVal, Core.fsPrdVal, h1, h4]
  obtain ⟨as', h7, h8⟩ := h6 v ty' args' ((w.id, .int (BitVec.ofInt 64 n)) :: η)
    (by rw [hv, lookup_cons_ne _ _ (fun e => hw e.symm)]; exact h2)
    (lookupAll_one hargs (lookup_cons_self _ _ _))
  exact goal_next 2 as' hs (.cons (step_lit q _ _ _ _ _ _) h7) h8 (by omega)

omit hp in
theorem sim_opMu {Γ h a o b x s0 x' va vb t fv ρ η out} (ha : occFs Γ ⟨a, .prd, .i64⟩ = true)
    (hb : occFs Γ ⟨b, .prd, .i64⟩ = true) (hva : va.id = h a) (hvb : vb.id = h b) (hav : Avoids Γ h x'.id)
    (ht : Tr E q (⟨x, .prd, .i64⟩ :: Γ) (h.set x x'.id) s0 t) (hr : EnvRel E q Γ h ρ η) :
    SimGoal p q (StRel E q) ⟨.cut .i64 (.op a o b) (.mu .cns x .i64 s0), ρ, out⟩
      ⟨.op x' va (shrinkBinop o) vb t fv, η, out⟩ := by
  obtain ⟨m, h1, _, h2⟩ := hr.int ha
  obtain ⟨n, h3, _, h4⟩ := hr.int hb
  cases hz : Core.arith o m n with
  | ok z =>
    have hs : Core.fsStep p ⟨.cut .i64 (.op a o b) (.mu .cns x .i64 s0), ρ, out⟩ =
        .next ⟨s0, (x, .int z) :: ρ, out⟩ := by
      simp [Core.fsStep, Core.fsStepCut, Core.isCodata, Core.fsCnsVal, Core.fsPrdVal, h1, h3, hz,
        Core.FsState.pass, Core.FsState.goto]
    exact goal_next 1 _ hs
      (.one (step_op_ok q (by rw [hva]; exact h2) (by rw [hvb]; exact h4) ((evalOp_eq o m n).1 z hz)))
      (stRel_mk ht (EnvRel.cons (b0 := ⟨x, .prd, .i64⟩) hr (VRel.int _) hav)) (by omega)
  | error e =>
    have hs : Core.fsStep p ⟨.cut .i64 (.op a o b) (.mu .cns x .i64 s0), ρ, out⟩ = .final (.stuck e) := by
      simp [Core.fsStep, Core.fsStepCut, Core.isCodata, Core.fsPrdVal, h1, h3, hz, Core.stuck]
    obtain ⟨w, hw⟩ := (evalOp_eq o m n).2 e hz
    exact goal_final 0 _ (.stuck w) hs (.refl _)
      (step_op_err q (by rw [hva]; exact h2) (by rw [hvb]; exact h4) hw) ⟨w, rfl⟩

omit hp in
theorem sim_opVar {Γ h a o b α w va vb v ty' args' fv ρ η out} (ha : occFs Γ ⟨a, .prd, .i64⟩ = true)
    (hb : occFs Γ ⟨b, .prd, .i64⟩ = true) (hva : va.id = h a) (hvb : vb.id = h b)
    (hα : occFs Γ ⟨α, .cns, .i64⟩ = true) (hw : w.id ≠ h α) (hv : v.id = h α) (hargs : axIds args' = [w.id])
    (hr : EnvRel E q Γ h ρ η) :
    SimGoal p q (StRel E q) ⟨.cut .i64 (.op a o b) (.var .cns α .i64), ρ, out⟩
      ⟨.op w va (shrinkBinop o) vb (.invoke v (sid retName) ty' args') fv, η, out⟩ := by
  obtain ⟨m, h1, _, h2⟩ := hr.int ha
  obtain ⟨n, h3, _, h4⟩ := hr.int hb
  cases hz : Core.arith o m n with
  | ok z =>
    obtain ⟨cv, cv', g1, g2, g3⟩ := hr _ hα
    obtain ⟨cs', η', cls, rfl, g4, g5, g6⟩ := applyCnsInt g3 z ⟨.cut .i64 (.op a o b) (.var .cns α .i64), ρ, out⟩
    have hs : Core.fsStep p ⟨.cut .i64 (.op a o b) (.var .cns α .i64), ρ, out⟩ = .next cs' := by
      simp [Core.fsStep, Core.fsStepCut, Core.isCodata, Core.fsCnsVal, Core.fsPrdVal, h1, h3, hz, g1, g4]
    obtain ⟨as', g7, g8⟩ := g6 v ty' args' ((w.id, .int z) :: η)
      (by rw [hv, lookup_cons_ne _ _ (fun e => hw e.symm)]; exact g2)
      (lookupAll_one hargs (lookup_cons_self _ _ _))
    exact goal_next 2 as' hs
      (.cons (step_op_ok q (by rw [hva]; exact h2) (by rw [hvb]; exact h4) ((evalOp_eq o m n).1 z hz)) g7) g8
      (by omega)
  | error e =>
    have hs : Core.fsStep p ⟨.cut .i64 (.op a o b) (.var .cns α .i64), ρ, out⟩ = .final (.stuck e) := by
      simp [Core.fsStep, Core.fsStepCut, Core.isCodata, Core.fsPrdVal, h1, h3, hz, Core.stuck]
    obtain ⟨w', hw'⟩ := (evalOp_eq o m n).2 e hz
    exact goal_final 0 _ (.stuck w') hs (.refl _)
      (step_op_err q (by rw [hva]; exact h2) (by rw [hvb]; exact h4) hw') ⟨w', rfl⟩

/-! ## let, invoke -/

theorem sim_letData {Γ h T K args x s0 d sig x' ty' args' t fv ρ η out} (hc : isCodata E.codata T = false)
    (hd : declOf E T = some d) (hsig : d.xtors.find? (fun x => x.name == K) = some sig)
    (hm : sigMatch args sig.args = true) (hocc : ∀ b ∈ args, occFs Γ b = true)
    (hids : axIds args' = args.map (fun b => h b.var)) (hav : Avoids Γ h x'.id)
    (ht : Tr E q (⟨x, .prd, T⟩ :: Γ) (h.set x x'.id) s0 t) (hr : EnvRel E q Γ h ρ η) :
    SimGoal p q (StRel E q) ⟨.cut T (.xtor .prd K args T) (.mu .cns x T s0), ρ, out⟩
      ⟨.letS x' ty' (sid K) args' t fv, η, out⟩ := by
  obtain ⟨vs, vs', h1, h2, h3⟩ := hr.argVals args args' hocc hids
  have hs : Core.fsStep p ⟨.cut T (.xtor .prd K args T) (.mu .cns x T s0), ρ, out⟩ =
      .next ⟨s0, (x, .con K vs) :: ρ, out⟩ := by
    simp [Core.fsStep, Core.fsStepCut, codEq hp, hc, Core.fsCnsVal, Core.fsPrdVal, h1, Core.FsState.pass,
      Core.FsState.goto]
  exact goal_next 1 _ hs (.one (step_let q h2))
    (stRel_mk ht (EnvRel.cons (b0 := ⟨x, .prd, T⟩) hr (VRel.con hc hd hsig (VRelL.congr hm h3)) hav)) (by omega)

theorem sim_letCodata {Γ h T K args a s0 d sig a' ty' args' t fv ρ η out} (hc : isCodata E.codata T = true)
    (hd : declOf E T = some d) (hsig : d.xtors.find? (fun x => x.name == K) = some sig)
    (hm : sigMatch args sig.args = true) (hocc : ∀ b ∈ args, occFs Γ b = true)
    (hids : axIds args' = args.map (fun b => h b.var)) (hav : Avoids Γ h a'.id)
    (ht : Tr E q (⟨a, .cns, T⟩ :: Γ) (h.set a a'.id) s0 t) (hr : EnvRel E q Γ h ρ η) :
    SimGoal p q (StRel E q) ⟨.cut T (.mu .prd a T s0) (.xtor .cns K args T), ρ, out⟩
      ⟨.letS a' ty' (sid K) args' t fv, η, out⟩ := by
  obtain ⟨vs, vs', h1, h2, h3⟩ := hr.argVals args args' hocc hids
  have hs : Core.fsStep p ⟨.cut T (.mu .prd a T s0) (.xtor .cns K args T), ρ, out⟩ =
      .next ⟨s0, (a, .dtor K vs) :: ρ, out⟩ := by
    simp [Core.fsStep, Core.fsStepCut, codEq hp, hc, Core.fsCnsVal, Core.fsPrdVal, h1, Core.FsState.invoke,
      Core.FsState.goto]
  exact goal_next 1 _ hs (.one (step_let q h2))
    (stRel_mk ht (EnvRel.cons (b0 := ⟨a, .cns, T⟩) hr (VRel.dtor hc hd hsig (VRelL.congr hm h3)) hav)) (by omega)

theorem sim_invokeData {Γ h T K args α d sig v ty' args' ρ η out} (hc : isCodata E.codata T = false)
    (hd : declOf E T = some d) (hsig : d.xtors.find? (fun x => x.name == K) = some sig)
    (hm : sigMatch args sig.args = true) (hocc : ∀ b ∈ args, occFs Γ b = true)
    (hids : axIds args' = args.map (fun b => h b.var)) (hα : occFs Γ ⟨α, .cns, T⟩ = true) (hv : v.id = h α)
    (hr : EnvRel E q Γ h ρ η) :
    SimGoal p q (StRel E q) ⟨.cut T (.xtor .prd K args T) (.var .cns α T), ρ, out⟩
      ⟨.invoke v (sid K) ty' args', η, out⟩ := by
  obtain ⟨vs, vs', h1, h2, h3⟩ := hr.argVals args args' hocc hids
  obtain ⟨cv, cv', g1, g2, g3⟩ := hr _ hα
  obtain ⟨η', cls, rfl⟩ := g3.cns_clo hc
  obtain ⟨cs', g4, _, _, g6⟩ := applyCns g3 hc hd hsig (VRelL.congr hm h3)
    ⟨.cut T (.xtor .prd K args T) (.var .cns α T), ρ, out⟩
  have hs : Core.fsStep p ⟨.cut T (.xtor .prd K args T) (.var .cns α T), ρ, out⟩ = .next cs' := by
    simp [Core.fsStep, Core.fsStepCut, codEq hp, hc, Core.fsCnsVal, Core.fsPrdVal, h1, g1, g4]
  obtain ⟨k, as', g7, g8⟩ := g6 v ty' args' η (by rw [hv]; exact g2) h2
  exact goal_next (k + 1) as' hs g7 g8 (by omega)

theorem sim_invokeCodata {Γ h T K args x d sig v ty' args' ρ η out} (hc : isCodata E.codata T = true)
    (hd : declOf E T = some d) (hsig : d.xtors.find? (fun x => x.name == K) = some sig)
    (hm : sigMatch args sig.args = true) (hocc : ∀ b ∈ args, occFs Γ b = true)
    (hids : axIds args' = args.map (fun b => h b.var)) (hx : occFs Γ ⟨x, .prd, T⟩ = true) (hv : v.id = h x)
    (hr : EnvRel E q Γ h ρ η) :
    SimGoal p q (StRel E q) ⟨.cut T (.var .prd x T) (.xtor .cns K args T), ρ, out⟩
      ⟨.invoke v (sid K) ty' args', η, out⟩ := by
  obtain ⟨vs, vs', h1, h2, h3⟩ := hr.argVals args args' hocc hids
  obtain ⟨pv, pv', g1, g2, g3⟩ := hr _ hx
  obtain ⟨η', cls, rfl⟩ := g3.prd_clo hc
  obtain ⟨cs', g4, _, g6⟩ := applyPrd g3 hc hd hsig (VRelL.congr hm h3)
    ⟨.cut T (.var .prd x T) (.xtor .cns K args T), ρ, out⟩
  have hs : Core.fsStep p ⟨.cut T (.var .prd x T) (.xtor .cns K args T), ρ, out⟩ = .next cs' := by
    simp [Core.fsStep, Core.fsStepCut, codEq hp, hc, Core.fsCnsVal, Core.fsPrdVal, h1, g1, g4]
  obtain ⟨k, as', g7, g8⟩ := g6 v ty' args' η (by rw [hv]; exact g2) h2
  exact goal_next (k + 1) as' hs g7 g8 (by omega)

/-! ## unknown cuts -/

omit hp in
theorem sim_unkInt {Γ h x α v ty' args' ρ η out} (hx : occFs Γ ⟨x, .prd, .i64⟩ = true)
    (hα : occFs Γ ⟨α, .cns, .i64⟩ = true) (hv : v.id = h α) (hargs : axIds args' = [h x])
    (hr : EnvRel E q Γ h ρ η) :
    SimGoal p q (StRel E q) ⟨.cut .i64 (.var .prd x .i64) (.var .cns α .i64), ρ, out⟩
      ⟨.invoke v (sid retName) ty' args', η, out⟩ := by
  obtain ⟨n, _, h1, h2⟩ := hr.int hx
  obtain ⟨cv, cv', g1, g2, g3⟩ := hr _ hα
  obtain ⟨cs', η', cls, rfl, g4, _, g6⟩ := applyCnsInt g3 n
    ⟨.cut .i64 (.var .prd x .i64) (.var .cns α .i64), ρ, out⟩
  have hs : Core.fsStep p ⟨.cut .i64 (.var .prd x .i64) (.var .cns α .i64), ρ, out⟩ = .next cs' := by
    simp [Core.fsStep, Core.fsStepCut, Core.isCodata, Core.fsCnsVal, Core.fsPrdVal, h1, g1, g4]
  obtain ⟨as', g7, g8⟩ := g6 v ty' args' η (by rw [hv]; exact g2) (lookupAll_one hargs h2)
  exact goal_next 1 as' hs g7 g8 (by omega)

omit hp in
/-- the `switch` of an eta-expansion: the clause re-sends the constructor to `target` -/
theorem etaEnter {Γ h η} {d : Core.TypeDecl} {cls K sig vs' target v ty' fv out} {cv : Value}
    (hshape : EtaShape Γ h target d.xtors cls) (hsig : d.xtors.find? (fun x => x.name == K) = some sig)
    (hlen : vs'.length = sig.args.length) (hl : lookup η v.id = some (.obj (sid K) vs'))
    (ht : lookup η target = some cv) (hav : ∀ i, Avoids Γ h i → target ≠ i) :
    ∃ w ty'' args' η1, Steps q 1 ⟨.switch v ty' cls fv, η, out⟩ ⟨.invoke w (sid K) ty'' args', η1, out⟩ ∧
      lookup η1 w.id = some cv ∧ lookupAll η1 args' = some vs' := by
  obtain ⟨envC, w, ty'', envC', h1, h2, h3, h4, h5, h6⟩ := hshape K sig hsig
  obtain ⟨e, he⟩ := bindParams_some envC vs' (by rw [h3, hlen])
  have hkeys := bindParams_keys he
  refine ⟨w, ty'', envC', e ++ η, .one (step_switch q hl h1 he), ?_, ?_⟩
  · rw [h2, lookup_append_of_not_mem]
    · exact ht
    · rw [hkeys]; intro hm; exact hav _ (h6 _ hm) rfl
  · have := lookupAll_bindParams envC envC' vs' e η he h4 h5 [] (by simp)
    simpa using this

theorem sim_unkData {Γ h T x α d v ty' cls fv ρ η out} (hc : isCodata E.codata T = false)
    (hd : declOf E T = some d) (hx : occFs Γ ⟨x, .prd, T⟩ = true) (hα : occFs Γ ⟨α, .cns, T⟩ = true)
    (hv : v.id = h x) (hshape : EtaShape Γ h (h α) d.xtors cls) (hr : EnvRel E q Γ h ρ η) :
    SimGoal p q (StRel E q) ⟨.cut T (.var .prd x T) (.var .cns α T), ρ, out⟩ ⟨.switch v ty' cls fv, η, out⟩ := by
  obtain ⟨pv, pv', h1, h2, h3⟩ := hr _ hx
  obtain ⟨K, sig, vs, vs', rfl, rfl, hsig, hvs⟩ := h3.inv_con hc hd
  obtain ⟨cv, cv', g1, g2, g3⟩ := hr _ hα
  obtain ⟨η', cls', rfl⟩ := g3.cns_clo hc
  obtain ⟨cs', g4, _, _, g6⟩ := applyCns g3 hc hd hsig hvs ⟨.cut T (.var .prd x T) (.var .cns α T), ρ, out⟩
  have hs : Core.fsStep p ⟨.cut T (.var .prd x T) (.var .cns α T), ρ, out⟩ = .next cs' := by
    simp [Core.fsStep, Core.fsStepCut, codEq hp, hc, Core.fsCnsVal, Core.fsPrdVal, h1, g1, g4]
  obtain ⟨w, ty'', args', η1, e1, e2, e3⟩ := etaEnter (out := out) (ty' := ty') (fv := fv) hshape hsig hvs.length.2
    (by rw [hv]; exact h2) g2 (fun i hi e => hi _ hα e)
  obtain ⟨k, as', g7, g8⟩ := g6 w ty'' args' η1 e2 e3
  exact goal_next (1 + (k + 1)) as' hs (e1.trans g7) g8 (by omega)

theorem sim_unkCodata {Γ h T x α d v ty' cls fv ρ η out} (hc : isCodata E.codata T = true)
    (hd : declOf E T = some d) (hx : occFs Γ ⟨x, .prd, T⟩ = true) (hα : occFs Γ ⟨α, .cns, T⟩ = true)
    (hv : v.id = h α) (hshape : EtaShape Γ h (h x) d.xtors cls) (hr : EnvRel E q Γ h ρ η) :
    SimGoal p q (StRel E q) ⟨.cut T (.var .prd x T) (.var .cns α T), ρ, out⟩ ⟨.switch v ty' cls fv, η, out⟩ := by
  obtain ⟨cv, cv', h1, h2, h3⟩ := hr _ hα
  obtain ⟨d2, K, sig, vs, vs', rfl, rfl, hd2, hsig, hvs⟩ := h3.inv_dtor hc
  rw [hd] at hd2; cases hd2
  obtain ⟨pv, pv', g1, g2, g3⟩ := hr _ hx
  obtain ⟨η', cls', rfl⟩ := g3.prd_clo hc
  obtain ⟨cs', g4, _, g6⟩ := applyPrd g3 hc hd hsig hvs ⟨.cut T (.var .prd x T) (.var .cns α T), ρ, out⟩
  have hs : Core.fsStep p ⟨.cut T (.var .prd x T) (.var .cns α T), ρ, out⟩ = .next cs' := by
    simp [Core.fsStep, Core.fsStepCut, codEq hp, hc, Core.fsCnsVal, Core.fsPrdVal, h1, g1, g4]
  obtain ⟨w, ty'', args', η1, e1, e2, e3⟩ := etaEnter (out := out) (ty' := ty') (fv := fv) hshape hsig hvs.length.2
    (by rw [hv]; exact h2) g2 (fun i hi e => hi _ hx e)
  obtain ⟨k, as', g7, g8⟩ := g6 w ty'' args' η1 e2 e3
  exact goal_next (1 + (k + 1)) as' hs (e1.trans g7) g8 (by omega)

/-! ## critical pairs -/

omit hp in
theorem sim_critInt {Γ h a s1 x s2 a' x' ty' t2 t1 bx fc fn ρ η out} (ha : Avoids Γ h a'.id)
    (hx : Avoids Γ h x'.id) (hbx : bx.var = x')
    (ht2 : Tr E q (⟨x, .prd, .i64⟩ :: Γ) (h.set x x'.id) s2 t2)
    (ht1 : Tr E q (⟨a, .cns, .i64⟩ :: Γ) (h.set a a'.id) s1 t1) (hr : EnvRel E q Γ h ρ η) :
    SimGoal p q (StRel E q) ⟨.cut .i64 (.mu .prd a .i64 s1) (.mu .cns x .i64 s2), ρ, out⟩
      ⟨.create a' ty' none (.cons (sid retName) [bx] t2 .nil) t1 fc fn, η, out⟩ := by
  have hs : Core.fsStep p ⟨.cut .i64 (.mu .prd a .i64 s1) (.mu .cns x .i64 s2), ρ, out⟩ =
      .next ⟨s1, (a, .mutilde ρ x s2) :: ρ, out⟩ := by
    simp [Core.fsStep, Core.fsStepCut, Core.isCodata, Core.fsCnsVal, Core.FsState.goto]
  obtain ⟨val, val', f1, f2, f3⟩ := skolem_of_envRel hr
  subst hbx
  have hv : VRel E q .cns .i64 (.mutilde ρ x s2) (.clo η (.cons (sid retName) [bx] t2 .nil)) :=
    VRel.mutildeInt val val' f1 f2 f3 (by simp [AxCut.Named.findClause]) hx ht2
  exact goal_next 1 _ hs (.one (step_create q _ _ _ _ _ _ _ _))
    (stRel_mk ht1 (EnvRel.cons (b0 := ⟨a, .cns, .i64⟩) hr hv ha)) (by omega)

theorem sim_critData {Γ h T a s1 x s2 d a' ty' cls t1 fc fn ρ η out} (hc : isCodata E.codata T = false)
    (hd : declOf E T = some d) (ha : Avoids Γ h a'.id) (hshape : CritShape Γ h d.xtors cls)
    (htr : CritTr E q Γ h ⟨x, .prd, T⟩ s2 cls)
    (ht1 : Tr E q (⟨a, .cns, T⟩ :: Γ) (h.set a a'.id) s1 t1) (hr : EnvRel E q Γ h ρ η) :
    SimGoal p q (StRel E q) ⟨.cut T (.mu .prd a T s1) (.mu .cns x T s2), ρ, out⟩
      ⟨.create a' ty' none cls t1 fc fn, η, out⟩ := by
  have hs : Core.fsStep p ⟨.cut T (.mu .prd a T s1) (.mu .cns x T s2), ρ, out⟩ =
      .next ⟨s1, (a, .mutilde ρ x s2) :: ρ, out⟩ := by
    simp [Core.fsStep, Core.fsStepCut, codEq hp, hc, Core.fsCnsVal, Core.FsState.goto]
  obtain ⟨val, val', f1, f2, f3⟩ := skolem_of_envRel hr
  have hv : VRel E q .cns T (.mutilde ρ x s2) (.clo η cls) :=
    VRel.mutildeData val val' f1 f2 f3 hc hd hshape htr
  exact goal_next 1 _ hs (.one (step_create q _ _ _ _ _ _ _ _))
    (stRel_mk ht1 (EnvRel.cons (b0 := ⟨a, .cns, T⟩) hr hv ha)) (by omega)

theorem sim_critCodata {Γ h T a s1 x s2 d x' ty' cls t2 fc fn ρ η out} (hc : isCodata E.codata T = true)
    (hd : declOf E T = some d) (hx : Avoids Γ h x'.id) (hshape : CritShape Γ h d.xtors cls)
    (htr : CritTr E q Γ h ⟨a, .cns, T⟩ s1 cls)
    (ht2 : Tr E q (⟨x, .prd, T⟩ :: Γ) (h.set x x'.id) s2 t2) (hr : EnvRel E q Γ h ρ η) :
    SimGoal p q (StRel E q) ⟨.cut T (.mu .prd a T s1) (.mu .cns x T s2), ρ, out⟩
      ⟨.create x' ty' none cls t2 fc fn, η, out⟩ := by
  have hs : Core.fsStep p ⟨.cut T (.mu .prd a T s1) (.mu .cns x T s2), ρ, out⟩ =
      .next ⟨s2, (x, .thunk ρ a s1) :: ρ, out⟩ := by
    simp [Core.fsStep, Core.fsStepCut, codEq hp, hc, Core.fsCnsVal, Core.fsPrdVal, Core.FsState.goto]
  obtain ⟨val, val', f1, f2, f3⟩ := skolem_of_envRel hr
  have hv : VRel E q .prd T (.thunk ρ a s1) (.clo η cls) :=
    VRel.thunk val val' f1 f2 f3 hc hd hshape htr
  exact goal_next 1 _ hs (.one (step_create q _ _ _ _ _ _ _ _))
    (stRel_mk ht2 (EnvRel.cons (b0 := ⟨x, .prd, T⟩) hr hv hx)) (by omega)

/-! ## switch, create -/

theorem sim_switchData {Γ h T x cl d v ty' cls fv ρ η out} (hc : isCodata E.codata T = false)
    (hd : declOf E T = some d) (hx : occFs Γ ⟨x, .prd, T⟩ = true) (hv : v.id = h x)
    (hshape : ClausesShape Γ h d.xtors cl cls) (htr : ClausesTr E q Γ h cl cls) (hr : EnvRel E q Γ h ρ η) :
    SimGoal p q (StRel E q) ⟨.cut T (.var .prd x T) (.xcase .cns T cl), ρ, out⟩ ⟨.switch v ty' cls fv, η, out⟩ := by
  obtain ⟨pv, pv', h1, h2, h3⟩ := hr _ hx
  obtain ⟨K, sig, vs, vs', rfl, rfl, hsig, hvs⟩ := h3.inv_con hc hd
  obtain ⟨ctx, body, ctx', body', ρ'', e, f1, f2, f3, f4, f5⟩ := clauseEnter (out := out) hr hshape htr hsig hvs
  have hs : Core.fsStep p ⟨.cut T (.var .prd x T) (.xcase .cns T cl), ρ, out⟩ = .next ⟨body, ρ'', out⟩ := by
    simp [Core.fsStep, Core.fsStepCut, codEq hp, hc, Core.fsCnsVal, Core.fsPrdVal, h1, Core.FsState.pass,
      Core.FsState.select, f1, f3, Core.FsState.goto]
  exact goal_next 1 _ hs (.one (step_switch q (by rw [hv]; exact h2) f2 f4)) f5 (by omega)

theorem sim_switchCodata {Γ h T α cl d v ty' cls fv ρ η out} (hc : isCodata E.codata T = true)
    (hd : declOf E T = some d) (hα : occFs Γ ⟨α, .cns, T⟩ = true) (hv : v.id = h α)
    (hshape : ClausesShape Γ h d.xtors cl cls) (htr : ClausesTr E q Γ h cl cls) (hr : EnvRel E q Γ h ρ η) :
    SimGoal p q (StRel E q) ⟨.cut T (.xcase .prd T cl) (.var .cns α T), ρ, out⟩ ⟨.switch v ty' cls fv, η, out⟩ := by
  obtain ⟨cv, cv', h1, h2, h3⟩ := hr _ hα
  obtain ⟨d2, K, sig, vs, vs', rfl, rfl, hd2, hsig, hvs⟩ := h3.inv_dtor hc
  rw [hd] at hd2; cases hd2
  obtain ⟨ctx, body, ctx', body', ρ'', e, f1, f2, f3, f4, f5⟩ := clauseEnter (out := out) hr hshape htr hsig hvs
  have hs : Core.fsStep p ⟨.cut T (.xcase .prd T cl) (.var .cns α T), ρ, out⟩ = .next ⟨body, ρ'', out⟩ := by
    simp [Core.fsStep, Core.fsStepCut, codEq hp, hc, Core.fsCnsVal, Core.fsPrdVal, h1, Core.FsState.invoke,
      Core.FsState.select, f1, f3, Core.FsState.goto]
  exact goal_next 1 _ hs (.one (step_switch q (by rw [hv]; exact h2) f2 f4)) f5 (by omega)

theorem sim_createData {Γ h T a s0 cl d a' ty' cls t fc fn ρ η out} (hc : isCodata E.codata T = false)
    (hd : declOf E T = some d) (ha : Avoids Γ h a'.id) (hshape : ClausesShape Γ h d.xtors cl cls)
    (htr : ClausesTr E q Γ h cl cls) (ht : Tr E q (⟨a, .cns, T⟩ :: Γ) (h.set a a'.id) s0 t)
    (hr : EnvRel E q Γ h ρ η) :
    SimGoal p q (StRel E q) ⟨.cut T (.mu .prd a T s0) (.xcase .cns T cl), ρ, out⟩
      ⟨.create a' ty' none cls t fc fn, η, out⟩ := by
  have hs : Core.fsStep p ⟨.cut T (.mu .prd a T s0) (.xcase .cns T cl), ρ, out⟩ =
      .next ⟨s0, (a, .case ρ cl) :: ρ, out⟩ := by
    simp [Core.fsStep, Core.fsStepCut, codEq hp, hc, Core.fsCnsVal, Core.FsState.goto]
  obtain ⟨val, val', f1, f2, f3⟩ := skolem_of_envRel hr
  have hv : VRel E q .cns T (.case ρ cl) (.clo η cls) := VRel.caseClo val val' f1 f2 f3 hc hd hshape htr
  exact goal_next 1 _ hs (.one (step_create q _ _ _ _ _ _ _ _))
    (stRel_mk ht (EnvRel.cons (b0 := ⟨a, .cns, T⟩) hr hv ha)) (by omega)

theorem sim_createCodata {Γ h T x s0 cl d x' ty' cls t fc fn ρ η out} (hc : isCodata E.codata T = true)
    (hd : declOf E T = some d) (hx : Avoids Γ h x'.id) (hshape : ClausesShape Γ h d.xtors cl cls)
    (htr : ClausesTr E q Γ h cl cls) (ht : Tr E q (⟨x, .prd, T⟩ :: Γ) (h.set x x'.id) s0 t)
    (hr : EnvRel E q Γ h ρ η) :
    SimGoal p q (StRel E q) ⟨.cut T (.xcase .prd T cl) (.mu .cns x T s0), ρ, out⟩
      ⟨.create x' ty' none cls t fc fn, η, out⟩ := by
  have hs : Core.fsStep p ⟨.cut T (.xcase .prd T cl) (.mu .cns x T s0), ρ, out⟩ =
      .next ⟨s0, (x, .cocase ρ cl) :: ρ, out⟩ := by
    simp [Core.fsStep, Core.fsStepCut, codEq hp, hc, Core.fsCnsVal, Core.fsPrdVal, Core.FsState.goto]
  obtain ⟨val, val', f1, f2, f3⟩ := skolem_of_envRel hr
  have hv : VRel E q .prd T (.cocase ρ cl) (.clo η cls) := VRel.cocaseClo val val' f1 f2 f3 hc hd hshape htr
  exact goal_next 1 _ hs (.one (step_create q _ _ _ _ _ _ _ _))
    (stRel_mk ht (EnvRel.cons (b0 := ⟨x, .prd, T⟩) hr hv hx)) (by omega)

end rules

/-! ## lifted statements -/

theorem lookupAll_total {η : AxCut.Named.Env} : ∀ (args' : AxCut.Ctx),
    (∀ i ∈ axIds args', ∃ v, lookup η i = some v) →
    ∃ vs', lookupAll η args' = some vs' ∧ vs'.length = args'.length ∧
      ∀ (i : Nat) j, (axIds args')[i]? = some j → ∃ v, vs'[i]? = some v ∧ lookup η j = some v
  | [], _ => ⟨[], rfl, rfl, by simp [axIds]⟩
  | b :: bs, h => by
    obtain ⟨v, hv⟩ := h b.var.id (by simp [axIds])
    obtain ⟨vs, h1, h2, h3⟩ := lookupAll_total bs (fun i hi => h i (by simp [axIds] at hi ⊢; exact .inr hi))
    refine ⟨v :: vs, by simp [lookupAll, hv, h1], by simp [h2], ?_⟩
    intro i j hij
    cases i with
    | zero =>
      simp only [axIds, List.map_cons, List.getElem?_cons_zero, Option.some.injEq] at hij
      exact ⟨v, by simp, by rw [← hij]; exact hv⟩
    | succ i =>
      simp only [axIds, List.map_cons, List.getElem?_cons_succ] at hij
      obtain ⟨w, hw1, hw2⟩ := h3 i j hij
      exact ⟨w, by simpa using hw1, hw2⟩

theorem lookup_bindParams : ∀ (ctx : AxCut.Ctx) (vs : List Value) (e : AxCut.Named.Env),
    bindParams ctx vs = some e → (axIds ctx).Nodup →
    ∀ (i : Nat) j v, (axIds ctx)[i]? = some j → vs[i]? = some v → lookup e j = some v
  | [], [], e, h, _, i, j, v, hi, _ => by simp [axIds] at hi
  | [], _ :: _, e, h, _, _, _, _, _, _ => by simp [bindParams] at h
  | _ :: _, [], e, h, _, _, _, _, _, _ => by simp [bindParams] at h
  | b :: bs, w :: ws, e, h, hnd, i, j, v, hi, hv => by
    simp only [bindParams] at h
    split at h
    · rename_i e' he
      simp only [Option.some.injEq] at h
      subst h
      simp only [axIds, List.map_cons, List.nodup_cons] at hnd
      cases i with
      | zero =>
        simp only [axIds, List.map_cons, List.getElem?_cons_zero, Option.some.injEq] at hi hv
        subst hi; subst hv
        exact lookup_cons_self _ _ _
      | succ i =>
        simp only [axIds, List.map_cons, List.getElem?_cons_succ] at hi hv
        have hj : j ∈ axIds bs := List.mem_of_getElem? hi
        rw [lookup_cons_ne _ _ (fun e => hnd.1 (by rw [← e]; exact hj))]
        exact lookup_bindParams bs ws e' he hnd.2 i j v hi hv
    · cases h

theorem sim_lifted {Γ h s label args' d Γ' h' ρ η out}
    (hfd : findDef q label = some d) (hsub : ∀ b, occFs Γ' b = true → occFs Γ b = true)
    (hlen : d.ctx.length = args'.length) (hnd : (axIds d.ctx).Nodup)
    (hargs : ∀ i ∈ axIds args', ∃ b, occFs Γ b = true ∧ h b.var = i)
    (hcov : ∀ b, occFs Γ' b = true →
      ∃ i : Nat, (axIds args')[i]? = some (h b.var) ∧ (axIds d.ctx)[i]? = some (h' b.var))
    (hr : EnvRel E q Γ h ρ η)
    (ih : ∀ ρ η out, EnvRel E q Γ' h' ρ η → SimGoal p q (StRel E q) ⟨s, ρ, out⟩ ⟨d.body, η, out⟩) :
    SimGoal p q (StRel E q) ⟨s, ρ, out⟩ ⟨.call label args', η, out⟩ := by
  obtain ⟨vs', h1, h2, h3⟩ := lookupAll_total (η := η) args' (by
    intro i hi
    obtain ⟨b, hb, rfl⟩ := hargs i hi
    obtain ⟨_, v', _, hv', _⟩ := hr b hb
    exact ⟨v', hv'⟩)
  obtain ⟨e, he⟩ := bindParams_some d.ctx vs' (by rw [hlen, h2])
  refine prepend_step (step_call q hfd h1 he) (ih ρ e out ?_)
  intro b hb
  obtain ⟨v, v', f1, f2, f3⟩ := hr b (hsub b hb)
  obtain ⟨i, g1, g2⟩ := hcov b hb
  obtain ⟨w, g3, g4⟩ := h3 i _ g1
  rw [f2] at g4; cases g4
  exact ⟨v, v', f1, lookup_bindParams d.ctx vs' e he hnd i _ _ g2 g3, f3⟩

/-! ## the simulation -/

/-- from related states, one step of the Core machine is matched by the AxCut machine -/
theorem sim_tr (hp : ProgRel E q p) {Γ h s t} (htr : Tr E q Γ h s t) :
    ∀ ρ η out, EnvRel E q Γ h ρ η → SimGoal p q (StRel E q) ⟨s, ρ, out⟩ ⟨t, η, out⟩ := by
  induction htr with
  | exit ha hv => intro ρ η out hr; exact sim_exit ha hv hr
  | print ha hv ht _ => intro ρ η out hr; exact sim_print ha hv ht hr
  | ifz ha hv ht he _ _ => intro ρ η out hr; exact sim_ifz ha hv ht he hr
  | ifc ha hv hb hw ht he _ _ => intro ρ η out hr; exact sim_ifc ha hv hb hw ht he hr
  | call hs hm hocc hids => intro ρ η out hr; exact sim_call hp hs hm hocc hids hr
  | lifted hfd hsub hlen hnd hargs hcov _ ih =>
    intro ρ η out hr; exact sim_lifted hfd hsub hlen hnd hargs hcov hr ih
  | renL hx ht _ => intro ρ η out hr; exact sim_renL hp hx ht hr
  | renR hx ht _ => intro ρ η out hr; exact sim_renR hp hx ht hr
  | knownData hc hd hsig hm hocc hf hm2 ht _ =>
    intro ρ η out hr; exact sim_knownData hp hc hd hsig hm hocc hf hm2 ht hr
  | knownCodata hc hd hsig hm hocc hf hm2 ht _ =>
    intro ρ η out hr; exact sim_knownCodata hp hc hd hsig hm hocc hf hm2 ht hr
  | unkInt hx hα hv hargs => intro ρ η out hr; exact sim_unkInt hx hα hv hargs hr
  | unkData hc hd hx hα hv hshape => intro ρ η out hr; exact sim_unkData hp hc hd hx hα hv hshape hr
  | unkCodata hc hd hx hα hv hshape => intro ρ η out hr; exact sim_unkCodata hp hc hd hx hα hv hshape hr
  | critInt ha hx hbx ht2 ht1 _ _ => intro ρ η out hr; exact sim_critInt ha hx hbx ht2 ht1 hr
  | critData hc hd ha hshape htr ht1 _ _ =>
    intro ρ η out hr; exact sim_critData hp hc hd ha hshape htr ht1 hr
  | critCodata hc hd hx hshape htr ht2 _ _ =>
    intro ρ η out hr; exact sim_critCodata hp hc hd hx hshape htr ht2 hr
  | litMu hav ht _ => intro ρ η out hr; exact sim_litMu hav ht hr
  | litVar hα hw hv hargs => intro ρ η out hr; exact sim_litVar hα hw hv hargs hr
  | opMu ha hb hva hvb hav ht _ => intro ρ η out hr; exact sim_opMu ha hb hva hvb hav ht hr
  | opVar ha hb hva hvb hα hw hv hargs => intro ρ η out hr; exact sim_opVar ha hb hva hvb hα hw hv hargs hr
  | letData hc hd hsig hm hocc hids hav ht _ =>
    intro ρ η out hr; exact sim_letData hp hc hd hsig hm hocc hids hav ht hr
  | letCodata hc hd hsig hm hocc hids hav ht _ =>
    intro ρ η out hr; exact sim_letCodata hp hc hd hsig hm hocc hids hav ht hr
  | invokeData hc hd hsig hm hocc hids hα hv =>
    intro ρ η out hr; exact sim_invokeData hp hc hd hsig hm hocc hids hα hv hr
  | invokeCodata hc hd hsig hm hocc hids hx hv =>
    intro ρ η out hr; exact sim_invokeCodata hp hc hd hsig hm hocc hids hx hv hr
  | switchData hc hd hx hv hshape htr _ => intro ρ η out hr; exact sim_switchData hp hc hd hx hv hshape htr hr
  | switchCodata hc hd hα hv hshape htr _ =>
    intro ρ η out hr; exact sim_switchCodata hp hc hd hα hv hshape htr hr
  | createData hc hd ha hshape htr ht _ _ =>
    intro ρ η out hr; exact sim_createData hp hc hd ha hshape htr ht hr
  | createCodata hc hd hx hshape htr ht _ _ =>
    intro ρ η out hr; exact sim_createCodata hp hc hd hx hshape htr ht hr

/-- the simulation in the form used by `SemRun.lean` -/
theorem sim_stRel (hp : ProgRel E q p) (cs : Core.FsState) (as : State) (h : StRel E q cs as) :
    SimGoal p q (StRel E q) cs as := by
  obtain ⟨Γ, hm, htr, hr, hout⟩ := h
  obtain ⟨s, ρ, out⟩ := cs
  obtain ⟨t, η, out'⟩ := as
  simp only at htr hr hout
  subst hout
  exact sim_tr hp htr ρ η out hr

end Scc.Core2AxCut.Sem
