/-
  Scc.Core2AxCut.FsTyping — a decidable well-typedness predicate on focused Core programs (dump S3),
  `wtFsCheck`, strong enough to exclude every panic site of core2axcut (theorem `C04_no_panic`).
  This is a spec (not transcribed from Rust; it mirrors the typing rules of
  core_lang/src/traits/typed.rs restricted to what the shapes of cuts need).  Core imports only.

  The predicate is environment-free ("shape typing"): it checks
  * every cut `⟨p | c⟩ : T`: `T` is `i64` or a declared type, `p` is a producer of type `T` and `c` a
    consumer of type `T` (variables and (tilde-)mu carry `T` as annotation, literals and operations
    are producers of `i64`, a constructor is a producer of its data type, a destructor a consumer of
    its codata type, `case` is a consumer of a data type, `cocase` a producer of a codata type);
  * constructor / destructor arguments agree with the declared signature in length, chirality, type;
  * (co)cases have exactly one clause per declared xtor, in declaration order, whose parameter
    contexts agree with the signature in length, chirality and type;
  * calls agree with the parameter list of the callee in length, chirality and type;
  * the chirality flags `pc` of the Lean representation agree with the position (producer/consumer);
  * no user type is called `_Cont`.
  It does not check that variables are bound (scoping); id-substitution preserves it.
-/
import Scc.Core2AxCut.Model

namespace Scc.Core2AxCut

open Scc

/-- declarations and signatures a statement is checked against -/
structure TEnv where
  data : List Core.TypeDecl
  codata : List Core.TypeDecl
  sigs : List (Core.Ident × Core.Ctx)

/-- the declaration of a type, chosen as the Rust does (`is_codata` first) -/
def declOf (E : TEnv) : Core.Ty → Option Core.TypeDecl
  | .i64 => none
  | .decl n =>
    if isCodata E.codata (.decl n) then E.codata.find? (fun d => d.name == n)
    else E.data.find? (fun d => d.name == n)

def tyOk (E : TEnv) : Core.Ty → Bool
  | .i64 => true
  | t => (declOf E t).isSome

/-- two contexts agree in length, chirality and type (names are free) -/
def sigMatch : Core.Ctx → Core.Ctx → Bool
  | [], [] => true
  | a :: as, s :: ss => a.chi == s.chi && a.ty == s.ty && sigMatch as ss
  | _, _ => false

def findSig (sigs : List (Core.Ident × Core.Ctx)) (f : Core.Ident) : Option Core.Ctx :=
  match sigs.find? (fun p => p.1 == f) with
  | some p => some p.2
  | none => none

mutual
  /-- `wtTerm E side T t`: `t` is a producer (`side = prd`) / consumer (`side = cns`) of type `T` -/
  def wtTerm (E : TEnv) (side : Core.PC) (T : Core.Ty) : Core.FsTerm → Bool
    | .var pc _ ty => pc == side && ty == T
    | .lit _ => side == .prd && T == .i64
    | .op _ _ _ => side == .prd && T == .i64
    | .mu pc _ ty s => pc == side && ty == T && wtStmt E s
    | .xtor pc name args ty =>
      pc == side && ty == T &&
      (match declOf E T with
       | some d =>
         (isCodata E.codata T == (side == .cns)) &&
         (match d.xtors.find? (fun x => x.name == name) with
          | some x => sigMatch args x.args
          | none => false)
       | none => false)
    | .xcase pc ty cs =>
      pc == side && ty == T &&
      (match declOf E T with
       | some d => (isCodata E.codata T == (side == .prd)) && wtClauses E d.xtors cs
       | none => false)
  def wtClauses (E : TEnv) : List Core.XtorSig → Core.FsClauses → Bool
    | [], .nil => true
    | x :: xs, .cons tag ctx body rest =>
      tag == x.name && sigMatch ctx x.args && wtStmt E body && wtClauses E xs rest
    | _, _ => false
  def wtStmt (E : TEnv) : Core.FsStmt → Bool
    | .cut ty p c => tyOk E ty && wtTerm E .prd ty p && wtTerm E .cns ty c
    | .ifc _ _ _ t e => wtStmt E t && wtStmt E e
    | .print _ _ n => wtStmt E n
    | .call f args =>
      (match findSig E.sigs f with
       | some ps => sigMatch args ps
       | none => false)
    | .exit _ => true
end

def progTEnv (p : Core.FsProg) : TEnv :=
  ⟨p.dataTypes ++ [contInt], p.codataTypes, p.defs.map fun d => (d.name, d.ctx)⟩

def noContName (p : Core.FsProg) : Bool :=
  !(p.dataTypes.any (fun t => t.name == contInt.name)) && !(p.codataTypes.any (fun t => t.name == contInt.name))

/-- the decidable well-typedness predicate of C04 / C12 on S3 -/
def wtFsCheck (p : Core.FsProg) : Bool :=
  noContName p && p.defs.all (fun d => wtStmt (progTEnv p) d.body)

/-- input: text of an S3 dump; output `OK` | `ILL` | `ERR ..` -/
def checkFsLine (dumpS3 : String) : String :=
  match Sexp.parse dumpS3 with
  | none => "ERR sexp"
  | some sx =>
    match Core.readFsProg (dumpS3.length + 10) sx with
    | none => "ERR read"
    | some p =>
      if wtFsCheck p then "OK"
      else
        match p.defs.find? (fun d => !(wtStmt (progTEnv p) d.body)) with
        | some d => "ILL definition " ++ d.name.print
        | none => "ILL _Cont used as a type name"


/-! ## scoped typing (adds: every variable occurrence is bound with its annotated chirality and type)

Environments are lists of bindings, newest in front, looked up by id (first hit), exactly as in
`Scc/AxCut/TypingNamed.lean`.  `wtFsScopedCheck` is the hypothesis of the typing-preservation
statement `C04_shrink_typed_statement`; it is not needed for `C04_no_panic`. -/

def lookupFs (Γ : Core.Ctx) (i : Nat) : Option Core.Binding := Γ.find? (fun b => b.var.id == i)

def occFs (Γ : Core.Ctx) (b : Core.Binding) : Bool := lookupFs Γ b.var.id == some b

mutual
  def scTerm (Γ : Core.Ctx) : Core.FsTerm → Bool
    | .var pc v ty => occFs Γ ⟨v, pc, ty⟩
    | .lit _ => true
    | .op a _ b => occFs Γ ⟨a, .prd, .i64⟩ && occFs Γ ⟨b, .prd, .i64⟩
    | .mu pc v ty s => scStmt (⟨v, flipPC pc, ty⟩ :: Γ) s
    | .xtor _ _ args _ => args.all (occFs Γ)
    | .xcase _ _ cs => scClauses Γ cs
  def scClauses (Γ : Core.Ctx) : Core.FsClauses → Bool
    | .nil => true
    | .cons _ ctx body rest => scStmt (ctx ++ Γ) body && scClauses Γ rest
  def scStmt (Γ : Core.Ctx) : Core.FsStmt → Bool
    | .cut _ p c => scTerm Γ p && scTerm Γ c
    | .ifc _ a b t e =>
      occFs Γ ⟨a, .prd, .i64⟩ && (match b with | none => true | some b => occFs Γ ⟨b, .prd, .i64⟩) &&
      scStmt Γ t && scStmt Γ e
    | .print _ a n => occFs Γ ⟨a, .prd, .i64⟩ && scStmt Γ n
    | .call _ args => args.all (occFs Γ)
    | .exit a => occFs Γ ⟨a, .prd, .i64⟩
end

/-- shape typing plus scoping -/
def wtFsScopedCheck (p : Core.FsProg) : Bool :=
  wtFsCheck p && p.defs.all (fun d => scStmt d.ctx d.body)

end Scc.Core2AxCut
