/-
  Scc.Core2AxCut.SemFv — proof file for the semantic part of C04 (lifting): free variables, scoping
  and renaming of focused Core statements.
  * the free typed variables `fvStmt` of a well-scoped statement are in scope (`sc_fv`);
  * scoping only depends on the free variables (`sc_strengthen`);
  * renaming by a function that is the identity on binders and whose images of the variables in scope
    avoid the binder ids is capture-free: the free variables of `renStmt f s` are exactly the images of
    the free variables of `s` (`fv_ren_back`, `fv_ren_fwd`); binders are not renamed (`bindersStmt_ren`).
-/
import Scc.Core2AxCut.SemRen

namespace Scc.Core2AxCut.Sem

open Scc Scc.Core2AxCut

/-! ## lookups in appended contexts -/

theorem lookupFs_append (Δ Γ : Core.Ctx) (i : Nat) : lookupFs (Δ ++ Γ) i = (lookupFs Δ i).or (lookupFs Γ i) := by
  simp [lookupFs, List.find?_append]

theorem occFs_append_iff {Δ Γ : Core.Ctx} {b : Core.Binding} :
    occFs (Δ ++ Γ) b = true ↔ lookupFs Δ b.var.id = some b ∨ (lookupFs Δ b.var.id = none ∧ occFs Γ b = true) := by
  simp only [occFs, lookupFs_append]
  cases h : lookupFs Δ b.var.id with
  | none => simp
  | some c => simp

theorem lookupFs_none_not_mem {Δ : Core.Ctx} {b : Core.Binding} (h : lookupFs Δ b.var.id = none) : b ∉ Δ := by
  intro hm
  simp only [lookupFs, List.find?_eq_none] at h
  exact h b hm (by simp)

theorem lookupFs_some_mem {Δ : Core.Ctx} {b : Core.Binding} {i} (h : lookupFs Δ i = some b) : b ∈ Δ :=
  List.mem_of_find?_eq_some h

/-! ## binders are not renamed -/

mutual
  theorem bindersTerm_ren (f) : ∀ t, bindersTerm (renTerm f t) = bindersTerm t
    | .var _ _ _ => rfl
    | .lit _ => rfl
    | .op _ _ _ => rfl
    | .mu _ _ _ s => by simp [renTerm, bindersTerm, bindersStmt_ren f s]
    | .xtor _ _ _ _ => rfl
    | .xcase _ _ cs => by simp [renTerm, bindersTerm, bindersClauses_ren f cs]
  theorem bindersClauses_ren (f) : ∀ cs, bindersClauses (renClauses f cs) = bindersClauses cs
    | .nil => rfl
    | .cons _ _ b r => by simp [renClauses, bindersClauses, bindersStmt_ren f b, bindersClauses_ren f r]
  theorem bindersStmt_ren (f) : ∀ s, bindersStmt (renStmt f s) = bindersStmt s
    | .cut _ p c => by simp [renStmt, bindersStmt, bindersTerm_ren f p, bindersTerm_ren f c]
    | .ifc _ _ _ t e => by simp [renStmt, bindersStmt, bindersStmt_ren f t, bindersStmt_ren f e]
    | .print _ _ n => by simp [renStmt, bindersStmt, bindersStmt_ren f n]
    | .call _ _ => rfl
    | .exit _ => rfl
end

/-! ## free variables of well-scoped statements are in scope -/

mutual
  theorem sc_fvTerm : ∀ (t : Core.FsTerm) (Γ : Core.Ctx), scTerm Γ t = true → ∀ b ∈ fvTerm t, occFs Γ b = true
    | .var _ _ _, Γ, h, b, hb => by
      simp only [fvTerm, List.mem_singleton] at hb; subst hb; simpa [scTerm] using h
    | .lit _, _, _, b, hb => by simp [fvTerm] at hb
    | .op _ _ _, Γ, h, b, hb => by
      simp only [scTerm, Bool.and_eq_true] at h
      simp only [fvTerm, List.mem_cons, List.not_mem_nil, or_false] at hb
      rcases hb with rfl | rfl
      · exact h.1
      · exact h.2
    | .mu pc v ty s, Γ, h, b, hb => by
      simp only [scTerm] at h
      simp only [fvTerm, List.mem_filter, decide_eq_true_eq] at hb
      rcases occFs_cons (sc_fvStmt s _ h b hb.1) with e | ⟨_, h'⟩
      · exact absurd e hb.2
      · exact h'
    | .xtor _ _ args _, Γ, h, b, hb => by
      simp only [scTerm, List.all_eq_true] at h
      exact h b hb
    | .xcase _ _ cs, Γ, h, b, hb => sc_fvClauses cs Γ (by simpa [scTerm] using h) b hb
  theorem sc_fvClauses : ∀ (cs : Core.FsClauses) (Γ : Core.Ctx), scClauses Γ cs = true →
      ∀ b ∈ fvClauses cs, occFs Γ b = true
    | .nil, _, _, b, hb => by simp [fvClauses] at hb
    | .cons _ ctx body rest, Γ, h, b, hb => by
      simp only [scClauses, Bool.and_eq_true] at h
      simp only [fvClauses, List.mem_append, List.mem_filter, notIn_iff] at hb
      rcases hb with ⟨hb1, hb2⟩ | hb
      · rcases occFs_append_iff.mp (sc_fvStmt body _ h.1 b hb1) with h' | ⟨_, h'⟩
        · exact absurd (lookupFs_some_mem h') hb2
        · exact h'
      · exact sc_fvClauses rest Γ h.2 b hb
  theorem sc_fvStmt : ∀ (s : Core.FsStmt) (Γ : Core.Ctx), scStmt Γ s = true → ∀ b ∈ fvStmt s, occFs Γ b = true
    | .cut _ p c, Γ, h, b, hb => by
      simp only [scStmt, Bool.and_eq_true] at h
      simp only [fvStmt, List.mem_append] at hb
      rcases hb with hb | hb
      · exact sc_fvTerm p Γ h.1 b hb
      · exact sc_fvTerm c Γ h.2 b hb
    | .ifc _ a none t e, Γ, h, b, hb => by
      simp only [scStmt, Bool.and_eq_true] at h
      simp only [fvStmt, List.mem_cons, List.mem_append] at hb
      rcases hb with rfl | hb | hb
      · exact h.1.1.1
      · exact sc_fvStmt t Γ h.1.2 b hb
      · exact sc_fvStmt e Γ h.2 b hb
    | .ifc _ a (some a2) t e, Γ, h, b, hb => by
      simp only [scStmt, Bool.and_eq_true] at h
      simp only [fvStmt, List.mem_cons, List.mem_append] at hb
      rcases hb with rfl | rfl | hb | hb
      · exact h.1.1.1
      · exact h.1.1.2
      · exact sc_fvStmt t Γ h.1.2 b hb
      · exact sc_fvStmt e Γ h.2 b hb
    | .print _ a n, Γ, h, b, hb => by
      simp only [scStmt, Bool.and_eq_true] at h
      simp only [fvStmt, List.mem_cons] at hb
      rcases hb with rfl | hb
      · exact h.1
      · exact sc_fvStmt n Γ h.2 b hb
    | .call _ args, Γ, h, b, hb => by
      simp only [scStmt, List.all_eq_true] at h
      exact h b hb
    | .exit a, Γ, h, b, hb => by
      simp only [fvStmt, List.mem_singleton] at hb; subst hb; simpa [scStmt] using h
end

/-! ## scoping only depends on the free variables -/

mutual
  theorem sc_strengthenTerm : ∀ (t : Core.FsTerm) (Γ Γ' : Core.Ctx), scTerm Γ t = true →
      (∀ b ∈ fvTerm t, occFs Γ b = true → occFs Γ' b = true) → scTerm Γ' t = true
    | .var _ _ _, Γ, Γ', h, H => by
      simp only [scTerm] at h ⊢
      exact H _ (by simp [fvTerm]) h
    | .lit _, _, _, _, _ => rfl
    | .op _ _ _, Γ, Γ', h, H => by
      simp only [scTerm, Bool.and_eq_true] at h ⊢
      exact ⟨H _ (by simp [fvTerm]) h.1, H _ (by simp [fvTerm]) h.2⟩
    | .mu pc v ty s, Γ, Γ', h, H => by
      simp only [scTerm] at h ⊢
      refine sc_strengthenStmt s _ _ h ?_
      intro b hb ho
      rcases occFs_cons ho with rfl | ⟨hne, ho'⟩
      · exact occFs_cons_self _ _
      · refine occFs_cons_of_ne hne (H b ?_ ho')
        simp only [fvTerm, List.mem_filter, decide_eq_true_eq]
        exact ⟨hb, fun e => hne (by rw [e])⟩
    | .xtor _ _ args _, Γ, Γ', h, H => by
      simp only [scTerm, List.all_eq_true] at h ⊢
      exact fun b hb => H b (by simpa [fvTerm] using hb) (h b hb)
    | .xcase _ _ cs, Γ, Γ', h, H => by
      simp only [scTerm] at h ⊢
      exact sc_strengthenClauses cs Γ Γ' h (by simpa [fvTerm] using H)
  theorem sc_strengthenClauses : ∀ (cs : Core.FsClauses) (Γ Γ' : Core.Ctx), scClauses Γ cs = true →
      (∀ b ∈ fvClauses cs, occFs Γ b = true → occFs Γ' b = true) → scClauses Γ' cs = true
    | .nil, _, _, _, _ => rfl
    | .cons _ ctx body rest, Γ, Γ', h, H => by
      simp only [scClauses, Bool.and_eq_true] at h ⊢
      refine ⟨sc_strengthenStmt body _ _ h.1 ?_, sc_strengthenClauses rest Γ Γ' h.2 ?_⟩
      · intro b hb ho
        rcases occFs_append_iff.mp ho with h' | ⟨hn, h'⟩
        · exact occFs_append_iff.mpr (.inl h')
        · refine occFs_append_iff.mpr (.inr ⟨hn, H b ?_ h'⟩)
          simp only [fvClauses, List.mem_append, List.mem_filter, notIn_iff]
          exact .inl ⟨hb, lookupFs_none_not_mem hn⟩
      · intro b hb ho
        exact H b (by simp [fvClauses, hb]) ho
  theorem sc_strengthenStmt : ∀ (s : Core.FsStmt) (Γ Γ' : Core.Ctx), scStmt Γ s = true →
      (∀ b ∈ fvStmt s, occFs Γ b = true → occFs Γ' b = true) → scStmt Γ' s = true
    | .cut _ p c, Γ, Γ', h, H => by
      simp only [scStmt, Bool.and_eq_true] at h ⊢
      exact ⟨sc_strengthenTerm p Γ Γ' h.1 (fun b hb => H b (by simp [fvStmt, hb])),
        sc_strengthenTerm c Γ Γ' h.2 (fun b hb => H b (by simp [fvStmt, hb]))⟩
    | .ifc _ a none t e, Γ, Γ', h, H => by
      simp only [scStmt, Bool.and_eq_true] at h ⊢
      exact ⟨⟨⟨H _ (by simp [fvStmt]) h.1.1.1, trivial⟩,
        sc_strengthenStmt t Γ Γ' h.1.2 (fun b hb => H b (by simp [fvStmt, hb]))⟩,
        sc_strengthenStmt e Γ Γ' h.2 (fun b hb => H b (by simp [fvStmt, hb]))⟩
    | .ifc _ a (some a2) t e, Γ, Γ', h, H => by
      simp only [scStmt, Bool.and_eq_true] at h ⊢
      exact ⟨⟨⟨H _ (by simp [fvStmt]) h.1.1.1, H _ (by simp [fvStmt]) h.1.1.2⟩,
        sc_strengthenStmt t Γ Γ' h.1.2 (fun b hb => H b (by simp [fvStmt, hb]))⟩,
        sc_strengthenStmt e Γ Γ' h.2 (fun b hb => H b (by simp [fvStmt, hb]))⟩
    | .print _ a n, Γ, Γ', h, H => by
      simp only [scStmt, Bool.and_eq_true] at h ⊢
      exact ⟨H _ (by simp [fvStmt]) h.1, sc_strengthenStmt n Γ Γ' h.2 (fun b hb => H b (by simp [fvStmt, hb]))⟩
    | .call _ args, Γ, Γ', h, H => by
      simp only [scStmt, List.all_eq_true] at h ⊢
      exact fun b hb => H b (by simpa [fvStmt] using hb) (h b hb)
    | .exit a, Γ, Γ', h, H => by
      simp only [scStmt] at h ⊢
      exact H _ (by simp [fvStmt]) h
end

/-! ## free variables under a capture-free renaming -/

theorem mem_renCtx {f} {c : Core.Ctx} {β : Core.Binding} (h : β ∈ renCtx f c) : ∃ b ∈ c, β = renBinding f b := by
  simp only [renCtx, List.mem_map] at h
  obtain ⟨b, hb, rfl⟩ := h
  exact ⟨b, hb, rfl⟩

theorem renBinding_of_fid {f : Core.Ident → Core.Ident} {b : Core.Binding} (h : f b.var = b.var) :
    renBinding f b = b := by
  cases b; simp only [renBinding] at h ⊢; simp [h]

section back
variable {f : Core.Ident → Core.Ident} {B : List Nat} (hfid : ∀ v : Core.Ident, v.id ∈ B → f v = v)
include hfid

mutual
  theorem fv_ren_backTerm : ∀ (t : Core.FsTerm), (∀ i ∈ t.binderIds, i ∈ B) →
      ∀ β ∈ fvTerm (renTerm f t), ∃ b ∈ fvTerm t, β = renBinding f b
    | .var pc v ty, _, β, hβ => by
      simp only [renTerm, fvTerm, List.mem_singleton] at hβ
      exact ⟨⟨v, pc, ty⟩, by simp [fvTerm], by rw [hβ]; rfl⟩
    | .lit _, _, β, hβ => by simp [renTerm, fvTerm] at hβ
    | .op a _ b, _, β, hβ => by
      simp only [renTerm, fvTerm, List.mem_cons, List.not_mem_nil, or_false] at hβ
      rcases hβ with rfl | rfl
      · exact ⟨⟨a, .prd, .i64⟩, by simp [fvTerm], rfl⟩
      · exact ⟨⟨b, .prd, .i64⟩, by simp [fvTerm], rfl⟩
    | .mu pc v ty s, hB, β, hβ => by
      simp only [renTerm, fvTerm, List.mem_filter, decide_eq_true_eq] at hβ
      obtain ⟨b, hb, rfl⟩ := fv_ren_backStmt s (fun i hi => hB i (by simp [Core.FsTerm.binderIds, hi])) β hβ.1
      refine ⟨b, ?_, rfl⟩
      simp only [fvTerm, List.mem_filter, decide_eq_true_eq]
      refine ⟨hb, fun e => hβ.2 ?_⟩
      subst e
      exact renBinding_of_fid (hfid v (hB _ (by simp [Core.FsTerm.binderIds])))
    | .xtor _ _ args _, _, β, hβ => by
      simp only [renTerm, fvTerm] at hβ
      exact mem_renCtx hβ
    | .xcase _ _ cs, hB, β, hβ => by
      simp only [renTerm, fvTerm] at hβ
      exact fv_ren_backClauses cs (by simpa [Core.FsTerm.binderIds] using hB) β hβ
  theorem fv_ren_backClauses : ∀ (cs : Core.FsClauses), (∀ i ∈ cs.binderIds, i ∈ B) →
      ∀ β ∈ fvClauses (renClauses f cs), ∃ b ∈ fvClauses cs, β = renBinding f b
    | .nil, _, β, hβ => by simp [renClauses, fvClauses] at hβ
    | .cons _ ctx body rest, hB, β, hβ => by
      simp only [renClauses, fvClauses, List.mem_append, List.mem_filter, notIn_iff] at hβ
      rcases hβ with ⟨h1, h2⟩ | h1
      · obtain ⟨b, hb, rfl⟩ := fv_ren_backStmt body
          (fun i hi => hB i (by simp [Core.FsClauses.binderIds, hi])) β h1
        refine ⟨b, ?_, rfl⟩
        simp only [fvClauses, List.mem_append, List.mem_filter, notIn_iff]
        refine .inl ⟨hb, fun hc => h2 ?_⟩
        have : b.var.id ∈ B := hB _ (by
          simp only [Core.FsClauses.binderIds, Core.ctxIds, List.mem_append, List.mem_map]
          exact .inl (.inl ⟨b, hc, rfl⟩))
        rw [renBinding_of_fid (hfid _ this)]
        exact hc
      · obtain ⟨b, hb, rfl⟩ := fv_ren_backClauses rest
          (fun i hi => hB i (by simp [Core.FsClauses.binderIds, hi])) β h1
        exact ⟨b, by simp [fvClauses, hb], rfl⟩
  theorem fv_ren_backStmt : ∀ (s : Core.FsStmt), (∀ i ∈ s.binderIds, i ∈ B) →
      ∀ β ∈ fvStmt (renStmt f s), ∃ b ∈ fvStmt s, β = renBinding f b
    | .cut _ p c, hB, β, hβ => by
      simp only [renStmt, fvStmt, List.mem_append] at hβ
      rcases hβ with h | h
      · obtain ⟨b, hb, e⟩ := fv_ren_backTerm p (fun i hi => hB i (by simp [Core.FsStmt.binderIds, hi])) β h
        exact ⟨b, by simp [fvStmt, hb], e⟩
      · obtain ⟨b, hb, e⟩ := fv_ren_backTerm c (fun i hi => hB i (by simp [Core.FsStmt.binderIds, hi])) β h
        exact ⟨b, by simp [fvStmt, hb], e⟩
    | .ifc _ a none t e, hB, β, hβ => by
      simp only [renStmt, Option.map_none, fvStmt, List.mem_cons, List.mem_append] at hβ
      rcases hβ with rfl | h | h
      · exact ⟨⟨a, .prd, .i64⟩, by simp [fvStmt], rfl⟩
      · obtain ⟨b, hb, e⟩ := fv_ren_backStmt t (fun i hi => hB i (by simp [Core.FsStmt.binderIds, hi])) β h
        exact ⟨b, by simp [fvStmt, hb], e⟩
      · obtain ⟨b, hb, e'⟩ := fv_ren_backStmt e (fun i hi => hB i (by simp [Core.FsStmt.binderIds, hi])) β h
        exact ⟨b, by simp [fvStmt, hb], e'⟩
    | .ifc _ a (some a2) t e, hB, β, hβ => by
      simp only [renStmt, Option.map_some, fvStmt, List.mem_cons, List.mem_append] at hβ
      rcases hβ with rfl | rfl | h | h
      · exact ⟨⟨a, .prd, .i64⟩, by simp [fvStmt], rfl⟩
      · exact ⟨⟨a2, .prd, .i64⟩, by simp [fvStmt], rfl⟩
      · obtain ⟨b, hb, e⟩ := fv_ren_backStmt t (fun i hi => hB i (by simp [Core.FsStmt.binderIds, hi])) β h
        exact ⟨b, by simp [fvStmt, hb], e⟩
      · obtain ⟨b, hb, e'⟩ := fv_ren_backStmt e (fun i hi => hB i (by simp [Core.FsStmt.binderIds, hi])) β h
        exact ⟨b, by simp [fvStmt, hb], e'⟩
    | .print _ a n, hB, β, hβ => by
      simp only [renStmt, fvStmt, List.mem_cons] at hβ
      rcases hβ with rfl | h
      · exact ⟨⟨a, .prd, .i64⟩, by simp [fvStmt], rfl⟩
      · obtain ⟨b, hb, e⟩ := fv_ren_backStmt n (by simpa [Core.FsStmt.binderIds] using hB) β h
        exact ⟨b, by simp [fvStmt, hb], e⟩
    | .call _ args, _, β, hβ => by
      simp only [renStmt, fvStmt] at hβ
      exact mem_renCtx hβ
    | .exit a, _, β, hβ => by
      simp only [renStmt, fvStmt, List.mem_singleton] at hβ
      exact ⟨⟨a, .prd, .i64⟩, by simp [fvStmt], by rw [hβ]; rfl⟩
end

end back

/-- the part of `InvB` needed for the forward direction, stable under entering binders -/
def FvInv (Γ : Core.Ctx) (f : Core.Ident → Core.Ident) (B : List Nat) : Prop :=
  ∀ b, occFs Γ b = true → f b.var = b.var ∨ (f b.var).id ∉ B

theorem FvInv.enter {Γ f B} (h : FvInv Γ f B) (hfid : ∀ v : Core.Ident, v.id ∈ B → f v = v) (Δ : Core.Ctx)
    (hΔ : ∀ b ∈ Δ, b.var.id ∈ B) : FvInv (Δ ++ Γ) f B := by
  intro b hb
  rcases occFs_append hb with hm | ⟨_, ho⟩
  · exact .inl (hfid _ (hΔ b hm))
  · exact h b ho

theorem renBinding_ne {f : Core.Ident → Core.Ident} {B : List Nat} {b β0 : Core.Binding}
    (h : f b.var = b.var ∨ (f b.var).id ∉ B) (hne : b ≠ β0) (hβ : β0.var.id ∈ B) : renBinding f b ≠ β0 := by
  rcases h with h | h
  · rw [renBinding_of_fid h]; exact hne
  · intro e
    apply h
    have : (renBinding f b).var = f b.var := rfl
    rw [← this, e]
    exact hβ

section fwd
variable {f : Core.Ident → Core.Ident} {B : List Nat} (hfid : ∀ v : Core.Ident, v.id ∈ B → f v = v)
include hfid

mutual
  theorem fv_ren_fwdTerm : ∀ (t : Core.FsTerm) (Γ : Core.Ctx), FvInv Γ f B → scTerm Γ t = true →
      (∀ i ∈ t.binderIds, i ∈ B) → ∀ b ∈ fvTerm t, renBinding f b ∈ fvTerm (renTerm f t)
    | .var pc v ty, _, _, _, _, b, hb => by
      simp only [fvTerm, List.mem_singleton] at hb; subst hb; simp [renTerm, fvTerm, renBinding]
    | .lit _, _, _, _, _, b, hb => by simp [fvTerm] at hb
    | .op a _ c, _, _, _, _, b, hb => by
      simp only [fvTerm, List.mem_cons, List.not_mem_nil, or_false] at hb
      rcases hb with rfl | rfl <;> simp [renTerm, fvTerm, renBinding]
    | .mu pc v ty s, Γ, hinv, hsc, hB, b, hb => by
      simp only [scTerm] at hsc
      simp only [fvTerm, List.mem_filter, decide_eq_true_eq] at hb
      have hv : v.id ∈ B := hB _ (by simp [Core.FsTerm.binderIds])
      have hinv' : FvInv (⟨v, flipPC pc, ty⟩ :: Γ) f B :=
        hinv.enter hfid [⟨v, flipPC pc, ty⟩] (by simpa using hv)
      have ih := fv_ren_fwdStmt s _ hinv' hsc (fun i hi => hB i (by simp [Core.FsTerm.binderIds, hi])) b hb.1
      simp only [renTerm, fvTerm, List.mem_filter, decide_eq_true_eq]
      exact ⟨ih, renBinding_ne (hinv' b (sc_fvStmt s _ hsc b hb.1)) hb.2 hv⟩
    | .xtor _ _ args _, _, _, _, _, b, hb => by
      simp only [fvTerm] at hb
      simp only [renTerm, fvTerm, renCtx, List.mem_map]
      exact ⟨b, hb, rfl⟩
    | .xcase _ _ cs, Γ, hinv, hsc, hB, b, hb => by
      simp only [renTerm, fvTerm] at hb ⊢
      exact fv_ren_fwdClauses cs Γ hinv (by simpa [scTerm] using hsc) (by simpa [Core.FsTerm.binderIds] using hB) b hb
  theorem fv_ren_fwdClauses : ∀ (cs : Core.FsClauses) (Γ : Core.Ctx), FvInv Γ f B → scClauses Γ cs = true →
      (∀ i ∈ cs.binderIds, i ∈ B) → ∀ b ∈ fvClauses cs, renBinding f b ∈ fvClauses (renClauses f cs)
    | .nil, _, _, _, _, b, hb => by simp [fvClauses] at hb
    | .cons _ ctx body rest, Γ, hinv, hsc, hB, b, hb => by
      simp only [scClauses, Bool.and_eq_true] at hsc
      simp only [fvClauses, List.mem_append, List.mem_filter, notIn_iff] at hb
      simp only [renClauses, fvClauses, List.mem_append, List.mem_filter, notIn_iff]
      rcases hb with ⟨h1, h2⟩ | h1
      · have hctx : ∀ c ∈ ctx, c.var.id ∈ B := fun c hc => hB _ (by
          simp only [Core.FsClauses.binderIds, Core.ctxIds, List.mem_append, List.mem_map]
          exact .inl (.inl ⟨c, hc, rfl⟩))
        have hinv' : FvInv (ctx ++ Γ) f B := hinv.enter hfid ctx hctx
        have ih := fv_ren_fwdStmt body _ hinv' hsc.1
          (fun i hi => hB i (by simp [Core.FsClauses.binderIds, hi])) b h1
        refine .inl ⟨ih, fun hc => ?_⟩
        exact renBinding_ne (hinv' b (sc_fvStmt body _ hsc.1 b h1)) (fun e => h2 (e ▸ hc)) (hctx _ hc) rfl
      · exact .inr (fv_ren_fwdClauses rest Γ hinv hsc.2
          (fun i hi => hB i (by simp [Core.FsClauses.binderIds, hi])) b h1)
  theorem fv_ren_fwdStmt : ∀ (s : Core.FsStmt) (Γ : Core.Ctx), FvInv Γ f B → scStmt Γ s = true →
      (∀ i ∈ s.binderIds, i ∈ B) → ∀ b ∈ fvStmt s, renBinding f b ∈ fvStmt (renStmt f s)
    | .cut _ p c, Γ, hinv, hsc, hB, b, hb => by
      simp only [scStmt, Bool.and_eq_true] at hsc
      simp only [fvStmt, List.mem_append] at hb
      simp only [renStmt, fvStmt, List.mem_append]
      rcases hb with h | h
      · exact .inl (fv_ren_fwdTerm p Γ hinv hsc.1 (fun i hi => hB i (by simp [Core.FsStmt.binderIds, hi])) b h)
      · exact .inr (fv_ren_fwdTerm c Γ hinv hsc.2 (fun i hi => hB i (by simp [Core.FsStmt.binderIds, hi])) b h)
    | .ifc _ a none t e, Γ, hinv, hsc, hB, b, hb => by
      simp only [scStmt, Bool.and_eq_true] at hsc
      simp only [fvStmt, List.mem_cons, List.mem_append] at hb
      simp only [renStmt, Option.map_none, fvStmt, List.mem_cons, List.mem_append]
      rcases hb with rfl | h | h
      · exact .inl rfl
      · exact .inr (.inl (fv_ren_fwdStmt t Γ hinv hsc.1.2 (fun i hi => hB i (by simp [Core.FsStmt.binderIds, hi])) b h))
      · exact .inr (.inr (fv_ren_fwdStmt e Γ hinv hsc.2 (fun i hi => hB i (by simp [Core.FsStmt.binderIds, hi])) b h))
    | .ifc _ a (some a2) t e, Γ, hinv, hsc, hB, b, hb => by
      simp only [scStmt, Bool.and_eq_true] at hsc
      simp only [fvStmt, List.mem_cons, List.mem_append] at hb
      simp only [renStmt, Option.map_some, fvStmt, List.mem_cons, List.mem_append]
      rcases hb with rfl | rfl | h | h
      · exact .inl rfl
      · exact .inr (.inl rfl)
      · exact .inr (.inr (.inl (fv_ren_fwdStmt t Γ hinv hsc.1.2
          (fun i hi => hB i (by simp [Core.FsStmt.binderIds, hi])) b h)))
      · exact .inr (.inr (.inr (fv_ren_fwdStmt e Γ hinv hsc.2
          (fun i hi => hB i (by simp [Core.FsStmt.binderIds, hi])) b h)))
    | .print _ a n, Γ, hinv, hsc, hB, b, hb => by
      simp only [scStmt, Bool.and_eq_true] at hsc
      simp only [fvStmt, List.mem_cons] at hb
      simp only [renStmt, fvStmt, List.mem_cons]
      rcases hb with rfl | h
      · exact .inl rfl
      · exact .inr (fv_ren_fwdStmt n Γ hinv hsc.2 (by simpa [Core.FsStmt.binderIds] using hB) b h)
    | .call _ args, _, _, _, _, b, hb => by
      simp only [fvStmt] at hb
      simp only [renStmt, fvStmt, renCtx, List.mem_map]
      exact ⟨b, hb, rfl⟩
    | .exit a, _, _, _, _, b, hb => by
      simp only [fvStmt, List.mem_singleton] at hb; subst hb; simp [renStmt, fvStmt, renBinding]
end

end fwd

end Scc.Core2AxCut.Sem
