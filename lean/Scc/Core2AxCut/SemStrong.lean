/-
  Scc.Core2AxCut.SemStrong — the forward simulation of `SemSim.lean` / `SemSimCut.lean` again, with a
  STRONGER matching of final states: where `Sem.ResMatch` lets a stuck Core state correspond to ANY stuck
  AxCut state, `ResMatchS` demands the SAME reason (`stuck e` ↦ `stuck e.render`; in related states the
  only reasons that occur are the two arithmetic faults of `op`).  The rule lemmas are the ones of
  `SemSim.lean` / `SemSimCut.lean` with `SimGoalS` in place of `SimGoal` (same proofs; only the error
  branches of `sim_opMu` / `sim_opVar` differ: they use `evalOp_err`).  From the strong step-wise
  simulation: equal finished behaviours in both directions INCLUDING the reason of getting stuck, and
  trace prefixes in both directions for all fuel (divergence).
-/
import Scc.Core2AxCut.SemProg

namespace Scc.Core2AxCut.Sem.Strong

open Scc Scc.Core2AxCut
open Scc.AxCut.Named (Value lookup lookupAll bindParams findDef State step iterate)

local notation "sid" => shrinkIdentifier

/-! ## the strong matching of results -/

/-- the results of the two machines correspond, stuck reasons included -/
def ResMatchS (r : Core.Res) (r' : AxCut.Named.Res) : Prop :=
  match r with
  | .done v => r' = .done v
  | .stuck e => r' = .stuck e.render
  | .outOfFuel => False

theorem ResMatchS.weaken {r r'} (h : ResMatchS r r') : ResMatch r r' := by
  cases r with
  | done v => exact h
  | stuck e => exact ⟨_, h⟩
  | outOfFuel => cases h

/-- `Sem.SimGoal` with `ResMatchS` -/
def SimGoalS (p : Core.FsProg) (q : AxCut.Prog) (R : Core.FsState → State → Prop) (cs : Core.FsState)
    (as : State) : Prop :=
  match Core.fsStep p cs with
  | .next cs' => ∃ k as', Steps q k as as' ∧ R cs' as' ∧ (k = 0 → sizeStmt cs'.stmt < sizeStmt cs.stmt)
  | .final r => ∃ k as' r', Steps q k as as' ∧ step q as' = .halt cs.out r' ∧ ResMatchS r r'

theorem SimGoalS.weaken {p q R cs as} (h : SimGoalS p q R cs as) : SimGoal p q R cs as := by
  simp only [SimGoalS] at h
  simp only [SimGoal]
  split
  · rename_i cs' hs; simp only [hs] at h; exact h
  · rename_i r hs; simp only [hs] at h
    obtain ⟨k, as', r', h1, h2, h3⟩ := h
    exact ⟨k, as', r', h1, h2, h3.weaken⟩

/-- arithmetic faults of the two machines carry the same name -/
theorem evalOp_err (o : Core.BinOp) (a b : BitVec 64) (e : Core.Why) (h : Core.arith o a b = .error e) :
    AxCut.Named.evalOp (shrinkBinop o) a b = .error e.render := by
  cases o <;> simp only [Core.arith, AxCut.Named.evalOp, shrinkBinop] at h ⊢
  all_goals first
    | (cases h; done)
    | (split at h
       · rename_i h0
         cases h
         simp [h0, Core.Why.render]
       · rename_i h0
         by_cases h1 : a = Core.minInt64 ∧ b = -1
         · rw [if_pos h1] at h
           cases h
           obtain ⟨h1a, h1b⟩ := h1
           subst h1a; subst h1b
           simp [Core.Why.render, Core.minInt64, AxCut.Named.minInt]
         · rw [if_neg h1] at h
           cases h)

variable {E : TEnv} {q : AxCut.Prog} {p : Core.FsProg}

/-! ## packaging -/

theorem goal_next {cs : Core.FsState} {as : State} {cs' : Core.FsState} (k : Nat) (as' : State)
    (h1 : Core.fsStep p cs = .next cs') (h2 : Steps q k as as') (h3 : StRel E q cs' as')
    (h4 : k = 0 → sizeStmt cs'.stmt < sizeStmt cs.stmt) : SimGoalS p q (StRel E q) cs as := by
  simp only [SimGoalS, h1]
  exact ⟨k, as', h2, h3, h4⟩

theorem goal_final {cs : Core.FsState} {as : State} {r : Core.Res} (k : Nat) (as' : State)
    (r' : AxCut.Named.Res) (h1 : Core.fsStep p cs = .final r) (h2 : Steps q k as as')
    (h3 : step q as' = .halt cs.out r') (h4 : ResMatchS r r') : SimGoalS p q (StRel E q) cs as := by
  simp only [SimGoalS, h1]
  exact ⟨k, as', r', h2, h3, h4⟩

theorem prepend_step {cs : Core.FsState} {as as1 : State} (h : step q as = .next as1)
    (g : SimGoalS p q (StRel E q) cs as1) : SimGoalS p q (StRel E q) cs as := by
  simp only [SimGoalS] at g ⊢
  split
  · rename_i cs' hs
    simp only [hs] at g
    obtain ⟨k, as', h1, h2, _⟩ := g
    exact ⟨k + 1, as', .cons h h1, h2, by omega⟩
  · rename_i r hs
    simp only [hs] at g
    obtain ⟨k, as', r', h1, h2, h3⟩ := g
    exact ⟨k + 1, as', r', .cons h h1, h2, h3⟩

/-! ## the rules, one by one -/

section rules
variable (hp : ProgRel E q p)
include hp

omit hp in
theorem sim_exit {Γ h a v ρ η out} (ha : occFs Γ ⟨a, .prd, .i64⟩ = true) (hv : v.id = h a)
    (hr : EnvRel E q Γ h ρ η) : SimGoalS p q (StRel E q) ⟨.exit a, ρ, out⟩ ⟨.exit v, η, out⟩ := by
  obtain ⟨n, h1, _, h2⟩ := hr.int ha
  have hs : Core.fsStep p ⟨.exit a, ρ, out⟩ = .final (.done n) := by simp [Core.fsStep, h1]
  exact goal_final 0 _ (.done n) hs (.refl _) (step_exit q (by rw [hv]; exact h2)) rfl

omit hp in
theorem sim_print {Γ h nl a n v t fv ρ η out} (ha : occFs Γ ⟨a, .prd, .i64⟩ = true) (hv : v.id = h a)
    (ht : Tr E q Γ h n t) (hr : EnvRel E q Γ h ρ η) :
    SimGoalS p q (StRel E q) ⟨.print nl a n, ρ, out⟩ ⟨.print nl v t fv, η, out⟩ := by
  obtain ⟨x, h1, _, h2⟩ := hr.int ha
  have hs : Core.fsStep p ⟨.print nl a n, ρ, out⟩ = .next ⟨n, ρ, out ++ [(nl, x)]⟩ := by
    simp [Core.fsStep, h1]
  exact goal_next 1 _ hs (.one (step_print q (by rw [hv]; exact h2))) (stRel_mk ht hr) (by omega)

omit hp in
theorem sim_ifz {Γ h srt a t e v t' e' ρ η out} (ha : occFs Γ ⟨a, .prd, .i64⟩ = true) (hv : v.id = h a)
    (ht : Tr E q Γ h t t') (he : Tr E q Γ h e e') (hr : EnvRel E q Γ h ρ η) :
    SimGoalS p q (StRel E q) ⟨.ifc srt a none t e, ρ, out⟩ ⟨.ifc (shrinkIfSort srt) v none t' e', η, out⟩ := by
  obtain ⟨x, h1, _, h2⟩ := hr.int ha
  have hs : Core.fsStep p ⟨.ifc srt a none t e, ρ, out⟩ =
      .next ⟨if Core.compare srt x 0 then t else e, ρ, out⟩ := by
    simp [Core.fsStep, h1, Core.FsState.goto]
  refine goal_next 1 _ hs (.one (step_ifz q (by rw [hv]; exact h2))) ?_ (by omega)
  rw [evalCmp_eq]
  by_cases hc : Core.compare srt x 0 = true
  · simp only [hc, if_true]; exact stRel_mk ht hr
  · simp only [hc]; exact stRel_mk he hr

omit hp in
theorem sim_ifc {Γ h srt a b t e v w t' e' ρ η out} (ha : occFs Γ ⟨a, .prd, .i64⟩ = true) (hv : v.id = h a)
    (hb : occFs Γ ⟨b, .prd, .i64⟩ = true) (hw : w.id = h b)
    (ht : Tr E q Γ h t t') (he : Tr E q Γ h e e') (hr : EnvRel E q Γ h ρ η) :
    SimGoalS p q (StRel E q) ⟨.ifc srt a (some b) t e, ρ, out⟩
      ⟨.ifc (shrinkIfSort srt) v (some w) t' e', η, out⟩ := by
  obtain ⟨x, h1, _, h2⟩ := hr.int ha
  obtain ⟨y, h3, _, h4⟩ := hr.int hb
  have hs : Core.fsStep p ⟨.ifc srt a (some b) t e, ρ, out⟩ =
      .next ⟨if Core.compare srt x y then t else e, ρ, out⟩ := by
    simp [Core.fsStep, h1, h3, Core.FsState.goto]
  refine goal_next 1 _ hs (.one (step_ifc q (by rw [hv]; exact h2) (by rw [hw]; exact h4))) ?_ (by omega)
  rw [evalCmp_eq]
  by_cases hc : Core.compare srt x y = true
  · simp only [hc, if_true]; exact stRel_mk ht hr
  · simp only [hc]; exact stRel_mk he hr

theorem sim_call {Γ h f args ps args' ρ η out} (hs : findSig E.sigs f = some ps)
    (hm : sigMatch args ps = true) (hocc : ∀ b ∈ args, occFs Γ b = true)
    (hids : axIds args' = args.map (fun b => h b.var)) (hr : EnvRel E q Γ h ρ η) :
    SimGoalS p q (StRel E q) ⟨.call f args, ρ, out⟩ ⟨.call (sid f) args', η, out⟩ := by
  obtain ⟨hE, hdefs⟩ := hp
  subst hE
  obtain ⟨d, hd, rfl⟩ := findSig_defs p.defs hs
  obtain ⟨d', hd', hctx, hnd, htr⟩ := hdefs f d hd
  obtain ⟨vs, vs', h1, h2, h3⟩ := hr.argVals args args' hocc hids
  obtain ⟨ρ', e, h4, h5, h6⟩ := EnvRel.bind (E := progTEnv p) (q := q) envRel_nil d.ctx d'.ctx vs vs'
    (VRelL.congr hm h3) (by have := congrArg List.length hctx; simpa [axIds] using this)
    (by rw [hctx]; exact hnd) (by intro i _ b hb; simp [occFs, lookupFs] at hb)
  rw [hctx, setMany_hId] at h6
  simp only [List.append_nil] at h6
  have hs : Core.fsStep p ⟨.call f args, ρ, out⟩ = .next ⟨d.body, ρ', out⟩ := by
    simp [Core.fsStep, hd, h1, h4, Core.FsState.goto]
  exact goal_next 1 _ hs (.one (step_call q hd' h2 h5)) (stRel_mk htr h6) (by omega)

end rules

section rules
variable (hp : ProgRel E q p)
include hp

/-! ## renaming -/

theorem sim_renL {Γ h T a s0 x t ρ η out} (hx : occFs Γ ⟨x, .cns, T⟩ = true)
    (ht : Tr E q (⟨a, .cns, T⟩ :: Γ) (h.set a (h x)) s0 t) (hr : EnvRel E q Γ h ρ η) :
    SimGoalS p q (StRel E q) ⟨.cut T (.mu .prd a T s0) (.var .cns x T), ρ, out⟩ ⟨t, η, out⟩ := by
  obtain ⟨v, v', h1, h2, h3⟩ := hr _ hx
  have hs : Core.fsStep p ⟨.cut T (.mu .prd a T s0) (.var .cns x T), ρ, out⟩ = .next ⟨s0, (a, v) :: ρ, out⟩ := by
    by_cases hc : isCodata E.codata T = true
    · obtain ⟨d, K, sig, vs, vs', rfl, _⟩ := h3.inv_dtor hc
      simp [Core.fsStep, Core.fsStepCut, codEq hp, hc, Core.fsCnsVal, Core.fsPrdVal, h1, Core.FsState.invoke,
        Core.FsState.goto]
    · simp [Core.fsStep, Core.fsStepCut, codEq hp, hc, Core.fsCnsVal, h1, Core.FsState.goto]
  exact goal_next 0 _ hs (.refl _) (stRel_mk ht (EnvRel.alias (b0 := ⟨a, .cns, T⟩) hr h3 h2))
    (by intro _; simp [sizeStmt, sizeTerm]; omega)

theorem sim_renR {Γ h T y s0 x t ρ η out} (hx : occFs Γ ⟨x, .prd, T⟩ = true)
    (ht : Tr E q (⟨y, .prd, T⟩ :: Γ) (h.set y (h x)) s0 t) (hr : EnvRel E q Γ h ρ η) :
    SimGoalS p q (StRel E q) ⟨.cut T (.var .prd x T) (.mu .cns y T s0), ρ, out⟩ ⟨t, η, out⟩ := by
  obtain ⟨v, v', h1, h2, h3⟩ := hr _ hx
  have hs : Core.fsStep p ⟨.cut T (.var .prd x T) (.mu .cns y T s0), ρ, out⟩ = .next ⟨s0, (y, v) :: ρ, out⟩ := by
    by_cases hc : isCodata E.codata T = true
    · simp [Core.fsStep, Core.fsStepCut, codEq hp, hc, Core.fsCnsVal, Core.fsPrdVal, h1, Core.FsState.goto]
    · simp [Core.fsStep, Core.fsStepCut, codEq hp, hc, Core.fsCnsVal, Core.fsPrdVal, h1, Core.FsState.pass,
        Core.FsState.goto]
  exact goal_next 0 _ hs (.refl _) (stRel_mk ht (EnvRel.alias (b0 := ⟨y, .prd, T⟩) hr h3 h2))
    (by intro _; simp [sizeStmt, sizeTerm]; omega)

/-! ## known cuts -/

theorem sim_knownData {Γ h T K args cl d sig ctx body t ρ η out} (hc : isCodata E.codata T = false)
    (_hd : declOf E T = some d) (_hsig : d.xtors.find? (fun x => x.name == K) = some sig)
    (hm : sigMatch args sig.args = true) (hocc : ∀ b ∈ args, occFs Γ b = true)
    (hf : cl.find K = some (ctx, body)) (hm2 : sigMatch ctx sig.args = true)
    (ht : Tr E q (ctx ++ Γ) (h.setMany ctx (args.map fun b => h b.var)) body t) (hr : EnvRel E q Γ h ρ η) :
    SimGoalS p q (StRel E q) ⟨.cut T (.xtor .prd K args T) (.xcase .cns T cl), ρ, out⟩ ⟨t, η, out⟩ := by
  obtain ⟨vs, ρ', h1, h2, h3⟩ := knownEnter hr hm hocc hm2
  have hs : Core.fsStep p ⟨.cut T (.xtor .prd K args T) (.xcase .cns T cl), ρ, out⟩ = .next ⟨body, ρ', out⟩ := by
    simp [Core.fsStep, Core.fsStepCut, codEq hp, hc, Core.fsCnsVal, Core.fsPrdVal, h1, Core.FsState.pass,
      Core.FsState.select, hf, h2, Core.FsState.goto]
  exact goal_next 0 _ hs (.refl _) (stRel_mk ht h3)
    (by intro _; have := find_size cl hf; simp [sizeStmt, sizeTerm]; omega)

theorem sim_knownCodata {Γ h T K args cl d sig ctx body t ρ η out} (hc : isCodata E.codata T = true)
    (_hd : declOf E T = some d) (_hsig : d.xtors.find? (fun x => x.name == K) = some sig)
    (hm : sigMatch args sig.args = true) (hocc : ∀ b ∈ args, occFs Γ b = true)
    (hf : cl.find K = some (ctx, body)) (hm2 : sigMatch ctx sig.args = true)
    (ht : Tr E q (ctx ++ Γ) (h.setMany ctx (args.map fun b => h b.var)) body t) (hr : EnvRel E q Γ h ρ η) :
    SimGoalS p q (StRel E q) ⟨.cut T (.xcase .prd T cl) (.xtor .cns K args T), ρ, out⟩ ⟨t, η, out⟩ := by
  obtain ⟨vs, ρ', h1, h2, h3⟩ := knownEnter hr hm hocc hm2
  have hs : Core.fsStep p ⟨.cut T (.xcase .prd T cl) (.xtor .cns K args T), ρ, out⟩ = .next ⟨body, ρ', out⟩ := by
    simp [Core.fsStep, Core.fsStepCut, codEq hp, hc, Core.fsCnsVal, Core.fsPrdVal, h1, Core.FsState.invoke,
      Core.FsState.select, hf, h2, Core.FsState.goto]
  exact goal_next 0 _ hs (.refl _) (stRel_mk ht h3)
    (by intro _; have := find_size cl hf; simp [sizeStmt, sizeTerm]; omega)

/-! ## literals and operations -/

omit hp in
theorem sim_litMu {Γ h n x s0 x' t fv ρ η out} (hav : Avoids Γ h x'.id)
    (ht : Tr E q (⟨x, .prd, .i64⟩ :: Γ) (h.set x x'.id) s0 t) (hr : EnvRel E q Γ h ρ η) :
    SimGoalS p q (StRel E q) ⟨.cut .i64 (.lit n) (.mu .cns x .i64 s0), ρ, out⟩ ⟨.lit x' n t fv, η, out⟩ := by
  have hs : Core.fsStep p ⟨.cut .i64 (.lit n) (.mu .cns x .i64 s0), ρ, out⟩ =
      .next ⟨s0, (x, .int (BitVec.ofInt 64 n)) :: ρ, out⟩ := by
    simp [Core.fsStep, Core.fsStepCut, Core.isCodata, Core.fsCnsVal, Core.fsPrdVal, Core.FsState.pass,
      Core.FsState.goto]
  exact goal_next 1 _ hs (.one (step_lit q _ _ _ _ _ _))
    (stRel_mk ht (EnvRel.cons (b0 := ⟨x, .prd, .i64⟩) hr (VRel.int _) hav)) (by omega)

omit hp in
theorem sim_litVar {Γ h n α w v ty' args' fv ρ η out} (hα : occFs Γ ⟨α, .cns, .i64⟩ = true)
    (hw : w.id ≠ h α) (hv : v.id = h α) (hargs : axIds args' = [w.id]) (hr : EnvRel E q Γ h ρ η) :
    SimGoalS p q (StRel E q) ⟨.cut .i64 (.lit n) (.var .cns α .i64), ρ, out⟩
      ⟨.lit w n (.invoke v (sid retName) ty' args') fv, η, out⟩ := by
  obtain ⟨cv, cv', h1, h2, h3⟩ := hr _ hα
  obtain ⟨cs', η', cls, rfl, h4, h5, h6⟩ := applyCnsInt h3 (BitVec.ofInt 64 n)
    ⟨.cut .i64 (.lit n) (.var .cns α .i64), ρ, out⟩
  have hs : Core.fsStep p ⟨.cut .i64 (.lit n) (.var .cns α .i64), ρ, out⟩ = .next cs' := by
    simp [Core.fsStep, Core.fsStepCut, Core.isCodata, Core.fsCnsVal, Core.fsPrdVal, h1, h4]
  obtain ⟨as', h7, h8⟩ := h6 v ty' args' ((w.id, .int (BitVec.ofInt 64 n)) :: η)
    (by rw [hv, lookup_cons_ne _ _ (fun e => hw e.symm)]; exact h2)
    (lookupAll_one hargs (lookup_cons_self _ _ _))
  exact goal_next 2 as' hs (.cons (step_lit q _ _ _ _ _ _) h7) h8 (by omega)

omit hp in
theorem sim_opMu {Γ h a o b x s0 x' va vb t fv ρ η out} (ha : occFs Γ ⟨a, .prd, .i64⟩ = true)
    (hb : occFs Γ ⟨b, .prd, .i64⟩ = true) (hva : va.id = h a) (hvb : vb.id = h b) (hav : Avoids Γ h x'.id)
    (ht : Tr E q (⟨x, .prd, .i64⟩ :: Γ) (h.set x x'.id) s0 t) (hr : EnvRel E q Γ h ρ η) :
    SimGoalS p q (StRel E q) ⟨.cut .i64 (.op a o b) (.mu .cns x .i64 s0), ρ, out⟩
      ⟨.op x' va (shrinkBinop o) vb t fv, η, out⟩ := by
  obtain ⟨m, h1, _, h2⟩ := hr.int ha
  obtain ⟨n, h3, _, h4⟩ := hr.int hb
  cases hz : Core.arith o m n with
  | ok z =>
    have hs : Core.fsStep p ⟨.cut .i64 (.op a o b) (.mu .cns x .i64 s0), ρ, out⟩ =
        .next ⟨s0, (x, .int z) :: ρ, out⟩ := by
      simp [Core.fsStep, Core.fsStepCut, Core.isCodata, Core.fsCnsVal, Core.fsPrdVal, h1, h3, hz,
        Core.FsState.pass, Core.FsState.goto]
    exact goal_next 1 _ hs
      (.one (step_op_ok q (by rw [hva]; exact h2) (by rw [hvb]; exact h4) ((evalOp_eq o m n).1 z hz)))
      (stRel_mk ht (EnvRel.cons (b0 := ⟨x, .prd, .i64⟩) hr (VRel.int _) hav)) (by omega)
  | error e =>
    have hs : Core.fsStep p ⟨.cut .i64 (.op a o b) (.mu .cns x .i64 s0), ρ, out⟩ = .final (.stuck e) := by
      simp [Core.fsStep, Core.fsStepCut, Core.isCodata, Core.fsPrdVal, h1, h3, hz, Core.stuck]
    exact goal_final 0 _ (.stuck e.render) hs (.refl _)
      (step_op_err q (by rw [hva]; exact h2) (by rw [hvb]; exact h4) (evalOp_err o m n e hz)) rfl

omit hp in
theorem sim_opVar {Γ h a o b α w va vb v ty' args' fv ρ η out} (ha : occFs Γ ⟨a, .prd, .i64⟩ = true)
    (hb : occFs Γ ⟨b, .prd, .i64⟩ = true) (hva : va.id = h a) (hvb : vb.id = h b)
    (hα : occFs Γ ⟨α, .cns, .i64⟩ = true) (hw : w.id ≠ h α) (hv : v.id = h α) (hargs : axIds args' = [w.id])
    (hr : EnvRel E q Γ h ρ η) :
    SimGoalS p q (StRel E q) ⟨.cut .i64 (.op a o b) (.var .cns α .i64), ρ, out⟩
      ⟨.op w va (shrinkBinop o) vb (.invoke v (sid retName) ty' args') fv, η, out⟩ := by
  obtain ⟨m, h1, _, h2⟩ := hr.int ha
  obtain ⟨n, h3, _, h4⟩ := hr.int hb
  cases hz : Core.arith o m n with
  | ok z =>
    obtain ⟨cv, cv', g1, g2, g3⟩ := hr _ hα
    obtain ⟨cs', η', cls, rfl, g4, g5, g6⟩ := applyCnsInt g3 z ⟨.cut .i64 (.op a o b) (.var .cns α .i64), ρ, out⟩
    have hs : Core.fsStep p ⟨.cut .i64 (.op a o b) (.var .cns α .i64), ρ, out⟩ = .next cs' := by
      simp [Core.fsStep, Core.fsStepCut, Core.isCodata, Core.fsCnsVal, Core.fsPrdVal, h1, h3, hz, g1, g4]
    obtain ⟨as', g7, g8⟩ := g6 v ty' args' ((w.id, .int z) :: η)
      (by rw [hv, lookup_cons_ne _ _ (fun e => hw e.symm)]; exact g2)
      (lookupAll_one hargs (lookup_cons_self _ _ _))
    exact goal_next 2 as' hs
      (.cons (step_op_ok q (by rw [hva]; exact h2) (by rw [hvb]; exact h4) ((evalOp_eq o m n).1 z hz)) g7) g8
      (by omega)
  | error e =>
    have hs : Core.fsStep p ⟨.cut .i64 (.op a o b) (.var .cns α .i64), ρ, out⟩ = .final (.stuck e) := by
      simp [Core.fsStep, Core.fsStepCut, Core.isCodata, Core.fsPrdVal, h1, h3, hz, Core.stuck]
    exact goal_final 0 _ (.stuck e.render) hs (.refl _)
      (step_op_err q (by rw [hva]; exact h2) (by rw [hvb]; exact h4) (evalOp_err o m n e hz)) rfl

/-! ## let, invoke -/

theorem sim_letData {Γ h T K args x s0 d sig x' ty' args' t fv ρ η out} (hc : isCodata E.codata T = false)
    (hd : declOf E T = some d) (hsig : d.xtors.find? (fun x => x.name == K) = some sig)
    (hm : sigMatch args sig.args = true) (hocc : ∀ b ∈ args, occFs Γ b = true)
    (hids : axIds args' = args.map (fun b => h b.var)) (hav : Avoids Γ h x'.id)
    (ht : Tr E q (⟨x, .prd, T⟩ :: Γ) (h.set x x'.id) s0 t) (hr : EnvRel E q Γ h ρ η) :
    SimGoalS p q (StRel E q) ⟨.cut T (.xtor .prd K args T) (.mu .cns x T s0), ρ, out⟩
      ⟨.letS x' ty' (sid K) args' t fv, η, out⟩ := by
  obtain ⟨vs, vs', h1, h2, h3⟩ := hr.argVals args args' hocc hids
  have hs : Core.fsStep p ⟨.cut T (.xtor .prd K args T) (.mu .cns x T s0), ρ, out⟩ =
      .next ⟨s0, (x, .con K vs) :: ρ, out⟩ := by
    simp [Core.fsStep, Core.fsStepCut, codEq hp, hc, Core.fsCnsVal, Core.fsPrdVal, h1, Core.FsState.pass,
      Core.FsState.goto]
  exact goal_next 1 _ hs (.one (step_let q h2))
    (stRel_mk ht (EnvRel.cons (b0 := ⟨x, .prd, T⟩) hr (VRel.con hc hd hsig (VRelL.congr hm h3)) hav)) (by omega)

theorem sim_letCodata {Γ h T K args a s0 d sig a' ty' args' t fv ρ η out} (hc : isCodata E.codata T = true)
    (hd : declOf E T = some d) (hsig : d.xtors.find? (fun x => x.name == K) = some sig)
    (hm : sigMatch args sig.args = true) (hocc : ∀ b ∈ args, occFs Γ b = true)
    (hids : axIds args' = args.map (fun b => h b.var)) (hav : Avoids Γ h a'.id)
    (ht : Tr E q (⟨a, .cns, T⟩ :: Γ) (h.set a a'.id) s0 t) (hr : EnvRel E q Γ h ρ η) :
    SimGoalS p q (StRel E q) ⟨.cut T (.mu .prd a T s0) (.xtor .cns K args T), ρ, out⟩
      ⟨.letS a' ty' (sid K) args' t fv, η, out⟩ := by
  obtain ⟨vs, vs', h1, h2, h3⟩ := hr.argVals args args' hocc hids
  have hs : Core.fsStep p ⟨.cut T (.mu .prd a T s0) (.xtor .cns K args T), ρ, out⟩ =
      .next ⟨s0, (a, .dtor K vs) :: ρ, out⟩ := by
    simp [Core.fsStep, Core.fsStepCut, codEq hp, hc, Core.fsCnsVal, Core.fsPrdVal, h1, Core.FsState.invoke,
      Core.FsState.goto]
  exact goal_next 1 _ hs (.one (step_let q h2))
    (stRel_mk ht (EnvRel.cons (b0 := ⟨a, .cns, T⟩) hr (VRel.dtor hc hd hsig (VRelL.congr hm h3)) hav)) (by omega)

theorem sim_invokeData {Γ h T K args α d sig v ty' args' ρ η out} (hc : isCodata E.codata T = false)
    (hd : declOf E T = some d) (hsig : d.xtors.find? (fun x => x.name == K) = some sig)
    (hm : sigMatch args sig.args = true) (hocc : ∀ b ∈ args, occFs Γ b = true)
    (hids : axIds args' = args.map (fun b => h b.var)) (hα : occFs Γ ⟨α, .cns, T⟩ = true) (hv : v.id = h α)
    (hr : EnvRel E q Γ h ρ η) :
    SimGoalS p q (StRel E q) ⟨.cut T (.xtor .prd K args T) (.var .cns α T), ρ, out⟩
      ⟨.invoke v (sid K) ty' args', η, out⟩ := by
  obtain ⟨vs, vs', h1, h2, h3⟩ := hr.argVals args args' hocc hids
  obtain ⟨cv, cv', g1, g2, g3⟩ := hr _ hα
  obtain ⟨η', cls, rfl⟩ := g3.cns_clo hc
  obtain ⟨cs', g4, _, _, g6⟩ := applyCns g3 hc hd hsig (VRelL.congr hm h3)
    ⟨.cut T (.xtor .prd K args T) (.var .cns α T), ρ, out⟩
  have hs : Core.fsStep p ⟨.cut T (.xtor .prd K args T) (.var .cns α T), ρ, out⟩ = .next cs' := by
    simp [Core.fsStep, Core.fsStepCut, codEq hp, hc, Core.fsCnsVal, Core.fsPrdVal, h1, g1, g4]
  obtain ⟨k, as', g7, g8⟩ := g6 v ty' args' η (by rw [hv]; exact g2) h2
  exact goal_next (k + 1) as' hs g7 g8 (by omega)

theorem sim_invokeCodata {Γ h T K args x d sig v ty' args' ρ η out} (hc : isCodata E.codata T = true)
    (hd : declOf E T = some d) (hsig : d.xtors.find? (fun x => x.name == K) = some sig)
    (hm : sigMatch args sig.args = true) (hocc : ∀ b ∈ args, occFs Γ b = true)
    (hids : axIds args' = args.map (fun b => h b.var)) (hx : occFs Γ ⟨x, .prd, T⟩ = true) (hv : v.id = h x)
    (hr : EnvRel E q Γ h ρ η) :
    SimGoalS p q (StRel E q) ⟨.cut T (.var .prd x T) (.xtor .cns K args T), ρ, out⟩
      ⟨.invoke v (sid K) ty' args', η, out⟩ := by
  obtain ⟨vs, vs', h1, h2, h3⟩ := hr.argVals args args' hocc hids
  obtain ⟨pv, pv', g1, g2, g3⟩ := hr _ hx
  obtain ⟨η', cls, rfl⟩ := g3.prd_clo hc
  obtain ⟨cs', g4, _, g6⟩ := applyPrd g3 hc hd hsig (VRelL.congr hm h3)
    ⟨.cut T (.var .prd x T) (.xtor .cns K args T), ρ, out⟩
  have hs : Core.fsStep p ⟨.cut T (.var .prd x T) (.xtor .cns K args T), ρ, out⟩ = .next cs' := by
    simp [Core.fsStep, Core.fsStepCut, codEq hp, hc, Core.fsCnsVal, Core.fsPrdVal, h1, g1, g4]
  obtain ⟨k, as', g7, g8⟩ := g6 v ty' args' η (by rw [hv]; exact g2) h2
  exact goal_next (k + 1) as' hs g7 g8 (by omega)

/-! ## unknown cuts -/

omit hp in
theorem sim_unkInt {Γ h x α v ty' args' ρ η out} (hx : occFs Γ ⟨x, .prd, .i64⟩ = true)
    (hα : occFs Γ ⟨α, .cns, .i64⟩ = true) (hv : v.id = h α) (hargs : axIds args' = [h x])
    (hr : EnvRel E q Γ h ρ η) :
    SimGoalS p q (StRel E q) ⟨.cut .i64 (.var .prd x .i64) (.var .cns α .i64), ρ, out⟩
      ⟨.invoke v (sid retName) ty' args', η, out⟩ := by
  obtain ⟨n, _, h1, h2⟩ := hr.int hx
  obtain ⟨cv, cv', g1, g2, g3⟩ := hr _ hα
  obtain ⟨cs', η', cls, rfl, g4, _, g6⟩ := applyCnsInt g3 n
    ⟨.cut .i64 (.var .prd x .i64) (.var .cns α .i64), ρ, out⟩
  have hs : Core.fsStep p ⟨.cut .i64 (.var .prd x .i64) (.var .cns α .i64), ρ, out⟩ = .next cs' := by
    simp [Core.fsStep, Core.fsStepCut, Core.isCodata, Core.fsCnsVal, Core.fsPrdVal, h1, g1, g4]
  obtain ⟨as', g7, g8⟩ := g6 v ty' args' η (by rw [hv]; exact g2) (lookupAll_one hargs h2)
  exact goal_next 1 as' hs g7 g8 (by omega)

theorem sim_unkData {Γ h T x α d v ty' cls fv ρ η out} (hc : isCodata E.codata T = false)
    (hd : declOf E T = some d) (hx : occFs Γ ⟨x, .prd, T⟩ = true) (hα : occFs Γ ⟨α, .cns, T⟩ = true)
    (hv : v.id = h x) (hshape : EtaShape Γ h (h α) d.xtors cls) (hr : EnvRel E q Γ h ρ η) :
    SimGoalS p q (StRel E q) ⟨.cut T (.var .prd x T) (.var .cns α T), ρ, out⟩ ⟨.switch v ty' cls fv, η, out⟩ := by
  obtain ⟨pv, pv', h1, h2, h3⟩ := hr _ hx
  obtain ⟨K, sig, vs, vs', rfl, rfl, hsig, hvs⟩ := h3.inv_con hc hd
  obtain ⟨cv, cv', g1, g2, g3⟩ := hr _ hα
  obtain ⟨η', cls', rfl⟩ := g3.cns_clo hc
  obtain ⟨cs', g4, _, _, g6⟩ := applyCns g3 hc hd hsig hvs ⟨.cut T (.var .prd x T) (.var .cns α T), ρ, out⟩
  have hs : Core.fsStep p ⟨.cut T (.var .prd x T) (.var .cns α T), ρ, out⟩ = .next cs' := by
    simp [Core.fsStep, Core.fsStepCut, codEq hp, hc, Core.fsCnsVal, Core.fsPrdVal, h1, g1, g4]
  obtain ⟨w, ty'', args', η1, e1, e2, e3⟩ := etaEnter (out := out) (ty' := ty') (fv := fv) hshape hsig hvs.length.2
    (by rw [hv]; exact h2) g2 (fun i hi e => hi _ hα e)
  obtain ⟨k, as', g7, g8⟩ := g6 w ty'' args' η1 e2 e3
  exact goal_next (1 + (k + 1)) as' hs (e1.trans g7) g8 (by omega)

theorem sim_unkCodata {Γ h T x α d v ty' cls fv ρ η out} (hc : isCodata E.codata T = true)
    (hd : declOf E T = some d) (hx : occFs Γ ⟨x, .prd, T⟩ = true) (hα : occFs Γ ⟨α, .cns, T⟩ = true)
    (hv : v.id = h α) (hshape : EtaShape Γ h (h x) d.xtors cls) (hr : EnvRel E q Γ h ρ η) :
    SimGoalS p q (StRel E q) ⟨.cut T (.var .prd x T) (.var .cns α T), ρ, out⟩ ⟨.switch v ty' cls fv, η, out⟩ := by
  obtain ⟨cv, cv', h1, h2, h3⟩ := hr _ hα
  obtain ⟨d2, K, sig, vs, vs', rfl, rfl, hd2, hsig, hvs⟩ := h3.inv_dtor hc
  rw [hd] at hd2; cases hd2
  obtain ⟨pv, pv', g1, g2, g3⟩ := hr _ hx
  obtain ⟨η', cls', rfl⟩ := g3.prd_clo hc
  obtain ⟨cs', g4, _, g6⟩ := applyPrd g3 hc hd hsig hvs ⟨.cut T (.var .prd x T) (.var .cns α T), ρ, out⟩
  have hs : Core.fsStep p ⟨.cut T (.var .prd x T) (.var .cns α T), ρ, out⟩ = .next cs' := by
    simp [Core.fsStep, Core.fsStepCut, codEq hp, hc, Core.fsCnsVal, Core.fsPrdVal, h1, g1, g4]
  obtain ⟨w, ty'', args', η1, e1, e2, e3⟩ := etaEnter (out := out) (ty' := ty') (fv := fv) hshape hsig hvs.length.2
    (by rw [hv]; exact h2) g2 (fun i hi e => hi _ hx e)
  obtain ⟨k, as', g7, g8⟩ := g6 w ty'' args' η1 e2 e3
  exact goal_next (1 + (k + 1)) as' hs (e1.trans g7) g8 (by omega)

/-! ## critical pairs -/

omit hp in
theorem sim_critInt {Γ h a s1 x s2 a' x' ty' t2 t1 bx fc fn ρ η out} (ha : Avoids Γ h a'.id)
    (hx : Avoids Γ h x'.id) (hbx : bx.var = x')
    (ht2 : Tr E q (⟨x, .prd, .i64⟩ :: Γ) (h.set x x'.id) s2 t2)
    (ht1 : Tr E q (⟨a, .cns, .i64⟩ :: Γ) (h.set a a'.id) s1 t1) (hr : EnvRel E q Γ h ρ η) :
    SimGoalS p q (StRel E q) ⟨.cut .i64 (.mu .prd a .i64 s1) (.mu .cns x .i64 s2), ρ, out⟩
      ⟨.create a' ty' none (.cons (sid retName) [bx] t2 .nil) t1 fc fn, η, out⟩ := by
  have hs : Core.fsStep p ⟨.cut .i64 (.mu .prd a .i64 s1) (.mu .cns x .i64 s2), ρ, out⟩ =
      .next ⟨s1, (a, .mutilde ρ x s2) :: ρ, out⟩ := by
    simp [Core.fsStep, Core.fsStepCut, Core.isCodata, Core.fsCnsVal, Core.FsState.goto]
  obtain ⟨val, val', f1, f2, f3⟩ := skolem_of_envRel hr
  subst hbx
  have hv : VRel E q .cns .i64 (.mutilde ρ x s2) (.clo η (.cons (sid retName) [bx] t2 .nil)) :=
    VRel.mutildeInt val val' f1 f2 f3 (by simp [AxCut.Named.findClause]) hx ht2
  exact goal_next 1 _ hs (.one (step_create q _ _ _ _ _ _ _ _))
    (stRel_mk ht1 (EnvRel.cons (b0 := ⟨a, .cns, .i64⟩) hr hv ha)) (by omega)

theorem sim_critData {Γ h T a s1 x s2 d a' ty' cls t1 fc fn ρ η out} (hc : isCodata E.codata T = false)
    (hd : declOf E T = some d) (ha : Avoids Γ h a'.id) (hshape : CritShape Γ h d.xtors cls)
    (htr : CritTr E q Γ h ⟨x, .prd, T⟩ s2 cls)
    (ht1 : Tr E q (⟨a, .cns, T⟩ :: Γ) (h.set a a'.id) s1 t1) (hr : EnvRel E q Γ h ρ η) :
    SimGoalS p q (StRel E q) ⟨.cut T (.mu .prd a T s1) (.mu .cns x T s2), ρ, out⟩
      ⟨.create a' ty' none cls t1 fc fn, η, out⟩ := by
  have hs : Core.fsStep p ⟨.cut T (.mu .prd a T s1) (.mu .cns x T s2), ρ, out⟩ =
      .next ⟨s1, (a, .mutilde ρ x s2) :: ρ, out⟩ := by
    simp [Core.fsStep, Core.fsStepCut, codEq hp, hc, Core.fsCnsVal, Core.FsState.goto]
  obtain ⟨val, val', f1, f2, f3⟩ := skolem_of_envRel hr
  have hv : VRel E q .cns T (.mutilde ρ x s2) (.clo η cls) :=
    VRel.mutildeData val val' f1 f2 f3 hc hd hshape htr
  exact goal_next 1 _ hs (.one (step_create q _ _ _ _ _ _ _ _))
    (stRel_mk ht1 (EnvRel.cons (b0 := ⟨a, .cns, T⟩) hr hv ha)) (by omega)

theorem sim_critCodata {Γ h T a s1 x s2 d x' ty' cls t2 fc fn ρ η out} (hc : isCodata E.codata T = true)
    (hd : declOf E T = some d) (hx : Avoids Γ h x'.id) (hshape : CritShape Γ h d.xtors cls)
    (htr : CritTr E q Γ h ⟨a, .cns, T⟩ s1 cls)
    (ht2 : Tr E q (⟨x, .prd, T⟩ :: Γ) (h.set x x'.id) s2 t2) (hr : EnvRel E q Γ h ρ η) :
    SimGoalS p q (StRel E q) ⟨.cut T (.mu .prd a T s1) (.mu .cns x T s2), ρ, out⟩
      ⟨.create x' ty' none cls t2 fc fn, η, out⟩ := by
  have hs : Core.fsStep p ⟨.cut T (.mu .prd a T s1) (.mu .cns x T s2), ρ, out⟩ =
      .next ⟨s2, (x, .thunk ρ a s1) :: ρ, out⟩ := by
    simp [Core.fsStep, Core.fsStepCut, codEq hp, hc, Core.fsCnsVal, Core.fsPrdVal, Core.FsState.goto]
  obtain ⟨val, val', f1, f2, f3⟩ := skolem_of_envRel hr
  have hv : VRel E q .prd T (.thunk ρ a s1) (.clo η cls) :=
    VRel.thunk val val' f1 f2 f3 hc hd hshape htr
  exact goal_next 1 _ hs (.one (step_create q _ _ _ _ _ _ _ _))
    (stRel_mk ht2 (EnvRel.cons (b0 := ⟨x, .prd, T⟩) hr hv hx)) (by omega)

/-! ## switch, create -/

theorem sim_switchData {Γ h T x cl d v ty' cls fv ρ η out} (hc : isCodata E.codata T = false)
    (hd : declOf E T = some d) (hx : occFs Γ ⟨x, .prd, T⟩ = true) (hv : v.id = h x)
    (hshape : ClausesShape Γ h d.xtors cl cls) (htr : ClausesTr E q Γ h cl cls) (hr : EnvRel E q Γ h ρ η) :
    SimGoalS p q (StRel E q) ⟨.cut T (.var .prd x T) (.xcase .cns T cl), ρ, out⟩ ⟨.switch v ty' cls fv, η, out⟩ := by
  obtain ⟨pv, pv', h1, h2, h3⟩ := hr _ hx
  obtain ⟨K, sig, vs, vs', rfl, rfl, hsig, hvs⟩ := h3.inv_con hc hd
  obtain ⟨ctx, body, ctx', body', ρ'', e, f1, f2, f3, f4, f5⟩ := clauseEnter (out := out) hr hshape htr hsig hvs
  have hs : Core.fsStep p ⟨.cut T (.var .prd x T) (.xcase .cns T cl), ρ, out⟩ = .next ⟨body, ρ'', out⟩ := by
    simp [Core.fsStep, Core.fsStepCut, codEq hp, hc, Core.fsCnsVal, Core.fsPrdVal, h1, Core.FsState.pass,
      Core.FsState.select, f1, f3, Core.FsState.goto]
  exact goal_next 1 _ hs (.one (step_switch q (by rw [hv]; exact h2) f2 f4)) f5 (by omega)

theorem sim_switchCodata {Γ h T α cl d v ty' cls fv ρ η out} (hc : isCodata E.codata T = true)
    (hd : declOf E T = some d) (hα : occFs Γ ⟨α, .cns, T⟩ = true) (hv : v.id = h α)
    (hshape : ClausesShape Γ h d.xtors cl cls) (htr : ClausesTr E q Γ h cl cls) (hr : EnvRel E q Γ h ρ η) :
    SimGoalS p q (StRel E q) ⟨.cut T (.xcase .prd T cl) (.var .cns α T), ρ, out⟩ ⟨.switch v ty' cls fv, η, out⟩ := by
  obtain ⟨cv, cv', h1, h2, h3⟩ := hr _ hα
  obtain ⟨d2, K, sig, vs, vs', rfl, rfl, hd2, hsig, hvs⟩ := h3.inv_dtor hc
  rw [hd] at hd2; cases hd2
  obtain ⟨ctx, body, ctx', body', ρ'', e, f1, f2, f3, f4, f5⟩ := clauseEnter (out := out) hr hshape htr hsig hvs
  have hs : Core.fsStep p ⟨.cut T (.xcase .prd T cl) (.var .cns α T), ρ, out⟩ = .next ⟨body, ρ'', out⟩ := by
    simp [Core.fsStep, Core.fsStepCut, codEq hp, hc, Core.fsCnsVal, Core.fsPrdVal, h1, Core.FsState.invoke,
      Core.FsState.select, f1, f3, Core.FsState.goto]
  exact goal_next 1 _ hs (.one (step_switch q (by rw [hv]; exact h2) f2 f4)) f5 (by omega)

theorem sim_createData {Γ h T a s0 cl d a' ty' cls t fc fn ρ η out} (hc : isCodata E.codata T = false)
    (hd : declOf E T = some d) (ha : Avoids Γ h a'.id) (hshape : ClausesShape Γ h d.xtors cl cls)
    (htr : ClausesTr E q Γ h cl cls) (ht : Tr E q (⟨a, .cns, T⟩ :: Γ) (h.set a a'.id) s0 t)
    (hr : EnvRel E q Γ h ρ η) :
    SimGoalS p q (StRel E q) ⟨.cut T (.mu .prd a T s0) (.xcase .cns T cl), ρ, out⟩
      ⟨.create a' ty' none cls t fc fn, η, out⟩ := by
  have hs : Core.fsStep p ⟨.cut T (.mu .prd a T s0) (.xcase .cns T cl), ρ, out⟩ =
      .next ⟨s0, (a, .case ρ cl) :: ρ, out⟩ := by
    simp [Core.fsStep, Core.fsStepCut, codEq hp, hc, Core.fsCnsVal, Core.FsState.goto]
  obtain ⟨val, val', f1, f2, f3⟩ := skolem_of_envRel hr
  have hv : VRel E q .cns T (.case ρ cl) (.clo η cls) := VRel.caseClo val val' f1 f2 f3 hc hd hshape htr
  exact goal_next 1 _ hs (.one (step_create q _ _ _ _ _ _ _ _))
    (stRel_mk ht (EnvRel.cons (b0 := ⟨a, .cns, T⟩) hr hv ha)) (by omega)

theorem sim_createCodata {Γ h T x s0 cl d x' ty' cls t fc fn ρ η out} (hc : isCodata E.codata T = true)
    (hd : declOf E T = some d) (hx : Avoids Γ h x'.id) (hshape : ClausesShape Γ h d.xtors cl cls)
    (htr : ClausesTr E q Γ h cl cls) (ht : Tr E q (⟨x, .prd, T⟩ :: Γ) (h.set x x'.id) s0 t)
    (hr : EnvRel E q Γ h ρ η) :
    SimGoalS p q (StRel E q) ⟨.cut T (.xcase .prd T cl) (.mu .cns x T s0), ρ, out⟩
      ⟨.create x' ty' none cls t fc fn, η, out⟩ := by
  have hs : Core.fsStep p ⟨.cut T (.xcase .prd T cl) (.mu .cns x T s0), ρ, out⟩ =
      .next ⟨s0, (x, .cocase ρ cl) :: ρ, out⟩ := by
    simp [Core.fsStep, Core.fsStepCut, codEq hp, hc, Core.fsCnsVal, Core.fsPrdVal, Core.FsState.goto]
  obtain ⟨val, val', f1, f2, f3⟩ := skolem_of_envRel hr
  have hv : VRel E q .prd T (.cocase ρ cl) (.clo η cls) := VRel.cocaseClo val val' f1 f2 f3 hc hd hshape htr
  exact goal_next 1 _ hs (.one (step_create q _ _ _ _ _ _ _ _))
    (stRel_mk ht (EnvRel.cons (b0 := ⟨x, .prd, T⟩) hr hv hx)) (by omega)

end rules

theorem sim_lifted {Γ h s label args' d Γ' h' ρ η out}
    (hfd : findDef q label = some d) (hsub : ∀ b, occFs Γ' b = true → occFs Γ b = true)
    (hlen : d.ctx.length = args'.length) (hnd : (axIds d.ctx).Nodup)
    (hargs : ∀ i ∈ axIds args', ∃ b, occFs Γ b = true ∧ h b.var = i)
    (hcov : ∀ b, occFs Γ' b = true →
      ∃ i : Nat, (axIds args')[i]? = some (h b.var) ∧ (axIds d.ctx)[i]? = some (h' b.var))
    (hr : EnvRel E q Γ h ρ η)
    (ih : ∀ ρ η out, EnvRel E q Γ' h' ρ η → SimGoalS p q (StRel E q) ⟨s, ρ, out⟩ ⟨d.body, η, out⟩) :
    SimGoalS p q (StRel E q) ⟨s, ρ, out⟩ ⟨.call label args', η, out⟩ := by
  obtain ⟨vs', h1, h2, h3⟩ := lookupAll_total (η := η) args' (by
    intro i hi
    obtain ⟨b, hb, rfl⟩ := hargs i hi
    obtain ⟨_, v', _, hv', _⟩ := hr b hb
    exact ⟨v', hv'⟩)
  obtain ⟨e, he⟩ := bindParams_some d.ctx vs' (by rw [hlen, h2])
  refine prepend_step (step_call q hfd h1 he) (ih ρ e out ?_)
  intro b hb
  obtain ⟨v, v', f1, f2, f3⟩ := hr b (hsub b hb)
  obtain ⟨i, g1, g2⟩ := hcov b hb
  obtain ⟨w, g3, g4⟩ := h3 i _ g1
  rw [f2] at g4; cases g4
  exact ⟨v, v', f1, lookup_bindParams d.ctx vs' e he hnd i _ _ g2 g3, f3⟩

/-! ## the simulation -/

/-- from related states, one step of the Core machine is matched by the AxCut machine -/
theorem sim_tr (hp : ProgRel E q p) {Γ h s t} (htr : Tr E q Γ h s t) :
    ∀ ρ η out, EnvRel E q Γ h ρ η → SimGoalS p q (StRel E q) ⟨s, ρ, out⟩ ⟨t, η, out⟩ := by
  induction htr with
  | exit ha hv => intro ρ η out hr; exact sim_exit ha hv hr
  | print ha hv ht _ => intro ρ η out hr; exact sim_print ha hv ht hr
  | ifz ha hv ht he _ _ => intro ρ η out hr; exact sim_ifz ha hv ht he hr
  | ifc ha hv hb hw ht he _ _ => intro ρ η out hr; exact sim_ifc ha hv hb hw ht he hr
  | call hs hm hocc hids => intro ρ η out hr; exact sim_call hp hs hm hocc hids hr
  | lifted hfd hsub hlen hnd hargs hcov _ ih =>
    intro ρ η out hr; exact sim_lifted hfd hsub hlen hnd hargs hcov hr ih
  | renL hx ht _ => intro ρ η out hr; exact sim_renL hp hx ht hr
  | renR hx ht _ => intro ρ η out hr; exact sim_renR hp hx ht hr
  | knownData hc hd hsig hm hocc hf hm2 ht _ =>
    intro ρ η out hr; exact sim_knownData hp hc hd hsig hm hocc hf hm2 ht hr
  | knownCodata hc hd hsig hm hocc hf hm2 ht _ =>
    intro ρ η out hr; exact sim_knownCodata hp hc hd hsig hm hocc hf hm2 ht hr
  | unkInt hx hα hv hargs => intro ρ η out hr; exact sim_unkInt hx hα hv hargs hr
  | unkData hc hd hx hα hv hshape => intro ρ η out hr; exact sim_unkData hp hc hd hx hα hv hshape hr
  | unkCodata hc hd hx hα hv hshape => intro ρ η out hr; exact sim_unkCodata hp hc hd hx hα hv hshape hr
  | critInt ha hx hbx ht2 ht1 _ _ => intro ρ η out hr; exact sim_critInt ha hx hbx ht2 ht1 hr
  | critData hc hd ha hshape htr ht1 _ _ =>
    intro ρ η out hr; exact sim_critData hp hc hd ha hshape htr ht1 hr
  | critCodata hc hd hx hshape htr ht2 _ _ =>
    intro ρ η out hr; exact sim_critCodata hp hc hd hx hshape htr ht2 hr
  | litMu hav ht _ => intro ρ η out hr; exact sim_litMu hav ht hr
  | litVar hα hw hv hargs => intro ρ η out hr; exact sim_litVar hα hw hv hargs hr
  | opMu ha hb hva hvb hav ht _ => intro ρ η out hr; exact sim_opMu ha hb hva hvb hav ht hr
  | opVar ha hb hva hvb hα hw hv hargs => intro ρ η out hr; exact sim_opVar ha hb hva hvb hα hw hv hargs hr
  | letData hc hd hsig hm hocc hids hav ht _ =>
    intro ρ η out hr; exact sim_letData hp hc hd hsig hm hocc hids hav ht hr
  | letCodata hc hd hsig hm hocc hids hav ht _ =>
    intro ρ η out hr; exact sim_letCodata hp hc hd hsig hm hocc hids hav ht hr
  | invokeData hc hd hsig hm hocc hids hα hv =>
    intro ρ η out hr; exact sim_invokeData hp hc hd hsig hm hocc hids hα hv hr
  | invokeCodata hc hd hsig hm hocc hids hx hv =>
    intro ρ η out hr; exact sim_invokeCodata hp hc hd hsig hm hocc hids hx hv hr
  | switchData hc hd hx hv hshape htr _ => intro ρ η out hr; exact sim_switchData hp hc hd hx hv hshape htr hr
  | switchCodata hc hd hα hv hshape htr _ =>
    intro ρ η out hr; exact sim_switchCodata hp hc hd hα hv hshape htr hr
  | createData hc hd ha hshape htr ht _ _ =>
    intro ρ η out hr; exact sim_createData hp hc hd ha hshape htr ht hr
  | createCodata hc hd hx hshape htr ht _ _ =>
    intro ρ η out hr; exact sim_createCodata hp hc hd hx hshape htr ht hr

/-- the simulation in the form used by `SemRun.lean` -/
theorem sim_stRel (hp : ProgRel E q p) (cs : Core.FsState) (as : State) (h : StRel E q cs as) :
    SimGoalS p q (StRel E q) cs as := by
  obtain ⟨Γ, hm, htr, hr, hout⟩ := h
  obtain ⟨s, ρ, out⟩ := cs
  obtain ⟨t, η, out'⟩ := as
  simp only at htr hr hout
  subst hout
  exact sim_tr hp htr ρ η out hr

/-! ## from steps to runs: finished runs with the reason of getting stuck, and trace prefixes -/

section sim
variable {p : Core.FsProg} {q : AxCut.Prog} {R : Core.FsState → State → Prop}
  (hsim : ∀ cs as, R cs as → SimGoalS p q R cs as)
include hsim

/-- forward: a finished Core run is matched by a finished AxCut run -/
theorem sim_forwardS : ∀ n cs as, R cs as → CFin (Core.fsStepN p n cs).res →
    ∃ m, (iterate q m as).out = (Core.fsStepN p n cs).out ∧
      ResMatchS (Core.fsStepN p n cs).res (iterate q m as).res
  | 0, cs, as, _, hf => by
    simp only [Core.fsStepN] at hf
    rcases hf with ⟨v, h⟩ | ⟨w, h⟩ <;> cases h
  | n + 1, cs, as, hr, hf => by
    have hg := hsim cs as hr
    simp only [SimGoalS] at hg
    simp only [Core.fsStepN] at hf ⊢
    split at hg
    · rename_i cs' hstep
      simp only [hstep] at hf ⊢
      obtain ⟨k, as', hk, hr', _⟩ := hg
      obtain ⟨m, h1, h2⟩ := sim_forwardS n cs' as' hr' hf
      exact ⟨k + m, by rw [iterate_steps hk]; exact h1, by rw [iterate_steps hk]; exact h2⟩
    · rename_i r hstep
      simp only [hstep]
      obtain ⟨k, as', r', hk, hh, hm⟩ := hg
      refine ⟨k + 1, ?_, ?_⟩
      · rw [iterate_steps hk]; simp [iterate, hh]
      · rw [iterate_steps hk]; simpa [iterate, hh] using hm

/-- backward: a finished AxCut run is matched by a finished Core run -/
theorem sim_backwardS : ∀ (m sz : Nat) cs as, R cs as → sizeStmt cs.stmt ≤ sz → Fin (iterate q m as).res →
    ∃ n, (Core.fsStepN p n cs).out = (iterate q m as).out ∧
      ResMatchS (Core.fsStepN p n cs).res (iterate q m as).res := by
  intro m
  induction m using Nat.strongRecOn with
  | _ m ihm =>
    intro sz
    induction sz with
    | zero =>
      intro cs as _ hsz _
      have : 0 < sizeStmt cs.stmt := by
        cases cs.stmt <;> simp [sizeStmt]
      omega
    | succ sz ihs =>
      intro cs as hr hsz hf
      have hg := hsim cs as hr
      simp only [SimGoalS] at hg
      split at hg
      · rename_i cs' hstep
        obtain ⟨k, as', hk, hr', hdec⟩ := hg
        by_cases hk0 : k = 0
        · subst hk0
          have := Steps.zero_eq hk
          subst this
          obtain ⟨n, h1, h2⟩ := ihs cs' as hr' (by have := hdec rfl; omega) hf
          exact ⟨n + 1, by simp only [Core.fsStepN, hstep]; exact h1, by simp only [Core.fsStepN, hstep]; exact h2⟩
        · by_cases hmk : m ≤ k
          · have := iterate_short hk m hmk
            rw [this] at hf
            rcases hf with ⟨v, h⟩ | ⟨w, h⟩ <;> cases h
          · have e : m = k + (m - k) := by omega
            have hit : iterate q m as = iterate q (m - k) as' := by
              conv => lhs; rw [e]
              exact iterate_steps hk _
            rw [hit] at hf ⊢
            obtain ⟨n, h1, h2⟩ := ihm (m - k) (by omega) (sizeStmt cs'.stmt) cs' as' hr' (Nat.le_refl _) hf
            exact ⟨n + 1, by simp only [Core.fsStepN, hstep]; exact h1,
              by simp only [Core.fsStepN, hstep]; exact h2⟩
      · rename_i r hstep
        obtain ⟨k, as', r', hk, hh, hm⟩ := hg
        by_cases hmk : m ≤ k
        · have := iterate_short hk m hmk
          rw [this] at hf
          rcases hf with ⟨v, h⟩ | ⟨w, h⟩ <;> cases h
        · have e : m = k + ((m - k - 1) + 1) := by omega
          have hit : iterate q m as = ⟨cs.out, r'⟩ := by
            conv => lhs; rw [e]
            rw [iterate_steps hk]
            simp [iterate, hh]
          rw [hit]
          exact ⟨1, by simp [Core.fsStepN, hstep], by simpa [Core.fsStepN, hstep] using hm⟩

end sim

/-! ## trace prefixes (runs that do not finish) -/

/-- the AxCut machine only appends to its trace -/
theorem step_next_out {q : AxCut.Prog} {a b : State} (h : step q a = .next b) : a.out <+: b.out := by
  unfold step at h
  repeat' (split at h)
  all_goals first
    | (cases h; first | exact List.prefix_refl _ | exact List.prefix_append _ _)
    | (simp [AxCut.Named.stuck] at h; done)

theorem step_halt_out {q : AxCut.Prog} {a : State} {out r} (h : step q a = .halt out r) : a.out <+: out := by
  unfold step at h
  repeat' (split at h)
  all_goals first
    | (cases h; exact List.prefix_refl _)
    | (simp only [AxCut.Named.stuck, AxCut.Named.StepResult.halt.injEq] at h; rw [← h.1]; exact List.prefix_refl _)
    | (simp at h; done)

theorem iterate_out_le (q : AxCut.Prog) : ∀ m (a : State), a.out <+: (iterate q m a).out
  | 0, a => List.prefix_refl _
  | m + 1, a => by
    simp only [iterate]
    split
    · rename_i b hb
      exact List.IsPrefix.trans (step_next_out hb) (iterate_out_le q m b)
    · rename_i out r hb
      exact step_halt_out hb

theorem iterate_mono (q : AxCut.Prog) : ∀ m j (a : State), (iterate q m a).out <+: (iterate q (m + j) a).out
  | 0, j, a => by simpa [iterate] using iterate_out_le q j a
  | m + 1, j, a => by
    rw [show m + 1 + j = (m + j) + 1 by omega]
    simp only [iterate]
    split
    · exact iterate_mono q m j _
    · exact List.prefix_refl _

theorem iterate_steps_out {q : AxCut.Prog} {k : Nat} {a b : State} (h : Steps q k a b) :
    (iterate q k a).out = b.out := by
  have := iterate_steps h 0
  simp only [Nat.add_zero] at this
  rw [this]; rfl

section pref
variable {p : Core.FsProg} {q : AxCut.Prog} {R : Core.FsState → State → Prop}
  (hsim : ∀ cs as, R cs as → SimGoalS p q R cs as) (hout : ∀ cs as, R cs as → cs.out = as.out)
include hsim hout

/-- forward: whatever the Core machine has printed within `n` steps, the AxCut machine has printed
    within some `m` steps (exactly that) -/
theorem sim_prefix_forward : ∀ n cs as, R cs as →
    ∃ m, (iterate q m as).out = (Core.fsStepN p n cs).out
  | 0, cs, as, hr => ⟨0, by simp [iterate, Core.fsStepN, hout cs as hr]⟩
  | n + 1, cs, as, hr => by
    have hg := hsim cs as hr
    simp only [SimGoalS] at hg
    simp only [Core.fsStepN]
    split at hg
    · rename_i cs' hstep
      simp only [hstep]
      obtain ⟨k, as', hk, hr', _⟩ := hg
      obtain ⟨m, h1⟩ := sim_prefix_forward n cs' as' hr'
      exact ⟨k + m, by rw [iterate_steps hk]; exact h1⟩
    · rename_i r hstep
      simp only [hstep]
      obtain ⟨k, as', r', hk, hh, _⟩ := hg
      exact ⟨k + 1, by rw [iterate_steps hk]; simp [iterate, hh]⟩

/-- backward: whatever the AxCut machine has printed within `m` steps is a prefix of what the Core
    machine prints within some `n` steps -/
theorem sim_prefix_backward : ∀ (m sz : Nat) cs as, R cs as → sizeStmt cs.stmt ≤ sz →
    ∃ n, (iterate q m as).out <+: (Core.fsStepN p n cs).out := by
  intro m
  induction m using Nat.strongRecOn with
  | _ m ihm =>
    intro sz
    induction sz with
    | zero =>
      intro cs as _ hsz
      have : 0 < sizeStmt cs.stmt := by
        cases cs.stmt <;> simp [sizeStmt]
      omega
    | succ sz ihs =>
      intro cs as hr hsz
      have hg := hsim cs as hr
      simp only [SimGoalS] at hg
      split at hg
      · rename_i cs' hstep
        obtain ⟨k, as', hk, hr', hdec⟩ := hg
        by_cases hk0 : k = 0
        · subst hk0
          have := Steps.zero_eq hk
          subst this
          obtain ⟨n, h1⟩ := ihs cs' as hr' (by have := hdec rfl; omega)
          exact ⟨n + 1, by simp only [Core.fsStepN, hstep]; exact h1⟩
        · by_cases hmk : m ≤ k
          · -- the AxCut machine is inside the chunk: its trace is a prefix of the trace at the end of it
            refine ⟨1, ?_⟩
            have e : k = m + (k - m) := by omega
            have h1 := iterate_mono q m (k - m) as
            rw [← e, iterate_steps_out hk, ← hout _ _ hr'] at h1
            simpa [Core.fsStepN, hstep] using h1
          · have e : m = k + (m - k) := by omega
            have hit : iterate q m as = iterate q (m - k) as' := by
              conv => lhs; rw [e]
              exact iterate_steps hk _
            rw [hit]
            obtain ⟨n, h1⟩ := ihm (m - k) (by omega) (sizeStmt cs'.stmt) cs' as' hr' (Nat.le_refl _)
            exact ⟨n + 1, by simp only [Core.fsStepN, hstep]; exact h1⟩
      · rename_i r hstep
        obtain ⟨k, as', r', hk, hh, _⟩ := hg
        have hfin : iterate q (k + 1) as = ⟨cs.out, r'⟩ := by
          rw [iterate_steps hk]; simp [iterate, hh]
        refine ⟨1, ?_⟩
        by_cases hmk : m ≤ k + 1
        · have e : k + 1 = m + (k + 1 - m) := by omega
          have h1 := iterate_mono q m (k + 1 - m) as
          rw [← e, hfin] at h1
          simpa [Core.fsStepN, hstep] using h1
        · have e : m = k + ((m - k - 1) + 1) := by omega
          have hit : iterate q m as = ⟨cs.out, r'⟩ := by
            conv => lhs; rw [e]
            rw [iterate_steps hk]
            simp [iterate, hh]
          rw [hit]
          simp [Core.fsStepN, hstep]

end pref

/-! ## the entry of the two runs (the first half of `Sem.sem_runs`, with the related entry states exposed) -/

/-- under the hypotheses of `C04_sem`: the definitions are related, and either both machines start, in
    related states with empty traces, or both refuse to start (wrong number of arguments) -/
theorem sem_entry {p : Core.FsProg} {q : AxCut.Prog} (args : List (BitVec 64))
    (hwt : wtFsScopedCheck p = true) (hu : uniqueIdsCheck p = true) (hb : idsBoundedCheck p = true)
    (hint : mainIntParams p = true)
    (hmain : ∃ d ds, p.defs = d :: ds ∧ d.name.name = "main") (h : shrinkProg p = .ok q) :
    ProgRel (progTEnv p) q p ∧
    ((∃ cs as, StRel (progTEnv p) q cs as ∧ cs.out = [] ∧
        (∀ n, Core.fsRun p args n = Core.fsStepN p n cs) ∧
        (∀ m, AxCut.Named.run q args m = iterate q m as)) ∨
     ((∀ n, Core.fsRun p args n = ⟨[], .stuck .arity⟩) ∧
      (∀ m, AxCut.Named.run q args m = ⟨[], .stuck "main: arity"⟩))) := by
  have hp := progRel_of_shrink hwt hu hb h
  obtain ⟨d, ds, hdefs, hname⟩ := hmain
  have hmem : d ∈ p.defs := by rw [hdefs]; simp
  have hfind : p.defs.find? (fun d => d.name.name = Core.mainName) = some d := by
    simp [hdefs, hname, Core.mainName]
  have hints : ∀ b ∈ d.ctx, b.chi = .prd ∧ b.ty = .i64 := by
    simp only [mainIntParams, hdefs, List.all_eq_true, Bool.and_eq_true, beq_iff_eq] at hint
    exact hint
  -- the first definition of `q`
  have hq : ∃ d' rest, q.defs = d' :: rest ∧ d'.ctx = shrinkContext p.codataTypes d.ctx ∧
      Tr (progTEnv p) q d.ctx hId d.body d'.body := by
    have hwt' := hwt
    simp only [wtFsScopedCheck, wtFsCheck, Bool.and_eq_true, List.all_eq_true] at hwt'
    simp only [uniqueIdsCheck, List.all_eq_true] at hu
    simp only [idsBoundedCheck, List.all_eq_true] at hb
    have h' := h
    simp only [shrinkProg] at h'
    split at h'
    · cases h'
    · split at h'
      · cases h'
      · split at h'
        · cases h'
        · rename_i defs used m hd
          simp only [Except.ok.injEq] at h'
          subst h'
          obtain ⟨_, _, hhead, _⟩ := shrinkDefs_spec _ _ _ _ _ _ hd
          obtain ⟨g, _, hgnd, _, hperm⟩ := shrinkDefs_labels _ _ _ _ _ _ hd
          obtain ⟨d', rest, e1, body, st0, st1, rfl, h3, h4, h7⟩ := hhead d ds hdefs
          refine ⟨_, rest, e1, rfl, ?_⟩
          have hgood : Good ⟨defs, (p.dataTypes ++ [contInt]).map (shrinkDeclaration p.codataTypes) ++
              p.codataTypes.map (shrinkDeclaration p.codataTypes), m⟩ st1 := by
            intro d'' hd''
            obtain ⟨g1, x, g2, g3⟩ := h7 d'' hd''
            exact good_of_labels (pnames := p.defs.map (·.name)) (by simpa [List.map_map, Function.comp_def] using hperm) hgnd d'' g1 x g2 g3
          have hE : EnvMatches ⟨p.dataTypes ++ [contInt], p.codataTypes, d.name.name⟩ (progTEnv p) := ⟨rfl, rfl⟩
          exact (shrinkStmt_tr _ hE (sizeStmt d.body + 1) d.ctx id d.body st0 body st1
            (by rw [renStmt_id]; exact h3) hgood (hwt'.1.2 d hmem) (hwt'.2 d hmem)
            (invB_start (hu d hmem) (hb d hmem) h4)).1 hId (agree_hId _)
  obtain ⟨d', rest, hqdefs, hctx, htr⟩ := hq
  have hnd : (d.ctx.map fun b => b.var.id).Nodup := by
    simp only [uniqueIdsCheck, List.all_eq_true] at hu
    have hud := hu d hmem
    simp only [uniqueIdsDef, nodupNat_iff, List.map_append] at hud
    exact (List.nodup_append.mp hud).1
  have hlen' : d'.ctx.length = d.ctx.length := by rw [hctx]; simp [shrinkContext]
  by_cases hlen : d.ctx.length = args.length
  · -- both machines start
    obtain ⟨ρ, e, h4, h5, h6⟩ := EnvRel.bind (E := progTEnv p) (q := q) envRel_nil d.ctx d'.ctx _ _
      (vrelL_ints d.ctx args hints hlen) hlen'
      (by rw [hctx, axIds_shrinkContext]; exact hnd) (by intro i _ b hb; simp [occFs, lookupFs] at hb)
    rw [hctx, axIds_shrinkContext, setMany_hId] at h6
    simp only [List.append_nil] at h6
    have hcore : ∀ n, Core.fsRun p args n = Core.fsStepN p n ⟨d.body, ρ, []⟩ := by
      intro n
      simp only [Core.fsRun, hfind, (entryEnv_int d.ctx args hints).1 hlen, h4]
    have hax : ∀ m, AxCut.Named.run q args m = AxCut.Named.iterate q m ⟨d'.body, e, []⟩ := by
      intro m
      simp only [AxCut.Named.run, hqdefs, h5]
    have hrel : StRel (progTEnv p) q ⟨d.body, ρ, []⟩ ⟨d'.body, e, []⟩ := stRel_mk htr h6
    exact ⟨hp, .inl ⟨_, _, hrel, rfl, hcore, hax⟩⟩
  · -- wrong number of arguments: both machines refuse to start
    have hcore : ∀ n, Core.fsRun p args n = ⟨[], .stuck .arity⟩ := by
      intro n
      simp only [Core.fsRun, hfind, (entryEnv_int d.ctx args hints).2 hlen]
    have hax : ∀ m, AxCut.Named.run q args m = ⟨[], .stuck "main: arity"⟩ := by
      intro m
      simp only [AxCut.Named.run, hqdefs, bindParams_none d'.ctx (args.map Value.int) (by simp [hlen', hlen])]
    exact ⟨hp, .inr ⟨hcore, hax⟩⟩

end Scc.Core2AxCut.Sem.Strong
