/-
  Scc.Core2AxCut.TypedProg — proof file for the typing part of C04 / C12: from statements to programs.
  `shrinkProg_wf`: every definition of `shrinkProg p` — the images of the definitions of `p` AND the
  definitions lifted out of them — is `WfDef` (duplicate-free parameters `≤ max_id`, body `TW`-typed), for
  every `p` accepted by `wtFsScopedCheck`, `uniqueIdsCheck`, `idsBoundedCheck` and `fsTypesOk`.
  Consequences: `shrinkProg_wtAxCheck` (the AxCut checker accepts) and `shrinkProg_wfNonLinear` (the
  precondition of C05).
-/
import Scc.Core2AxCut.TypedCut
import Scc.Core2AxCut.TypedSpec
import Scc.Core2AxCut.SemProg

namespace Scc.Core2AxCut.Typed

open Scc Scc.AxCut Scc.Core2AxCut Scc.Core2AxCut.Sem
open Scc.AxCut.Named (findDef)

local notation "sid" => shrinkIdentifier

/-! ## every definition of the output: image of a source definition, or lifted out of one -/

/-- the run of `shrink` on the body of the source definition `d` -/
def DefRun (data codata : List Core.TypeDecl) (lo hi : Nat) (defs : List AxCut.Def) (used : List Core.Ident)
    (d : Core.FsDef) (body : AxCut.Stmt) (st1 : St) : Prop :=
  ∃ st0, shrinkStmt ⟨data, codata, d.name.name⟩ (sizeStmt d.body + 1) d.body st0 = .ok (body, st1) ∧
    lo ≤ st0.maxId ∧ st0.lifted = [] ∧ st1.maxId ≤ hi ∧
    (⟨sid d.name, shrinkContext codata d.ctx, body⟩ : AxCut.Def) ∈ defs ∧
    ∀ d'' ∈ st1.lifted, d'' ∈ defs ∧ ∃ x : Core.Ident, d''.name = sid x ∧ ∀ u ∈ used, x.print ≠ u.print

theorem shrinkDefs_all {data codata : List Core.TypeDecl} : ∀ (ds : List Core.FsDef) (used : List Core.Ident)
    (maxId : Nat) defs used' maxId', shrinkDefs data codata ds used maxId = .ok (defs, used', maxId') →
    maxId ≤ maxId' ∧ (∀ u ∈ used, u ∈ used') ∧
    ∀ d' ∈ defs, ∃ d ∈ ds, ∃ body st1, DefRun data codata maxId maxId' defs used d body st1 ∧
      (d' = ⟨sid d.name, shrinkContext codata d.ctx, body⟩ ∨ d' ∈ st1.lifted)
  | [], used, maxId, defs, used', maxId', h => by
    simp only [shrinkDefs, Except.ok.injEq, Prod.mk.injEq] at h
    obtain ⟨rfl, rfl, rfl⟩ := h
    exact ⟨Nat.le_refl _, fun u hu => hu, by simp⟩
  | d :: ds, used, maxId, defs, used', maxId', h => by
    simp only [shrinkDefs] at h
    split at h
    · cases h
    · rename_i defs1 used1 maxId1 h1
      split at h
      · cases h
      · rename_i rest used2 maxId2 h2
        simp only [Except.ok.injEq, Prod.mk.injEq] at h
        obtain ⟨rfl, rfl, rfl⟩ := h
        obtain ⟨m2, u2, a2⟩ := shrinkDefs_all ds used1 maxId1 rest used2 maxId2 h2
        simp only [shrinkDef] at h1
        split at h1
        · cases h1
        · rename_i body st hb
          simp only [Except.ok.injEq, Prod.mk.injEq] at h1
          obtain ⟨rfl, rfl, rfl⟩ := h1
          have m1 : maxId ≤ st.maxId := (shrinkStmt_mono _ _ _ _ _ _ hb).le
          obtain ⟨g, l, hu, hl, _, hdis, hperm⟩ := shrinkStmt_labelsExt _ _ _ _ _ _ hb
          simp only [List.append_nil] at hl
          simp only at hu
          refine ⟨by omega, fun u hu' => u2 u (by rw [hu]; simp [hu']), ?_⟩
          intro d' hd'
          rcases List.mem_append.mp hd' with hd' | hd'
          · refine ⟨d, by simp, body, st, ⟨_, hb, Nat.le_refl _, rfl, m2, by simp, ?_⟩, ?_⟩
            · intro d'' hd''
              refine ⟨by simp [hd''], ?_⟩
              have : d''.name ∈ l.map (·.name) := List.mem_map.mpr ⟨d'', by rw [← hl]; exact hd'', rfl⟩
              obtain ⟨x, hx, hxe⟩ := List.mem_map.mp ((hperm.mem_iff).mp this)
              exact ⟨x, hxe.symm, hdis x hx⟩
            · rcases List.mem_cons.mp hd' with rfl | hd'
              · exact .inl rfl
              · exact .inr hd'
          · obtain ⟨d0, hd0, body0, st1, ⟨st0, r1, r2, r3, r4, r5, r6⟩, r7⟩ := a2 d' hd'
            refine ⟨d0, by simp [hd0], body0, st1, ⟨st0, r1, by omega, r3, r4, by simp [r5], ?_⟩, r7⟩
            intro d'' hd''
            obtain ⟨g1, x, g2, g3⟩ := r6 d'' hd''
            exact ⟨by simp [g1], x, g2, fun u hu' => g3 u (by rw [hu]; simp [hu'])⟩

/-! ## declarations and signatures of the output program -/

theorem find_shrinkDeclaration (cod : List Core.TypeDecl) (n : Core.Ident) : ∀ (l : List Core.TypeDecl),
    (l.map (shrinkDeclaration cod)).find? (fun d => d.name == sid n) =
      (l.find? (fun d => d.name == n)).map (shrinkDeclaration cod)
  | [] => rfl
  | d :: l => by
    simp only [List.map_cons, List.find?_cons, shrinkDeclaration, sid_beq]
    cases d.name == n
    · exact find_shrinkDeclaration cod n l
    · rfl

theorem envOK_prog {p : Core.FsProg} (hnc : noContName p = true) (hty : fsTypesOk p = true) :
    EnvOK (progTEnv p) ((p.dataTypes ++ [contInt]).map (shrinkDeclaration p.codataTypes) ++
      p.codataTypes.map (shrinkDeclaration p.codataTypes)) := by
  simp only [noContName, Bool.and_eq_true, Bool.not_eq_true', List.any_eq_false, beq_iff_eq] at hnc
  simp only [fsTypesOk, fsTypesDisjoint, xtorsDistinct, Bool.and_eq_true, List.all_eq_true,
    decide_eq_true_eq, List.mem_append] at hty
  obtain ⟨hdis, hxnd⟩ := hty
  have hcontName : contInt.name = contName := rfl
  refine ⟨?_, ?_, ?_⟩
  · intro ty d hd
    cases ty with
    | i64 => simp [declOf] at hd
    | decl n =>
      simp only [declOf, progTEnv] at hd
      show List.find? (fun d : AxCut.TypeDecl => d.name == sid n) _ = _
      rw [List.find?_append, find_shrinkDeclaration, find_shrinkDeclaration]
      by_cases hc : isCodata p.codataTypes (.decl n) = true
      · simp only [hc, if_true] at hd
        -- `n` is the name of a codata type: no data type and not `_Cont`
        have hmem := List.mem_of_find?_eq_some hd
        have hname : d.name = n := by simpa using List.find?_some hd
        have hnone : (p.dataTypes ++ [contInt]).find? (fun d => d.name == n) = none := by
          rw [List.find?_eq_none]
          intro dd hdd
          simp only [List.mem_append, List.mem_singleton] at hdd
          simp only [beq_iff_eq]
          rcases hdd with hdd | rfl
          · exact fun e => hdis dd hdd d hmem (by rw [e, hname])
          · intro e
            exact hnc.2 d hmem (by rw [hname, ← e])
        rw [hnone, hd]
        rfl
      · have hc' : isCodata p.codataTypes (.decl n) = false := by simpa using hc
        simp only [hc', Bool.false_eq_true, if_false] at hd
        rw [hd]
        rfl
  · simp only [declOf, progTEnv]
    have hc : isCodata p.codataTypes (.decl contName) = false := by
      simp only [isCodata, List.any_eq_false, beq_iff_eq]
      exact fun c hc => hnc.2 c hc
    simp only [hc, Bool.false_eq_true, if_false]
    have : p.dataTypes.find? (fun d => d.name == contName) = none := by
      rw [List.find?_eq_none]
      intro dd hdd
      simp only [beq_iff_eq]
      exact hnc.1 dd hdd
    rw [List.find?_append, this]
    simp [contInt, contName]
  · intro ty d hd
    cases ty with
    | i64 => simp [declOf] at hd
    | decl n =>
      simp only [declOf, progTEnv] at hd
      by_cases hc : isCodata p.codataTypes (.decl n) = true
      · simp only [hc, if_true] at hd
        exact hxnd d (.inr (List.mem_of_find?_eq_some hd))
      · simp only [hc] at hd
        have := List.mem_of_find?_eq_some hd
        simp only [List.mem_append, List.mem_singleton] at this
        rcases this with h' | rfl
        · exact hxnd d (.inl h')
        · simp [contInt]

/-! ## the main theorem -/

theorem agreeT_start {cod : List Core.TypeDecl} {d : Core.FsDef} {maxId m : Nat} (hu : uniqueIdsDef d = true)
    (hb : idsBoundedDef maxId d = true) (hm : maxId ≤ m) :
    AgreeT cod d.ctx id d.body.binderIds m (shrinkContext cod d.ctx) := by
  simp only [uniqueIdsDef, nodupNat_iff, List.map_append, bindersStmt_ids] at hu
  simp only [idsBoundedDef, List.all_eq_true, List.mem_append, decide_eq_true_eq] at hb
  have hnd := List.nodup_append.mp hu
  refine ⟨?_, ?_, by simp only [NodupIds, ids_shrinkContext]; exact hnd.1⟩
  · intro b hocc
    have : renBinding id b = b := by cases b; rfl
    rw [this]
    exact List.mem_map.mpr ⟨b, occFs_mem hocc, rfl⟩
  · intro i hi
    rw [ids_shrinkContext] at hi
    exact ⟨fun hc => hnd.2.2 _ hi _ hc rfl, Nat.le_trans (hb i (.inl (by simpa [Core.ctxIds] using hi))) hm⟩

/-- **shrinking preserves typing**: every definition of the output program is well-formed -/
theorem shrinkProg_wf {p : Core.FsProg} {q : AxCut.Prog} (hwt : wtFsScopedCheck p = true)
    (hu : uniqueIdsCheck p = true) (hb : idsBoundedCheck p = true) (hty : fsTypesOk p = true)
    (h : shrinkProg p = .ok q) : ∀ d ∈ q.defs, WfDef q.types q.sigs q.maxId d := by
  simp only [wtFsScopedCheck, wtFsCheck, Bool.and_eq_true, List.all_eq_true] at hwt
  simp only [uniqueIdsCheck, List.all_eq_true] at hu
  simp only [idsBoundedCheck, List.all_eq_true] at hb
  obtain ⟨⟨hnc, hwts⟩, hscs⟩ := hwt
  simp only [shrinkProg] at h
  split at h
  · cases h
  · split at h
    · cases h
    · split at h
      · cases h
      · rename_i defs used m hd
        simp only [Except.ok.injEq] at h
        subst h
        obtain ⟨hmm, _, hall⟩ := shrinkDefs_all _ _ _ _ _ _ hd
        obtain ⟨_, _, _, hspec⟩ := shrinkDefs_spec _ _ _ _ _ _ hd
        obtain ⟨g, _, hgnd, _, hperm⟩ := shrinkDefs_labels _ _ _ _ _ _ hd
        have hT := envOK_prog hnc hty
        -- signatures of the source definitions
        have hS : SigOK (progTEnv p) (Prog.sigs ⟨defs, (p.dataTypes ++ [contInt]).map (shrinkDeclaration p.codataTypes) ++
            p.codataTypes.map (shrinkDeclaration p.codataTypes), m⟩) := by
          intro f ps hf
          simp only [findSig, progTEnv] at hf
          split at hf
          · rename_i pr hpr
            simp only [Option.some.injEq] at hf
            subst hf
            rw [List.find?_map] at hpr
            cases hfd : p.defs.find? ((fun pr : Core.Ident × Core.Ctx => pr.1 == f) ∘ fun d => (d.name, d.ctx)) with
            | none => rw [hfd] at hpr; cases hpr
            | some d0 =>
              rw [hfd] at hpr
              simp only [Option.map_some, Option.some.injEq] at hpr
              subst hpr
              have hname : d0.name = f := by simpa using List.find?_some hfd
              have hmem0 := List.mem_of_find?_eq_some hfd
              have hfd' : p.defs.find? (fun d => d.name = f) = some d0 := by
                rw [← hfd]
                congr 1
                funext d
                simp only [Function.comp]
                by_cases e : d.name = f <;> simp [e]
              obtain ⟨d', h1, body, st0, st1, rfl, _⟩ := hspec f d0 (List.mem_map.mpr ⟨d0, hmem0, hname⟩) hfd'
              exact findSig_of_findDef (q := ⟨defs, _, m⟩) (by simpa [findDef] using h1)
          · cases hf
        intro d' hd'
        obtain ⟨d, hmem, body, st1, ⟨st0, h3, h4, h5, h6, _, h7⟩, hcase⟩ := hall d' hd'
        have hgood : Good ⟨defs, (p.dataTypes ++ [contInt]).map (shrinkDeclaration p.codataTypes) ++
            p.codataTypes.map (shrinkDeclaration p.codataTypes), m⟩ st1 := by
          intro d'' hd''
          obtain ⟨g1, x, g2, g3⟩ := h7 d'' hd''
          exact good_of_labels (pnames := p.defs.map (·.name))
            (by simpa [List.map_map, Function.comp_def] using hperm) hgnd d'' g1 x g2 g3
        have hE : EnvMatches ⟨p.dataTypes ++ [contInt], p.codataTypes, d.name.name⟩ (progTEnv p) := ⟨rfl, rfl⟩
        have hud := hu d hmem
        have post := shrinkStmt_typed _ hE hT hS (sizeStmt d.body + 1) d.ctx id d.body st0 body st1
          (by rw [renStmt_id]; exact h3) hgood h6 (hwts d hmem) (hscs d hmem)
          (invB_start hud (hb d hmem) h4)
        obtain ⟨t1, t2⟩ := post _ (agreeT_start (cod := p.codataTypes) hud (hb d hmem) h4)
        have hndc : (d.ctx.map fun b => b.var.id).Nodup := by
          simp only [uniqueIdsDef, nodupNat_iff, List.map_append] at hud
          exact (List.nodup_append.mp hud).1
        rcases hcase with rfl | hl
        · refine ⟨by simp only [NodupIds, ids_shrinkContext]; exact hndc, ?_, t1⟩
          intro i hi
          rw [ids_shrinkContext] at hi
          have hbd := hb d hmem
          simp only [idsBoundedDef, List.all_eq_true, List.mem_append, decide_eq_true_eq] at hbd
          exact Nat.le_trans (hbd i (.inl (by simpa [Core.ctxIds] using hi))) hmm
        · rcases t2 d' hl with h' | h'
          · rw [h5] at h'; cases h'
          · exact h'

theorem shrinkProg_wtAxCheck {p : Core.FsProg} {q : AxCut.Prog} (hwt : wtFsScopedCheck p = true)
    (hu : uniqueIdsCheck p = true) (hb : idsBoundedCheck p = true) (hty : fsTypesOk p = true)
    (h : shrinkProg p = .ok q) : AxCut.Named.wtAxCheck q = .ok () := by
  have hw := shrinkProg_wf hwt hu hb hty h
  simp only [Named.wtAxCheck]
  have : q.defs.find? (fun d => !(Named.wtDefB q d)) = none := by
    rw [List.find?_eq_none]
    intro d hd
    obtain ⟨h1, _, h3⟩ := hw d hd
    have : Named.wtDefB q d = true := TW.wtStmtB d.body d.ctx h3 h1
    simp [this]
  rw [this]

theorem shrinkProg_wfNonLinear {p : Core.FsProg} {q : AxCut.Prog} (hwt : wtFsScopedCheck p = true)
    (hu : uniqueIdsCheck p = true) (hb : idsBoundedCheck p = true) (hty : fsTypesOk p = true)
    (h : shrinkProg p = .ok q) : AxCut.WfNonLinear q := by
  intro d hd
  obtain ⟨h1, h2, h3⟩ := shrinkProg_wf hwt hu hb hty h d hd
  exact ⟨h1, h2, TW.toWT d.body d.ctx d.ctx h3 (SameMem.refl _)⟩

end Scc.Core2AxCut.Typed
