/-
  Scc.Core2AxCut.Proofs — lemmas about the shrinking model (`Model.lean`) and the shape typing of
  focused Core (`FsTyping.lean`): size/typing invariance under id-substitution, totality of
  `shrinkStmt` on well-typed input with the fuel used by `shrinkDef` (no panic, no fuel error; the
  label-drawing loop of `lift` never exhausts its fuel by `drawLabel_ok` of `Labels.lean`).
-/
import Scc.Core2AxCut.Model
import Scc.Core2AxCut.Labels
import Scc.Core2AxCut.FsTyping

namespace Scc.Core2AxCut

open Scc

/-! ## sizes -/

mutual
  theorem sizeTerm_subst (σ) : ∀ t, sizeTerm (substTerm σ t) = sizeTerm t
    | .var _ _ _ => by simp [substTerm, sizeTerm]
    | .lit _ => by simp [substTerm, sizeTerm]
    | .op _ _ _ => by simp [substTerm, sizeTerm]
    | .mu _ _ _ s => by simp [substTerm, sizeTerm, sizeStmt_subst σ s]
    | .xtor _ _ _ _ => by simp [substTerm, sizeTerm]
    | .xcase _ _ cs => by simp [substTerm, sizeTerm, sizeClauses_subst σ cs]
  theorem sizeClauses_subst (σ) : ∀ cs, sizeClauses (substClauses σ cs) = sizeClauses cs
    | .nil => by simp [substClauses, sizeClauses]
    | .cons _ _ b r => by simp [substClauses, sizeClauses, sizeStmt_subst σ b, sizeClauses_subst σ r]
  theorem sizeStmt_subst (σ) : ∀ s, sizeStmt (substStmt σ s) = sizeStmt s
    | .cut _ p c => by simp [substStmt, sizeStmt, sizeTerm_subst σ p, sizeTerm_subst σ c]
    | .ifc _ _ _ t e => by simp [substStmt, sizeStmt, sizeStmt_subst σ t, sizeStmt_subst σ e]
    | .print _ _ n => by simp [substStmt, sizeStmt, sizeStmt_subst σ n]
    | .call _ _ => by simp [substStmt, sizeStmt]
    | .exit _ => by simp [substStmt, sizeStmt]
end

theorem sizeStmt_pos : ∀ s, 0 < sizeStmt s
  | .cut _ _ _ => by simp [sizeStmt]
  | .ifc _ _ _ _ _ => by simp [sizeStmt]
  | .print _ _ _ => by simp [sizeStmt]
  | .call _ _ => by simp [sizeStmt]
  | .exit _ => by simp [sizeStmt]

theorem findClause_size {x ctx body} : ∀ cs, findClause x cs = some (ctx, body) →
    sizeStmt body < sizeClauses cs
  | .nil, h => by simp [findClause] at h
  | .cons x' c b r, h => by
    simp only [findClause] at h
    split at h
    · simp at h; obtain ⟨_, rfl⟩ := h; simp [sizeClauses]; omega
    · have := findClause_size r h; simp [sizeClauses]; omega

/-! ## shape typing is invariant under id-substitution -/

theorem sigMatch_subst (σ) : ∀ a s, sigMatch (substCtx σ a) s = sigMatch a s
  | [], [] => by simp [substCtx, sigMatch]
  | [], _ :: _ => by simp [substCtx, sigMatch]
  | _ :: _, [] => by simp [substCtx, sigMatch]
  | a :: as, s :: ss => by
    have := sigMatch_subst σ as ss
    simp only [substCtx] at this
    simp [substCtx, sigMatch, substBinding, this]

mutual
  theorem wtTerm_subst (E σ side T) : ∀ t, wtTerm E side T (substTerm σ t) = wtTerm E side T t
    | .var _ _ _ => by simp [substTerm, wtTerm]
    | .lit _ => by simp [substTerm, wtTerm]
    | .op _ _ _ => by simp [substTerm, wtTerm]
    | .mu _ _ _ s => by simp [substTerm, wtTerm, wtStmt_subst E σ s]
    | .xtor _ _ _ _ => by simp [substTerm, wtTerm, sigMatch_subst]
    | .xcase _ _ cs => by simp [substTerm, wtTerm, wtClauses_subst E σ _ cs]
  theorem wtClauses_subst (E σ) : ∀ xs cs, wtClauses E xs (substClauses σ cs) = wtClauses E xs cs
    | [], .nil => by simp [substClauses, wtClauses]
    | _ :: _, .nil => by simp [substClauses, wtClauses]
    | [], .cons _ _ _ _ => by simp [substClauses, wtClauses]
    | x :: xs, .cons _ _ b r => by
      simp [substClauses, wtClauses, wtStmt_subst E σ b, wtClauses_subst E σ xs r]
  theorem wtStmt_subst (E σ) : ∀ s, wtStmt E (substStmt σ s) = wtStmt E s
    | .cut _ p c => by simp [substStmt, wtStmt, wtTerm_subst E σ _ _ p, wtTerm_subst E σ _ _ c]
    | .ifc _ _ _ t e => by simp [substStmt, wtStmt, wtStmt_subst E σ t, wtStmt_subst E σ e]
    | .print _ _ n => by simp [substStmt, wtStmt, wtStmt_subst E σ n]
    | .call _ _ => by simp [substStmt, wtStmt, sigMatch_subst]
    | .exit _ => by simp [substStmt, wtStmt]
end


/-! ## lawful equality tests of the syntax types (the derived `BEq` instances) -/

instance : LawfulBEq Core.Ident where
  eq_of_beq := by
    intro a b h
    cases a; cases b
    simp only [BEq.beq, Core.instBEqIdent.beq] at h
    simp_all
  rfl := by
    intro a; cases a; simp [BEq.beq, Core.instBEqIdent.beq]

instance : LawfulBEq Core.Ty where
  eq_of_beq := by
    intro a b h
    cases a <;> cases b
    · rfl
    · simp only [BEq.beq, Core.instBEqTy.beq] at h; cases h
    · simp only [BEq.beq, Core.instBEqTy.beq] at h; cases h
    · simp only [BEq.beq, Core.instBEqTy.beq] at h
      rename_i x y
      have : (x == y) = true := h
      rw [eq_of_beq this]
  rfl := by
    intro a; cases a
    · simp [BEq.beq, Core.instBEqTy.beq]
    · simp only [BEq.beq, Core.instBEqTy.beq]
      exact (beq_self_eq_true (_ : Core.Ident))

instance : LawfulBEq Core.PC where
  eq_of_beq := by
    intro a b h
    cases a <;> cases b <;> first | rfl | (simp [BEq.beq, Core.instBEqPC.beq] at h; cases h)
  rfl := by
    intro a; cases a <;> simp [BEq.beq, Core.instBEqPC.beq]

/-! ## totality of shrinking on well-typed input (no panic, no fuel error) -/

/-- the read-only state agrees with the typing environment -/
def EnvMatches (env : Env) (E : TEnv) : Prop := env.data = E.data ∧ env.codata = E.codata

/-- the recursive call succeeds on well-typed statements of size ≤ n -/
def RecOk (E : TEnv) (n : Nat) (rec : Rec) : Prop :=
  ∀ s st, wtStmt E s = true → sizeStmt s ≤ n → ∃ r, rec s st = .ok r

theorem lookup_of_declOf {env : Env} {E : TEnv} (hE : EnvMatches env E) {name d}
    (h : declOf E (.decl name) = some d) :
    lookupTypeDeclaration name (if isCodata env.codata (.decl name) then env.codata else env.data) = .ok d := by
  obtain ⟨h1, h2⟩ := hE
  simp only [declOf] at h
  rw [h1, h2]
  split <;> rename_i hc <;> simp [hc] at h <;> simp [lookupTypeDeclaration, h]

theorem findClause_of_wt {E : TEnv} {name : Core.Ident} : ∀ xs cs x, wtClauses E xs cs = true →
    xs.find? (fun x => x.name == name) = some x →
    ∃ ctx body, findClause name cs = some (ctx, body) ∧ wtStmt E body = true
  | [], .nil, _, _, h => by simp at h
  | [], .cons _ _ _ _, _, h, _ => by simp [wtClauses] at h
  | _ :: _, .nil, _, h, _ => by simp [wtClauses] at h
  | y :: ys, .cons tag ctx body rest, x, h, hf => by
    simp only [wtClauses, Bool.and_eq_true, beq_iff_eq] at h
    obtain ⟨⟨⟨ht, _⟩, hb⟩, hr⟩ := h
    simp only [List.find?_cons] at hf
    simp only [findClause]
    split at hf
    · rename_i hy
      have : tag = name := by rw [ht]; exact eq_of_beq hy
      simp only [this, beq_self_eq_true, if_true]
      exact ⟨ctx, body, rfl, hb⟩
    · rename_i hy
      have : ¬ (tag == name) = true := by rw [ht]; simpa using hy
      simp only [this]
      exact findClause_of_wt ys rest x hr hf

theorem shrinkClauses_ok {env : Env} {E : TEnv} {n : Nat} {rec : Rec} (hrec : RecOk E n rec) :
    ∀ xs cs st, wtClauses E xs cs = true → sizeClauses cs ≤ n → ∃ r, shrinkClauses env rec cs st = .ok r
  | [], .nil, st, _, _ => by simp [shrinkClauses]
  | [], .cons _ _ _ _, _, h, _ => by simp [wtClauses] at h
  | _ :: _, .nil, _, h, _ => by simp [wtClauses] at h
  | y :: ys, .cons tag ctx body rest, st, h, hs => by
    simp only [wtClauses, Bool.and_eq_true] at h
    obtain ⟨⟨_, hb⟩, hr⟩ := h
    simp only [sizeClauses] at hs
    obtain ⟨⟨b', st1⟩, h1⟩ := hrec body st hb (by omega)
    obtain ⟨⟨r', st2⟩, h2⟩ := shrinkClauses_ok (env := env) hrec ys rest st1 hr (by omega)
    simp [shrinkClauses, h1, h2]

theorem lift_ok {env : Env} {E : TEnv} {n : Nat} {rec : Rec} (hrec : RecOk E n rec) (s st)
    (h : wtStmt E s = true) (hs : sizeStmt s ≤ n) : ∃ r, lift env rec s st = .ok r := by
  simp only [lift]
  obtain ⟨⟨label, st1⟩, hd⟩ := drawLabel_ok ("lift_" ++ env.currentLabel ++ "_") (liftFresh (tfvStmt s []) st).2
  simp only [hd]
  obtain ⟨⟨b, st3⟩, hr⟩ := hrec (substStmt (liftFresh (tfvStmt s []) st).1.2 s)
    { st1 with usedLabels := label :: st1.usedLabels }
    (by rw [wtStmt_subst]; exact h) (by rw [sizeStmt_subst]; exact hs)
  simp [hr]


theorem tyOk_decl {E : TEnv} {name} (h : tyOk E (.decl name) = true) : ∃ d, declOf E (.decl name) = some d := by
  simp only [tyOk] at h
  exact Option.isSome_iff_exists.mp h

theorem shrinkUnknownCuts_ok {env : Env} {E : TEnv} (hE : EnvMatches env E) (v1 v2 ty st)
    (h : tyOk E ty = true) : ∃ r, shrinkUnknownCuts env v1 v2 ty st = .ok r := by
  cases ty with
  | i64 => simp [shrinkUnknownCuts]
  | decl name =>
    obtain ⟨d, hd⟩ := tyOk_decl h
    simp only [shrinkUnknownCuts, lookup_of_declOf hE hd]
    exact ⟨_, rfl⟩

theorem shrinkKnownCuts_ok {E : TEnv} {n : Nat} {rec : Rec} (hrec : RecOk E n rec)
    (name args xs cs x st) (hcs : wtClauses E xs cs = true)
    (hx : xs.find? (fun x => x.name == name) = some x) (hs : sizeClauses cs ≤ n + 1) :
    ∃ r, shrinkKnownCuts rec name args cs st = .ok r := by
  obtain ⟨ctx, body, hf, hb⟩ := findClause_of_wt xs cs x hcs hx
  have := findClause_size cs hf
  simp only [shrinkKnownCuts, hf]
  exact hrec _ st (by rw [wtStmt_subst]; exact hb) (by rw [sizeStmt_subst]; omega)

theorem criticalDecl_ok {env : Env} {E : TEnv} {n : Nat} {rec : Rec} (hrec : RecOk E n rec)
    (d name tt vK sK vE sE st) (hK : wtStmt E sK = true) (hEx : wtStmt E sE = true)
    (hsK : sizeStmt sK ≤ n) (hsE : sizeStmt sE ≤ n) :
    ∃ r, criticalDecl env rec d name tt vK sK vE sE st = .ok r := by
  simp only [criticalDecl]
  have hexp : ∃ r, (if inlineExpand d.xtors.length sE = true then rec sE st else lift env rec sE st) = .ok r := by
    split
    · exact hrec sE st hEx hsE
    · exact lift_ok hrec sE st hEx hsE
  obtain ⟨⟨e, st1⟩, he⟩ := hexp
  simp only [he]
  obtain ⟨⟨k, st3⟩, hk⟩ := hrec sK (criticalClauses env vE tt e d.xtors st1).2 hK hsK
  simp [hk]

theorem shrinkCriticalPairs_ok {env : Env} {E : TEnv} {n : Nat} {rec : Rec} (hE : EnvMatches env E)
    (hrec : RecOk E n rec) (v1 s1 v2 s2 ty st) (hty : tyOk E ty = true)
    (h1 : wtStmt E s1 = true) (h2 : wtStmt E s2 = true) (hs1 : sizeStmt s1 ≤ n) (hs2 : sizeStmt s2 ≤ n) :
    ∃ r, shrinkCriticalPairs env rec v1 s1 v2 s2 ty st = .ok r := by
  cases ty with
  | i64 =>
    obtain ⟨⟨b, st1⟩, hb⟩ := hrec s2 st h2 hs2
    obtain ⟨⟨c, st2⟩, hc⟩ := hrec s1 st1 h1 hs1
    simp [shrinkCriticalPairs, hb, hc]
  | decl name =>
    obtain ⟨d, hd⟩ := tyOk_decl hty
    simp only [shrinkCriticalPairs, lookup_of_declOf hE hd]
    split
    · exact criticalDecl_ok hrec _ _ _ _ _ _ _ _ h2 h1 hs2 hs1
    · exact criticalDecl_ok hrec _ _ _ _ _ _ _ _ h1 h2 hs1 hs2

theorem wtTerm_xtor {E : TEnv} {side T pc name args ty} (h : wtTerm E side T (.xtor pc name args ty) = true) :
    ∃ d x, declOf E T = some d ∧ isCodata E.codata T = (side == .cns) ∧
      d.xtors.find? (fun x => x.name == name) = some x := by
  simp only [wtTerm, Bool.and_eq_true] at h
  obtain ⟨_, h⟩ := h
  split at h
  · rename_i d hd
    simp only [Bool.and_eq_true, beq_iff_eq] at h
    obtain ⟨h1, h2⟩ := h
    split at h2
    · rename_i x hx; exact ⟨d, x, hd, h1, hx⟩
    · cases h2
  · cases h

theorem wtTerm_xcase {E : TEnv} {side T pc ty cs} (h : wtTerm E side T (.xcase pc ty cs) = true) :
    ∃ d, declOf E T = some d ∧ isCodata E.codata T = (side == .prd) ∧ wtClauses E d.xtors cs = true := by
  simp only [wtTerm, Bool.and_eq_true] at h
  obtain ⟨_, h⟩ := h
  split at h
  · rename_i d hd
    simp only [Bool.and_eq_true, beq_iff_eq] at h
    exact ⟨d, hd, h.1, h.2⟩
  · cases h

theorem wtTerm_mu {E : TEnv} {side T pc v ty s} (h : wtTerm E side T (.mu pc v ty s) = true) :
    wtStmt E s = true := by
  simp only [wtTerm, Bool.and_eq_true] at h
  exact h.2

theorem wtTerm_lit_ty {E : TEnv} {side T n} (h : wtTerm E side T (.lit n) = true) : T = .i64 := by
  simp only [wtTerm, Bool.and_eq_true, beq_iff_eq] at h
  exact h.2

theorem wtTerm_op_ty {E : TEnv} {side T a o b} (h : wtTerm E side T (.op a o b) = true) : T = .i64 := by
  simp only [wtTerm, Bool.and_eq_true, beq_iff_eq] at h
  exact h.2

theorem shrinkCut_ok {env : Env} {E : TEnv} {n : Nat} {rec : Rec} (hE : EnvMatches env E)
    (hrec : RecOk E n rec) (ty p c st) (h : wtStmt E (.cut ty p c) = true)
    (hs : sizeStmt (.cut ty p c) ≤ n + 1) : ∃ r, shrinkCut env rec ty p c st = .ok r := by
  simp only [wtStmt, Bool.and_eq_true] at h
  obtain ⟨⟨hty, hp⟩, hc⟩ := h
  simp only [sizeStmt] at hs
  -- a consumer is never a literal or an operation
  have hclit : ∀ k, c ≠ .lit k := by
    intro k hk; subst hk; simp [wtTerm] at hc
  have hcop : ∀ a o b, c ≠ .op a o b := by
    intro a o b hk; subst hk; simp [wtTerm] at hc
  -- `rec` on the body of a mu
  have hmu : ∀ {pc v t s side st'}, wtTerm E side ty (.mu pc v t s) = true → sizeStmt s + 1 ≤ n + 1 →
      ∃ r, rec s st' = .ok r := fun hw hz => hrec _ _ (wtTerm_mu hw) (by omega)
  cases p with
  | var pc v t =>
    cases c with
    | var _ _ _ => exact shrinkUnknownCuts_ok hE _ _ _ _ hty
    | lit k => exact absurd rfl (hclit k)
    | op a o b => exact absurd rfl (hcop a o b)
    | mu pc2 v2 t2 s =>
      simp only [shrinkCut, shrinkRenaming]
      simp only [sizeTerm] at hs
      exact hrec _ _ (by rw [wtStmt_subst]; exact wtTerm_mu hc) (by rw [sizeStmt_subst]; omega)
    | xtor _ _ _ _ => simp [shrinkCut]
    | xcase pc2 t2 cs =>
      obtain ⟨d, _, _, hcs⟩ := wtTerm_xcase hc
      simp only [sizeTerm] at hs
      obtain ⟨⟨r, st1⟩, hr⟩ := shrinkClauses_ok (env := env) hrec d.xtors cs st hcs (by omega)
      simp [shrinkCut, hr]
  | lit k =>
    cases c with
    | var _ _ _ => simp [shrinkCut]
    | lit k => exact absurd rfl (hclit k)
    | op a o b => exact absurd rfl (hcop a o b)
    | mu pc2 v2 t2 s =>
      simp only [sizeTerm] at hs
      obtain ⟨⟨r, st1⟩, hr⟩ := hmu (st' := st) hc (by omega)
      simp [shrinkCut, hr]
    | xtor _ _ _ _ =>
      obtain ⟨d, _, hd, _⟩ := wtTerm_xtor hc
      rw [wtTerm_lit_ty hp] at hd; simp [declOf] at hd
    | xcase _ _ _ =>
      obtain ⟨d, hd, _⟩ := wtTerm_xcase hc
      rw [wtTerm_lit_ty hp] at hd; simp [declOf] at hd
  | op a o b =>
    cases c with
    | var _ _ _ => simp [shrinkCut]
    | lit k => exact absurd rfl (hclit k)
    | op a o b => exact absurd rfl (hcop a o b)
    | mu pc2 v2 t2 s =>
      simp only [sizeTerm] at hs
      obtain ⟨⟨r, st1⟩, hr⟩ := hmu (st' := st) hc (by omega)
      simp [shrinkCut, hr]
    | xtor _ _ _ _ =>
      obtain ⟨d, _, hd, _⟩ := wtTerm_xtor hc
      rw [wtTerm_op_ty hp] at hd; simp [declOf] at hd
    | xcase _ _ _ =>
      obtain ⟨d, hd, _⟩ := wtTerm_xcase hc
      rw [wtTerm_op_ty hp] at hd; simp [declOf] at hd
  | mu pc v t s =>
    simp only [sizeTerm] at hs
    cases c with
    | var _ _ _ =>
      simp only [shrinkCut, shrinkRenaming]
      simp only [sizeTerm] at hs
      exact hrec _ _ (by rw [wtStmt_subst]; exact wtTerm_mu hp) (by rw [sizeStmt_subst]; omega)
    | lit k => exact absurd rfl (hclit k)
    | op a o b => exact absurd rfl (hcop a o b)
    | mu pc2 v2 t2 s2 =>
      simp only [sizeTerm] at hs
      simp only [shrinkCut]
      exact shrinkCriticalPairs_ok hE hrec _ _ _ _ _ _ hty (wtTerm_mu hp) (wtTerm_mu hc) (by omega) (by omega)
    | xtor _ _ _ _ =>
      obtain ⟨⟨r, st1⟩, hr⟩ := hmu (st' := st) hp (by omega)
      simp [shrinkCut, hr]
    | xcase pc2 t2 cs =>
      obtain ⟨d, _, _, hcs⟩ := wtTerm_xcase hc
      simp only [sizeTerm] at hs
      obtain ⟨⟨r, st1⟩, hr⟩ := shrinkClauses_ok (env := env) hrec d.xtors cs st hcs (by omega)
      obtain ⟨⟨r2, st2⟩, hr2⟩ := hmu (st' := st1) hp (by omega)
      simp [shrinkCut, hr, hr2]
  | xtor pc name args t =>
    cases c with
    | var _ _ _ => simp [shrinkCut]
    | lit k => exact absurd rfl (hclit k)
    | op a o b => exact absurd rfl (hcop a o b)
    | mu pc2 v2 t2 s =>
      simp only [sizeTerm] at hs
      obtain ⟨⟨r, st1⟩, hr⟩ := hmu (st' := st) hc (by omega)
      simp [shrinkCut, hr]
    | xtor _ _ _ _ =>
      obtain ⟨_, _, _, h1, _⟩ := wtTerm_xtor hp
      obtain ⟨_, _, _, h2, _⟩ := wtTerm_xtor hc
      rw [h1] at h2; simp at h2
    | xcase pc2 t2 cs =>
      obtain ⟨d, x, hd, _, hx⟩ := wtTerm_xtor hp
      obtain ⟨d2, hd2, _, hcs⟩ := wtTerm_xcase hc
      rw [hd] at hd2; cases hd2
      simp only [sizeTerm] at hs
      simp only [shrinkCut]
      exact shrinkKnownCuts_ok hrec _ _ _ _ x _ hcs hx (by omega)
  | xcase pc t cs =>
    simp only [sizeTerm] at hs
    obtain ⟨d, hd, hcod, hcs⟩ := wtTerm_xcase hp
    cases c with
    | var _ _ _ =>
      obtain ⟨⟨r, st1⟩, hr⟩ := shrinkClauses_ok (env := env) hrec d.xtors cs st hcs (by omega)
      simp [shrinkCut, hr]
    | lit k => exact absurd rfl (hclit k)
    | op a o b => exact absurd rfl (hcop a o b)
    | mu pc2 v2 t2 s =>
      simp only [sizeTerm] at hs
      obtain ⟨⟨r, st1⟩, hr⟩ := shrinkClauses_ok (env := env) hrec d.xtors cs st hcs (by omega)
      obtain ⟨⟨r2, st2⟩, hr2⟩ := hmu (st' := st1) hc (by omega)
      simp [shrinkCut, hr, hr2]
    | xtor pc2 name args t2 =>
      obtain ⟨d2, x, hd2, _, hx⟩ := wtTerm_xtor hc
      rw [hd] at hd2; cases hd2
      simp only [shrinkCut]
      exact shrinkKnownCuts_ok hrec _ _ _ _ x _ hcs hx (by omega)
    | xcase _ _ _ =>
      obtain ⟨_, _, h2, _⟩ := wtTerm_xcase hc
      rw [hcod] at h2; simp at h2


theorem shrinkStmtStep_ok {env : Env} {E : TEnv} {n : Nat} {rec : Rec} (hE : EnvMatches env E)
    (hrec : RecOk E n rec) (s st) (h : wtStmt E s = true) (hs : sizeStmt s ≤ n + 1) :
    ∃ r, shrinkStmtStep env rec s st = .ok r := by
  cases s with
  | cut ty p c => exact shrinkCut_ok hE hrec ty p c st h hs
  | ifc sort a b t e =>
    simp only [wtStmt, Bool.and_eq_true] at h
    simp only [sizeStmt] at hs
    obtain ⟨⟨r1, st1⟩, h1⟩ := hrec t st h.1 (by omega)
    obtain ⟨⟨r2, st2⟩, h2⟩ := hrec e st1 h.2 (by omega)
    simp [shrinkStmtStep, h1, h2]
  | print nl a nx =>
    simp only [wtStmt] at h
    simp only [sizeStmt] at hs
    obtain ⟨⟨r1, st1⟩, h1⟩ := hrec nx st h (by omega)
    simp [shrinkStmtStep, h1]
  | call f args => simp [shrinkStmtStep]
  | exit a => simp [shrinkStmtStep]

/-- with fuel ≥ size, shrinking a well-typed statement succeeds -/
theorem shrinkStmt_ok {env : Env} {E : TEnv} (hE : EnvMatches env E) : ∀ fuel, RecOk E fuel (shrinkStmt env fuel)
  | 0 => by
    intro s st _ hs
    have := sizeStmt_pos s
    omega
  | fuel + 1 => by
    intro s st h hs
    exact shrinkStmtStep_ok hE (shrinkStmt_ok hE fuel) s st h hs

theorem shrinkDef_ok {E : TEnv} (d : Core.FsDef) (used : List Core.Ident) (maxId : Nat)
    (h : wtStmt E d.body = true) : ∃ r, shrinkDef d E.data E.codata used maxId = .ok r := by
  obtain ⟨⟨b, st⟩, hb⟩ := shrinkStmt_ok (env := ⟨E.data, E.codata, d.name.name⟩) (E := E) ⟨rfl, rfl⟩
    (sizeStmt d.body + 1) d.body ⟨maxId, used, []⟩ h (by omega)
  simp [shrinkDef, hb]

theorem shrinkDefs_ok {E : TEnv} : ∀ (ds : List Core.FsDef) (used : List Core.Ident) (maxId : Nat),
    (∀ d ∈ ds, wtStmt E d.body = true) → ∃ r, shrinkDefs E.data E.codata ds used maxId = .ok r
  | [], _, _, _ => by simp [shrinkDefs]
  | d :: ds, used, maxId, h => by
    obtain ⟨⟨r1, u1, m1⟩, h1⟩ := shrinkDef_ok (E := E) d used maxId (h d (by simp))
    obtain ⟨⟨r2, u2, m2⟩, h2⟩ := shrinkDefs_ok (E := E) ds u1 m1 (fun d' hd' => h d' (by simp [hd']))
    simp [shrinkDefs, h1, h2]

/-- on well-typed focused Core the model of `shrink_prog` returns a program: no panic site is
    reached and the fuel suffices -/
theorem shrinkProg_ok (p : Core.FsProg) (h : wtFsCheck p = true) : ∃ q, shrinkProg p = .ok q := by
  simp only [wtFsCheck, noContName, Bool.and_eq_true, Bool.not_eq_true', List.all_eq_true] at h
  obtain ⟨⟨hd, hc⟩, hdefs⟩ := h
  obtain ⟨⟨defs, u, m⟩, hr⟩ := shrinkDefs_ok (E := progTEnv p) p.defs (p.defs.map (·.name)) p.maxId hdefs
  simp only [progTEnv] at hr
  simp [shrinkProg, hd, hc, hr]

end Scc.Core2AxCut
