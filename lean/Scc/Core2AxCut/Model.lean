/-
  Scc.Core2AxCut.Model — executable model of the shrinking pass  focused Core (S3) → AxCut (S4),
  crate /repo/lang/core2axcut (program.rs, def.rs, context.rs, types.rs, declaration.rs, names.rs,
  shrinking.rs, statements/{mod,clause,cut,call,exit,ifc,print}.rs) together with the parts of
  core_lang and axcut it calls:
    core_lang/src/syntax/names.rs            fresh_identifier, fresh_var, SubstVar for Identifier
    core_lang/src/syntax/context.rs          SubstVar for ContextBinding/TypingContext, derived Ord
    core_lang/src/syntax/types.rs            Ty::is_codata, derived Ord
    core_lang/src/syntax/declaration.rs      lookup_type_declaration, cont_int
    core_lang/src/syntax/terms/*.rs, statements/*.rs   SubstVar / TypedFreeVars for the Fs* types
    axcut/src/syntax/names.rs, context.rs, statements/*.rs   Subst (id substitution on AxCut)
  Core imports only; executable.

  Modelling decisions (all representation-only):
  * `&mut ShrinkingState` is the explicit state `St` = (max_id, used_labels, lifted_statements);
    `data`, `codata`, `current_label` are the read-only `Env`.
  * `used_labels : &mut HashSet<Identifier>` is only ever searched (`iter().any(..)` on the printed
    forms) and extended (`insert`), so it is a `List Core.Ident` (membership only, `insert` = `::`);
    it is initialised in `shrinkProg` with the names of all definitions and threaded through ALL
    definitions together with `max_id`, exactly like the Rust `&mut`.
  * the `while` loop of `lift` that draws the label (`drawLabel`) takes fuel `|used_labels| + 1`;
    running out is the outcome `.error "LABELFUEL"`, which is not a Rust outcome and is proved
    unreachable (`drawLabel_ne_error` in `Scc/Core2AxCut/Labels.lean`: the candidates `base_k` for
    distinct `k` have pairwise distinct printed forms, so at most `|used_labels|` draws can fail).
  * `shrink` is not structurally recursive (it recurses on substituted statements), so
    `shrinkStmt` takes fuel; every helper takes the recursive call `rec` as a parameter.
    Running out of fuel is the outcome `.error "FUEL"`; it is not a Rust outcome and
    `Scc/Core2AxCut/Proofs.lean` proves it never happens with the fuel used by `shrinkProg`.
  * every Rust `panic!`/`assert!`/`unwrap_or_else(panic)` reachable in the crate is an explicit
    `.error "<site>"` (`panicContName`, `panicXtorNotFound`, `panicTypeNotFound`,
    `panicCannotHappen`).
  * Rust's `FsTerm<Prd>`/`FsTerm<Cns>` fix the chirality by the Rust type; the Lean `FsTerm`
    carries it as the flag `pc`.  The cut match therefore looks only at the constructors (the
    Rust patterns `prdcns: Prd`/`prdcns: Cns` are irrefutable); `typed_free_vars` reads the flag
    exactly where the Rust calls `self.prdcns.is_prd()`.
  * `BTreeSet<ContextBinding>` is a strictly sorted `List Binding` under the derived `Ord`
    (`cmpBinding`: var.name (bytewise = code-point order), var.id, chi (Prd < Cns),
    ty (I64 < Decl, then the identifier)); `insert`/`remove`/`extend` are `setInsert`/`setRemove`/
    a left fold.
  * `VecDeque::push_front` on `lifted_statements` is `::`.
-/
import Scc.Core.Syntax
import Scc.AxCut.Syntax

namespace Scc.Core2AxCut

open Scc

/-! ## panic sites -/

/-- program.rs: shrink_prog, `assert!(typ.name != cont_int.name, "{} cannot be used as a type name")` -/
def panicContName : String := "core2axcut/program.rs:shrink_prog: _Cont cannot be used as a type name"
/-- cut.rs: shrink_known_cuts, `panic!("Xtor {} not found in clauses ..")` -/
def panicXtorNotFound : String := "core2axcut/statements/cut.rs:shrink_known_cuts: Xtor not found in clauses"
/-- core_lang declaration.rs: lookup_type_declaration, `panic!("Type {} not found")` -/
def panicTypeNotFound : String := "core_lang/syntax/declaration.rs:lookup_type_declaration: Type not found"
/-- cut.rs: FsCut::shrink, `_ => panic!("cannot happen")` -/
def panicCannotHappen : String := "core2axcut/statements/cut.rs:FsCut::shrink: cannot happen"
/-- not a Rust outcome: the model's fuel ran out (proved impossible for `shrinkProg`) -/
def errFuel : String := "FUEL"
/-- not a Rust outcome: the fuel of the label-drawing loop of `lift` ran out (proved impossible with
    the fuel `|used_labels| + 1` that `lift` passes) -/
def errLabelFuel : String := "LABELFUEL"

/-! ## core_lang: identifiers, id-substitution on focused Core (`SubstVar`) -/

/-- names.rs: impl SubstVar for Identifier (first pair whose id matches; the NAME is ignored) -/
def substIdent (σ : List (Nat × Core.Ident)) (v : Core.Ident) : Core.Ident :=
  match σ.find? (fun p => p.1 == v.id) with
  | none => v
  | some p => p.2

/-- context.rs: impl SubstVar for ContextBinding -/
def substBinding (σ : List (Nat × Core.Ident)) (b : Core.Binding) : Core.Binding :=
  { b with var := substIdent σ b.var }

/-- context.rs: impl SubstVar for TypingContext -/
def substCtx (σ : List (Nat × Core.Ident)) (c : Core.Ctx) : Core.Ctx := c.map (substBinding σ)

mutual
  /-- terms/mod.rs: impl SubstVar for FsTerm (xvar.rs, op.rs, mu.rs, xtor.rs, xcase.rs);
      binders (`mu` variable, clause contexts) are NOT renamed and do not stop the substitution -/
  def substTerm (σ : List (Nat × Core.Ident)) : Core.FsTerm → Core.FsTerm
    | .var pc v ty => .var pc (substIdent σ v) ty
    | .lit n => .lit n
    | .op a o b => .op (substIdent σ a) o (substIdent σ b)
    | .mu pc v ty s => .mu pc v ty (substStmt σ s)
    | .xtor pc n args ty => .xtor pc n (substCtx σ args) ty
    | .xcase pc ty cs => .xcase pc ty (substClauses σ cs)
  /-- terms/clause.rs: impl SubstVar for FsClause (body only) -/
  def substClauses (σ : List (Nat × Core.Ident)) : Core.FsClauses → Core.FsClauses
    | .nil => .nil
    | .cons x ctx body rest => .cons x ctx (substStmt σ body) (substClauses σ rest)
  /-- statements/mod.rs: impl SubstVar for FsStatement (cut.rs, ifc.rs, print.rs, call.rs, exit.rs) -/
  def substStmt (σ : List (Nat × Core.Ident)) : Core.FsStmt → Core.FsStmt
    | .cut ty p c => .cut ty (substTerm σ p) (substTerm σ c)
    | .ifc s a b t e => .ifc s (substIdent σ a) (b.map (substIdent σ)) (substStmt σ t) (substStmt σ e)
    | .print nl a n => .print nl (substIdent σ a) (substStmt σ n)
    | .call n args => .call n (substCtx σ args)
    | .exit a => .exit (substIdent σ a)
end

/-! ## the derived `Ord` of `ContextBinding` and `BTreeSet<ContextBinding>` -/

/-- lexicographic order on lists of naturals (Rust `str` order = code-point order) -/
def cmpNatList : List Nat → List Nat → Ordering
  | [], [] => .eq
  | [], _ :: _ => .lt
  | _ :: _, [] => .gt
  | a :: as, b :: bs => if a < b then .lt else if b < a then .gt else cmpNatList as bs

def cmpNat (a b : Nat) : Ordering := if a < b then .lt else if b < a then .gt else .eq

def thenCmp : Ordering → Ordering → Ordering
  | .eq, o => o
  | o, _ => o

/-- names.rs: #[derive(PartialOrd, Ord)] struct Identifier { name, id } -/
def cmpIdent (a b : Core.Ident) : Ordering :=
  thenCmp (cmpNatList (a.name.toList.map Char.toNat) (b.name.toList.map Char.toNat)) (cmpNat a.id b.id)

/-- context.rs: #[derive(PartialOrd, Ord)] enum Chirality { Prd, Cns } -/
def cmpPC : Core.PC → Core.PC → Ordering
  | .prd, .prd => .eq
  | .prd, .cns => .lt
  | .cns, .prd => .gt
  | .cns, .cns => .eq

/-- types.rs: #[derive(PartialOrd, Ord)] enum Ty { I64, Decl(Identifier) } -/
def cmpTy : Core.Ty → Core.Ty → Ordering
  | .i64, .i64 => .eq
  | .i64, .decl _ => .lt
  | .decl _, .i64 => .gt
  | .decl a, .decl b => cmpIdent a b

/-- context.rs: #[derive(PartialOrd, Ord)] struct ContextBinding { var, chi, ty } -/
def cmpBinding (a b : Core.Binding) : Ordering :=
  thenCmp (cmpIdent a.var b.var) (thenCmp (cmpPC a.chi b.chi) (cmpTy a.ty b.ty))

/-- BTreeSet::insert on the sorted-list representation -/
def setInsert (b : Core.Binding) : List Core.Binding → List Core.Binding
  | [] => [b]
  | x :: xs =>
    match cmpBinding b x with
    | .lt => b :: x :: xs
    | .eq => x :: xs
    | .gt => x :: setInsert b xs

/-- BTreeSet::remove -/
def setRemove (b : Core.Binding) (l : List Core.Binding) : List Core.Binding :=
  l.filter (fun x => !(x == b))

/-- BTreeSet::extend(iter) -/
def setExtend (bs : List Core.Binding) (l : List Core.Binding) : List Core.Binding :=
  bs.foldl (fun acc b => setInsert b acc) l

/-- the chirality of the variable BOUND by a (tilde-)mu whose own chirality is `pc`
    (mu.rs: `if self.prdcns.is_prd() { Cns } else { Prd }`) -/
def flipPC : Core.PC → Core.PC
  | .prd => .cns
  | .cns => .prd

mutual
  /-- terms/mod.rs: impl TypedFreeVars for FsTerm (xvar.rs, op.rs, mu.rs FsMu, xtor.rs FsXtor,
      xcase.rs FsXCase).  One set is threaded through; binders are removed AFTER their scope was
      traversed (the Rust relies on unique binders, so does not use a fresh set under binders). -/
  def tfvTerm : Core.FsTerm → List Core.Binding → List Core.Binding
    | .var pc v ty, vs => setInsert ⟨v, pc, ty⟩ vs
    | .lit _, vs => vs
    | .op a _ b, vs => setInsert ⟨b, .prd, .i64⟩ (setInsert ⟨a, .prd, .i64⟩ vs)
    | .mu pc v ty s, vs => setRemove ⟨v, flipPC pc, ty⟩ (tfvStmt s vs)
    | .xtor _ _ args _, vs => setExtend args vs
    | .xcase _ _ cs, vs => tfvClauses cs vs
  /-- terms/clause.rs: impl TypedFreeVars for FsClause, folded over the `Vec` -/
  def tfvClauses : Core.FsClauses → List Core.Binding → List Core.Binding
    | .nil, vs => vs
    | .cons _ ctx body rest, vs =>
      tfvClauses rest (ctx.foldl (fun acc b => setRemove b acc) (tfvStmt body vs))
  /-- statements/mod.rs: impl TypedFreeVars for FsStatement (cut.rs, ifc.rs, print.rs, call.rs, exit.rs) -/
  def tfvStmt : Core.FsStmt → List Core.Binding → List Core.Binding
    | .cut _ p c, vs => tfvTerm c (tfvTerm p vs)
    | .ifc _ a b t e, vs =>
      let vs1 := setInsert ⟨a, .prd, .i64⟩ vs
      let vs2 := match b with
        | none => vs1
        | some b => setInsert ⟨b, .prd, .i64⟩ vs1
      tfvStmt e (tfvStmt t vs2)
    | .print _ a n, vs => tfvStmt n (setInsert ⟨a, .prd, .i64⟩ vs)
    | .call _ args, vs => setExtend args vs
    | .exit a, vs => setInsert ⟨a, .prd, .i64⟩ vs
end

/-! ## axcut: id-substitution (`Subst`) -/

/-- axcut names.rs: impl Subst for Identifier -/
def axSubstIdent (σ : List (Nat × AxCut.Ident)) (v : AxCut.Ident) : AxCut.Ident :=
  match σ.find? (fun p => p.1 == v.id) with
  | none => v
  | some p => p.2

/-- axcut names.rs: impl Subst for ID -/
def axSubstId (σ : List (Nat × AxCut.Ident)) (i : Nat) : Nat :=
  match σ.find? (fun p => p.1 == i) with
  | none => i
  | some p => p.2.id

/-- axcut context.rs: impl Subst for ContextBinding -/
def axSubstBinding (σ : List (Nat × AxCut.Ident)) (b : AxCut.Binding) : AxCut.Binding :=
  { b with var := axSubstIdent σ b.var }

/-- axcut context.rs: impl Subst for TypingContext -/
def axSubstCtx (σ : List (Nat × AxCut.Ident)) (c : AxCut.Ctx) : AxCut.Ctx := c.map (axSubstBinding σ)

def insertNat (n : Nat) : List Nat → List Nat
  | [] => [n]
  | x :: xs => if n < x then n :: x :: xs else if n == x then x :: xs else x :: insertNat n xs

/-- substitution.rs: impl Subst for HashSet<ID> / Option (sets are kept sorted, duplicate-free) -/
def axSubstFV (σ : List (Nat × AxCut.Ident)) : AxCut.FV → AxCut.FV
  | none => none
  | some l => some ((l.map (axSubstId σ)).foldl (fun acc n => insertNat n acc) [])

mutual
  /-- axcut statements/mod.rs: impl Subst for Statement (substitute.rs, call.rs, let.rs, switch.rs,
      create.rs, invoke.rs, literal.rs, op.rs, print.rs, ifc.rs, exit.rs): binders are not renamed -/
  def axSubstStmt (σ : List (Nat × AxCut.Ident)) : AxCut.Stmt → AxCut.Stmt
    | .subst pairs next =>
      .subst (pairs.map fun p => (axSubstBinding σ p.1, axSubstIdent σ p.2)) (axSubstStmt σ next)
    | .call l args => .call l (axSubstCtx σ args)
    | .letS v ty tag args next fv => .letS v ty tag (axSubstCtx σ args) (axSubstStmt σ next) (axSubstFV σ fv)
    | .switch v ty cs fv => .switch (axSubstIdent σ v) ty (axSubstClauses σ cs) (axSubstFV σ fv)
    | .create v ty env cs next fc fn =>
      .create v ty (env.map (axSubstCtx σ)) (axSubstClauses σ cs) (axSubstStmt σ next)
        (axSubstFV σ fc) (axSubstFV σ fn)
    | .invoke v tag ty args => .invoke (axSubstIdent σ v) tag ty (axSubstCtx σ args)
    | .lit v n next fv => .lit v n (axSubstStmt σ next) (axSubstFV σ fv)
    | .op v a o b next fv => .op v (axSubstIdent σ a) o (axSubstIdent σ b) (axSubstStmt σ next) (axSubstFV σ fv)
    | .print nl v next fv => .print nl (axSubstIdent σ v) (axSubstStmt σ next) (axSubstFV σ fv)
    | .ifc s a b t e => .ifc s (axSubstIdent σ a) (b.map (axSubstIdent σ)) (axSubstStmt σ t) (axSubstStmt σ e)
    | .exit v => .exit (axSubstIdent σ v)
  /-- axcut statements/clause.rs: impl Subst for Clause (body only) -/
  def axSubstClauses (σ : List (Nat × AxCut.Ident)) : AxCut.Clauses → AxCut.Clauses
    | .nil => .nil
    | .cons x ctx body rest => .cons x ctx (axSubstStmt σ body) (axSubstClauses σ rest)
end

/-! ## names, types, contexts, declarations -/

/-- names.rs: fn shrink_identifier -/
def shrinkIdentifier (i : Core.Ident) : AxCut.Ident := ⟨i.name, i.id⟩

/-- types.rs: fn shrink_ty -/
def shrinkTy : Core.Ty → AxCut.Ty
  | .i64 => .i64
  | .decl n => .decl (shrinkIdentifier n)

/-- core_lang declaration.rs: fn cont_int -/
def contInt : Core.TypeDecl :=
  { name := ⟨"_Cont", 0⟩, xtors := [{ name := ⟨"Ret", 0⟩, args := [⟨⟨"x", 0⟩, .prd, .i64⟩] }] }

def contName : Core.Ident := ⟨"_Cont", 0⟩
def retName : Core.Ident := ⟨"Ret", 0⟩

/-- `axcut::syntax::Ty::Decl(shrink_identifier(cont_int().name))` -/
def contTy : AxCut.Ty := .decl (shrinkIdentifier contName)

/-- core_lang types.rs: Ty::is_codata -/
def isCodata (codata : List Core.TypeDecl) : Core.Ty → Bool
  | .i64 => false
  | .decl n => codata.any (fun d => d.name == n)

/-- core_lang declaration.rs: fn lookup_type_declaration -/
def lookupTypeDeclaration (n : Core.Ident) (types : List Core.TypeDecl) : Except String Core.TypeDecl :=
  match types.find? (fun d => d.name == n) with
  | some d => .ok d
  | none => .error panicTypeNotFound

/-- context.rs: fn shrink_binding -/
def shrinkBinding (codata : List Core.TypeDecl) (b : Core.Binding) : AxCut.Binding :=
  if b.ty == .i64 then
    if b.chi == .cns then ⟨shrinkIdentifier b.var, .cns, contTy⟩
    else ⟨shrinkIdentifier b.var, .ext, .i64⟩
  else if (!isCodata codata b.ty && b.chi == .prd) || (isCodata codata b.ty && b.chi == .cns) then
    ⟨shrinkIdentifier b.var, .prd, shrinkTy b.ty⟩
  else
    ⟨shrinkIdentifier b.var, .cns, shrinkTy b.ty⟩

/-- context.rs: fn shrink_context -/
def shrinkContext (codata : List Core.TypeDecl) (c : Core.Ctx) : AxCut.Ctx := c.map (shrinkBinding codata)

/-- declaration.rs: fn shrink_xtor -/
def shrinkXtor (codata : List Core.TypeDecl) (x : Core.XtorSig) : AxCut.XtorSig :=
  ⟨shrinkIdentifier x.name, shrinkContext codata x.args⟩

/-- declaration.rs: fn shrink_declaration -/
def shrinkDeclaration (codata : List Core.TypeDecl) (d : Core.TypeDecl) : AxCut.TypeDecl :=
  ⟨shrinkIdentifier d.name, d.xtors.map (shrinkXtor codata)⟩

/-! ## state -/

/-- the read-only part of shrinking.rs: struct ShrinkingState -/
structure Env where
  data : List Core.TypeDecl
  codata : List Core.TypeDecl
  currentLabel : String

/-- the mutable part of shrinking.rs: struct ShrinkingState (`lifted` front = head) -/
structure St where
  maxId : Nat
  usedLabels : List Core.Ident
  lifted : List AxCut.Def

/-- core_lang names.rs: fn fresh_identifier -/
def freshIdentifier (st : St) (base : String) : Core.Ident × St :=
  (⟨base, st.maxId + 1⟩, { st with maxId := st.maxId + 1 })

abbrev M (α : Type) := St → Except String (α × St)

/-- the type of the recursive call `FsStatement::shrink` -/
abbrev Rec := Core.FsStmt → M AxCut.Stmt

/-! ## statements/cut.rs -/

/-- cut.rs: fn shrink_renaming -/
def shrinkRenaming (rec : Rec) (var : Core.Ident) (varMu : Nat) (s : Core.FsStmt) : M AxCut.Stmt :=
  rec (substStmt [(varMu, var)] s)

/-- `clauses.iter().find(|clause| clause.xtor == *xtor)` -/
def findClause (xtor : Core.Ident) : Core.FsClauses → Option (Core.Ctx × Core.FsStmt)
  | .nil => none
  | .cons x ctx body rest => if x == xtor then some (ctx, body) else findClause xtor rest

/-- cut.rs: fn shrink_known_cuts (`zip` truncates to the shorter list, as in Rust) -/
def shrinkKnownCuts (rec : Rec) (xtor : Core.Ident) (args : List Core.Ident) (clauses : Core.FsClauses) :
    M AxCut.Stmt := fun st =>
  match findClause xtor clauses with
  | none => .error panicXtorNotFound
  | some (ctx, body) =>
    let subst : List (Nat × Core.Ident) := (ctx.map (fun b => b.var.id)).zip args
    rec (substStmt subst body) st

/-- the eta-expansion environment of one xtor: `shrink_context(args)` with a fresh identifier per
    binding (cut.rs, closure in shrink_unknown_cuts / shrink_critical_pairs) -/
def freshenCtx : AxCut.Ctx → St → AxCut.Ctx × St
  | [], st => ([], st)
  | b :: bs, st =>
    let (v, st1) := freshIdentifier st b.var.name
    let (rest, st2) := freshenCtx bs st1
    ({ b with var := shrinkIdentifier v } :: rest, st2)

/-- the clause list of shrink_unknown_cuts -/
def unknownClauses (env : Env) (varExpand : Core.Ident) (translatedTy : AxCut.Ty) :
    List Core.XtorSig → St → AxCut.Clauses × St
  | [], st => (.nil, st)
  | x :: xs, st =>
    let (envC, st1) := freshenCtx (shrinkContext env.codata x.args) st
    let body := AxCut.Stmt.invoke (shrinkIdentifier varExpand) (shrinkIdentifier x.name) translatedTy envC
    let (rest, st2) := unknownClauses env varExpand translatedTy xs st1
    (.cons (shrinkIdentifier x.name) envC body rest, st2)

/-- cut.rs: fn shrink_unknown_cuts -/
def shrinkUnknownCuts (env : Env) (varPrd varCns : Core.Ident) (ty : Core.Ty) : M AxCut.Stmt := fun st =>
  match ty with
  | .i64 =>
    .ok (.invoke (shrinkIdentifier varCns) (shrinkIdentifier retName) contTy
      [⟨shrinkIdentifier varPrd, .ext, .i64⟩], st)
  | .decl name =>
    let cod := isCodata env.codata ty
    match lookupTypeDeclaration name (if cod then env.codata else env.data) with
    | .error e => .error e
    | .ok decl =>
      let varKeep := if cod then varCns else varPrd
      let varExpand := if cod then varPrd else varCns
      let translatedTy := shrinkTy ty
      let cl := unknownClauses env varExpand translatedTy decl.xtors st
      .ok (.switch (shrinkIdentifier varKeep) translatedTy cl.1 none, cl.2)

/-- cut.rs: fn lift, the loop `for binding in &typed_free_vars`: one fresh variable per free
    variable, in set order; returns (context, subst) -/
def liftFresh : List Core.Binding → St → (List Core.Binding × List (Nat × Core.Ident)) × St
  | [], st => (([], []), st)
  | b :: bs, st =>
    let (fresh, st1) := freshIdentifier st b.var.name
    let ((ctx, subst), st2) := liftFresh bs st1
    (({ b with var := fresh } :: ctx, (b.var.id, fresh) :: subst), st2)

/-- cut.rs: fn lift, the condition of the `while` loop:
    `state.used_labels.iter().any(|used| used.print_to_string(None) == label.print_to_string(None))` -/
def labelUsed (used : List Core.Ident) (label : Core.Ident) : Bool :=
  used.any (fun u => u.print == label.print)

/-- cut.rs: fn lift, `let mut label = fresh_identifier(..); while <labelUsed> { label = fresh_identifier(..) }`:
    draw identifiers `base_(max_id+1)`, `base_(max_id+2)`, .. until the printed form is not the
    printed form of a used label.  `fuel` = number of draws allowed. -/
def drawLabel (base : String) : Nat → St → Except String (Core.Ident × St)
  | 0, _ => .error errLabelFuel
  | fuel + 1, st =>
    let lbl := freshIdentifier st base
    if labelUsed st.usedLabels lbl.1 then drawLabel base fuel lbl.2
    else .ok lbl

/-- cut.rs: fn lift -/
def lift (env : Env) (rec : Rec) (statement : Core.FsStmt) : M AxCut.Stmt := fun st =>
  let typedFreeVars := tfvStmt statement []
  let fresh := liftFresh typedFreeVars st
  let context := fresh.1.1
  let subst := fresh.1.2
  match drawLabel ("lift_" ++ env.currentLabel ++ "_") (fresh.2.usedLabels.length + 1) fresh.2 with
  | .error e => .error e
  | .ok (label, st1) =>
    let st2 : St := { st1 with usedLabels := label :: st1.usedLabels }
    let context' := shrinkContext env.codata context
    match rec (substStmt subst statement) st2 with
    | .error e => .error e
    | .ok (body, st3) =>
      let st4 : St := { st3 with lifted := ⟨shrinkIdentifier label, context', body⟩ :: st3.lifted }
      let args := shrinkContext env.codata typedFreeVars
      .ok (.call (shrinkIdentifier label) args, st4)

/-- the `matches!` part of the sharing condition of shrink_critical_pairs: the statement is an
    `exit`, a `call`, or a cut that will become an `invoke` -/
def isLeafStmt : Core.FsStmt → Bool
  | .exit _ => true
  | .call _ _ => true
  | .cut _ (.var _ _ _) (.xtor _ _ _ _) => true
  | .cut _ (.xtor _ _ _ _) (.var _ _ _) => true
  | _ => false

/-- the sharing condition of shrink_critical_pairs: `true` = shrink the expanded statement in
    place (and duplicate it into every clause), `false` = lift it to the top level -/
def inlineExpand (nXtors : Nat) (statementExpand : Core.FsStmt) : Bool :=
  nXtors ≤ 1 || isLeafStmt statementExpand

/-- the clause list of shrink_critical_pairs -/
def criticalClauses (env : Env) (varExpand : Core.Ident) (translatedTy : AxCut.Ty)
    (shrunkStatementExpand : AxCut.Stmt) : List Core.XtorSig → St → AxCut.Clauses × St
  | [], st => (.nil, st)
  | x :: xs, st =>
    let (envC, st1) := freshenCtx (shrinkContext env.codata x.args) st
    let (v, st2) := freshIdentifier st1 varExpand.name
    let var := shrinkIdentifier v
    let next := axSubstStmt [(varExpand.id, var)] shrunkStatementExpand
    let body := AxCut.Stmt.letS var translatedTy (shrinkIdentifier x.name) envC next none
    let (rest, st3) := criticalClauses env varExpand translatedTy shrunkStatementExpand xs st2
    (.cons (shrinkIdentifier x.name) envC body rest, st3)

/-- cut.rs: fn shrink_critical_pairs, the `Ty::Decl` branch after the sides have been chosen:
    `statement_expand` is shrunk in place or lifted, then the clauses are generated, then
    `statement_keep` is shrunk -/
def criticalDecl (env : Env) (rec : Rec) (decl : Core.TypeDecl) (name : Core.Ident) (translatedTy : AxCut.Ty)
    (varKeep : Core.Ident) (statementKeep : Core.FsStmt) (varExpand : Core.Ident)
    (statementExpand : Core.FsStmt) : M AxCut.Stmt := fun st =>
  match (if inlineExpand decl.xtors.length statementExpand then rec statementExpand st
         else lift env rec statementExpand st) with
  | .error e => .error e
  | .ok (shrunkStatementExpand, st1) =>
    let cl := criticalClauses env varExpand translatedTy shrunkStatementExpand decl.xtors st1
    match rec statementKeep cl.2 with
    | .error e => .error e
    | .ok (next, st3) =>
      .ok (.create (shrinkIdentifier varKeep) (.decl (shrinkIdentifier name)) none cl.1 next none none, st3)

/-- cut.rs: fn shrink_critical_pairs -/
def shrinkCriticalPairs (env : Env) (rec : Rec) (varPrd : Core.Ident) (statementPrd : Core.FsStmt)
    (varCns : Core.Ident) (statementCns : Core.FsStmt) (ty : Core.Ty) : M AxCut.Stmt := fun st =>
  match ty with
  | .i64 =>
    match rec statementCns st with
    | .error e => .error e
    | .ok (bodyCns, st1) =>
      match rec statementPrd st1 with
      | .error e => .error e
      | .ok (next, st2) =>
        .ok (.create (shrinkIdentifier varPrd) contTy none
          (.cons (shrinkIdentifier retName) [⟨shrinkIdentifier varCns, .ext, .i64⟩] bodyCns .nil)
          next none none, st2)
  | .decl name =>
    let cod := isCodata env.codata ty
    match lookupTypeDeclaration name (if cod then env.codata else env.data) with
    | .error e => .error e
    | .ok decl =>
      if cod then criticalDecl env rec decl name (shrinkTy ty) varCns statementCns varPrd statementPrd st
      else criticalDecl env rec decl name (shrinkTy ty) varPrd statementPrd varCns statementCns st

/-- cut.rs: fn shrink_binop -/
def shrinkBinop : Core.BinOp → AxCut.BinOp
  | .div => .div | .prod => .prod | .rem => .rem | .sum => .sum | .sub => .sub

/-- `Invoke { var, tag: Ret, ty: _Cont, args: [fresh : ext i64] }` (shrink_literal_var / shrink_op_var) -/
def invokeRet (var : Core.Ident) (fresh : Core.Ident) : AxCut.Stmt :=
  .invoke (shrinkIdentifier var) (shrinkIdentifier retName) contTy [⟨shrinkIdentifier fresh, .ext, .i64⟩]

/-- statements/clause.rs + shrinking.rs `impl Shrinking for Vec<T>` -/
def shrinkClauses (env : Env) (rec : Rec) : Core.FsClauses → M AxCut.Clauses
  | .nil, st => .ok (.nil, st)
  | .cons x ctx body rest, st =>
    match rec body st with
    | .error e => .error e
    | .ok (body', st1) =>
      match shrinkClauses env rec rest st1 with
      | .error e => .error e
      | .ok (rest', st2) => .ok (.cons (shrinkIdentifier x) (shrinkContext env.codata ctx) body' rest', st2)

/-- cut.rs: impl Shrinking for FsCut — the match on (producer, consumer), in the Rust order -/
def shrinkCut (env : Env) (rec : Rec) (ty : Core.Ty) (p c : Core.FsTerm) : M AxCut.Stmt := fun st =>
  match p, c with
  -- shrink_renaming
  | .mu _ muVar _ statement, .var _ var _ => shrinkRenaming rec var muVar.id statement st
  | .var _ var _, .mu _ muVar _ statement => shrinkRenaming rec var muVar.id statement st
  -- shrink_known_cuts
  | .xtor _ name args _, .xcase _ _ clauses => shrinkKnownCuts rec name (args.map (·.var)) clauses st
  | .xcase _ _ clauses, .xtor _ name args _ => shrinkKnownCuts rec name (args.map (·.var)) clauses st
  -- shrink_unknown_cuts
  | .var _ varPrd _, .var _ varCns _ => shrinkUnknownCuts env varPrd varCns ty st
  -- shrink_critical_pairs
  | .mu _ varPrd _ statementPrd, .mu _ varCns _ statementCns =>
    shrinkCriticalPairs env rec varPrd statementPrd varCns statementCns ty st
  -- shrink_literal_mu
  | .lit n, .mu _ muVar _ statement =>
    match rec statement st with
    | .error e => .error e
    | .ok (next, st1) => .ok (.lit (shrinkIdentifier muVar) n next none, st1)
  -- shrink_literal_var
  | .lit n, .var _ var _ =>
    let (fresh, st1) := freshIdentifier st "x"
    .ok (.lit (shrinkIdentifier fresh) n (invokeRet var fresh) none, st1)
  -- shrink_op_mu
  | .op fst o snd, .mu _ muVar _ statement =>
    match rec statement st with
    | .error e => .error e
    | .ok (next, st1) =>
      .ok (.op (shrinkIdentifier muVar) (shrinkIdentifier fst) (shrinkBinop o) (shrinkIdentifier snd) next none, st1)
  -- shrink_op_var
  | .op fst o snd, .var _ var _ =>
    let (fresh, st1) := freshIdentifier st "x"
    .ok (.op (shrinkIdentifier fresh) (shrinkIdentifier fst) (shrinkBinop o) (shrinkIdentifier snd)
      (invokeRet var fresh) none, st1)
  -- Let
  | .xtor _ name args _, .mu _ muVar _ statement =>
    match rec statement st with
    | .error e => .error e
    | .ok (next, st1) =>
      .ok (.letS (shrinkIdentifier muVar) (shrinkTy ty) (shrinkIdentifier name)
        (shrinkContext env.codata args) next none, st1)
  | .mu _ muVar _ statement, .xtor _ name args _ =>
    match rec statement st with
    | .error e => .error e
    | .ok (next, st1) =>
      .ok (.letS (shrinkIdentifier muVar) (shrinkTy ty) (shrinkIdentifier name)
        (shrinkContext env.codata args) next none, st1)
  -- Invoke
  | .xtor _ name args _, .var _ var _ =>
    .ok (.invoke (shrinkIdentifier var) (shrinkIdentifier name) (shrinkTy ty) (shrinkContext env.codata args), st)
  | .var _ var _, .xtor _ name args _ =>
    .ok (.invoke (shrinkIdentifier var) (shrinkIdentifier name) (shrinkTy ty) (shrinkContext env.codata args), st)
  -- Switch
  | .var _ var _, .xcase _ _ clauses =>
    match shrinkClauses env rec clauses st with
    | .error e => .error e
    | .ok (cs, st1) => .ok (.switch (shrinkIdentifier var) (shrinkTy ty) cs none, st1)
  | .xcase _ _ clauses, .var _ var _ =>
    match shrinkClauses env rec clauses st with
    | .error e => .error e
    | .ok (cs, st1) => .ok (.switch (shrinkIdentifier var) (shrinkTy ty) cs none, st1)
  -- Create (clauses first, then the continuation)
  | .mu _ muVar _ statement, .xcase _ _ clauses =>
    match shrinkClauses env rec clauses st with
    | .error e => .error e
    | .ok (cs, st1) =>
      match rec statement st1 with
      | .error e => .error e
      | .ok (next, st2) => .ok (.create (shrinkIdentifier muVar) (shrinkTy ty) none cs next none none, st2)
  | .xcase _ _ clauses, .mu _ muVar _ statement =>
    match shrinkClauses env rec clauses st with
    | .error e => .error e
    | .ok (cs, st1) =>
      match rec statement st1 with
      | .error e => .error e
      | .ok (next, st2) => .ok (.create (shrinkIdentifier muVar) (shrinkTy ty) none cs next none none, st2)
  -- all other cases are impossible by typing
  | _, _ => .error panicCannotHappen

/-- ifc.rs: the IfSort translation -/
def shrinkIfSort : Core.IfSort → AxCut.IfSort
  | .eq => .eq | .ne => .ne | .lt => .lt | .le => .le | .gt => .gt | .ge => .ge

/-- statements/mod.rs: impl Shrinking for FsStatement, one unfolding (ifc.rs, print.rs, call.rs, exit.rs) -/
def shrinkStmtStep (env : Env) (rec : Rec) : Core.FsStmt → M AxCut.Stmt
  | .cut ty p c, st => shrinkCut env rec ty p c st
  | .ifc sort fst snd thenc elsec, st =>
    match rec thenc st with
    | .error e => .error e
    | .ok (t, st1) =>
      match rec elsec st1 with
      | .error e => .error e
      | .ok (e, st2) =>
        .ok (.ifc (shrinkIfSort sort) (shrinkIdentifier fst) (snd.map shrinkIdentifier) t e, st2)
  | .print nl arg next, st =>
    match rec next st with
    | .error e => .error e
    | .ok (n, st1) => .ok (.print nl (shrinkIdentifier arg) n none, st1)
  | .call name args, st => .ok (.call (shrinkIdentifier name) (shrinkContext env.codata args), st)
  | .exit var, st => .ok (.exit (shrinkIdentifier var), st)

/-- `FsStatement::shrink` with fuel -/
def shrinkStmt (env : Env) : Nat → Rec
  | 0 => fun _ _ => .error errFuel
  | fuel + 1 => shrinkStmtStep env (shrinkStmt env fuel)

/-! ## sizes (number of statement and term nodes) — used for the fuel and by C19 -/

mutual
  def sizeTerm : Core.FsTerm → Nat
    | .var _ _ _ => 1
    | .lit _ => 1
    | .op _ _ _ => 1
    | .mu _ _ _ s => sizeStmt s + 1
    | .xtor _ _ _ _ => 1
    | .xcase _ _ cs => sizeClauses cs + 1
  def sizeClauses : Core.FsClauses → Nat
    | .nil => 0
    | .cons _ _ body rest => sizeStmt body + sizeClauses rest + 1
  def sizeStmt : Core.FsStmt → Nat
    | .cut _ p c => sizeTerm p + sizeTerm c + 1
    | .ifc _ _ _ t e => sizeStmt t + sizeStmt e + 1
    | .print _ _ n => sizeStmt n + 1
    | .call _ _ => 1
    | .exit _ => 1
end

mutual
  /-- number of statement and clause nodes of an AxCut statement -/
  def axSizeStmt : AxCut.Stmt → Nat
    | .subst _ n => axSizeStmt n + 1
    | .call _ _ => 1
    | .letS _ _ _ _ n _ => axSizeStmt n + 1
    | .switch _ _ cs _ => axSizeClauses cs + 1
    | .create _ _ _ cs n _ _ => axSizeClauses cs + axSizeStmt n + 1
    | .invoke _ _ _ _ => 1
    | .lit _ _ n _ => axSizeStmt n + 1
    | .op _ _ _ _ n _ => axSizeStmt n + 1
    | .print _ _ n _ => axSizeStmt n + 1
    | .ifc _ _ _ t e => axSizeStmt t + axSizeStmt e + 1
    | .exit _ => 1
  def axSizeClauses : AxCut.Clauses → Nat
    | .nil => 0
    | .cons _ _ b r => axSizeStmt b + axSizeClauses r + 1
end

/-- total size of a list of definitions (one node per definition plus its body) -/
def defsSize : List AxCut.Def → Nat
  | [] => 0
  | d :: ds => axSizeStmt d.body + 1 + defsSize ds

/-- size of a focused Core program, counted the same way -/
def fsDefsSize : List Core.FsDef → Nat
  | [] => 0
  | d :: ds => sizeStmt d.body + 1 + fsDefsSize ds

/-- the largest number of xtors of a declared type -/
def maxXtors : List Core.TypeDecl → Nat
  | [] => 0
  | d :: ds => max d.xtors.length (maxXtors ds)

/-! ## def.rs, program.rs -/

/-- def.rs: fn shrink_def (the body is shrunk first; the definition itself is pushed to the front
    of the lifted statements afterwards) -/
def shrinkDef (d : Core.FsDef) (data codata : List Core.TypeDecl) (usedLabels : List Core.Ident)
    (maxId : Nat) : Except String (List AxCut.Def × List Core.Ident × Nat) :=
  let env : Env := ⟨data, codata, d.name.name⟩
  match shrinkStmt env (sizeStmt d.body + 1) d.body ⟨maxId, usedLabels, []⟩ with
  | .error e => .error e
  | .ok (body, st) =>
    .ok (⟨shrinkIdentifier d.name, shrinkContext codata d.ctx, body⟩ :: st.lifted, st.usedLabels, st.maxId)

/-- program.rs: the `flat_map` over the definitions, threading `used_labels` and `max_id` -/
def shrinkDefs (data codata : List Core.TypeDecl) :
    List Core.FsDef → List Core.Ident → Nat → Except String (List AxCut.Def × List Core.Ident × Nat)
  | [], used, maxId => .ok ([], used, maxId)
  | d :: ds, used, maxId =>
    match shrinkDef d data codata used maxId with
    | .error e => .error e
    | .ok (defs, used1, maxId1) =>
      match shrinkDefs data codata ds used1 maxId1 with
      | .error e => .error e
      | .ok (rest, used2, maxId2) => .ok (defs ++ rest, used2, maxId2)

/-- program.rs: fn shrink_prog.  `types` = data types in input order, then `_Cont`, then the
    codata types in input order. -/
def shrinkProg (p : Core.FsProg) : Except String AxCut.Prog :=
  if p.dataTypes.any (fun t => t.name == contInt.name) then .error panicContName
  else if p.codataTypes.any (fun t => t.name == contInt.name) then .error panicContName
  else
    let dataTypes := p.dataTypes ++ [contInt]
    let usedLabels := p.defs.map (·.name)
    match shrinkDefs dataTypes p.codataTypes p.defs usedLabels p.maxId with
    | .error e => .error e
    | .ok (defs, _, maxId) =>
      .ok { defs := defs
            types := dataTypes.map (shrinkDeclaration p.codataTypes) ++
                     p.codataTypes.map (shrinkDeclaration p.codataTypes)
            maxId := maxId }

/-! ## line interface -/

/-- input: the text of an S3 dump `(fsprog ..)`; output `OK <S4 dump>` | `PANIC <site>` | `ERR ..` -/
def runLine (dumpS3 : String) : String :=
  match Sexp.parse dumpS3 with
  | none => "ERR sexp"
  | some sx =>
    match Core.readFsProg (dumpS3.length + 10) sx with
    | none => "ERR read"
    | some p =>
      match shrinkProg p with
      | .ok q => "OK " ++ q.toSexp.render
      | .error e => if e == errFuel || e == errLabelFuel then "ERR fuel" else "PANIC " ++ e

end Scc.Core2AxCut
