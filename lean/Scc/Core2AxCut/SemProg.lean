/-
  Scc.Core2AxCut.SemProg — proof file for the semantic part of C04: from statements to programs.
  The definitions of `shrinkProg p` are, in order, the image of each definition of `p` followed by
  the definitions lifted out of it; a label of `p` is found in the output at the image of the first
  definition of `p` with that name (lifted labels never collide with names of `p`); the image of a
  definition translates its body (`ProgRel`); entry states are related.
-/
import Scc.Core2AxCut.SemTrCut
import Scc.Core2AxCut.SemSimCut
import Scc.Core2AxCut.NoLift

namespace Scc.Core2AxCut.Sem

open Scc Scc.Core2AxCut
open Scc.AxCut.Named (Value lookup lookupAll bindParams findDef State step)

local notation "sid" => shrinkIdentifier

/-! ## the definitions of the output program -/

/-- how the image of the definition `d` was produced -/
def DefImage (data codata : List Core.TypeDecl) (d : Core.FsDef) (d' : AxCut.Def) (lo : Nat)
    (defs : List AxCut.Def) (used : List Core.Ident) : Prop :=
  ∃ body st0 st1, d' = ⟨sid d.name, shrinkContext codata d.ctx, body⟩ ∧
    shrinkStmt ⟨data, codata, d.name.name⟩ (sizeStmt d.body + 1) d.body st0 = .ok (body, st1) ∧
    lo ≤ st0.maxId ∧
    -- the definitions lifted out of `d` are in the output, under labels that differ from all used names
    ∀ d'' ∈ st1.lifted, d'' ∈ defs ∧ ∃ x : Core.Ident, d''.name = sid x ∧ ∀ u ∈ used, x.print ≠ u.print

theorem print_eq_of_sid_eq {x u : Core.Ident} (h : sid x = sid u) : x.print = u.print := by
  rw [sid_inj h]

theorem shrinkDefs_spec {data codata : List Core.TypeDecl} : ∀ (ds : List Core.FsDef) (used : List Core.Ident)
    (maxId : Nat) defs used' maxId', shrinkDefs data codata ds used maxId = .ok (defs, used', maxId') →
    maxId ≤ maxId' ∧ (∀ u ∈ used, u ∈ used') ∧
    (∀ d0 ds0, ds = d0 :: ds0 → ∃ d' rest, defs = d' :: rest ∧ DefImage data codata d0 d' maxId defs used) ∧
    ∀ f d, f ∈ used → ds.find? (fun d => d.name = f) = some d →
      ∃ d', defs.find? (fun d' => d'.name == sid f) = some d' ∧ DefImage data codata d d' maxId defs used
  | [], used, maxId, defs, used', maxId', h => by
    simp only [shrinkDefs, Except.ok.injEq, Prod.mk.injEq] at h
    obtain ⟨rfl, rfl, rfl⟩ := h
    exact ⟨Nat.le_refl _, fun u hu => hu, by simp, by simp⟩
  | d :: ds, used, maxId, defs, used', maxId', h => by
    simp only [shrinkDefs] at h
    split at h
    · cases h
    · rename_i defs1 used1 maxId1 h1
      split at h
      · cases h
      · rename_i rest used2 maxId2 h2
        simp only [Except.ok.injEq, Prod.mk.injEq] at h
        obtain ⟨rfl, rfl, rfl⟩ := h
        obtain ⟨m2, u2, _, f2⟩ := shrinkDefs_spec ds used1 maxId1 rest used2 maxId2 h2
        simp only [shrinkDef] at h1
        split at h1
        · cases h1
        · rename_i body st hb
          simp only [Except.ok.injEq, Prod.mk.injEq] at h1
          obtain ⟨rfl, rfl, rfl⟩ := h1
          have m1 : maxId ≤ st.maxId := (shrinkStmt_mono _ _ _ _ _ _ hb).le
          obtain ⟨g, l, hu, hl, _, hdis, hperm⟩ := shrinkStmt_labelsExt _ _ _ _ _ _ hb
          simp only [List.append_nil] at hl
          simp only at hu
          have himg : DefImage data codata d ⟨sid d.name, shrinkContext codata d.ctx, body⟩ maxId
              (⟨sid d.name, shrinkContext codata d.ctx, body⟩ :: st.lifted ++ rest) used := by
            refine ⟨body, _, st, rfl, hb, Nat.le_refl _, ?_⟩
            intro d'' hd''
            refine ⟨by simp [hd''], ?_⟩
            have : d''.name ∈ l.map (·.name) := List.mem_map.mpr ⟨d'', by rw [← hl]; exact hd'', rfl⟩
            obtain ⟨x, hx, hxe⟩ := List.mem_map.mp ((hperm.mem_iff).mp this)
            exact ⟨x, hxe.symm, hdis x hx⟩
          refine ⟨by omega, fun u hu' => u2 u (by rw [hu]; simp [hu']), ?_, ?_⟩
          · intro d0 ds0 e
            simp only [List.cons.injEq] at e
            obtain ⟨rfl, rfl⟩ := e
            exact ⟨_, _, rfl, himg⟩
          · intro f d0 hf hfind
            simp only [List.find?_cons] at hfind
            simp only [List.cons_append, List.find?_cons]
            by_cases hn : d.name = f
            · simp only [hn, decide_true] at hfind
              simp only [Option.some.injEq] at hfind
              subst hfind
              subst hn
              exact ⟨_, by simp, himg⟩
            · simp only [hn, decide_false] at hfind
              have hne : (sid d.name == sid f) = false := by rw [sid_beq]; simpa using hn
              simp only [hne]
              -- the lifted definitions are not called `f`
              have hlift : st.lifted.find? (fun d' => d'.name == sid f) = none := by
                rw [List.find?_eq_none]
                intro d' hd' hc
                have hc' : d'.name = sid f := eq_of_beq hc
                have : d'.name ∈ l.map (·.name) := List.mem_map.mpr ⟨d', by rw [← hl]; exact hd', rfl⟩
                have := (hperm.mem_iff).mp this
                obtain ⟨x, hx, hxe⟩ := List.mem_map.mp this
                exact hdis x hx f hf (print_eq_of_sid_eq (by rw [hxe, hc']))
              rw [List.find?_append, hlift]
              simp only [Option.none_or]
              obtain ⟨d', h3, b', s0, s1, h4, h5, h6, h7⟩ := f2 f d0 (by rw [hu]; simp [hf]) hfind
              refine ⟨d', h3, b', s0, s1, h4, h5, by omega, ?_⟩
              intro d'' hd''
              obtain ⟨g1, x, g2, g3⟩ := h7 d'' hd''
              exact ⟨by simp [g1], x, g2, fun u hu' => g3 u (by rw [hu]; simp [hu'])⟩

/-! ## lifted definitions are found under their labels -/

theorem find_of_count : ∀ (l : List AxCut.Def) (d : AxCut.Def), d ∈ l → (l.map (·.name)).count d.name ≤ 1 →
    l.find? (fun e => e.name == d.name) = some d
  | [], _, h, _ => by simp at h
  | e :: l, d, hm, hc => by
    simp only [List.map_cons, List.count_cons] at hc
    simp only [List.find?_cons]
    by_cases he : e.name = d.name
    · simp only [he, beq_self_eq_true, if_true] at hc ⊢
      rcases List.mem_cons.mp hm with rfl | hm'
      · rfl
      · have : 1 ≤ (l.map (·.name)).count d.name :=
          List.one_le_count_iff.mpr (List.mem_map.mpr ⟨d, hm', rfl⟩)
        omega
    · have he' : (e.name == d.name) = false := by simpa using he
      simp only [he', Bool.false_eq_true, if_false, Nat.add_zero] at hc ⊢
      rcases List.mem_cons.mp hm with rfl | hm'
      · exact absurd rfl he
      · exact find_of_count l d hm' hc

theorem good_of_labels {defs : List AxCut.Def} {pnames g : List Core.Ident}
    (hperm : (defs.map (·.name)).Perm (pnames.map sid ++ g.map sid)) (hnd : (g.map (·.print)).Nodup)
    (d : AxCut.Def) (hd : d ∈ defs) (x : Core.Ident) (hx : d.name = sid x)
    (hdis : ∀ u ∈ pnames, x.print ≠ u.print) : defs.find? (fun e => e.name == d.name) = some d := by
  apply find_of_count defs d hd
  rw [hperm.count_eq, List.count_append]
  have h1 : (pnames.map sid).count d.name = 0 := by
    rw [List.count_eq_zero]
    intro hm
    obtain ⟨u, hu, hue⟩ := List.mem_map.mp hm
    rw [hx] at hue
    exact hdis u hu (by rw [sid_inj hue])
  have h2 : (g.map sid).Nodup := by
    apply nodup_of_map AxCut.Ident.print
    rw [List.map_map]
    exact hnd
  have := List.nodup_iff_count.mp h2 d.name
  omega

/-! ## the hypotheses of the theorem give the invariant at the start of every definition -/

theorem nodupNat_iff : ∀ (l : List Nat), nodupNat l = true ↔ l.Nodup
  | [] => by simp [nodupNat]
  | x :: xs => by simp [nodupNat, nodupNat_iff xs]

theorem occFs_mem {Γ : Core.Ctx} {b : Core.Binding} (h : occFs Γ b = true) : b ∈ Γ := by
  simp only [occFs, lookupFs] at h
  have := eq_of_beq h
  exact List.mem_of_find?_eq_some this

theorem agree_hId (Γ : Core.Ctx) : Agree Γ hId id := fun _ _ => rfl

theorem invB_start {d : Core.FsDef} {maxId m : Nat} (hu : uniqueIdsDef d = true) (hb : idsBoundedDef maxId d = true)
    (hm : maxId ≤ m) : InvB d.ctx id d.body.binderIds m := by
  simp only [uniqueIdsDef, nodupNat_iff, List.map_append, bindersStmt_ids] at hu
  simp only [idsBoundedDef, List.all_eq_true, List.mem_append, decide_eq_true_eq] at hb
  have hnd := List.nodup_append.mp hu
  refine ⟨hnd.2.1, fun _ _ => rfl, ?_, fun i hi => Nat.le_trans (hb i (.inr hi)) hm⟩
  intro b hocc
  have hmem : b.var.id ∈ d.ctx.map (·.var.id) := List.mem_map.mpr ⟨b, occFs_mem hocc, rfl⟩
  exact ⟨fun hc => hnd.2.2 _ hmem _ hc rfl, Nat.le_trans (hb _ (.inl (by simpa [Core.ctxIds] using hmem))) hm⟩

/-- the definitions of `p` and their images in `q` -/
theorem progRel_of_shrink {p : Core.FsProg} {q : AxCut.Prog} (hwt : wtFsScopedCheck p = true)
    (hu : uniqueIdsCheck p = true) (hb : idsBoundedCheck p = true)
    (h : shrinkProg p = .ok q) : ProgRel (progTEnv p) q p := by
  refine ⟨rfl, ?_⟩
  intro f d hfind
  have hmem : d ∈ p.defs := List.mem_of_find?_eq_some hfind
  have hname : d.name = f := by simpa using List.find?_some hfind
  simp only [wtFsScopedCheck, wtFsCheck, Bool.and_eq_true, List.all_eq_true] at hwt
  simp only [uniqueIdsCheck, List.all_eq_true] at hu
  simp only [idsBoundedCheck, List.all_eq_true] at hb
  simp only [shrinkProg] at h
  split at h
  · cases h
  · split at h
    · cases h
    · split at h
      · cases h
      · rename_i defs used m hd
        simp only [Except.ok.injEq] at h
        subst h
        obtain ⟨_, _, _, hspec⟩ := shrinkDefs_spec _ _ _ _ _ _ hd
        obtain ⟨g, _, hgnd, _, hperm⟩ := shrinkDefs_labels _ _ _ _ _ _ hd
        obtain ⟨d', h1, body, st0, st1, rfl, h3, h4, h7⟩ := hspec f d
          (List.mem_map.mpr ⟨d, hmem, hname⟩) hfind
        have hgood : Good ⟨defs, (p.dataTypes ++ [contInt]).map (shrinkDeclaration p.codataTypes) ++
            p.codataTypes.map (shrinkDeclaration p.codataTypes), m⟩ st1 := by
          intro d'' hd''
          obtain ⟨g1, x, g2, g3⟩ := h7 d'' hd''
          exact good_of_labels (pnames := p.defs.map (·.name)) (by simpa [List.map_map, Function.comp_def] using hperm) hgnd d'' g1 x g2 g3
        have hud := hu d hmem
        have hnd : (d.ctx.map fun b => b.var.id).Nodup := by
          simp only [uniqueIdsDef, nodupNat_iff, List.map_append] at hud
          exact (List.nodup_append.mp hud).1
        refine ⟨_, h1, axIds_shrinkContext _ _, hnd, ?_⟩
        have hE : EnvMatches ⟨p.dataTypes ++ [contInt], p.codataTypes, d.name.name⟩ (progTEnv p) := ⟨rfl, rfl⟩
        exact (shrinkStmt_tr _ hE (sizeStmt d.body + 1) d.ctx id d.body st0 body st1
          (by rw [renStmt_id]; exact h3) hgood (hwt.1.2 d hmem) (hwt.2 d hmem)
          (invB_start hud (hb d hmem) h4)).1 hId (agree_hId _)

/-! ## entry -/

theorem entryEnv_int : ∀ (ctx : Core.Ctx) (args : List (BitVec 64)),
    (∀ b ∈ ctx, b.chi = .prd ∧ b.ty = .i64) →
    (ctx.length = args.length →
      Core.entryEnv (S := Core.FsStmt) (C := Core.FsClauses) ctx args = Core.Env.bind [] ctx (args.map .int)) ∧
    (ctx.length ≠ args.length →
      Core.entryEnv (S := Core.FsStmt) (C := Core.FsClauses) ctx args = .error .arity)
  | [], [], _ => ⟨fun _ => rfl, fun h => absurd rfl h⟩
  | [], _ :: _, _ => ⟨fun h => by simp at h, fun _ => rfl⟩
  | b :: bs, [], hb => by
    refine ⟨fun h => by simp at h, fun _ => ?_⟩
    have := (hb b (by simp)).1
    simp [Core.entryEnv, this]
  | b :: bs, a :: as, hb => by
    have h1 := (hb b (by simp)).1
    obtain ⟨i1, i2⟩ := entryEnv_int bs as (fun b hb' => hb b (by simp [hb']))
    constructor
    · intro hl
      simp only [Core.entryEnv, h1, List.map_cons, Core.Env.bind]
      rw [i1 (by simpa using hl)]
    · intro hl
      simp only [Core.entryEnv, h1]
      rw [i2 (by simpa using hl)]

theorem bindParams_none : ∀ (ctx : AxCut.Ctx) (vs : List Value), ctx.length ≠ vs.length → bindParams ctx vs = none
  | [], [], h => absurd rfl h
  | [], _ :: _, _ => rfl
  | _ :: _, [], _ => rfl
  | b :: bs, v :: vs, h => by
    simp [bindParams, bindParams_none bs vs (by simpa using h)]

theorem vrelL_ints {E : TEnv} {q : AxCut.Prog} : ∀ (ctx : Core.Ctx) (args : List (BitVec 64)),
    (∀ b ∈ ctx, b.chi = .prd ∧ b.ty = .i64) → ctx.length = args.length →
    VRelL E q ctx (args.map .int) (args.map .int)
  | [], [], _, _ => .nil
  | [], _ :: _, _, h => by simp at h
  | _ :: _, [], _, h => by simp at h
  | b :: bs, a :: as, hb, hl => by
    refine .cons ?_ (vrelL_ints bs as (fun b hb' => hb b (by simp [hb'])) (by simpa using hl))
    rw [(hb b (by simp)).1, (hb b (by simp)).2]
    exact .int a

/-! ## the two runs -/

/-- the behaviours of the two machines on `p` and `shrinkProg p` correspond, in both directions -/
theorem sem_runs {p : Core.FsProg} {q : AxCut.Prog} (args : List (BitVec 64))
    (hwt : wtFsScopedCheck p = true) (hu : uniqueIdsCheck p = true) (hb : idsBoundedCheck p = true)
    (hint : mainIntParams p = true)
    (hmain : ∃ d ds, p.defs = d :: ds ∧ d.name.name = "main") (h : shrinkProg p = .ok q) :
    (∀ n, CFin (Core.fsRun p args n).res →
      ∃ m, (AxCut.Named.run q args m).out = (Core.fsRun p args n).out ∧
        ResMatch (Core.fsRun p args n).res (AxCut.Named.run q args m).res) ∧
    (∀ m, Fin (AxCut.Named.run q args m).res →
      ∃ n, (Core.fsRun p args n).out = (AxCut.Named.run q args m).out ∧
        ResMatch (Core.fsRun p args n).res (AxCut.Named.run q args m).res) := by
  have hp := progRel_of_shrink hwt hu hb h
  obtain ⟨d, ds, hdefs, hname⟩ := hmain
  have hmem : d ∈ p.defs := by rw [hdefs]; simp
  have hfind : p.defs.find? (fun d => d.name.name = Core.mainName) = some d := by
    simp [hdefs, hname, Core.mainName]
  have hints : ∀ b ∈ d.ctx, b.chi = .prd ∧ b.ty = .i64 := by
    simp only [mainIntParams, hdefs, List.all_eq_true, Bool.and_eq_true, beq_iff_eq] at hint
    exact hint
  -- the first definition of `q`
  have hq : ∃ d' rest, q.defs = d' :: rest ∧ d'.ctx = shrinkContext p.codataTypes d.ctx ∧
      Tr (progTEnv p) q d.ctx hId d.body d'.body := by
    have hwt' := hwt
    simp only [wtFsScopedCheck, wtFsCheck, Bool.and_eq_true, List.all_eq_true] at hwt'
    simp only [uniqueIdsCheck, List.all_eq_true] at hu
    simp only [idsBoundedCheck, List.all_eq_true] at hb
    have h' := h
    simp only [shrinkProg] at h'
    split at h'
    · cases h'
    · split at h'
      · cases h'
      · split at h'
        · cases h'
        · rename_i defs used m hd
          simp only [Except.ok.injEq] at h'
          subst h'
          obtain ⟨_, _, hhead, _⟩ := shrinkDefs_spec _ _ _ _ _ _ hd
          obtain ⟨g, _, hgnd, _, hperm⟩ := shrinkDefs_labels _ _ _ _ _ _ hd
          obtain ⟨d', rest, e1, body, st0, st1, rfl, h3, h4, h7⟩ := hhead d ds hdefs
          refine ⟨_, rest, e1, rfl, ?_⟩
          have hgood : Good ⟨defs, (p.dataTypes ++ [contInt]).map (shrinkDeclaration p.codataTypes) ++
              p.codataTypes.map (shrinkDeclaration p.codataTypes), m⟩ st1 := by
            intro d'' hd''
            obtain ⟨g1, x, g2, g3⟩ := h7 d'' hd''
            exact good_of_labels (pnames := p.defs.map (·.name)) (by simpa [List.map_map, Function.comp_def] using hperm) hgnd d'' g1 x g2 g3
          have hE : EnvMatches ⟨p.dataTypes ++ [contInt], p.codataTypes, d.name.name⟩ (progTEnv p) := ⟨rfl, rfl⟩
          exact (shrinkStmt_tr _ hE (sizeStmt d.body + 1) d.ctx id d.body st0 body st1
            (by rw [renStmt_id]; exact h3) hgood (hwt'.1.2 d hmem) (hwt'.2 d hmem)
            (invB_start (hu d hmem) (hb d hmem) h4)).1 hId (agree_hId _)
  obtain ⟨d', rest, hqdefs, hctx, htr⟩ := hq
  have hnd : (d.ctx.map fun b => b.var.id).Nodup := by
    simp only [uniqueIdsCheck, List.all_eq_true] at hu
    have hud := hu d hmem
    simp only [uniqueIdsDef, nodupNat_iff, List.map_append] at hud
    exact (List.nodup_append.mp hud).1
  have hlen' : d'.ctx.length = d.ctx.length := by rw [hctx]; simp [shrinkContext]
  by_cases hlen : d.ctx.length = args.length
  · -- both machines start
    obtain ⟨ρ, e, h4, h5, h6⟩ := EnvRel.bind (E := progTEnv p) (q := q) envRel_nil d.ctx d'.ctx _ _
      (vrelL_ints d.ctx args hints hlen) hlen'
      (by rw [hctx, axIds_shrinkContext]; exact hnd) (by intro i _ b hb; simp [occFs, lookupFs] at hb)
    rw [hctx, axIds_shrinkContext, setMany_hId] at h6
    simp only [List.append_nil] at h6
    have hcore : ∀ n, Core.fsRun p args n = Core.fsStepN p n ⟨d.body, ρ, []⟩ := by
      intro n
      simp only [Core.fsRun, hfind, (entryEnv_int d.ctx args hints).1 hlen, h4]
    have hax : ∀ m, AxCut.Named.run q args m = AxCut.Named.iterate q m ⟨d'.body, e, []⟩ := by
      intro m
      simp only [AxCut.Named.run, hqdefs, h5]
    have hrel : StRel (progTEnv p) q ⟨d.body, ρ, []⟩ ⟨d'.body, e, []⟩ := stRel_mk htr h6
    constructor
    · intro n hf
      rw [hcore] at hf ⊢
      obtain ⟨m, h1, h2⟩ := sim_forward (sim_stRel hp) n _ _ hrel hf
      exact ⟨m, by rw [hax]; exact h1, by rw [hax]; exact h2⟩
    · intro m hf
      rw [hax] at hf ⊢
      obtain ⟨n, h1, h2⟩ := sim_backward (sim_stRel hp) m _ _ _ hrel (Nat.le_refl _) hf
      exact ⟨n, by rw [hcore]; exact h1, by rw [hcore]; exact h2⟩
  · -- wrong number of arguments: both machines refuse to start
    have hcore : ∀ n, Core.fsRun p args n = ⟨[], .stuck .arity⟩ := by
      intro n
      simp only [Core.fsRun, hfind, (entryEnv_int d.ctx args hints).2 hlen]
    have hax : ∀ m, AxCut.Named.run q args m = ⟨[], .stuck "main: arity"⟩ := by
      intro m
      simp only [AxCut.Named.run, hqdefs, bindParams_none d'.ctx (args.map Value.int) (by simp [hlen', hlen])]
    constructor
    · intro n _
      exact ⟨0, by rw [hax, hcore], by rw [hax, hcore]; exact ⟨_, rfl⟩⟩
    · intro m _
      exact ⟨0, by rw [hax, hcore], by rw [hax, hcore]; exact ⟨_, rfl⟩⟩

end Scc.Core2AxCut.Sem
