/-
  Scc.Core2AxCut.SemRel — proof file for the semantic part of C04: the simulation relation between the
  focused-Core machine (`Scc/Core/Sem.lean`) and the named AxCut machine (`Scc/AxCut/SemNamed.lean`).

  * `Tr E q Γ h s t`     "`t` is a translation of the focused Core statement `s`": `Γ` is the typing
                          context of `s` (newest binding first, as in `scStmt`), `h` maps every Core variable
                          in scope to the id of the AxCut variable that holds its value.  The judgment
                          follows `FsStatement::shrink` case by case (one rule per arm of `shrinkCut`, both
                          orientations), but is closed under renaming of the AxCut side and does not mention
                          the state of the translation: `Scc/Core2AxCut/SemTr.lean` proves that every output
                          of `shrinkStmt` satisfies it.  Statements lifted to a top-level definition are
                          the rule `lifted`.
  * `VRel E q chi ty v v'` the typed value relation: integers; constructors/destructors ~ objects;
                          `case`/`cocase` ~ closures with the translated clauses; `μ~`/`μ` values ~ closures
                          with eta-expanded clauses (one `let` per xtor) resp. the `Ret` clause.
  * `EnvRel`, `StRel`     environments and machine states.
-/
import Scc.Core2AxCut.FsTyping
import Scc.Core2AxCut.Proofs
import Scc.Core.Sem
import Scc.AxCut.SemNamed

namespace Scc.Core2AxCut.Sem

open Scc Scc.Core2AxCut
open Scc.AxCut.Named (Value lookup lookupAll bindParams findDef)

/-- Core variable ↦ id of the AxCut variable holding its value -/
abbrev HMap := Core.Ident → Nat

def HMap.set (h : HMap) (x : Core.Ident) (i : Nat) : HMap := fun y => if y = x then i else h y

/-- positional extension, first binding outermost (mirrors `Env.bind` / `bindParams`) -/
def HMap.setMany (h : HMap) : Core.Ctx → List Nat → HMap
  | b :: bs, i :: is => (HMap.setMany h bs is).set b.var i
  | _, _ => h

def hId : HMap := fun y => y.id

def axIds (c : AxCut.Ctx) : List Nat := c.map (·.var.id)

/-- no variable in scope is held by the AxCut variable `i` -/
def Avoids (Γ : Core.Ctx) (h : HMap) (i : Nat) : Prop := ∀ b, occFs Γ b = true → h b.var ≠ i

local notation "sid" => shrinkIdentifier

/-! ## shapes of generated clause lists (the parts that do not mention `Tr`) -/

/-- translated clauses (`shrinkClauses`): one AxCut clause per xtor, parameters = the Core parameters -/
def ClausesShape (Γ : Core.Ctx) (h : HMap) (xs : List Core.XtorSig) (cl : Core.FsClauses)
    (cls : AxCut.Clauses) : Prop :=
  ∀ K sig, xs.find? (fun x => x.name == K) = some sig →
    ∃ ctx body ctx' body', cl.find K = some (ctx, body) ∧ sigMatch ctx sig.args = true ∧
    AxCut.Named.findClause (sid K) cls = some (ctx', body') ∧ ctx'.length = ctx.length ∧
    (axIds ctx').Nodup ∧ (∀ i ∈ axIds ctx', Avoids Γ h i)

/-- eta-expansion with `let` (`criticalClauses`) -/
def CritShape (Γ : Core.Ctx) (h : HMap) (xs : List Core.XtorSig) (cls : AxCut.Clauses) : Prop :=
  ∀ K sig, xs.find? (fun x => x.name == K) = some sig → ∃ envC w ty' envC' t fv,
    AxCut.Named.findClause (sid K) cls = some (envC, .letS w ty' (sid K) envC' t fv) ∧
    envC.length = sig.args.length ∧ axIds envC' = axIds envC ∧ (axIds envC).Nodup ∧
    (∀ i ∈ axIds envC, Avoids Γ h i) ∧ Avoids Γ h w.id

/-- eta-expansion with `invoke` (`unknownClauses`) -/
def EtaShape (Γ : Core.Ctx) (h : HMap) (target : Nat) (xs : List Core.XtorSig) (cls : AxCut.Clauses) : Prop :=
  ∀ K sig, xs.find? (fun x => x.name == K) = some sig → ∃ envC v ty' envC',
    AxCut.Named.findClause (sid K) cls = some (envC, .invoke v (sid K) ty' envC') ∧
    v.id = target ∧ envC.length = sig.args.length ∧ axIds envC' = axIds envC ∧ (axIds envC).Nodup ∧
    (∀ i ∈ axIds envC, Avoids Γ h i)

/-- the data declaration `_Cont` of integer continuations has the single constructor `Ret(x : i64)` -/
def retSig : Core.XtorSig := ⟨retName, [⟨⟨"x", 0⟩, .prd, .i64⟩]⟩

/-! ## the translation judgment -/

inductive Tr (E : TEnv) (q : AxCut.Prog) : Core.Ctx → HMap → Core.FsStmt → AxCut.Stmt → Prop
  -- statements other than cuts
  | exit {Γ h a v} : occFs Γ ⟨a, .prd, .i64⟩ = true → v.id = h a → Tr E q Γ h (.exit a) (.exit v)
  | print {Γ h nl a n v t fv} : occFs Γ ⟨a, .prd, .i64⟩ = true → v.id = h a → Tr E q Γ h n t →
      Tr E q Γ h (.print nl a n) (.print nl v t fv)
  | ifz {Γ h srt a t e v t' e'} : occFs Γ ⟨a, .prd, .i64⟩ = true → v.id = h a →
      Tr E q Γ h t t' → Tr E q Γ h e e' →
      Tr E q Γ h (.ifc srt a none t e) (.ifc (shrinkIfSort srt) v none t' e')
  | ifc {Γ h srt a b t e v w t' e'} : occFs Γ ⟨a, .prd, .i64⟩ = true → v.id = h a →
      occFs Γ ⟨b, .prd, .i64⟩ = true → w.id = h b →
      Tr E q Γ h t t' → Tr E q Γ h e e' →
      Tr E q Γ h (.ifc srt a (some b) t e) (.ifc (shrinkIfSort srt) v (some w) t' e')
  | call {Γ h f args ps args'} : findSig E.sigs f = some ps → sigMatch args ps = true →
      (∀ b ∈ args, occFs Γ b = true) → axIds args' = args.map (fun b => h b.var) →
      Tr E q Γ h (.call f args) (.call (sid f) args')
  -- a statement lifted to the top-level definition `d`
  | lifted {Γ h s label args' d Γ' h'} : findDef q label = some d →
      (∀ b, occFs Γ' b = true → occFs Γ b = true) →
      d.ctx.length = args'.length → (axIds d.ctx).Nodup →
      (∀ i ∈ axIds args', ∃ b, occFs Γ b = true ∧ h b.var = i) →
      (∀ b, occFs Γ' b = true → ∃ i : Nat, (axIds args')[i]? = some (h b.var) ∧ (axIds d.ctx)[i]? = some (h' b.var)) →
      Tr E q Γ' h' s d.body →
      Tr E q Γ h s (.call label args')
  -- shrink_renaming
  | renL {Γ h T a s0 x t} : occFs Γ ⟨x, .cns, T⟩ = true →
      Tr E q (⟨a, .cns, T⟩ :: Γ) (h.set a (h x)) s0 t →
      Tr E q Γ h (.cut T (.mu .prd a T s0) (.var .cns x T)) t
  | renR {Γ h T y s0 x t} : occFs Γ ⟨x, .prd, T⟩ = true →
      Tr E q (⟨y, .prd, T⟩ :: Γ) (h.set y (h x)) s0 t →
      Tr E q Γ h (.cut T (.var .prd x T) (.mu .cns y T s0)) t
  -- shrink_known_cuts
  | knownData {Γ h T K args cl d sig ctx body t} : isCodata E.codata T = false → declOf E T = some d →
      d.xtors.find? (fun x => x.name == K) = some sig → sigMatch args sig.args = true →
      (∀ b ∈ args, occFs Γ b = true) →
      cl.find K = some (ctx, body) → sigMatch ctx sig.args = true →
      Tr E q (ctx ++ Γ) (h.setMany ctx (args.map fun b => h b.var)) body t →
      Tr E q Γ h (.cut T (.xtor .prd K args T) (.xcase .cns T cl)) t
  | knownCodata {Γ h T K args cl d sig ctx body t} : isCodata E.codata T = true → declOf E T = some d →
      d.xtors.find? (fun x => x.name == K) = some sig → sigMatch args sig.args = true →
      (∀ b ∈ args, occFs Γ b = true) →
      cl.find K = some (ctx, body) → sigMatch ctx sig.args = true →
      Tr E q (ctx ++ Γ) (h.setMany ctx (args.map fun b => h b.var)) body t →
      Tr E q Γ h (.cut T (.xcase .prd T cl) (.xtor .cns K args T)) t
  -- shrink_unknown_cuts
  | unkInt {Γ h x α v ty' args'} : occFs Γ ⟨x, .prd, .i64⟩ = true → occFs Γ ⟨α, .cns, .i64⟩ = true →
      v.id = h α → axIds args' = [h x] →
      Tr E q Γ h (.cut .i64 (.var .prd x .i64) (.var .cns α .i64)) (.invoke v (sid retName) ty' args')
  | unkData {Γ h T x α d v ty' cls fv} : isCodata E.codata T = false → declOf E T = some d →
      occFs Γ ⟨x, .prd, T⟩ = true → occFs Γ ⟨α, .cns, T⟩ = true →
      v.id = h x → EtaShape Γ h (h α) d.xtors cls →
      Tr E q Γ h (.cut T (.var .prd x T) (.var .cns α T)) (.switch v ty' cls fv)
  | unkCodata {Γ h T x α d v ty' cls fv} : isCodata E.codata T = true → declOf E T = some d →
      occFs Γ ⟨x, .prd, T⟩ = true → occFs Γ ⟨α, .cns, T⟩ = true →
      v.id = h α → EtaShape Γ h (h x) d.xtors cls →
      Tr E q Γ h (.cut T (.var .prd x T) (.var .cns α T)) (.switch v ty' cls fv)
  -- shrink_critical_pairs
  | critInt {Γ h a s1 x s2 a' x' ty' t2 t1 bx fc fn} : Avoids Γ h a'.id → Avoids Γ h x'.id →
      bx.var = x' →
      Tr E q (⟨x, .prd, .i64⟩ :: Γ) (h.set x x'.id) s2 t2 →
      Tr E q (⟨a, .cns, .i64⟩ :: Γ) (h.set a a'.id) s1 t1 →
      Tr E q Γ h (.cut .i64 (.mu .prd a .i64 s1) (.mu .cns x .i64 s2))
        (.create a' ty' none (.cons (sid retName) [bx] t2 .nil) t1 fc fn)
  | critData {Γ h T a s1 x s2 d a' ty' cls t1 fc fn} : isCodata E.codata T = false → declOf E T = some d →
      Avoids Γ h a'.id → CritShape Γ h d.xtors cls →
      (∀ tag envC w ty'' tg envC' t fv,
        AxCut.Named.findClause tag cls = some (envC, .letS w ty'' tg envC' t fv) →
        Tr E q (⟨x, .prd, T⟩ :: Γ) (h.set x w.id) s2 t) →
      Tr E q (⟨a, .cns, T⟩ :: Γ) (h.set a a'.id) s1 t1 →
      Tr E q Γ h (.cut T (.mu .prd a T s1) (.mu .cns x T s2)) (.create a' ty' none cls t1 fc fn)
  | critCodata {Γ h T a s1 x s2 d x' ty' cls t2 fc fn} : isCodata E.codata T = true → declOf E T = some d →
      Avoids Γ h x'.id → CritShape Γ h d.xtors cls →
      (∀ tag envC w ty'' tg envC' t fv,
        AxCut.Named.findClause tag cls = some (envC, .letS w ty'' tg envC' t fv) →
        Tr E q (⟨a, .cns, T⟩ :: Γ) (h.set a w.id) s1 t) →
      Tr E q (⟨x, .prd, T⟩ :: Γ) (h.set x x'.id) s2 t2 →
      Tr E q Γ h (.cut T (.mu .prd a T s1) (.mu .cns x T s2)) (.create x' ty' none cls t2 fc fn)
  -- shrink_literal_mu / shrink_literal_var / shrink_op_mu / shrink_op_var
  | litMu {Γ h n x s0 x' t fv} : Avoids Γ h x'.id →
      Tr E q (⟨x, .prd, .i64⟩ :: Γ) (h.set x x'.id) s0 t →
      Tr E q Γ h (.cut .i64 (.lit n) (.mu .cns x .i64 s0)) (.lit x' n t fv)
  | litVar {Γ h n α w v ty' args' fv} : occFs Γ ⟨α, .cns, .i64⟩ = true → w.id ≠ h α → v.id = h α →
      axIds args' = [w.id] →
      Tr E q Γ h (.cut .i64 (.lit n) (.var .cns α .i64)) (.lit w n (.invoke v (sid retName) ty' args') fv)
  | opMu {Γ h a o b x s0 x' va vb t fv} : occFs Γ ⟨a, .prd, .i64⟩ = true → occFs Γ ⟨b, .prd, .i64⟩ = true →
      va.id = h a → vb.id = h b → Avoids Γ h x'.id →
      Tr E q (⟨x, .prd, .i64⟩ :: Γ) (h.set x x'.id) s0 t →
      Tr E q Γ h (.cut .i64 (.op a o b) (.mu .cns x .i64 s0)) (.op x' va (shrinkBinop o) vb t fv)
  | opVar {Γ h a o b α w va vb v ty' args' fv} : occFs Γ ⟨a, .prd, .i64⟩ = true →
      occFs Γ ⟨b, .prd, .i64⟩ = true → va.id = h a → vb.id = h b →
      occFs Γ ⟨α, .cns, .i64⟩ = true → w.id ≠ h α → v.id = h α → axIds args' = [w.id] →
      Tr E q Γ h (.cut .i64 (.op a o b) (.var .cns α .i64))
        (.op w va (shrinkBinop o) vb (.invoke v (sid retName) ty' args') fv)
  -- Let
  | letData {Γ h T K args x s0 d sig x' ty' args' t fv} : isCodata E.codata T = false →
      declOf E T = some d → d.xtors.find? (fun x => x.name == K) = some sig →
      sigMatch args sig.args = true → (∀ b ∈ args, occFs Γ b = true) →
      axIds args' = args.map (fun b => h b.var) → Avoids Γ h x'.id →
      Tr E q (⟨x, .prd, T⟩ :: Γ) (h.set x x'.id) s0 t →
      Tr E q Γ h (.cut T (.xtor .prd K args T) (.mu .cns x T s0)) (.letS x' ty' (sid K) args' t fv)
  | letCodata {Γ h T K args a s0 d sig a' ty' args' t fv} : isCodata E.codata T = true →
      declOf E T = some d → d.xtors.find? (fun x => x.name == K) = some sig →
      sigMatch args sig.args = true → (∀ b ∈ args, occFs Γ b = true) →
      axIds args' = args.map (fun b => h b.var) → Avoids Γ h a'.id →
      Tr E q (⟨a, .cns, T⟩ :: Γ) (h.set a a'.id) s0 t →
      Tr E q Γ h (.cut T (.mu .prd a T s0) (.xtor .cns K args T)) (.letS a' ty' (sid K) args' t fv)
  -- Invoke
  | invokeData {Γ h T K args α d sig v ty' args'} : isCodata E.codata T = false →
      declOf E T = some d → d.xtors.find? (fun x => x.name == K) = some sig →
      sigMatch args sig.args = true → (∀ b ∈ args, occFs Γ b = true) →
      axIds args' = args.map (fun b => h b.var) → occFs Γ ⟨α, .cns, T⟩ = true → v.id = h α →
      Tr E q Γ h (.cut T (.xtor .prd K args T) (.var .cns α T)) (.invoke v (sid K) ty' args')
  | invokeCodata {Γ h T K args x d sig v ty' args'} : isCodata E.codata T = true →
      declOf E T = some d → d.xtors.find? (fun x => x.name == K) = some sig →
      sigMatch args sig.args = true → (∀ b ∈ args, occFs Γ b = true) →
      axIds args' = args.map (fun b => h b.var) → occFs Γ ⟨x, .prd, T⟩ = true → v.id = h x →
      Tr E q Γ h (.cut T (.var .prd x T) (.xtor .cns K args T)) (.invoke v (sid K) ty' args')
  -- Switch
  | switchData {Γ h T x cl d v ty' cls fv} : isCodata E.codata T = false → declOf E T = some d →
      occFs Γ ⟨x, .prd, T⟩ = true → v.id = h x → ClausesShape Γ h d.xtors cl cls →
      (∀ K ctx body ctx' body', cl.find K = some (ctx, body) →
        AxCut.Named.findClause (sid K) cls = some (ctx', body') → ctx'.length = ctx.length →
        Tr E q (ctx ++ Γ) (h.setMany ctx (axIds ctx')) body body') →
      Tr E q Γ h (.cut T (.var .prd x T) (.xcase .cns T cl)) (.switch v ty' cls fv)
  | switchCodata {Γ h T α cl d v ty' cls fv} : isCodata E.codata T = true → declOf E T = some d →
      occFs Γ ⟨α, .cns, T⟩ = true → v.id = h α → ClausesShape Γ h d.xtors cl cls →
      (∀ K ctx body ctx' body', cl.find K = some (ctx, body) →
        AxCut.Named.findClause (sid K) cls = some (ctx', body') → ctx'.length = ctx.length →
        Tr E q (ctx ++ Γ) (h.setMany ctx (axIds ctx')) body body') →
      Tr E q Γ h (.cut T (.xcase .prd T cl) (.var .cns α T)) (.switch v ty' cls fv)
  -- Create
  | createData {Γ h T a s0 cl d a' ty' cls t fc fn} : isCodata E.codata T = false → declOf E T = some d →
      Avoids Γ h a'.id → ClausesShape Γ h d.xtors cl cls →
      (∀ K ctx body ctx' body', cl.find K = some (ctx, body) →
        AxCut.Named.findClause (sid K) cls = some (ctx', body') → ctx'.length = ctx.length →
        Tr E q (ctx ++ Γ) (h.setMany ctx (axIds ctx')) body body') →
      Tr E q (⟨a, .cns, T⟩ :: Γ) (h.set a a'.id) s0 t →
      Tr E q Γ h (.cut T (.mu .prd a T s0) (.xcase .cns T cl)) (.create a' ty' none cls t fc fn)
  | createCodata {Γ h T x s0 cl d x' ty' cls t fc fn} : isCodata E.codata T = true → declOf E T = some d →
      Avoids Γ h x'.id → ClausesShape Γ h d.xtors cl cls →
      (∀ K ctx body ctx' body', cl.find K = some (ctx, body) →
        AxCut.Named.findClause (sid K) cls = some (ctx', body') → ctx'.length = ctx.length →
        Tr E q (ctx ++ Γ) (h.setMany ctx (axIds ctx')) body body') →
      Tr E q (⟨x, .prd, T⟩ :: Γ) (h.set x x'.id) s0 t →
      Tr E q Γ h (.cut T (.xcase .prd T cl) (.mu .cns x T s0)) (.create x' ty' none cls t fc fn)

/-- the clause bodies of translated clauses are translations -/
def ClausesTr (E : TEnv) (q : AxCut.Prog) (Γ : Core.Ctx) (h : HMap) (cl : Core.FsClauses)
    (cls : AxCut.Clauses) : Prop :=
  ∀ K ctx body ctx' body', cl.find K = some (ctx, body) →
    AxCut.Named.findClause (sid K) cls = some (ctx', body') → ctx'.length = ctx.length →
    Tr E q (ctx ++ Γ) (h.setMany ctx (axIds ctx')) body body'

/-- the `let`-continuations of eta-expanded clauses are translations of `s` with `bx` bound -/
def CritTr (E : TEnv) (q : AxCut.Prog) (Γ : Core.Ctx) (h : HMap) (bx : Core.Binding) (s : Core.FsStmt)
    (cls : AxCut.Clauses) : Prop :=
  ∀ tag envC w ty'' tg envC' t fv,
    AxCut.Named.findClause tag cls = some (envC, .letS w ty'' tg envC' t fv) →
    Tr E q (bx :: Γ) (h.set bx.var w.id) s t

/-! ## values -/

mutual
  inductive VRel (E : TEnv) (q : AxCut.Prog) : Core.PC → Core.Ty → Core.FVal → Value → Prop
    | int (n : BitVec 64) : VRel E q .prd .i64 (.int n) (.int n)
    | con {T d K sig vs vs'} : isCodata E.codata T = false → declOf E T = some d →
        d.xtors.find? (fun x => x.name == K) = some sig → VRelL E q sig.args vs vs' →
        VRel E q .prd T (.con K vs) (.obj (sid K) vs')
    | dtor {T d K sig vs vs'} : isCodata E.codata T = true → declOf E T = some d →
        d.xtors.find? (fun x => x.name == K) = some sig → VRelL E q sig.args vs vs' →
        VRel E q .cns T (.dtor K vs) (.obj (sid K) vs')
    | caseClo {T d Γ h ρ η cl cls} (val : Core.Binding → Core.FVal) (val' : Core.Binding → Value) :
        (∀ b, occFs Γ b = true → Core.Env.lookup ρ b.var = .ok (val b)) →
        (∀ b, occFs Γ b = true → lookup η (h b.var) = some (val' b)) →
        (∀ b, occFs Γ b = true → VRel E q b.chi b.ty (val b) (val' b)) →
        isCodata E.codata T = false → declOf E T = some d →
        ClausesShape Γ h d.xtors cl cls → ClausesTr E q Γ h cl cls →
        VRel E q .cns T (.case ρ cl) (.clo η cls)
    | cocaseClo {T d Γ h ρ η cl cls} (val : Core.Binding → Core.FVal) (val' : Core.Binding → Value) :
        (∀ b, occFs Γ b = true → Core.Env.lookup ρ b.var = .ok (val b)) →
        (∀ b, occFs Γ b = true → lookup η (h b.var) = some (val' b)) →
        (∀ b, occFs Γ b = true → VRel E q b.chi b.ty (val b) (val' b)) →
        isCodata E.codata T = true → declOf E T = some d →
        ClausesShape Γ h d.xtors cl cls → ClausesTr E q Γ h cl cls →
        VRel E q .prd T (.cocase ρ cl) (.clo η cls)
    | mutildeInt {Γ h ρ η x s cls bx t} (val : Core.Binding → Core.FVal) (val' : Core.Binding → Value) :
        (∀ b, occFs Γ b = true → Core.Env.lookup ρ b.var = .ok (val b)) →
        (∀ b, occFs Γ b = true → lookup η (h b.var) = some (val' b)) →
        (∀ b, occFs Γ b = true → VRel E q b.chi b.ty (val b) (val' b)) →
        AxCut.Named.findClause (sid retName) cls = some ([bx], t) → Avoids Γ h bx.var.id →
        Tr E q (⟨x, .prd, .i64⟩ :: Γ) (h.set x bx.var.id) s t →
        VRel E q .cns .i64 (.mutilde ρ x s) (.clo η cls)
    | mutildeData {T d Γ h ρ η x s cls} (val : Core.Binding → Core.FVal) (val' : Core.Binding → Value) :
        (∀ b, occFs Γ b = true → Core.Env.lookup ρ b.var = .ok (val b)) →
        (∀ b, occFs Γ b = true → lookup η (h b.var) = some (val' b)) →
        (∀ b, occFs Γ b = true → VRel E q b.chi b.ty (val b) (val' b)) →
        isCodata E.codata T = false → declOf E T = some d →
        CritShape Γ h d.xtors cls → CritTr E q Γ h ⟨x, .prd, T⟩ s cls →
        VRel E q .cns T (.mutilde ρ x s) (.clo η cls)
    | thunk {T d Γ h ρ η a s cls} (val : Core.Binding → Core.FVal) (val' : Core.Binding → Value) :
        (∀ b, occFs Γ b = true → Core.Env.lookup ρ b.var = .ok (val b)) →
        (∀ b, occFs Γ b = true → lookup η (h b.var) = some (val' b)) →
        (∀ b, occFs Γ b = true → VRel E q b.chi b.ty (val b) (val' b)) →
        isCodata E.codata T = true → declOf E T = some d →
        CritShape Γ h d.xtors cls → CritTr E q Γ h ⟨a, .cns, T⟩ s cls →
        VRel E q .prd T (.thunk ρ a s) (.clo η cls)
  inductive VRelL (E : TEnv) (q : AxCut.Prog) : Core.Ctx → List Core.FVal → List Value → Prop
    | nil : VRelL E q [] [] []
    | cons {b bs v vs v' vs'} : VRel E q b.chi b.ty v v' → VRelL E q bs vs vs' →
        VRelL E q (b :: bs) (v :: vs) (v' :: vs')
end

/-- every variable in scope is bound on both sides, to related values -/
def EnvRel (E : TEnv) (q : AxCut.Prog) (Γ : Core.Ctx) (h : HMap) (ρ : Core.FEnv) (η : AxCut.Named.Env) : Prop :=
  ∀ b, occFs Γ b = true →
    ∃ v v', Core.Env.lookup ρ b.var = .ok v ∧ lookup η (h b.var) = some v' ∧ VRel E q b.chi b.ty v v'

/-- related machine states -/
def StRel (E : TEnv) (q : AxCut.Prog) (cs : Core.FsState) (as : AxCut.Named.State) : Prop :=
  ∃ Γ h, Tr E q Γ h cs.stmt as.stmt ∧ EnvRel E q Γ h cs.env as.env ∧ cs.out = as.out

/-- the definitions of the source program and their images -/
def ProgRel (E : TEnv) (q : AxCut.Prog) (p : Core.FsProg) : Prop :=
  E = progTEnv p ∧
  ∀ f d, p.defs.find? (fun d => d.name = f) = some d →
    ∃ d', findDef q (sid f) = some d' ∧ axIds d'.ctx = d.ctx.map (fun b => b.var.id) ∧
      (d.ctx.map (fun b => b.var.id)).Nodup ∧
      Tr E q d.ctx hId d.body d'.body

end Scc.Core2AxCut.Sem
