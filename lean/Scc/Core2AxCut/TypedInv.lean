/-
  Scc.Core2AxCut.TypedInv — proof file for the typing part of C04 / C12 (shrinking preserves typing):
  the invariant of the induction over `FsStatement::shrink`.
  As in the semantic proof (`SemTr.lean`) the statement handed to `shrink` is `renStmt f s` — a
  sub-statement `s` of the source program under the composition `f` of the id-substitutions performed so
  far — and `InvB Γ f B m` is the uniqueness invariant.  New here:
   * `AgreeT cod Γ f B m Γax`: the AxCut context `Γax` contains, for every Core variable in scope, the image
     (`shrink_binding`) of its renamed binding; its ids avoid the binders still to come and are `≤ max_id`;
     it has no duplicate ids;
   * `EnvOK E T` / `SigOK E S`: the declarations / signatures of the target program are the images of the
     source declarations / signatures;
   * `PostT`: what a successful call of `shrink` guarantees: the output is `TW`-typed in every such context
     and every definition lifted on the way is well-formed (`WfDef`).
-/
import Scc.Core2AxCut.TypedDefs
import Scc.Core2AxCut.SemTr

namespace Scc.Core2AxCut.Typed

open Scc Scc.AxCut Scc.Core2AxCut Scc.Core2AxCut.Sem
open Scc.AxCut.Named (findDef)

local notation "sid" => shrinkIdentifier

/-! ## `shrink_binding` -/

theorem sb_var (cod : List Core.TypeDecl) (b : Core.Binding) : (shrinkBinding cod b).var = sid b.var :=
  shrinkBinding_var cod b

theorem sb_id (cod : List Core.TypeDecl) (b : Core.Binding) : (shrinkBinding cod b).var.id = b.var.id := by
  rw [sb_var]; rfl

theorem sb_prd_int (cod : List Core.TypeDecl) (v : Core.Ident) :
    shrinkBinding cod ⟨v, .prd, .i64⟩ = ⟨sid v, .ext, .i64⟩ := by
  simp [shrinkBinding]

theorem sb_cns_int (cod : List Core.TypeDecl) (v : Core.Ident) :
    shrinkBinding cod ⟨v, .cns, .i64⟩ = ⟨sid v, .cns, contTy⟩ := by
  simp [shrinkBinding]

theorem ty_ne_int_of_decl {E : TEnv} {T : Core.Ty} {d} (h : declOf E T = some d) : (T == Core.Ty.i64) = false := by
  cases T with
  | i64 => simp [declOf] at h
  | decl n => rfl

theorem sb_prd_data {cod : List Core.TypeDecl} {T : Core.Ty} (v : Core.Ident) (hT : (T == Core.Ty.i64) = false)
    (hc : isCodata cod T = false) : shrinkBinding cod ⟨v, .prd, T⟩ = ⟨sid v, .prd, shrinkTy T⟩ := by
  simp [shrinkBinding, hT, hc]

theorem sb_cns_data {cod : List Core.TypeDecl} {T : Core.Ty} (v : Core.Ident) (hT : (T == Core.Ty.i64) = false)
    (hc : isCodata cod T = false) : shrinkBinding cod ⟨v, .cns, T⟩ = ⟨sid v, .cns, shrinkTy T⟩ := by
  simp [shrinkBinding, hT, hc]

theorem sb_cns_codata {cod : List Core.TypeDecl} {T : Core.Ty} (v : Core.Ident) (hT : (T == Core.Ty.i64) = false)
    (hc : isCodata cod T = true) : shrinkBinding cod ⟨v, .cns, T⟩ = ⟨sid v, .prd, shrinkTy T⟩ := by
  simp [shrinkBinding, hT, hc]

theorem sb_prd_codata {cod : List Core.TypeDecl} {T : Core.Ty} (v : Core.Ident) (hT : (T == Core.Ty.i64) = false)
    (hc : isCodata cod T = true) : shrinkBinding cod ⟨v, .prd, T⟩ = ⟨sid v, .cns, shrinkTy T⟩ := by
  simp [shrinkBinding, hT, hc]

/-- kind and type of the image depend on the chirality and type only -/
theorem sb_chiTy (cod : List Core.TypeDecl) (b c : Core.Binding) (h1 : b.chi = c.chi) (h2 : b.ty = c.ty) :
    (shrinkBinding cod b).chi = (shrinkBinding cod c).chi ∧ (shrinkBinding cod b).ty = (shrinkBinding cod c).ty := by
  simp only [shrinkBinding, h1, h2]
  split
  · split <;> simp
  · split <;> simp

theorem sb_eq_of (cod : List Core.TypeDecl) (b c : Core.Binding) (h0 : b.var = c.var) (h1 : b.chi = c.chi)
    (h2 : b.ty = c.ty) : shrinkBinding cod b = shrinkBinding cod c := by
  cases b; cases c; simp_all

theorem ids_shrinkContext (cod : List Core.TypeDecl) (c : Core.Ctx) :
    (shrinkContext cod c).ids = c.map (fun b => b.var.id) := axIds_shrinkContext cod c

theorem chiTys_shrinkContext_of_sigMatch (cod : List Core.TypeDecl) : ∀ {a s : Core.Ctx}, sigMatch a s = true →
    (shrinkContext cod a).chiTys = (shrinkContext cod s).chiTys
  | [], [], _ => rfl
  | [], _ :: _, h => by simp [sigMatch] at h
  | _ :: _, [], h => by simp [sigMatch] at h
  | a :: as, s :: ss, h => by
    simp only [sigMatch, Bool.and_eq_true, beq_iff_eq] at h
    have ih := chiTys_shrinkContext_of_sigMatch cod h.2
    have := sb_chiTy cod a s h.1.1 h.1.2
    simp only [shrinkContext, Ctx.chiTys, List.map_cons, List.cons.injEq, Prod.mk.injEq] at ih ⊢
    exact ⟨this, ih⟩

theorem chiTys_shrinkContext_ren (cod : List Core.TypeDecl) (f : Core.Ident → Core.Ident) (c : Core.Ctx) :
    (shrinkContext cod (renCtx f c)).chiTys = (shrinkContext cod c).chiTys := by
  induction c with
  | nil => rfl
  | cons b bs ih =>
    have := sb_chiTy cod (renBinding f b) b rfl rfl
    simp only [renCtx, shrinkContext, Ctx.chiTys, List.map_cons, List.cons.injEq, Prod.mk.injEq] at ih ⊢
    exact ⟨this, ih⟩

/-! ## declarations and signatures of the target program -/

structure EnvOK (E : TEnv) (T : List AxCut.TypeDecl) : Prop where
  decl : ∀ ty d, declOf E ty = some d → lookupTypeDecl T (shrinkTy ty) = some (shrinkDeclaration E.codata d)
  cont : declOf E (.decl contName) = some contInt
  /-- constructor / destructor names are distinct within a declaration -/
  xnd : ∀ ty d, declOf E ty = some d → (d.xtors.map (·.name)).Nodup

def SigOK (E : TEnv) (S : AxCut.Sigs) : Prop :=
  ∀ f ps, findSig E.sigs f = some ps → AxCut.findSig S (sid f) = some (shrinkContext E.codata ps)

theorem find_shrinkXtor (cod : List Core.TypeDecl) (K : Core.Ident) : ∀ (xs : List Core.XtorSig),
    (xs.map (shrinkXtor cod)).find? (fun x => x.name == sid K) =
      (xs.find? (fun x => x.name == K)).map (shrinkXtor cod)
  | [] => rfl
  | x :: xs => by
    simp only [List.map_cons, List.find?_cons, shrinkXtor, sid_beq]
    cases x.name == K
    · exact find_shrinkXtor cod K xs
    · rfl

theorem lookupXtor_of_decl {E : TEnv} {T : List AxCut.TypeDecl} (hT : EnvOK E T) {ty : Core.Ty} {d : Core.TypeDecl}
    {K : Core.Ident} {sig : Core.XtorSig} (hd : declOf E ty = some d)
    (hs : d.xtors.find? (fun x => x.name == K) = some sig) :
    lookupXtor T (shrinkTy ty) (sid K) = some (shrinkContext E.codata sig.args) := by
  simp only [lookupXtor, hT.decl ty d hd, shrinkDeclaration, find_shrinkXtor, hs, Option.map_some, shrinkXtor]

theorem lookupXtor_ret {E : TEnv} {T : List AxCut.TypeDecl} (hT : EnvOK E T) :
    lookupXtor T contTy (sid retName) = some [⟨sid ⟨"x", 0⟩, .ext, .i64⟩] := by
  have := lookupXtor_of_decl hT (K := retName) (sig := ⟨retName, [⟨⟨"x", 0⟩, .prd, .i64⟩]⟩) hT.cont
    (by simp [contInt, retName])
  simpa [shrinkContext, sb_prd_int, shrinkTy, contTy] using this

/-- an xtor of the declaration is found under its own name (names are distinct) -/
theorem find_self_of_nodup : ∀ (xs : List Core.XtorSig), (xs.map (·.name)).Nodup → ∀ x ∈ xs,
    xs.find? (fun y => y.name == x.name) = some x
  | [], _, _, h => by simp at h
  | y :: ys, hnd, x, hx => by
    simp only [List.map_cons, List.nodup_cons] at hnd
    simp only [List.find?_cons]
    rcases List.mem_cons.mp hx with rfl | hx'
    · simp
    · have : (y.name == x.name) = false := by
        simp only [beq_eq_false_iff_ne, ne_eq]
        intro e
        exact hnd.1 (e ▸ List.mem_map.mpr ⟨x, hx', rfl⟩)
      simp only [this]
      exact find_self_of_nodup ys hnd.2 x hx'

theorem findSig_of_findDef {q : AxCut.Prog} {l : AxCut.Ident} {d : AxCut.Def} (h : findDef q l = some d) :
    AxCut.findSig q.sigs l = some d.ctx := by
  simp only [findDef] at h
  simp only [AxCut.findSig, Prog.sigs, List.find?_map, Function.comp_def, h, Option.map_some]

/-! ## the context invariant -/

structure AgreeT (cod : List Core.TypeDecl) (Γ : Core.Ctx) (f : Core.Ident → Core.Ident) (B : List Nat) (m : Nat)
    (Γax : AxCut.Ctx) : Prop where
  mem : ∀ b, occFs Γ b = true → shrinkBinding cod (renBinding f b) ∈ Γax
  rng : ∀ i ∈ Γax.ids, i ∉ B ∧ i ≤ m
  nd : NodupIds Γax

theorem AgreeT.mono {cod Γ f B m m' Γax} (h : AgreeT cod Γ f B m Γax) (hm : m ≤ m') : AgreeT cod Γ f B m' Γax :=
  ⟨h.mem, fun i hi => ⟨(h.rng i hi).1, Nat.le_trans (h.rng i hi).2 hm⟩, h.nd⟩

theorem AgreeT.sub {cod Γ f B B' m Γax} (h : AgreeT cod Γ f B m Γax) (hB : ∀ i ∈ B', i ∈ B) :
    AgreeT cod Γ f B' m Γax :=
  ⟨h.mem, fun i hi => ⟨fun hc => (h.rng i hi).1 (hB i hc), (h.rng i hi).2⟩, h.nd⟩

/-- a fresh id (beyond `max_id`) is not in the context -/
theorem AgreeT.fresh_gt {cod Γ f B m Γax} (h : AgreeT cod Γ f B m Γax) {i M : Nat} (hi : m < i) (hM : i ≤ M) :
    FreshBinder M Γax i :=
  ⟨fun hc => by have := (h.rng i hc).2; omega, hM⟩

/-- a binder id of the source statement is not in the context -/
theorem AgreeT.fresh_binder {cod Γ f B m Γax} (h : AgreeT cod Γ f B m Γax) {i M : Nat} (hi : i ∈ B) (hM : i ≤ M) :
    FreshBinder M Γax i :=
  ⟨fun hc => (h.rng i hc).1 hi, hM⟩

/-- entering the scope of the binders `Δ` (ids among `B`), continuing with the binders `B'` -/
theorem AgreeT.enter {cod Γ f B m Γax} (h : AgreeT cod Γ f B m Γax) (inv : InvB Γ f B m) (Δ : Core.Ctx)
    (B' : List Nat) (hs : (Δ.map (·.var.id) ++ B').Sublist B) :
    AgreeT cod (Δ ++ Γ) f B' m (shrinkContext cod Δ ++ Γax) := by
  have hnd := List.nodup_append.mp (hs.nodup inv.nd)
  have hΔB : ∀ b ∈ Δ, b.var.id ∈ B := fun b hb => hs.subset (by simp; exact .inl ⟨b, hb, rfl⟩)
  refine ⟨?_, ?_, ?_⟩
  · intro b hb
    rcases occFs_append hb with hm | ⟨_, ho⟩
    · have : renBinding f b = b := by
        cases b; simp only [renBinding]; rw [inv.fid _ (hΔB _ hm)]
      rw [this]
      exact List.mem_append_left _ (List.mem_map.mpr ⟨b, hm, rfl⟩)
    · exact List.mem_append_right _ (h.mem b ho)
  · intro i hi
    rw [ids_append, ids_shrinkContext] at hi
    rcases List.mem_append.mp hi with hi | hi
    · exact ⟨fun hc => hnd.2.2 i hi i hc rfl, inv.bm i (hs.subset (List.mem_append_left _ hi))⟩
    · exact ⟨fun hc => (h.rng i hi).1 (hs.subset (List.mem_append_right _ hc)), (h.rng i hi).2⟩
  · refine nodupIds_append ?_ h.nd ?_
    · simp only [NodupIds, ids_shrinkContext]; exact hnd.1
    · intro i hi hc
      rw [ids_shrinkContext] at hi
      exact (h.rng i hc).1 (hs.subset (List.mem_append_left _ hi))

theorem AgreeT.cons {cod Γ f B m Γax} (h : AgreeT cod Γ f B m Γax) (inv : InvB Γ f B m) (b0 : Core.Binding)
    (B' : List Nat) (hs : ([b0].map (·.var.id) ++ B').Sublist B) :
    AgreeT cod (b0 :: Γ) f B' m (shrinkBinding cod b0 :: Γax) := by
  simpa [shrinkContext] using h.enter inv [b0] B' hs

/-- occurrences -/
theorem AgreeT.occ {cod Γ f B m Γax} (h : AgreeT cod Γ f B m Γax) {v : Core.Ident} {pc : Core.PC} {ty : Core.Ty}
    (ho : occFs Γ ⟨v, pc, ty⟩ = true) : shrinkBinding cod ⟨f v, pc, ty⟩ ∈ Γax := h.mem _ ho

theorem AgreeT.args {cod Γ f B m Γax} (h : AgreeT cod Γ f B m Γax) {args : Core.Ctx}
    (ho : ∀ b ∈ args, occFs Γ b = true) : ArgsMem Γax (shrinkContext cod (renCtx f args)) := by
  intro a ha
  simp only [shrinkContext, renCtx, List.map_map, List.mem_map, Function.comp] at ha
  obtain ⟨b, hb, rfl⟩ := ha
  exact h.mem b (ho b hb)

/-- two images with the same id are the same binding -/
theorem AgreeT.unique {cod Γ f B m Γax} (h : AgreeT cod Γ f B m Γax) {a b : AxCut.Binding} (ha : a ∈ Γax)
    (hb : b ∈ Γax) (e : a.var.id = b.var.id) : a = b := by
  have h1 := lookupB_of_mem h.nd ha
  have h2 := lookupB_of_mem h.nd hb
  rw [e, h2] at h1
  exact (Option.some.inj h1).symm

/-! ## lifted definitions -/

/-- every definition pushed between `st` and `st'` is well-formed -/
def LiftedOK (q : AxCut.Prog) (st st' : St) : Prop :=
  ∀ d ∈ st'.lifted, d ∈ st.lifted ∨ WfDef q.types q.sigs q.maxId d

theorem LiftedOK.refl (q : AxCut.Prog) (st : St) : LiftedOK q st st := fun _ hd => .inl hd

theorem LiftedOK.trans {q : AxCut.Prog} {a b c : St} (h1 : LiftedOK q a b) (h2 : LiftedOK q b c) : LiftedOK q a c := by
  intro d hd
  rcases h2 d hd with h | h
  · exact h1 d h
  · exact .inr h

theorem LiftedOK.of_eq {q : AxCut.Prog} {a b : St} (h : b.lifted = a.lifted) : LiftedOK q a b :=
  fun _ hd => .inl (h ▸ hd)

theorem LiftedOK.of_frame {q : AxCut.Prog} {a b : St} (h : Frame a b) : LiftedOK q a b := LiftedOK.of_eq h.2.1

/-! ## the invariant of the translation -/

/-- abbreviation: the judgment for the target program `q` -/
abbrev Tq (q : AxCut.Prog) : Stmt → AxCut.Ctx → Prop := TW q.types q.sigs q.maxId

abbrev TqC (q : AxCut.Prog) : Clauses → AxCut.Ctx → Prop := TWC q.types q.sigs q.maxId

/-- what a successful call of `shrink` on `renStmt f s` guarantees (typing part) -/
def PostT (cod : List Core.TypeDecl) (q : AxCut.Prog) (Γ : Core.Ctx) (f : Core.Ident → Core.Ident) (B : List Nat)
    (st : St) (t : AxCut.Stmt) (st' : St) : Prop :=
  ∀ Γax, AgreeT cod Γ f B st.maxId Γax → Tq q t Γax ∧ LiftedOK q st st'

def RecT (E : TEnv) (q : AxCut.Prog) (rec : Rec) : Prop :=
  ∀ Γ f s st t st', rec (renStmt f s) st = .ok (t, st') → Good q st' → st'.maxId ≤ q.maxId → wtStmt E s = true →
    scStmt Γ s = true → InvB Γ f s.binderIds st.maxId → PostT E.codata q Γ f s.binderIds st t st'

end Scc.Core2AxCut.Typed
