/-
  Scc.Core2AxCut.SemTrCut — proof file for the semantic part of C04: the case analysis of `shrinkCut`
  (the 16-way match of `FsCut::shrink`) on well-typed cuts, dispatching to the arms proved in
  `SemTr.lean`; `shrinkStmt` satisfies the translation invariant for every fuel.
-/
import Scc.Core2AxCut.SemTr
import Scc.Core2AxCut.SemLift

namespace Scc.Core2AxCut.Sem

open Scc Scc.Core2AxCut
open Scc.AxCut.Named (Value lookup lookupAll bindParams findDef State step)

local notation "sid" => shrinkIdentifier

section step
variable {E : TEnv} {q : AxCut.Prog} {env : Env} {rec : Rec}
  (hE : EnvMatches env E) (hrec : RecTr E q rec) (hmono : RecRel Mono rec) (hlift : RecTr E q (lift env rec))
include hE hrec hmono hlift

theorem shrinkCut_tr (Γ f ty p c st t st') (h : shrinkCut env rec ty (renTerm f p) (renTerm f c) st = .ok (t, st'))
    (hq : Good q st') (hwt : wtStmt E (.cut ty p c) = true) (hsc : scStmt Γ (.cut ty p c) = true)
    (inv : InvB Γ f (Core.FsStmt.cut ty p c).binderIds st.maxId) :
    Post E q Γ f (.cut ty p c) st t st' := by
  simp only [wtStmt, Bool.and_eq_true] at hwt
  obtain ⟨⟨hty, hp⟩, hc⟩ := hwt
  simp only [scStmt, Bool.and_eq_true] at hsc
  have hclit : ∀ k, c ≠ .lit k := by
    intro k hk; subst hk; simp [wtTerm] at hc
  have hcop : ∀ a o b, c ≠ .op a o b := by
    intro a o b hk; subst hk; simp [wtTerm] at hc
  cases p with
  | var pc x t1 =>
    obtain ⟨rfl, rfl⟩ := wt_var hp
    cases c with
    | lit k => exact absurd rfl (hclit k)
    | op a o b => exact absurd rfl (hcop a o b)
    | var pc2 α t2 =>
      obtain ⟨rfl, rfl⟩ := wt_var hc
      simp only [scTerm] at hsc
      simp only [renTerm, shrinkCut] at h
      cases ty with
      | i64 =>
        simp only [shrinkUnknownCuts, Except.ok.injEq, Prod.mk.injEq] at h
        obtain ⟨rfl, rfl⟩ := h
        exact tr_unkInt hsc.1 hsc.2
      | decl name =>
        obtain ⟨d, hd⟩ := tyOk_decl hty
        simp only [shrinkUnknownCuts, lookup_of_declOf hE hd, Except.ok.injEq, Prod.mk.injEq] at h
        obtain ⟨rfl, rfl⟩ := h
        rw [hE.2]
        by_cases hcod : isCodata E.codata (.decl name) = true
        · simp only [hcod, if_true]
          exact tr_unkCodata hcod hd hsc.1 hsc.2 inv
        · have hcod' : isCodata E.codata (.decl name) = false := by simpa using hcod
          simp only [hcod', Bool.false_eq_true, if_false]
          exact tr_unkData hcod' hd hsc.1 hsc.2 inv
    | mu pc2 y t2 s0 =>
      obtain ⟨rfl, rfl, hw0⟩ := wt_mu hc
      simp only [scTerm, flipPC] at hsc
      simp only [renTerm, shrinkCut, shrinkRenaming] at h
      exact tr_renR hE hrec hmono h hq hw0 hsc.1 hsc.2 inv
    | xtor pc2 K args t2 =>
      obtain ⟨rfl, rfl, d, sig, hd, hcod, hsig, hm⟩ := wt_xtor hc
      simp only [scTerm, List.all_eq_true] at hsc
      simp only [renTerm, shrinkCut, Except.ok.injEq, Prod.mk.injEq] at h
      obtain ⟨rfl, rfl⟩ := h
      exact tr_invokeCodata (by rw [hcod]; rfl) hd hsig hm hsc.2 hsc.1
    | xcase pc2 t2 cl =>
      obtain ⟨rfl, rfl, d, hd, hcod, hwcl⟩ := wt_xcase hc
      simp only [scTerm] at hsc
      simp only [renTerm, shrinkCut] at h
      split at h
      · cases h
      · rename_i cls st1 hcl
        simp only [Except.ok.injEq, Prod.mk.injEq] at h
        obtain ⟨rfl, rfl⟩ := h
        exact tr_switchData hE hrec hmono hcl hq (by rw [hcod]; rfl) hd hsc.1 hwcl hsc.2 inv
  | lit n =>
    have hT := wtTerm_lit_ty hp
    subst hT
    cases c with
    | lit k => exact absurd rfl (hclit k)
    | op a o b => exact absurd rfl (hcop a o b)
    | var pc2 α t2 =>
      obtain ⟨rfl, rfl⟩ := wt_var hc
      simp only [scTerm] at hsc
      simp only [renTerm, shrinkCut, freshIdentifier, Except.ok.injEq, Prod.mk.injEq] at h
      obtain ⟨rfl, rfl⟩ := h
      exact tr_litVar hsc.2 inv
    | mu pc2 x t2 s0 =>
      obtain ⟨rfl, rfl, hw0⟩ := wt_mu hc
      simp only [scTerm, flipPC] at hsc
      simp only [renTerm, shrinkCut] at h
      split at h
      · cases h
      · rename_i t0 st1 h1
        simp only [Except.ok.injEq, Prod.mk.injEq] at h
        obtain ⟨rfl, rfl⟩ := h
        exact tr_litMu hE hrec hmono h1 hq hw0 hsc.2 inv
    | xtor _ _ _ _ =>
      obtain ⟨_, _, d, _, hd, _⟩ := wt_xtor hc
      simp [declOf] at hd
    | xcase _ _ _ =>
      obtain ⟨_, _, d, hd, _⟩ := wt_xcase hc
      simp [declOf] at hd
  | op a o b =>
    have hT := wtTerm_op_ty hp
    subst hT
    simp only [scTerm, Bool.and_eq_true] at hsc
    cases c with
    | lit k => exact absurd rfl (hclit k)
    | op a o b => exact absurd rfl (hcop a o b)
    | var pc2 α t2 =>
      obtain ⟨rfl, rfl⟩ := wt_var hc
      simp only [scTerm] at hsc
      simp only [renTerm, shrinkCut, freshIdentifier, Except.ok.injEq, Prod.mk.injEq] at h
      obtain ⟨rfl, rfl⟩ := h
      exact tr_opVar hsc.1.1 hsc.1.2 hsc.2 inv
    | mu pc2 x t2 s0 =>
      obtain ⟨rfl, rfl, hw0⟩ := wt_mu hc
      simp only [scTerm, flipPC] at hsc
      simp only [renTerm, shrinkCut] at h
      split at h
      · cases h
      · rename_i t0 st1 h1
        simp only [Except.ok.injEq, Prod.mk.injEq] at h
        obtain ⟨rfl, rfl⟩ := h
        exact tr_opMu hE hrec hmono h1 hq hsc.1.1 hsc.1.2 hw0 hsc.2 inv
    | xtor _ _ _ _ =>
      obtain ⟨_, _, d, _, hd, _⟩ := wt_xtor hc
      simp [declOf] at hd
    | xcase _ _ _ =>
      obtain ⟨_, _, d, hd, _⟩ := wt_xcase hc
      simp [declOf] at hd
  | mu pc a t1 s1 =>
    obtain ⟨rfl, rfl, hw1⟩ := wt_mu hp
    simp only [scTerm, flipPC] at hsc
    cases c with
    | lit k => exact absurd rfl (hclit k)
    | op a o b => exact absurd rfl (hcop a o b)
    | var pc2 x t2 =>
      obtain ⟨rfl, rfl⟩ := wt_var hc
      simp only [scTerm] at hsc
      simp only [renTerm, shrinkCut, shrinkRenaming] at h
      exact tr_renL hE hrec hmono h hq hw1 hsc.2 hsc.1 inv
    | mu pc2 x t2 s2 =>
      obtain ⟨rfl, rfl, hw2⟩ := wt_mu hc
      simp only [scTerm, flipPC] at hsc
      simp only [renTerm, shrinkCut] at h
      cases ty with
      | i64 =>
        simp only [shrinkCriticalPairs] at h
        split at h
        · cases h
        · rename_i t2' st1 h1
          split at h
          · cases h
          · rename_i t1' st2 h2
            simp only [Except.ok.injEq, Prod.mk.injEq] at h
            obtain ⟨rfl, rfl⟩ := h
            exact tr_critInt hE hrec hmono h1 h2 hq hw1 hsc.1 hw2 hsc.2 inv
      | decl name =>
        obtain ⟨d, hd⟩ := tyOk_decl hty
        simp only [shrinkCriticalPairs, lookup_of_declOf hE hd] at h
        rw [hE.2] at h
        simp only [Core.FsStmt.binderIds, Core.FsTerm.binderIds] at inv
        by_cases hcod : isCodata E.codata (.decl name) = true
        · simp only [hcod, if_true] at h
          obtain ⟨cls, tK, rfl, r1, r2⟩ := tr_criticalDecl hE hrec hmono (bK := ⟨x, .prd, .decl name⟩)
            (bE := ⟨a, .cns, .decl name⟩) h hq hlift hw2 hsc.2 hw1 hsc.1 inv
            (by simp only [List.map_cons, List.map_nil, List.singleton_append]
                exact List.sublist_append_right _ _)
            (by simp)
          refine ⟨fun hm hag => .critCodata hcod hd (r1 hm hag).1 (r1 hm hag).2.1 (r1 hm hag).2.2.1
            (r1 hm hag).2.2.2, ?_⟩
          simpa [Core.FsStmt.binderIds, Core.FsTerm.binderIds] using r2
        · have hcod' : isCodata E.codata (.decl name) = false := by simpa using hcod
          simp only [hcod', Bool.false_eq_true, if_false] at h
          obtain ⟨cls, tK, rfl, r1, r2⟩ := tr_criticalDecl hE hrec hmono (bK := ⟨a, .cns, .decl name⟩)
            (bE := ⟨x, .prd, .decl name⟩) h hq hlift hw1 hsc.1 hw2 hsc.2 inv
            (by simp)
            (by simp only [List.map_cons, List.map_nil, List.singleton_append]
                exact List.sublist_append_right _ _)
          refine ⟨fun hm hag => .critData hcod' hd (r1 hm hag).1 (r1 hm hag).2.1 (r1 hm hag).2.2.1
            (r1 hm hag).2.2.2, ?_⟩
          simpa [Core.FsStmt.binderIds, Core.FsTerm.binderIds] using r2
    | xtor pc2 K args t2 =>
      obtain ⟨rfl, rfl, d, sig, hd, hcod, hsig, hm⟩ := wt_xtor hc
      simp only [scTerm, List.all_eq_true] at hsc
      simp only [renTerm, shrinkCut] at h
      split at h
      · cases h
      · rename_i t0 st1 h1
        simp only [Except.ok.injEq, Prod.mk.injEq] at h
        obtain ⟨rfl, rfl⟩ := h
        exact tr_letCodata hE hrec hmono h1 hq (by rw [hcod]; rfl) hd hsig hm hsc.2 hw1 hsc.1 inv
    | xcase pc2 t2 cl =>
      obtain ⟨rfl, rfl, d, hd, hcod, hwcl⟩ := wt_xcase hc
      simp only [scTerm] at hsc
      simp only [renTerm, shrinkCut] at h
      split at h
      · cases h
      · rename_i cls st1 hcl
        split at h
        · cases h
        · rename_i t0 st2 h2
          simp only [Except.ok.injEq, Prod.mk.injEq] at h
          obtain ⟨rfl, rfl⟩ := h
          exact tr_createData hE hrec hmono hcl h2 hq (by rw [hcod]; rfl) hd hwcl hsc.2 hw1 hsc.1 inv
  | xtor pc K args t1 =>
    obtain ⟨rfl, rfl, d, sig, hd, hcod, hsig, hm⟩ := wt_xtor hp
    have hcod' : isCodata E.codata ty = false := by rw [hcod]; rfl
    simp only [scTerm, List.all_eq_true] at hsc
    cases c with
    | lit k => exact absurd rfl (hclit k)
    | op a o b => exact absurd rfl (hcop a o b)
    | var pc2 α t2 =>
      obtain ⟨rfl, rfl⟩ := wt_var hc
      simp only [scTerm] at hsc
      simp only [renTerm, shrinkCut, Except.ok.injEq, Prod.mk.injEq] at h
      obtain ⟨rfl, rfl⟩ := h
      exact tr_invokeData hcod' hd hsig hm hsc.1 hsc.2
    | mu pc2 x t2 s0 =>
      obtain ⟨rfl, rfl, hw0⟩ := wt_mu hc
      simp only [scTerm, flipPC] at hsc
      simp only [renTerm, shrinkCut] at h
      split at h
      · cases h
      · rename_i t0 st1 h1
        simp only [Except.ok.injEq, Prod.mk.injEq] at h
        obtain ⟨rfl, rfl⟩ := h
        exact tr_letData hE hrec hmono h1 hq hcod' hd hsig hm hsc.1 hw0 hsc.2 inv
    | xtor _ _ _ _ =>
      obtain ⟨_, _, _, _, _, h2, _⟩ := wt_xtor hc
      rw [hcod'] at h2; simp at h2
    | xcase pc2 t2 cl =>
      obtain ⟨rfl, rfl, d2, hd2, _, hwcl⟩ := wt_xcase hc
      rw [hd] at hd2; cases hd2
      simp only [scTerm] at hsc
      simp only [renTerm, shrinkCut, shrinkKnownCuts, findClause_ren] at h
      cases hfc : cl.find K with
      | none => simp [hfc] at h
      | some cb =>
        obtain ⟨ctx, body⟩ := cb
        simp only [hfc, Option.map_some] at h
        obtain ⟨hm2, hwb⟩ := find_wt d.xtors cl sig hwcl hsig hfc
        exact tr_knownData hE hrec hmono h hq hcod' hd hsig hfc hm hsc.1 hm2 hwb (find_sc cl hsc.2 hfc) inv
  | xcase pc t1 cl =>
    obtain ⟨rfl, rfl, d, hd, hcod, hwcl⟩ := wt_xcase hp
    have hcod' : isCodata E.codata ty = true := by rw [hcod]; rfl
    simp only [scTerm] at hsc
    cases c with
    | lit k => exact absurd rfl (hclit k)
    | op a o b => exact absurd rfl (hcop a o b)
    | var pc2 α t2 =>
      obtain ⟨rfl, rfl⟩ := wt_var hc
      simp only [scTerm] at hsc
      simp only [renTerm, shrinkCut] at h
      split at h
      · cases h
      · rename_i cls st1 hcl
        simp only [Except.ok.injEq, Prod.mk.injEq] at h
        obtain ⟨rfl, rfl⟩ := h
        exact tr_switchCodata hE hrec hmono hcl hq hcod' hd hsc.2 hwcl hsc.1 inv
    | mu pc2 x t2 s0 =>
      obtain ⟨rfl, rfl, hw0⟩ := wt_mu hc
      simp only [scTerm, flipPC] at hsc
      simp only [renTerm, shrinkCut] at h
      split at h
      · cases h
      · rename_i cls st1 hcl
        split at h
        · cases h
        · rename_i t0 st2 h2
          simp only [Except.ok.injEq, Prod.mk.injEq] at h
          obtain ⟨rfl, rfl⟩ := h
          exact tr_createCodata hE hrec hmono hcl h2 hq hcod' hd hwcl hsc.1 hw0 hsc.2 inv
    | xtor pc2 K args t2 =>
      obtain ⟨rfl, rfl, d2, sig, hd2, _, hsig, hm⟩ := wt_xtor hc
      rw [hd] at hd2; cases hd2
      simp only [scTerm, List.all_eq_true] at hsc
      simp only [renTerm, shrinkCut, shrinkKnownCuts, findClause_ren] at h
      cases hfc : cl.find K with
      | none => simp [hfc] at h
      | some cb =>
        obtain ⟨ctx, body⟩ := cb
        simp only [hfc, Option.map_some] at h
        obtain ⟨hm2, hwb⟩ := find_wt d.xtors cl sig hwcl hsig hfc
        exact tr_knownCodata hE hrec hmono h hq hcod' hd hsig hfc hm hsc.2 hm2 hwb (find_sc cl hsc.1 hfc) inv
    | xcase _ _ _ =>
      obtain ⟨_, _, _, _, h2, _⟩ := wt_xcase hc
      rw [hcod'] at h2; simp at h2

theorem shrinkStmtStep_tr : RecTr E q (shrinkStmtStep env rec) := by
  intro Γ f s st t st' h hq hwt hsc inv
  cases s with
  | cut ty p c =>
    simp only [renStmt, shrinkStmtStep] at h
    exact shrinkCut_tr hE hrec hmono hlift Γ f ty p c st t st' h hq hwt hsc inv
  | ifc sort a b th el =>
    simp only [renStmt, shrinkStmtStep] at h
    simp only [wtStmt, Bool.and_eq_true] at hwt
    simp only [Core.FsStmt.binderIds] at inv
    split at h
    · cases h
    · rename_i t1 st1 h1
      split at h
      · cases h
      · rename_i t2 st2 h2
        simp only [Except.ok.injEq, Prod.mk.injEq] at h
        obtain ⟨rfl, rfl⟩ := h
        have m1 : st.maxId ≤ st1.maxId := (hmono _ _ _ _ h1).le
        have m2 : st1.maxId ≤ st2.maxId := (hmono _ _ _ _ h2).le
        have hq1 : Good q st1 := Good.of_mono (hmono _ _ _ _ h2) hq
        cases b with
        | none =>
          simp only [scStmt, Bool.and_eq_true] at hsc
          obtain ⟨⟨⟨ha, _⟩, hs1⟩, hs2⟩ := hsc
          have p1 := hrec Γ f th st t1 st1 h1 hq1 hwt.1 hs1
            (by simpa using inv.enterS [] th.binderIds (by simp))
          have p2 := hrec Γ f el st1 t2 st2 h2 hq hwt.2 hs2
            (by simpa using (inv.mono m1).enterS [] el.binderIds (by simp))
          refine ⟨fun hm hag => ?_, ?_⟩
          · exact .ifz ha (by simp [shrinkIdentifier, hag _ ha]) (p1.1 hm hag) (p2.1 hm hag)
          · intro i hi
            simp only [axBids, List.mem_append] at hi
            simp only [Core.FsStmt.binderIds]
            rcases hi with hi | hi
            · exact bids_lift p1.2 (fun i hi => List.mem_append_left _ hi) (Nat.le_refl _) m2 i hi
            · exact bids_lift p2.2 (fun i hi => List.mem_append_right _ hi) m1 (Nat.le_refl _) i hi
        | some b =>
          simp only [scStmt, Bool.and_eq_true] at hsc
          obtain ⟨⟨⟨ha, hb⟩, hs1⟩, hs2⟩ := hsc
          have p1 := hrec Γ f th st t1 st1 h1 hq1 hwt.1 hs1
            (by simpa using inv.enterS [] th.binderIds (by simp))
          have p2 := hrec Γ f el st1 t2 st2 h2 hq hwt.2 hs2
            (by simpa using (inv.mono m1).enterS [] el.binderIds (by simp))
          refine ⟨fun hm hag => ?_, ?_⟩
          · exact .ifc ha (by simp [shrinkIdentifier, hag _ ha]) hb (by simp [shrinkIdentifier, hag _ hb])
              (p1.1 hm hag) (p2.1 hm hag)
          · intro i hi
            simp only [axBids, List.mem_append] at hi
            simp only [Core.FsStmt.binderIds]
            rcases hi with hi | hi
            · exact bids_lift p1.2 (fun i hi => List.mem_append_left _ hi) (Nat.le_refl _) m2 i hi
            · exact bids_lift p2.2 (fun i hi => List.mem_append_right _ hi) m1 (Nat.le_refl _) i hi
  | print nl a nx =>
    simp only [renStmt, shrinkStmtStep] at h
    simp only [wtStmt] at hwt
    simp only [scStmt, Bool.and_eq_true] at hsc
    simp only [Core.FsStmt.binderIds] at inv
    split at h
    · cases h
    · rename_i t1 st1 h1
      simp only [Except.ok.injEq, Prod.mk.injEq] at h
      obtain ⟨rfl, rfl⟩ := h
      have p1 := hrec Γ f nx st t1 st1 h1 hq hwt hsc.2 inv
      refine ⟨fun hm hag => .print hsc.1 (by simp [shrinkIdentifier, hag _ hsc.1]) (p1.1 hm hag), ?_⟩
      intro i hi
      simp only [axBids] at hi
      simpa [Core.FsStmt.binderIds] using p1.2 i hi
  | call n args =>
    simp only [renStmt, shrinkStmtStep, Except.ok.injEq, Prod.mk.injEq] at h
    obtain ⟨rfl, rfl⟩ := h
    simp only [wtStmt] at hwt
    simp only [scStmt, List.all_eq_true] at hsc
    refine ⟨fun hm hag => ?_, by simp [axBids]⟩
    split at hwt
    · rename_i ps hps
      exact .call hps hwt hsc (by rw [axIds_shrinkContext_ren, hag.map hsc])
    · cases hwt
  | exit a =>
    simp only [renStmt, shrinkStmtStep, Except.ok.injEq, Prod.mk.injEq] at h
    obtain ⟨rfl, rfl⟩ := h
    simp only [scStmt] at hsc
    exact ⟨fun hm hag => .exit hsc (by simp [shrinkIdentifier, hag _ hsc]), by simp [axBids]⟩

end step

/-- every output of `shrinkStmt` is a translation, provided `lift` preserves the invariant -/
theorem shrinkStmt_tr_of_lift {E : TEnv} (q : AxCut.Prog) {env : Env} (hE : EnvMatches env E)
    (hlift : ∀ rec, RecTr E q rec → RecRel Mono rec → RecTr E q (lift env rec)) :
    ∀ fuel, RecTr E q (shrinkStmt env fuel)
  | 0 => by
    intro Γ f s st t st' h
    simp [shrinkStmt] at h
  | fuel + 1 =>
    have ih := shrinkStmt_tr_of_lift q hE hlift fuel
    shrinkStmtStep_tr hE ih (shrinkStmt_mono env fuel) (hlift _ ih (shrinkStmt_mono env fuel))

/-- every output of `shrinkStmt` is a translation -/
theorem shrinkStmt_tr {E : TEnv} (q : AxCut.Prog) {env : Env} (hE : EnvMatches env E) (fuel : Nat) :
    RecTr E q (shrinkStmt env fuel) :=
  shrinkStmt_tr_of_lift q hE (fun _ h1 _ => lift_tr h1) fuel

end Scc.Core2AxCut.Sem
