/-
  Scc.Core2AxCut.TypedArms — proof file for the typing part of C04 / C12 (shrinking preserves typing):
  the arms of `shrinkCut` (one lemma per arm, both orientations share a generic lemma) establish the
  typing postcondition `PostT` of `TypedInv.lean`.  The structure follows `SemTr.lean` arm by arm.
-/
import Scc.Core2AxCut.TypedInv

namespace Scc.Core2AxCut.Typed

open Scc Scc.AxCut Scc.Core2AxCut Scc.Core2AxCut.Sem
open Scc.AxCut.Named (findDef)

local notation "sid" => shrinkIdentifier

/-! ## aliasing: clause parameters / mu variables bound to existing variables -/

theorem sigMatch_ct : ∀ {a s : Core.Ctx}, sigMatch a s = true →
    a.map (fun b => (b.chi, b.ty)) = s.map (fun b => (b.chi, b.ty))
  | [], [], _ => rfl
  | [], _ :: _, h => by simp [sigMatch] at h
  | _ :: _, [], h => by simp [sigMatch] at h
  | a :: as, s :: ss, h => by
    simp only [sigMatch, Bool.and_eq_true, beq_iff_eq] at h
    simp only [List.map_cons, List.cons.injEq, Prod.mk.injEq]
    exact ⟨⟨h.1.1, h.1.2⟩, sigMatch_ct h.2⟩

theorem alias_lookup (g : Core.Ident → Core.Ident) : ∀ (ctx args : Core.Ctx),
    ctx.map (fun b => (b.chi, b.ty)) = args.map (fun b => (b.chi, b.ty)) → (ctx.map (·.var.id)).Nodup →
    ∀ b ∈ ctx, ∃ a ∈ args, a.chi = b.chi ∧ a.ty = b.ty ∧
      substIdent ((ctx.map (·.var.id)).zip (args.map fun a => g a.var)) b.var = g a.var
  | [], _, _, _, b, hb => by simp at hb
  | _ :: _, [], h, _, _, _ => by simp at h
  | b0 :: bs, a0 :: as, h, hnd, b, hb => by
    simp only [List.map_cons, List.cons.injEq, Prod.mk.injEq] at h
    simp only [List.map_cons, List.nodup_cons] at hnd
    rcases List.mem_cons.mp hb with rfl | hb'
    · exact ⟨a0, by simp, h.1.1.symm, h.1.2.symm, by simp [substIdent]⟩
    · obtain ⟨a, ha, h1, h2, h3⟩ := alias_lookup g bs as h.2 hnd.2 b hb'
      refine ⟨a, by simp [ha], h1, h2, ?_⟩
      have hne : (b0.var.id == b.var.id) = false := by
        simp only [beq_eq_false_iff_ne, ne_eq]
        intro e
        exact hnd.1 (e ▸ List.mem_map.mpr ⟨b, hb', rfl⟩)
      simp only [List.map_cons, List.zip_cons_cons, substIdent, List.find?_cons, hne]
      simpa [substIdent] using h3

/-- binding the parameters `ctx` (binders of the statement) to the existing variables `args` -/
theorem agree_alias {cod : List Core.TypeDecl} {Γ : Core.Ctx} {f : Core.Ident → Core.Ident} {B B' : List Nat}
    {m : Nat} {Γax : AxCut.Ctx} (hag : AgreeT cod Γ f B m Γax) (inv : InvB Γ f B m) (ctx args : Core.Ctx)
    (hB : ∀ b ∈ ctx, b.var.id ∈ B) (hnd : (ctx.map (·.var.id)).Nodup) (hocc : ∀ b ∈ args, occFs Γ b = true)
    (hct : ctx.map (fun b => (b.chi, b.ty)) = args.map (fun b => (b.chi, b.ty))) (hB' : ∀ i ∈ B', i ∈ B) :
    AgreeT cod (ctx ++ Γ)
      (substIdent ((ctx.map fun b => b.var.id).zip ((renCtx f args).map (·.var))) ∘ f) B' m Γax := by
  have hvars : (renCtx f args).map (·.var) = args.map (fun a => f a.var) := by
    simp [renCtx, renBinding, List.map_map, Function.comp_def]
  refine ⟨?_, (hag.sub hB').rng, hag.nd⟩
  intro b hb
  rcases occFs_append hb with hm | ⟨hnm, ho⟩
  · obtain ⟨a, ha, h1, h2, h3⟩ := alias_lookup f ctx args hct hnd b hm
    have : renBinding (substIdent ((ctx.map fun b => b.var.id).zip ((renCtx f args).map (·.var))) ∘ f) b =
        renBinding f a := by
      simp only [renBinding, Function.comp, inv.fid _ (hB b hm), hvars, h3]
      cases a; cases b; simp_all
    rw [this]
    exact hag.mem a (hocc a ha)
  · have : renBinding (substIdent ((ctx.map fun b => b.var.id).zip ((renCtx f args).map (·.var))) ∘ f) b =
        renBinding f b := by
      simp only [renBinding, Function.comp]
      rw [substIdent_of_not_dom]
      intro p hp e
      have h1 := (List.of_mem_zip hp).1
      obtain ⟨c, hc, hce⟩ := List.mem_map.mp h1
      exact (inv.rng b ho).1 (by rw [← e, ← hce]; exact hB c hc)
    rw [this]
    exact hag.mem b ho

/-! ## fresh contexts keep kinds and types -/

theorem freshenCtx_chiTys : ∀ (c : AxCut.Ctx) (st : St), (freshenCtx c st).1.chiTys = c.chiTys
  | [], _ => rfl
  | b :: bs, st => by
    have ih := freshenCtx_chiTys bs (freshIdentifier st b.var.name).2
    simp only [freshenCtx, Ctx.chiTys, List.map_cons] at ih ⊢
    rw [ih]

theorem freshenCtx_nodupIds (c : AxCut.Ctx) (st : St) : NodupIds (freshenCtx c st).1 :=
  (freshenCtx_ids (c := c) (st := st)).1

theorem freshenCtx_ids_range {c : AxCut.Ctx} {st : St} :
    ∀ i ∈ (freshenCtx c st).1.ids, st.maxId < i ∧ i ≤ (freshenCtx c st).2.maxId :=
  (freshenCtx_ids (c := c) (st := st)).2

section step
variable {E : TEnv} {q : AxCut.Prog} {env : Env} {rec : Rec}
  (hE : EnvMatches env E) (hT : EnvOK E q.types) (hS : SigOK E q.sigs)
  (hrec : RecTr E q rec) (hrecT : RecT E q rec) (hmono : RecRel Mono rec)

/-! ## a binder whose scope is translated by the recursive call -/

include hrecT hmono in
theorem ty_under_binder {Γ f st t0 st'} {b0 : Core.Binding} {s0 : Core.FsStmt} {B : List Nat}
    (h : rec (renStmt f s0) st = .ok (t0, st')) (hq : Good q st') (hM : st'.maxId ≤ q.maxId)
    (hwt : wtStmt E s0 = true) (hsc : scStmt (b0 :: Γ) s0 = true) (inv : InvB Γ f B st.maxId)
    (hB : ([b0].map (·.var.id) ++ s0.binderIds).Sublist B) :
    ∀ Γax, AgreeT E.codata Γ f B st.maxId Γax →
      FreshBinder q.maxId Γax b0.var.id ∧ Tq q t0 (shrinkBinding E.codata b0 :: Γax) ∧ LiftedOK q st st' := by
  have inv1 : InvB (b0 :: Γ) f s0.binderIds st.maxId := inv.enterS [b0] s0.binderIds hB
  have p := hrecT _ _ s0 st t0 st' h hq hM hwt hsc inv1
  intro Γax hag
  have hmem : b0.var.id ∈ B := hB.subset (by simp)
  have m1 : st.maxId ≤ st'.maxId := (hmono _ _ _ _ h).le
  obtain ⟨p1, p2⟩ := p _ (hag.cons inv b0 s0.binderIds hB)
  exact ⟨hag.fresh_binder hmem (by have := inv.bm _ hmem; omega), p1, p2⟩

/-! ## renaming, known cuts -/

include hrecT in
theorem ty_known {Γ f} {K : Core.Ident} {args} {cl : Core.FsClauses} {ctx body st t st' B} {sig : Core.XtorSig}
    (h : rec (substStmt ((ctx.map fun b => b.var.id).zip ((renCtx f args).map (·.var))) (renStmt f body)) st =
      .ok (t, st')) (hq : Good q st') (hM : st'.maxId ≤ q.maxId)
    (hf : cl.find K = some (ctx, body)) (hm : sigMatch args sig.args = true)
    (hocc : ∀ b ∈ args, occFs Γ b = true) (hm2 : sigMatch ctx sig.args = true)
    (hwt : wtStmt E body = true) (hsc : scStmt (ctx ++ Γ) body = true)
    (inv : InvB Γ f B st.maxId) (hB : cl.binderIds.Sublist B) :
    PostT E.codata q Γ f B st t st' := by
  rw [substStmt_ren] at h
  have hBc : (Core.ctxIds ctx ++ body.binderIds).Sublist B := (find_sublist cl hf).trans hB
  have hnd := List.nodup_append.mp (hBc.nodup inv.nd)
  have inv1 : InvB (ctx ++ Γ) f body.binderIds st.maxId := inv.enterS ctx body.binderIds hBc
  have inv2 := inv1.subst ((ctx.map fun b => b.var.id).zip ((renCtx f args).map (·.var)))
    (by intro p hp hc
        have := (List.of_mem_zip hp).1
        exact hnd.2.2 _ this _ hc rfl)
    (by intro p hp
        have := (List.of_mem_zip hp).2
        simp only [renCtx, renBinding, List.map_map, List.mem_map, Function.comp] at this
        obtain ⟨b, hb, hbe⟩ := this
        rw [← hbe]
        have := inv.rng b (hocc b hb)
        exact ⟨fun hc => this.1 (hBc.subset (by simp [hc])), this.2⟩)
  have p1 := hrecT _ _ body st t st' h hq hM hwt hsc inv2
  intro Γax hag
  refine p1 Γax (agree_alias hag inv ctx args ?_ hnd.1 hocc ?_ (fun i hi => hBc.subset (by simp [hi])))
  · intro b hb
    exact hBc.subset (by simp [Core.ctxIds]; exact .inl ⟨b, hb, rfl⟩)
  · rw [sigMatch_ct hm2, sigMatch_ct hm]

include hrecT in
/-- `shrink_renaming`, both orientations: the mu variable `a` is replaced by the variable `x` -/
theorem ty_ren {Γ f T pc a s0 x st t st' B} (h : rec (substStmt [(a.id, f x)] (renStmt f s0)) st = .ok (t, st'))
    (hq : Good q st') (hM : st'.maxId ≤ q.maxId)
    (hwt : wtStmt E s0 = true) (hx : occFs Γ ⟨x, pc, T⟩ = true)
    (hsc : scStmt (⟨a, pc, T⟩ :: Γ) s0 = true) (inv : InvB Γ f B st.maxId)
    (hB : (a.id :: s0.binderIds).Sublist B) :
    PostT E.codata q Γ f B st t st' := by
  rw [substStmt_ren] at h
  have hnd := List.nodup_cons.mp (hB.nodup inv.nd)
  have ha : a.id ∉ s0.binderIds := hnd.1
  have inv1 : InvB (⟨a, pc, T⟩ :: Γ) f s0.binderIds st.maxId := inv.enterS [⟨a, pc, T⟩] s0.binderIds (by simpa using hB)
  have inv2 := inv1.subst [(a.id, f x)] (by simpa using ha)
    (by simp only [List.mem_singleton, forall_eq]
        exact ⟨fun hc => (inv.rng _ hx).1 (hB.subset (by simp [hc])), (inv.rng _ hx).2⟩)
  have p1 := hrecT _ _ s0 st t st' h hq hM hwt hsc inv2
  intro Γax hag
  have := agree_alias hag inv [⟨a, pc, T⟩] [⟨x, pc, T⟩] (by simp; exact hB.subset (by simp)) (by simp)
    (by simpa using hx) rfl (B' := s0.binderIds) (fun i hi => hB.subset (by simp [hi]))
  exact p1 Γax (by simpa [renCtx, renBinding] using this)

/-! ## literals and operators -/

include hrecT hmono in
theorem ty_litMu {Γ f n x s0 st t0 st'} (h : rec (renStmt f s0) st = .ok (t0, st')) (hq : Good q st')
    (hM : st'.maxId ≤ q.maxId)
    (hwt : wtStmt E s0 = true) (hsc : scStmt (⟨x, .prd, .i64⟩ :: Γ) s0 = true)
    (inv : InvB Γ f (Core.FsStmt.cut .i64 (.lit n) (.mu .cns x .i64 s0)).binderIds st.maxId) :
    PostT E.codata q Γ f (Core.FsStmt.cut .i64 (.lit n) (.mu .cns x .i64 s0)).binderIds st
      (.lit (sid x) n t0 none) st' := by
  intro Γax hag
  obtain ⟨g1, g2, g3⟩ := ty_under_binder hrecT hmono (b0 := ⟨x, .prd, .i64⟩) h hq hM hwt hsc inv
    (by simp [Core.FsStmt.binderIds, Core.FsTerm.binderIds]) Γax hag
  rw [sb_prd_int] at g2
  exact ⟨by simp only [Tq, TW]; exact ⟨g1, g2⟩, g3⟩

include hT in
theorem ty_invokeRet {Γ f α B m Γax} {w : Core.Ident} (hag : AgreeT E.codata Γ f B m Γax)
    (hα : occFs Γ ⟨α, .cns, .i64⟩ = true) (Γ' : AxCut.Ctx) (hsub : ∀ b ∈ Γax, b ∈ Γ')
    (hw : (⟨sid w, .ext, .i64⟩ : AxCut.Binding) ∈ Γ') : Tq q (invokeRet (f α) w) Γ' := by
  simp only [Tq, invokeRet, TW]
  refine ⟨hsub _ ?_, ⟨_, lookupXtor_ret hT, rfl⟩, ?_⟩
  · have := hag.occ hα
    rwa [sb_cns_int] at this
  · intro a ha
    simp only [List.mem_singleton] at ha
    subst ha
    exact hw

include hT in
theorem ty_litVar {Γ f n α st B} (hα : occFs Γ ⟨α, .cns, .i64⟩ = true) (hM : st.maxId + 1 ≤ q.maxId) :
    PostT E.codata q Γ f B st
      (.lit (sid ⟨"x", st.maxId + 1⟩) n (invokeRet (f α) ⟨"x", st.maxId + 1⟩) none)
      { st with maxId := st.maxId + 1 } := by
  intro Γax hag
  refine ⟨?_, LiftedOK.of_eq rfl⟩
  simp only [Tq, TW]
  exact ⟨hag.fresh_gt (Nat.lt_succ_self _) hM,
    ty_invokeRet hT hag hα _ (fun b hb => List.mem_cons_of_mem _ hb) List.mem_cons_self⟩

include hrecT hmono in
theorem ty_opMu {Γ f a o b x s0 st t0 st'} (h : rec (renStmt f s0) st = .ok (t0, st')) (hq : Good q st')
    (hM : st'.maxId ≤ q.maxId)
    (ha : occFs Γ ⟨a, .prd, .i64⟩ = true) (hb : occFs Γ ⟨b, .prd, .i64⟩ = true)
    (hwt : wtStmt E s0 = true) (hsc : scStmt (⟨x, .prd, .i64⟩ :: Γ) s0 = true)
    (inv : InvB Γ f (Core.FsStmt.cut .i64 (.op a o b) (.mu .cns x .i64 s0)).binderIds st.maxId) :
    PostT E.codata q Γ f (Core.FsStmt.cut .i64 (.op a o b) (.mu .cns x .i64 s0)).binderIds st
      (.op (sid x) (sid (f a)) (shrinkBinop o) (sid (f b)) t0 none) st' := by
  intro Γax hag
  obtain ⟨g1, g2, g3⟩ := ty_under_binder hrecT hmono (b0 := ⟨x, .prd, .i64⟩) h hq hM hwt hsc inv
    (by simp [Core.FsStmt.binderIds, Core.FsTerm.binderIds]) Γax hag
  rw [sb_prd_int] at g2
  have h1 := hag.occ ha
  have h2 := hag.occ hb
  rw [sb_prd_int] at h1 h2
  exact ⟨by simp only [Tq, TW]; exact ⟨h1, h2, g1, g2⟩, g3⟩

include hT in
theorem ty_opVar {Γ f a o b α st B} (ha : occFs Γ ⟨a, .prd, .i64⟩ = true) (hb : occFs Γ ⟨b, .prd, .i64⟩ = true)
    (hα : occFs Γ ⟨α, .cns, .i64⟩ = true) (hM : st.maxId + 1 ≤ q.maxId) :
    PostT E.codata q Γ f B st
      (.op (sid ⟨"x", st.maxId + 1⟩) (sid (f a)) (shrinkBinop o) (sid (f b))
        (invokeRet (f α) ⟨"x", st.maxId + 1⟩) none)
      { st with maxId := st.maxId + 1 } := by
  intro Γax hag
  refine ⟨?_, LiftedOK.of_eq rfl⟩
  have h1 := hag.occ ha
  have h2 := hag.occ hb
  rw [sb_prd_int] at h1 h2
  simp only [Tq, TW]
  exact ⟨h1, h2, hag.fresh_gt (Nat.lt_succ_self _) hM,
    ty_invokeRet hT hag hα _ (fun b hb => List.mem_cons_of_mem _ hb) List.mem_cons_self⟩

/-! ## let, invoke -/

include hT hrecT hmono in
/-- `Let`, both orientations: `b0` is the variable bound by the (tilde-)mu -/
theorem ty_let {Γ f T K args s0 d sig st t0 st' B} {b0 : Core.Binding}
    (h : rec (renStmt f s0) st = .ok (t0, st')) (hq : Good q st') (hM : st'.maxId ≤ q.maxId)
    (hd : declOf E T = some d)
    (hsig : d.xtors.find? (fun x => x.name == K) = some sig) (hm : sigMatch args sig.args = true)
    (hocc : ∀ b ∈ args, occFs Γ b = true)
    (hwt : wtStmt E s0 = true) (hsc : scStmt (b0 :: Γ) s0 = true)
    (hsb : shrinkBinding E.codata b0 = ⟨sid b0.var, .prd, shrinkTy T⟩)
    (inv : InvB Γ f B st.maxId) (hB : ([b0].map (·.var.id) ++ s0.binderIds).Sublist B) :
    PostT E.codata q Γ f B st
      (.letS (sid b0.var) (shrinkTy T) (sid K) (shrinkContext E.codata (renCtx f args)) t0 none) st' := by
  intro Γax hag
  obtain ⟨g1, g2, g3⟩ := ty_under_binder hrecT hmono (b0 := b0) h hq hM hwt hsc inv hB Γax hag
  rw [hsb] at g2
  refine ⟨?_, g3⟩
  simp only [Tq, TW]
  exact ⟨⟨_, lookupXtor_of_decl hT hd hsig, by
    rw [chiTys_shrinkContext_ren, chiTys_shrinkContext_of_sigMatch _ hm]⟩, hag.args hocc, g1, g2⟩

include hT in
/-- `Invoke`, both orientations: `v` is the variable the xtor is sent to -/
theorem ty_invoke {Γ f T K args d sig st B} {v : Core.Ident} {pc : Core.PC}
    (hd : declOf E T = some d)
    (hsig : d.xtors.find? (fun x => x.name == K) = some sig) (hm : sigMatch args sig.args = true)
    (hocc : ∀ b ∈ args, occFs Γ b = true) (hv : occFs Γ ⟨v, pc, T⟩ = true)
    (hsb : ∀ w, shrinkBinding E.codata ⟨w, pc, T⟩ = ⟨sid w, .cns, shrinkTy T⟩) :
    PostT E.codata q Γ f B st
      (.invoke (sid (f v)) (sid K) (shrinkTy T) (shrinkContext E.codata (renCtx f args))) st := by
  intro Γax hag
  refine ⟨?_, LiftedOK.refl _ _⟩
  have h1 := hag.occ hv
  rw [hsb] at h1
  simp only [Tq, TW]
  exact ⟨h1, ⟨_, lookupXtor_of_decl hT hd hsig, by
    rw [chiTys_shrinkContext_ren, chiTys_shrinkContext_of_sigMatch _ hm]⟩, hag.args hocc⟩

/-! ## unknown cuts -/

include hT in
theorem ty_unkInt {Γ f x α st B} (hx : occFs Γ ⟨x, .prd, .i64⟩ = true) (hα : occFs Γ ⟨α, .cns, .i64⟩ = true) :
    PostT E.codata q Γ f B st
      (.invoke (sid (f α)) (sid retName) contTy [⟨sid (f x), .ext, .i64⟩]) st := by
  intro Γax hag
  refine ⟨?_, LiftedOK.refl _ _⟩
  have h1 := hag.occ hx
  rw [sb_prd_int] at h1
  exact ty_invokeRet hT hag hα Γax (fun _ hb => hb) h1

include hE in
/-- the eta-expansion clauses of `shrink_unknown_cuts` -/
theorem unknownClauses_typed (vE : Core.Ident) (tty : AxCut.Ty) (Γax : AxCut.Ctx)
    (hv : (⟨sid vE, .cns, tty⟩ : AxCut.Binding) ∈ Γax) : ∀ (xs : List Core.XtorSig) (st : St),
    (∀ x ∈ xs, lookupXtor q.types tty (sid x.name) = some (shrinkContext E.codata x.args)) →
    (∀ i ∈ Γax.ids, i ≤ st.maxId) → (unknownClauses env vE tty xs st).2.maxId ≤ q.maxId →
    TqC q (unknownClauses env vE tty xs st).1 Γax ∧
      ClausesMatch (xs.map (shrinkXtor E.codata)) (unknownClauses env vE tty xs st).1
  | [], st, _, _, _ => by simp [unknownClauses, TqC, TWC, ClausesMatch]
  | x :: xs, st, hx, hΓ, hM => by
    have hcod : env.codata = E.codata := hE.2
    simp only [unknownClauses] at hM ⊢
    have hn := freshenCtx_nodupIds (shrinkContext env.codata x.args) st
    have hr := freshenCtx_ids_range (c := shrinkContext env.codata x.args) (st := st)
    have hc := freshenCtx_chiTys (shrinkContext env.codata x.args) st
    have hs := (freshenCtx_spec (shrinkContext env.codata x.args) st).2.1
    have hM' := hM
    clear hM
    revert hn hr hc hs hM'
    generalize freshenCtx (shrinkContext env.codata x.args) st = r1
    obtain ⟨envC, st1⟩ := r1
    intro hn hr hc hs hM
    have hmono := (unknownClauses_eta env vE tty xs st1).1
    have ih := unknownClauses_typed vE tty Γax hv xs st1 (fun y hy => hx y (by simp [hy]))
      (fun i hi => by have := hΓ i hi; simp only at hs; omega)
    revert hM hmono ih
    generalize unknownClauses env vE tty xs st1 = r2
    obtain ⟨rest, st2⟩ := r2
    intro hM hmono ih
    simp only at hn hr hc hs hM hmono ih ⊢
    obtain ⟨ih1, ih2⟩ := ih hM
    rw [hcod] at hc
    refine ⟨?_, ?_⟩
    · simp only [TqC, TWC, TW]
      refine ⟨hn, ?_, ⟨List.mem_append_right _ hv, ⟨_, hx x (by simp), hc⟩,
        fun a ha => List.mem_append_left _ ha⟩, ih1⟩
      intro i hi
      have := hr i hi
      exact ⟨fun hc' => by have := hΓ i hc'; omega, by omega⟩
    · simp only [List.map_cons, ClausesMatch, shrinkXtor]
      exact ⟨trivial, hc.symm, ih2⟩

include hE hT in
/-- `shrink_unknown_cuts` at a declared type, both orientations: `vK` is scrutinised, `vE` receives the
    eta-expanded xtor -/
theorem ty_unk {Γ f T d st B} {vK vE : Core.Ident} {pcK pcE : Core.PC}
    (hd : declOf E T = some d) (hK : occFs Γ ⟨vK, pcK, T⟩ = true) (hEo : occFs Γ ⟨vE, pcE, T⟩ = true)
    (hsbK : ∀ w, shrinkBinding E.codata ⟨w, pcK, T⟩ = ⟨sid w, .prd, shrinkTy T⟩)
    (hsbE : ∀ w, shrinkBinding E.codata ⟨w, pcE, T⟩ = ⟨sid w, .cns, shrinkTy T⟩)
    (hM : (unknownClauses env (f vE) (shrinkTy T) d.xtors st).2.maxId ≤ q.maxId) :
    PostT E.codata q Γ f B st
      (.switch (sid (f vK)) (shrinkTy T) (unknownClauses env (f vE) (shrinkTy T) d.xtors st).1 none)
      (unknownClauses env (f vE) (shrinkTy T) d.xtors st).2 := by
  intro Γax hag
  refine ⟨?_, LiftedOK.of_frame (unknownClauses_frame _ _ _ _ _)⟩
  have h1 := hag.occ hK
  have h2 := hag.occ hEo
  rw [hsbK] at h1
  rw [hsbE] at h2
  obtain ⟨c1, c2⟩ := unknownClauses_typed (q := q) hE (f vE) (shrinkTy T) Γax h2 d.xtors st
    (fun x hx => lookupXtor_of_decl hT hd (find_self_of_nodup d.xtors (hT.xnd _ _ hd) x hx))
    (fun i hi => (hag.rng i hi).2) hM
  simp only [Tq, TW]
  exact ⟨h1, ⟨_, hT.decl _ _ hd, c2⟩, c1⟩

end step

end Scc.Core2AxCut.Typed
