/-
  Scc.Core2AxCut.TypedSpec — SPEC (executable, core imports only): the decidable side condition on the
  TYPE DECLARATIONS of a focused Core program under which shrinking preserves typing
  (`Scc/Core2AxCut/TypedProg.lean`, `Scc/Props/C12Mid.lean`):
   * no name is declared both as a data and as a codata type (`is_codata` decides by the NAME alone, and
     the AxCut program has ONE list of types, data types first: for a name declared twice the AxCut
     type lookup finds the data declaration where Core's finds the codata declaration);
   * the constructor / destructor names of every declaration are pairwise distinct (AxCut looks an xtor up
     by its name, first hit: the eta-expansion clause generated for the second xtor of the same name would
     be checked against the signature of the first).
  Both hold for every program accepted by the front end; without either of them
  `C04_shrink_typed_statement` is false (`Scc/Props/C12Mid.lean`: `C12Mid_disjoint_needed`,
  `C12Mid_xtorsDistinct_needed`).
-/
import Scc.Core2AxCut.FsTyping

namespace Scc.Core2AxCut

open Scc

/-- no type name is declared both as data and as codata type -/
def fsTypesDisjoint (p : Core.FsProg) : Bool :=
  p.dataTypes.all fun d => p.codataTypes.all fun c => decide (d.name ≠ c.name)

/-- the xtor names of the declaration are pairwise distinct -/
def xtorsDistinct (d : Core.TypeDecl) : Bool := decide (d.xtors.map (·.name)).Nodup

/-- the side condition on the type declarations -/
def fsTypesOk (p : Core.FsProg) : Bool :=
  fsTypesDisjoint p && (p.dataTypes ++ p.codataTypes).all xtorsDistinct

/-- input: text of an S3 dump; output `OK true` | `OK false` | `ERR ..` -/
def runLineFsTypesOk (dumpS3 : String) : String :=
  match Sexp.parse dumpS3 with
  | none => "ERR sexp"
  | some sx =>
    match Core.readFsProg (dumpS3.length + 10) sx with
    | none => "ERR read"
    | some p => "OK " ++ toString (fsTypesOk p)

end Scc.Core2AxCut
