/-
  Scc.Core2AxCut.SemRun — proof file for the semantic part of C04: from a step-wise forward simulation
  (one step of the focused-Core machine is matched by `k ≥ 0` steps of the named AxCut machine; steps
  matched by no AxCut step make the Core statement smaller) to equality of the fuel-indexed behaviours
  in both directions (both machines are deterministic functions).
-/
import Scc.Core2AxCut.Model
import Scc.Core.Sem
import Scc.AxCut.SemNamed

namespace Scc.Core2AxCut.Sem

open Scc Scc.Core2AxCut
open Scc.AxCut.Named (State step iterate)

/-- `k` steps of the AxCut machine, none of them final -/
inductive Steps (q : AxCut.Prog) : Nat → State → State → Prop
  | refl (a : State) : Steps q 0 a a
  | cons {k : Nat} {a b c : State} : step q a = .next b → Steps q k b c → Steps q (k + 1) a c

theorem Steps.one {q : AxCut.Prog} {a b : State} (h : step q a = .next b) : Steps q 1 a b :=
  .cons h (.refl b)

theorem Steps.trans {q : AxCut.Prog} {k l : Nat} {a b c : State} (h1 : Steps q k a b) (h2 : Steps q l b c) :
    Steps q (k + l) a c := by
  induction h1 with
  | refl a => simpa using h2
  | @cons k' _ _ _ hs _ ih =>
    have := Steps.cons hs (ih h2)
    rw [show k' + 1 + l = k' + l + 1 by omega]
    exact this

theorem Steps.zero_eq {q : AxCut.Prog} {a b : State} (h : Steps q 0 a b) : a = b := by
  cases h; rfl

theorem iterate_steps {q : AxCut.Prog} {k : Nat} {a b : State} (h : Steps q k a b) (m : Nat) :
    iterate q (k + m) a = iterate q m b := by
  induction h with
  | refl a => simp
  | @cons k' _ _ _ hs _ ih =>
    rw [show k' + 1 + m = (k' + m) + 1 by omega]
    simp only [iterate, hs]
    exact ih

theorem iterate_short {q : AxCut.Prog} {k : Nat} {a b : State} (h : Steps q k a b) :
    ∀ m, m ≤ k → (iterate q m a).res = .outOfFuel := by
  induction h with
  | refl a => intro m hm; have : m = 0 := by omega
              subst this; rfl
  | cons hs _ ih =>
    intro m hm
    cases m with
    | zero => rfl
    | succ m => simp only [iterate, hs]; exact ih m (by omega)

/-- the results of the two machines correspond -/
def ResMatch (r : Core.Res) (r' : AxCut.Named.Res) : Prop :=
  match r with
  | .done v => r' = .done v
  | .stuck _ => ∃ w, r' = .stuck w
  | .outOfFuel => False

/-- what one step of the Core machine from `cs` is matched by, from the AxCut state `as` -/
def SimGoal (p : Core.FsProg) (q : AxCut.Prog) (R : Core.FsState → State → Prop) (cs : Core.FsState)
    (as : State) : Prop :=
  match Core.fsStep p cs with
  | .next cs' => ∃ k as', Steps q k as as' ∧ R cs' as' ∧ (k = 0 → sizeStmt cs'.stmt < sizeStmt cs.stmt)
  | .final r => ∃ k as' r', Steps q k as as' ∧ step q as' = .halt cs.out r' ∧ ResMatch r r'

/-- a behaviour has finished -/
def Fin (r : AxCut.Named.Res) : Prop := (∃ v, r = .done v) ∨ (∃ w, r = .stuck w)

def CFin (r : Core.Res) : Prop := (∃ v, r = .done v) ∨ (∃ w, r = .stuck w)

theorem ResMatch.fin {r r'} (h : ResMatch r r') : CFin r ∧ Fin r' := by
  cases r with
  | done v => exact ⟨.inl ⟨v, rfl⟩, .inl ⟨v, h⟩⟩
  | stuck w => obtain ⟨w', h⟩ := h; exact ⟨.inr ⟨w, rfl⟩, .inr ⟨w', h⟩⟩
  | outOfFuel => cases h

section sim
variable {p : Core.FsProg} {q : AxCut.Prog} {R : Core.FsState → State → Prop}
  (hsim : ∀ cs as, R cs as → SimGoal p q R cs as)
include hsim

/-- forward: a finished Core run is matched by a finished AxCut run -/
theorem sim_forward : ∀ n cs as, R cs as → CFin (Core.fsStepN p n cs).res →
    ∃ m, (iterate q m as).out = (Core.fsStepN p n cs).out ∧
      ResMatch (Core.fsStepN p n cs).res (iterate q m as).res
  | 0, cs, as, _, hf => by
    simp only [Core.fsStepN] at hf
    rcases hf with ⟨v, h⟩ | ⟨w, h⟩ <;> cases h
  | n + 1, cs, as, hr, hf => by
    have hg := hsim cs as hr
    simp only [SimGoal] at hg
    simp only [Core.fsStepN] at hf ⊢
    split at hg
    · rename_i cs' hstep
      simp only [hstep] at hf ⊢
      obtain ⟨k, as', hk, hr', _⟩ := hg
      obtain ⟨m, h1, h2⟩ := sim_forward n cs' as' hr' hf
      exact ⟨k + m, by rw [iterate_steps hk]; exact h1, by rw [iterate_steps hk]; exact h2⟩
    · rename_i r hstep
      simp only [hstep]
      obtain ⟨k, as', r', hk, hh, hm⟩ := hg
      refine ⟨k + 1, ?_, ?_⟩
      · rw [iterate_steps hk]; simp [iterate, hh]
      · rw [iterate_steps hk]; simpa [iterate, hh] using hm

/-- backward: a finished AxCut run is matched by a finished Core run -/
theorem sim_backward : ∀ (m sz : Nat) cs as, R cs as → sizeStmt cs.stmt ≤ sz → Fin (iterate q m as).res →
    ∃ n, (Core.fsStepN p n cs).out = (iterate q m as).out ∧
      ResMatch (Core.fsStepN p n cs).res (iterate q m as).res := by
  intro m
  induction m using Nat.strongRecOn with
  | _ m ihm =>
    intro sz
    induction sz with
    | zero =>
      intro cs as _ hsz _
      have : 0 < sizeStmt cs.stmt := by
        cases cs.stmt <;> simp [sizeStmt]
      omega
    | succ sz ihs =>
      intro cs as hr hsz hf
      have hg := hsim cs as hr
      simp only [SimGoal] at hg
      split at hg
      · rename_i cs' hstep
        obtain ⟨k, as', hk, hr', hdec⟩ := hg
        by_cases hk0 : k = 0
        · subst hk0
          have := Steps.zero_eq hk
          subst this
          obtain ⟨n, h1, h2⟩ := ihs cs' as hr' (by have := hdec rfl; omega) hf
          exact ⟨n + 1, by simp only [Core.fsStepN, hstep]; exact h1, by simp only [Core.fsStepN, hstep]; exact h2⟩
        · by_cases hmk : m ≤ k
          · have := iterate_short hk m hmk
            rw [this] at hf
            rcases hf with ⟨v, h⟩ | ⟨w, h⟩ <;> cases h
          · have e : m = k + (m - k) := by omega
            have hit : iterate q m as = iterate q (m - k) as' := by
              conv => lhs; rw [e]
              exact iterate_steps hk _
            rw [hit] at hf ⊢
            obtain ⟨n, h1, h2⟩ := ihm (m - k) (by omega) (sizeStmt cs'.stmt) cs' as' hr' (Nat.le_refl _) hf
            exact ⟨n + 1, by simp only [Core.fsStepN, hstep]; exact h1,
              by simp only [Core.fsStepN, hstep]; exact h2⟩
      · rename_i r hstep
        obtain ⟨k, as', r', hk, hh, hm⟩ := hg
        by_cases hmk : m ≤ k
        · have := iterate_short hk m hmk
          rw [this] at hf
          rcases hf with ⟨v, h⟩ | ⟨w, h⟩ <;> cases h
        · have e : m = k + ((m - k - 1) + 1) := by omega
          have hit : iterate q m as = ⟨cs.out, r'⟩ := by
            conv => lhs; rw [e]
            rw [iterate_steps hk]
            simp [iterate, hh]
          rw [hit]
          exact ⟨1, by simp [Core.fsStepN, hstep], by simpa [Core.fsStepN, hstep] using hm⟩

end sim

end Scc.Core2AxCut.Sem
