/-
  Scc.Core2AxCut.NoLift — decidable side conditions used by the semantic theorems of C04
  (`Scc/Props/C04Sem.lean`: `idsBoundedCheck` and `mainIntParams` are hypotheses of `C04_sem`, `noLiftCheck`
  delimits the fragment `C04_sem_nolift`).  Spec file, core imports only, executable.

  * `noLiftCheck p`     no critical pair `⟨μa.s1 | μ~x.s2⟩` of `p` is lifted by `shrink_critical_pairs`:
                        at every such cut at a declared type the sharing condition of cut.rs
                        (`inlineExpand`: at most one xtor, or the expanded side is a leaf) holds.  This
                        delimits the fragment of `C04_sem_nolift`.
  * `idsBoundedCheck p` every parameter id and binder id of `p` is `≤ p.maxId`
                        — the meaning of the counter `max_id` that `fresh_identifier` relies on.
  * `mainIntParams p`   the parameters of the first definition are integer producers (the machines are
                        started on integer arguments only).
-/
import Scc.Core2AxCut.FsTyping
import Scc.Core.Unique

namespace Scc.Core2AxCut

open Scc

/-- the sharing condition at one cut -/
def critOk (E : TEnv) (ty : Core.Ty) : Core.FsTerm → Core.FsTerm → Bool
  | .mu _ _ _ s1, .mu _ _ _ s2 =>
    match declOf E ty with
    | some d => inlineExpand d.xtors.length (if isCodata E.codata ty then s1 else s2)
    | none => true
  | _, _ => true

mutual
  def noLiftTerm (E : TEnv) : Core.FsTerm → Bool
    | .mu _ _ _ s => noLiftStmt E s
    | .xcase _ _ cs => noLiftClauses E cs
    | _ => true
  def noLiftClauses (E : TEnv) : Core.FsClauses → Bool
    | .nil => true
    | .cons _ _ b r => noLiftStmt E b && noLiftClauses E r
  def noLiftStmt (E : TEnv) : Core.FsStmt → Bool
    | .cut ty p c => critOk E ty p c && noLiftTerm E p && noLiftTerm E c
    | .ifc _ _ _ t e => noLiftStmt E t && noLiftStmt E e
    | .print _ _ n => noLiftStmt E n
    | .call _ _ => true
    | .exit _ => true
end

def noLiftCheck (p : Core.FsProg) : Bool := p.defs.all fun d => noLiftStmt (progTEnv p) d.body

def idsBoundedDef (maxId : Nat) (d : Core.FsDef) : Bool :=
  (Core.ctxIds d.ctx ++ d.body.binderIds).all fun i => i ≤ maxId

def idsBoundedCheck (p : Core.FsProg) : Bool := p.defs.all (idsBoundedDef p.maxId)

def mainIntParams (p : Core.FsProg) : Bool :=
  match p.defs with
  | [] => true
  | d :: _ => d.ctx.all fun b => b.chi == .prd && b.ty == .i64

end Scc.Core2AxCut
