/-
  Scc.Core2AxCut.TypedCut — proof file for the typing part of C04 / C12 (shrinking preserves typing):
  the case analysis of `shrinkCut` on well-typed cuts (dispatching to the arms of `TypedArms*.lean`), the
  other statement forms, `lift` (the lifted definition is well-formed and the call to it is typed), and the
  induction on the fuel: every output of `shrinkStmt` satisfies the typing postcondition.
-/
import Scc.Core2AxCut.TypedArms2
import Scc.Core2AxCut.SemTrCut

namespace Scc.Core2AxCut.Typed

open Scc Scc.AxCut Scc.Core2AxCut Scc.Core2AxCut.Sem
open Scc.AxCut.Named (findDef)

local notation "sid" => shrinkIdentifier

section step
variable {E : TEnv} {q : AxCut.Prog} {env : Env} {rec : Rec}
  (hE : EnvMatches env E) (hT : EnvOK E q.types) (hS : SigOK E q.sigs)
  (hrec : RecTr E q rec) (hrecT : RecT E q rec) (hmono : RecRel Mono rec)
  (hlift : RecTr E q (lift env rec)) (hliftT : RecT E q (lift env rec))

include hE hT hrec hrecT hmono hlift hliftT in
theorem shrinkCut_typed (Γ f ty p c st t st') (h : shrinkCut env rec ty (renTerm f p) (renTerm f c) st = .ok (t, st'))
    (hq : Good q st') (hM : st'.maxId ≤ q.maxId) (hwt : wtStmt E (.cut ty p c) = true)
    (hsc : scStmt Γ (.cut ty p c) = true)
    (inv : InvB Γ f (Core.FsStmt.cut ty p c).binderIds st.maxId) :
    PostT E.codata q Γ f (Core.FsStmt.cut ty p c).binderIds st t st' := by
  have hcodE : env.codata = E.codata := hE.2
  simp only [wtStmt, Bool.and_eq_true] at hwt
  obtain ⟨⟨hty, hp⟩, hc⟩ := hwt
  simp only [scStmt, Bool.and_eq_true] at hsc
  have hclit : ∀ k, c ≠ .lit k := by
    intro k hk; subst hk; simp [wtTerm] at hc
  have hcop : ∀ a o b, c ≠ .op a o b := by
    intro a o b hk; subst hk; simp [wtTerm] at hc
  cases p with
  | var pc x t1 =>
    obtain ⟨rfl, rfl⟩ := wt_var hp
    cases c with
    | lit k => exact absurd rfl (hclit k)
    | op a o b => exact absurd rfl (hcop a o b)
    | var pc2 α t2 =>
      obtain ⟨rfl, rfl⟩ := wt_var hc
      simp only [scTerm] at hsc
      simp only [renTerm, shrinkCut] at h
      cases ty with
      | i64 =>
        simp only [shrinkUnknownCuts, Except.ok.injEq, Prod.mk.injEq] at h
        obtain ⟨rfl, rfl⟩ := h
        exact ty_unkInt hT hsc.1 hsc.2
      | decl name =>
        obtain ⟨d, hd⟩ := tyOk_decl hty
        have hne := ty_ne_int_of_decl hd
        simp only [shrinkUnknownCuts, lookup_of_declOf hE hd, Except.ok.injEq, Prod.mk.injEq] at h
        obtain ⟨rfl, rfl⟩ := h
        rw [hE.2] at hM ⊢
        by_cases hcod : isCodata E.codata (.decl name) = true
        · simp only [hcod, if_true] at hM ⊢
          exact ty_unk hE hT (pcK := .cns) (pcE := .prd) hd hsc.2 hsc.1
            (fun w => sb_cns_codata w hne hcod) (fun w => sb_prd_codata w hne hcod) hM
        · have hcod' : isCodata E.codata (.decl name) = false := by simpa using hcod
          simp only [hcod', Bool.false_eq_true, if_false] at hM ⊢
          exact ty_unk hE hT (pcK := .prd) (pcE := .cns) hd hsc.1 hsc.2
            (fun w => sb_prd_data w hne hcod') (fun w => sb_cns_data w hne hcod') hM
    | mu pc2 y t2 s0 =>
      obtain ⟨rfl, rfl, hw0⟩ := wt_mu hc
      simp only [scTerm, flipPC] at hsc
      simp only [renTerm, shrinkCut, shrinkRenaming] at h
      exact ty_ren hrecT h hq hM hw0 hsc.1 hsc.2 inv
        (by simp [Core.FsStmt.binderIds, Core.FsTerm.binderIds])
    | xtor pc2 K args t2 =>
      obtain ⟨rfl, rfl, d, sig, hd, hcod, hsig, hm⟩ := wt_xtor hc
      simp only [scTerm, List.all_eq_true] at hsc
      simp only [renTerm, shrinkCut, Except.ok.injEq, Prod.mk.injEq] at h
      obtain ⟨rfl, rfl⟩ := h
      rw [hcodE]
      exact ty_invoke hT (pc := .prd) hd hsig hm hsc.2 hsc.1
        (fun w => sb_prd_codata w (ty_ne_int_of_decl hd) (by rw [hcod]; rfl))
    | xcase pc2 t2 cl =>
      obtain ⟨rfl, rfl, d, hd, hcod, hwcl⟩ := wt_xcase hc
      simp only [scTerm] at hsc
      simp only [renTerm, shrinkCut] at h
      split at h
      · cases h
      · rename_i cls st1 hcl
        simp only [Except.ok.injEq, Prod.mk.injEq] at h
        obtain ⟨rfl, rfl⟩ := h
        exact ty_switch hE hT hrecT hmono (pc := .prd) hcl hq hM hd hsc.1
          (fun w => sb_prd_data w (ty_ne_int_of_decl hd) (by rw [hcod]; rfl)) hwcl hsc.2 inv
          (by simp [Core.FsStmt.binderIds, Core.FsTerm.binderIds])
  | lit n =>
    have hT' := wtTerm_lit_ty hp
    subst hT'
    cases c with
    | lit k => exact absurd rfl (hclit k)
    | op a o b => exact absurd rfl (hcop a o b)
    | var pc2 α t2 =>
      obtain ⟨rfl, rfl⟩ := wt_var hc
      simp only [scTerm] at hsc
      simp only [renTerm, shrinkCut, freshIdentifier, Except.ok.injEq, Prod.mk.injEq] at h
      obtain ⟨rfl, rfl⟩ := h
      exact ty_litVar hT hsc.2 hM
    | mu pc2 x t2 s0 =>
      obtain ⟨rfl, rfl, hw0⟩ := wt_mu hc
      simp only [scTerm, flipPC] at hsc
      simp only [renTerm, shrinkCut] at h
      split at h
      · cases h
      · rename_i t0 st1 h1
        simp only [Except.ok.injEq, Prod.mk.injEq] at h
        obtain ⟨rfl, rfl⟩ := h
        exact ty_litMu hrecT hmono h1 hq hM hw0 hsc.2 inv
    | xtor _ _ _ _ =>
      obtain ⟨_, _, d, _, hd, _⟩ := wt_xtor hc
      simp [declOf] at hd
    | xcase _ _ _ =>
      obtain ⟨_, _, d, hd, _⟩ := wt_xcase hc
      simp [declOf] at hd
  | op a o b =>
    have hT' := wtTerm_op_ty hp
    subst hT'
    simp only [scTerm, Bool.and_eq_true] at hsc
    cases c with
    | lit k => exact absurd rfl (hclit k)
    | op a o b => exact absurd rfl (hcop a o b)
    | var pc2 α t2 =>
      obtain ⟨rfl, rfl⟩ := wt_var hc
      simp only [scTerm] at hsc
      simp only [renTerm, shrinkCut, freshIdentifier, Except.ok.injEq, Prod.mk.injEq] at h
      obtain ⟨rfl, rfl⟩ := h
      exact ty_opVar hT hsc.1.1 hsc.1.2 hsc.2 hM
    | mu pc2 x t2 s0 =>
      obtain ⟨rfl, rfl, hw0⟩ := wt_mu hc
      simp only [scTerm, flipPC] at hsc
      simp only [renTerm, shrinkCut] at h
      split at h
      · cases h
      · rename_i t0 st1 h1
        simp only [Except.ok.injEq, Prod.mk.injEq] at h
        obtain ⟨rfl, rfl⟩ := h
        exact ty_opMu hrecT hmono h1 hq hM hsc.1.1 hsc.1.2 hw0 hsc.2 inv
    | xtor _ _ _ _ =>
      obtain ⟨_, _, d, _, hd, _⟩ := wt_xtor hc
      simp [declOf] at hd
    | xcase _ _ _ =>
      obtain ⟨_, _, d, hd, _⟩ := wt_xcase hc
      simp [declOf] at hd
  | mu pc a t1 s1 =>
    obtain ⟨rfl, rfl, hw1⟩ := wt_mu hp
    simp only [scTerm, flipPC] at hsc
    cases c with
    | lit k => exact absurd rfl (hclit k)
    | op a o b => exact absurd rfl (hcop a o b)
    | var pc2 x t2 =>
      obtain ⟨rfl, rfl⟩ := wt_var hc
      simp only [scTerm] at hsc
      simp only [renTerm, shrinkCut, shrinkRenaming] at h
      exact ty_ren hrecT h hq hM hw1 hsc.2 hsc.1 inv
        (by simp [Core.FsStmt.binderIds, Core.FsTerm.binderIds])
    | mu pc2 x t2 s2 =>
      obtain ⟨rfl, rfl, hw2⟩ := wt_mu hc
      simp only [scTerm, flipPC] at hsc
      simp only [renTerm, shrinkCut] at h
      cases ty with
      | i64 =>
        simp only [shrinkCriticalPairs] at h
        split at h
        · cases h
        · rename_i t2' st1 h1
          split at h
          · cases h
          · rename_i t1' st2 h2
            simp only [Except.ok.injEq, Prod.mk.injEq] at h
            obtain ⟨rfl, rfl⟩ := h
            exact ty_critInt hT hrecT hmono h1 h2 hq hM hw1 hsc.1 hw2 hsc.2 inv
      | decl name =>
        obtain ⟨d, hd⟩ := tyOk_decl hty
        have hne := ty_ne_int_of_decl hd
        simp only [shrinkCriticalPairs, lookup_of_declOf hE hd] at h
        rw [hE.2] at h
        simp only [Core.FsStmt.binderIds, Core.FsTerm.binderIds] at inv ⊢
        by_cases hcod : isCodata E.codata (.decl name) = true
        · simp only [hcod, if_true] at h
          exact ty_criticalDecl hE hT hrec hrecT hmono (bK := ⟨x, .prd, .decl name⟩)
            (bE := ⟨a, .cns, .decl name⟩) h hq hM hlift hliftT hd rfl
            (sb_prd_codata x hne hcod) (sb_cns_codata a hne hcod) hw2 hsc.2 hw1 hsc.1 inv
            (by simp only [List.map_cons, List.map_nil, List.singleton_append]
                exact List.sublist_append_right _ _)
            (by simp)
        · have hcod' : isCodata E.codata (.decl name) = false := by simpa using hcod
          simp only [hcod', Bool.false_eq_true, if_false] at h
          exact ty_criticalDecl hE hT hrec hrecT hmono (bK := ⟨a, .cns, .decl name⟩)
            (bE := ⟨x, .prd, .decl name⟩) h hq hM hlift hliftT hd rfl
            (sb_cns_data a hne hcod') (sb_prd_data x hne hcod') hw1 hsc.1 hw2 hsc.2 inv
            (by simp)
            (by simp only [List.map_cons, List.map_nil, List.singleton_append]
                exact List.sublist_append_right _ _)
    | xtor pc2 K args t2 =>
      obtain ⟨rfl, rfl, d, sig, hd, hcod, hsig, hm⟩ := wt_xtor hc
      simp only [scTerm, List.all_eq_true] at hsc
      simp only [renTerm, shrinkCut] at h
      split at h
      · cases h
      · rename_i t0 st1 h1
        simp only [Except.ok.injEq, Prod.mk.injEq] at h
        obtain ⟨rfl, rfl⟩ := h
        rw [hcodE]
        exact ty_let hT hrecT hmono (b0 := ⟨a, .cns, ty⟩) h1 hq hM hd hsig hm hsc.2 hw1 hsc.1
          (sb_cns_codata a (ty_ne_int_of_decl hd) (by rw [hcod]; rfl)) inv
          (by simp [Core.FsStmt.binderIds, Core.FsTerm.binderIds])
    | xcase pc2 t2 cl =>
      obtain ⟨rfl, rfl, d, hd, hcod, hwcl⟩ := wt_xcase hc
      simp only [scTerm] at hsc
      simp only [renTerm, shrinkCut] at h
      split at h
      · cases h
      · rename_i cls st1 hcl
        split at h
        · cases h
        · rename_i t0 st2 h2
          simp only [Except.ok.injEq, Prod.mk.injEq] at h
          obtain ⟨rfl, rfl⟩ := h
          exact ty_create hE hT hrecT hmono (b0 := ⟨a, .cns, ty⟩) hcl h2 hq hM hd
            (sb_cns_data a (ty_ne_int_of_decl hd) (by rw [hcod]; rfl)) hwcl hsc.2 hw1 hsc.1 inv
            (by simp only [Core.FsStmt.binderIds, Core.FsTerm.binderIds]; exact List.sublist_append_right _ _)
            (by simp [Core.FsStmt.binderIds, Core.FsTerm.binderIds])
  | xtor pc K args t1 =>
    obtain ⟨rfl, rfl, d, sig, hd, hcod, hsig, hm⟩ := wt_xtor hp
    have hcod' : isCodata E.codata ty = false := by rw [hcod]; rfl
    have hne := ty_ne_int_of_decl hd
    simp only [scTerm, List.all_eq_true] at hsc
    cases c with
    | lit k => exact absurd rfl (hclit k)
    | op a o b => exact absurd rfl (hcop a o b)
    | var pc2 α t2 =>
      obtain ⟨rfl, rfl⟩ := wt_var hc
      simp only [scTerm] at hsc
      simp only [renTerm, shrinkCut, Except.ok.injEq, Prod.mk.injEq] at h
      obtain ⟨rfl, rfl⟩ := h
      rw [hcodE]
      exact ty_invoke hT (pc := .cns) hd hsig hm hsc.1 hsc.2 (fun w => sb_cns_data w hne hcod')
    | mu pc2 x t2 s0 =>
      obtain ⟨rfl, rfl, hw0⟩ := wt_mu hc
      simp only [scTerm, flipPC] at hsc
      simp only [renTerm, shrinkCut] at h
      split at h
      · cases h
      · rename_i t0 st1 h1
        simp only [Except.ok.injEq, Prod.mk.injEq] at h
        obtain ⟨rfl, rfl⟩ := h
        rw [hcodE]
        exact ty_let hT hrecT hmono (b0 := ⟨x, .prd, ty⟩) h1 hq hM hd hsig hm hsc.1 hw0 hsc.2
          (sb_prd_data x hne hcod') inv (by simp [Core.FsStmt.binderIds, Core.FsTerm.binderIds])
    | xtor _ _ _ _ =>
      obtain ⟨_, _, _, _, _, h2, _⟩ := wt_xtor hc
      rw [hcod'] at h2; simp at h2
    | xcase pc2 t2 cl =>
      obtain ⟨rfl, rfl, d2, hd2, _, hwcl⟩ := wt_xcase hc
      rw [hd] at hd2; cases hd2
      simp only [scTerm] at hsc
      simp only [renTerm, shrinkCut, shrinkKnownCuts, findClause_ren] at h
      cases hfc : cl.find K with
      | none => simp [hfc] at h
      | some cb =>
        obtain ⟨ctx, body⟩ := cb
        simp only [hfc, Option.map_some] at h
        obtain ⟨hm2, hwb⟩ := find_wt d.xtors cl sig hwcl hsig hfc
        exact ty_known hrecT h hq hM hfc hm hsc.1 hm2 hwb (find_sc cl hsc.2 hfc) inv
          (by simp [Core.FsStmt.binderIds, Core.FsTerm.binderIds])
  | xcase pc t1 cl =>
    obtain ⟨rfl, rfl, d, hd, hcod, hwcl⟩ := wt_xcase hp
    have hcod' : isCodata E.codata ty = true := by rw [hcod]; rfl
    have hne := ty_ne_int_of_decl hd
    simp only [scTerm] at hsc
    cases c with
    | lit k => exact absurd rfl (hclit k)
    | op a o b => exact absurd rfl (hcop a o b)
    | var pc2 α t2 =>
      obtain ⟨rfl, rfl⟩ := wt_var hc
      simp only [scTerm] at hsc
      simp only [renTerm, shrinkCut] at h
      split at h
      · cases h
      · rename_i cls st1 hcl
        simp only [Except.ok.injEq, Prod.mk.injEq] at h
        obtain ⟨rfl, rfl⟩ := h
        exact ty_switch hE hT hrecT hmono (pc := .cns) hcl hq hM hd hsc.2
          (fun w => sb_cns_codata w hne hcod') hwcl hsc.1 inv
          (by simp [Core.FsStmt.binderIds, Core.FsTerm.binderIds])
    | mu pc2 x t2 s0 =>
      obtain ⟨rfl, rfl, hw0⟩ := wt_mu hc
      simp only [scTerm, flipPC] at hsc
      simp only [renTerm, shrinkCut] at h
      split at h
      · cases h
      · rename_i cls st1 hcl
        split at h
        · cases h
        · rename_i t0 st2 h2
          simp only [Except.ok.injEq, Prod.mk.injEq] at h
          obtain ⟨rfl, rfl⟩ := h
          exact ty_create hE hT hrecT hmono (b0 := ⟨x, .prd, ty⟩) hcl h2 hq hM hd
            (sb_prd_codata x hne hcod') hwcl hsc.1 hw0 hsc.2 inv
            (by simp only [Core.FsStmt.binderIds, Core.FsTerm.binderIds]; exact List.sublist_append_left _ _)
            (by simp only [Core.FsStmt.binderIds, Core.FsTerm.binderIds, List.map_cons, List.map_nil,
                  List.singleton_append]
                exact List.sublist_append_right _ _)
    | xtor pc2 K args t2 =>
      obtain ⟨rfl, rfl, d2, sig, hd2, _, hsig, hm⟩ := wt_xtor hc
      rw [hd] at hd2; cases hd2
      simp only [scTerm, List.all_eq_true] at hsc
      simp only [renTerm, shrinkCut, shrinkKnownCuts, findClause_ren] at h
      cases hfc : cl.find K with
      | none => simp [hfc] at h
      | some cb =>
        obtain ⟨ctx, body⟩ := cb
        simp only [hfc, Option.map_some] at h
        obtain ⟨hm2, hwb⟩ := find_wt d.xtors cl sig hwcl hsig hfc
        exact ty_known hrecT h hq hM hfc hm hsc.2 hm2 hwb (find_sc cl hsc.1 hfc) inv
          (by simp [Core.FsStmt.binderIds, Core.FsTerm.binderIds])
    | xcase _ _ _ =>
      obtain ⟨_, _, _, _, h2, _⟩ := wt_xcase hc
      rw [hcod'] at h2; simp at h2

include hE hT hS hrec hrecT hmono hlift hliftT in
theorem shrinkStmtStep_typed : RecT E q (shrinkStmtStep env rec) := by
  intro Γ f s st t st' h hq hM hwt hsc inv
  cases s with
  | cut ty p c =>
    simp only [renStmt, shrinkStmtStep] at h
    exact shrinkCut_typed hE hT hrec hrecT hmono hlift hliftT Γ f ty p c st t st' h hq hM hwt hsc inv
  | ifc sort a b th el =>
    simp only [renStmt, shrinkStmtStep] at h
    simp only [wtStmt, Bool.and_eq_true] at hwt
    simp only [Core.FsStmt.binderIds] at inv ⊢
    split at h
    · cases h
    · rename_i t1 st1 h1
      split at h
      · cases h
      · rename_i t2 st2 h2
        simp only [Except.ok.injEq, Prod.mk.injEq] at h
        obtain ⟨rfl, rfl⟩ := h
        have m1 : st.maxId ≤ st1.maxId := (hmono _ _ _ _ h1).le
        have m2 : Mono st1 st2 := hmono _ _ _ _ h2
        have hq1 : Good q st1 := Good.of_mono m2 hq
        have hM1 : st1.maxId ≤ q.maxId := Nat.le_trans m2.le hM
        have key : ∀ (ha : occFs Γ ⟨a, .prd, .i64⟩ = true)
            (hb : ∀ b', b = some b' → occFs Γ ⟨b', .prd, .i64⟩ = true)
            (hs1 : scStmt Γ th = true) (hs2 : scStmt Γ el = true),
            PostT E.codata q Γ f (th.binderIds ++ el.binderIds) st
              (.ifc (shrinkIfSort sort) (sid (f a)) (b.map f |>.map shrinkIdentifier) t1 t2) st2 := by
          intro ha hb hs1 hs2
          have p1 := hrecT Γ f th st t1 st1 h1 hq1 hM1 hwt.1 hs1
            (by simpa using inv.enterS [] th.binderIds (by simp))
          have p2 := hrecT Γ f el st1 t2 st2 h2 hq hM hwt.2 hs2
            (by simpa using (inv.mono m1).enterS [] el.binderIds (by simp))
          intro Γax hag
          obtain ⟨a1, a2⟩ := p1 Γax (hag.sub (fun i hi => List.mem_append_left _ hi))
          obtain ⟨b1, b2⟩ := p2 Γax ((hag.mono m1).sub (fun i hi => List.mem_append_right _ hi))
          refine ⟨?_, a2.trans b2⟩
          have h1' := hag.occ ha
          rw [sb_prd_int] at h1'
          simp only [Tq, TW]
          refine ⟨h1', ?_, a1, b1⟩
          intro b' hb'
          cases b with
          | none => simp at hb'
          | some b0 =>
            simp only [Option.map_some, Option.some.injEq] at hb'
            subst hb'
            have := hag.occ (hb b0 rfl)
            rwa [sb_prd_int] at this
        cases b with
        | none =>
          simp only [scStmt, Bool.and_eq_true] at hsc
          obtain ⟨⟨⟨ha, _⟩, hs1⟩, hs2⟩ := hsc
          exact key ha (fun _ hb' => by cases hb') hs1 hs2
        | some b =>
          simp only [scStmt, Bool.and_eq_true] at hsc
          obtain ⟨⟨⟨ha, hb⟩, hs1⟩, hs2⟩ := hsc
          exact key ha (fun b' hb' => by cases hb'; exact hb) hs1 hs2
  | print nl a nx =>
    simp only [renStmt, shrinkStmtStep] at h
    simp only [wtStmt] at hwt
    simp only [scStmt, Bool.and_eq_true] at hsc
    simp only [Core.FsStmt.binderIds] at inv ⊢
    split at h
    · cases h
    · rename_i t1 st1 h1
      simp only [Except.ok.injEq, Prod.mk.injEq] at h
      obtain ⟨rfl, rfl⟩ := h
      have p1 := hrecT Γ f nx st t1 st1 h1 hq hM hwt hsc.2 inv
      intro Γax hag
      obtain ⟨a1, a2⟩ := p1 Γax hag
      have h1' := hag.occ hsc.1
      rw [sb_prd_int] at h1'
      exact ⟨by simp only [Tq, TW]; exact ⟨h1', a1⟩, a2⟩
  | call n args =>
    simp only [renStmt, shrinkStmtStep, Except.ok.injEq, Prod.mk.injEq] at h
    obtain ⟨rfl, rfl⟩ := h
    simp only [wtStmt] at hwt
    simp only [scStmt, List.all_eq_true] at hsc
    intro Γax hag
    refine ⟨?_, LiftedOK.refl _ _⟩
    split at hwt
    · rename_i ps hps
      rw [hE.2]
      simp only [Tq, TW]
      exact ⟨_, hS n ps hps, by rw [chiTys_shrinkContext_ren, chiTys_shrinkContext_of_sigMatch _ hwt],
        hag.args hsc⟩
    · cases hwt
  | exit a =>
    simp only [renStmt, shrinkStmtStep, Except.ok.injEq, Prod.mk.injEq] at h
    obtain ⟨rfl, rfl⟩ := h
    simp only [scStmt] at hsc
    intro Γax hag
    have h1' := hag.occ hsc
    rw [sb_prd_int] at h1'
    exact ⟨by simp only [Tq, TW]; exact h1', LiftedOK.refl _ _⟩

end step

/-! ## `lift` -/

theorem sb_with_var (cod : List Core.TypeDecl) (b : Core.Binding) (w : Core.Ident) :
    shrinkBinding cod ⟨w, b.chi, b.ty⟩ = ⟨sid w, (shrinkBinding cod b).chi, (shrinkBinding cod b).ty⟩ := by
  simp only [shrinkBinding]
  split
  · split <;> rfl
  · split <;> rfl

theorem lift_typed {E : TEnv} {q : AxCut.Prog} {env : Env} {rec : Rec} (hE : EnvMatches env E)
    (hrecT : RecT E q rec) (hmono : RecRel Mono rec) : RecT E q (lift env rec) := by
  intro Γ f s st t st' h hq hM hwt hsc inv
  have hcod : env.codata = E.codata := hE.2
  obtain ⟨k, body, st3, hk, _, _, hb, ht, hst⟩ := lift_spec env rec (renStmt f s) st t st' h
  have hbid : ∀ β ∈ bindersStmt s, β.var.id ∈ s.binderIds := by
    intro β hβ
    rw [← bindersStmt_ids]
    exact List.mem_map.mpr ⟨β, hβ, rfl⟩
  have hback : ∀ β ∈ fvStmt (renStmt f s), ∃ b, b ∈ fvStmt s ∧ occFs Γ b = true ∧ β = renBinding f b := by
    intro β hβ
    obtain ⟨b, hb1, hb2⟩ := fv_ren_backStmt inv.fid s (fun i hi => hi) β hβ
    exact ⟨b, hb1, sc_fvStmt s Γ hsc b hb1, hb2⟩
  have hUB : UniqueBinders (renStmt f s) := by
    refine ⟨?_, ?_⟩
    · rw [bindersStmt_ren]
      exact nodup_of_map (fun b => b.var.id) _ (by rw [bindersStmt_ids]; exact inv.nd)
    · rw [bindersStmt_ren]
      intro β hβ hc
      obtain ⟨b, _, hocc, rfl⟩ := hback β hc
      exact (inv.rng b hocc).1 (hbid _ hβ)
  have hfv := tfvStmt_eq_fv (renStmt f s) hUB
  generalize hfvdef : tfvStmt (renStmt f s) [] = fv at hk hb ht hst hfv
  have hfvocc : ∀ β ∈ fv, ∃ b, b ∈ fvStmt s ∧ occFs Γ b = true ∧ β = renBinding f b :=
    fun β hβ => hback β ((hfv β).mp hβ)
  let keep : Core.Binding → Bool := fun b => occFs Γ b && decide (b ∈ fvStmt s)
  have hkeep : ∀ b, occFs (Γ.filter keep) b = true → occFs Γ b = true ∧ b ∈ fvStmt s := by
    intro b hb'
    have := (List.mem_filter.mp (occFs_mem' hb')).2
    simpa [keep] using this
  have hsub : substStmt (liftSubst st.maxId fv) (renStmt f s) =
      renStmt (substIdent (liftSubst st.maxId fv) ∘ f) s := substStmt_ren _ _ _
  rw [hsub] at hb
  have hpar := liftParams_ids_le st.maxId fv
  have hσ := liftSubst_spec st.maxId fv
  have inv' : InvB (Γ.filter keep) (substIdent (liftSubst st.maxId fv) ∘ f) s.binderIds k := by
    have i0 : InvB (Γ.filter keep) f s.binderIds k :=
      ⟨inv.nd, inv.fid, fun b hb' => ⟨(inv.rng b (hkeep b hb').1).1, by
        have := (inv.rng b (hkeep b hb').1).2; omega⟩, fun i hi => by have := inv.bm i hi; omega⟩
    refine i0.subst _ ?_ ?_
    · intro p hp hc
      rw [hσ] at hp
      have := (List.of_mem_zip hp).1
      obtain ⟨β, hβ, hβe⟩ := List.mem_map.mp this
      obtain ⟨b, _, hocc, rfl⟩ := hfvocc β hβ
      exact (inv.rng b hocc).1 (by rw [← hβe] at hc; exact hc)
    · intro p hp
      rw [hσ] at hp
      have := (List.of_mem_zip hp).2
      obtain ⟨c, hc, hce⟩ := List.mem_map.mp this
      have := hpar c.var.id (List.mem_map.mpr ⟨c, hc, rfl⟩)
      rw [← hce]
      exact ⟨fun hm => by have := inv.bm _ hm; omega, by omega⟩
  have hsc' : scStmt (Γ.filter keep) s = true :=
    sc_strengthenStmt s Γ _ hsc (fun b hb' ho => occFs_filter keep ho (by simp [keep, ho, hb']))
  subst hst
  have hq3 : Good q st3 := fun d hd => hq d (List.mem_cons_of_mem _ hd)
  have hM3 : st3.maxId ≤ q.maxId := hM
  have p1 := hrecT (Γ.filter keep) _ s _ body st3 hb hq3 hM3 hwt hsc' inv'
  have mk : k ≤ st3.maxId := (hmono _ _ _ _ hb).le
  subst ht
  have hlen : (liftParams st.maxId fv).length = fv.length := (liftParams_spec st.maxId fv).1
  have hndP := (liftParams_ids_nodup st.maxId fv).1
  intro Γax hag
  -- the parameter list of the lifted definition as a typing context of its body
  have hA : AgreeT E.codata (Γ.filter keep) (substIdent (liftSubst st.maxId fv) ∘ f) s.binderIds k
      (shrinkContext E.codata (liftParams st.maxId fv)) := by
    refine ⟨?_, ?_, by simp only [NodupIds, ids_shrinkContext]; exact hndP⟩
    · intro b hb'
      obtain ⟨hocc, hbfv⟩ := hkeep b hb'
      have hfinv : FvInv Γ f s.binderIds := fun c hc => .inr (inv.rng c hc).1
      have hmem : renBinding f b ∈ fv :=
        (hfv _).mpr (fv_ren_fwdStmt inv.fid s Γ hfinv hsc (fun i hi => hi) b hbfv)
      have hidm : (f b.var).id ∈ fv.map (fun b => b.var.id) := List.mem_map.mpr ⟨_, hmem, rfl⟩
      obtain ⟨i, h1, h2⟩ := substIdent_zip (fv.map fun b => b.var.id) ((liftParams st.maxId fv).map (·.var))
        (f b.var) (by simp [hlen]) hidm
      rw [← hσ] at h2
      -- the i-th free variable has the id of `f b.var`
      have hi : i < fv.length := by
        rcases Nat.lt_or_ge i fv.length with h' | h'
        · exact h'
        · rw [List.getElem?_eq_none (by simpa using h')] at h1
          cases h1
      obtain ⟨hi', hpi⟩ := (liftParams_spec st.maxId fv).2 i hi
      have e1 : fv[i].var.id = (f b.var).id := by
        rw [List.getElem?_map, List.getElem?_eq_getElem hi] at h1
        simpa using h1
      have e2 : (liftParams st.maxId fv)[i].var = substIdent (liftSubst st.maxId fv) (f b.var) := by
        rw [List.getElem?_map, List.getElem?_eq_getElem hi'] at h2
        simpa using h2
      -- both images are in Γax with the same id: they are the same binding
      obtain ⟨b'', _, hocc'', hb''⟩ := hfvocc fv[i] (List.getElem_mem hi)
      have m1 := hag.mem b hocc
      have m2 := hag.mem b'' hocc''
      rw [← hb''] at m2
      have heq : shrinkBinding E.codata (renBinding f b) = shrinkBinding E.codata fv[i] :=
        hag.unique m1 m2 (by rw [sb_id, sb_id]; exact e1.symm)
      have : shrinkBinding E.codata (renBinding (substIdent (liftSubst st.maxId fv) ∘ f) b) =
          shrinkBinding E.codata (liftParams st.maxId fv)[i] := by
        have r1 : renBinding (substIdent (liftSubst st.maxId fv) ∘ f) b =
            ⟨substIdent (liftSubst st.maxId fv) (f b.var), (renBinding f b).chi, (renBinding f b).ty⟩ := rfl
        have r2 : (liftParams st.maxId fv)[i] =
            ⟨substIdent (liftSubst st.maxId fv) (f b.var), fv[i].chi, fv[i].ty⟩ := by
          rw [← e2]
          conv => lhs; rw [hpi]
          conv => rhs; rw [hpi]
        rw [r1, r2, sb_with_var E.codata (renBinding f b), sb_with_var E.codata fv[i], heq]
      rw [this]
      exact List.mem_map.mpr ⟨_, List.getElem_mem hi', rfl⟩
    · intro i hi
      rw [ids_shrinkContext] at hi
      have := hpar i hi
      exact ⟨fun hm => by have := inv.bm _ hm; omega, by omega⟩
  obtain ⟨b1, b2⟩ := p1 _ hA
  refine ⟨?_, ?_⟩
  · -- the call
    have hfd := hq _ (List.mem_cons_self (a := (⟨⟨"lift_" ++ env.currentLabel ++ "_", k⟩,
      shrinkContext env.codata (liftParams st.maxId fv), body⟩ : AxCut.Def)) (l := st3.lifted))
    simp only [Tq, TW]
    refine ⟨_, findSig_of_findDef hfd, (shrinkContext_liftParams env.codata st.maxId fv).symm, ?_⟩
    intro a ha
    rw [hcod] at ha
    simp only [shrinkContext, List.mem_map] at ha
    obtain ⟨β, hβ, rfl⟩ := ha
    obtain ⟨b, _, hocc, rfl⟩ := hfvocc β hβ
    exact hag.mem b hocc
  · -- the lifted definition
    intro d hd
    rcases List.mem_cons.mp hd with rfl | hd
    · right
      rw [hcod]
      refine ⟨by simp only [NodupIds, ids_shrinkContext]; exact hndP, ?_, b1⟩
      intro i hi
      rw [ids_shrinkContext] at hi
      have := hpar i hi
      omega
    · rcases b2 d hd with h' | h'
      · exact .inl h'
      · exact .inr h'

/-! ## the induction on the fuel -/

/-- every output of `shrinkStmt` satisfies the typing postcondition -/
theorem shrinkStmt_typed {E : TEnv} (q : AxCut.Prog) {env : Env} (hE : EnvMatches env E)
    (hT : EnvOK E q.types) (hS : SigOK E q.sigs) : ∀ fuel, RecT E q (shrinkStmt env fuel)
  | 0 => by
    intro Γ f s st t st' h
    simp [shrinkStmt] at h
  | fuel + 1 =>
    have ih := shrinkStmt_typed q hE hT hS fuel
    have ihs := shrinkStmt_tr q hE fuel
    have hm := shrinkStmt_mono env fuel
    shrinkStmtStep_typed hE hT hS ihs ih hm (lift_tr ihs) (lift_typed hE ih hm)

end Scc.Core2AxCut.Typed
