/-
  Scc.Core2AxCut.SizeWidth — C19, what the composition of the size bounds needs from shrinking
  (S3 → S4) besides the node count of Scc.Core2AxCut.SizeProofs:

  * bridges between the size measures of the stages: the node count `sizeStmt` of focused Core is at
    most its full count `fsStmtSize` (Scc.Core.SizeFocus); the node count `axSizeStmt` of AxCut is
    `Stmt.size` (Scc.AxCut.Linearize), `defsSize` is `defsNodes` (Scc.AxCut.SizeLin);
  * the WIDTH invariant: every list that a statement of the output carries (argument lists, clause
    contexts) and every parameter list of an output definition — the given ones and the lifted ones,
    whose parameters are the typed free variables of the lifted statement — has length at most

        W = max (|S3|, arity, 1),       arity = longest argument list of a declared xtor

    (`shrinkProg_width`; for all inputs, no typing hypothesis);
  * consequently `defsBound` of S4 (the bound on the contexts of the linearization, SizeLin) is at most
    `2·(W + N·(W+1)) + W + 1`, `N` = nodes of S4 (`defsBound_le`).     Proof file.
-/
import Scc.Core2AxCut.SizeProofs
import Scc.Core2AxCut.Labels
import Scc.Core.SizeFocus
import Scc.AxCut.SizeLin

set_option linter.unusedVariables false
set_option linter.unusedSimpArgs false
set_option linter.unusedSectionVars false

namespace Scc.Core2AxCut.SizeWidth

open Scc Scc.Core2AxCut Scc.Core.SizeFocus Scc.AxCut.SizeLin

/-! ## bridges between the measures -/

mutual
  theorem sizeTerm_le : ∀ (t : Core.FsTerm), sizeTerm t ≤ fsTermSize t
    | .var _ _ _ => by simp [sizeTerm, fsTermSize]
    | .lit _ => by simp [sizeTerm, fsTermSize]
    | .op _ _ _ => by simp [sizeTerm, fsTermSize]
    | .mu _ _ _ s => by have := sizeStmt_le s; simp only [sizeTerm, fsTermSize]; omega
    | .xtor _ _ _ _ => by simp [sizeTerm, fsTermSize]
    | .xcase _ _ cs => by have := sizeClauses_le cs; simp only [sizeTerm, fsTermSize]; omega
  theorem sizeClauses_le : ∀ (cs : Core.FsClauses), sizeClauses cs ≤ fsClausesSize cs
    | .nil => by simp [sizeClauses, fsClausesSize]
    | .cons _ _ b r => by
      have h1 := sizeStmt_le b
      have h2 := sizeClauses_le r
      simp only [sizeClauses, fsClausesSize]; omega
  theorem sizeStmt_le : ∀ (s : Core.FsStmt), sizeStmt s ≤ fsStmtSize s
    | .cut _ p c => by
      have h1 := sizeTerm_le p
      have h2 := sizeTerm_le c
      simp only [sizeStmt, fsStmtSize]; omega
    | .ifc _ _ none t e => by
      have h1 := sizeStmt_le t
      have h2 := sizeStmt_le e
      simp only [sizeStmt, fsStmtSize]; omega
    | .ifc _ _ (some _) t e => by
      have h1 := sizeStmt_le t
      have h2 := sizeStmt_le e
      simp only [sizeStmt, fsStmtSize]; omega
    | .print _ _ n => by have := sizeStmt_le n; simp only [sizeStmt, fsStmtSize]; omega
    | .call _ _ => by simp only [sizeStmt, fsStmtSize]; omega
    | .exit _ => by simp only [sizeStmt, fsStmtSize]; omega
end

theorem fsDefsSize_le : ∀ (ds : List Core.FsDef),
    Core2AxCut.fsDefsSize ds ≤ Core.SizeFocus.fsDefsSize ds
  | [] => by simp [Core2AxCut.fsDefsSize, Core.SizeFocus.fsDefsSize]
  | d :: ds => by
    have h1 := sizeStmt_le d.body
    have h2 := fsDefsSize_le ds
    simp only [Core2AxCut.fsDefsSize, Core.SizeFocus.fsDefsSize, fsDefSize]; omega

mutual
  theorem axSizeStmt_eq : ∀ (s : AxCut.Stmt), axSizeStmt s = s.size
    | .subst _ n => by simp [axSizeStmt, AxCut.Stmt.size, axSizeStmt_eq n]
    | .call _ _ => by simp [axSizeStmt, AxCut.Stmt.size]
    | .letS _ _ _ _ n _ => by simp [axSizeStmt, AxCut.Stmt.size, axSizeStmt_eq n]
    | .switch _ _ cs _ => by simp [axSizeStmt, AxCut.Stmt.size, axSizeClauses_eq cs]
    | .create _ _ _ cs n _ _ => by
      simp [axSizeStmt, AxCut.Stmt.size, axSizeClauses_eq cs, axSizeStmt_eq n]
    | .invoke _ _ _ _ => by simp [axSizeStmt, AxCut.Stmt.size]
    | .lit _ _ n _ => by simp [axSizeStmt, AxCut.Stmt.size, axSizeStmt_eq n]
    | .op _ _ _ _ n _ => by simp [axSizeStmt, AxCut.Stmt.size, axSizeStmt_eq n]
    | .print _ _ n _ => by simp [axSizeStmt, AxCut.Stmt.size, axSizeStmt_eq n]
    | .ifc _ _ _ t e => by simp [axSizeStmt, AxCut.Stmt.size, axSizeStmt_eq t, axSizeStmt_eq e]
    | .exit _ => by simp [axSizeStmt, AxCut.Stmt.size]
  theorem axSizeClauses_eq : ∀ (cs : AxCut.Clauses), axSizeClauses cs = cs.size
    | .nil => by simp [axSizeClauses, AxCut.Clauses.size]
    | .cons _ _ b r => by simp [axSizeClauses, AxCut.Clauses.size, axSizeStmt_eq b, axSizeClauses_eq r]
end

theorem defsSize_eq : ∀ (ds : List AxCut.Def), Core2AxCut.defsSize ds = defsNodes ds
  | [] => by simp [Core2AxCut.defsSize, defsNodes]
  | d :: ds => by simp [Core2AxCut.defsSize, defsNodes, axSizeStmt_eq, defsSize_eq ds]

/-! ## the width of AxCut statements -/

mutual
  /-- the longest list carried by a node of the statement -/
  def listMax : AxCut.Stmt → Nat
    | .subst pairs next => max pairs.length (listMax next)
    | .call _ args => args.length
    | .letS _ _ _ args next _ => max args.length (listMax next)
    | .switch _ _ cs _ => listMaxC cs
    | .create _ _ env cs next _ _ => max (env.getD []).length (max (listMaxC cs) (listMax next))
    | .invoke _ _ _ args => args.length
    | .lit _ _ next _ => listMax next
    | .op _ _ _ _ next _ => listMax next
    | .print _ _ next _ => listMax next
    | .ifc _ _ _ t e => max (listMax t) (listMax e)
    | .exit _ => 0
  def listMaxC : AxCut.Clauses → Nat
    | .nil => 0
    | .cons _ ctx body rest => max ctx.length (max (listMax body) (listMaxC rest))
end

mutual
  theorem listMax_axSubst (σ) : ∀ s, listMax (axSubstStmt σ s) = listMax s
    | .subst _ n => by simp [axSubstStmt, listMax, listMax_axSubst σ n]
    | .call _ _ => by simp [axSubstStmt, listMax, axSubstCtx]
    | .letS _ _ _ _ n _ => by simp [axSubstStmt, listMax, axSubstCtx, listMax_axSubst σ n]
    | .switch _ _ cs _ => by simp [axSubstStmt, listMax, listMaxC_axSubst σ cs]
    | .create _ _ env cs n _ _ => by
      cases env <;>
        simp [axSubstStmt, listMax, axSubstCtx, listMaxC_axSubst σ cs, listMax_axSubst σ n]
    | .invoke _ _ _ _ => by simp [axSubstStmt, listMax, axSubstCtx]
    | .lit _ _ n _ => by simp [axSubstStmt, listMax, listMax_axSubst σ n]
    | .op _ _ _ _ n _ => by simp [axSubstStmt, listMax, listMax_axSubst σ n]
    | .print _ _ n _ => by simp [axSubstStmt, listMax, listMax_axSubst σ n]
    | .ifc _ _ _ t e => by simp [axSubstStmt, listMax, listMax_axSubst σ t, listMax_axSubst σ e]
    | .exit _ => by simp [axSubstStmt, listMax]
  theorem listMaxC_axSubst (σ) : ∀ cs, listMaxC (axSubstClauses σ cs) = listMaxC cs
    | .nil => by simp [axSubstClauses, listMaxC]
    | .cons _ _ b r => by
      simp [axSubstClauses, listMaxC, listMax_axSubst σ b, listMaxC_axSubst σ r]
end

mutual
  theorem argsMax_le_listMax : ∀ (s : AxCut.Stmt), argsMax s ≤ listMax s
    | .subst _ n => by have := argsMax_le_listMax n; simp only [argsMax, listMax]; omega
    | .call _ _ => by simp [argsMax, listMax]
    | .letS _ _ _ _ n _ => by have := argsMax_le_listMax n; simp only [argsMax, listMax]; omega
    | .switch _ _ cs _ => by have := argsMaxC_le_listMaxC cs; simp only [argsMax, listMax]; omega
    | .create _ _ _ cs n _ _ => by
      have h1 := argsMaxC_le_listMaxC cs
      have h2 := argsMax_le_listMax n
      simp only [argsMax, listMax]; omega
    | .invoke _ _ _ _ => by simp [argsMax, listMax]
    | .lit _ _ n _ => by have := argsMax_le_listMax n; simp only [argsMax, listMax]; omega
    | .op _ _ _ _ n _ => by have := argsMax_le_listMax n; simp only [argsMax, listMax]; omega
    | .print _ _ n _ => by have := argsMax_le_listMax n; simp only [argsMax, listMax]; omega
    | .ifc _ _ _ t e => by
      have h1 := argsMax_le_listMax t
      have h2 := argsMax_le_listMax e
      simp only [argsMax, listMax]; omega
    | .exit _ => by simp [argsMax, listMax]
  theorem argsMaxC_le_listMaxC : ∀ (cs : AxCut.Clauses), argsMaxC cs ≤ listMaxC cs
    | .nil => by simp [argsMaxC, listMaxC]
    | .cons _ _ b r => by
      have h1 := argsMax_le_listMax b
      have h2 := argsMaxC_le_listMaxC r
      simp only [argsMaxC, listMaxC]; omega
end

mutual
  /-- the variables bound along a path: at most `W + 1` per node -/
  theorem binders_le (W : Nat) : ∀ (s : AxCut.Stmt), listMax s ≤ W → binders s ≤ s.size * (W + 1)
    | .subst _ n, h => by
      have := binders_le W n (by simp only [listMax] at h; omega)
      simp only [binders, AxCut.Stmt.size, Nat.add_mul, Nat.one_mul]; omega
    | .call _ _, _ => by simp [binders]
    | .letS _ _ _ _ n _, h => by
      have := binders_le W n (by simp only [listMax] at h; omega)
      simp only [binders, AxCut.Stmt.size, Nat.add_mul, Nat.one_mul]; omega
    | .switch _ _ cs _, h => by
      have := bindersC_le W cs (by simp only [listMax] at h; omega)
      simp only [binders, AxCut.Stmt.size, Nat.add_mul, Nat.one_mul]; omega
    | .create _ _ _ cs n _ _, h => by
      have h1 := bindersC_le W cs (by simp only [listMax] at h; omega)
      have h2 := binders_le W n (by simp only [listMax] at h; omega)
      simp only [binders, AxCut.Stmt.size, Nat.add_mul, Nat.one_mul]; omega
    | .invoke _ _ _ _, _ => by simp [binders]
    | .lit _ _ n _, h => by
      have := binders_le W n (by simp only [listMax] at h; omega)
      simp only [binders, AxCut.Stmt.size, Nat.add_mul, Nat.one_mul]; omega
    | .op _ _ _ _ n _, h => by
      have := binders_le W n (by simp only [listMax] at h; omega)
      simp only [binders, AxCut.Stmt.size, Nat.add_mul, Nat.one_mul]; omega
    | .print _ _ n _, h => by
      have := binders_le W n (by simp only [listMax] at h; omega)
      simp only [binders, AxCut.Stmt.size, Nat.add_mul, Nat.one_mul]; omega
    | .ifc _ _ _ t e, h => by
      have h1 := binders_le W t (by simp only [listMax] at h; omega)
      have h2 := binders_le W e (by simp only [listMax] at h; omega)
      simp only [binders, AxCut.Stmt.size, Nat.add_mul, Nat.one_mul]; omega
    | .exit _, _ => by simp [binders]
  theorem bindersC_le (W : Nat) : ∀ (cs : AxCut.Clauses), listMaxC cs ≤ W → bindersC cs ≤ cs.size * (W + 1)
    | .nil, _ => by simp [bindersC]
    | .cons _ ctx b r, h => by
      have h1 := binders_le W b (by simp only [listMaxC] at h; omega)
      have h2 := bindersC_le W r (by simp only [listMaxC] at h; omega)
      have h3 : ctx.length ≤ W := by simp only [listMaxC] at h; omega
      simp only [bindersC, AxCut.Clauses.size, Nat.add_mul, Nat.one_mul]; omega
end

/-! ## renaming keeps the size of a focused statement; its typed free variables are at most its size -/

mutual
  theorem fsTermSize_subst (σ) : ∀ t, fsTermSize (substTerm σ t) = fsTermSize t
    | .var _ _ _ => by simp [substTerm, fsTermSize]
    | .lit _ => by simp [substTerm, fsTermSize]
    | .op _ _ _ => by simp [substTerm, fsTermSize]
    | .mu _ _ _ s => by simp [substTerm, fsTermSize, fsStmtSize_subst σ s]
    | .xtor _ _ _ _ => by simp [substTerm, fsTermSize, substCtx]
    | .xcase _ _ cs => by simp [substTerm, fsTermSize, fsClausesSize_subst σ cs]
  theorem fsClausesSize_subst (σ) : ∀ cs, fsClausesSize (substClauses σ cs) = fsClausesSize cs
    | .nil => by simp [substClauses, fsClausesSize]
    | .cons _ _ b r => by
      simp [substClauses, fsClausesSize, fsStmtSize_subst σ b, fsClausesSize_subst σ r]
  theorem fsStmtSize_subst (σ) : ∀ s, fsStmtSize (substStmt σ s) = fsStmtSize s
    | .cut _ p c => by simp [substStmt, fsStmtSize, fsTermSize_subst σ p, fsTermSize_subst σ c]
    | .ifc _ _ none t e => by simp [substStmt, fsStmtSize, fsStmtSize_subst σ t, fsStmtSize_subst σ e]
    | .ifc _ _ (some _) t e => by
      simp [substStmt, fsStmtSize, fsStmtSize_subst σ t, fsStmtSize_subst σ e]
    | .print _ _ n => by simp [substStmt, fsStmtSize, fsStmtSize_subst σ n]
    | .call _ _ => by simp [substStmt, fsStmtSize, substCtx]
    | .exit _ => by simp [substStmt, fsStmtSize]
end

theorem setInsert_length (b : Core.Binding) : ∀ (l : List Core.Binding),
    (setInsert b l).length ≤ l.length + 1
  | [] => by simp [setInsert]
  | x :: xs => by
    simp only [setInsert]
    split
    · simp
    · simp
    · have := setInsert_length b xs; simp; omega

theorem setRemove_length (b : Core.Binding) (l : List Core.Binding) : (setRemove b l).length ≤ l.length := by
  unfold setRemove; exact List.length_filter_le _ _

theorem setExtend_length : ∀ (bs l : List Core.Binding), (setExtend bs l).length ≤ l.length + bs.length
  | [], l => by simp [setExtend]
  | b :: bs, l => by
    have h1 := setInsert_length b l
    have h2 := setExtend_length bs (setInsert b l)
    simp only [setExtend, List.foldl_cons, List.length_cons] at h2 ⊢
    omega

theorem foldl_setRemove_length : ∀ (ctx l : List Core.Binding),
    (ctx.foldl (fun acc b => setRemove b acc) l).length ≤ l.length
  | [], l => by simp
  | b :: bs, l => by
    have h1 := setRemove_length b l
    have h2 := foldl_setRemove_length bs (setRemove b l)
    simp only [List.foldl_cons]; omega

mutual
  theorem tfvTerm_length : ∀ (t : Core.FsTerm) (vs : List Core.Binding),
      (tfvTerm t vs).length ≤ vs.length + fsTermSize t
    | .var pc v ty, vs => by
      have := setInsert_length ⟨v, pc, ty⟩ vs
      simp only [tfvTerm, fsTermSize]; exact this
    | .lit _, vs => by simp [tfvTerm]
    | .op a _ b, vs => by
      have h1 := setInsert_length ⟨a, .prd, .i64⟩ vs
      have h2 := setInsert_length ⟨b, .prd, .i64⟩ (setInsert ⟨a, .prd, .i64⟩ vs)
      simp only [tfvTerm, fsTermSize]; omega
    | .mu pc v ty s, vs => by
      have h1 := tfvStmt_length s vs
      have h2 := setRemove_length ⟨v, flipPC pc, ty⟩ (tfvStmt s vs)
      simp only [tfvTerm, fsTermSize]; omega
    | .xtor _ _ args _, vs => by
      have := setExtend_length args vs
      simp only [tfvTerm, fsTermSize]; omega
    | .xcase _ _ cs, vs => by
      have := tfvClauses_length cs vs
      simp only [tfvTerm, fsTermSize]; omega
  theorem tfvClauses_length : ∀ (cs : Core.FsClauses) (vs : List Core.Binding),
      (tfvClauses cs vs).length ≤ vs.length + fsClausesSize cs
    | .nil, vs => by simp [tfvClauses]
    | .cons _ ctx body rest, vs => by
      have h1 := tfvStmt_length body vs
      have h2 := foldl_setRemove_length ctx (tfvStmt body vs)
      have h3 := tfvClauses_length rest (ctx.foldl (fun acc b => setRemove b acc) (tfvStmt body vs))
      simp only [tfvClauses, fsClausesSize]; omega
  theorem tfvStmt_length : ∀ (s : Core.FsStmt) (vs : List Core.Binding),
      (tfvStmt s vs).length ≤ vs.length + fsStmtSize s
    | .cut _ p c, vs => by
      have h1 := tfvTerm_length p vs
      have h2 := tfvTerm_length c (tfvTerm p vs)
      simp only [tfvStmt, fsStmtSize]; omega
    | .ifc _ a none t e, vs => by
      have h0 := setInsert_length ⟨a, .prd, .i64⟩ vs
      have h1 := tfvStmt_length t (setInsert ⟨a, .prd, .i64⟩ vs)
      have h2 := tfvStmt_length e (tfvStmt t (setInsert ⟨a, .prd, .i64⟩ vs))
      simp only [tfvStmt, fsStmtSize]; omega
    | .ifc _ a (some b) t e, vs => by
      have h0 := setInsert_length ⟨a, .prd, .i64⟩ vs
      have h0' := setInsert_length ⟨b, .prd, .i64⟩ (setInsert ⟨a, .prd, .i64⟩ vs)
      have h1 := tfvStmt_length t (setInsert ⟨b, .prd, .i64⟩ (setInsert ⟨a, .prd, .i64⟩ vs))
      have h2 := tfvStmt_length e
        (tfvStmt t (setInsert ⟨b, .prd, .i64⟩ (setInsert ⟨a, .prd, .i64⟩ vs)))
      simp only [tfvStmt, fsStmtSize]; omega
    | .print _ a n, vs => by
      have h0 := setInsert_length ⟨a, .prd, .i64⟩ vs
      have h1 := tfvStmt_length n (setInsert ⟨a, .prd, .i64⟩ vs)
      simp only [tfvStmt, fsStmtSize]; omega
    | .call _ args, vs => by
      have := setExtend_length args vs
      simp only [tfvStmt, fsStmtSize]; omega
    | .exit a, vs => by
      have h0 := setInsert_length ⟨a, .prd, .i64⟩ vs
      simp only [tfvStmt, fsStmtSize]; omega
end

/-! ## declarations, fresh contexts -/

/-- the longest argument list of an xtor of the declarations -/
def declArity : List Core.TypeDecl → Nat
  | [] => 0
  | d :: ds => max (d.xtors.foldr (fun x acc => max x.args.length acc) 0) (declArity ds)

theorem xtor_arity_le {xs : List Core.XtorSig} {x : Core.XtorSig} (h : x ∈ xs) :
    x.args.length ≤ xs.foldr (fun x acc => max x.args.length acc) 0 := by
  induction xs with
  | nil => simp at h
  | cons y ys ih =>
    simp only [List.mem_cons] at h
    simp only [List.foldr_cons]
    rcases h with rfl | h
    · omega
    · have := ih h; omega

theorem lookup_arity {name : Core.Ident} : ∀ {types : List Core.TypeDecl} {d},
    lookupTypeDeclaration name types = .ok d → ∀ x ∈ d.xtors, x.args.length ≤ declArity types
  | [], d, h => by simp [lookupTypeDeclaration] at h
  | t :: ts, d, h => by
    intro x hx
    by_cases ht : (t.name == name) = true
    · simp [lookupTypeDeclaration, ht] at h
      subst h
      have := xtor_arity_le hx
      simp only [declArity]; omega
    · have : lookupTypeDeclaration name ts = .ok d := by
        simpa [lookupTypeDeclaration, List.find?_cons, ht] using h
      have := lookup_arity this x hx
      simp only [declArity]; omega

/-- the longest argument list of an xtor of the environment -/
def envArity (env : Env) : Nat := max (declArity env.data) (declArity env.codata)

theorem lookup_arity_env {env : Env} {name b d}
    (h : lookupTypeDeclaration name (if b = true then env.codata else env.data) = .ok d) :
    ∀ x ∈ d.xtors, x.args.length ≤ envArity env := by
  intro x hx
  have := lookup_arity h x hx
  unfold envArity
  split at this <;> omega

theorem freshenCtx_length : ∀ c st, (freshenCtx c st).1.length = c.length
  | [], st => by simp [freshenCtx]
  | b :: bs, st => by
    simp only [freshenCtx, freshIdentifier]
    have := freshenCtx_length bs { st with maxId := st.maxId + 1 }
    revert this
    generalize freshenCtx bs { st with maxId := st.maxId + 1 } = r
    obtain ⟨rest, st2⟩ := r
    simp

theorem liftFresh_length : ∀ l st, (liftFresh l st).1.1.length = l.length
  | [], st => by simp [liftFresh]
  | b :: bs, st => by
    simp only [liftFresh, freshIdentifier]
    have := liftFresh_length bs { st with maxId := st.maxId + 1 }
    revert this
    generalize liftFresh bs { st with maxId := st.maxId + 1 } = r
    obtain ⟨⟨ctx, sub⟩, st2⟩ := r
    simp

theorem shrinkContext_length (cod : List Core.TypeDecl) (c : Core.Ctx) :
    (shrinkContext cod c).length = c.length := by simp [shrinkContext]

theorem unknownClauses_width (env : Env) (v ty) (W : Nat) : ∀ xs st,
    (∀ x ∈ xs, x.args.length ≤ W) → listMaxC (unknownClauses env v ty xs st).1 ≤ W
  | [], st, _ => by simp [unknownClauses, listMaxC]
  | x :: xs, st, h => by
    simp only [unknownClauses]
    have h1 := freshenCtx_length (shrinkContext env.codata x.args) st
    revert h1
    generalize freshenCtx (shrinkContext env.codata x.args) st = r1
    obtain ⟨envC, st1⟩ := r1
    intro h1
    have h2 := unknownClauses_width env v ty W xs st1 (fun y hy => h y (by simp [hy]))
    revert h2
    generalize unknownClauses env v ty xs st1 = r2
    obtain ⟨rest, st2⟩ := r2
    intro h2
    have hx := h x (by simp)
    simp only [shrinkContext_length] at h1
    simp only [listMaxC, listMax] at h2 ⊢
    omega

theorem criticalClauses_width (env : Env) (v ty) (e : AxCut.Stmt) (W : Nat) (he : listMax e ≤ W) :
    ∀ xs st, (∀ x ∈ xs, x.args.length ≤ W) → listMaxC (criticalClauses env v ty e xs st).1 ≤ W
  | [], st, _ => by simp [criticalClauses, listMaxC]
  | x :: xs, st, h => by
    simp only [criticalClauses, freshIdentifier]
    have h1 := freshenCtx_length (shrinkContext env.codata x.args) st
    revert h1
    generalize freshenCtx (shrinkContext env.codata x.args) st = r1
    obtain ⟨envC, st1⟩ := r1
    intro h1
    have h2 := criticalClauses_width env v ty e W he xs { st1 with maxId := st1.maxId + 1 }
      (fun y hy => h y (by simp [hy]))
    revert h2
    generalize criticalClauses env v ty e xs { st1 with maxId := st1.maxId + 1 } = r2
    obtain ⟨rest, st2⟩ := r2
    intro h2
    have hx := h x (by simp)
    simp only [shrinkContext_length] at h1
    simp only [listMaxC, listMax, listMax_axSubst] at h2 ⊢
    omega

/-! ## the width invariant of shrinking -/

/-- the lifted definitions have short parameter lists and short lists in their bodies -/
def OKdefs (W : Nat) (l : List AxCut.Def) : Prop := ∀ d ∈ l, d.ctx.length ≤ W ∧ listMax d.body ≤ W

/-- what the recursive call guarantees, for statements of size at most `n` -/
def RecW (W n : Nat) (rec : Rec) : Prop :=
  ∀ s st r st', fsStmtSize s ≤ n → rec s st = .ok (r, st') → OKdefs W st.lifted →
    listMax r ≤ W ∧ OKdefs W st'.lifted

theorem findClause_size {x : Core.Ident} : ∀ {cs : Core.FsClauses} {ctx body},
    findClause x cs = some (ctx, body) → fsStmtSize body ≤ fsClausesSize cs
  | .nil, _, _, h => by simp [findClause] at h
  | .cons y c b r, ctx, body, h => by
    simp only [findClause] at h
    split at h
    · simp only [Option.some.injEq, Prod.mk.injEq] at h
      obtain ⟨_, rfl⟩ := h
      simp only [fsClausesSize]; omega
    · have := findClause_size h
      simp only [fsClausesSize]; omega

section inv
variable {env : Env} {rec : Rec} {W n : Nat} (hrec : RecW W n rec) (hn : n ≤ W)
  (hA : envArity env ≤ W) (h1 : 1 ≤ W)
include hrec hn hA h1

theorem shrinkClauses_w : ∀ cs st r st', fsClausesSize cs ≤ n →
    shrinkClauses env rec cs st = .ok (r, st') → OKdefs W st.lifted →
    listMaxC r ≤ W ∧ OKdefs W st'.lifted
  | .nil, st, r, st', _, h, hl => by
    simp [shrinkClauses] at h
    obtain ⟨rfl, rfl⟩ := h
    exact ⟨by simp [listMaxC], hl⟩
  | .cons x ctx body rest, st, r, st', hs, h, hl => by
    simp only [shrinkClauses] at h
    simp only [fsClausesSize] at hs
    split at h
    · cases h
    · rename_i b' st1 hb
      split at h
      · cases h
      · rename_i r' st2 hr
        simp at h
        obtain ⟨rfl, rfl⟩ := h
        obtain ⟨i1, hl1⟩ := hrec body st b' st1 (by omega) hb hl
        obtain ⟨i2, hl2⟩ := shrinkClauses_w rest st1 r' st2 (by omega) hr hl1
        exact ⟨by simp only [listMaxC, shrinkContext_length]; omega, hl2⟩

omit hrec in
theorem shrinkUnknownCuts_w (v1 v2 ty st r st') (h : shrinkUnknownCuts env v1 v2 ty st = .ok (r, st'))
    (hl : OKdefs W st.lifted) : listMax r ≤ W ∧ OKdefs W st'.lifted := by
  cases ty with
  | i64 =>
    simp [shrinkUnknownCuts] at h
    obtain ⟨rfl, rfl⟩ := h
    exact ⟨by simp [listMax]; omega, hl⟩
  | decl name =>
    simp only [shrinkUnknownCuts] at h
    split at h
    · cases h
    · rename_i d hd
      simp at h
      obtain ⟨rfl, rfl⟩ := h
      refine ⟨?_, ?_⟩
      · simp only [listMax]
        exact unknownClauses_width env _ _ W d.xtors st
          (fun x hx => Nat.le_trans (lookup_arity_env hd x hx) hA)
      · rw [(unknownClauses_spec env _ _ d.xtors st).1]
        exact hl

theorem shrinkKnownCuts_w (name args cs st r st') (hcs : fsClausesSize cs ≤ n)
    (h : shrinkKnownCuts rec name args cs st = .ok (r, st')) (hl : OKdefs W st.lifted) :
    listMax r ≤ W ∧ OKdefs W st'.lifted := by
  simp only [shrinkKnownCuts] at h
  split at h
  · cases h
  · next ctx body hf =>
    have := findClause_size hf
    exact hrec _ _ _ _ (by rw [fsStmtSize_subst]; omega) h hl

theorem lift_w (s st r st') (hs : fsStmtSize s ≤ n) (h : lift env rec s st = .ok (r, st'))
    (hl : OKdefs W st.lifted) : listMax r ≤ W ∧ OKdefs W st'.lifted := by
  obtain ⟨label, st2, st3, body, _, _, _, _, _, hl2, _, hb, rfl, rfl⟩ := lift_label h
  obtain ⟨i1, hl3⟩ := hrec _ _ body st3 (by rw [fsStmtSize_subst]; exact hs) hb (by rw [hl2]; exact hl)
  have ht := tfvStmt_length s []
  simp only [List.length_nil, Nat.zero_add] at ht
  refine ⟨by simp only [listMax, shrinkContext_length]; omega, ?_⟩
  intro d hd
  simp only [List.mem_cons] at hd
  rcases hd with rfl | hd
  · exact ⟨by simp only [shrinkContext_length, liftFresh_length]; omega, i1⟩
  · exact hl3 d hd

theorem criticalDecl_w (d name tt vK sK vE sE st r st') (hsK : fsStmtSize sK ≤ n)
    (hsE : fsStmtSize sE ≤ n) (hd : ∀ x ∈ d.xtors, x.args.length ≤ W)
    (h : criticalDecl env rec d name tt vK sK vE sE st = .ok (r, st')) (hl : OKdefs W st.lifted) :
    listMax r ≤ W ∧ OKdefs W st'.lifted := by
  simp only [criticalDecl] at h
  split at h
  · cases h
  · rename_i e st1 he
    split at h
    · cases h
    · rename_i k st3 hk
      simp at h
      obtain ⟨rfl, rfl⟩ := h
      have i1 : listMax e ≤ W ∧ OKdefs W st1.lifted := by
        split at he
        · exact hrec _ _ _ _ hsE he hl
        · exact lift_w hrec hn hA h1 _ _ _ _ hsE he hl
      have hcl := criticalClauses_width env vE tt e W i1.1 d.xtors st1 hd
      have hcl2 := (criticalClauses_spec env vE tt e d.xtors st1).1
      obtain ⟨i2, hl2⟩ := hrec sK _ k st3 hsK hk (by rw [hcl2]; exact i1.2)
      exact ⟨by simp only [listMax, Option.getD_none, List.length_nil]; omega, hl2⟩

theorem shrinkCriticalPairs_w (v1 s1 v2 s2 ty st r st') (hs1 : fsStmtSize s1 ≤ n)
    (hs2 : fsStmtSize s2 ≤ n)
    (h : shrinkCriticalPairs env rec v1 s1 v2 s2 ty st = .ok (r, st')) (hl : OKdefs W st.lifted) :
    listMax r ≤ W ∧ OKdefs W st'.lifted := by
  cases ty with
  | i64 =>
    simp only [shrinkCriticalPairs] at h
    split at h
    · cases h
    · rename_i b st1 hb
      split at h
      · cases h
      · rename_i c st2 hc
        simp at h
        obtain ⟨rfl, rfl⟩ := h
        obtain ⟨i1, hl1⟩ := hrec s2 st b st1 hs2 hb hl
        obtain ⟨i2, hl2⟩ := hrec s1 st1 c st2 hs1 hc hl1
        exact ⟨by simp only [listMax, listMaxC, Option.getD_none, List.length_nil, List.length_cons]; omega,
          hl2⟩
  | decl name =>
    simp only [shrinkCriticalPairs] at h
    split at h
    · cases h
    · rename_i d hd
      have hdx : ∀ x ∈ d.xtors, x.args.length ≤ W :=
        fun x hx => Nat.le_trans (lookup_arity_env hd x hx) hA
      split at h
      · exact criticalDecl_w hrec hn hA h1 _ _ _ _ _ _ _ _ _ _ hs2 hs1 hdx h hl
      · exact criticalDecl_w hrec hn hA h1 _ _ _ _ _ _ _ _ _ _ hs1 hs2 hdx h hl

/-- one call of `rec`, then a wrapper that keeps the width -/
theorem wrap_w {s : Core.FsStmt} {st : St} {f : AxCut.Stmt → AxCut.Stmt} {r st'}
    (hs : fsStmtSize s ≤ n) (hf : ∀ x, listMax x ≤ W → listMax (f x) ≤ W)
    (h : (match rec s st with
      | .error e => .error e
      | .ok (next, st1) => .ok (f next, st1)) = (.ok (r, st') : Except String (AxCut.Stmt × St)))
    (hl : OKdefs W st.lifted) : listMax r ≤ W ∧ OKdefs W st'.lifted := by
  split at h
  · cases h
  · rename_i next st1 hn'
    simp at h
    obtain ⟨rfl, rfl⟩ := h
    obtain ⟨i1, hl1⟩ := hrec _ _ _ _ hs hn' hl
    exact ⟨hf _ i1, hl1⟩

/-- `shrinkClauses`, then a wrapper -/
theorem wrapC_w {cs : Core.FsClauses} {st : St} {f : AxCut.Clauses → AxCut.Stmt} {r st'}
    (hs : fsClausesSize cs ≤ n) (hf : ∀ x, listMaxC x ≤ W → listMax (f x) ≤ W)
    (h : (match shrinkClauses env rec cs st with
      | .error e => .error e
      | .ok (cl, st1) => .ok (f cl, st1)) = (.ok (r, st') : Except String (AxCut.Stmt × St)))
    (hl : OKdefs W st.lifted) : listMax r ≤ W ∧ OKdefs W st'.lifted := by
  split at h
  · cases h
  · rename_i cl st1 hcl
    simp at h
    obtain ⟨rfl, rfl⟩ := h
    obtain ⟨i1, hl1⟩ := shrinkClauses_w hrec hn hA h1 _ _ _ _ hs hcl hl
    exact ⟨hf _ i1, hl1⟩

/-- `shrinkClauses`, then one call of `rec`, then a wrapper -/
theorem wrap2_w {cs : Core.FsClauses} {s : Core.FsStmt} {st : St}
    {f : AxCut.Clauses → AxCut.Stmt → AxCut.Stmt} {r st'}
    (hcs : fsClausesSize cs ≤ n) (hs : fsStmtSize s ≤ n)
    (hf : ∀ x y, listMaxC x ≤ W → listMax y ≤ W → listMax (f x y) ≤ W)
    (h : (match shrinkClauses env rec cs st with
      | .error e => .error e
      | .ok (cl, st1) =>
        match rec s st1 with
        | .error e => .error e
        | .ok (next, st2) => .ok (f cl next, st2)) = (.ok (r, st') : Except String (AxCut.Stmt × St)))
    (hl : OKdefs W st.lifted) : listMax r ≤ W ∧ OKdefs W st'.lifted := by
  split at h
  · cases h
  · rename_i cl st1 hcl
    split at h
    · cases h
    · rename_i nx st2 hnx
      simp at h
      obtain ⟨rfl, rfl⟩ := h
      obtain ⟨i1, hl1⟩ := shrinkClauses_w hrec hn hA h1 _ _ _ _ hcs hcl hl
      obtain ⟨i2, hl2⟩ := hrec _ _ _ _ hs hnx hl1
      exact ⟨hf _ _ i1 i2, hl2⟩

theorem shrinkCut_w (ty p c st r st') (hs : fsStmtSize (.cut ty p c) ≤ n)
    (h : shrinkCut env rec ty p c st = .ok (r, st')) (hl : OKdefs W st.lifted) :
    listMax r ≤ W ∧ OKdefs W st'.lifted := by
  unfold shrinkCut at h
  split at h
  all_goals (simp only [fsStmtSize, fsTermSize] at hs)
  all_goals first
    | exact hrec _ _ _ _ (by rw [fsStmtSize_subst]; omega) h hl
    | exact shrinkKnownCuts_w hrec hn hA h1 _ _ _ _ _ _ (by omega) h hl
    | exact shrinkUnknownCuts_w (env := env) hn hA h1 _ _ _ _ _ _ h hl
    | exact shrinkCriticalPairs_w hrec hn hA h1 _ _ _ _ _ _ _ _ (by omega) (by omega) h hl
    | exact wrap_w hrec hn hA h1 (by omega)
        (fun x hx => by simp only [listMax, shrinkContext_length]; omega) h hl
    | exact wrap2_w hrec hn hA h1 (by omega) (by omega)
        (fun x y hx hy => by simp only [listMax, Option.getD_none, List.length_nil]; omega) h hl
    | exact wrapC_w hrec hn hA h1 (by omega) (fun x hx => by simp only [listMax]; omega) h hl
    | (simp only [freshIdentifier, Except.ok.injEq, Prod.mk.injEq] at h
       obtain ⟨rfl, rfl⟩ := h
       exact ⟨by simp only [listMax, invokeRet, shrinkContext_length, List.length_cons,
         List.length_nil]; omega, hl⟩)
    | cases h

theorem shrinkStmtStep_w (s st r st') (hs : fsStmtSize s ≤ n)
    (h : shrinkStmtStep env rec s st = .ok (r, st')) (hl : OKdefs W st.lifted) :
    listMax r ≤ W ∧ OKdefs W st'.lifted := by
  cases s with
  | cut ty p c => exact shrinkCut_w hrec hn hA h1 ty p c st r st' hs h hl
  | ifc sort a b t e =>
    simp only [shrinkStmtStep] at h
    have hte : fsStmtSize t ≤ n ∧ fsStmtSize e ≤ n := by
      cases b <;> simp only [fsStmtSize] at hs <;> omega
    split at h
    · cases h
    · rename_i t' st1 ht
      split at h
      · cases h
      · rename_i e' st2 he
        simp at h
        obtain ⟨rfl, rfl⟩ := h
        obtain ⟨i1, hl1⟩ := hrec t st t' st1 hte.1 ht hl
        obtain ⟨i2, hl2⟩ := hrec e st1 e' st2 hte.2 he hl1
        exact ⟨by simp only [listMax]; omega, hl2⟩
  | print nl a nx =>
    simp only [shrinkStmtStep] at h
    simp only [fsStmtSize] at hs
    exact wrap_w hrec hn hA h1 (by omega) (fun x hx => by simp only [listMax]; omega) h hl
  | call f args =>
    simp [shrinkStmtStep] at h
    obtain ⟨rfl, rfl⟩ := h
    simp only [fsStmtSize] at hs
    exact ⟨by simp only [listMax, shrinkContext_length]; omega, hl⟩
  | exit a =>
    simp [shrinkStmtStep] at h
    obtain ⟨rfl, rfl⟩ := h
    exact ⟨by simp [listMax], hl⟩

end inv

theorem shrinkStmt_w (env : Env) (W n : Nat) (hn : n ≤ W) (hA : envArity env ≤ W) (h1 : 1 ≤ W) :
    ∀ fuel, RecW W n (shrinkStmt env fuel)
  | 0 => by
    intro s st r st' _ h
    simp [shrinkStmt] at h
  | fuel + 1 => by
    intro s st r st' hs h hl
    exact shrinkStmtStep_w (shrinkStmt_w env W n hn hA h1 fuel) hn hA h1 s st r st' hs h hl

/-! ## definitions and programs -/

theorem shrinkDef_w {d : Core.FsDef} {data codata : List Core.TypeDecl} {used : List Core.Ident}
    {m : Nat} {r : List AxCut.Def × List Core.Ident × Nat} (W : Nat)
    (hb : fsStmtSize d.body ≤ W) (hc : d.ctx.length ≤ W)
    (hA : max (declArity data) (declArity codata) ≤ W) (h1 : 1 ≤ W)
    (h : shrinkDef d data codata used m = .ok r) : OKdefs W r.1 := by
  unfold shrinkDef at h
  simp only at h
  split at h
  · cases h
  · rename_i body st hbody
    simp only [Except.ok.injEq] at h
    subst h
    obtain ⟨i1, hl1⟩ := shrinkStmt_w ⟨data, codata, d.name.name⟩ W W (Nat.le_refl _) hA h1 _ _ _ _ _ hb hbody
      (by intro d hd; simp at hd)
    intro x hx
    simp only [List.mem_cons] at hx
    rcases hx with rfl | hx
    · exact ⟨by simp only [shrinkContext_length]; exact hc, i1⟩
    · exact hl1 x hx

theorem shrinkDefs_w {data codata : List Core.TypeDecl} (W : Nat)
    (hA : max (declArity data) (declArity codata) ≤ W) (h1 : 1 ≤ W) :
    ∀ {defs : List Core.FsDef} {used : List Core.Ident} {m : Nat}
      {r : List AxCut.Def × List Core.Ident × Nat},
      (∀ d ∈ defs, fsStmtSize d.body ≤ W ∧ d.ctx.length ≤ W) →
      shrinkDefs data codata defs used m = .ok r → OKdefs W r.1
  | [], used, m, r, _, h => by
    simp [shrinkDefs] at h
    subst h
    intro d hd
    simp at hd
  | d :: ds, used, m, r, hds, h => by
    unfold shrinkDefs at h
    split at h
    · cases h
    · rename_i dd u1 m1 hd
      split at h
      · cases h
      · rename_i rest u2 m2 hr
        simp only [Except.ok.injEq] at h
        subst h
        have i1 := shrinkDef_w W (hds d (by simp)).1 (hds d (by simp)).2 hA h1 hd
        have i2 := shrinkDefs_w W hA h1 (fun x hx => hds x (by simp [hx])) hr
        intro x hx
        simp only [List.mem_append] at hx
        rcases hx with hx | hx
        · exact i1 x hx
        · exact i2 x hx

/-- the width of a focused program: its size, or the longest argument list of a declared xtor -/
def progWidth (p : Core.FsProg) : Nat :=
  max (fsProgSize p) (max (max (declArity (p.dataTypes ++ [contInt])) (declArity p.codataTypes)) 1)

theorem fsDefSize_le_of_mem : ∀ {ds : List Core.FsDef} {d}, d ∈ ds →
    fsDefSize d ≤ Core.SizeFocus.fsDefsSize ds
  | [], _, h => by simp at h
  | x :: xs, d, h => by
    simp only [List.mem_cons] at h
    simp only [Core.SizeFocus.fsDefsSize]
    rcases h with rfl | h
    · omega
    · have := fsDefSize_le_of_mem h; omega

/-- C19, the width of S4: every parameter list and every list carried by a statement of the output of
    shrinking is at most `progWidth` of the input long -/
theorem shrinkProg_width {p : Core.FsProg} {q : AxCut.Prog} (h : shrinkProg p = .ok q) :
    OKdefs (progWidth p) q.defs := by
  unfold shrinkProg at h
  split at h
  · cases h
  · split at h
    · cases h
    · simp only at h
      split at h
      · cases h
      · rename_i defs u m hd
        simp only [Except.ok.injEq] at h
        subst h
        refine shrinkDefs_w (progWidth p) (by unfold progWidth; omega) (by unfold progWidth; omega) ?_ hd
        intro d hd'
        have := fsDefSize_le_of_mem hd'
        unfold fsDefSize at this
        unfold progWidth fsProgSize
        constructor <;> omega

theorem size_le_defsNodes : ∀ {ds : List AxCut.Def} {d}, d ∈ ds → d.body.size ≤ defsNodes ds
  | [], _, h => by simp at h
  | x :: xs, d, h => by
    simp only [List.mem_cons] at h
    simp only [defsNodes]
    rcases h with rfl | h
    · omega
    · have := size_le_defsNodes h; omega

/-- the bound on the contexts of the linearization, from the width and the node count -/
theorem defsBound_le (W : Nat) : ∀ (ds : List AxCut.Def) (N : Nat), OKdefs W ds →
    (∀ d ∈ ds, d.body.size ≤ N) → defsBound ds ≤ 2 * (W + N * (W + 1)) + W + 1
  | [], N, _, _ => by simp [defsBound]
  | d :: ds, N, hok, hN => by
    have ih := defsBound_le W ds N (fun x hx => hok x (by simp [hx])) (fun x hx => hN x (by simp [hx]))
    obtain ⟨c1, c2⟩ := hok d (by simp)
    have b1 := binders_le W d.body c2
    have b2 := argsMax_le_listMax d.body
    have b3 : d.body.size * (W + 1) ≤ N * (W + 1) := Nat.mul_le_mul_right _ (hN d (by simp))
    simp only [defsBound, bd]
    omega

end Scc.Core2AxCut.SizeWidth
