/-
  Scc.Core2AxCut.TypedDefs — proof file for the typing part of C04 / C12 (shrinking preserves typing):
  ONE declarative typing judgment `TW` on non-linear AxCut that implies both target judgments of the link
  `C12_link_shrink`:
    * `TW … s Γ → NodupIds Γ → wtStmtB … Γ s = true`      (the checker of `Scc/AxCut/TypingNamed.lean`:
                                                           first-hit lookup, names compared), and
    * `TW … s Γ → (Γ, Γ' have the same members) → WT … s Γ'` (`Scc/AxCut/WfNonLinear.lean`: the precondition
                                                           of C05: fresh binders `≤ M`, no `subst`).
  `TW T S M s Γ`: Γ newest binding first (as in `wtStmtB`), a variable occurrence is well-typed if the
  occurrence itself (identifier with its NAME, kind, type) is a member of Γ; every binder is fresh for Γ
  and `≤ M`; clause parameters are pairwise distinct; no `subst`, no closure-environment annotation.
  Also: `TW` is closed under the id-substitution `axSubstStmt σ` together with weakening (`TW.subst`).
-/
import Scc.AxCut.WfNonLinear
import Scc.AxCut.TypingNamedProofs
import Scc.Core2AxCut.SemSubst

namespace Scc.Core2AxCut.Typed

open Scc Scc.AxCut Scc.Core2AxCut
open Scc.Core2AxCut.Sem (axBids axBidsC axIds)

/-- every argument occurrence is a binding of Γ (identifier, kind and type) -/
def ArgsMem (Γ args : AxCut.Ctx) : Prop := ∀ a ∈ args, a ∈ Γ

mutual
  /-- the typing judgment established for every output of `shrink` -/
  def TW (T : List TypeDecl) (S : Sigs) (M : Nat) : Stmt → AxCut.Ctx → Prop
    | .subst _ _, _ => False
    | .call l args, Γ =>
      ∃ params, AxCut.findSig S l = some params ∧ args.chiTys = params.chiTys ∧ ArgsMem Γ args
    | .letS x ty tag args next _, Γ =>
      (∃ sig, lookupXtor T ty tag = some sig ∧ args.chiTys = sig.chiTys) ∧ ArgsMem Γ args ∧
        FreshBinder M Γ x.id ∧ TW T S M next (⟨x, .prd, ty⟩ :: Γ)
    | .switch x ty cs _, Γ =>
      (⟨x, .prd, ty⟩ : Binding) ∈ Γ ∧
        (∃ d, lookupTypeDecl T ty = some d ∧ ClausesMatch d.xtors cs) ∧ TWC T S M cs Γ
    | .create x ty env cs next _ _, Γ =>
      env = none ∧ (∃ d, lookupTypeDecl T ty = some d ∧ ClausesMatch d.xtors cs) ∧ TWC T S M cs Γ ∧
        FreshBinder M Γ x.id ∧ TW T S M next (⟨x, .cns, ty⟩ :: Γ)
    | .invoke x tag ty args, Γ =>
      (⟨x, .cns, ty⟩ : Binding) ∈ Γ ∧
        (∃ sig, lookupXtor T ty tag = some sig ∧ args.chiTys = sig.chiTys) ∧ ArgsMem Γ args
    | .lit x _ next _, Γ => FreshBinder M Γ x.id ∧ TW T S M next (⟨x, .ext, .i64⟩ :: Γ)
    | .op x a _ b next _, Γ =>
      (⟨a, .ext, .i64⟩ : Binding) ∈ Γ ∧ (⟨b, .ext, .i64⟩ : Binding) ∈ Γ ∧ FreshBinder M Γ x.id ∧
        TW T S M next (⟨x, .ext, .i64⟩ :: Γ)
    | .print _ a next _, Γ => (⟨a, .ext, .i64⟩ : Binding) ∈ Γ ∧ TW T S M next Γ
    | .ifc _ a b t e, Γ =>
      (⟨a, .ext, .i64⟩ : Binding) ∈ Γ ∧ (∀ b', b = some b' → (⟨b', .ext, .i64⟩ : Binding) ∈ Γ) ∧
        TW T S M t Γ ∧ TW T S M e Γ
    | .exit x, Γ => (⟨x, .ext, .i64⟩ : Binding) ∈ Γ
  /-- clause bodies: under the (fresh, pairwise distinct) clause parameters in front of Γ -/
  def TWC (T : List TypeDecl) (S : Sigs) (M : Nat) : Clauses → AxCut.Ctx → Prop
    | .nil, _ => True
    | .cons _ ctx body rest, Γ =>
      NodupIds ctx ∧ (∀ i ∈ ctx.ids, FreshBinder M Γ i) ∧ TW T S M body (ctx ++ Γ) ∧ TWC T S M rest Γ
end

/-- a well-formed definition: duplicate-free parameters `≤ M`, body typed under them -/
def WfDef (T : List TypeDecl) (S : Sigs) (M : Nat) (d : Def) : Prop :=
  NodupIds d.ctx ∧ (∀ i ∈ d.ctx.ids, i ≤ M) ∧ TW T S M d.body d.ctx

/-! ## contexts without duplicate ids: membership = first-hit lookup -/

theorem mem_ids_of_mem {Γ : AxCut.Ctx} {b : Binding} (h : b ∈ Γ) : b.var.id ∈ Γ.ids :=
  List.mem_map.mpr ⟨b, h, rfl⟩

theorem lookupB_of_mem : ∀ {Γ : AxCut.Ctx} {b : Binding}, NodupIds Γ → b ∈ Γ →
    Named.lookupB Γ b.var.id = some b
  | [], _, _, h => by simp at h
  | c :: Γ, b, hnd, h => by
    simp only [NodupIds, Ctx.ids, List.map_cons, List.nodup_cons] at hnd
    simp only [Named.lookupB, List.find?_cons]
    rcases List.mem_cons.mp h with rfl | h'
    · simp
    · have hne : c.var.id ≠ b.var.id := fun e => hnd.1 (e ▸ List.mem_map.mpr ⟨b, h', rfl⟩)
      have : (c.var.id == b.var.id) = false := by simpa using hne
      simp only [this]
      exact lookupB_of_mem (Γ := Γ) hnd.2 h'

theorem occOk_of_mem {Γ : AxCut.Ctx} {b : Binding} (hnd : NodupIds Γ) (h : b ∈ Γ) : Named.occOk Γ b = true := by
  simp [Named.occOk, lookupB_of_mem hnd h]

theorem nodupIds_cons {Γ : AxCut.Ctx} {b : Binding} (hnd : NodupIds Γ) (h : b.var.id ∉ Γ.ids) :
    NodupIds (b :: Γ) := by
  simp only [NodupIds, Ctx.ids, List.map_cons, List.nodup_cons] at hnd ⊢
  exact ⟨h, hnd⟩

theorem ids_append (a b : AxCut.Ctx) : (a ++ b).ids = a.ids ++ b.ids := by simp [Ctx.ids]

theorem nodupIds_append {Δ Γ : AxCut.Ctx} (h1 : NodupIds Δ) (h2 : NodupIds Γ) (h : ∀ i ∈ Δ.ids, i ∉ Γ.ids) :
    NodupIds (Δ ++ Γ) := by
  simp only [NodupIds, ids_append, List.nodup_append]
  exact ⟨h1, h2, fun a ha b hb e => h a ha (e ▸ hb)⟩

theorem argsOk_of_mem {Γ : AxCut.Ctx} (hnd : NodupIds Γ) : ∀ {args sig : AxCut.Ctx}, ArgsMem Γ args →
    args.chiTys = sig.chiTys → Named.argsOk Γ args sig = true
  | [], [], _, _ => rfl
  | [], _ :: _, _, h => by simp [Ctx.chiTys] at h
  | _ :: _, [], _, h => by simp [Ctx.chiTys] at h
  | a :: as, s :: ss, hm, h => by
    simp only [Ctx.chiTys, List.map_cons, List.cons.injEq, Prod.mk.injEq] at h
    simp only [Named.argsOk, Bool.and_eq_true, beq_iff_eq]
    exact ⟨⟨⟨occOk_of_mem hnd (hm a (by simp)), h.1.1⟩, h.1.2⟩,
      argsOk_of_mem hnd (fun b hb => hm b (by simp [hb])) h.2⟩

theorem paramsOk_of_chiTys : ∀ {ps sig : AxCut.Ctx}, sig.chiTys = ps.chiTys → Named.paramsOk ps sig = true
  | [], [], _ => rfl
  | [], _ :: _, h => by simp [Ctx.chiTys] at h
  | _ :: _, [], h => by simp [Ctx.chiTys] at h
  | a :: as, s :: ss, h => by
    simp only [Ctx.chiTys, List.map_cons, List.cons.injEq, Prod.mk.injEq] at h
    simp only [Named.paramsOk, Bool.and_eq_true, beq_iff_eq]
    exact ⟨⟨h.1.1.symm, h.1.2.symm⟩, paramsOk_of_chiTys h.2⟩

theorem findDefSig_eq_findSig (S : Sigs) (l : Ident) : Named.findDefSig S l = AxCut.findSig S l := by
  simp only [Named.findDefSig, AxCut.findSig]
  cases S.find? (fun p => p.1 == l) <;> rfl

theorem lookupXtor_some {T : List TypeDecl} {ty : Ty} {tag : Ident} {sig : AxCut.Ctx}
    (h : lookupXtor T ty tag = some sig) :
    ∃ d x, lookupTypeDecl T ty = some d ∧ Named.findXtor d tag = some x ∧ x.args = sig := by
  simp only [lookupXtor] at h
  split at h
  · cases h
  · rename_i d hd
    split at h
    · cases h
    · rename_i x hx
      simp only [Option.some.injEq] at h
      exact ⟨d, x, hd, hx, h⟩

/-! ## `TW` implies the checker of `TypingNamed` -/

mutual
  theorem TW.wtStmtB {T : List TypeDecl} {S : Sigs} {M : Nat} : ∀ (s : Stmt) (Γ : AxCut.Ctx),
      TW T S M s Γ → NodupIds Γ → Named.wtStmtB T S Γ s = true
    | .subst _ _, _, h, _ => by simp [TW] at h
    | .call l args, Γ, h, hnd => by
      simp only [TW] at h
      obtain ⟨params, h1, h2, h3⟩ := h
      simp only [Named.wtStmtB, findDefSig_eq_findSig, h1]
      exact argsOk_of_mem hnd h3 h2
    | .letS x ty tag args next _, Γ, h, hnd => by
      simp only [TW] at h
      obtain ⟨⟨sig, h1, h2⟩, h3, h4, h5⟩ := h
      obtain ⟨d, x', hd, hx, rfl⟩ := lookupXtor_some h1
      simp only [Named.wtStmtB, hd, hx, Bool.and_eq_true]
      exact ⟨argsOk_of_mem hnd h3 h2, TW.wtStmtB next _ h5 (nodupIds_cons hnd h4.1)⟩
    | .switch x ty cs _, Γ, h, hnd => by
      simp only [TW] at h
      obtain ⟨h1, ⟨d, hd, hm⟩, h3⟩ := h
      simp only [Named.wtStmtB, hd, Bool.and_eq_true]
      exact ⟨occOk_of_mem hnd h1, TWC.wtClausesB cs Γ d.xtors h3 hm hnd⟩
    | .create x ty env cs next _ _, Γ, h, hnd => by
      simp only [TW] at h
      obtain ⟨rfl, ⟨d, hd, hm⟩, h3, h4, h5⟩ := h
      simp only [Named.wtStmtB, hd, Bool.and_eq_true]
      exact ⟨TWC.wtClausesB cs Γ d.xtors h3 hm hnd, TW.wtStmtB next _ h5 (nodupIds_cons hnd h4.1)⟩
    | .invoke x tag ty args, Γ, h, hnd => by
      simp only [TW] at h
      obtain ⟨h0, ⟨sig, h1, h2⟩, h3⟩ := h
      obtain ⟨d, x', hd, hx, rfl⟩ := lookupXtor_some h1
      simp only [Named.wtStmtB, hd, hx, Bool.and_eq_true]
      exact ⟨occOk_of_mem hnd h0, argsOk_of_mem hnd h3 h2⟩
    | .lit x _ next _, Γ, h, hnd => by
      simp only [TW] at h
      simp only [Named.wtStmtB]
      exact TW.wtStmtB next _ h.2 (nodupIds_cons hnd h.1.1)
    | .op x a _ b next _, Γ, h, hnd => by
      simp only [TW] at h
      obtain ⟨h1, h2, h3, h4⟩ := h
      simp only [Named.wtStmtB, Named.intOk, Bool.and_eq_true]
      exact ⟨⟨occOk_of_mem hnd h1, occOk_of_mem hnd h2⟩, TW.wtStmtB next _ h4 (nodupIds_cons hnd h3.1)⟩
    | .print _ a next _, Γ, h, hnd => by
      simp only [TW] at h
      simp only [Named.wtStmtB, Named.intOk, Bool.and_eq_true]
      exact ⟨occOk_of_mem hnd h.1, TW.wtStmtB next _ h.2 hnd⟩
    | .ifc _ a b t e, Γ, h, hnd => by
      simp only [TW] at h
      obtain ⟨h1, h2, h3, h4⟩ := h
      simp only [Named.wtStmtB, Named.intOk, Bool.and_eq_true]
      refine ⟨⟨⟨occOk_of_mem hnd h1, ?_⟩, TW.wtStmtB t _ h3 hnd⟩, TW.wtStmtB e _ h4 hnd⟩
      cases b with
      | none => rfl
      | some b' => exact occOk_of_mem hnd (h2 b' rfl)
    | .exit x, Γ, h, hnd => by
      simp only [TW] at h
      simp only [Named.wtStmtB, Named.intOk]
      exact occOk_of_mem hnd h
  theorem TWC.wtClausesB {T : List TypeDecl} {S : Sigs} {M : Nat} : ∀ (cs : Clauses) (Γ : AxCut.Ctx)
      (xs : List XtorSig), TWC T S M cs Γ → ClausesMatch xs cs → NodupIds Γ →
      Named.wtClausesB T S Γ xs cs = true
    | .nil, _, [], _, _, _ => by simp [Named.wtClausesB]
    | .nil, _, _ :: _, _, hm, _ => by simp [ClausesMatch] at hm
    | .cons _ _ _ _, _, [], _, hm, _ => by simp [ClausesMatch] at hm
    | .cons tag ctx body rest, Γ, x :: xs, h, hm, hnd => by
      simp only [TWC] at h
      obtain ⟨h1, h2, h3, h4⟩ := h
      simp only [ClausesMatch] at hm
      obtain ⟨m1, m2, m3⟩ := hm
      simp only [Named.wtClausesB, Bool.and_eq_true, beq_iff_eq]
      exact ⟨⟨⟨m1.symm, paramsOk_of_chiTys m2⟩,
        TW.wtStmtB body _ h3 (nodupIds_append h1 hnd (fun i hi => (h2 i hi).1))⟩,
        TWC.wtClausesB rest Γ xs h4 m3 hnd⟩
end

/-! ## `TW` implies the precondition of C05 -/

/-- the two contexts have the same bindings -/
def SameMem (Γ Γ' : AxCut.Ctx) : Prop := ∀ b, b ∈ Γ ↔ b ∈ Γ'

theorem SameMem.ids {Γ Γ' : AxCut.Ctx} (h : SameMem Γ Γ') (i : Nat) : i ∈ Γ.ids ↔ i ∈ Γ'.ids := by
  simp only [Ctx.ids, List.mem_map]
  constructor
  · rintro ⟨b, hb, rfl⟩; exact ⟨b, (h b).mp hb, rfl⟩
  · rintro ⟨b, hb, rfl⟩; exact ⟨b, (h b).mpr hb, rfl⟩

theorem SameMem.cons {Γ Γ' : AxCut.Ctx} (h : SameMem Γ Γ') (b : Binding) : SameMem (b :: Γ) (Γ' ++ [b]) := by
  intro c
  simp only [List.mem_cons, List.mem_append, List.not_mem_nil, or_false]
  rw [h c]
  exact Or.comm

theorem SameMem.append {Γ Γ' : AxCut.Ctx} (h : SameMem Γ Γ') (Δ : AxCut.Ctx) : SameMem (Δ ++ Γ) (Γ' ++ Δ) := by
  intro c
  simp only [List.mem_append]
  rw [h c]
  exact Or.comm

theorem SameMem.hasVar {Γ Γ' : AxCut.Ctx} (h : SameMem Γ Γ') {b : Binding} (hb : b ∈ Γ) :
    HasVar Γ' b.var.id b.chi b.ty := ⟨b, (h b).mp hb, rfl, rfl, rfl⟩

theorem SameMem.fresh {Γ Γ' : AxCut.Ctx} (h : SameMem Γ Γ') {M i : Nat} (hf : FreshBinder M Γ i) :
    FreshBinder M Γ' i := ⟨fun hc => hf.1 ((h.ids i).mpr hc), hf.2⟩

theorem SameMem.argsIn {Γ Γ' args : AxCut.Ctx} (h : SameMem Γ Γ') (hm : ArgsMem Γ args) : ArgsIn Γ' args :=
  fun a ha => h.hasVar (hm a ha)

mutual
  theorem TW.toWT {T : List TypeDecl} {S : Sigs} {M : Nat} : ∀ (s : Stmt) (Γ Γ' : AxCut.Ctx),
      TW T S M s Γ → SameMem Γ Γ' → WT T S M s Γ'
    | .subst _ _, _, _, h, _ => by simp [TW] at h
    | .call l args, Γ, Γ', h, hs => by
      simp only [TW] at h
      obtain ⟨params, h1, h2, h3⟩ := h
      simp only [WT]
      exact ⟨params, h1, h2, hs.argsIn h3⟩
    | .letS x ty tag args next _, Γ, Γ', h, hs => by
      simp only [TW] at h
      obtain ⟨h1, h3, h4, h5⟩ := h
      simp only [WT]
      exact ⟨h1, hs.argsIn h3, hs.fresh h4, TW.toWT next _ _ h5 (hs.cons _)⟩
    | .switch x ty cs _, Γ, Γ', h, hs => by
      simp only [TW] at h
      obtain ⟨h1, h2, h3⟩ := h
      simp only [WT]
      exact ⟨hs.hasVar h1, h2, TWC.toWT cs _ _ h3 hs⟩
    | .create x ty env cs next _ _, Γ, Γ', h, hs => by
      simp only [TW] at h
      obtain ⟨_, h2, h3, h4, h5⟩ := h
      simp only [WT]
      exact ⟨h2, TWC.toWT cs _ _ h3 hs, hs.fresh h4, TW.toWT next _ _ h5 (hs.cons _)⟩
    | .invoke x tag ty args, Γ, Γ', h, hs => by
      simp only [TW] at h
      obtain ⟨h0, h1, h3⟩ := h
      simp only [WT]
      exact ⟨hs.hasVar h0, h1, hs.argsIn h3⟩
    | .lit x _ next _, Γ, Γ', h, hs => by
      simp only [TW] at h
      simp only [WT]
      exact ⟨hs.fresh h.1, TW.toWT next _ _ h.2 (hs.cons _)⟩
    | .op x a _ b next _, Γ, Γ', h, hs => by
      simp only [TW] at h
      obtain ⟨h1, h2, h3, h4⟩ := h
      simp only [WT]
      exact ⟨hs.hasVar h1, hs.hasVar h2, hs.fresh h3, TW.toWT next _ _ h4 (hs.cons _)⟩
    | .print _ a next _, Γ, Γ', h, hs => by
      simp only [TW] at h
      simp only [WT]
      exact ⟨hs.hasVar h.1, TW.toWT next _ _ h.2 hs⟩
    | .ifc _ a b t e, Γ, Γ', h, hs => by
      simp only [TW] at h
      obtain ⟨h1, h2, h3, h4⟩ := h
      simp only [WT]
      exact ⟨hs.hasVar h1, fun b' hb => hs.hasVar (h2 b' hb), TW.toWT t _ _ h3 hs, TW.toWT e _ _ h4 hs⟩
    | .exit x, Γ, Γ', h, hs => by
      simp only [TW] at h
      simp only [WT]
      exact hs.hasVar h
  theorem TWC.toWT {T : List TypeDecl} {S : Sigs} {M : Nat} : ∀ (cs : Clauses) (Γ Γ' : AxCut.Ctx),
      TWC T S M cs Γ → SameMem Γ Γ' → WTClauses T S M cs Γ'
    | .nil, _, _, _, _ => by simp [WTClauses]
    | .cons tag ctx body rest, Γ, Γ', h, hs => by
      simp only [TWC] at h
      obtain ⟨h1, h2, h3, h4⟩ := h
      simp only [WTClauses]
      exact ⟨h1, fun i hi => hs.fresh (h2 i hi), TW.toWT body _ _ h3 (hs.append ctx), TWC.toWT rest _ _ h4 hs⟩
end

theorem SameMem.refl (Γ : AxCut.Ctx) : SameMem Γ Γ := fun _ => Iff.rfl

/-! ## binders are fresh for the context -/

mutual
  theorem TW.bids_fresh {T : List TypeDecl} {S : Sigs} {M : Nat} : ∀ (s : Stmt) (Γ : AxCut.Ctx),
      TW T S M s Γ → ∀ i ∈ axBids s, i ∉ Γ.ids
    | .subst _ _, _, h => by simp [TW] at h
    | .call _ _, _, _ => by simp [axBids]
    | .letS x ty tag args next _, Γ, h => by
      simp only [TW] at h
      intro i hi
      simp only [axBids, List.mem_cons] at hi
      rcases hi with rfl | hi
      · exact h.2.2.1.1
      · have := TW.bids_fresh next _ h.2.2.2 i hi
        exact fun hc => this (by simp [Ctx.ids] at hc ⊢; exact .inr hc)
    | .switch x ty cs _, Γ, h => by
      simp only [TW] at h
      intro i hi
      simp only [axBids] at hi
      exact TWC.bids_fresh cs Γ h.2.2 i hi
    | .create x ty env cs next _ _, Γ, h => by
      simp only [TW] at h
      intro i hi
      simp only [axBids, List.mem_cons, List.mem_append] at hi
      rcases hi with rfl | hi | hi
      · exact h.2.2.2.1.1
      · exact TWC.bids_fresh cs Γ h.2.2.1 i hi
      · have := TW.bids_fresh next _ h.2.2.2.2 i hi
        exact fun hc => this (by simp [Ctx.ids] at hc ⊢; exact .inr hc)
    | .invoke _ _ _ _, _, _ => by simp [axBids]
    | .lit x _ next _, Γ, h => by
      simp only [TW] at h
      intro i hi
      simp only [axBids, List.mem_cons] at hi
      rcases hi with rfl | hi
      · exact h.1.1
      · have := TW.bids_fresh next _ h.2 i hi
        exact fun hc => this (by simp [Ctx.ids] at hc ⊢; exact .inr hc)
    | .op x a _ b next _, Γ, h => by
      simp only [TW] at h
      intro i hi
      simp only [axBids, List.mem_cons] at hi
      rcases hi with rfl | hi
      · exact h.2.2.1.1
      · have := TW.bids_fresh next _ h.2.2.2 i hi
        exact fun hc => this (by simp [Ctx.ids] at hc ⊢; exact .inr hc)
    | .print _ a next _, Γ, h => by
      simp only [TW] at h
      intro i hi
      simp only [axBids] at hi
      exact TW.bids_fresh next _ h.2 i hi
    | .ifc _ a b t e, Γ, h => by
      simp only [TW] at h
      intro i hi
      simp only [axBids, List.mem_append] at hi
      rcases hi with hi | hi
      · exact TW.bids_fresh t _ h.2.2.1 i hi
      · exact TW.bids_fresh e _ h.2.2.2 i hi
    | .exit _, _, _ => by simp [axBids]
  theorem TWC.bids_fresh {T : List TypeDecl} {S : Sigs} {M : Nat} : ∀ (cs : Clauses) (Γ : AxCut.Ctx),
      TWC T S M cs Γ → ∀ i ∈ axBidsC cs, i ∉ Γ.ids
    | .nil, _, _ => by simp [axBidsC]
    | .cons tag ctx body rest, Γ, h => by
      simp only [TWC] at h
      obtain ⟨_, h2, h3, h4⟩ := h
      intro i hi
      simp only [axBidsC, List.mem_append] at hi
      rcases hi with hi | hi | hi
      · exact (h2 i (by simpa [axIds, Ctx.ids] using hi)).1
      · have := TW.bids_fresh body _ h3 i hi
        exact fun hc => this (by rw [ids_append]; exact List.mem_append_right _ hc)
      · exact TWC.bids_fresh rest Γ h4 i hi
end

/-! ## id-substitution (with weakening) -/

theorem axSubstIdent_of_not_dom {σ : List (Nat × Ident)} {v : Ident} (h : ∀ p ∈ σ, p.1 ≠ v.id) :
    axSubstIdent σ v = v := by
  simp only [axSubstIdent]
  have : σ.find? (fun p => p.1 == v.id) = none := by
    rw [List.find?_eq_none]
    intro p hp
    simpa using h p hp
  rw [this]

theorem axSubstBinding_of_not_dom {σ : List (Nat × Ident)} {b : Binding} (h : ∀ p ∈ σ, p.1 ≠ b.var.id) :
    axSubstBinding σ b = b := by
  simp only [axSubstBinding, axSubstIdent_of_not_dom h]

theorem chiTys_axSubstCtx (σ : List (Nat × Ident)) (c : AxCut.Ctx) : (axSubstCtx σ c).chiTys = c.chiTys := by
  simp [axSubstCtx, Ctx.chiTys, axSubstBinding, List.map_map, Function.comp_def]

theorem argsMem_axSubst {σ : List (Nat × Ident)} {Γ Γ' args : AxCut.Ctx} (hm : ArgsMem Γ args)
    (h : ∀ b ∈ Γ, axSubstBinding σ b ∈ Γ') : ArgsMem Γ' (axSubstCtx σ args) := by
  intro a ha
  simp only [axSubstCtx, List.mem_map] at ha
  obtain ⟨b, hb, rfl⟩ := ha
  exact h b (hm b hb)

theorem clausesMatch_axSubst (σ : List (Nat × Ident)) : ∀ (xs : List XtorSig) (cs : Clauses),
    ClausesMatch xs cs → ClausesMatch xs (axSubstClauses σ cs)
  | [], .nil, _ => by simp [axSubstClauses, ClausesMatch]
  | [], .cons _ _ _ _, h => by simp [ClausesMatch] at h
  | _ :: _, .nil, h => by simp [ClausesMatch] at h
  | x :: xs, .cons n ctx b r, h => by
    simp only [ClausesMatch] at h
    simp only [axSubstClauses, ClausesMatch]
    exact ⟨h.1, h.2.1, clausesMatch_axSubst σ xs r h.2.2⟩

/-- hypotheses of the substitution lemma under one more binder -/
theorem subst_cons_hyps {σ : List (Nat × Ident)} {Γ Γ' : AxCut.Ctx} {b0 : Binding} {L : List Nat}
    (h1 : ∀ b ∈ Γ, axSubstBinding σ b ∈ Γ') (hdom : ∀ p ∈ σ, p.1 ≠ b0.var.id)
    (h2 : ∀ i ∈ L, i ∉ Γ'.ids) (hf : ∀ i ∈ L, i ∉ Ctx.ids (b0 :: Γ)) :
    (∀ b ∈ b0 :: Γ, axSubstBinding σ b ∈ b0 :: Γ') ∧ (∀ i ∈ L, i ∉ Ctx.ids (b0 :: Γ')) := by
  constructor
  · intro b hb
    rcases List.mem_cons.mp hb with rfl | hb
    · rw [axSubstBinding_of_not_dom hdom]; exact List.mem_cons_self
    · exact List.mem_cons_of_mem _ (h1 b hb)
  · intro i hi hc
    simp only [Ctx.ids, List.map_cons, List.mem_cons] at hc
    rcases hc with rfl | hc
    · exact hf _ hi (by simp [Ctx.ids])
    · exact h2 i hi hc

mutual
  /-- `TW` is closed under the id-substitution of AxCut statements, and under weakening: the images of
      the bindings of Γ are in Γ', no binder of the statement is in Γ' or in the domain of `σ` -/
  theorem TW.subst {T : List TypeDecl} {S : Sigs} {M : Nat} (σ : List (Nat × Ident)) :
      ∀ (s : Stmt) (Γ Γ' : AxCut.Ctx), TW T S M s Γ → (∀ b ∈ Γ, axSubstBinding σ b ∈ Γ') →
      (∀ i ∈ axBids s, i ∉ Γ'.ids) → (∀ i ∈ axBids s, ∀ p ∈ σ, p.1 ≠ i) →
      TW T S M (axSubstStmt σ s) Γ'
    | .subst _ _, _, _, h, _, _, _ => by simp [TW] at h
    | .call l args, Γ, Γ', h, h1, _, _ => by
      simp only [TW] at h
      obtain ⟨params, e1, e2, e3⟩ := h
      simp only [axSubstStmt, TW]
      exact ⟨params, e1, by rw [chiTys_axSubstCtx]; exact e2, argsMem_axSubst e3 h1⟩
    | .letS x ty tag args next _, Γ, Γ', h, h1, h2, h3 => by
      simp only [TW] at h
      obtain ⟨⟨sig, e1, e2⟩, e3, e4, e5⟩ := h
      simp only [axBids, List.mem_cons, forall_eq_or_imp] at h2 h3
      obtain ⟨c1, c2⟩ := subst_cons_hyps (b0 := ⟨x, .prd, ty⟩) h1 h3.1 h2.2 (TW.bids_fresh next _ e5)
      simp only [axSubstStmt, TW]
      exact ⟨⟨sig, e1, by rw [chiTys_axSubstCtx]; exact e2⟩, argsMem_axSubst e3 h1, ⟨h2.1, e4.2⟩,
        TW.subst σ next _ _ e5 c1 c2 h3.2⟩
    | .switch x ty cs _, Γ, Γ', h, h1, h2, h3 => by
      simp only [TW] at h
      obtain ⟨e1, ⟨d, e2, e3⟩, e4⟩ := h
      simp only [axBids] at h2 h3
      simp only [axSubstStmt, TW]
      exact ⟨h1 _ e1, ⟨d, e2, clausesMatch_axSubst σ _ _ e3⟩, TWC.subst σ cs _ _ e4 h1 h2 h3⟩
    | .create x ty env cs next _ _, Γ, Γ', h, h1, h2, h3 => by
      simp only [TW] at h
      obtain ⟨rfl, ⟨d, e2, e3⟩, e4, e5, e6⟩ := h
      simp only [axBids, List.mem_cons, List.mem_append, forall_eq_or_imp] at h2 h3
      obtain ⟨c1, c2⟩ := subst_cons_hyps (b0 := ⟨x, .cns, ty⟩) h1 h3.1 (fun i hi => h2.2 i (.inr hi))
        (TW.bids_fresh next _ e6)
      simp only [axSubstStmt, TW, Option.map_none]
      exact ⟨trivial, ⟨d, e2, clausesMatch_axSubst σ _ _ e3⟩,
        TWC.subst σ cs _ _ e4 h1 (fun i hi => h2.2 i (.inl hi)) (fun i hi => h3.2 i (.inl hi)),
        ⟨h2.1, e5.2⟩, TW.subst σ next _ _ e6 c1 c2 (fun i hi => h3.2 i (.inr hi))⟩
    | .invoke x tag ty args, Γ, Γ', h, h1, _, _ => by
      simp only [TW] at h
      obtain ⟨e0, ⟨sig, e1, e2⟩, e3⟩ := h
      simp only [axSubstStmt, TW]
      exact ⟨h1 _ e0, ⟨sig, e1, by rw [chiTys_axSubstCtx]; exact e2⟩, argsMem_axSubst e3 h1⟩
    | .lit x _ next _, Γ, Γ', h, h1, h2, h3 => by
      simp only [TW] at h
      simp only [axBids, List.mem_cons, forall_eq_or_imp] at h2 h3
      obtain ⟨c1, c2⟩ := subst_cons_hyps (b0 := ⟨x, .ext, .i64⟩) h1 h3.1 h2.2 (TW.bids_fresh next _ h.2)
      simp only [axSubstStmt, TW]
      exact ⟨⟨h2.1, h.1.2⟩, TW.subst σ next _ _ h.2 c1 c2 h3.2⟩
    | .op x a _ b next _, Γ, Γ', h, h1, h2, h3 => by
      simp only [TW] at h
      obtain ⟨e1, e2, e3, e4⟩ := h
      simp only [axBids, List.mem_cons, forall_eq_or_imp] at h2 h3
      obtain ⟨c1, c2⟩ := subst_cons_hyps (b0 := ⟨x, .ext, .i64⟩) h1 h3.1 h2.2 (TW.bids_fresh next _ e4)
      simp only [axSubstStmt, TW]
      exact ⟨h1 _ e1, h1 _ e2, ⟨h2.1, e3.2⟩, TW.subst σ next _ _ e4 c1 c2 h3.2⟩
    | .print _ a next _, Γ, Γ', h, h1, h2, h3 => by
      simp only [TW] at h
      simp only [axBids] at h2 h3
      simp only [axSubstStmt, TW]
      exact ⟨h1 _ h.1, TW.subst σ next _ _ h.2 h1 h2 h3⟩
    | .ifc _ a b t e, Γ, Γ', h, h1, h2, h3 => by
      simp only [TW] at h
      obtain ⟨e1, e2, e3, e4⟩ := h
      simp only [axBids, List.mem_append] at h2 h3
      simp only [axSubstStmt, TW]
      refine ⟨h1 _ e1, ?_, TW.subst σ t _ _ e3 h1 (fun i hi => h2 i (.inl hi)) (fun i hi => h3 i (.inl hi)),
        TW.subst σ e _ _ e4 h1 (fun i hi => h2 i (.inr hi)) (fun i hi => h3 i (.inr hi))⟩
      intro b' hb'
      cases b with
      | none => simp at hb'
      | some b0 =>
        simp only [Option.map_some, Option.some.injEq] at hb'
        subst hb'
        exact h1 _ (e2 b0 rfl)
    | .exit x, Γ, Γ', h, h1, _, _ => by
      simp only [TW] at h
      simp only [axSubstStmt, TW]
      exact h1 _ h
  theorem TWC.subst {T : List TypeDecl} {S : Sigs} {M : Nat} (σ : List (Nat × Ident)) :
      ∀ (cs : Clauses) (Γ Γ' : AxCut.Ctx), TWC T S M cs Γ → (∀ b ∈ Γ, axSubstBinding σ b ∈ Γ') →
      (∀ i ∈ axBidsC cs, i ∉ Γ'.ids) → (∀ i ∈ axBidsC cs, ∀ p ∈ σ, p.1 ≠ i) →
      TWC T S M (axSubstClauses σ cs) Γ'
    | .nil, _, _, _, _, _, _ => by simp [axSubstClauses, TWC]
    | .cons tag ctx body rest, Γ, Γ', h, h1, h2, h3 => by
      simp only [TWC] at h
      obtain ⟨e1, e2, e3, e4⟩ := h
      simp only [axBidsC, List.mem_append] at h2 h3
      have hctx : ∀ i ∈ ctx.ids, i ∈ axIds ctx := fun i hi => by simpa [axIds, Ctx.ids] using hi
      simp only [axSubstClauses, TWC]
      refine ⟨e1, fun i hi => ⟨h2 i (.inl (hctx i hi)), (e2 i hi).2⟩, ?_,
        TWC.subst σ rest _ _ e4 h1 (fun i hi => h2 i (.inr (.inr hi))) (fun i hi => h3 i (.inr (.inr hi)))⟩
      refine TW.subst σ body _ _ e3 ?_ ?_ (fun i hi => h3 i (.inr (.inl hi)))
      · intro b hb
        rcases List.mem_append.mp hb with hb | hb
        · rw [axSubstBinding_of_not_dom (fun p hp => h3 _ (.inl (hctx _ (mem_ids_of_mem hb))) p hp)]
          exact List.mem_append_left _ hb
        · exact List.mem_append_right _ (h1 b hb)
      · intro i hi hc
        rw [ids_append] at hc
        rcases List.mem_append.mp hc with hc | hc
        · exact TW.bids_fresh body _ e3 i hi (by rw [ids_append]; exact List.mem_append_left _ hc)
        · exact h2 i (.inr (.inl hi)) hc
end

end Scc.Core2AxCut.Typed
