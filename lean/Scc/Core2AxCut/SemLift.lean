/-
  Scc.Core2AxCut.SemLift — proof file for the semantic part of C04: `lift` (cut.rs: fn lift) preserves
  the translation invariant.  The lifted statement is called with its free variables; the new definition
  takes fresh parameters in the same order and its body translates the same statement under the
  renaming of the free variables to the parameters (rule `Tr.lifted`).
-/
import Scc.Core2AxCut.SemTr
import Scc.Core2AxCut.SemFv
import Scc.Core2AxCut.FreeVars

namespace Scc.Core2AxCut.Sem

open Scc Scc.Core2AxCut
open Scc.AxCut.Named (Value lookup lookupAll bindParams findDef State step)

local notation "sid" => shrinkIdentifier

/-! ## helpers -/

theorem occFs_filter {Γ : Core.Ctx} {b : Core.Binding} (keep : Core.Binding → Bool) (h : occFs Γ b = true)
    (hk : keep b = true) : occFs (Γ.filter keep) b = true := by
  induction Γ with
  | nil => simp [occFs, lookupFs] at h
  | cons c Γ ih =>
    rcases occFs_cons h with rfl | ⟨hne, h'⟩
    · simp only [List.filter_cons, hk, if_true]
      exact occFs_cons_self _ _
    · by_cases hc : keep c = true
      · simp only [List.filter_cons, hc, if_true]
        exact occFs_cons_of_ne hne (ih h')
      · simp only [List.filter_cons, hc]
        exact ih h'

theorem occFs_mem' {Γ : Core.Ctx} {b : Core.Binding} (h : occFs Γ b = true) : b ∈ Γ := by
  simp only [occFs, lookupFs] at h
  exact List.mem_of_find?_eq_some (eq_of_beq h)

theorem nodup_of_map {α β : Type} (g : α → β) : ∀ (l : List α), (l.map g).Nodup → l.Nodup
  | [], _ => List.nodup_nil
  | a :: l, h => by
    simp only [List.map_cons, List.nodup_cons] at h ⊢
    exact ⟨fun hm => h.1 (List.mem_map.mpr ⟨a, hm, rfl⟩), nodup_of_map g l h.2⟩

theorem liftParams_ids_le : ∀ (m : Nat) (bs : List Core.Binding),
    ∀ i ∈ (liftParams m bs).map (·.var.id), m < i ∧ i ≤ m + bs.length
  | m, [] => by simp [liftParams]
  | m, b :: bs => by
    intro i hi
    simp only [liftParams, List.map_cons, List.mem_cons] at hi
    rcases hi with rfl | hi
    · simp only [List.length_cons]; omega
    · have := liftParams_ids_le (m + 1) bs i hi
      simp only [List.length_cons]; omega

/-- looking up an identifier in a zipped substitution: position in the domain = position in the range -/
theorem substIdent_zip : ∀ (ids : List Nat) (vars : List Core.Ident) (v : Core.Ident),
    ids.length = vars.length → v.id ∈ ids →
    ∃ i : Nat, ids[i]? = some v.id ∧ vars[i]? = some (substIdent (ids.zip vars) v)
  | [], _, _, _, h => by simp at h
  | _ :: _, [], _, h, _ => by simp at h
  | j :: ids, w :: vars, v, hl, hm => by
    by_cases hj : j = v.id
    · refine ⟨0, by simp [hj], ?_⟩
      simp [substIdent, hj]
    · have hm' : v.id ∈ ids := by
        rcases List.mem_cons.mp hm with e | e
        · exact absurd e.symm hj
        · exact e
      obtain ⟨i, h1, h2⟩ := substIdent_zip ids vars v (by simpa using hl) hm'
      refine ⟨i + 1, by simpa using h1, ?_⟩
      have hj' : (j == v.id) = false := by simpa using hj
      simp only [List.getElem?_cons_succ, h2, substIdent, List.zip_cons_cons, List.find?_cons, hj']

/-! ## `lift` -/

theorem lift_tr {E : TEnv} {q : AxCut.Prog} {env : Env} {rec : Rec} (hrec : RecTr E q rec) :
    RecTr E q (lift env rec) := by
  intro Γ f s st t st' h hq hwt hsc inv
  obtain ⟨k, body, st3, hk, _, _, hb, ht, hst⟩ := lift_spec env rec (renStmt f s) st t st' h
  -- the statement handed to `lift` has unique binders, so `typed_free_vars` is exact
  have hbid : ∀ β ∈ bindersStmt s, β.var.id ∈ s.binderIds := by
    intro β hβ
    rw [← bindersStmt_ids]
    exact List.mem_map.mpr ⟨β, hβ, rfl⟩
  have hback : ∀ β ∈ fvStmt (renStmt f s), ∃ b, b ∈ fvStmt s ∧ occFs Γ b = true ∧ β = renBinding f b := by
    intro β hβ
    obtain ⟨b, hb1, hb2⟩ := fv_ren_backStmt inv.fid s (fun i hi => hi) β hβ
    exact ⟨b, hb1, sc_fvStmt s Γ hsc b hb1, hb2⟩
  have hUB : UniqueBinders (renStmt f s) := by
    refine ⟨?_, ?_⟩
    · rw [bindersStmt_ren]
      exact nodup_of_map (fun b => b.var.id) _ (by rw [bindersStmt_ids]; exact inv.nd)
    · rw [bindersStmt_ren]
      intro β hβ hc
      obtain ⟨b, _, hocc, rfl⟩ := hback β hc
      exact (inv.rng b hocc).1 (hbid _ hβ)
  have hfv := tfvStmt_eq_fv (renStmt f s) hUB
  generalize hfvdef : tfvStmt (renStmt f s) [] = fv at hk hb ht hst hfv
  -- every id passed belongs to a variable in scope
  have hfvocc : ∀ β ∈ fv, ∃ b, b ∈ fvStmt s ∧ occFs Γ b = true ∧ β = renBinding f b :=
    fun β hβ => hback β ((hfv β).mp hβ)
  -- the restricted context and the renaming to the parameters
  let keep : Core.Binding → Bool := fun b => occFs Γ b && decide (b ∈ fvStmt s)
  have hkeep : ∀ b, occFs (Γ.filter keep) b = true → occFs Γ b = true ∧ b ∈ fvStmt s := by
    intro b hb'
    have := (List.mem_filter.mp (occFs_mem' hb')).2
    simpa [keep] using this
  have hsub : substStmt (liftSubst st.maxId fv) (renStmt f s) =
      renStmt (substIdent (liftSubst st.maxId fv) ∘ f) s := substStmt_ren _ _ _
  rw [hsub] at hb
  have hpar := liftParams_ids_le st.maxId fv
  have hσ := liftSubst_spec st.maxId fv
  have inv' : InvB (Γ.filter keep) (substIdent (liftSubst st.maxId fv) ∘ f) s.binderIds k := by
    have i0 : InvB (Γ.filter keep) f s.binderIds k :=
      ⟨inv.nd, inv.fid, fun b hb' => ⟨(inv.rng b (hkeep b hb').1).1, by
        have := (inv.rng b (hkeep b hb').1).2; omega⟩, fun i hi => by have := inv.bm i hi; omega⟩
    refine i0.subst _ ?_ ?_
    · intro p hp hc
      rw [hσ] at hp
      have := (List.of_mem_zip hp).1
      obtain ⟨β, hβ, hβe⟩ := List.mem_map.mp this
      obtain ⟨b, _, hocc, rfl⟩ := hfvocc β hβ
      exact (inv.rng b hocc).1 (by rw [← hβe] at hc; exact hc)
    · intro p hp
      rw [hσ] at hp
      have := (List.of_mem_zip hp).2
      obtain ⟨c, hc, hce⟩ := List.mem_map.mp this
      have := hpar c.var.id (List.mem_map.mpr ⟨c, hc, rfl⟩)
      rw [← hce]
      exact ⟨fun hm => by have := inv.bm _ hm; omega, by omega⟩
  have hsc' : scStmt (Γ.filter keep) s = true :=
    sc_strengthenStmt s Γ _ hsc (fun b hb' ho => occFs_filter keep ho (by simp [keep, ho, hb']))
  subst hst
  have hq3 : Good q st3 := fun d hd => hq d (List.mem_cons_of_mem _ hd)
  have p1 := hrec (Γ.filter keep) _ s _ body st3 hb hq3 hwt hsc' inv'
  subst ht
  refine ⟨fun hm hag => ?_, by simp [axBids]⟩
  have hlen : (liftParams st.maxId fv).length = fv.length := (liftParams_spec st.maxId fv).1
  refine Tr.lifted (Γ' := Γ.filter keep) (h' := fun y => ((substIdent (liftSubst st.maxId fv) ∘ f) y).id)
    (hq _ (List.mem_cons_self)) (fun b hb' => (hkeep b hb').1) ?_ ?_ ?_ ?_ (p1.1 _ (fun _ _ => rfl))
  · simp [shrinkContext, hlen]
  · rw [axIds_shrinkContext]
    exact (liftParams_ids_nodup st.maxId fv).1
  · intro i hi
    rw [axIds_shrinkContext] at hi
    obtain ⟨β, hβ, rfl⟩ := List.mem_map.mp hi
    obtain ⟨b, _, hocc, rfl⟩ := hfvocc β hβ
    exact ⟨b, hocc, hag b hocc⟩
  · intro b hb'
    obtain ⟨hocc, hbfv⟩ := hkeep b hb'
    have hfinv : FvInv Γ f s.binderIds := fun c hc => .inr (inv.rng c hc).1
    have hmem : renBinding f b ∈ fv :=
      (hfv _).mpr (fv_ren_fwdStmt inv.fid s Γ hfinv hsc (fun i hi => hi) b hbfv)
    have hidm : (f b.var).id ∈ fv.map (fun b => b.var.id) := List.mem_map.mpr ⟨_, hmem, rfl⟩
    obtain ⟨i, h1, h2⟩ := substIdent_zip (fv.map fun b => b.var.id) ((liftParams st.maxId fv).map (·.var))
      (f b.var) (by simp [hlen]) hidm
    refine ⟨i, ?_, ?_⟩
    · rw [axIds_shrinkContext, hag b hocc]; exact h1
    · rw [axIds_shrinkContext]
      simp only [Function.comp, hσ]
      have e : (liftParams st.maxId fv).map (fun b => b.var.id) =
          ((liftParams st.maxId fv).map (·.var)).map (·.id) := by simp [List.map_map, Function.comp_def]
      rw [e, List.getElem?_map, h2]
      rfl

end Scc.Core2AxCut.Sem
