/-
  Scc.Core2AxCut.SemRen — proof file for the semantic part of C04: the id-substitution of focused Core
  (`substStmt`, Rust `SubstVar`) as a renaming by a function on identifiers (`renStmt`), so that the
  statement actually handed to `FsStatement::shrink` — the original sub-statement under the composition
  of all substitutions performed on the way — can be written `renStmt f s`; and the uniqueness
  invariant (`InvB`) under which this renaming is capture-free.
-/
import Scc.Core2AxCut.SemSubst
import Scc.Core.Unique

namespace Scc.Core2AxCut.Sem

open Scc Scc.Core2AxCut

/-! ## renaming by a function -/

def renBinding (f : Core.Ident → Core.Ident) (b : Core.Binding) : Core.Binding := { b with var := f b.var }

def renCtx (f : Core.Ident → Core.Ident) (c : Core.Ctx) : Core.Ctx := c.map (renBinding f)

mutual
  def renTerm (f : Core.Ident → Core.Ident) : Core.FsTerm → Core.FsTerm
    | .var pc v ty => .var pc (f v) ty
    | .lit n => .lit n
    | .op a o b => .op (f a) o (f b)
    | .mu pc v ty s => .mu pc v ty (renStmt f s)
    | .xtor pc n args ty => .xtor pc n (renCtx f args) ty
    | .xcase pc ty cs => .xcase pc ty (renClauses f cs)
  def renClauses (f : Core.Ident → Core.Ident) : Core.FsClauses → Core.FsClauses
    | .nil => .nil
    | .cons x ctx body rest => .cons x ctx (renStmt f body) (renClauses f rest)
  def renStmt (f : Core.Ident → Core.Ident) : Core.FsStmt → Core.FsStmt
    | .cut ty p c => .cut ty (renTerm f p) (renTerm f c)
    | .ifc s a b t e => .ifc s (f a) (b.map f) (renStmt f t) (renStmt f e)
    | .print nl a n => .print nl (f a) (renStmt f n)
    | .call n args => .call n (renCtx f args)
    | .exit a => .exit (f a)
end

theorem substCtx_eq_ren (σ) (c : Core.Ctx) : substCtx σ c = renCtx (substIdent σ) c := rfl

mutual
  theorem substTerm_eq_ren (σ) : ∀ t, substTerm σ t = renTerm (substIdent σ) t
    | .var _ _ _ => rfl
    | .lit _ => rfl
    | .op _ _ _ => rfl
    | .mu _ _ _ s => by simp [substTerm, renTerm, substStmt_eq_ren σ s]
    | .xtor _ _ _ _ => rfl
    | .xcase _ _ cs => by simp [substTerm, renTerm, substClauses_eq_ren σ cs]
  theorem substClauses_eq_ren (σ) : ∀ cs, substClauses σ cs = renClauses (substIdent σ) cs
    | .nil => rfl
    | .cons _ _ b r => by simp [substClauses, renClauses, substStmt_eq_ren σ b, substClauses_eq_ren σ r]
  theorem substStmt_eq_ren (σ) : ∀ s, substStmt σ s = renStmt (substIdent σ) s
    | .cut _ p c => by simp [substStmt, renStmt, substTerm_eq_ren σ p, substTerm_eq_ren σ c]
    | .ifc _ _ _ t e => by simp [substStmt, renStmt, substStmt_eq_ren σ t, substStmt_eq_ren σ e]
    | .print _ _ n => by simp [substStmt, renStmt, substStmt_eq_ren σ n]
    | .call _ _ => rfl
    | .exit _ => rfl
end

theorem renCtx_renCtx (g f) (c : Core.Ctx) : renCtx g (renCtx f c) = renCtx (g ∘ f) c := by
  simp [renCtx, renBinding, Function.comp_def]

mutual
  theorem renTerm_renTerm (g f) : ∀ t, renTerm g (renTerm f t) = renTerm (g ∘ f) t
    | .var _ _ _ => rfl
    | .lit _ => rfl
    | .op _ _ _ => rfl
    | .mu _ _ _ s => by simp [renTerm, renStmt_renStmt g f s]
    | .xtor _ _ _ _ => by simp [renTerm, renCtx_renCtx]
    | .xcase _ _ cs => by simp [renTerm, renClauses_renClauses g f cs]
  theorem renClauses_renClauses (g f) : ∀ cs, renClauses g (renClauses f cs) = renClauses (g ∘ f) cs
    | .nil => rfl
    | .cons _ _ b r => by simp [renClauses, renStmt_renStmt g f b, renClauses_renClauses g f r]
  theorem renStmt_renStmt (g f) : ∀ s, renStmt g (renStmt f s) = renStmt (g ∘ f) s
    | .cut _ p c => by simp [renStmt, renTerm_renTerm g f p, renTerm_renTerm g f c]
    | .ifc _ _ b t e => by
      cases b <;> simp [renStmt, renStmt_renStmt g f t, renStmt_renStmt g f e]
    | .print _ _ n => by simp [renStmt, renStmt_renStmt g f n]
    | .call _ _ => by simp [renStmt, renCtx_renCtx]
    | .exit _ => rfl
end

theorem renCtx_id (c : Core.Ctx) : renCtx id c = c := by
  have : renBinding id = id := by funext b; cases b; rfl
  simp [renCtx, this]

mutual
  theorem renTerm_id : ∀ t, renTerm id t = t
    | .var _ _ _ => rfl
    | .lit _ => rfl
    | .op _ _ _ => rfl
    | .mu _ _ _ s => by simp [renTerm, renStmt_id s]
    | .xtor _ _ _ _ => by simp [renTerm, renCtx_id]
    | .xcase _ _ cs => by simp [renTerm, renClauses_id cs]
  theorem renClauses_id : ∀ cs, renClauses id cs = cs
    | .nil => rfl
    | .cons _ _ b r => by simp [renClauses, renStmt_id b, renClauses_id r]
  theorem renStmt_id : ∀ s, renStmt id s = s
    | .cut _ p c => by simp [renStmt, renTerm_id p, renTerm_id c]
    | .ifc _ _ b t e => by cases b <;> simp [renStmt, renStmt_id t, renStmt_id e]
    | .print _ _ n => by simp [renStmt, renStmt_id n]
    | .call _ _ => by simp [renStmt, renCtx_id]
    | .exit _ => rfl
end

theorem substStmt_ren (σ f s) : substStmt σ (renStmt f s) = renStmt (substIdent σ ∘ f) s := by
  rw [substStmt_eq_ren, renStmt_renStmt]

/-! ## the uniqueness invariant -/

/-- `B` = ids of the binders of the statement being translated, `m` = current `max_id`:
    binder ids are pairwise distinct, the renaming is the identity on identifiers carrying a binder id,
    the images of the variables in scope avoid the binder ids, everything is `≤ m` -/
structure InvB (Γ : Core.Ctx) (f : Core.Ident → Core.Ident) (B : List Nat) (m : Nat) : Prop where
  nd : B.Nodup
  fid : ∀ v : Core.Ident, v.id ∈ B → f v = v
  rng : ∀ b, occFs Γ b = true → (f b.var).id ∉ B ∧ (f b.var).id ≤ m
  bm : ∀ i ∈ B, i ≤ m

theorem InvB.mono {Γ f B m m'} (h : InvB Γ f B m) (hm : m ≤ m') : InvB Γ f B m' :=
  ⟨h.nd, h.fid, fun b hb => ⟨(h.rng b hb).1, Nat.le_trans (h.rng b hb).2 hm⟩, fun i hi => Nat.le_trans (h.bm i hi) hm⟩

/-- entering the scope of the binders `Δ` (whose ids are among `B`), continuing with the binders `B'` -/
theorem InvB.enter {Γ f B m} (h : InvB Γ f B m) (Δ : Core.Ctx) (B' : List Nat) (hnd : B'.Nodup)
    (hsub : ∀ i ∈ B', i ∈ B) (hΔ : ∀ b ∈ Δ, b.var.id ∈ B ∧ b.var.id ∉ B') : InvB (Δ ++ Γ) f B' m := by
  refine ⟨hnd, fun v hv => h.fid v (hsub _ hv), ?_, fun i hi => h.bm i (hsub i hi)⟩
  intro b hb
  rcases occFs_append hb with hm | ⟨_, ho⟩
  · rw [h.fid b.var (hΔ b hm).1]
    exact ⟨(hΔ b hm).2, h.bm _ (hΔ b hm).1⟩
  · exact ⟨fun hc => (h.rng b ho).1 (hsub _ hc), (h.rng b ho).2⟩

theorem substIdent_of_not_dom {σ : List (Nat × Core.Ident)} {v : Core.Ident}
    (h : ∀ p ∈ σ, p.1 ≠ v.id) : substIdent σ v = v := by
  simp only [substIdent]
  have : σ.find? (fun p => p.1 == v.id) = none := by
    rw [List.find?_eq_none]
    intro p hp
    simpa using h p hp
  rw [this]

theorem substIdent_cases (σ : List (Nat × Core.Ident)) (v : Core.Ident) :
    substIdent σ v = v ∨ ∃ p ∈ σ, p.1 = v.id ∧ substIdent σ v = p.2 := by
  simp only [substIdent]
  cases hf : σ.find? (fun p => p.1 == v.id) with
  | none => left; rfl
  | some p =>
    right
    exact ⟨p, List.mem_of_find?_eq_some hf, by simpa using List.find?_some hf, rfl⟩

/-- composing with an id-substitution whose domain and range avoid the binders -/
theorem InvB.subst {Γ f B m} (h : InvB Γ f B m) (σ : List (Nat × Core.Ident))
    (hdom : ∀ p ∈ σ, p.1 ∉ B) (hrng : ∀ p ∈ σ, p.2.id ∉ B ∧ p.2.id ≤ m) :
    InvB Γ (substIdent σ ∘ f) B m := by
  refine ⟨h.nd, ?_, ?_, h.bm⟩
  · intro v hv
    simp only [Function.comp, h.fid v hv]
    exact substIdent_of_not_dom (fun p hp e => hdom p hp (by rw [e]; exact hv))
  · intro b hb
    simp only [Function.comp]
    rcases substIdent_cases σ (f b.var) with e | ⟨p, hp, _, e⟩
    · rw [e]; exact h.rng b hb
    · rw [e]; exact hrng p hp

/-! ## binder ids: `bindersStmt` (FreeVarsSpec) vs `binderIds` (Core.Unique) -/

mutual
  theorem bindersTerm_ids : ∀ t, (bindersTerm t).map (·.var.id) = t.binderIds
    | .var _ _ _ => rfl
    | .lit _ => rfl
    | .op _ _ _ => rfl
    | .mu _ _ _ s => by simp [bindersTerm, Core.FsTerm.binderIds, bindersStmt_ids s]
    | .xtor _ _ _ _ => rfl
    | .xcase _ _ cs => by simp [bindersTerm, Core.FsTerm.binderIds, bindersClauses_ids cs]
  theorem bindersClauses_ids : ∀ cs, (bindersClauses cs).map (·.var.id) = cs.binderIds
    | .nil => rfl
    | .cons _ ctx b r => by
      simp [bindersClauses, Core.FsClauses.binderIds, bindersStmt_ids b, bindersClauses_ids r, Core.ctxIds]
  theorem bindersStmt_ids : ∀ s, (bindersStmt s).map (·.var.id) = s.binderIds
    | .cut _ p c => by simp [bindersStmt, Core.FsStmt.binderIds, bindersTerm_ids p, bindersTerm_ids c]
    | .ifc _ _ _ t e => by simp [bindersStmt, Core.FsStmt.binderIds, bindersStmt_ids t, bindersStmt_ids e]
    | .print _ _ n => by simp [bindersStmt, Core.FsStmt.binderIds, bindersStmt_ids n]
    | .call _ _ => rfl
    | .exit _ => rfl
end

/-- the clause found by the Core machine, its parameters and binders inside the clause list -/
theorem find_binderIds {K ctx body} : ∀ (cl : Core.FsClauses), cl.find K = some (ctx, body) →
    (∀ i ∈ Core.ctxIds ctx, i ∈ cl.binderIds) ∧ (∀ i ∈ body.binderIds, i ∈ cl.binderIds) ∧
    (cl.binderIds.Nodup → (Core.ctxIds ctx).Nodup ∧ body.binderIds.Nodup ∧
      ∀ i ∈ Core.ctxIds ctx, i ∉ body.binderIds)
  | .nil, h => by simp [Core.FsClauses.find] at h
  | .cons x c b r, h => by
    simp only [Core.FsClauses.find] at h
    split at h
    · simp only [Option.some.injEq, Prod.mk.injEq] at h
      obtain ⟨rfl, rfl⟩ := h
      simp only [Core.FsClauses.binderIds, List.mem_append]
      refine ⟨fun i hi => .inl (.inl hi), fun i hi => .inl (.inr hi), ?_⟩
      intro hnd
      have h1 := List.nodup_append.mp hnd
      have h2 := List.nodup_append.mp h1.1
      exact ⟨h2.1, h2.2.1, fun i hi hb => h2.2.2 i hi i hb rfl⟩
    · have ih := find_binderIds r h
      simp only [Core.FsClauses.binderIds, List.mem_append]
      refine ⟨fun i hi => .inr (ih.1 i hi), fun i hi => .inr (ih.2.1 i hi), ?_⟩
      intro hnd
      exact ih.2.2 (List.nodup_append.mp hnd).2.1

end Scc.Core2AxCut.Sem
