/-
  Scc.Core2AxCut.SemTr — proof file for the semantic part of C04: every output of `shrinkStmt`
  (the model of `FsStatement::shrink`) is a translation in the sense of the judgment `Tr` of
  `SemRel.lean`.  The statement handed to `shrink` is `renStmt f s` (the sub-statement `s` of the program
  under the composition `f` of the id-substitutions performed so far); the result translates `s` for every
  map `h` that sends the variables in scope to the ids of their images under `f`.
-/
import Scc.Core2AxCut.SemRen
import Scc.Core2AxCut.Labels

namespace Scc.Core2AxCut.Sem

open Scc Scc.Core2AxCut
open Scc.AxCut.Named (Value lookup lookupAll bindParams findDef State step)

local notation "sid" => shrinkIdentifier

/-! ## `max_id` only grows -/

structure Mono (a b : St) : Prop where
  le : a.maxId ≤ b.maxId
  sub : ∀ d ∈ a.lifted, d ∈ b.lifted

theorem Mono.stRel : Core2AxCut.StRel Mono where
  refl := fun _ => ⟨Nat.le_refl _, fun _ h => h⟩
  trans := fun h1 h2 => ⟨Nat.le_trans h1.le h2.le, fun d hd => h2.sub d (h1.sub d hd)⟩
  frame := fun h => ⟨h.2.2, fun d hd => by rw [h.2.1]; exact hd⟩

theorem lift_mono {env : Env} {rec : Rec} (hrec : RecRel Mono rec) : RecRel Mono (lift env rec) := by
  intro s st r st' h
  obtain ⟨label, st2, st3, body, _, hlt, _, _, _, hl2, hm2, hb, _, rfl⟩ := lift_label h
  have h0 := (liftFresh_frame (tfvStmt s []) st).2.2
  have h3 : Mono st2 st3 := hrec _ _ _ _ hb
  refine ⟨?_, ?_⟩
  · show st.maxId ≤ st3.maxId
    have := h3.le
    omega
  · intro d hd
    show d ∈ _ :: st3.lifted
    exact List.mem_cons_of_mem _ (h3.sub d (by rw [hl2]; exact hd))

theorem shrinkStmt_mono (env : Env) (fuel : Nat) : RecRel Mono (shrinkStmt env fuel) :=
  shrinkStmt_rel Mono.stRel (fun _ h => lift_mono h) fuel

/-- the definitions lifted so far are definitions of the output program `q`, found under their names -/
def Good (q : AxCut.Prog) (st : St) : Prop := ∀ d ∈ st.lifted, findDef q d.name = some d

theorem Good.of_mono {q : AxCut.Prog} {a b : St} (h : Mono a b) (hb : Good q b) : Good q a :=
  fun d hd => hb d (h.sub d hd)

/-! ## agreement of `h` with the renaming -/

def Agree (Γ : Core.Ctx) (h : HMap) (f : Core.Ident → Core.Ident) : Prop :=
  ∀ b, occFs Γ b = true → h b.var = (f b.var).id

theorem Agree.avoids_binder {Γ h f B m i} (ha : Agree Γ h f) (inv : InvB Γ f B m) (hi : i ∈ B) :
    Avoids Γ h i := by
  intro b hb e
  rw [ha b hb] at e
  exact (inv.rng b hb).1 (e ▸ hi)

theorem Agree.avoids_fresh {Γ h f B m i} (ha : Agree Γ h f) (inv : InvB Γ f B m) (hi : m < i) :
    Avoids Γ h i := by
  intro b hb e
  rw [ha b hb] at e
  have := (inv.rng b hb).2
  omega

theorem Agree.cons {Γ h f} {b0 : Core.Binding} (ha : Agree Γ h f) (hf : f b0.var = b0.var) (k : Nat)
    (hk : k = b0.var.id) : Agree (b0 :: Γ) (h.set b0.var k) f := by
  intro b hb
  rcases occFs_cons hb with rfl | ⟨hne, hb'⟩
  · rw [HMap.set_self, hf, hk]
  · rw [HMap.set_ne _ _ (var_ne_of_id_ne hne)]; exact ha b hb'

theorem Agree.map {Γ h f} (ha : Agree Γ h f) {args : Core.Ctx} (hocc : ∀ b ∈ args, occFs Γ b = true) :
    args.map (fun b => (f b.var).id) = args.map (fun b => h b.var) :=
  List.map_congr_left (fun b hb => (ha b (hocc b hb)).symm)

/-! ## `shrink_binding` keeps the variable -/

theorem shrinkBinding_var (cod : List Core.TypeDecl) (b : Core.Binding) : (shrinkBinding cod b).var = sid b.var := by
  simp only [shrinkBinding]
  split
  · split <;> rfl
  · split <;> rfl

theorem axIds_shrinkContext (cod : List Core.TypeDecl) (c : Core.Ctx) :
    axIds (shrinkContext cod c) = c.map (fun b => b.var.id) := by
  simp only [axIds, shrinkContext, List.map_map]
  apply List.map_congr_left
  intro b _
  simp [shrinkBinding_var, shrinkIdentifier]

theorem axIds_shrinkContext_ren (cod : List Core.TypeDecl) (f) (c : Core.Ctx) :
    axIds (shrinkContext cod (renCtx f c)) = c.map (fun b => (f b.var).id) := by
  rw [axIds_shrinkContext]
  simp [renCtx, renBinding, Function.comp_def]

/-! ## fresh contexts -/

theorem freshenCtx_spec : ∀ (c : AxCut.Ctx) (st : St),
    axIds (freshenCtx c st).1 = List.range' (st.maxId + 1) c.length ∧
    (freshenCtx c st).2.maxId = st.maxId + c.length ∧ (freshenCtx c st).1.length = c.length
  | [], st => by simp [freshenCtx, axIds]
  | b :: bs, st => by
    have ih := freshenCtx_spec bs (freshIdentifier st b.var.name).2
    simp only [freshenCtx]
    revert ih
    generalize freshenCtx bs (freshIdentifier st b.var.name).2 = r
    obtain ⟨rest, st2⟩ := r
    intro ih
    simp only [freshIdentifier] at ih
    simp only [axIds, List.map_cons, List.length_cons, List.range'_succ, shrinkIdentifier, freshIdentifier]
    refine ⟨?_, by omega, by simp [ih.2.2]⟩
    simp only [axIds] at ih
    rw [ih.1]

theorem freshenCtx_ids {c : AxCut.Ctx} {st : St} :
    (axIds (freshenCtx c st).1).Nodup ∧
    ∀ i ∈ axIds (freshenCtx c st).1, st.maxId < i ∧ i ≤ (freshenCtx c st).2.maxId := by
  obtain ⟨h1, h2, _⟩ := freshenCtx_spec c st
  rw [h1, h2]
  refine ⟨List.nodup_range', ?_⟩
  intro i hi
  simp only [List.mem_range'_1] at hi
  omega

/-! ## substitution leaves binders alone -/

mutual
  theorem axBids_axSubst (σ) : ∀ t, axBids (axSubstStmt σ t) = axBids t
    | .subst ps n => by simp [axSubstStmt, axBids, axBids_axSubst σ n]
    | .call _ _ => rfl
    | .letS _ _ _ _ n _ => by simp [axSubstStmt, axBids, axBids_axSubst σ n]
    | .switch _ _ cs _ => by simp [axSubstStmt, axBids, axBidsC_axSubst σ cs]
    | .create _ _ _ cs n _ _ => by simp [axSubstStmt, axBids, axBidsC_axSubst σ cs, axBids_axSubst σ n]
    | .invoke _ _ _ _ => rfl
    | .lit _ _ n _ => by simp [axSubstStmt, axBids, axBids_axSubst σ n]
    | .op _ _ _ _ n _ => by simp [axSubstStmt, axBids, axBids_axSubst σ n]
    | .print _ _ n _ => by simp [axSubstStmt, axBids, axBids_axSubst σ n]
    | .ifc _ _ _ t e => by simp [axSubstStmt, axBids, axBids_axSubst σ t, axBids_axSubst σ e]
    | .exit _ => rfl
  theorem axBidsC_axSubst (σ) : ∀ cs, axBidsC (axSubstClauses σ cs) = axBidsC cs
    | .nil => rfl
    | .cons _ _ b r => by simp [axSubstClauses, axBidsC, axBids_axSubst σ b, axBidsC_axSubst σ r]
end

/-! ## the generated clause lists -/

theorem unknownClauses_eta (env : Env) (vE : Core.Ident) (tty : AxCut.Ty) : ∀ (xs : List Core.XtorSig) (st : St),
    st.maxId ≤ (unknownClauses env vE tty xs st).2.maxId ∧
    (∀ i ∈ axBidsC (unknownClauses env vE tty xs st).1,
      st.maxId < i ∧ i ≤ (unknownClauses env vE tty xs st).2.maxId) ∧
    ∀ K sig, xs.find? (fun x => x.name == K) = some sig →
      ∃ envC, AxCut.Named.findClause (sid K) (unknownClauses env vE tty xs st).1 =
          some (envC, .invoke (sid vE) (sid K) tty envC) ∧
        envC.length = sig.args.length ∧ (axIds envC).Nodup ∧
        ∀ i ∈ axIds envC, st.maxId < i ∧ i ≤ (unknownClauses env vE tty xs st).2.maxId
  | [], st => by simp [unknownClauses, axBidsC]
  | x :: xs, st => by
    have hf := freshenCtx_spec (shrinkContext env.codata x.args) st
    have hi := freshenCtx_ids (c := shrinkContext env.codata x.args) (st := st)
    simp only [unknownClauses]
    revert hf hi
    generalize freshenCtx (shrinkContext env.codata x.args) st = r1
    obtain ⟨envC, st1⟩ := r1
    intro hf hi
    have ih := unknownClauses_eta env vE tty xs st1
    revert ih
    generalize unknownClauses env vE tty xs st1 = r2
    obtain ⟨rest, st2⟩ := r2
    intro ih
    simp only at hf hi ih ⊢
    obtain ⟨ih1, ih2, ih3⟩ := ih
    have hm1 : st.maxId ≤ st1.maxId := by rw [hf.2.1]; omega
    refine ⟨by omega, ?_, ?_⟩
    · intro i hi'
      simp only [axBidsC, axBids, List.nil_append, List.mem_append] at hi'
      rcases hi' with h | h
      · have := hi.2 i h; omega
      · have := ih2 i h; omega
    · intro K sig hfind
      simp only [List.find?_cons] at hfind
      simp only [AxCut.Named.findClause, sid_beq]
      split at hfind
      · rename_i hx
        simp only [Option.some.injEq] at hfind
        subst hfind
        have : x.name = K := eq_of_beq hx
        subst this
        simp only [beq_self_eq_true, if_true]
        refine ⟨envC, rfl, by rw [hf.2.2]; simp [shrinkContext], hi.1, ?_⟩
        intro i h; have := hi.2 i h; omega
      · rename_i hx
        simp only [hx]
        obtain ⟨envC', h1, h2, h3, h4⟩ := ih3 K sig hfind
        refine ⟨envC', h1, h2, h3, ?_⟩
        intro i h; have := h4 i h; omega

theorem criticalClauses_crit (env : Env) (vE : Core.Ident) (tty : AxCut.Ty) (t2 : AxCut.Stmt) :
    ∀ (xs : List Core.XtorSig) (st : St),
    st.maxId ≤ (criticalClauses env vE tty t2 xs st).2.maxId ∧
    (∀ i ∈ axBidsC (criticalClauses env vE tty t2 xs st).1,
      (st.maxId < i ∧ i ≤ (criticalClauses env vE tty t2 xs st).2.maxId) ∨ i ∈ axBids t2) ∧
    (∀ K sig, xs.find? (fun x => x.name == K) = some sig →
      ∃ envC w, AxCut.Named.findClause (sid K) (criticalClauses env vE tty t2 xs st).1 =
          some (envC, .letS w tty (sid K) envC (axSubstStmt [(vE.id, w)] t2) none) ∧
        envC.length = sig.args.length ∧ (axIds envC).Nodup ∧
        (∀ i ∈ axIds envC, st.maxId < i ∧ i ≤ (criticalClauses env vE tty t2 xs st).2.maxId) ∧
        st.maxId < w.id ∧ w.id ≤ (criticalClauses env vE tty t2 xs st).2.maxId) ∧
    (∀ tag envC w ty'' tg envC' t fv,
      AxCut.Named.findClause tag (criticalClauses env vE tty t2 xs st).1 =
        some (envC, .letS w ty'' tg envC' t fv) →
      t = axSubstStmt [(vE.id, w)] t2 ∧ st.maxId < w.id)
  | [], st => by simp [criticalClauses, axBidsC, AxCut.Named.findClause]
  | x :: xs, st => by
    have hf := freshenCtx_spec (shrinkContext env.codata x.args) st
    have hi := freshenCtx_ids (c := shrinkContext env.codata x.args) (st := st)
    simp only [criticalClauses]
    revert hf hi
    generalize freshenCtx (shrinkContext env.codata x.args) st = r1
    obtain ⟨envC, st1⟩ := r1
    intro hf hi
    simp only [freshIdentifier]
    have ih := criticalClauses_crit env vE tty t2 xs { st1 with maxId := st1.maxId + 1 }
    revert ih
    generalize criticalClauses env vE tty t2 xs { st1 with maxId := st1.maxId + 1 } = r2
    obtain ⟨rest, st2⟩ := r2
    intro ih
    simp only at hf hi ih ⊢
    obtain ⟨ih1, ih2, ih3, ih4⟩ := ih
    have hm1 : st.maxId ≤ st1.maxId := by rw [hf.2.1]; omega
    refine ⟨by omega, ?_, ?_, ?_⟩
    · intro i hi'
      simp only [axBidsC, axBids, List.mem_append, List.mem_cons, axBids_axSubst] at hi'
      rcases hi' with h | (h | h) | h
      · have := hi.2 i h; left; omega
      · left; subst h; simp only [shrinkIdentifier]; omega
      · right; exact h
      · rcases ih2 i h with h' | h'
        · left; omega
        · right; exact h'
    · intro K sig hfind
      simp only [List.find?_cons] at hfind
      simp only [AxCut.Named.findClause, sid_beq]
      split at hfind
      · rename_i hx
        simp only [Option.some.injEq] at hfind
        subst hfind
        have : x.name = K := eq_of_beq hx
        subst this
        simp only [beq_self_eq_true, if_true]
        refine ⟨envC, sid ⟨vE.name, st1.maxId + 1⟩, rfl, by rw [hf.2.2]; simp [shrinkContext], hi.1, ?_, ?_, ?_⟩
        · intro i h; have := hi.2 i h; omega
        · simp only [shrinkIdentifier]; omega
        · simp only [shrinkIdentifier]; omega
      · rename_i hx
        simp only [hx]
        obtain ⟨envC', w, h1, h2, h3, h4, h5, h6⟩ := ih3 K sig hfind
        refine ⟨envC', w, h1, h2, h3, ?_, by omega, h6⟩
        intro i h; have := h4 i h; omega
    · intro tag envC0 w ty'' tg envC' t fv hfind
      simp only [AxCut.Named.findClause] at hfind
      split at hfind
      · simp only [Option.some.injEq, Prod.mk.injEq, AxCut.Stmt.letS.injEq] at hfind
        obtain ⟨_, rfl, _, _, _, rfl, _⟩ := hfind
        exact ⟨rfl, by simp only [shrinkIdentifier]; omega⟩
      · obtain ⟨h1, h2⟩ := ih4 tag envC0 w ty'' tg envC' t fv hfind
        exact ⟨h1, by omega⟩

/-! ## the invariant of the translation -/

/-- what a successful call of `shrink` on `renStmt f s` guarantees -/
def Post (E : TEnv) (q : AxCut.Prog) (Γ : Core.Ctx) (f : Core.Ident → Core.Ident) (s : Core.FsStmt) (st : St)
    (t : AxCut.Stmt) (st' : St) : Prop :=
  (∀ h : HMap, Agree Γ h f → Tr E q Γ h s t) ∧
  (∀ i ∈ axBids t, (i ∈ s.binderIds ∨ st.maxId < i) ∧ i ≤ st'.maxId)

def RecTr (E : TEnv) (q : AxCut.Prog) (rec : Rec) : Prop :=
  ∀ Γ f s st t st', rec (renStmt f s) st = .ok (t, st') → Good q st' → wtStmt E s = true →
    scStmt Γ s = true → InvB Γ f s.binderIds st.maxId → Post E q Γ f s st t st'

theorem InvB.enterS {Γ f B m} (h : InvB Γ f B m) (Δ : Core.Ctx) (B' : List Nat)
    (hs : (Δ.map (·.var.id) ++ B').Sublist B) : InvB (Δ ++ Γ) f B' m := by
  have hnd := hs.nodup h.nd
  have hnd' := List.nodup_append.mp hnd
  refine h.enter Δ B' hnd'.2.1 (fun i hi => hs.subset (by simp [hi])) ?_
  intro b hb
  have hm : b.var.id ∈ Δ.map (·.var.id) := List.mem_map.mpr ⟨b, hb, rfl⟩
  exact ⟨hs.subset (by simp [hm]), fun hc => hnd'.2.2 _ hm _ hc rfl⟩

theorem bids_lift {L B0 B : List Nat} {m m1 m2 m' : Nat}
    (h : ∀ i ∈ L, (i ∈ B0 ∨ m1 < i) ∧ i ≤ m2) (hB : ∀ i ∈ B0, i ∈ B) (h1 : m ≤ m1) (h2 : m2 ≤ m') :
    ∀ i ∈ L, (i ∈ B ∨ m < i) ∧ i ≤ m' := by
  intro i hi
  obtain ⟨h3, h4⟩ := h i hi
  refine ⟨?_, by omega⟩
  rcases h3 with h3 | h3
  · exact .inl (hB i h3)
  · exact .inr (by omega)

section step
variable {E : TEnv} {q : AxCut.Prog} {env : Env} {rec : Rec}
  (hE : EnvMatches env E) (hrec : RecTr E q rec) (hmono : RecRel Mono rec)
include hE hrec hmono

/-! ### the arms of `shrinkCut` -/

theorem tr_renL {Γ f T a s0 x st t st'} (h : rec (substStmt [(a.id, f x)] (renStmt f s0)) st = .ok (t, st'))
    (hq : Good q st')
    (hwt : wtStmt E s0 = true) (hx : occFs Γ ⟨x, .cns, T⟩ = true)
    (hsc : scStmt (⟨a, .cns, T⟩ :: Γ) s0 = true)
    (inv : InvB Γ f (Core.FsStmt.cut T (.mu .prd a T s0) (.var .cns x T)).binderIds st.maxId) :
    Post E q Γ f (.cut T (.mu .prd a T s0) (.var .cns x T)) st t st' := by
  simp only [Core.FsStmt.binderIds, Core.FsTerm.binderIds, List.append_nil] at inv ⊢
  rw [substStmt_ren] at h
  have ha : a.id ∉ s0.binderIds := (List.nodup_cons.mp inv.nd).1
  have inv1 : InvB (⟨a, .cns, T⟩ :: Γ) f s0.binderIds st.maxId := inv.enterS [⟨a, .cns, T⟩] s0.binderIds (by simp)
  have inv2 := inv1.subst [(a.id, f x)] (by simpa using ha)
    (by simp only [List.mem_singleton, forall_eq]
        exact ⟨fun hc => (inv.rng _ hx).1 (by simp [hc]), (inv.rng _ hx).2⟩)
  have p1 := hrec _ _ s0 st t st' h hq hwt hsc inv2
  refine ⟨fun hm hag => .renL hx (p1.1 _ ?_), ?_⟩
  · intro b hb
    rcases occFs_cons hb with rfl | ⟨hne, hb'⟩
    · simp [HMap.set_self, Function.comp, inv.fid a (by simp), substIdent, hag _ hx]
    · rw [HMap.set_ne _ _ (var_ne_of_id_ne hne), hag b hb']
      simp only [Function.comp]
      rw [substIdent_of_not_dom]
      simp only [List.mem_singleton, forall_eq]
      intro e
      exact (inv.rng b hb').1 (by simp [← e])
  · intro i hi
    have := p1.2 i hi
    simp only [Core.FsStmt.binderIds, Core.FsTerm.binderIds, List.append_nil, List.mem_cons]
    exact ⟨this.1.elim (fun h => .inl (.inr h)) .inr, this.2⟩

theorem tr_renR {Γ f T y s0 x st t st'} (h : rec (substStmt [(y.id, f x)] (renStmt f s0)) st = .ok (t, st'))
    (hq : Good q st')
    (hwt : wtStmt E s0 = true) (hx : occFs Γ ⟨x, .prd, T⟩ = true)
    (hsc : scStmt (⟨y, .prd, T⟩ :: Γ) s0 = true)
    (inv : InvB Γ f (Core.FsStmt.cut T (.var .prd x T) (.mu .cns y T s0)).binderIds st.maxId) :
    Post E q Γ f (.cut T (.var .prd x T) (.mu .cns y T s0)) st t st' := by
  simp only [Core.FsStmt.binderIds, Core.FsTerm.binderIds, List.nil_append] at inv ⊢
  rw [substStmt_ren] at h
  have ha : y.id ∉ s0.binderIds := (List.nodup_cons.mp inv.nd).1
  have inv1 : InvB (⟨y, .prd, T⟩ :: Γ) f s0.binderIds st.maxId := inv.enterS [⟨y, .prd, T⟩] s0.binderIds (by simp)
  have inv2 := inv1.subst [(y.id, f x)] (by simpa using ha)
    (by simp only [List.mem_singleton, forall_eq]
        exact ⟨fun hc => (inv.rng _ hx).1 (by simp [hc]), (inv.rng _ hx).2⟩)
  have p1 := hrec _ _ s0 st t st' h hq hwt hsc inv2
  refine ⟨fun hm hag => .renR hx (p1.1 _ ?_), ?_⟩
  · intro b hb
    rcases occFs_cons hb with rfl | ⟨hne, hb'⟩
    · simp [HMap.set_self, Function.comp, inv.fid y (by simp), substIdent, hag _ hx]
    · rw [HMap.set_ne _ _ (var_ne_of_id_ne hne), hag b hb']
      simp only [Function.comp]
      rw [substIdent_of_not_dom]
      simp only [List.mem_singleton, forall_eq]
      intro e
      exact (inv.rng b hb').1 (by simp [← e])
  · intro i hi
    have := p1.2 i hi
    simp only [Core.FsStmt.binderIds, Core.FsTerm.binderIds, List.nil_append, List.mem_cons]
    exact ⟨this.1.elim (fun h => .inl (.inr h)) .inr, this.2⟩

/-- a binder `x` whose scope `s0` is translated by the recursive call in the same state: the shape
    shared by `lit/μ~`, `op/μ~`, `let` -/
theorem tr_under_binder {Γ f st t0 st'} {b0 : Core.Binding} {s0 : Core.FsStmt} {B : List Nat}
    (h : rec (renStmt f s0) st = .ok (t0, st')) (hq : Good q st') (hwt : wtStmt E s0 = true)
    (hsc : scStmt (b0 :: Γ) s0 = true) (inv : InvB Γ f B st.maxId)
    (hB : ([b0].map (·.var.id) ++ s0.binderIds).Sublist B) :
    (∀ hm : HMap, Agree Γ hm f → Avoids Γ hm b0.var.id ∧ Tr E q (b0 :: Γ) (hm.set b0.var b0.var.id) s0 t0) ∧
    (∀ i ∈ axBids t0, (i ∈ B ∨ st.maxId < i) ∧ i ≤ st'.maxId) ∧ b0.var.id ∈ B ∧ b0.var.id ≤ st'.maxId ∧
    (∀ i ∈ axBids t0, (i ∈ s0.binderIds ∨ st.maxId < i) ∧ i ≤ st'.maxId) := by
  have inv1 : InvB (b0 :: Γ) f s0.binderIds st.maxId := inv.enterS [b0] s0.binderIds hB
  have p1 := hrec _ _ s0 st t0 st' h hq hwt hsc inv1
  have hmem : b0.var.id ∈ B := hB.subset (by simp)
  have m1 : st.maxId ≤ st'.maxId := (hmono _ _ _ _ h).le
  refine ⟨fun hm hag => ⟨hag.avoids_binder inv hmem, p1.1 _ (hag.cons (inv.fid _ hmem) _ rfl)⟩, ?_, hmem, ?_, p1.2⟩
  · exact bids_lift p1.2 (fun i hi => hB.subset (by simp [hi])) (Nat.le_refl _) (Nat.le_refl _)
  · have := inv.bm _ hmem; omega

theorem tr_litMu {Γ f n x s0 st t0 st'} (h : rec (renStmt f s0) st = .ok (t0, st')) (hq : Good q st')
    (hwt : wtStmt E s0 = true) (hsc : scStmt (⟨x, .prd, .i64⟩ :: Γ) s0 = true)
    (inv : InvB Γ f (Core.FsStmt.cut .i64 (.lit n) (.mu .cns x .i64 s0)).binderIds st.maxId) :
    Post E q Γ f (.cut .i64 (.lit n) (.mu .cns x .i64 s0)) st (.lit (sid x) n t0 none) st' := by
  obtain ⟨h1, h2, h3, h4, _⟩ := tr_under_binder hE hrec hmono (b0 := ⟨x, .prd, .i64⟩) h hq hwt hsc inv
    (by simp [Core.FsStmt.binderIds, Core.FsTerm.binderIds])
  refine ⟨fun hm hag => .litMu (h1 hm hag).1 (h1 hm hag).2, ?_⟩
  intro i hi
  simp only [axBids, List.mem_cons] at hi
  rcases hi with rfl | hi
  · exact ⟨.inl h3, h4⟩
  · exact h2 i hi

omit hE hrec hmono in
theorem tr_litVar {Γ f n α st} (hα : occFs Γ ⟨α, .cns, .i64⟩ = true) {B} (inv : InvB Γ f B st.maxId) :
    Post E q Γ f (.cut .i64 (.lit n) (.var .cns α .i64)) st
      (.lit (sid ⟨"x", st.maxId + 1⟩) n (invokeRet (f α) ⟨"x", st.maxId + 1⟩) none)
      { st with maxId := st.maxId + 1 } := by
  refine ⟨fun hm hag => ?_, ?_⟩
  · refine .litVar hα ?_ (by simp [shrinkIdentifier, hag _ hα]) (by simp [axIds, shrinkIdentifier])
    rw [hag _ hα]
    have : (f α).id ≤ st.maxId := (inv.rng _ hα).2
    simp only [shrinkIdentifier]; omega
  · intro i hi
    simp only [axBids, invokeRet, List.mem_cons, List.not_mem_nil, or_false] at hi
    subst hi
    simp only [shrinkIdentifier]
    exact ⟨.inr (by omega), by omega⟩

theorem tr_opMu {Γ f a o b x s0 st t0 st'} (h : rec (renStmt f s0) st = .ok (t0, st')) (hq : Good q st')
    (ha : occFs Γ ⟨a, .prd, .i64⟩ = true) (hb : occFs Γ ⟨b, .prd, .i64⟩ = true)
    (hwt : wtStmt E s0 = true) (hsc : scStmt (⟨x, .prd, .i64⟩ :: Γ) s0 = true)
    (inv : InvB Γ f (Core.FsStmt.cut .i64 (.op a o b) (.mu .cns x .i64 s0)).binderIds st.maxId) :
    Post E q Γ f (.cut .i64 (.op a o b) (.mu .cns x .i64 s0)) st
      (.op (sid x) (sid (f a)) (shrinkBinop o) (sid (f b)) t0 none) st' := by
  obtain ⟨h1, h2, h3, h4, _⟩ := tr_under_binder hE hrec hmono (b0 := ⟨x, .prd, .i64⟩) h hq hwt hsc inv
    (by simp [Core.FsStmt.binderIds, Core.FsTerm.binderIds])
  refine ⟨fun hm hag => .opMu ha hb (by simp [shrinkIdentifier, hag _ ha]) (by simp [shrinkIdentifier, hag _ hb])
    (h1 hm hag).1 (h1 hm hag).2, ?_⟩
  intro i hi
  simp only [axBids, List.mem_cons] at hi
  rcases hi with rfl | hi
  · exact ⟨.inl h3, h4⟩
  · exact h2 i hi

omit hE hrec hmono in
theorem tr_opVar {Γ f a o b α st} (ha : occFs Γ ⟨a, .prd, .i64⟩ = true) (hb : occFs Γ ⟨b, .prd, .i64⟩ = true)
    (hα : occFs Γ ⟨α, .cns, .i64⟩ = true) {B} (inv : InvB Γ f B st.maxId) :
    Post E q Γ f (.cut .i64 (.op a o b) (.var .cns α .i64)) st
      (.op (sid ⟨"x", st.maxId + 1⟩) (sid (f a)) (shrinkBinop o) (sid (f b))
        (invokeRet (f α) ⟨"x", st.maxId + 1⟩) none)
      { st with maxId := st.maxId + 1 } := by
  refine ⟨fun hm hag => ?_, ?_⟩
  · refine .opVar ha hb (by simp [shrinkIdentifier, hag _ ha]) (by simp [shrinkIdentifier, hag _ hb]) hα ?_
      (by simp [shrinkIdentifier, hag _ hα]) (by simp [axIds, shrinkIdentifier])
    rw [hag _ hα]
    have : (f α).id ≤ st.maxId := (inv.rng _ hα).2
    simp only [shrinkIdentifier]; omega
  · intro i hi
    simp only [axBids, invokeRet, List.mem_cons, List.not_mem_nil, or_false] at hi
    subst hi
    simp only [shrinkIdentifier]
    exact ⟨.inr (by omega), by omega⟩

theorem tr_letData {Γ f T K args x s0 d sig st t0 st'} (h : rec (renStmt f s0) st = .ok (t0, st')) (hq : Good q st')
    (hc : isCodata E.codata T = false) (hd : declOf E T = some d)
    (hsig : d.xtors.find? (fun x => x.name == K) = some sig) (hm : sigMatch args sig.args = true)
    (hocc : ∀ b ∈ args, occFs Γ b = true)
    (hwt : wtStmt E s0 = true) (hsc : scStmt (⟨x, .prd, T⟩ :: Γ) s0 = true)
    (inv : InvB Γ f (Core.FsStmt.cut T (.xtor .prd K args T) (.mu .cns x T s0)).binderIds st.maxId) :
    Post E q Γ f (.cut T (.xtor .prd K args T) (.mu .cns x T s0)) st
      (.letS (sid x) (shrinkTy T) (sid K) (shrinkContext env.codata (renCtx f args)) t0 none) st' := by
  obtain ⟨h1, h2, h3, h4, _⟩ := tr_under_binder hE hrec hmono (b0 := ⟨x, .prd, T⟩) h hq hwt hsc inv
    (by simp [Core.FsStmt.binderIds, Core.FsTerm.binderIds])
  refine ⟨fun hh hag => .letData hc hd hsig hm hocc (by rw [axIds_shrinkContext_ren, hag.map hocc])
    (h1 hh hag).1 (h1 hh hag).2, ?_⟩
  intro i hi
  simp only [axBids, List.mem_cons] at hi
  rcases hi with rfl | hi
  · exact ⟨.inl h3, h4⟩
  · exact h2 i hi

theorem tr_letCodata {Γ f T K args a s0 d sig st t0 st'} (h : rec (renStmt f s0) st = .ok (t0, st')) (hq : Good q st')
    (hc : isCodata E.codata T = true) (hd : declOf E T = some d)
    (hsig : d.xtors.find? (fun x => x.name == K) = some sig) (hm : sigMatch args sig.args = true)
    (hocc : ∀ b ∈ args, occFs Γ b = true)
    (hwt : wtStmt E s0 = true) (hsc : scStmt (⟨a, .cns, T⟩ :: Γ) s0 = true)
    (inv : InvB Γ f (Core.FsStmt.cut T (.mu .prd a T s0) (.xtor .cns K args T)).binderIds st.maxId) :
    Post E q Γ f (.cut T (.mu .prd a T s0) (.xtor .cns K args T)) st
      (.letS (sid a) (shrinkTy T) (sid K) (shrinkContext env.codata (renCtx f args)) t0 none) st' := by
  obtain ⟨h1, h2, h3, h4, _⟩ := tr_under_binder hE hrec hmono (b0 := ⟨a, .cns, T⟩) h hq hwt hsc inv
    (by simp [Core.FsStmt.binderIds, Core.FsTerm.binderIds])
  refine ⟨fun hh hag => .letCodata hc hd hsig hm hocc (by rw [axIds_shrinkContext_ren, hag.map hocc])
    (h1 hh hag).1 (h1 hh hag).2, ?_⟩
  intro i hi
  simp only [axBids, List.mem_cons] at hi
  rcases hi with rfl | hi
  · exact ⟨.inl h3, h4⟩
  · exact h2 i hi

omit hE hrec hmono in
theorem tr_invokeData {Γ f T K args α d sig st} (hc : isCodata E.codata T = false) (hd : declOf E T = some d)
    (hsig : d.xtors.find? (fun x => x.name == K) = some sig) (hm : sigMatch args sig.args = true)
    (hocc : ∀ b ∈ args, occFs Γ b = true) (hα : occFs Γ ⟨α, .cns, T⟩ = true) :
    Post E q Γ f (.cut T (.xtor .prd K args T) (.var .cns α T)) st
      (.invoke (sid (f α)) (sid K) (shrinkTy T) (shrinkContext env.codata (renCtx f args))) st :=
  ⟨fun _ hag => .invokeData hc hd hsig hm hocc (by rw [axIds_shrinkContext_ren, hag.map hocc]) hα
    (by simp [shrinkIdentifier, hag _ hα]), by simp [axBids]⟩

omit hE hrec hmono in
theorem tr_invokeCodata {Γ f T K args x d sig st} (hc : isCodata E.codata T = true) (hd : declOf E T = some d)
    (hsig : d.xtors.find? (fun x => x.name == K) = some sig) (hm : sigMatch args sig.args = true)
    (hocc : ∀ b ∈ args, occFs Γ b = true) (hx : occFs Γ ⟨x, .prd, T⟩ = true) :
    Post E q Γ f (.cut T (.var .prd x T) (.xtor .cns K args T)) st
      (.invoke (sid (f x)) (sid K) (shrinkTy T) (shrinkContext env.codata (renCtx f args))) st :=
  ⟨fun _ hag => .invokeCodata hc hd hsig hm hocc (by rw [axIds_shrinkContext_ren, hag.map hocc]) hx
    (by simp [shrinkIdentifier, hag _ hx]), by simp [axBids]⟩

/-! ### unknown cuts -/

omit hE hrec hmono in
theorem tr_unkInt {Γ f x α st} (hx : occFs Γ ⟨x, .prd, .i64⟩ = true) (hα : occFs Γ ⟨α, .cns, .i64⟩ = true) :
    Post E q Γ f (.cut .i64 (.var .prd x .i64) (.var .cns α .i64)) st
      (.invoke (sid (f α)) (sid retName) contTy [⟨sid (f x), .ext, .i64⟩]) st :=
  ⟨fun _ hag => .unkInt hx hα (by simp [shrinkIdentifier, hag _ hα]) (by simp [axIds, shrinkIdentifier, hag _ hx]),
    by simp [axBids]⟩

omit hE hrec hmono in
theorem etaShape_of_unknown {Γ f B} {st : St} (inv : InvB Γ f B st.maxId) (vE : Core.Ident) (tty : AxCut.Ty)
    (xs : List Core.XtorSig) {hm : HMap} (hag : Agree Γ hm f) :
    EtaShape Γ hm (f vE).id xs (unknownClauses env (f vE) tty xs st).1 := by
  intro K sig hsig
  obtain ⟨envC, h1, h2, h3, h4⟩ := (unknownClauses_eta env (f vE) tty xs st).2.2 K sig hsig
  exact ⟨envC, sid (f vE), tty, envC, h1, rfl, h2, rfl, h3, fun i hi => hag.avoids_fresh inv (h4 i hi).1⟩

omit hE hrec hmono in
theorem tr_unkData {Γ f T x α d st B} (hc : isCodata E.codata T = false) (hd : declOf E T = some d)
    (hx : occFs Γ ⟨x, .prd, T⟩ = true) (hα : occFs Γ ⟨α, .cns, T⟩ = true) (inv : InvB Γ f B st.maxId) :
    Post E q Γ f (.cut T (.var .prd x T) (.var .cns α T)) st
      (.switch (sid (f x)) (shrinkTy T) (unknownClauses env (f α) (shrinkTy T) d.xtors st).1 none)
      (unknownClauses env (f α) (shrinkTy T) d.xtors st).2 := by
  refine ⟨fun hm hag => .unkData hc hd hx hα (by simp [shrinkIdentifier, hag _ hx]) ?_, ?_⟩
  · rw [hag _ hα]; exact etaShape_of_unknown inv α _ _ hag
  · intro i hi
    simp only [axBids] at hi
    have := (unknownClauses_eta env (f α) (shrinkTy T) d.xtors st).2.1 i hi
    exact ⟨.inr this.1, this.2⟩

omit hE hrec hmono in
theorem tr_unkCodata {Γ f T x α d st B} (hc : isCodata E.codata T = true) (hd : declOf E T = some d)
    (hx : occFs Γ ⟨x, .prd, T⟩ = true) (hα : occFs Γ ⟨α, .cns, T⟩ = true) (inv : InvB Γ f B st.maxId) :
    Post E q Γ f (.cut T (.var .prd x T) (.var .cns α T)) st
      (.switch (sid (f α)) (shrinkTy T) (unknownClauses env (f x) (shrinkTy T) d.xtors st).1 none)
      (unknownClauses env (f x) (shrinkTy T) d.xtors st).2 := by
  refine ⟨fun hm hag => .unkCodata hc hd hx hα (by simp [shrinkIdentifier, hag _ hα]) ?_, ?_⟩
  · rw [hag _ hx]; exact etaShape_of_unknown inv x _ _ hag
  · intro i hi
    simp only [axBids] at hi
    have := (unknownClauses_eta env (f x) (shrinkTy T) d.xtors st).2.1 i hi
    exact ⟨.inr this.1, this.2⟩

/-! ### translated clause lists -/

omit hE hrec hmono in
theorem agree_setMany {Γ hm f} (hag : Agree Γ hm f) : ∀ (ctx : Core.Ctx), (∀ b ∈ ctx, f b.var = b.var) →
    Agree (ctx ++ Γ) (hm.setMany ctx (ctx.map fun b => b.var.id)) f
  | [], _ => by simpa [HMap.setMany] using hag
  | b :: bs, hf => by
    simp only [List.map_cons, HMap.setMany, List.cons_append]
    exact (agree_setMany hag bs (fun b hb => hf b (by simp [hb]))).cons (hf b (by simp)) _ rfl

theorem shrinkClauses_tr {Γ f B} : ∀ (xs : List Core.XtorSig) (cl : Core.FsClauses) (st : St) (cls st'),
    shrinkClauses env rec (renClauses f cl) st = .ok (cls, st') → Good q st' → wtClauses E xs cl = true →
    scClauses Γ cl = true → InvB Γ f B st.maxId → cl.binderIds.Sublist B →
    st.maxId ≤ st'.maxId ∧
    (∀ hm : HMap, Agree Γ hm f → ClausesShape Γ hm xs cl cls ∧ ClausesTr E q Γ hm cl cls) ∧
    (∀ i ∈ axBidsC cls, (i ∈ B ∨ st.maxId < i) ∧ i ≤ st'.maxId)
  | [], .nil, st, cls, st', h, _, _, _, _, _ => by
    simp only [renClauses, shrinkClauses, Except.ok.injEq, Prod.mk.injEq] at h
    obtain ⟨rfl, rfl⟩ := h
    refine ⟨Nat.le_refl _, fun hm _ => ⟨?_, ?_⟩, by simp [axBidsC]⟩
    · intro K sig hs; simp at hs
    · intro K ctx body ctx' body' hf; simp [Core.FsClauses.find] at hf
  | [], .cons _ _ _ _, _, _, _, _, _, h, _, _, _ => by simp [wtClauses] at h
  | _ :: _, .nil, _, _, _, _, _, h, _, _, _ => by simp [wtClauses] at h
  | x :: xs, .cons tag ctx body rest, st, cls, st', h, hq, hwt, hsc, inv, hB => by
    simp only [wtClauses, Bool.and_eq_true, beq_iff_eq] at hwt
    obtain ⟨⟨⟨htag, hsm⟩, hwb⟩, hwr⟩ := hwt
    simp only [scClauses, Bool.and_eq_true] at hsc
    simp only [Core.FsClauses.binderIds] at hB
    simp only [renClauses, shrinkClauses] at h
    split at h
    · cases h
    · rename_i body' st1 h1
      split at h
      · cases h
      · rename_i rest' st2 h2
        simp only [Except.ok.injEq, Prod.mk.injEq] at h
        obtain ⟨rfl, rfl⟩ := h
        have m1 : st.maxId ≤ st1.maxId := (hmono _ _ _ _ h1).le
        have hq1 : Good q st1 := Good.of_mono (shrinkClauses_rel Mono.stRel hmono _ _ _ _ h2) hq
        have hBc : (Core.ctxIds ctx ++ body.binderIds).Sublist B :=
          (List.sublist_append_left _ _).trans hB
        have hndc : (Core.ctxIds ctx).Nodup := (List.nodup_append.mp (hBc.nodup inv.nd)).1
        have invb : InvB (ctx ++ Γ) f body.binderIds st.maxId := inv.enterS ctx body.binderIds hBc
        have p1 := hrec _ _ body st body' st1 h1 hq1 hwb hsc.1 invb
        obtain ⟨m2, r1, r2⟩ := shrinkClauses_tr xs rest st1 rest' st2 h2 hq hwr hsc.2 (inv.mono m1)
          ((List.sublist_append_right _ _).trans hB)
        refine ⟨by omega, fun hm hag => ⟨?_, ?_⟩, ?_⟩
        · intro K sig hs
          simp only [List.find?_cons] at hs
          simp only [Core.FsClauses.find, AxCut.Named.findClause, sid_beq]
          split at hs
          · rename_i hx
            simp only [Option.some.injEq] at hs
            subst hs
            have hK : tag = K := by rw [htag]; exact eq_of_beq hx
            subst hK
            simp only [if_true, beq_self_eq_true]
            refine ⟨ctx, body, shrinkContext env.codata ctx, body', rfl, hsm, rfl, by simp [shrinkContext],
              by rw [axIds_shrinkContext]; exact hndc, ?_⟩
            intro i hi
            rw [axIds_shrinkContext] at hi
            exact hag.avoids_binder inv (hBc.subset (by simp [Core.ctxIds] at hi ⊢; exact .inl hi))
          · rename_i hx
            have hK : ¬ tag = K := by rw [htag]; simpa using hx
            have hK2 : (tag == K) = false := by simpa using hK
            simp only [hK, if_false, hK2]
            exact (r1 hm hag).1 K sig hs
        · intro K ctx0 body0 ctx0' body0' hf hfc hl
          simp only [Core.FsClauses.find] at hf
          simp only [AxCut.Named.findClause, sid_beq] at hfc
          by_cases hK : tag = K
          · subst hK
            simp only [if_true, Option.some.injEq, Prod.mk.injEq] at hf
            simp only [beq_self_eq_true, if_true, Option.some.injEq, Prod.mk.injEq] at hfc
            obtain ⟨rfl, rfl⟩ := hf
            obtain ⟨rfl, rfl⟩ := hfc
            rw [axIds_shrinkContext]
            refine p1.1 _ (agree_setMany hag ctx ?_)
            intro b hb
            exact inv.fid _ (hBc.subset (by simp [Core.ctxIds]; exact .inl ⟨b, hb, rfl⟩))
          · have hK2 : (tag == K) = false := by simpa using hK
            simp only [hK, if_false] at hf
            simp only [hK2] at hfc
            exact (r1 hm hag).2 K ctx0 body0 ctx0' body0' hf hfc hl
        · intro i hi
          simp only [axBidsC, List.mem_append] at hi
          rcases hi with hi | hi | hi
          · rw [axIds_shrinkContext] at hi
            have hm : i ∈ B := hBc.subset (by simp [Core.ctxIds] at hi ⊢; exact .inl hi)
            exact ⟨.inl hm, by have := inv.bm i hm; omega⟩
          · exact bids_lift p1.2 (fun i hi => hBc.subset (by simp [hi])) (Nat.le_refl _) m2 i hi
          · exact bids_lift r2 (fun i hi => hi) m1 (Nat.le_refl _) i hi

/-! ### switch, create -/

theorem tr_switchData {Γ f T x cl d st cls st'} (h : shrinkClauses env rec (renClauses f cl) st = .ok (cls, st'))
    (hq : Good q st')
    (hc : isCodata E.codata T = false) (hd : declOf E T = some d) (hx : occFs Γ ⟨x, .prd, T⟩ = true)
    (hwt : wtClauses E d.xtors cl = true) (hsc : scClauses Γ cl = true)
    (inv : InvB Γ f (Core.FsStmt.cut T (.var .prd x T) (.xcase .cns T cl)).binderIds st.maxId) :
    Post E q Γ f (.cut T (.var .prd x T) (.xcase .cns T cl)) st (.switch (sid (f x)) (shrinkTy T) cls none) st' := by
  simp only [Core.FsStmt.binderIds, Core.FsTerm.binderIds, List.nil_append] at inv ⊢
  obtain ⟨_, r1, r2⟩ := shrinkClauses_tr hE hrec hmono d.xtors cl st cls st' h hq hwt hsc inv (List.Sublist.refl _)
  refine ⟨fun hm hag => .switchData hc hd hx (by simp [shrinkIdentifier, hag _ hx]) (r1 hm hag).1 (r1 hm hag).2, ?_⟩
  intro i hi
  simp only [axBids] at hi
  simpa [Core.FsStmt.binderIds, Core.FsTerm.binderIds] using r2 i hi

theorem tr_switchCodata {Γ f T α cl d st cls st'} (h : shrinkClauses env rec (renClauses f cl) st = .ok (cls, st'))
    (hq : Good q st')
    (hc : isCodata E.codata T = true) (hd : declOf E T = some d) (hα : occFs Γ ⟨α, .cns, T⟩ = true)
    (hwt : wtClauses E d.xtors cl = true) (hsc : scClauses Γ cl = true)
    (inv : InvB Γ f (Core.FsStmt.cut T (.xcase .prd T cl) (.var .cns α T)).binderIds st.maxId) :
    Post E q Γ f (.cut T (.xcase .prd T cl) (.var .cns α T)) st (.switch (sid (f α)) (shrinkTy T) cls none) st' := by
  simp only [Core.FsStmt.binderIds, Core.FsTerm.binderIds, List.append_nil] at inv ⊢
  obtain ⟨_, r1, r2⟩ := shrinkClauses_tr hE hrec hmono d.xtors cl st cls st' h hq hwt hsc inv (List.Sublist.refl _)
  refine ⟨fun hm hag => .switchCodata hc hd hα (by simp [shrinkIdentifier, hag _ hα]) (r1 hm hag).1 (r1 hm hag).2, ?_⟩
  intro i hi
  simp only [axBids] at hi
  simpa [Core.FsStmt.binderIds, Core.FsTerm.binderIds] using r2 i hi

theorem tr_createData {Γ f T a s0 cl d st cls st1 t0 st'}
    (h : shrinkClauses env rec (renClauses f cl) st = .ok (cls, st1)) (h2 : rec (renStmt f s0) st1 = .ok (t0, st'))
    (hq : Good q st')
    (hc : isCodata E.codata T = false) (hd : declOf E T = some d)
    (hwt : wtClauses E d.xtors cl = true) (hsc : scClauses Γ cl = true)
    (hwt0 : wtStmt E s0 = true) (hsc0 : scStmt (⟨a, .cns, T⟩ :: Γ) s0 = true)
    (inv : InvB Γ f (Core.FsStmt.cut T (.mu .prd a T s0) (.xcase .cns T cl)).binderIds st.maxId) :
    Post E q Γ f (.cut T (.mu .prd a T s0) (.xcase .cns T cl)) st
      (.create (sid a) (shrinkTy T) none cls t0 none none) st' := by
  simp only [Core.FsStmt.binderIds, Core.FsTerm.binderIds] at inv
  obtain ⟨m1, r1, r2⟩ := shrinkClauses_tr hE hrec hmono d.xtors cl st cls st1 h
    (Good.of_mono (hmono _ _ _ _ h2) hq) hwt hsc inv
    (List.sublist_append_right _ _)
  obtain ⟨g1, g2, g3, g4, _⟩ := tr_under_binder hE hrec hmono (b0 := ⟨a, .cns, T⟩) h2 hq hwt0 hsc0 (inv.mono m1)
    (by simp)
  have m2 : st1.maxId ≤ st'.maxId := (hmono _ _ _ _ h2).le
  refine ⟨fun hm hag => .createData hc hd (g1 hm hag).1 (r1 hm hag).1 (r1 hm hag).2 (g1 hm hag).2, ?_⟩
  intro i hi
  simp only [axBids, List.mem_cons, List.mem_append] at hi
  simp only [Core.FsStmt.binderIds, Core.FsTerm.binderIds]
  rcases hi with rfl | hi | hi
  · exact ⟨.inl g3, g4⟩
  · exact bids_lift r2 (fun i hi => hi) (Nat.le_refl _) m2 i hi
  · exact bids_lift g2 (fun i hi => hi) m1 (Nat.le_refl _) i hi

theorem tr_createCodata {Γ f T x s0 cl d st cls st1 t0 st'}
    (h : shrinkClauses env rec (renClauses f cl) st = .ok (cls, st1)) (h2 : rec (renStmt f s0) st1 = .ok (t0, st'))
    (hq : Good q st')
    (hc : isCodata E.codata T = true) (hd : declOf E T = some d)
    (hwt : wtClauses E d.xtors cl = true) (hsc : scClauses Γ cl = true)
    (hwt0 : wtStmt E s0 = true) (hsc0 : scStmt (⟨x, .prd, T⟩ :: Γ) s0 = true)
    (inv : InvB Γ f (Core.FsStmt.cut T (.xcase .prd T cl) (.mu .cns x T s0)).binderIds st.maxId) :
    Post E q Γ f (.cut T (.xcase .prd T cl) (.mu .cns x T s0)) st
      (.create (sid x) (shrinkTy T) none cls t0 none none) st' := by
  simp only [Core.FsStmt.binderIds, Core.FsTerm.binderIds] at inv
  obtain ⟨m1, r1, r2⟩ := shrinkClauses_tr hE hrec hmono d.xtors cl st cls st1 h
    (Good.of_mono (hmono _ _ _ _ h2) hq) hwt hsc inv
    (List.sublist_append_left _ _)
  obtain ⟨g1, g2, g3, g4, _⟩ := tr_under_binder hE hrec hmono (b0 := ⟨x, .prd, T⟩) h2 hq hwt0 hsc0 (inv.mono m1)
    (by simp)
  have m2 : st1.maxId ≤ st'.maxId := (hmono _ _ _ _ h2).le
  refine ⟨fun hm hag => .createCodata hc hd (g1 hm hag).1 (r1 hm hag).1 (r1 hm hag).2 (g1 hm hag).2, ?_⟩
  intro i hi
  simp only [axBids, List.mem_cons, List.mem_append] at hi
  simp only [Core.FsStmt.binderIds, Core.FsTerm.binderIds]
  rcases hi with rfl | hi | hi
  · exact ⟨.inl g3, g4⟩
  · exact bids_lift r2 (fun i hi => hi) (Nat.le_refl _) m2 i hi
  · exact bids_lift g2 (fun i hi => hi) m1 (Nat.le_refl _) i hi

/-! ### known cuts -/

omit hE hrec hmono in
theorem findClause_ren (f) (K : Core.Ident) : ∀ (cl : Core.FsClauses),
    findClause K (renClauses f cl) = (cl.find K).map (fun cb => (cb.1, renStmt f cb.2))
  | .nil => rfl
  | .cons x c b r => by
    simp only [renClauses, findClause, Core.FsClauses.find]
    by_cases hx : x = K
    · simp [hx]
    · have : (x == K) = false := by simpa using hx
      simp only [this, hx, if_false]
      exact findClause_ren f K r

omit hE hrec hmono in
theorem find_sublist {K ctx body} : ∀ (cl : Core.FsClauses), cl.find K = some (ctx, body) →
    (Core.ctxIds ctx ++ body.binderIds).Sublist cl.binderIds
  | .nil, h => by simp [Core.FsClauses.find] at h
  | .cons x c b r, h => by
    simp only [Core.FsClauses.find] at h
    simp only [Core.FsClauses.binderIds]
    split at h
    · simp only [Option.some.injEq, Prod.mk.injEq] at h
      obtain ⟨rfl, rfl⟩ := h
      exact List.sublist_append_left _ _
    · exact (find_sublist r h).trans (List.sublist_append_right _ _)

omit hE hrec hmono in
theorem known_agree_mem (hm : HMap) : ∀ (ctx : Core.Ctx) (vars : List Core.Ident),
    (ctx.map fun b => b.var.id).Nodup → ctx.length = vars.length → ∀ b ∈ ctx,
    (hm.setMany ctx (vars.map fun v => v.id)) b.var =
      (substIdent ((ctx.map fun b => b.var.id).zip vars) b.var).id
  | [], _, _, _, b, hb => by simp at hb
  | _ :: _, [], _, hl, _, _ => by simp at hl
  | b0 :: bs, v :: vs, hnd, hl, b, hb => by
    simp only [List.map_cons, List.nodup_cons] at hnd
    simp only [List.map_cons, HMap.setMany, List.zip_cons_cons, substIdent, List.find?_cons]
    rcases List.mem_cons.mp hb with rfl | hb'
    · simp [HMap.set_self]
    · have hne : b.var.id ≠ b0.var.id := fun e => hnd.1 (by rw [← e]; exact List.mem_map.mpr ⟨b, hb', rfl⟩)
      have hne2 : (b0.var.id == b.var.id) = false := by simpa using fun e => hne e.symm
      rw [HMap.set_ne _ _ (var_ne_of_id_ne hne)]
      simp only [hne2]
      have := known_agree_mem hm bs vs hnd.2 (by simpa using hl) b hb'
      simpa [substIdent] using this

/-- the common part of the two known cuts -/
theorem tr_known {Γ f} {K : Core.Ident} {args} {cl : Core.FsClauses} {ctx body st t st' B} {sig : Core.XtorSig}
    (h : rec (substStmt ((ctx.map fun b => b.var.id).zip ((renCtx f args).map (·.var))) (renStmt f body)) st =
      .ok (t, st')) (hq : Good q st')
    (hf : cl.find K = some (ctx, body)) (hm : sigMatch args sig.args = true)
    (hocc : ∀ b ∈ args, occFs Γ b = true) (hm2 : sigMatch ctx sig.args = true)
    (hwt : wtStmt E body = true) (hsc : scStmt (ctx ++ Γ) body = true)
    (inv : InvB Γ f B st.maxId) (hB : cl.binderIds.Sublist B) :
    (∀ hh : HMap, Agree Γ hh f → Tr E q (ctx ++ Γ) (hh.setMany ctx (args.map fun b => hh b.var)) body t) ∧
    (∀ i ∈ axBids t, (i ∈ B ∨ st.maxId < i) ∧ i ≤ st'.maxId) := by
  rw [substStmt_ren] at h
  have hBc : (Core.ctxIds ctx ++ body.binderIds).Sublist B := (find_sublist cl hf).trans hB
  have hnd := List.nodup_append.mp (hBc.nodup inv.nd)
  have inv1 : InvB (ctx ++ Γ) f body.binderIds st.maxId := inv.enterS ctx body.binderIds hBc
  have hlen : ctx.length = args.length := by rw [sigMatch_length hm2, sigMatch_length hm]
  have inv2 := inv1.subst ((ctx.map fun b => b.var.id).zip ((renCtx f args).map (·.var)))
    (by intro p hp hc
        have := (List.of_mem_zip hp).1
        exact hnd.2.2 _ this _ hc rfl)
    (by intro p hp
        have := (List.of_mem_zip hp).2
        simp only [renCtx, renBinding, List.map_map, List.mem_map, Function.comp] at this
        obtain ⟨b, hb, hbe⟩ := this
        rw [← hbe]
        have := inv.rng b (hocc b hb)
        exact ⟨fun hc => this.1 (hBc.subset (by simp [hc])), this.2⟩)
  have p1 := hrec _ _ body st t st' h hq hwt hsc inv2
  refine ⟨fun hh hag => p1.1 _ ?_, bids_lift p1.2 (fun i hi => hBc.subset (by simp [hi])) (Nat.le_refl _) (Nat.le_refl _)⟩
  intro b hb
  simp only [Function.comp]
  rcases occFs_append hb with hmem | ⟨hnm, ho⟩
  · have hid : b.var.id ∈ B := hBc.subset (by simp [Core.ctxIds]; exact .inl ⟨b, hmem, rfl⟩)
    rw [inv.fid _ hid, ← hag.map hocc]
    have := known_agree_mem hh ctx ((renCtx f args).map (·.var)) hnd.1 (by simp [renCtx, hlen]) b hmem
    simp only [renCtx, renBinding, List.map_map, Function.comp_def] at this ⊢
    exact this
  · have hv : b.var ∉ ctx.map (·.var) := by
      intro hc
      obtain ⟨c, hc1, hc2⟩ := List.mem_map.mp hc
      exact hnm (List.mem_map.mpr ⟨c, hc1, by rw [hc2]⟩)
    rw [setMany_of_not_mem _ _ _ _ hv, hag b ho, substIdent_of_not_dom]
    intro p hp e
    have h1 := (List.of_mem_zip hp).1
    exact (inv.rng b ho).1 (hBc.subset (by rw [← e]; simp [Core.ctxIds] at h1 ⊢; exact .inl h1))

theorem tr_knownData {Γ f T K args cl d sig ctx body st t st'}
    (h : rec (substStmt ((ctx.map fun b => b.var.id).zip ((renCtx f args).map (·.var))) (renStmt f body)) st =
      .ok (t, st')) (hq : Good q st')
    (hc : isCodata E.codata T = false) (hd : declOf E T = some d)
    (hsig : d.xtors.find? (fun x => x.name == K) = some sig)
    (hf : cl.find K = some (ctx, body)) (hm : sigMatch args sig.args = true)
    (hocc : ∀ b ∈ args, occFs Γ b = true) (hm2 : sigMatch ctx sig.args = true)
    (hwt : wtStmt E body = true) (hsc : scStmt (ctx ++ Γ) body = true)
    (inv : InvB Γ f (Core.FsStmt.cut T (.xtor .prd K args T) (.xcase .cns T cl)).binderIds st.maxId) :
    Post E q Γ f (.cut T (.xtor .prd K args T) (.xcase .cns T cl)) st t st' := by
  simp only [Core.FsStmt.binderIds, Core.FsTerm.binderIds, List.nil_append] at inv
  obtain ⟨r1, r2⟩ := tr_known hE hrec hmono h hq hf hm hocc hm2 hwt hsc inv (List.Sublist.refl _)
  refine ⟨fun hh hag => .knownData hc hd hsig hm hocc hf hm2 (r1 hh hag), ?_⟩
  simpa [Core.FsStmt.binderIds, Core.FsTerm.binderIds] using r2

theorem tr_knownCodata {Γ f T K args cl d sig ctx body st t st'}
    (h : rec (substStmt ((ctx.map fun b => b.var.id).zip ((renCtx f args).map (·.var))) (renStmt f body)) st =
      .ok (t, st')) (hq : Good q st')
    (hc : isCodata E.codata T = true) (hd : declOf E T = some d)
    (hsig : d.xtors.find? (fun x => x.name == K) = some sig)
    (hf : cl.find K = some (ctx, body)) (hm : sigMatch args sig.args = true)
    (hocc : ∀ b ∈ args, occFs Γ b = true) (hm2 : sigMatch ctx sig.args = true)
    (hwt : wtStmt E body = true) (hsc : scStmt (ctx ++ Γ) body = true)
    (inv : InvB Γ f (Core.FsStmt.cut T (.xcase .prd T cl) (.xtor .cns K args T)).binderIds st.maxId) :
    Post E q Γ f (.cut T (.xcase .prd T cl) (.xtor .cns K args T)) st t st' := by
  simp only [Core.FsStmt.binderIds, Core.FsTerm.binderIds, List.append_nil] at inv
  obtain ⟨r1, r2⟩ := tr_known hE hrec hmono h hq hf hm hocc hm2 hwt hsc inv (List.Sublist.refl _)
  refine ⟨fun hh hag => .knownCodata hc hd hsig hm hocc hf hm2 (r1 hh hag), ?_⟩
  simpa [Core.FsStmt.binderIds, Core.FsTerm.binderIds] using r2

/-! ### critical pairs -/

theorem tr_critInt {Γ f a s1 x s2 st t2 st1 t1 st'} (h1 : rec (renStmt f s2) st = .ok (t2, st1))
    (h2 : rec (renStmt f s1) st1 = .ok (t1, st')) (hq : Good q st')
    (hwt1 : wtStmt E s1 = true) (hsc1 : scStmt (⟨a, .cns, .i64⟩ :: Γ) s1 = true)
    (hwt2 : wtStmt E s2 = true) (hsc2 : scStmt (⟨x, .prd, .i64⟩ :: Γ) s2 = true)
    (inv : InvB Γ f (Core.FsStmt.cut .i64 (.mu .prd a .i64 s1) (.mu .cns x .i64 s2)).binderIds st.maxId) :
    Post E q Γ f (.cut .i64 (.mu .prd a .i64 s1) (.mu .cns x .i64 s2)) st
      (.create (sid a) contTy none (.cons (sid retName) [⟨sid x, .ext, .i64⟩] t2 .nil) t1 none none) st' := by
  simp only [Core.FsStmt.binderIds, Core.FsTerm.binderIds] at inv
  have m1 : st.maxId ≤ st1.maxId := (hmono _ _ _ _ h1).le
  have m2 : st1.maxId ≤ st'.maxId := (hmono _ _ _ _ h2).le
  obtain ⟨g1, g2, g3, g4, _⟩ := tr_under_binder hE hrec hmono (b0 := ⟨x, .prd, .i64⟩) h1
    (Good.of_mono (hmono _ _ _ _ h2) hq) hwt2 hsc2 inv
    (by simp only [List.map_cons, List.map_nil, List.singleton_append]; exact List.sublist_append_right _ _)
  obtain ⟨k1, k2, k3, k4, _⟩ := tr_under_binder hE hrec hmono (b0 := ⟨a, .cns, .i64⟩) h2 hq hwt1 hsc1 (inv.mono m1)
    (by simp)
  refine ⟨fun hm hag => .critInt (k1 hm hag).1 (g1 hm hag).1 rfl (g1 hm hag).2 (k1 hm hag).2, ?_⟩
  intro i hi
  simp only [axBids, axBidsC, axIds, List.map_cons, List.map_nil, List.mem_cons, List.mem_append,
    List.not_mem_nil, or_false] at hi
  simp only [Core.FsStmt.binderIds, Core.FsTerm.binderIds]
  rcases hi with rfl | (rfl | hi) | hi
  · exact ⟨.inl k3, k4⟩
  · exact ⟨.inl g3, by have : x.id ≤ st1.maxId := g4; show x.id ≤ _; omega⟩
  · exact bids_lift g2 (fun i hi => hi) (Nat.le_refl _) m2 i hi
  · exact bids_lift k2 (fun i hi => hi) m1 (Nat.le_refl _) i hi

omit hE hrec hmono in
theorem isLeafStmt_ren (f) : ∀ s, isLeafStmt (renStmt f s) = isLeafStmt s
  | .cut _ p c => by cases p <;> cases c <;> rfl
  | .ifc _ _ _ _ _ => rfl
  | .print _ _ _ => rfl
  | .call _ _ => rfl
  | .exit _ => rfl

/-- `shrink_critical_pairs` at a declared type, both orientations: `bK`/`sK` the side that is kept as
    the continuation of `create`, `bE`/`sE` the side that is eta-expanded -/
theorem tr_criticalDecl {Γ f d name tty} {bK bE : Core.Binding} {sK sE : Core.FsStmt} {st t st' B}
    (h : criticalDecl env rec d name tty bK.var (renStmt f sK) bE.var (renStmt f sE) st = .ok (t, st'))
    (hq : Good q st') (hlift : RecTr E q (lift env rec))
    (hwtK : wtStmt E sK = true) (hscK : scStmt (bK :: Γ) sK = true)
    (hwtE : wtStmt E sE = true) (hscE : scStmt (bE :: Γ) sE = true)
    (inv : InvB Γ f B st.maxId)
    (hBK : ([bK].map (·.var.id) ++ sK.binderIds).Sublist B) (hBE : ([bE].map (·.var.id) ++ sE.binderIds).Sublist B) :
    ∃ cls tK, t = .create (sid bK.var) (.decl (sid name)) none cls tK none none ∧
      (∀ hm : HMap, Agree Γ hm f → Avoids Γ hm bK.var.id ∧ CritShape Γ hm d.xtors cls ∧
        CritTr E q Γ hm bE sE cls ∧ Tr E q (bK :: Γ) (hm.set bK.var bK.var.id) sK tK) ∧
      (∀ i ∈ axBids t, (i ∈ B ∨ st.maxId < i) ∧ i ≤ st'.maxId) := by
  simp only [criticalDecl] at h
  -- the expanded side is translated in place (`rec`) or lifted (`lift`)
  have key : ∃ F : Rec, RecTr E q F ∧ RecRel Mono F ∧
      (if inlineExpand d.xtors.length (renStmt f sE) = true then rec (renStmt f sE) st
       else lift env rec (renStmt f sE) st) = F (renStmt f sE) st := by
    split
    · exact ⟨rec, hrec, hmono, rfl⟩
    · exact ⟨lift env rec, hlift, lift_mono hmono, rfl⟩
  obtain ⟨F, hF, hFm, e⟩ := key
  rw [e] at h
  split at h
  · cases h
  · rename_i t2 st1 h1
    split at h
    · cases h
    · rename_i tK st3 h3
      simp only [Except.ok.injEq, Prod.mk.injEq] at h
      obtain ⟨rfl, rfl⟩ := h
      have m1 : st.maxId ≤ st1.maxId := (hFm _ _ _ _ h1).le
      have hq1 : Good q st1 := Good.of_mono (Mono.stRel.trans
        (Mono.stRel.frame (criticalClauses_frame env bE.var tty t2 d.xtors st1)) (hmono _ _ _ _ h3)) hq
      obtain ⟨c1, c2, c3, c4⟩ := criticalClauses_crit env bE.var tty t2 d.xtors st1
      have m3 : (criticalClauses env bE.var tty t2 d.xtors st1).2.maxId ≤ st3.maxId := (hmono _ _ _ _ h3).le
      obtain ⟨g1, g2, g3, g4, g5⟩ := tr_under_binder hE hF hFm (b0 := bE) h1 hq1 hwtE hscE inv hBE
      obtain ⟨k1, k2, k3, k4, _⟩ := tr_under_binder hE hrec hmono (b0 := bK) h3 hq hwtK hscK
        (inv.mono (Nat.le_trans m1 c1)) hBK
      have hndE := List.nodup_append.mp (hBE.nodup inv.nd)
      have hE1 : bE.var.id ∉ sE.binderIds := fun hc => hndE.2.2 _ (by simp) _ hc rfl
      have hE2 : bE.var.id ≤ st.maxId := inv.bm _ g3
      refine ⟨_, tK, rfl, fun hm hag => ⟨(k1 hm hag).1, ?_, ?_, (k1 hm hag).2⟩, ?_⟩
      · intro K sig hsig
        obtain ⟨envC, w, f1, f2, f3, f4, f5, f6⟩ := c3 K sig hsig
        exact ⟨envC, w, tty, envC, _, none, f1, f2, rfl, f3,
          fun i hi => hag.avoids_fresh inv (by have := (f4 i hi).1; omega), hag.avoids_fresh inv (by omega)⟩
      · intro tag envC w ty'' tg envC' t fv hfind
        obtain ⟨rfl, hw⟩ := c4 tag envC w ty'' tg envC' t fv hfind
        refine Tr.axSubst bE.var.id w (g1 hm hag).2 ?_ ?_ _ ?_
        · intro hc
          rcases (g5 _ hc).1 with h' | h'
          · exact hE1 h'
          · omega
        · intro hc
          have := (g2 _ hc).2
          omega
        · intro b hb
          rcases occFs_cons hb with rfl | ⟨hne, hb'⟩
          · simp [HMap.set_self, sub1]
          · rw [HMap.set_ne _ _ (var_ne_of_id_ne hne), HMap.set_ne _ _ (var_ne_of_id_ne hne)]
            exact (sub1_of_ne ((g1 hm hag).1 b hb')).symm
      · intro i hi
        simp only [axBids, List.mem_cons, List.mem_append] at hi
        rcases hi with rfl | hi | hi
        · exact ⟨.inl k3, k4⟩
        · rcases c2 i hi with h' | h'
          · exact ⟨.inr (by omega), by omega⟩
          · exact bids_lift g2 (fun i hi => hi) (Nat.le_refl _) (Nat.le_trans c1 m3) i h'
        · exact bids_lift k2 (fun i hi => hi) (Nat.le_trans m1 c1) (Nat.le_refl _) i hi

/-! ### inversion of the shape typing -/

omit hE hrec hmono in
theorem wt_var {side T pc v t} (h : wtTerm E side T (.var pc v t) = true) : pc = side ∧ T = t := by
  simp only [wtTerm, Bool.and_eq_true, beq_iff_eq] at h
  exact ⟨h.1, h.2.symm⟩

omit hE hrec hmono in
theorem wt_mu {side T pc v t s} (h : wtTerm E side T (.mu pc v t s) = true) :
    pc = side ∧ T = t ∧ wtStmt E s = true := by
  simp only [wtTerm, Bool.and_eq_true, beq_iff_eq] at h
  exact ⟨h.1.1, h.1.2.symm, h.2⟩

omit hE hrec hmono in
theorem wt_xtor {side T pc name args t} (h : wtTerm E side T (.xtor pc name args t) = true) :
    pc = side ∧ T = t ∧ ∃ d sig, declOf E T = some d ∧ isCodata E.codata T = (side == .cns) ∧
      d.xtors.find? (fun x => x.name == name) = some sig ∧ sigMatch args sig.args = true := by
  simp only [wtTerm, Bool.and_eq_true, beq_iff_eq] at h
  obtain ⟨⟨h1, h2⟩, h3⟩ := h
  refine ⟨h1, h2.symm, ?_⟩
  split at h3
  · rename_i d hd
    simp only [Bool.and_eq_true, beq_iff_eq] at h3
    obtain ⟨h4, h5⟩ := h3
    split at h5
    · rename_i sig hsig; exact ⟨d, sig, hd, h4, hsig, h5⟩
    · cases h5
  · cases h3

omit hE hrec hmono in
theorem wt_xcase {side T pc t cs} (h : wtTerm E side T (.xcase pc t cs) = true) :
    pc = side ∧ T = t ∧ ∃ d, declOf E T = some d ∧ isCodata E.codata T = (side == .prd) ∧
      wtClauses E d.xtors cs = true := by
  simp only [wtTerm, Bool.and_eq_true, beq_iff_eq] at h
  obtain ⟨⟨h1, h2⟩, h3⟩ := h
  refine ⟨h1, h2.symm, ?_⟩
  split at h3
  · rename_i d hd
    simp only [Bool.and_eq_true, beq_iff_eq] at h3
    exact ⟨d, hd, h3.1, h3.2⟩
  · cases h3

omit hE hrec hmono in
theorem find_wt {K ctx body} : ∀ (xs : List Core.XtorSig) (cl : Core.FsClauses) (sig : Core.XtorSig),
    wtClauses E xs cl = true → xs.find? (fun x => x.name == K) = some sig →
    cl.find K = some (ctx, body) → sigMatch ctx sig.args = true ∧ wtStmt E body = true
  | [], .nil, _, _, h, _ => by simp at h
  | [], .cons _ _ _ _, _, h, _, _ => by simp [wtClauses] at h
  | _ :: _, .nil, _, h, _, _ => by simp [wtClauses] at h
  | y :: ys, .cons tag c b r, sig, h, hf, hfc => by
    simp only [wtClauses, Bool.and_eq_true, beq_iff_eq] at h
    obtain ⟨⟨⟨ht, hm⟩, hb⟩, hr⟩ := h
    simp only [List.find?_cons] at hf
    simp only [Core.FsClauses.find] at hfc
    split at hf
    · rename_i hy
      have : tag = K := by rw [ht]; exact eq_of_beq hy
      simp only [this, if_true, Option.some.injEq, Prod.mk.injEq] at hfc
      simp only [Option.some.injEq] at hf
      obtain ⟨rfl, rfl⟩ := hfc
      subst hf
      exact ⟨hm, hb⟩
    · rename_i hy
      have : ¬ tag = K := by rw [ht]; simpa using hy
      simp only [this, if_false] at hfc
      exact find_wt ys r sig hr hf hfc

omit hE hrec hmono in
theorem find_sc {Γ K ctx body} : ∀ (cl : Core.FsClauses), scClauses Γ cl = true → cl.find K = some (ctx, body) →
    scStmt (ctx ++ Γ) body = true
  | .nil, _, h => by simp [Core.FsClauses.find] at h
  | .cons tag c b r, hs, h => by
    simp only [scClauses, Bool.and_eq_true] at hs
    simp only [Core.FsClauses.find] at h
    split at h
    · simp only [Option.some.injEq, Prod.mk.injEq] at h
      obtain ⟨rfl, rfl⟩ := h
      exact hs.1
    · exact find_sc r hs.2 h

end step

end Scc.Core2AxCut.Sem
