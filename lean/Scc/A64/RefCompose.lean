/-
  Scc.A64.RefCompose — composition of Theorem A (C06Generic: AxCut positional machine ⟶ abstract backend
  machine on the mock code) with Theorem B (RefRun / RefInit / RefParam: abstract backend machine ⟶
  AArch64 SPEC machine on a laid-out program that holds the routine) for INTEGER programs:
  `int_programs_holds`.
  Also: the labels of the mock code of an integer program are definition labels `f_` and `lab<n>`,
  hence different from the two labels of the routine wrapper, `asm_main` and `cleanup`.
-/
import Scc.A64.RefInit
import Scc.Props.C06Generic

set_option linter.unusedVariables false
set_option linter.unusedSimpArgs false

namespace Scc.A64.Ref

open Scc.AxCut Scc.Backend Scc.Backend.Abs Scc.Backend.Sim Scc.A64 Scc.A64.CC
open Scc.Props.C06Generic
open Scc.Props.C14Generic (LabelSafe)

/-! ## labels of integer programs -/

theorem int_stmtEvents_dfns : ∀ (s : Stmt) (c : Nat), IntStmt s →
    ∀ l ∈ dfns (stmtEvents s c).1, ∃ n, l = Lbl.lab n
  | .lit _ _ next _, c, h => by simp only [stmtEvents]; exact int_stmtEvents_dfns next c h
  | .op _ _ _ _ next _, c, h => by simp only [stmtEvents]; exact int_stmtEvents_dfns next c h
  | .print _ _ next _, c, h => by simp only [stmtEvents]; exact int_stmtEvents_dfns next c h
  | .subst _ next, c, h => by simp only [stmtEvents]; exact int_stmtEvents_dfns next c h
  | .exit _, c, _ => by simp [stmtEvents]
  | .call _ _, c, _ => by simp [stmtEvents]
  | .ifc _ _ _ t e, c, h => by
    simp only [IntStmt] at h
    simp only [stmtEvents, dfns_cons_ref, dfns_append, dfns_cons_dfn, List.mem_append, List.mem_cons]
    rintro l (hl | rfl | hl)
    · exact int_stmtEvents_dfns e _ h.2 l hl
    · exact ⟨_, rfl⟩
    · exact int_stmtEvents_dfns t _ h.1 l hl
  | .letS _ _ _ _ _ _, _, h => absurd h (by simp [IntStmt])
  | .switch _ _ _ _, _, h => absurd h (by simp [IntStmt])
  | .create _ _ _ _ _ _ _, _, h => absurd h (by simp [IntStmt])
  | .invoke _ _ _ _, _, h => absurd h (by simp [IntStmt])

theorem int_defsEvents_dfns : ∀ (defs : List Def) (c : Nat), (∀ d ∈ defs, IntStmt d.body) →
    ∀ l ∈ dfns (defsEvents defs c).1, (∃ f, l = Lbl.defn f) ∨ ∃ n, l = Lbl.lab n
  | [], c, _ => by simp [defsEvents]
  | d :: ds, c, h => by
    simp only [defsEvents, dfns_cons_dfn, dfns_append, List.mem_cons, List.mem_append]
    rintro l ((rfl | hl) | hl)
    · exact Or.inl ⟨_, rfl⟩
    · exact Or.inr (int_stmtEvents_dfns d.body c (h d (by simp)) l hl)
    · exact int_defsEvents_dfns ds _ (fun x hx => h x (by simp [hx])) l hl

theorem render_defn_ne {f : String} {s : String} (hs : s.toList.getLast? ≠ some '_') :
    Lbl.render natRen (.defn f) ≠ s := by
  intro h
  have := congrArg String.toList h
  rw [render_defn] at this
  have h2 := congrArg List.getLast? this
  simp at h2
  exact hs h2.symm

theorem render_lab_ne {n : Nat} {s : String} (hs : s.toList.head? ≠ some 'l') :
    Lbl.render natRen (.lab n) ≠ s := by
  intro h
  have := congrArg String.toList h
  rw [render_lab] at this
  have h2 := congrArg List.head? this
  simp at h2
  exact hs h2.symm

/-- the wrapper labels are not labels of the mock code of an integer program -/
theorem int_labels_ne {hooks : Bool} {p : AxCut.Prog} {c : Nat} {code : List MockOp} {nargs c' : Nat}
    (hcomp : (compile mockSym hooks p).run c = .ok ((code, nargs), c')) (hip : IntProg p) :
    "asm_main" ∉ labelNames code ∧ "cleanup" ∉ labelNames code := by
  obtain ⟨hev, _⟩ := compileR_events hooks natRen p c code nargs c' hcomp
  rw [labelNames_eq_dfns, hev, dfns_map]
  have key : ∀ s : String, s.toList.getLast? ≠ some '_' → s.toList.head? ≠ some 'l' →
      s ∉ (dfns (defsEvents p.defs c).1).map (Lbl.render natRen) := by
    intro s h1 h2 hm
    obtain ⟨l, hl, e⟩ := List.mem_map.1 hm
    rcases int_defsEvents_dfns p.defs c (fun d hd => (hip d hd).2) l hl with ⟨f, rfl⟩ | ⟨n, rfl⟩
    · exact render_defn_ne h1 e
    · exact render_lab_ne h2 e
  exact ⟨key "asm_main" (by decide) (by decide), key "cleanup" (by decide) (by decide)⟩

/-- the entry label of the mock code is its first item, at address 0 -/
theorem compile_mock_entry {hooks : Bool} {p : AxCut.Prog} {c : Nat} {code : List MockOp} {nargs c' : Nat}
    {d0 : Def} (hcomp : (compile mockSym hooks p).run c = .ok ((code, nargs), c'))
    (hd : p.defs.head? = some d0) :
    (∃ rest, code = .label (d0.name.print ++ "_") :: rest) ∧ nargs = d0.ctx.length := by
  unfold compile compileR at hcomp
  cases hdefs : p.defs with
  | nil => rw [hdefs] at hd; simp at hd
  | cons d ds =>
    rw [hdefs] at hd hcomp
    simp only [List.head?_cons, Option.some.injEq] at hd
    subst hd
    simp only [run_bind_ok, run_pure_ok, translateR] at hcomp
    obtain ⟨blocks, c1, ⟨is, c2, h1, rest, c3, h2, rfl, rfl⟩, e, rfl⟩ := hcomp
    injection e with e1 e2
    refine ⟨⟨is ++ assemble mockSym rest (ds.map (·.name)), ?_⟩, e2.symm⟩
    rw [← e1]
    rfl

theorem labelAddr_first (n : String) (rest : List MockOp) :
    (Program.ofOps (.label n :: rest)).labelAddr n = some 0 := by
  simp [Program.ofOps, Program.labelAddr, lookupLabel, Abs.layout]

/-- what `compileProg` does -/
theorem compileProg_ok {B : Backend Code Temporary} {p : AxCut.Prog} {hooks : Bool} {c0 : Nat}
    {body routine : List Code} {nargs : Nat} (h : compileProg B p hooks c0 = .ok (body, nargs, routine)) :
    ∃ c1, (compile B hooks p).run c0 = .ok ((body, nargs), c1) ∧ intoRoutine body nargs = .ok routine := by
  unfold compileProg at h
  cases hx : (compile B hooks p).run c0 with
  | error e => rw [hx] at h; cases h
  | ok r =>
    obtain ⟨⟨body', nargs'⟩, c1⟩ := r
    rw [hx] at h
    simp only at h
    cases hr : intoRoutine body' nargs' with
    | error e => rw [hr] at h; cases h
    | ok routine' =>
      rw [hr] at h
      simp only [Except.ok.injEq, Prod.mk.injEq] at h
      obtain ⟨rfl, rfl, rfl⟩ := h
      exact ⟨c1, rfl, hr⟩

/-- THEOREM A ∘ THEOREM B for integer programs, on a laid-out program that HOLDS the routine: a
    terminating run of the AxCut positional machine is reproduced — same trace, same result — by the
    AArch64 SPEC machine started at `asm_main`. -/
theorem int_programs_holds (p : AxCut.Prog) (args : List Word) (hooks : Bool) (body routine : List Code)
    (nargs : Nat) (d0 : Def)
    (hsafe : LabelSafe p = true) (htp : LinTypedProg p) (hip : IntProg p)
    (hcompX : compileProg a64Backend p hooks 0 = .ok (body, nargs, routine))
    (hd : p.defs.head? = some d0)
    (hcap : ∀ st, Reachable p ⟨d0.ctx, args.map .int, d0.body⟩ st → WithinCapacity st.ctx)
    (fuel : Nat) (out : List (Bool × Word)) (v : Word) (hrun : Pos.run p args fuel = ⟨out, .done v⟩)
    (cfg : MonCfg) (H : CfgCC cfg.mem) (hheap : cfg.heap = false)
    {hk : Code → Bool} {P : Prog} (Hp : Holds hk P routine) :
    ∃ fuel', (runProg P args fuel' cfg).out = out ∧ (runProg P args fuel' cfg).res = .done v := by
  obtain ⟨c1, hcompA, hrout⟩ := compileProg_ok hcompX
  -- the mock code and the rendering
  obtain ⟨ops, hcompM, W⟩ := seg_compile hooks p htp hip hcompA
  obtain ⟨⟨rest, hops⟩, hnargs⟩ := compile_mock_entry hcompM hd
  -- Theorem A
  obtain ⟨fuelA, hA⟩ := TheoremA_run_int hooks p 0 ops nargs c1 d0 args fuel out v hcompM hsafe htp hip hd
    hcap hrun
  have hnodupD := Scc.Props.C14Generic.labels_unique hooks p 0 ops nargs c1 hcompM hsafe
  have hnodup : (labelNames ops).Nodup := by rw [labelNames_eq_dfns]; exact hnodupD
  obtain ⟨hasm, hcln⟩ := int_labels_ne hcompM hip
  -- the abstract run starts at address 0
  have hdup : duplicateLabel (Program.ofOps ops).labels = none := by
    apply duplicateLabel_none
    show ((Abs.layout ops 0).2.map (·.1)).Nodup
    rw [layout_snd_names]
    exact hnodup
  have hentry : (Program.ofOps ops).labelAddr (d0.name.print ++ "_") = some 0 := by
    rw [hops]; exact labelAddr_first _ _
  unfold Abs.run at hA
  simp only [hdup, hentry] at hA
  -- the arguments match the parameters
  have hlen : nargs = args.length := by
    rw [hnargs]
    unfold Pos.run at hrun
    cases hdefs : p.defs with
    | nil => rw [hdefs] at hd; simp at hd
    | cons d ds =>
      rw [hdefs] at hd hrun
      simp only [List.head?_cons, Option.some.injEq] at hd
      subst hd
      simp only at hrun
      by_cases hl : d.ctx.length ≠ args.length
      · simp [hl] at hrun
      · omega
  rw [hlen] at hrout
  have hargs : args.length ≤ 7 := by
    obtain ⟨su, hsu, _⟩ := routine_anatomy hrout
    obtain ⟨moves, hm, _⟩ := setup_eq hsu
    exact CC.moveArguments_le _ _ hm
  -- the header
  obtain ⟨hdr, σ2, hcs, hlabs, hlab, hk0, R⟩ := init_sim (c := cfg.mem) H hrout Hp
  have hhdr : ∀ n ∈ labelNames ops, n ∉ labs hdr := by
    intro n hn hm
    rw [hlabs n hm] at hn
    exact hasm hn
  have hclean : "cleanup" ∉ labs hdr ++ labelNames ops := by
    rw [List.mem_append]
    rintro (h | h)
    · have := hlabs _ h; exact absurd this (by decide)
    · exact hcln h
  -- Theorem B
  obtain ⟨kL, σL, outL, hkB, hret, hx, hout⟩ := abs_run_sim H Hp hcs W hnodup hhdr hclean
    fuelA (initConfig 0 args) .normal σ2 [] hdr.length out v R
    ⟨[], ops, hdr, body, cleanup, rfl, hcs, rfl, rfl, W⟩ hA
  -- the run loop
  obtain ⟨n, steps', hn⟩ := runLoop_msteps hheap (hk0.trans hkB) 0 0
  refine ⟨n + 1, ?_⟩
  have hrl : runProg P args (n + 1) cfg =
      runLoop P cfg (n + 1) { σ := entryState cfg.mem args, pc := pcOf hk routine 2, out := [], steps := 0,
                              blocks := 0 } := by
    unfold runProg
    simp only [hlab]
    rw [if_neg (by omega)]
  rw [hrl, hn 1]
  obtain ⟨h1, h2⟩ := runLoop_ret (cfg := cfg) hret hx outL steps' 0 0
  exact ⟨by rw [h1]; exact hout, h2⟩

end Scc.A64.Ref
