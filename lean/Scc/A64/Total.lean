/-
  Scc.A64.Total — the AArch64 backend satisfies `TotalBackend` (Scc/Backend/TotalDefs.lean), the
  hypothesis of the code-generator totality theorem (property C12, link `codegen_total`).

  Proved here (for BOTH values of `old`, i.e. for the code as it is and for the code before the repairs):
  * `a64_totalG old : TotalBackend (a64BackendG old) capA64 (fun _ => True)`, `a64_total`:
    from every value of the label counter, every monadic method of the backend returns a result or
    fails with "Out of temporaries" — no other error string of the model (the `free_fields - 1`
    underflows of store_values / load_values, the fuel errors of `storeFields` / `loadFields`,
    "Variable … not found in context" for a variable that occurs in the context) is reachable;
    `PartialEq` on temporaries is equality; `variable_temporary` is injective in (number, variable)
    and independent of the label counter.
  * `intoRoutine_resOk`, `intoRoutine_ok`, `compileProg_resOk`: into_routine.rs fails only with
    "too many arguments for main", and not at all for at most 7 arguments.
  * `fitsA64 n` ("every position below 2 * n has a temporary"), `fitsA64_iff : fitsA64 n ↔ 2 * n ≤ 281`, `fitsA64_of_le`
    (281 = (REGISTER_NUM - RESERVED) + (SPILL_NUM - RESERVED_SPILLS) = 26 + 255), tight: `not_fitsA64_141`;
  * `a64_total_fitsG old : TotalBackend (a64BackendG old) (fun _ => False) fitsA64`, `a64_total_fits`:
    when the number of variables fits there is NO error at all.

  All memory lemmas are proved once, parametrised by the permitted errors `cap` and a bound `N` such that
  `Fit cap N` ("`temporary_from_position q` is total-or-`cap` for every q < N"); the two theorems are
  the instances (capA64, any N) and (no error, N = 2 * n under `fitsA64 n`).
  Proof file, core imports only.
-/
import Scc.Backend.TotalDefs
import Scc.A64.Backend

set_option linter.unusedSimpArgs false
set_option linter.unusedVariables false

namespace Scc.A64.Total

open Scc.AxCut Scc.Backend Scc.Backend.Total Scc.A64

/-- the only error of the AArch64 backend methods: utils.rs `temporary_from_position` -/
def capA64 (e : String) : Prop := e = "Out of temporaries"

/-! ## utils.rs: temporary_from_position -/

theorem tfp_eq (q : Nat) : temporaryFromPosition q =
    if q + 4 < 30 then pure (.register (.x (q + 4)))
    else if q + 4 - 30 + 1 < 256 then pure (.spill (q + 4 - 30 + 1))
    else throw "Out of temporaries" := rfl

theorem tfp_run (q c : Nat) : (temporaryFromPosition q).run c =
    if q + 4 < 30 then .ok (.register (.x (q + 4)), c)
    else if q + 4 - 30 + 1 < 256 then .ok (.spill (q + 4 - 30 + 1), c)
    else .error "Out of temporaries" := by
  rw [tfp_eq]
  split
  · rfl
  · split <;> rfl

/-- `temporary_from_position` fails only with "Out of temporaries" -/
theorem tfp_cap (q : Nat) : Tot capA64 (temporaryFromPosition q) := by
  intro c
  rw [tfp_run]
  by_cases h1 : q + 4 < 30
  · rw [if_pos h1]; trivial
  · rw [if_neg h1]
    by_cases h2 : q + 4 - 30 + 1 < 256
    · rw [if_pos h2]; trivial
    · rw [if_neg h2]; exact rfl

/-- `temporary_from_position` succeeds below 281 = 26 registers + 255 spill slots … -/
theorem tfp_ok {q : Nat} (h : q < 281) : ∃ t, ∀ c, (temporaryFromPosition q).run c = .ok (t, c) := by
  by_cases h1 : q + 4 < 30
  · exact ⟨.register (.x (q + 4)), fun c => by rw [tfp_run, if_pos h1]⟩
  · have h2 : q + 4 - 30 + 1 < 256 := by omega
    exact ⟨.spill (q + 4 - 30 + 1), fun c => by rw [tfp_run, if_neg h1, if_pos h2]⟩

/-- … and fails from 281 on -/
theorem tfp_fail {q : Nat} (h : 281 ≤ q) (c : Nat) :
    (temporaryFromPosition q).run c = .error "Out of temporaries" := by
  have h1 : ¬ q + 4 < 30 := by omega
  have h2 : ¬ q + 4 - 30 + 1 < 256 := by omega
  rw [tfp_run, if_neg h1, if_neg h2]

/-- where it succeeds, `temporary_from_position` is injective (and ignores the counter) -/
theorem tfp_inj {q q' c c' k k' : Nat} {t : Temporary}
    (h : (temporaryFromPosition q).run c = .ok (t, k))
    (h' : (temporaryFromPosition q').run c' = .ok (t, k')) : q = q' := by
  rw [tfp_run] at h h'
  split at h
  · split at h'
    · cases h; injection h' with h'; injection h' with h'; injection h' with h'; injection h' with h'
      omega
    · split at h'
      · cases h; injection h' with h'; injection h' with h'; cases h'
      · cases h'
  · split at h
    · split at h'
      · cases h; injection h' with h'; injection h' with h'; cases h'
      · split at h'
        · cases h; injection h' with h'; injection h' with h'; injection h' with h'
          omega
        · cases h'
    · cases h

theorem tfp_det {q c c' k k' : Nat} {t t' : Temporary}
    (h : (temporaryFromPosition q).run c = .ok (t, k))
    (h' : (temporaryFromPosition q).run c' = .ok (t', k')) : t = t' := by
  rw [tfp_run] at h h'
  by_cases h1 : q + 4 < 30
  · rw [if_pos h1] at h h'; cases h; cases h'; rfl
  · rw [if_neg h1] at h h'
    by_cases h2 : q + 4 - 30 + 1 < 256
    · rw [if_pos h2] at h h'; cases h; cases h'; rfl
    · rw [if_neg h2] at h; cases h

/-! ## utils.rs: get_position -/

theorem go_bounds (id : Nat) : ∀ (Γ : Ctx) (i p : Nat), getPosition.go id Γ i = some p →
    i ≤ p ∧ p < i + Γ.length
  | [], i, p, h => by simp [getPosition.go] at h
  | b :: bs, i, p, h => by
    unfold getPosition.go at h
    split at h
    · cases h; simp
    · have := go_bounds id bs (i + 1) p h
      simp only [List.length_cons]
      omega

/-- two variables found at the same (first) position are equal -/
theorem go_inj (id id' : Nat) : ∀ (Γ : Ctx) (i p : Nat), getPosition.go id Γ i = some p →
    getPosition.go id' Γ i = some p → id = id'
  | [], i, p, h, _ => by simp [getPosition.go] at h
  | b :: bs, i, p, h, h' => by
    unfold getPosition.go at h h'
    split at h
    · rename_i hb
      split at h'
      · rename_i hb'
        have e1 : b.var.id = id := by simpa using hb
        have e2 : b.var.id = id' := by simpa using hb'
        rw [← e1, ← e2]
      · cases h
        have := go_bounds id' bs (i + 1) i h'
        omega
    · split at h'
      · cases h'
        have := go_bounds id bs (i + 1) i h
        omega
      · exact go_inj id id' bs (i + 1) p h h'

theorem go_total (id : Nat) : ∀ (Γ : Ctx) (i : Nat), (∃ b ∈ Γ, b.var.id = id) →
    ∃ p, getPosition.go id Γ i = some p
  | [], i, h => by obtain ⟨b, hb, _⟩ := h; cases hb
  | b :: bs, i, h => by
    unfold getPosition.go
    split
    · exact ⟨i, rfl⟩
    · rename_i hb
      obtain ⟨b', hb', he⟩ := h
      rcases List.mem_cons.mp hb' with rfl | hm
      · exact absurd (by simpa using he) hb
      · exact go_total id bs (i + 1) ⟨b', hm, he⟩

theorem getPosition_lt {Γ : Ctx} {id p : Nat} (h : getPosition Γ id = some p) : p < Γ.length := by
  have := go_bounds id Γ 0 p h
  omega

/-! ## utils.rs: variable_temporary -/

theorem vt_run_ok {n : TempNum} {Γ : Ctx} {id c k : Nat} {t : Temporary}
    (h : (variableTemporary n Γ id).run c = .ok (t, k)) :
    ∃ p, getPosition Γ id = some p ∧ (temporaryFromPosition (2 * p + n.toNat)).run c = .ok (t, k) := by
  unfold variableTemporary at h
  cases hp : getPosition Γ id with
  | none => rw [hp] at h; cases h
  | some p => rw [hp] at h; exact ⟨p, rfl, h⟩

theorem vt_inj_aux {n n' : TempNum} {Γ : Ctx} {id id' c k c' k' : Nat} {t : Temporary}
    (h : (variableTemporary n Γ id).run c = .ok (t, k))
    (h' : (variableTemporary n' Γ id').run c' = .ok (t, k')) : n = n' ∧ id = id' := by
  obtain ⟨p, hp, ht⟩ := vt_run_ok h
  obtain ⟨p', hp', ht'⟩ := vt_run_ok h'
  have hq := tfp_inj ht ht'
  have hpp : p = p' ∧ n = n' := by
    cases n <;> cases n' <;> simp only [TempNum.toNat] at hq <;> first | (constructor; omega; rfl) | omega
  obtain ⟨rfl, rfl⟩ := hpp
  exact ⟨rfl, go_inj id id' Γ 0 p hp hp'⟩

theorem vt_det_aux {n : TempNum} {Γ : Ctx} {id c k c' k' : Nat} {t t' : Temporary}
    (h : (variableTemporary n Γ id).run c = .ok (t, k))
    (h' : (variableTemporary n Γ id).run c' = .ok (t', k')) : t = t' := by
  obtain ⟨p, hp, ht⟩ := vt_run_ok h
  obtain ⟨p', hp', ht'⟩ := vt_run_ok h'
  rw [hp] at hp'; cases hp'
  exact tfp_det ht ht'

/-! ## memory.rs, parametrised by the permitted errors and the range of positions that have a temporary -/

/-- every position below `N` gets a temporary, or a permitted error -/
def Fit (cap : String → Prop) (N : Nat) : Prop := ∀ q, q < N → Tot cap (temporaryFromPosition q)

theorem Fit.all (N : Nat) : Fit capA64 N := fun q _ => tfp_cap q

section
variable {cap : String → Prop}

theorem vt_tot {N : Nat} (hN : Fit cap N) (n : TempNum) (Γ : Ctx) (id : Nat)
    (hmem : ∃ b ∈ Γ, b.var.id = id) (hlen : 2 * Γ.length ≤ N) : Tot cap (variableTemporary n Γ id) := by
  obtain ⟨p, hp⟩ := go_total id Γ 0 hmem
  have hp : getPosition Γ id = some p := hp
  have hlt := getPosition_lt hp
  unfold variableTemporary
  rw [hp]
  refine hN _ ?_
  cases n <;> simp only [TempNum.toNat] <;> omega

theorem freshTemporary_tot {N : Nat} (hN : Fit cap N) (n : TempNum) (Γ : Ctx)
    (h : 2 * Γ.length + n.toNat < N) : Tot cap (freshTemporary n Γ) := hN _ h

theorem skipIfZero_tot (r : Register) (cs : List Code) : Tot cap (skipIfZero r cs) := by
  unfold skipIfZero
  exact Tot.bind Tot.freshLabel fun _ => Tot.pure _

theorem ifZeroThenElse_tot (r : Register) (a b : List Code) : Tot cap (ifZeroThenElse r a b) := by
  unfold ifZeroThenElse
  exact Tot.bind Tot.freshLabel fun _ => Tot.bind Tot.freshLabel fun _ => Tot.pure _

theorem eraseValidObject_tot (r : Register) : Tot cap (eraseValidObject r) := by
  unfold eraseValidObject
  exact ifZeroThenElse_tot _ _ _

theorem eraseBlock_tot (t : Temporary) : Tot cap (A64.eraseBlock t) := by
  unfold A64.eraseBlock
  cases t with
  | register r =>
    exact Tot.bind (eraseValidObject_tot _) fun _ => skipIfZero_tot _ _
  | spill p =>
    exact Tot.bind (eraseValidObject_tot _) fun _ => Tot.bind (skipIfZero_tot _ _) fun _ => Tot.pure _

theorem shareBlockN_tot (t : Temporary) (n : Nat) : Tot cap (A64.shareBlockN t n) := by
  unfold A64.shareBlockN
  cases t with
  | register r => exact skipIfZero_tot _ _
  | spill p => exact Tot.bind (skipIfZero_tot _ _) fun _ => Tot.pure _

theorem eraseFields_tot (r : Register) : ∀ (k o : Nat), Tot cap (eraseFields r k o)
  | 0, _ => Tot.pure _
  | k + 1, o => by
    unfold eraseFields
    exact Tot.bind (eraseBlock_tot _) fun _ => Tot.bind (eraseFields_tot r k (o + 1)) fun _ => Tot.pure _

theorem acquireBlock_tot (t : Temporary) : Tot cap (acquireBlock t) := by
  unfold acquireBlock
  exact Tot.bind (eraseFields_tot _ _ _) fun _ => Tot.bind (ifZeroThenElse_tot _ _ _) fun _ =>
    Tot.bind (ifZeroThenElse_tot _ _ _) fun _ => Tot.pure _

theorem storeField_tot {N : Nat} (hN : Fit cap N) (n : TempNum) (Γ : Ctx) (mb : Register) (o : Nat)
    (h : 2 * Γ.length + n.toNat < N) : Tot cap (storeField n Γ mb o) := by
  unfold storeField
  refine Tot.bind (freshTemporary_tot hN n Γ h) fun t => ?_
  cases t <;> exact Tot.pure _

theorem loadField_tot {N : Nat} (hN : Fit cap N) (n : TempNum) (Γ : Ctx) (mb : Register) (o : Nat)
    (h : 2 * Γ.length + n.toNat < N) : Tot cap (loadField n Γ mb o) := by
  unfold loadField
  refine Tot.bind (freshTemporary_tot hN n Γ h) fun t => ?_
  cases t <;> exact Tot.pure _

theorem storeValue_tot {N : Nat} (hN : Fit cap N) (b : Binding) (Γ : Ctx) (mb : Register) (o : Nat)
    (h : 2 * Γ.length + 1 < N) : Tot cap (storeValue b Γ mb o) := by
  unfold storeValue
  refine Tot.bind (storeField_tot hN .snd Γ mb o h) fun c1 => ?_
  refine TotP.ite (fun _ => Tot.pure _) fun _ => ?_
  refine Tot.bind (storeField_tot hN .fst Γ mb o (by simp only [TempNum.toNat]; omega)) fun c2 => ?_
  exact Tot.pure _

theorem loadValue_tot {N : Nat} (hN : Fit cap N) (b : Binding) (Γ : Ctx) (mb : Register) (o : Nat)
    (m : LoadMode) (h : 2 * Γ.length + 1 < N) : Tot cap (loadValue b Γ mb o m) := by
  unfold loadValue
  have h0 : 2 * Γ.length + TempNum.fst.toNat < N := by simp only [TempNum.toNat]; omega
  refine Tot.bind (loadField_tot hN .snd Γ mb o h) fun c1 => ?_
  refine TotP.ite (fun _ => ?_) fun _ => Tot.pure _
  refine Tot.bind (loadField_tot hN .fst Γ mb o h0) fun c2 => ?_
  refine Tot.bind (freshTemporary_tot hN .fst Γ h0) fun t => ?_
  cases t <;> dsimp only <;> refine Tot.bind (Tot.pure _) fun r => ?_ <;>
    refine TotP.ite (fun _ => ?_) (fun _ => Tot.pure _) <;>
    exact Tot.bind (shareBlockN_tot _ _) fun _ => Tot.pure _

/-- store_values: `free_fields - 1` does not underflow when `free_fields` is at least the number of
values, and all positions requested are below `2 * (|remaining| + |to_store|)` -/
theorem storeValuesLoop_tot {N : Nat} (hN : Fit cap N) (rem : Ctx) (mb : Register) :
    ∀ (rev : List Binding) (ff : Nat), rev.length ≤ ff → 2 * (rem.length + rev.length) ≤ N →
      Tot cap (storeValuesLoop rem mb rev ff)
  | [], ff, _, _ => Tot.pure _
  | b :: rev, ff, hff, hlen => by
    unfold storeValuesLoop
    simp only [List.length_cons] at hff hlen
    have hne : ¬ ff = 0 := by omega
    dsimp only
    rw [if_neg hne]
    refine Tot.bind (storeValue_tot hN _ _ _ _ (by simp only [List.length_append, List.length_reverse]; omega))
      fun c => ?_
    refine Tot.bind (storeValuesLoop_tot hN rem mb rev (ff - 1) (by omega) (by omega)) fun p => ?_
    exact Tot.pure _

theorem storeValues_tot {N : Nat} (hN : Fit cap N) (toStore rem : Ctx) (mb : Register) (ff : Nat)
    (hff : toStore.length ≤ ff) (hlen : 2 * (rem.length + toStore.length) ≤ N) :
    Tot cap (storeValues toStore rem mb ff) := by
  unfold storeValues
  refine Tot.bind (storeValuesLoop_tot hN rem mb _ ff (by simpa using hff) (by simpa using hlen)) fun p => ?_
  exact Tot.pure _

theorem loadValuesLoop_tot {N : Nat} (hN : Fit cap N) (ex : Ctx) (mb : Register) (m : LoadMode) :
    ∀ (rev : List Binding) (ff : Nat), rev.length ≤ ff → 2 * (ex.length + rev.length) ≤ N →
      Tot cap (loadValuesLoop ex mb m rev ff)
  | [], ff, _, _ => Tot.pure _
  | b :: rev, ff, hff, hlen => by
    unfold loadValuesLoop
    simp only [List.length_cons] at hff hlen
    have hne : ¬ ff = 0 := by omega
    dsimp only
    rw [if_neg hne]
    refine Tot.bind (loadValue_tot hN _ _ _ _ _ (by simp only [List.length_append, List.length_reverse]; omega))
      fun c => ?_
    refine Tot.bind (loadValuesLoop_tot hN ex mb m rev (ff - 1) (by omega) (by omega)) fun p => ?_
    exact Tot.pure _

theorem loadValues_tot {N : Nat} (hN : Fit cap N) (toLoad ex : Ctx) (mb : Register) (ff : Nat) (m : LoadMode)
    (hff : toLoad.length ≤ ff) (hlen : 2 * (ex.length + toLoad.length) ≤ N) :
    Tot cap (loadValues toLoad ex mb ff m) := by
  unfold loadValues
  refine Tot.bind (loadValuesLoop_tot hN ex mb m _ ff (by simpa using hff) (by simpa using hlen)) fun p => ?_
  exact Tot.pure _

theorem storeLink_tot {N : Nat} (hN : Fit cap N) (pos : BlockPosition) (Γ : Ctx) (h : 2 * Γ.length < N) :
    Tot cap (storeLink pos Γ) := by
  unfold storeLink
  refine TotP.ite (fun _ => ?_) fun _ => Tot.pure _
  exact Tot.bind (storeField_tot hN .fst Γ _ _ (by simp only [TempNum.toNat]; omega)) fun _ => Tot.pure _

theorem loadLink_tot {N : Nat} (hN : Fit cap N) (pos : BlockPosition) (Γ : Ctx) (mb : Register)
    (h : pos = .other → 2 * Γ.length < N) : Tot cap (loadLink pos Γ mb) := by
  unfold loadLink
  refine TotP.ite (fun hp => ?_) fun _ => Tot.pure _
  have hp' : pos = .other := by simpa using hp
  exact Tot.bind (loadField_tot hN .fst Γ _ _ (by simp only [TempNum.toNat]; have := h hp'; omega)) fun _ => Tot.pure _

theorem cap_eq (pos : BlockPosition) : FIELDS_PER_BLOCK - pos.toNat = 3 - pos.toNat := rfl

theorem pos_le_one (pos : BlockPosition) : pos.toNat ≤ 1 := by cases pos <;> simp [BlockPosition.toNat]

theorem storeFields_tot {N : Nat} (hN : Fit cap N) : ∀ (fuel : Nat) (toStore rem : Ctx) (pos : BlockPosition),
    toStore.length < fuel → 2 * (rem.length + toStore.length) < N → Tot cap (storeFields fuel toStore rem pos)
  | 0, _, _, _, hf, _ => by omega
  | fuel + 1, toStore, rem, pos, hf, hlen => by
    unfold storeFields
    refine TotP.ite (fun he => ?_) fun he => ?_
    · refine TotP.ite (fun _ => ?_) fun _ => Tot.pure _
      refine Tot.bind (freshTemporary_tot hN .fst rem (by simp only [TempNum.toNat]; omega)) fun _ => Tot.pure _
    · dsimp only
      have hne : 0 < toStore.length := by
        cases toStore with
        | nil => simp at he
        | cons _ _ => simp
      have hp := pos_le_one pos
      generalize hrl : (if toStore.length ≤ FIELDS_PER_BLOCK - pos.toNat then 0
        else toStore.length - (FIELDS_PER_BLOCK - pos.toNat)) = rl
      have hrl1 : rl < toStore.length ∧ toStore.length - rl ≤ FIELDS_PER_BLOCK - pos.toNat := by
        rw [cap_eq] at hrl ⊢
        subst hrl
        split <;> omega
      have htake : (toStore.take rl).length = rl := by rw [List.length_take]; omega
      refine Tot.bind (storeLink_tot hN pos _ (by simp only [List.length_append]; omega)) fun c1 => ?_
      refine Tot.bind (storeValues_tot hN _ _ _ _ (by rw [List.length_drop]; exact hrl1.2)
        (by simp only [List.length_append, List.length_drop, htake]; omega)) fun c3 => ?_
      refine Tot.bind (freshTemporary_tot hN .fst _
        (by simp only [List.length_append, htake, TempNum.toNat]; omega)) fun t => ?_
      refine Tot.bind (acquireBlock_tot t) fun c4 => ?_
      refine Tot.bind (storeFields_tot hN fuel _ rem .other (by rw [htake]; omega) (by rw [htake]; omega))
        fun c5 => ?_
      exact Tot.pure _

/-- load_fields: the link of a block that is not the last one is loaded into position `2 * (|existing| + |to_load|)`,
hence one more variable for `BlockPosition::Other` (`pos.toNat = 1`) -/
theorem loadFields_tot {N : Nat} (hN : Fit cap N) : ∀ (fuel : Nat) (toLoad ex : Ctx) (pos : BlockPosition)
    (m : LoadMode) (rf : Bool),
    toLoad.length < fuel → 2 * (ex.length + toLoad.length) + pos.toNat ≤ N →
      Tot cap (loadFields fuel toLoad ex pos m rf)
  | 0, _, _, _, _, _, hf, _ => by omega
  | fuel + 1, toLoad, ex, pos, m, rf, hf, hlen => by
    unfold loadFields
    refine TotP.ite (fun he => Tot.pure _) fun he => ?_
    dsimp only
    have hne : 0 < toLoad.length := by
      cases toLoad with
      | nil => simp at he
      | cons _ _ => simp
    have hp := pos_le_one pos
    generalize hrl : (if toLoad.length ≤ FIELDS_PER_BLOCK - pos.toNat then 0
      else toLoad.length - (FIELDS_PER_BLOCK - pos.toNat)) = rl
    have hrl1 : rl < toLoad.length ∧ toLoad.length - rl ≤ FIELDS_PER_BLOCK - pos.toNat := by
      rw [cap_eq] at hrl ⊢
      subst hrl
      split <;> omega
    have htake : (toLoad.take rl).length = rl := by rw [List.length_take]; omega
    have hlink : pos = .other → 2 * (ex ++ toLoad).length < N := by
      intro h; subst h
      simp only [List.length_append, BlockPosition.toNat] at hlen ⊢
      omega
    have hvals : ∀ mb, Tot cap (loadValues (List.drop rl toLoad) (ex ++ List.take rl toLoad) mb
        (FIELDS_PER_BLOCK - pos.toNat) m) := fun mb =>
      loadValues_tot hN _ _ _ _ _ (by rw [List.length_drop]; exact hrl1.2)
        (by simp only [List.length_append, List.length_drop, htake]; omega)
    refine Tot.bind (loadFields_tot hN fuel _ ex .other m rf (by rw [htake]; omega)
      (by rw [htake]; simp only [BlockPosition.toNat]; omega)) fun x => ?_
    refine Tot.bind (freshTemporary_tot hN .fst _
      (by simp only [List.length_append, htake, TempNum.toNat]; omega)) fun t => ?_
    cases t with
    | register r =>
      dsimp only
      exact Tot.bind (loadLink_tot hN pos _ _ hlink) fun c2 => Tot.bind (hvals _) fun c3 => Tot.pure _
    | spill q =>
      dsimp only
      exact Tot.bind (loadLink_tot hN pos _ _ hlink) fun c2 => Tot.bind (hvals _) fun c3 => Tot.pure _

theorem store_tot {N : Nat} (hN : Fit cap N) (a b : Ctx) (h : 2 * (a.length + b.length + 1) ≤ N) :
    Tot cap (A64.store a b) := by
  unfold A64.store
  exact storeFields_tot hN _ a b .last (by omega) (by omega)

theorem loadRegister_tot {N : Nat} (hN : Fit cap N) (mb : Register) (a b : Ctx)
    (h : 2 * (a.length + b.length) ≤ N) : Tot cap (loadRegister mb a b) := by
  unfold loadRegister
  have hf : ∀ m, Tot cap (loadFields (a.length + 1) a b .last m false) := fun m =>
    loadFields_tot hN _ a b .last m false (by omega) (by simp only [BlockPosition.toNat]; omega)
  refine Tot.bind (hf _) fun x => ?_
  refine Tot.bind (hf _) fun y => ?_
  exact Tot.bind (ifZeroThenElse_tot _ _ _) fun _ => Tot.pure _

theorem load_tot {N : Nat} (hN : Fit cap N) (a b : Ctx) (h : 2 * (a.length + b.length) ≤ N) :
    Tot cap (A64.load a b) := by
  unfold A64.load
  refine TotP.ite (fun _ => Tot.pure _) fun he => ?_
  have hne : 0 < a.length := by
    cases a with
    | nil => simp at he
    | cons _ _ => simp
  refine Tot.bind (freshTemporary_tot hN .fst b (by simp only [TempNum.toNat]; omega)) fun t => ?_
  cases t with
  | register r => exact Tot.bind (loadRegister_tot hN _ a b h) fun _ => Tot.pure _
  | spill q => exact Tot.bind (loadRegister_tot hN _ a b h) fun _ => Tot.pure _

/-- all fields of `TotalBackend` from `Fit` -/
theorem total_of_fit (old : Bool) (fits : Nat → Prop) (hmono : ∀ {m n : Nat}, m ≤ n → fits n → fits m)
    (hfit : ∀ n, fits n → Fit cap (2 * n)) : TotalBackend (a64BackendG old) cap fits where
  fits_mono := hmono
  tempEq_iff := fun a b => by
    show (a == b) = true ↔ a = b
    exact beq_iff_eq
  vt_total := fun n Γ id hmem hf => vt_tot (hfit _ hf) n Γ id hmem (Nat.le_refl _)
  vt_inj := fun ⟨_, _, h⟩ ⟨_, _, h'⟩ => vt_inj_aux h h'
  vt_det := fun ⟨_, _, h⟩ ⟨_, _, h'⟩ => vt_det_aux h h'
  printI64 := fun nl t Γ _ => Tot.pure _
  eraseBlock := fun t => eraseBlock_tot t
  shareBlockN := fun t n => shareBlockN_tot t n
  store := fun a b hf => store_tot (hfit _ hf) a b (Nat.le_refl _)
  load := fun a b hf => load_tot (hfit _ hf) a b (Nat.le_refl _)

end

/-! ## PART 1: total, or "Out of temporaries" -/

/-- Every monadic method of the AArch64 backend returns a result or fails with "Out of temporaries". -/
theorem a64_totalG (old : Bool) : TotalBackend (a64BackendG old) capA64 (fun _ => True) :=
  total_of_fit old (fun _ => True) (fun _ _ => trivial) (fun n _ => Fit.all _)

theorem a64_total : TotalBackend a64Backend capA64 (fun _ => True) := a64_totalG false

/-! ## into_routine.rs -/

theorem moveArguments_spec : ∀ k : Nat,
    ResOk (fun e => e = "too many arguments for main") (moveArguments k) ∧
      (k ≤ 7 → ∃ r, moveArguments k = .ok r)
  | 0 => ⟨trivial, fun _ => ⟨_, rfl⟩⟩
  | 1 => ⟨trivial, fun _ => ⟨_, rfl⟩⟩
  | k + 2 => by
    have ih := moveArguments_spec (k + 1)
    unfold moveArguments
    by_cases h : k + 2 ≤ 7
    · rw [if_pos h]
      obtain ⟨r, hr⟩ := ih.2 (by omega)
      rw [hr]
      exact ⟨trivial, fun _ => ⟨_, rfl⟩⟩
    · rw [if_neg h]
      exact ⟨rfl, fun h' => absurd h' h⟩

/-- into_routine.rs fails only with "too many arguments for main" … -/
theorem intoRoutine_resOk (body : List Code) (nargs : Nat) :
    ResOk (fun e => e = "too many arguments for main") (intoRoutine body nargs) := by
  have h := (moveArguments_spec nargs).1
  unfold intoRoutine setup
  cases hm : moveArguments nargs with
  | error e => rw [hm] at h; exact h
  | ok r => trivial

/-- … and not for at most 7 arguments -/
theorem intoRoutine_ok (body : List Code) {nargs : Nat} (h : nargs ≤ 7) :
    ∃ r, intoRoutine body nargs = .ok r := by
  obtain ⟨r, hr⟩ := (moveArguments_spec nargs).2 h
  unfold intoRoutine setup
  rw [hr]
  exact ⟨_, rfl⟩

theorem compileProg_resOk (B : Scc.Backend.Backend Code Temporary) (p : AxCut.Prog) (hooks : Bool) (c : Nat) :
    ResOk capA64 ((Scc.Backend.compile B hooks p).run c) →
      ResOk (fun e => capA64 e ∨ e = "too many arguments for main") (compileProg B p hooks c) := by
  intro h
  unfold compileProg
  cases hr : (Scc.Backend.compile B hooks p).run c with
  | error e => rw [hr] at h; exact Or.inl h
  | ok x =>
    obtain ⟨⟨body, nargs⟩, k⟩ := x
    dsimp only
    have h2 := intoRoutine_resOk body nargs
    cases hi : intoRoutine body nargs with
    | error e => rw [hi] at h2; exact Or.inr h2
    | ok r => trivial

example : ∃ r, intoRoutine [.RET] 3 = .ok r := intoRoutine_ok _ (by decide)

/-! ## PART 2: no error at all when the number of variables fits -/

/-- a context of `n` variables fits: every position below `2 * n` has a temporary -/
def fitsA64 (n : Nat) : Prop := ∀ q, q < 2 * n → ∃ t c, (temporaryFromPosition q).run c = .ok (t, c)

/-- `temporary_from_position q` succeeds exactly below
281 = (REGISTER_NUM - RESERVED) + (SPILL_NUM - RESERVED_SPILLS) = 26 registers + 255 spill slots -/
theorem tfp_ok_iff (q : Nat) : (∃ t c, (temporaryFromPosition q).run c = .ok (t, c)) ↔ q < 281 := by
  constructor
  · rintro ⟨t, c, h⟩
    by_cases hq : q < 281
    · exact hq
    · rw [tfp_fail (by omega)] at h; cases h
  · intro h
    obtain ⟨t, ht⟩ := tfp_ok h
    exact ⟨t, 0, ht 0⟩

example : 281 = (REGISTER_NUM - RESERVED) + (SPILL_NUM - RESERVED_SPILLS) := rfl

/-- the exact capacity: 281 positions, i.e. at most 140 variables -/
theorem fitsA64_iff (n : Nat) : fitsA64 n ↔ 2 * n ≤ 281 := by
  constructor
  · intro h
    by_cases hn : 2 * n ≤ 281
    · exact hn
    · have := (tfp_ok_iff 281).mp (h 281 (by omega))
      omega
  · intro h q hq
    exact (tfp_ok_iff q).mpr (by omega)

theorem fitsA64_of_le {n : Nat} (h : 2 * n ≤ 281) : fitsA64 n := (fitsA64_iff n).mpr h

/-- the bound is tight: 140 variables fit, 141 do not (position 281 has no temporary) -/
theorem fitsA64_140 : fitsA64 140 := fitsA64_of_le (by decide)

theorem not_fitsA64_141 : ¬ fitsA64 141 := fun h => by
  have := (fitsA64_iff 141).mp h
  omega

theorem not_fitsA64_of_gt {n : Nat} (h : 281 < 2 * n) : ¬ fitsA64 n := fun hf => by
  have := (fitsA64_iff n).mp hf
  omega

example : fitsA64 5 := fitsA64_of_le (by decide)

theorem fitsA64_mono {m n : Nat} (h : m ≤ n) (hf : fitsA64 n) : fitsA64 m :=
  fun q hq => hf q (by omega)

theorem Fit.of_fits {n : Nat} (h : fitsA64 n) : Fit (fun _ => False) (2 * n) := by
  intro q hq c
  obtain ⟨t, ht⟩ := tfp_ok ((tfp_ok_iff q).mp (h q hq))
  rw [ht c]
  trivial

/-- Under the static capacity check (`fitsA64` of the number of variables involved: `|Γ|` for
`variable_temporary`, `|a| + |b| + 1` for `store a b`, `|a| + |b|` for `load a b`) NO method of the
AArch64 backend fails. -/
theorem a64_total_fitsG (old : Bool) : TotalBackend (a64BackendG old) (fun _ => False) fitsA64 :=
  total_of_fit old fitsA64 fitsA64_mono (fun n h => Fit.of_fits h)

theorem a64_total_fits : TotalBackend a64Backend (fun _ => False) fitsA64 := a64_total_fitsG false

/-- the capacity error is real: a context of 141 variables has no fresh temporary (position 282) -/
example (c : Nat) : ∃ e, (freshTemporary .fst (List.replicate 141 default)).run c = .error e :=
  ⟨_, tfp_fail (by simp [TempNum.toNat]) c⟩

#print axioms a64_totalG
#print axioms a64_total
#print axioms intoRoutine_resOk
#print axioms intoRoutine_ok
#print axioms compileProg_resOk
#print axioms fitsA64_iff
#print axioms not_fitsA64_141
#print axioms a64_total_fitsG
#print axioms a64_total_fits

end Scc.A64.Total
