/-
  Scc.A64.Halfword — proof file: the facts about 16-bit fields of a 64-bit word on which the
  correctness of the literal synthesis (`load_immediate`: MOVZ / MOVN / MOVK) rests:
  halfwords of a MOVZ / MOVN / MOVK result, and "a word is determined by its four halfwords".
  Proved WITHOUT `bv_decide`: MOVZ/MOVN/`~~~`/extensionality through `toNat` and `omega` (division and
  remainder by the constants 2^16, 2^32, 2^48, 2^64), MOVK bit by bit.
-/
import Scc.A64.Backend

set_option linter.unusedSimpArgs false

namespace Scc.A64

theorem imm_toNat16 (i : BitVec 16) : imm (i.toNat : Int) = i.setWidth 64 := by
  apply BitVec.eq_of_toNat_eq
  simp [imm, BitVec.toNat_setWidth]


theorem hw_toNat (w : BitVec 64) (k : Nat) : (halfword w k).toNat = (w.toNat / 2 ^ (16 * k)) % 65536 := by
  simp [halfword, BitVec.toNat_setWidth, BitVec.toNat_ushiftRight, Nat.shiftRight_eq_div_pow]

theorem p16 : (2:Nat) ^ (16 * 1) = 65536 := by decide
theorem p32 : (2:Nat) ^ (16 * 2) = 4294967296 := by decide
theorem p48 : (2:Nat) ^ (16 * 3) = 281474976710656 := by decide
theorem p64 : (2:Nat) ^ 64 = 18446744073709551616 := by decide
theorem p0 : (2:Nat) ^ (16 * 0) = 1 := by decide

theorem eq_of_halfwords (a b : BitVec 64)
    (h0 : halfword a 0 = halfword b 0) (h1 : halfword a 1 = halfword b 1)
    (h2 : halfword a 2 = halfword b 2) (h3 : halfword a 3 = halfword b 3) : a = b := by
  apply BitVec.eq_of_toNat_eq
  have e0 := congrArg BitVec.toNat h0
  have e1 := congrArg BitVec.toNat h1
  have e2 := congrArg BitVec.toNat h2
  have e3 := congrArg BitVec.toNat h3
  simp only [hw_toNat, p0, p16, p32, p48] at e0 e1 e2 e3
  have ha := a.isLt
  have hb := b.isLt
  simp only [p64] at ha hb
  omega

theorem lt4_cases {j : Nat} (hj : j < 4) : j = 0 ∨ j = 1 ∨ j = 2 ∨ j = 3 := by omega

theorem p16' : (2:Nat) ^ 16 = 65536 := by decide
theorem z16 : (0 : BitVec 16).toNat = 0 := rfl
theorem f16 : (0xFFFF : BitVec 16).toNat = 65535 := rfl

theorem halfword_movz (i : BitVec 16) (j k : Nat) (hj : j < 4) (hk : k < 4) :
    halfword ((i.setWidth 64 : BitVec 64) <<< (16 * j)) k = if k = j then i else 0 := by
  apply BitVec.eq_of_toNat_eq
  rw [hw_toNat]
  have hi := i.isLt
  rw [p16'] at hi
  simp only [BitVec.toNat_shiftLeft, BitVec.toNat_setWidth, Nat.shiftLeft_eq]
  obtain rfl | rfl | rfl | rfl := lt4_cases hj <;> obtain rfl | rfl | rfl | rfl := lt4_cases hk <;>
    simp only [p0, p16, p32, p48, p64, Nat.reduceEqDiff, if_true, if_false, z16, f16] <;>
    omega

theorem halfword_movn (i : BitVec 16) (j k : Nat) (hj : j < 4) (hk : k < 4) :
    halfword (~~~ ((i.setWidth 64 : BitVec 64) <<< (16 * j))) k = if k = j then ~~~ i else 0xFFFF := by
  apply BitVec.eq_of_toNat_eq
  rw [hw_toNat]
  have hi := i.isLt
  rw [p16'] at hi
  simp only [BitVec.toNat_not, BitVec.toNat_shiftLeft, BitVec.toNat_setWidth, Nat.shiftLeft_eq]
  obtain rfl | rfl | rfl | rfl := lt4_cases hj <;> obtain rfl | rfl | rfl | rfl := lt4_cases hk <;>
    simp only [p0, p16, p16', p32, p48, p64, Nat.reduceEqDiff, if_true, if_false, z16, f16, BitVec.toNat_not] <;>
    omega

theorem halfword_not (w : BitVec 64) (k : Nat) (hk : k < 4) : halfword (~~~ w) k = ~~~ halfword w k := by
  apply BitVec.eq_of_toNat_eq
  rw [hw_toNat, BitVec.toNat_not, BitVec.toNat_not, hw_toNat]
  have hw := w.isLt
  rw [p64] at hw
  obtain rfl | rfl | rfl | rfl := lt4_cases hk <;> simp only [p0, p16, p16', p32, p48, p64] <;> omega


theorem mask_bit (m : Nat) : ((0xFFFF : BitVec 64)).getLsbD m = decide (m < 16) := by
  by_cases h : m < 16
  · have : m = 0 ∨ m = 1 ∨ m = 2 ∨ m = 3 ∨ m = 4 ∨ m = 5 ∨ m = 6 ∨ m = 7 ∨ m = 8 ∨ m = 9 ∨ m = 10 ∨ m = 11 ∨
        m = 12 ∨ m = 13 ∨ m = 14 ∨ m = 15 := by omega
    rcases this with rfl | rfl | rfl | rfl | rfl | rfl | rfl | rfl | rfl | rfl | rfl | rfl | rfl | rfl | rfl | rfl <;> rfl
  · simp only [h, decide_false]
    have h65535 : (0xFFFF : BitVec 64).toNat = 65535 := rfl
    rw [BitVec.getLsbD, h65535]
    apply Nat.testBit_lt_two_pow
    calc 65535 < 2 ^ 16 := by decide
      _ ≤ 2 ^ m := Nat.pow_le_pow_right (by decide) (by omega)

theorem halfword_movk (old : BitVec 64) (i : BitVec 16) (j k : Nat) (hj : j < 4) (hk : k < 4) :
    halfword ((old &&& ~~~ ((0xFFFF : BitVec 64) <<< (16 * j))) ||| ((i.setWidth 64 : BitVec 64) <<< (16 * j))) k
      = if k = j then i else halfword old k := by
  unfold halfword
  ext b hb
  simp only [BitVec.getElem_setWidth, BitVec.getLsbD_ushiftRight, BitVec.getLsbD_or, BitVec.getLsbD_and,
    BitVec.getLsbD_not, BitVec.getLsbD_shiftLeft, BitVec.getLsbD_setWidth, mask_bit]
  have h1 : 16 * k + b < 64 := by omega
  by_cases hkj : k = j
  · subst hkj
    have h2 : ¬ (16 * k + b < 16 * k) := by omega
    have h3 : 16 * k + b - 16 * k = b := by omega
    have h4 : b < 64 := by omega
    simp [h1, h2, h3, h4, hb]
  · simp only [hkj, if_false, BitVec.getElem_setWidth, BitVec.getLsbD_ushiftRight]
    by_cases hlt : k < j
    · have h2 : 16 * k + b < 16 * j := by omega
      simp [h1, h2]
    · have h2 : ¬ (16 * k + b < 16 * j) := by omega
      have h3 : ¬ (16 * k + b - 16 * j < 16) := by omega
      have h5 : i.getLsbD (16 * k + b - 16 * j) = false := BitVec.getLsbD_of_ge _ _ (by omega)
      simp [h1, h2, h3, h5]

end Scc.A64
