/-
  Scc.A64.RefClosHLoad — the abstract machine's `load` against the AArch64 code of `Memory::load` (rung 4 of
  Theorem B, pattern matching): from related states (`X3`) whose last position holds a reference to an
  object with the kinds of `Δ`, whenever the abstract machine unpacks the object into the positions of `Δ`
  (unique: the object is freed; shared: count decremented, children shared), the emitted code runs to its
  end and the states are related again.  Composition of `load_contract` (machine ⟷ block-level heap,
  Scc/A64/MemProofsLoadTop.lean) and `href_load_full` (block-level heap ⟷ abstract heap,
  Scc/Heap/RefineLoad.lean); the "no overflow" side condition of the shared branch is discharged by the
  counting invariant (`live_header_lt`, Scc/Heap/RefineBound.lean).
  NOTE (fork): this file is the closure-aware version of Scc/A64/RefHeapLoad.lean (same proofs, the
  three-way relation additionally carries the per-instance code-pointer map `κ`), in the namespace
  `Scc.A64.Ref.K`.  The original file is kept unchanged because Props/C07A64Heap.lean is built on its
  definitions.
-/
import Scc.A64.RefClosHStore
import Scc.Heap.RefineBound
import Scc.Backend.ProofsLoad
import Scc.Backend.ProofsSubstRoots

set_option linter.unusedVariables false
set_option linter.unusedSimpArgs false

namespace Scc.A64.Ref.K

open Scc.AxCut Scc.Backend Scc.Backend.Abs Scc.Backend.Sim Scc.Backend.Sim2 Scc.A64 Scc.A64.CC
open Scc.Heap (HState InvS InvW)
open Scc.Heap.Refine (HRef imgW fieldImg kindB href_load_full loadAbs live_header_lt FrLe frLe_load)

/-! ## decoding what the machine holds after `load` -/

theorem kindB_eq (f : Abs.Field) : kindB f = (f.chi != Chi.ext) := rfl

/-- the variables `Δ` at positions `k, k+1, …` hold the images of the fields `fs`: read off the words -/
theorem envFields_decode {μ : MState} {ι : Nat → Nat} : ∀ (Δ : Ctx) (k : Nat) (fs : List Abs.Field),
    fs.map (·.chi) = Mock.kindsOf Δ → EnvFields μ k Δ (fs.map (fieldImg ι)) →
    (∀ f ∈ fs, f.chi ≠ .ext → f.ptr ≠ 0 → ι f.ptr.toNat < 2 ^ 64) →
    ∀ j (hj : j < fs.length), μ.val (posTemp (2 * (k + j) + 1)) = some fs[j].val ∧
      (fs[j].chi ≠ .ext → μ.val (posTemp (2 * (k + j))) = some (imgWord ι fs[j].ptr))
  | [], k, [], _, _, _ => fun j hj => by simp at hj
  | [], k, _ :: _, h, _, _ => by simp [Mock.kindsOf] at h
  | _ :: _, k, [], h, _, _ => by simp [Mock.kindsOf] at h
  | b :: Δ, k, f :: fs, hchi, hE, hlt => by
    simp only [Mock.kindsOf, List.map_cons, List.cons.injEq] at hchi
    simp only [List.map_cons, EnvFields] at hE
    obtain ⟨h0, hrest⟩ := hE
    have ih := envFields_decode Δ (k + 1) fs hchi.2 hrest (fun f' hf' => hlt f' (by simp [hf']))
    intro j hj
    cases j with
    | zero =>
      simp only [Nat.add_zero, List.getElem_cons_zero]
      unfold FieldAt at h0
      by_cases hext : (b.chi == .ext) = true
      · rw [if_pos hext] at h0
        obtain ⟨w, hw, hv⟩ := h0
        have hk : kindB f = false := by
          rw [kindB_eq, hchi.1, chi_bne_iff, hext]; rfl
        simp only [fieldImg, hk, Bool.false_eq_true, if_false, Scc.Heap.Field.int.injEq] at hw
        have : w = f.val := BitVec.eq_of_toNat_eq hw.symm
        refine ⟨by rw [hv, this], fun hne => ?_⟩
        exfalso
        apply hne
        rw [hchi.1]
        exact (Scc.Backend.Sim2.chi_beq_ext _).mp hext
      · rw [if_neg hext] at h0
        obtain ⟨p, w, hpw, hvp, hvw⟩ := h0
        have hne : f.chi ≠ .ext := by
          rw [hchi.1]; intro e; exact hext (by rw [e]; rfl)
        have hk : kindB f = true := by
          rw [kindB_eq, hchi.1, chi_bne_iff]
          simp only [Bool.not_eq_true']
          simpa using hext
        simp only [fieldImg, hk, if_true, Scc.Heap.Field.ptr.injEq] at hpw
        have e1 : w = f.val := BitVec.eq_of_toNat_eq hpw.2.symm
        have e2 : p = imgWord ι f.ptr := by
          apply BitVec.eq_of_toNat_eq
          rw [imgWord_toNat (hlt f (by simp) hne)]
          exact hpw.1.symm
        exact ⟨by rw [hvw, e1], fun _ => by rw [hvp, e2]⟩
    | succ j =>
      have := ih j (by simpa using hj)
      simp only [List.getElem_cons_succ]
      rw [show k + (j + 1) = k + 1 + j by omega]
      exact this

theorem rootOf_length_le (σ : Temps) (b : Binding) (k : Nat) : (Scc.Backend.Sim2.rootOf σ b k).length ≤ 1 := by
  unfold Scc.Backend.Sim2.rootOf
  split
  · split
    · split <;> simp
    · simp
  · simp

theorem roots_go_length_le (σ : Temps) : ∀ (Γ : Ctx) (k : Nat), (roots.go σ Γ k).length ≤ Γ.length
  | [], _ => by simp [roots.go]
  | b :: bs, k => by
    rw [Scc.Backend.Subst.roots_go_cons, List.length_append, List.length_cons]
    have ih := roots_go_length_le σ bs (k + 1)
    have := rootOf_length_le σ b k
    omega

theorem roots_length_le (σ : Temps) (Γ : Ctx) : (roots Γ σ).length ≤ Γ.length := roots_go_length_le σ Γ 0

theorem children_length_le (o : Obj) : o.children.length ≤ o.fields.length := by
  unfold Obj.children
  exact List.length_filterMap_le _ _


/-- the bound of `live_header_lt` for a heap region below 2^64 (the AArch64 memory layout is only known
to lie below 2^64, not below 2^63) -/
theorem live_header_lt64 {s : HState} {roots lin lazy live : List Nat} {F : Nat}
    (I : InvS s roots [] lin lazy live F) (hlim : s.limit < 2 ^ 64) (hr : roots.length ≤ 2 ^ 62)
    {b : Nat} (hb : b ∈ live) : s.mem.get b < 2 ^ 64 := by
  have hc := I.counts b hb
  have h1 : roots.count b ≤ roots.length := List.count_le_length
  have h2 : (Scc.Heap.ptrFields s.mem.get (live ++ lazy)).count b ≤ 3 * (live ++ lazy).length := by
    rw [← Scc.Heap.Refine.ptrFields_length s.mem.get]; exact List.count_le_length
  have h3 := Scc.Heap.Refine.blocks_length_le I
  have h4 : (s.limit - s.base) / 64 ≤ 2 ^ 58 := by
    have : s.limit - s.base < 2 ^ 64 := by omega
    omega
  omega

/-! ## `load` -/

/-- THE ABSTRACT `load` (at least one field) AGAINST `Memory::load` -/
theorem load_x3 {c : MemCfg} (H : CfgCC c) (h8 : c.heapBase % 8 = 0)
    {Γ' Δ : Ctx} {b : Binding} {cfg cfg4 cfg' : Config} {hs : HState} {ι : Nat → Nat} {κ : Nat → Nat → Word} {σ : State}
    {out : List (Bool × Word)} {r : Word} {o : Obj} {h' : Heap}
    (X : X3 c (Γ' ++ [b]) cfg hs ι κ σ out) (hb : b.chi ≠ .ext)
    (hr : cfg.temps.get (2 * Γ'.length) = some r) (hr0 : r ≠ 0)
    (hg : cfg.heap.get r.toNat = some o)
    (hk : o.fields.map (·.chi) = Mock.kindsOf Δ) (hne : o.fields ≠ [])
    (hcapΔ : 2 * (Γ'.length + Δ.length) ≤ 280)
    (h4next : cfg4.next = cfg.next) (h4out : cfg4.out = cfg.out)
    (h4temps : ∀ t, t < 2 * (Γ'.length + 1) → cfg4.temps.get t = cfg.temps.get t)
    (hlo : loadAbs cfg.heap r.toNat o = .ok h')
    (hcfg' : cfg' =
      { cfg4 with pc := cfg4.pc + 1, temps := writeFields (clobberTemp cfg4.temps) o.fields Γ'.length, heap := h' })
    (kk : Nat) :
    ∃ code kk', (load Δ Γ').run kk = .ok (code, kk') ∧ kk ≤ kk' ∧ LabsIn code kk kk' ∧
      ∃ σ' hs', execFwd c code σ = .ok (σ', .next) ∧
        X3 c (Γ' ++ Δ) cfg' hs' ι κ σ' out ∧ FrLe hs hs' 0 ∧
        (∀ t, t < 2 * Γ'.length → σ'.tempVal (posTemp t) = σ.tempVal (posTemp t)) ∧
        (∀ j (hj : j < o.fields.length), σ'.tempVal (posTemp (2 * (Γ'.length + j) + 1)) =
          some (trF κ r.toNat j o.fields[j]).val) := by
  have hlenΔ : Δ.length = o.fields.length := by
    have := congrArg List.length hk
    simpa [Mock.kindsOf] using this.symm
  have hn1 : Γ'.length < (Γ' ++ [b]).length := by simp
  have hgb : (Γ' ++ [b])[Γ'.length] = b := by simp
  -- the roots: the remaining variables and the scrutinee
  have hroots : roots (Γ' ++ [b]) cfg.temps = roots Γ' cfg.temps ++ [r.toNat] := by
    rw [Scc.Backend.Sim2.roots_snoc]
    congr 1
    unfold Scc.Backend.Sim2.rootOf
    have h1 : (b.chi != Chi.ext) = true := (Scc.Backend.Sim2.chi_bne_ext _).mpr hb
    have h2 : (r != 0) = true := by rw [bne_iff_ne]; exact hr0
    simp only [h1, hr, h2, if_true]
  have R0 : HRef (trHeap κ cfg.heap) (roots Γ' cfg.temps ++ [r.toNat]) cfg.next hs ι := by
    rw [← hroots]; exact X.href
  have hg' : (trHeap κ cfg.heap).get r.toNat = some (trO κ r.toNat o) := by rw [trHeap_get, hg]; rfl
  obtain ⟨h'', hs', hlo', hop, R1, hfr, hsame, hfront⟩ := href_load_full R0 hg'
  have hh'' : h'' = trHeap κ h' := by
    have := trHeap_loadAbs κ hlo
    rw [hlo'] at this
    injection this
  subst hh''
  -- the scrutinee on the machine
  have hpw := X.ptrs Γ'.length hn1 (by rw [hgb]; exact hb) r hr
  have hrlt := X3R.ref_lt H X hn1 (by rw [hgb]; exact hb) hr hr0
  have hpwn : (imgWord ι r).toNat = ι r.toNat := by
    rw [imgWord_toNat (fun _ => hrlt.1)]
    unfold imgW; rw [if_neg hr0]
  have hkinds : Δ.map kindOf = (trO κ r.toNat o).fields.map kindB := by
    rw [trO_fields]
    have : (trFs κ r.toNat 0 o.fields).map kindB = ((trFs κ r.toNat 0 o.fields).map (·.chi)).map (fun c => c != Chi.ext) := by
      rw [List.map_map]; rfl
    rw [this, trFs_map_chi, hk]
    simp [Mock.kindsOf, kindOf]
  have hlim : hs.limit < 2 ^ 64 := limit_lt (X.spOk H) X.hrel
  obtain ⟨code, kk', hrun, hle, hlabs, σ', hx, B', HR', hE, FT⟩ :=
    load_contract h8 (X.spOk H) X.hrel (toLoad := Δ) (existing := Γ')
      (by omega) hpw
      (by rw [hpwn, hkinds]; exact hop)
      (by
        intro hcnt a
        rw [hpwn] at hcnt
        rcases hfr hcnt a with e | ⟨lin, lazy, live, Fr, I, hal⟩
        · rw [e, X.hrel.mem a]; exact (σ.heap.getD a 0).isLt
        · refine live_header_lt64 I (by rw [hsame.limit]; exact hlim) ?_ hal
          rw [List.length_map, List.length_append]
          have h1 := roots_length_le cfg.temps Γ'
          have h2 := children_length_le (trO κ r.toNat o)
          rw [trO_fields, trFs_length] at h2
          omega) kk
  -- the loaded positions on the machine
  have hchild_lt : ∀ f ∈ (trO κ r.toNat o).fields, f.chi ≠ .ext → f.ptr ≠ 0 → ι f.ptr.toNat < 2 ^ 64 := by
    intro f hf hc hp
    have hm : f.ptr.toNat ∈ (trO κ r.toNat o).children := Scc.Backend.Sim2.mem_children hf hc hp
    obtain ⟨oc, hoc⟩ := href_root_mem R1 (List.mem_append.2 (Or.inr hm))
    have h1 := href_head_lt R1 hoc
    have h2 := hsame.limit
    simp only at h1
    omega
  have hdec := envFields_decode (ι := ι) Δ Γ'.length (trO κ r.toNat o).fields (by rw [trO_fields, trFs_map_chi]; exact hk)
    hE hchild_lt
  have hkeep : ∀ t, t < 2 * Γ'.length → σ'.tempVal (posTemp t) = σ.tempVal (posTemp t) := by
    intro t ht
    have htc : t < 281 := by omega
    apply FT.temps _ (opndOK_posTemp htc)
    intro hc
    rcases hc with e | e | e | e | ⟨m, h1, _, e⟩
    · exact posTemp_ne_x htc (by decide) e
    · exact posTemp_ne_x htc (by decide) e
    · exact posTemp_ne_x htc (by decide) e
    · exact posTemp_ne_spill0' t e
    · have := posTemp_inj.1 e; omega
  have hlowσ : ∀ t, t < 2 * Γ'.length → cfg'.temps.get t = cfg.temps.get t := by
    intro t ht
    rw [hcfg']
    simp only
    rw [writeFields_get_low _ _ _ _ ht, get_clobberTemp _ (by unfold Mock.T_TEMP; omega), h4temps t (by omega)]
  have hvalσ : ∀ j (hj : j < o.fields.length), cfg'.temps.get (2 * (Γ'.length + j) + 1) = some o.fields[j].val := by
    intro j hj; rw [hcfg']; exact writeFields_get_val _ _ _ _ hj
  have hptrσ : ∀ j (hj : j < o.fields.length), cfg'.temps.get (2 * (Γ'.length + j)) =
      if o.fields[j].chi == .ext then none else some o.fields[j].ptr := by
    intro j hj; rw [hcfg']; exact writeFields_get_ptr _ _ _ _ hj
  have hchiΔ : ∀ j (hj : j < o.fields.length), (Δ[j]'(by omega)).chi = o.fields[j].chi := by
    intro j hj
    have := congrArg (fun l => l[j]?) hk
    simp only [Mock.kindsOf, List.getElem?_map, List.getElem?_eq_getElem hj,
      List.getElem?_eq_getElem (show j < Δ.length by omega), Option.map_some, Option.some.injEq] at this
    exact this.symm
  refine ⟨code, kk', hrun, hle, hlabs, σ', hs', hx, ?_, frLe_load R0 hg' hop, hkeep, fun j hj => by
    have := (hdec j (by rw [trO_fields, trFs_length]; exact hj)).1
    simp only [trO_fields, trFs_getElem κ r.toNat 0 o.fields j hj, Nat.zero_add] at this
    exact this⟩
  refine ⟨core_frameT H X.core FT, by simp; omega, ?_, ?_, by rw [hcfg']; simp only; rw [h4out]; exact X.out, HR', ?_⟩
  · intro i hi a ha
    simp only [List.length_append] at hi
    by_cases hin : i < Γ'.length
    · rw [hlowσ _ (by omega)] at ha
      rw [hkeep _ (by omega), List.getElem_append_left hin]
      have := X.words i (by simp; omega) a ha
      rw [List.getElem_append_left hin] at this
      exact this
    · obtain ⟨j, rfl⟩ : ∃ j, i = Γ'.length + j := ⟨i - Γ'.length, by omega⟩
      have hj : j < o.fields.length := by omega
      rw [hvalσ j hj] at ha
      injection ha with ha
      subst ha
      rw [List.getElem_append_right (by omega)]
      simp only [Nat.add_sub_cancel_left]
      rw [hchiΔ j hj]
      have := (hdec j (by rw [trO_fields, trFs_length]; exact hj)).1
      simp only [trO_fields, trFs_getElem κ r.toNat 0 o.fields j hj, Nat.zero_add] at this
      exact words_of this (fun hc => trF_val_of_ne κ _ _ _ hc)
  · intro i hi hc r' hr'
    simp only [List.length_append] at hi
    by_cases hin : i < Γ'.length
    · rw [hlowσ _ (by omega)] at hr'
      rw [hkeep _ (by omega)]
      rw [List.getElem_append_left hin] at hc
      exact X.ptrs i (by simp; omega) (by rw [List.getElem_append_left hin]; exact hc) r' hr'
    · obtain ⟨j, rfl⟩ : ∃ j, i = Γ'.length + j := ⟨i - Γ'.length, by omega⟩
      have hj : j < o.fields.length := by omega
      rw [List.getElem_append_right (by omega)] at hc
      simp only [Nat.add_sub_cancel_left] at hc
      rw [hchiΔ j hj] at hc
      have hce : (o.fields[j].chi == Chi.ext) = false := (Scc.Backend.Sim2.chi_beq_ext_false _).mpr hc
      rw [hptrσ j hj, hce] at hr'
      simp only [Bool.false_eq_true, if_false, Option.some.injEq] at hr'
      subst hr'
      have := (hdec j (by rw [trO_fields, trFs_length]; exact hj)).2
      simp only [trO_fields, trFs_getElem κ r.toNat 0 o.fields j hj, Nat.zero_add] at this
      exact this hc
  · show HRef (trHeap κ cfg'.heap) (roots (Γ' ++ Δ) cfg'.temps) cfg'.next hs' ι
    have e1 : cfg'.heap = h' := by rw [hcfg']
    have e2 : cfg'.next = cfg.next := by rw [hcfg']; exact h4next
    have e3 : roots (Γ' ++ Δ) cfg'.temps = roots Γ' cfg.temps ++ (trO κ r.toNat o).children := by
      unfold roots
      rw [roots_go_append, Nat.zero_add]
      congr 1
      · exact roots_go_congr _ _ _ 0 (fun i hi => by rw [Nat.zero_add]; exact hlowσ _ (by omega))
      · rw [trO_children]
        exact roots_go_loaded _ o.count Δ o.fields Γ'.length hk hptrσ
    rw [e1, e2, e3]
    exact R1

/-- what `switch` / `invoke` do to the positions and the heap (for the closure invariant, RefClos*.lean): the
first `n` positions are untouched, position `n` held a reference to the object `o`, whose fields are
unpacked into the positions `n, n+1, …` (no field: nothing happens) -/
structure LoadProv (n : Nat) (Δ : Ctx) (cfg cfg' : Config) (κ : Nat → Nat → Word)
    (σ σ' : State) : Prop where
  keep : KeepPos n cfg cfg' σ σ'
  obj : (Δ = [] ∧ cfg'.heap = cfg.heap) ∨
    ∃ r o, cfg.temps.get (2 * n) = some r ∧ r ≠ 0 ∧ cfg.heap.get r.toNat = some o ∧
      o.fields.map (·.chi) = Mock.kindsOf Δ ∧
      ∀ j (hj : j < o.fields.length),
        cfg'.temps.get (2 * (n + j) + 1) = some o.fields[j].val ∧
        cfg'.temps.get (2 * (n + j)) = (if o.fields[j].chi == .ext then none else some o.fields[j].ptr) ∧
        σ'.tempVal (posTemp (2 * (n + j) + 1)) = some (trF κ r.toNat j o.fields[j]).val

end Scc.A64.Ref.K
