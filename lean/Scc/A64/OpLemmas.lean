/-
  Scc.A64.OpLemmas — proof file: the arithmetic instructions emitted by code.rs `op` / `rem`
  compute the AxCut operators (`Scc.AxCut.Pos.evalOp`) for every placement of target and operands in
  registers or spill slots.  `rem` is `a − (a / b)·b` (SDIV + MSUB), proved over `Int`.
-/
import Scc.A64.Lemmas
import Scc.AxCut.SemPos

set_option linter.unusedSimpArgs false

namespace Scc.A64
open Scc.AxCut

theorem sdivW_of_evalOp_div {a b r : Word} (h : Pos.evalOp .div a b = .ok r) : sdivW a b = .ok r := by
  unfold Pos.evalOp at h
  unfold sdivW
  simp only at h
  split at h
  · cases h
  · split at h
    · cases h
    · rename_i h1 h2
      have h2' : ¬ (a = minInt ∧ b = BitVec.ofInt 64 (-1)) := by
        intro ⟨ha, hb⟩; apply h2; exact ⟨by rw [ha]; rfl, by rw [hb]; rfl⟩
      simp only [h1, h2', if_false]
      cases h; rfl

theorem sdivW_of_evalOp_rem {a b r : Word} (h : Pos.evalOp .rem a b = .ok r) :
    sdivW a b = .ok (a.sdiv b) ∧ r = a.srem b := by
  unfold Pos.evalOp at h
  unfold sdivW
  simp only at h
  split at h
  · cases h
  · split at h
    · cases h
    · rename_i h1 h2
      have h2' : ¬ (a = minInt ∧ b = BitVec.ofInt 64 (-1)) := by
        intro ⟨ha, hb⟩; apply h2; exact ⟨by rw [ha]; rfl, by rw [hb]; rfl⟩
      simp only [h1, h2', if_false]
      cases h
      simp

end Scc.A64

namespace Scc.A64
open Scc.AxCut


theorem xreg_val {r : Nat} {n : Fin 31} (h : xreg r = some n) : n.val = archNumber r := by
  unfold xreg at h
  split at h
  · cases h; rfl
  · cases h

theorem archNumber_inj {r r' : Nat} (h : archNumber r = archNumber r') : r = r' := by
  unfold archNumber at h
  split at h <;> split at h <;> omega

theorem xreg_ne {r r' : Nat} {n n' : Fin 31} (h : xreg r = some n) (h' : xreg r' = some n') (hne : r ≠ r') :
    n ≠ n' := by
  intro e
  apply hne
  apply archNumber_inj
  rw [← xreg_val h, ← xreg_val h', e]

/-- what `opR` guarantees, at the level of machine registers -/
structure OpRPost (σ σ' : State) (nt : Fin 31) (r : Word) : Prop where
  res : σ'.reg nt = some r
  sp : σ'.sp = σ.sp
  heap : σ'.heap = σ.heap
  regs : ∀ m : Fin 31, m ≠ nt → m ≠ xT2 → σ'.reg m = σ.reg m
  slots : ∀ q, RESERVED_SPILLS ≤ q → q < SPILL_NUM → σ'.slot (σ.slotAddr q) = σ.slot (σ.slotAddr q)

theorem opR_correct (c : MemCfg) (room : Nat) (σ : State) (hsp : SpOk c σ.sp room)
    (o : BinOp) (rt r1 r2 : Nat) (nt n1 n2 : Fin 31)
    (ht : xreg rt = some nt) (h1 : xreg r1 = some n1) (h2 : xreg r2 = some n2)
    (hr2 : r2 = consts.temp2 → r1 = consts.temp) (hr1 : r1 ≠ consts.temp2) (hrt : rt ≠ consts.temp2)
    (a b r : Word) (ha : σ.reg n1 = some a) (hb : σ.reg n2 = some b) (hev : Pos.evalOp o a b = .ok r) :
    ∃ σ', execCodes c (opR o (.x rt) (.x r1) (.x r2)) σ = .ok σ' ∧ OpRPost σ σ' nt r := by
  cases o with
  | sum =>
    refine ⟨σ.setReg nt (some (a + b)), ?_, ?_⟩
    · simp [opR, execCodes, execCode_ADD ht h1 h2, exec_add_x, ha, hb]
    · cases hev
      constructor <;> simp
      intro m hm _; simp [Ne.symm hm]
  | sub =>
    refine ⟨σ.setReg nt (some (a - b)), ?_, ?_⟩
    · simp [opR, execCodes, execCode_SUB ht h1 h2, exec_sub_x, ha, hb]
    · cases hev
      constructor <;> simp
      intro m hm _; simp [Ne.symm hm]
  | prod =>
    refine ⟨σ.setReg nt (some (a * b)), ?_, ?_⟩
    · simp [opR, execCodes, execCode_MUL ht h1 h2, exec_mul_x, ha, hb]
    · cases hev
      constructor <;> simp
      intro m hm _; simp [Ne.symm hm]
  | div =>
    refine ⟨σ.setReg nt (some r), ?_, ?_⟩
    · simp [opR, execCodes, execCode_SDIV ht h1 h2, exec_sdiv_x, ha, hb, sdivW_of_evalOp_div hev]
    · constructor <;> simp
      intro m hm _; simp [Ne.symm hm]
  | rem =>
    obtain ⟨hq, hr⟩ := sdivW_of_evalOp_rem hev
    have hsp' : SpOkS c room σ := hsp
    subst hr
    have hT2 : xreg 3 = some xT2 := xreg_TEMP2
    have hT : xreg 2 = some xT := xreg_TEMP
    have hTT : xreg 10 = some xTT := xreg_TEMPORARY_TEMP
    have hn1 : n1 ≠ xT2 := xreg_ne h1 hT2 hr1
    have hnt : nt ≠ xT2 := xreg_ne ht hT2 hrt
    by_cases e2 : r2 = consts.temp2
    · -- both operands came from spill slots: source_1 = TEMP, source_2 = TEMP2
      have e1 := hr2 e2
      subst e2 e1
      have en2 : n2 = xT2 := by rw [hT2] at h2; cases h2; rfl
      have en1 : n1 = xT := by rw [hT] at h1; cases h1; rfl
      subst en2 en1
      by_cases et : rt = consts.temp
      · -- target is TEMP as well: the scratch dance with TEMPORARY_TEMP
        subst et
        have ent : nt = xT := by rw [hT] at ht; cases ht; rfl
        subst ent
        have hp0 : SPILL_TEMP < SPILL_NUM := by decide
        have hx1 : xTT ≠ xT := by decide
        have hx2 : xTT ≠ xT2 := by decide
        have hx3 : xT ≠ xT2 := by decide
        have hs0 : ∀ q, RESERVED_SPILLS ≤ q → q < SPILL_NUM → σ.slotAddr SPILL_TEMP ≠ σ.slotAddr q := by
          intro q hq1 hq2 e
          have := (slotAddr_inj hsp hp0 hq2).mp e
          rw [RESERVED_SPILLS_eq] at hq1
          have : SPILL_TEMP = 0 := rfl
          omega
        cases hx : σ.reg xTT with
        | none =>
          refine ⟨((((σ.clrSlot (σ.slotAddr SPILL_TEMP)).setReg xTT (some b)).setReg xT2 (some (a.sdiv b))).setReg xT
            (some (a - a.sdiv b * b))).setReg xTT none, ?_, ?_⟩
          · simp [opR, remR, TEMP2, TEMP, TEMPORARY_TEMP, execCodes, execCode_COMMENT,
              execCode_STR_sp hTT, execCode_LDR_sp hTT, execCode_MOVR hTT hT2, execCode_SDIV hT2 hT hTT,
              execCode_MSUB hT hT2 hTT hT, exec_str_slot c room, exec_ldr_slot c room, hsp', hp0,
              exec_mov_x, exec_sdiv_x, exec_msub_x, ha, hb, hq, hx, hx1, hx2, hx3, Ne.symm hx1, Ne.symm hx2, Ne.symm hx3]
          · rw [sub_sdiv_mul_eq_srem]
            refine ⟨by simp [hx1], by simp, by simp, ?_, ?_⟩
            · intro m hm hm2
              by_cases hm3 : m = xTT
              · subst hm3; simp [hx]
              · simp [Ne.symm hm, Ne.symm hm2, Ne.symm hm3]
            · intro q hq1 hq2
              simp [hs0 q hq1 hq2]
        | some w =>
          refine ⟨((((σ.setSlot (σ.slotAddr SPILL_TEMP) w).setReg xTT (some b)).setReg xT2 (some (a.sdiv b))).setReg xT
            (some (a - a.sdiv b * b))).setReg xTT (some w), ?_, ?_⟩
          · simp [opR, remR, TEMP2, TEMP, TEMPORARY_TEMP, execCodes, execCode_COMMENT,
              execCode_STR_sp hTT, execCode_LDR_sp hTT, execCode_MOVR hTT hT2, execCode_SDIV hT2 hT hTT,
              execCode_MSUB hT hT2 hTT hT, exec_str_slot c room, exec_ldr_slot c room, hsp', hp0,
              exec_mov_x, exec_sdiv_x, exec_msub_x, ha, hb, hq, hx, hx1, hx2, hx3, Ne.symm hx1, Ne.symm hx2, Ne.symm hx3]
          · rw [sub_sdiv_mul_eq_srem]
            refine ⟨by simp [hx1], by simp, by simp, ?_, ?_⟩
            · intro m hm hm2
              by_cases hm3 : m = xTT
              · subst hm3; simp [hx]
              · simp [Ne.symm hm, Ne.symm hm2, Ne.symm hm3]
            · intro q hq1 hq2
              simp [hs0 q hq1 hq2]
      · have hntT : nt ≠ xT := xreg_ne ht hT et
        refine ⟨(σ.setReg nt (some (a.sdiv b))).setReg nt (some (a - a.sdiv b * b)), ?_, ?_⟩
        · have et' : ¬ (rt = 2) := et
          simp [opR, remR, TEMP2, TEMP, et', execCodes, execCode_SDIV ht hT hT2, execCode_MSUB ht ht hT2 hT,
            exec_sdiv_x, exec_msub_x, ha, hb, hq, Ne.symm hntT, Ne.symm hnt, hntT, hnt]
        · rw [sub_sdiv_mul_eq_srem]
          constructor <;> simp
          intro m hm _; simp [Ne.symm hm]
    · have hn2 : n2 ≠ xT2 := xreg_ne h2 hT2 e2
      refine ⟨(σ.setReg xT2 (some (a.sdiv b))).setReg nt (some (a - a.sdiv b * b)), ?_, ?_⟩
      · have e2' : ¬ (r2 = 3) := e2
        simp [opR, remR, e2', TEMP2, execCodes, execCode_SDIV hT2 h1 h2, execCode_MSUB ht hT2 h2 h1,
          exec_sdiv_x, exec_msub_x, ha, hb, hq, Ne.symm hn1, Ne.symm hn2, hn1, hn2]
      · rw [sub_sdiv_mul_eq_srem]
        exact ⟨by simp, by simp, by simp, by intro m hm hm2; simp [Ne.symm hm, Ne.symm hm2], by intros; simp⟩

end Scc.A64

namespace Scc.A64
open Scc.AxCut

/-- registers in which `op` presents the operands to `opR`, with the loads that put them there -/
def operandRegs : Temporary → Temporary → List Code × Nat × Nat
  | .register (.x r1), .register (.x r2) => ([], r1, r2)
  | .register (.x r1), .spill p2 => ([.LDR TEMP .sp (stackOffset p2)], r1, consts.temp)
  | .spill p1, .register (.x r2) => ([.LDR TEMP .sp (stackOffset p1)], consts.temp, r2)
  | .spill p1, .spill p2 =>
    ([.LDR TEMP .sp (stackOffset p1), .LDR TEMP2 .sp (stackOffset p2)], consts.temp, consts.temp2)
  | _, _ => ([], 0, 0)

theorem scratch_var (r : Nat) (h : RESERVED ≤ r) :
    (if Register.x r = TEMP then TEMP2 else TEMP) = TEMP := by
  have : ¬ (Register.x r = TEMP) := by
    rw [RESERVED_eq] at h
    simp [TEMP]; omega
  simp [this]

theorem op_decompose (o : BinOp) (t s1 s2 : Temporary) (h1 : s1.isVar) (h2 : s2.isVar) :
    op o t s1 s2 =
      match t with
      | .register tr => (operandRegs s1 s2).1 ++ opR o tr (.x (operandRegs s1 s2).2.1) (.x (operandRegs s1 s2).2.2)
      | .spill pt => (operandRegs s1 s2).1 ++ opR o TEMP (.x (operandRegs s1 s2).2.1) (.x (operandRegs s1 s2).2.2)
          ++ [.STR TEMP .sp (stackOffset pt)] := by
  cases t <;> cases s1 <;> cases s2 <;> rename_i x y z <;>
    first
    | (cases y <;> cases z <;> simp_all [op, operandRegs, Temporary.isVar, scratch_var] <;> rfl)
    | (cases y <;> simp_all [op, operandRegs, Temporary.isVar, scratch_var] <;> rfl)
    | (cases z <;> simp_all [op, operandRegs, Temporary.isVar, scratch_var] <;> rfl)
    | (simp_all [op, operandRegs, Temporary.isVar, scratch_var] <;> rfl)

end Scc.A64

namespace Scc.A64
open Scc.AxCut

theorem tempVal_reg {σ : State} {r : Nat} {n : Fin 31} (h : xreg r = some n) :
    σ.tempVal (.register (.x r)) = σ.reg n := by
  simp [State.tempVal, h, State.reg]

theorem tempVal_spill (σ : State) (p : Nat) : σ.tempVal (.spill p) = σ.slot (σ.slotAddr p) := rfl

theorem isVar_reg {r : Nat} (h : (Temporary.register (.x r)).isVar) : RESERVED ≤ r ∧ r < REGISTER_NUM := by
  simpa [Temporary.isVar] using h

theorem isVar_spill {p : Nat} (h : (Temporary.spill p).isVar) : RESERVED_SPILLS ≤ p ∧ p < SPILL_NUM := by
  simpa [Temporary.isVar] using h

/-- the operand loads of `op` put the operand values into the registers handed to `opR` and change
nothing but the scratch registers -/
theorem operands_loaded (c : MemCfg) (room : Nat) (σ : State) (hsp : SpOk c σ.sp room)
    (s1 s2 : Temporary) (h1 : s1.isVar) (h2 : s2.isVar) (a b : Word)
    (hv1 : σ.tempVal s1 = some a) (hv2 : σ.tempVal s2 = some b) :
    ∃ (σ0 : State) (n1 n2 : Fin 31),
      execCodes c (operandRegs s1 s2).1 σ = .ok σ0 ∧
      xreg (operandRegs s1 s2).2.1 = some n1 ∧ xreg (operandRegs s1 s2).2.2 = some n2 ∧
      σ0.reg n1 = some a ∧ σ0.reg n2 = some b ∧ σ0.sp = σ.sp ∧ σ0.heap = σ.heap ∧
      (∀ m : Fin 31, m ≠ xT → m ≠ xT2 → σ0.reg m = σ.reg m) ∧ (∀ addr, σ0.slot addr = σ.slot addr) ∧
      ((operandRegs s1 s2).2.2 = consts.temp2 → (operandRegs s1 s2).2.1 = consts.temp) ∧
      (operandRegs s1 s2).2.1 ≠ consts.temp2 := by
  have hsp' : SpOkS c room σ := hsp
  have hT2 : xreg 3 = some xT2 := xreg_TEMP2
  have hT : xreg 2 = some xT := xreg_TEMP
  have hx3 : xT ≠ xT2 := by decide
  cases s1 with
  | register reg1 =>
    cases reg1 with
    | x r1 =>
      obtain ⟨hr1a, hr1b⟩ := isVar_reg h1
      obtain ⟨n1, hn1, hn1v⟩ := xreg_var hr1a hr1b
      rw [tempVal_reg hn1] at hv1
      have hn1T : n1 ≠ xT := by intro e; rw [e] at hn1v; revert hn1v; decide
      have hn1T2 : n1 ≠ xT2 := by intro e; rw [e] at hn1v; revert hn1v; decide
      rw [RESERVED_eq] at hr1a
      cases s2 with
      | register reg2 =>
        cases reg2 with
        | x r2 =>
          obtain ⟨hr2a, hr2b⟩ := isVar_reg h2
          obtain ⟨n2, hn2, hn2v⟩ := xreg_var hr2a hr2b
          rw [tempVal_reg hn2] at hv2
          rw [RESERVED_eq] at hr2a
          refine ⟨σ, n1, n2, by simp [operandRegs], hn1, hn2, hv1, hv2, rfl, rfl, by intros; rfl, by intros; rfl, ?_, ?_⟩
          · simp [operandRegs]; omega
          · simp [operandRegs]; omega
        | sp => simp [Temporary.isVar] at h2
        | xzr => simp [Temporary.isVar] at h2
      | spill p2 =>
        obtain ⟨_, hp2⟩ := isVar_spill h2
        rw [tempVal_spill] at hv2
        refine ⟨σ.setReg xT (some b), n1, xT, ?_, hn1, hT, ?_, by simp, rfl, rfl, ?_, by intros; rfl, ?_, ?_⟩
        · simp [operandRegs, TEMP, execCodes, execCode_LDR_sp hT, exec_ldr_slot c room, hsp', hp2, hv2]
        · simp [Ne.symm hn1T, hv1]
        · intro m hm _; simp [Ne.symm hm]
        · simp [operandRegs]
        · simp [operandRegs]; omega
    | sp => simp [Temporary.isVar] at h1
    | xzr => simp [Temporary.isVar] at h1
  | spill p1 =>
    obtain ⟨_, hp1⟩ := isVar_spill h1
    rw [tempVal_spill] at hv1
    cases s2 with
    | register reg2 =>
      cases reg2 with
      | x r2 =>
        obtain ⟨hr2a, hr2b⟩ := isVar_reg h2
        obtain ⟨n2, hn2, hn2v⟩ := xreg_var hr2a hr2b
        rw [tempVal_reg hn2] at hv2
        have hn2T : n2 ≠ xT := by intro e; rw [e] at hn2v; revert hn2v; decide
        rw [RESERVED_eq] at hr2a
        refine ⟨σ.setReg xT (some a), xT, n2, ?_, hT, hn2, by simp, ?_, rfl, rfl, ?_, by intros; rfl, ?_, ?_⟩
        · simp [operandRegs, TEMP, execCodes, execCode_LDR_sp hT, exec_ldr_slot c room, hsp', hp1, hv1]
        · simp [Ne.symm hn2T, hv2]
        · intro m hm _; simp [Ne.symm hm]
        · simp [operandRegs]
        · simp [operandRegs]
      | sp => simp [Temporary.isVar] at h2
      | xzr => simp [Temporary.isVar] at h2
    | spill p2 =>
      obtain ⟨_, hp2⟩ := isVar_spill h2
      rw [tempVal_spill] at hv2
      refine ⟨(σ.setReg xT (some a)).setReg xT2 (some b), xT, xT2, ?_, hT, hT2, ?_, by simp, rfl, rfl, ?_,
        by intros; rfl, ?_, ?_⟩
      · simp [operandRegs, TEMP, TEMP2, execCodes, execCode_LDR_sp hT, execCode_LDR_sp hT2,
          exec_ldr_slot c room, hsp', hp1, hp2, hv1, hv2]
      · simp [hx3, Ne.symm hx3]
      · intro m hm hm2; simp [Ne.symm hm, Ne.symm hm2]
      · simp [operandRegs]
      · simp [operandRegs]

end Scc.A64

namespace Scc.A64
open Scc.AxCut

/-- machine register that a temporary is (if it is a register that exists) -/
def Temporary.archReg : Temporary → Option (Fin 31)
  | .register (.x r) => xreg r
  | _ => none

/-- What a statement that defines temporary `t` leaves untouched: SP, the heap, every machine
register except the two scratch registers TEMP (X2), TEMP2 (X3) and `t` itself (in particular HEAP
= X0, FREE = X1 and all registers of variables), and every non-reserved spill slot except `t`. -/
structure Frame (σ σ' : State) (t : Temporary) : Prop where
  sp : σ'.sp = σ.sp
  heap : σ'.heap = σ.heap
  regs : ∀ m : Fin 31, m ≠ xT → m ≠ xT2 → t.archReg ≠ some m → σ'.reg m = σ.reg m
  slots : ∀ q, RESERVED_SPILLS ≤ q → q < SPILL_NUM → t ≠ .spill q →
    σ'.slot (σ.slotAddr q) = σ.slot (σ.slotAddr q)

/-- code.rs `op` (add / sub / mul / div / rem) is correct for EVERY placement of the target and the
two operands in registers or spill slots and all operand values for which the AxCut operator is
defined. -/
theorem op_correct (c : MemCfg) (room : Nat) (σ : State) (hsp : SpOk c σ.sp room)
    (o : BinOp) (t s1 s2 : Temporary) (ht : t.isVar) (h1 : s1.isVar) (h2 : s2.isVar)
    (a b r : Word) (hv1 : σ.tempVal s1 = some a) (hv2 : σ.tempVal s2 = some b)
    (hev : Pos.evalOp o a b = .ok r) :
    ∃ σ', execCodes c (op o t s1 s2) σ = .ok σ' ∧ σ'.tempVal t = some r ∧ Frame σ σ' t := by
  obtain ⟨σ0, n1, n2, he0, hx1, hx2, ha, hb, hsp0, hheap0, hregs0, hslots0, hc1, hc2⟩ :=
    operands_loaded c room σ hsp s1 s2 h1 h2 a b hv1 hv2
  have hsp0' : SpOk c σ0.sp room := by rw [hsp0]; exact hsp
  have hT : xreg 2 = some xT := xreg_TEMP
  rw [op_decompose o t s1 s2 h1 h2]
  cases t with
  | register tr =>
    cases tr with
    | x rt =>
      obtain ⟨hrta, hrtb⟩ := isVar_reg ht
      obtain ⟨nt, hnt, hntv⟩ := xreg_var hrta hrtb
      rw [RESERVED_eq] at hrta
      have hrt3 : rt ≠ consts.temp2 := by simp; omega
      obtain ⟨σ1, he1, hpost⟩ := opR_correct c room σ0 hsp0' o rt _ _ nt n1 n2 hnt hx1 hx2 hc1 hc2 hrt3 a b r ha hb hev
      refine ⟨σ1, ?_, ?_, ?_⟩
      · simp only []
        rw [execCodes_append c _ _ _ _ he0, he1]
      · rw [tempVal_reg hnt]; exact hpost.res
      · refine ⟨by rw [hpost.sp, hsp0], by rw [hpost.heap, hheap0], ?_, ?_⟩
        · intro m hm1 hm2 hm3
          have : m ≠ nt := by intro e; apply hm3; simp [Temporary.archReg, hnt, e]
          rw [hpost.regs m this hm2, hregs0 m hm1 hm2]
        · intro q hq1 hq2 _
          have := hpost.slots q hq1 hq2
          rw [State.slotAddr, hsp0] at this
          rw [State.slotAddr, this, hslots0]
    | sp => simp [Temporary.isVar] at ht
    | xzr => simp [Temporary.isVar] at ht
  | spill pt =>
    obtain ⟨hpt1, hpt2⟩ := isVar_spill ht
    have h23 : (2 : Nat) ≠ consts.temp2 := by decide
    obtain ⟨σ1, he1, hpost⟩ := opR_correct c room σ0 hsp0' o 2 _ _ xT n1 n2 hT hx1 hx2 hc1 hc2 h23 a b r ha hb hev
    have hsp1 : SpOkS c room σ1 := by show SpOk c σ1.sp room; rw [hpost.sp]; exact hsp0'
    have haddr : σ1.slotAddr pt = σ.slotAddr pt := by simp [State.slotAddr, hpost.sp, hsp0]
    refine ⟨σ1.setSlot (σ1.slotAddr pt) r, ?_, ?_, ?_⟩
    · simp only []
      rw [List.append_assoc, execCodes_append c _ _ _ _ he0]
      have : (TEMP : Register) = .x 2 := rfl
      rw [this, execCodes_append c _ _ _ _ he1]
      simp [execCodes, execCode_STR_sp hT, exec_str_slot c room, hsp1, hpt2, hpost.res]
    · rw [tempVal_spill]; simp [haddr]
    · refine ⟨by simp [hpost.sp, hsp0], by simp [hpost.heap, hheap0], ?_, ?_⟩
      · intro m hm1 hm2 _
        simp [hpost.regs m hm1 hm2, hregs0 m hm1 hm2]
      · intro q hq1 hq2 hq3
        have hne : σ.slotAddr pt ≠ σ.slotAddr q := by
          intro e; apply hq3; rw [(slotAddr_inj hsp hpt2 hq2).mp e]
        have := hpost.slots q hq1 hq2
        rw [State.slotAddr, hsp0] at this
        simp [haddr, hne]
        rw [State.slotAddr, this, hslots0]

end Scc.A64
