/-
  Scc.A64.RefSide — SIDE HYPOTHESES of the AArch64 run theorems (C07), part 2: what follows from decidable
  per-program checks and from the sanity of the machine configuration (the AArch64 analogue of
  Scc/X86/RefSide.lean).
  * `cap280_of_check`: every context of a run has at most 140 variables, from the static bound
    `2 * progCap p ≤ 280` (Scc/AxCut/PosCapacity.lean, Props/C06Capacity.lean);
  * `codeFits_of_size`: the mock code fits the address space, from the size bound of the generic generator
    (Scc/Backend/SizeMock.lean: at most `10·(1 + M)` instructions per node);
  * `fuel_lt_of_heap`: a run that has `64·141` bytes of heap per step inside a sane configuration is
    shorter than 2^64 steps.
-/
import Scc.A64.RefMockTotal
import Scc.A64.RefHeapRun
import Scc.Props.C06Capacity
import Scc.Backend.SizeMock
import Scc.Pipeline.SizeCompose

namespace Scc.A64.Ref

open Scc Scc.AxCut Scc.AxCut.Pos Scc.Backend Scc.Backend.Abs Scc.Backend.Sim Scc.A64
open Scc.Props.C06Generic (Reachable CodeFits reach_ctx_le)

/-- the static capacity check of the AArch64 backend: at most 140 variables in any context (utils.rs
temporary_from_position: 281 temporaries) -/
def capCheck (p : AxCut.Prog) : Bool := decide (2 * progCap p ≤ 280)

theorem cap280_of_check {p : AxCut.Prog} (h : capCheck p = true) {d0 : Def} (hd : d0 ∈ p.defs)
    (args : List Word) :
    ∀ st, Reachable p ⟨d0.ctx, args.map .int, d0.body⟩ st → 2 * st.ctx.length ≤ 280 := by
  intro st hr
  have h1 := reach_ctx_le p d0 hd args st hr
  simp only [capCheck, decide_eq_true_eq] at h
  omega

/-- the static size check: `10·(1 + longest context)·nodes < 2^64` -/
def sizeCheck (p : AxCut.Prog) : Bool :=
  decide (10 * (1 + SizeLin.defsCap p.defs) * SizeLin.defsNodes p.defs < 2 ^ 64)

theorem instrCount_le_length : ∀ (ops : List MockOp), instrCount ops ≤ ops.length
  | [] => Nat.le_refl _
  | op :: r => by
    have := instrCount_le_length r
    cases op <;> simp only [instrCount, List.length_cons] <;> omega

theorem codeFits_of_size {p : AxCut.Prog} (htp : LinTypedProg p) (h : sizeCheck p = true) {hooks : Bool}
    {c : Nat} {ops : List MockOp} {nargs c' : Nat}
    (hcomp : (compile mockSym hooks p).run c = .ok ((ops, nargs), c')) : CodeFits ops := by
  have hlen := Scc.Backend.SizeMock.mock_compile_length hooks p (SizeLin.defsCap p.defs) (Nat.le_refl _)
    (Scc.Pipeline.SizeCompose.substOkProg_of_linTyped htp) c ops (by
      unfold compileMockSym runGen
      rw [hcomp])
  simp only [sizeCheck, decide_eq_true_eq] at h
  unfold CodeFits
  have := instrCount_le_length ops
  omega

theorem fuel_lt_of_heap {c : MemCfg} (H : CC.CfgCC c) {fuel : Nat}
    (h : 128 + 64 * 141 * fuel ≤ c.heapBytes) : fuel + 1 < 2 ^ 64 := by
  have h1 := H.ok.disjoint
  have h2 := H.ok.top
  have h3 := H.room
  omega

end Scc.A64.Ref
