/-
  Scc.A64.JumpLemmas — proof file: jump tables.  With the layout of Machine.lean (every instruction
  4 bytes) the k-th entry `B l_k` of a table at label L is at `address(L) + jump_length(k)`, and the
  code emitted for `switch` (load_label; add; jump) and for `invoke` (add_and_jump) reaches it.
-/
import Scc.A64.MoveLemmas

set_option linter.unusedSimpArgs false

namespace Scc.A64
open Scc.AxCut

/-- A jump table of `n` entries at label `l` in a laid-out program: the label points at item `j`,
the items `j … j+n−1` are at consecutive 4-byte offsets and an indirect jump to the offset of entry
`k` enters at item `j + k`. (`layout` establishes this for a label followed by `n` instructions
with no hook comment in between — see `TableAt_of_layout` in Props/C14A64.) -/
structure TableAt (p : Prog) (c : MemCfg) (l : String) (j n : Nat) : Prop where
  label : p.labels[l]? = some j
  inRange : j < p.items.size
  entries : ∀ k, k < n → p.entries[p.offs.getD j 0 + 4 * k]? = some (j + k)
  nowrap : c.codeBase + p.offs.getD j 0 + 4 * n < 2 ^ 64

/-- address of a label -/
def labelWord (p : Prog) (c : MemCfg) (j : Nat) : Word := BitVec.ofNat 64 (c.codeBase + p.offs.getD j 0)

theorem step_adr {p : Prog} {c : MemCfg} {l : String} {j n : Nat} (h : TableAt p c l j n)
    (d : Fin 31) (σ : State) (pc : Nat) :
    step p c (.adr (.x d) l) σ pc = .next (σ.setReg d (some (labelWord p c j))) (pc + 1) := by
  simp [step, Prog.labelAddr, h.label, h.inRange, State.wrZ, wrX_eq_setReg, labelWord]

theorem jumpLength_eq (k : Nat) : jumpLength k = 4 * (k : Int) := rfl

theorem labelWord_add {p : Prog} {c : MemCfg} {l : String} {j n : Nat} (h : TableAt p c l j n)
    (k : Nat) (hk : k < n) :
    (labelWord p c j + imm (jumpLength k)).toNat = c.codeBase + (p.offs.getD j 0 + 4 * k) := by
  have hw := h.nowrap
  have h64 : (2:Nat)^64 = 18446744073709551616 := by decide
  have hi : (imm (jumpLength k)).toNat = 4 * k := by
    rw [jumpLength_eq, imm_toNat_of_nonneg (by omega) (by omega)]; omega
  rw [BitVec.toNat_add, hi, labelWord, BitVec.toNat_ofNat]
  omega

theorem step_br {p : Prog} {c : MemCfg} {l : String} {j n : Nat} (h : TableAt p c l j n)
    (k : Nat) (hk : k < n) (d : Fin 31) (σ : State) (pc : Nat)
    (hd : σ.reg d = some (labelWord p c j + imm (jumpLength k))) :
    step p c (.br (.x d)) σ pc = .next σ (j + k) := by
  have ha := labelWord_add h k hk
  have he := h.entries k hk
  have hlt : ¬ (c.codeBase + (p.offs.getD j 0 + 4 * k) < c.codeBase) := by omega
  have hsub : c.codeBase + (p.offs.getD j 0 + 4 * k) - c.codeBase = p.offs.getD j 0 + 4 * k := by omega
  simp only [step, rdX_reg, hd, ha, hlt, if_false, hsub, he]

theorem step_addi (p : Prog) (c : MemCfg) (d n : Reg) (i : Int) (σ : State) (pc : Nat) :
    step p c (.addi d n i) σ pc =
      match (Instr.addi d n i).exec c σ with
      | .error e => .stop (.fault e 0)
      | .ok σ' => .next σ' (pc + 1) := rfl

theorem step_add (p : Prog) (c : MemCfg) (d n m : Reg) (σ : State) (pc : Nat) :
    step p c (.add d n m) σ pc =
      match (Instr.add d n m).exec c σ with
      | .error e => .stop (.fault e 0)
      | .ok σ' => .next σ' (pc + 1) := rfl

/-- code.rs `add_and_jump` (statement `invoke`): with the table address in a register the code
enters the `k`-th table entry, for every `k` within the table and an immediate in range. -/
theorem addAndJump_register {p : Prog} {c : MemCfg} {l : String} {j n : Nat} (h : TableAt p c l j n)
    (k : Nat) (hk : k < n) (hk12 : k < 1024) (r : Nat) (d : Fin 31) (hr : xreg r = some d)
    (σ : State) (pc : Nat) (hd : σ.reg d = some (labelWord p c j)) :
    ∃ i1 i2 σ1, (addAndJump (.register (.x r)) (jumpLength k)).map Code.toInstr = [some i1, some i2] ∧
      step p c i1 σ pc = .next σ1 (pc + 1) ∧ step p c i2 σ1 (pc + 1) = .next σ1 (j + k) ∧
      σ1 = σ.setReg d (some (labelWord p c j + imm (jumpLength k))) := by
  have hi : okImm12 (jumpLength k) = true := by
    rw [jumpLength_eq]; unfold okImm12
    have h1 : (0 : Int) ≤ 4 * (k : Int) := by omega
    have h2 : 4 * (k : Int) < 4096 := by omega
    simp [h1, h2]
  refine ⟨.addi (.x d) (.x d) (jumpLength k), .br (.x d), _, ?_, ?_, ?_, rfl⟩
  · simp [addAndJump, Code.toInstr, toReg_x, hr]
  · rw [step_addi, exec_addi_x c σ d d _ hi]
    simp [hd]
  · exact step_br h k hk d _ _ (by simp)

/-- switch.rs (`load_label(temp, L); add(temp, temp, tag); jump(temp)`) with the tag in a register:
the code enters the `k`-th entry of the table at `L` when the tag is `jump_length(k)`. -/
theorem switch_jump_register {p : Prog} {c : MemCfg} {l : String} {j n : Nat} (h : TableAt p c l j n)
    (k : Nat) (hk : k < n) (nt : Fin 31) (hnt : nt ≠ xT) (σ : State) (pc : Nat)
    (htag : σ.reg nt = some (imm (jumpLength k))) :
    ∃ σ1 σ2, step p c (.adr (.x xT) l) σ pc = .next σ1 (pc + 1) ∧
      step p c (.add (.x xT) (.x xT) (.x nt)) σ1 (pc + 1) = .next σ2 (pc + 2) ∧
      step p c (.br (.x xT)) σ2 (pc + 2) = .next σ2 (j + k) := by
  refine ⟨_, (σ.setReg xT (some (labelWord p c j))).setReg xT (some (labelWord p c j + imm (jumpLength k))),
    step_adr h xT σ pc, ?_, ?_⟩
  · rw [step_add, exec_add_x]
    simp [hnt, Ne.symm hnt, htag]
  · exact step_br h k hk xT _ _ (by simp)


theorem step_ldr (p : Prog) (c : MemCfg) (t n : Reg) (i : Int) (σ : State) (pc : Nat) :
    step p c (.ldr t n i) σ pc =
      match (Instr.ldr t n i).exec c σ with
      | .error e => .stop (.fault e 0)
      | .ok σ' => .next σ' (pc + 1) := rfl

/-- switch.rs with the tag in a SPILL slot (repaired code: the tag goes through TEMP2): the code
enters the `k`-th entry of the table. -/
theorem switch_jump_spill {p : Prog} {c : MemCfg} {l : String} {j n : Nat} (h : TableAt p c l j n)
    (k : Nat) (hk : k < n) (room : Nat) (σ : State) (hsp : SpOk c σ.sp room) (pc : Nat)
    (q : Nat) (hq : (Temporary.spill q).isVar) (htag : σ.tempVal (.spill q) = some (imm (jumpLength k))) :
    ∃ σ1 σ2 σ3, step p c (.adr (.x xT) l) σ pc = .next σ1 (pc + 1) ∧
      step p c (.ldr (.x xT2) .sp (stackOffset q)) σ1 (pc + 1) = .next σ2 (pc + 2) ∧
      step p c (.add (.x xT) (.x xT) (.x xT2)) σ2 (pc + 2) = .next σ3 (pc + 3) ∧
      step p c (.br (.x xT)) σ3 (pc + 3) = .next σ3 (j + k) := by
  obtain ⟨_, hq'⟩ := isVar_spill hq
  rw [tempVal_spill] at htag
  have hx : xT ≠ xT2 := by decide
  have hsp1 : SpOkS c room (σ.setReg xT (some (labelWord p c j))) := hsp
  refine ⟨_, (σ.setReg xT (some (labelWord p c j))).setReg xT2 (some (imm (jumpLength k))),
    ((σ.setReg xT (some (labelWord p c j))).setReg xT2 (some (imm (jumpLength k)))).setReg xT
      (some (labelWord p c j + imm (jumpLength k))), step_adr h xT σ pc, ?_, ?_, ?_⟩
  · rw [step_ldr, exec_ldr_slot c room _ _ _ hsp1 hq']
    simp [htag]
  · rw [step_add, exec_add_x]
    simp [hx, Ne.symm hx]
  · exact step_br h k hk xT _ _ (by simp)

end Scc.A64
