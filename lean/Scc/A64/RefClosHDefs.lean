/-
  Scc.A64.RefClosHDefs — SPEC definitions for Theorem B on AArch64 WITH THE HEAP (C07, data types): the
  three-way relation
        AxCut positional machine  ⟷  abstract backend machine  ⟷  AArch64 machine
  at STATEMENT BOUNDARIES.  The left half is Theorem A's relation `Sim2.RelX` (C06Generic), the right
  half is `X3` below; it is typed by the context `Γ` of the positional machine, because the word part of
  a value is represented differently on the two machines:
    * an integer (`ext`): the same word;
    * the tag of an object (`prd`): the abstract machine holds the xtor position `n` (the mock backend's
      `jump_length n = n`), the AArch64 machine `jump_length n = 4·n` (the byte offset of the n-th `B`
      of the table: every instruction has size 4);
  and the pointer part is an object id on the abstract machine and the address `ι id` of the head block
  on the AArch64 machine.  The abstract heap (ids ↦ (count, fields), exact counts, immediate erase) is
  represented by the machine memory through the two existing layers
        `Abs.Heap` —[`HRef`, Scc/Heap/Refine*.lean: C09R_heap_refinement]→ `Scc.Heap.HState`
                   —[`HeapRel`, Scc/A64/MemProofsHeap.lean: the memory contracts]→ machine memory,
  applied to the abstract heap with TRANSLATED word parts (`trHeap`).
  Closures (`cns`): the word part is a code address (mock code index / byte address of the routine); the
  relation is per instance (`κ`, `trWs`), see `trW`.
  NOTE (fork): this file is the closure-aware version of Scc/A64/RefHeapDefs.lean (same proofs, the
  three-way relation additionally carries the per-instance code-pointer map `κ`), in the namespace
  `Scc.A64.Ref.K` — as Scc/X86/RefClosHDefs.lean is for x86-64.  The original file is kept unchanged because
  Props/C07A64Heap.lean (and C13) are built on its definitions.
-/
import Scc.A64.RefDefs
import Scc.A64.MemProofsHeap
import Scc.Heap.RefineDefs
import Scc.Backend.SimDefs2

namespace Scc.A64.Ref.K

open Scc.AxCut Scc.Backend Scc.Backend.Abs Scc.Backend.Sim Scc.A64
open Scc.Heap (HState)
open Scc.Heap.Refine (HRef)

/-- the AArch64 representation of the word part of a value of kind `chi` (a data type or an integer) whose
representation on the abstract machine is `a`.  For closures (`cns`) the word part is a CODE ADDRESS: an
index into the mock code on the abstract machine, a byte address of the routine on AArch64; it is not a
function of the abstract word here (`trW` is the identity on it and never used for `cns`): the relation
keeps, PER INSTANCE of a closure, the word the machine holds (`κ` for heap fields, the machine state for
the variables of the context). -/
def trW (chi : Chi) (a : Word) : Word :=
  match chi with
  | .prd => a * 4#64
  | _ => a

/-- the word the machine holds for a variable of kind `chi` whose abstract word is `a`, given what the
machine's temporary currently holds (`cur`): for a closure whatever it holds (it only has to be defined) -/
def trWs (cur : Option Word) (chi : Chi) (a : Word) : Word :=
  match chi with
  | .cns => cur.getD 0
  | c => trW c a

/-- translation of field `j` of the object `id`: `κ id j` is the machine's word of a closure field -/
def trF (κ : Nat → Nat → Word) (id j : Nat) (f : Abs.Field) : Abs.Field :=
  { f with val := match f.chi with
                  | .cns => κ id j
                  | c => trW c f.val }

/-- translation of the fields of the object `id` from field number `j` on -/
def trFs (κ : Nat → Nat → Word) (id : Nat) : Nat → List Abs.Field → List Abs.Field
  | _, [] => []
  | j, f :: fs => trF κ id j f :: trFs κ id (j + 1) fs

def trO (κ : Nat → Nat → Word) (id : Nat) (o : Obj) : Obj := { o with fields := trFs κ id 0 o.fields }

/-- the abstract heap with the word parts as the AArch64 machine holds them -/
def trHeap (κ : Nat → Nat → Word) (h : Heap) : Heap := h.map fun e => (e.1, trO κ e.1 e.2)

/-- the AArch64 representation of a reference: null ↦ null, `id ↦ ι id` -/
def imgWord (ι : Nat → Nat) (r : Word) : Word := if r = 0 then 0 else BitVec.ofNat 64 (ι r.toNat)

/-- THE RIGHT HALF OF THE THREE-WAY RELATION, at a statement boundary with context `Γ`: position `i` of
the abstract machine (temporaries `2i`, `2i+1`) is held by `posTemp (2i)`, `posTemp (2i+1)` (utils.rs
temporary_from_position); the machine memory represents the block-level heap `hs`, which represents the
(translated) abstract heap under the address map `ι`; `out` is the machine's trace (most recent first) -/
structure X3R (c : MemCfg) (Γ : Ctx) (cfg : Config) (rs : List Nat) (hs : HState) (ι : Nat → Nat)
    (κ : Nat → Nat → Word) (σ : State) (out : List (Bool × Word)) : Prop where
  /-- SP at its boundary value, the callee-save area holds the entry values of X19–X30 -/
  core : CC.Core c σ
  /-- the capacity of utils.rs temporary_from_position -/
  cap : 2 * Γ.length ≤ 280
  /-- word parts (for a closure: the temporary is defined) -/
  words : ∀ i (hi : i < Γ.length) a, cfg.temps.get (2 * i + 1) = some a →
    σ.tempVal (posTemp (2 * i + 1)) = some (trWs (σ.tempVal (posTemp (2 * i + 1))) Γ[i].chi a)
  /-- pointer parts -/
  ptrs : ∀ i (hi : i < Γ.length), Γ[i].chi ≠ .ext → ∀ r, cfg.temps.get (2 * i) = some r →
    σ.tempVal (posTemp (2 * i)) = some (imgWord ι r)
  out : out = cfg.out
  hrel : HeapRel c σ hs
  /-- `rs`: the non-null references held (at a statement boundary: by the variables of `Γ`) -/
  href : HRef (trHeap κ cfg.heap) rs cfg.next hs ι

/-- at a statement boundary the roots are the references held by the variables of the context -/
def X3 (c : MemCfg) (Γ : Ctx) (cfg : Config) (hs : HState) (ι : Nat → Nat) (κ : Nat → Nat → Word)
    (σ : State) (out : List (Bool × Word)) : Prop :=
  X3R c Γ cfg (roots Γ cfg.temps) hs ι κ σ out

end Scc.A64.Ref.K
