/-
  Scc.A64.RefClosHInit — the initial state WITH THE HEAP: `init_sim` (RefInit.lean) extended by the heap
  view after the prologue (nothing written, HEAP = X0 = heap base, FREE = X1 = heap base + 64: the initial
  state of the block-level heap model).
  NOTE (fork): this file is the closure-aware version of Scc/A64/RefHeapInit.lean (same proofs, the
  three-way relation additionally carries the per-instance code-pointer map `κ`), in the namespace
  `Scc.A64.Ref.K`.
-/
import Scc.A64.RefClosHCall
import Scc.A64.RefInit

set_option linter.unusedVariables false
set_option linter.unusedSimpArgs false

namespace Scc.A64.Ref.K

open Scc.AxCut Scc.AxCut.Pos Scc.Backend Scc.Backend.Abs Scc.Backend.Sim Scc.Backend.Sim2 Scc.A64 Scc.A64.CC
open Scc.Heap (HState InvS InvW)
open Scc.Heap.Refine (HRef)

section Init

variable {c : MemCfg} (H : CfgCC c) {hk : Code → Bool} {P : Prog}

include H in
/-- RUNG 1: the routine header from the machine's entry state -/
theorem init_sim3 {routine body : List Code} {args : List Word}
    (hr : intoRoutine body args.length = .ok routine) (Hp : Holds hk P routine) :
    ∃ (hdr : List Code) (σ2 : State),
      routine = hdr ++ body ++ cleanup ∧ (∀ l ∈ labs hdr, l = "asm_main") ∧
      P.labels["asm_main"]? = some (pcOf hk routine 2) ∧
      MSteps P c (entryState c args) (pcOf hk routine 2) [] σ2 (pcOf hk routine hdr.length) [] ∧
      RepA64 c .normal (initConfig 0 args) σ2 [] ∧
      HeapRel c σ2 (Scc.Heap.init c.heapBase (c.heapBase + c.heapBytes)) := by
  obtain ⟨su, hsu, hrt⟩ := routine_anatomy hr
  obtain ⟨moves, hmv, _⟩ := setup_eq hsu
  have hn : args.length ≤ 7 := CC.moveArguments_le _ _ hmv
  have ht := H.ok.top; have hroom := H.room; have h16 := H.top16
  have h64 : (2:Nat)^64 = 18446744073709551616 := by decide
  have E := entry_entryState c args
  have h0 : (entryState c args).reg 0 = some (BitVec.ofNat 64 c.heapBase) := by
    simp [entryState, State.reg, Vector.getElem_ofFn]
  have hdj := H.ok.disjoint
  have hS : (entryState c args).sp.toNat = c.stackTop := by
    rw [E.sp, BitVec.toNat_ofNat]; omega
  obtain ⟨codes, σ1, hc, he, hp⟩ := setup_correct H.ok args.length hn (entryState c args) c.stackTop hS h16
    (by omega) (Nat.le_refl _) _ h0
  rw [hsu] at hc
  cases hc
  obtain ⟨σ1', he', C1⟩ := setup_core H E hsu
  rw [he] at he'
  cases he'
  -- the label
  have hlab : P.labels["asm_main"]? = some (pcOf hk routine 2) := by
    have hcs' : routine = [Code.TEXT, Code.GLOBAL "asm_main"] ++
        Code.LAB "asm_main" :: (su ++ [Code.COMMENT "actual code"] ++ (body ++ cleanup)) := by
      rw [hrt]; simp [routineHead, preamble]
    have := label_pc Hp hcs' (by simp)
    simpa using this
  -- the header block
  have hblk : routine = [Code.TEXT, Code.GLOBAL "asm_main"] ++
      (Code.LAB "asm_main" :: (su ++ [Code.COMMENT "actual code"])) ++ (body ++ cleanup) := by
    rw [hrt]; simp [routineHead, preamble]
  have hx : execCodes c (Code.LAB "asm_main" :: (su ++ [Code.COMMENT "actual code"])) (entryState c args) =
      .ok σ1 := by
    rw [execCodes_cons c _ _ _ _ (show execCode c (.LAB "asm_main") (entryState c args) = .ok _ from rfl),
      execCodes_append c _ _ _ _ he]
    rfl
  have hm := msteps_codes (c := c) Hp _ 2 _ _ [] (block_get hblk) hx
  have hlen : 2 + (Code.LAB "asm_main" :: (su ++ [Code.COMMENT "actual code"])).length =
      (routineHead su).length := by
    simp [routineHead, preamble]; omega
  rw [hlen] at hm
  refine ⟨routineHead su, σ1, hrt, labs_routineHead hsu, hlab, hm, ⟨C1, ?_, ?_, ?_, rfl⟩, ?_⟩
  · intro t v htw hg
    obtain ⟨i, hi, rfl, rfl⟩ := initTemps_get_inv args 0 t v hg
    have hi7 : i < 7 := by omega
    have hpt : posTemp (2 * (0 + i) + 1) = .register (.x (2 * i + 5)) := by
      have e1 : 2 * (0 + i) + 1 = 2 * i + 1 := by omega
      rw [e1]
      unfold posTemp
      rw [if_pos (by omega)]
    rw [hpt]
    have hlt : 2 * i + 5 < 30 := by omega
    rw [tempVal_reg (xreg_ar hlt)]
    have hj : (ar (2 * i + 5)).val = 2 * (i + 1) + 3 := by
      rw [ar_val hlt, archNumber_le (by omega)]; omega
    rw [hp.args ⟨i + 1, by omega⟩ (ar (2 * i + 5)) (by simp) (by simp; omega) hj]
    exact entryState_arg c args i hi hi7
  · intro v hg
    obtain ⟨i, hi, ht', _⟩ := initTemps_get_inv args 0 _ v hg
    unfold Mock.T_RET1 at ht'
    omega
  · intro hb; cases hb
  · -- the heap: nothing written, HEAP = heap base, FREE = heap base + 64
    refine ⟨rfl, rfl, ?_, ?_, ?_⟩
    · intro a
      rw [hp.heap]
      show Scc.Heap.Mem.empty.get a = (((entryState c args).heap).getD a 0).toNat
      simp [Scc.Heap.Mem.empty, Scc.Heap.Mem.get, entryState]
    · refine ⟨BitVec.ofNat 64 c.heapBase, ?_, ?_⟩
      · rw [HEAP_eq, tempVal_x0]; exact hp.x0
      · show (BitVec.ofNat 64 c.heapBase).toNat = c.heapBase
        rw [BitVec.toNat_ofNat]; omega
    · refine ⟨BitVec.ofNat 64 c.heapBase + 64, ?_, ?_⟩
      · rw [FREE_eq, tempVal_x1]; exact hp.x1
      · show (BitVec.ofNat 64 c.heapBase + 64).toNat = c.heapBase + Scc.Heap.blockSize
        have : (64 : BitVec 64).toNat = 64 := rfl
        rw [BitVec.toNat_add, BitVec.toNat_ofNat, this, Scc.Heap.blockSize]
        omega

end Init

end Scc.A64.Ref.K

