/-
  Scc.A64.ConcKC10 — C10 (heap footprint) on concrete AArch64 runs of ALL programs (data types and closures):
  the AArch64 analogue of Scc/X86/ConcC10.lean + ConcKC10.lean + the `_gen` runs of ConcKAllFuel.lean.
  Composition of the peak-based runs (`run3_peak`, `run3_prefix`, `run3_progress`) with the entry
  (`entry_setup`, ConcKRun.lean), the run loop and the generic machine facts of ConcKMach.lean.
  * `HeapShapeAt c σ below inUse` — the heap of the machine state `σ` is consistent (`InvW` for some roots) with
    `below` blocks below the allocation frontier, `inUse` of which are neither on the reusable nor on the deferred
    free list; `heapMonitor_boundary`: the executable `heapMonitor` succeeds at a boundary configuration (inside
    its window, for a hook that lists variables of the kinds of the positional state's context);
  * `PeakAtMost … Pk C` — at no statement boundary (`BoundaryOf`: up to `#ctx` hooks) of the machine's run are
    more than `Pk` blocks in use; `PeakHyp` — the peak hypothesis at the entry, from any source:
    `peakHyp_of_peakAtMost`, `peakHyp_of_data` (THE PEAK HYPOTHESIS FROM THE SIZE OF THE SOURCE-LEVEL DATA: at a
    statement boundary whose deferred free list is empty, the blocks in use are at most the fields of the objects
    of the abstract heap (NO GARBAGE, Scc/Heap/RefineNoGarb.lean) and these are at most the fields of the object
    AND CLOSURE nodes of the values of the environment: `valsFields`, `heapFields_le_vals`, Scc/X86/ConcData.lean —
    backend-independent);
  * `programs_run_gen` (a terminating run on the run loop: trace, result, fuel), `programs_prefix_gen` (the chain
    of boundaries of every prefix of every run), `programs_progress_gen` (progress from the initial configuration).
-/
import Scc.A64.ConcKProgress
import Scc.A64.ConcKMach
import Scc.X86.ConcData
import Scc.X86.ConcAllFuel

set_option linter.unusedVariables false
set_option linter.unusedSimpArgs false

namespace Scc.A64.ConcK

open Scc Scc.AxCut Scc.AxCut.Pos Scc.Backend Scc.Backend.Abs Scc.Backend.Sim Scc.Backend.Subst Scc.A64 Scc.A64.Ref
open Scc.A64.CC
open Scc.Backend.Sim2 Scc.Backend.Keys
open Scc.Props.C14Generic (LabelSafe)
open Scc.Props.C06Generic (outAfter WithinCapacity Reachable EnoughHeap CodeFits statesOf stopsWithin)
open Scc.Heap (HState InvS InvW Exhausted)
open Scc.Heap.Refine (HRef FrLe Room FrPk heapFields live_le_heapFields)
open Scc.X86.Conc (FrBound LiveLe LiveLe0 stmtSize clausesSize valsFields heapFields_le_vals run_eq_runState)
open Scc.X86.Ref.K (AllocLe AllocLeClauses ValAll valAll_ints)

/-! ## the shape of the machine's heap -/

/-- the heap of the machine state `σ` is consistent, with `below` blocks below the allocation frontier,
`inUse` of which are in use (neither on the reusable nor on the deferred free list: reachable, or waiting
beneath a deferred block) -/
def HeapShapeAt (c : MemCfg) (σ : State) (below inUse : Nat) : Prop :=
  ∃ (h f : Word) (roots lin lazy live : List Nat) (F : Nat),
    σ.regs[archNumber consts.heap]? = some (some h) ∧ σ.regs[archNumber consts.free]? = some (some f) ∧
    InvW (memFn σ) c.heapBase (c.heapBase + c.heapBytes) h.toNat f.toNat roots [] lin lazy live F ∧
    (F - c.heapBase) / 64 = below ∧ live.length = inUse

/-- the block-level state that a machine state represents has the machine's heap shape -/
theorem heapShapeAt_of_rel {c : MemCfg} {σ : State} {hs : HState} (HR : HeapRel c σ hs)
    {rs lin lazy live : List Nat} {F : Nat} (I : InvS hs rs [] lin lazy live F) :
    HeapShapeAt c σ ((F - hs.base) / 64) live.length := by
  obtain ⟨w, hw, ew⟩ := HR.heap
  obtain ⟨f, hf, ef⟩ := HR.free
  have hregh : σ.regs[archNumber consts.heap]? = some (some w) := by
    rw [HEAP_eq, K.tempVal_x0] at hw
    have e : archNumber consts.heap = 0 := by decide
    rw [e, Vector.getElem?_eq_getElem (by decide)]
    exact congrArg some hw
  have hregf : σ.regs[archNumber consts.free]? = some (some f) := by
    rw [FREE_eq, K.tempVal_x1] at hf
    have e : archNumber consts.free = 1 := by decide
    rw [e, Vector.getElem?_eq_getElem (by decide)]
    exact congrArg some hf
  refine ⟨w, f, rs, lin, lazy, live, F, hregh, hregf, ?_, by rw [HR.base], rfl⟩
  have hmem : memFn σ = hs.mem.get := by
    funext a; exact (HR.mem a).symm
  rw [hmem, ew, ef, ← HR.limit, ← HR.base]
  exact I

/-- the blocks in use lie below the frontier -/
theorem HeapShapeAt.inUse_le {c : MemCfg} {σ : State} {below inUse : Nat} (h : HeapShapeAt c σ below inUse) :
    inUse ≤ below := by
  obtain ⟨_, _, _, lin, lazy, live, F, _, _, I, h1, h2⟩ := h
  have := I.card
  omega

/-- THE EXECUTABLE HEAP CHECK SUCCEEDS AT EVERY STATEMENT BOUNDARY (inside the monitor's window), all programs: at a
boundary configuration, `heapMonitor` called with a hook that lists variables of the kinds of the positional
state's context returns the number of blocks below the frontier -/
theorem heapMonitor_boundary {p : AxCut.Prog} {hooks : Bool} {routine : List Code} {ops : List MockOp}
    {c : MemCfg} (H : CfgCC c) {hk : Code → Bool} {P : Prog} {st : Pos.State} {X : MS}
    (B : BoundaryOf p hooks routine ops c hk P st X) :
    ∃ below inUse, HeapShapeAt c X.σ below inUse ∧
      ∀ vars, hookKinds vars = Scc.X86.Conc.ctxKinds st.ctx →
        64 * below + 64 ≤ (X.σ.maxHeap + 63) / 64 * 64 + 8 * 64 → heapMonitor c X.σ vars = .ok below := by
  obtain ⟨cfgA, hs, kp, T, _, Γ', ι, κ, hkeys, RX, X3h, _⟩ := B
  obtain ⟨lin, lazy, live, Fr, I⟩ := X3h.href.conc
  obtain ⟨rootsM, w, f, h1, h2, h3, h4⟩ := heapInv_parts H RX X3h I
  have hsh := heapShapeAt_of_rel X3h.hrel I
  refine ⟨_, _, hsh, fun vars hv hw => ?_⟩
  rw [← Scc.X86.Conc.ctxKinds_keys hkeys] at hv
  rw [← hv] at h1
  have hb := X3h.hrel.base
  have hFb := h4.frontier_block
  have hge : c.heapBase ≤ Fr := by
    unfold Scc.Heap.IsBlock at hFb; omega
  have h64 : (Fr - c.heapBase) % 64 = 0 := by
    unfold Scc.Heap.IsBlock at hFb; omega
  have := heapMonitor_ok (vars := vars) h1 h2 h3 h4 (by rw [hb] at hw; omega)
  rw [this, hb]
  rfl

/-! ## the peak hypothesis -/

/-- THE PEAK HYPOTHESIS, all programs: at no statement boundary of the machine's run (from `asm_main`) are more
than `Pk` blocks in use.  Only boundaries with at most `C` blocks below the frontier matter (`C` = the trivial
bound `A·fuel + 1`: a step of the run moves the frontier by at most `A` blocks; no other boundary occurs) -/
def PeakAtMost (p : AxCut.Prog) (hooks : Bool) (routine : List Code) (ops : List MockOp) (c : MemCfg)
    (hk : Code → Bool) (P : Prog) (args : List Word) (Pk C : Nat) : Prop :=
  ∀ n X st, StepsN P c n (initMS c hk routine args) X →
    BoundaryOf p hooks routine ops c hk P st X → ∀ below inUse, HeapShapeAt c X.σ below inUse → below ≤ C →
    inUse ≤ Pk

/-- the peak hypothesis holds trivially for `Pk = C` -/
theorem peakAtMost_trivial (p : AxCut.Prog) (hooks : Bool) (routine : List Code) (ops : List MockOp)
    (c : MemCfg) (hk : Code → Bool) (P : Prog) (args : List Word) (C : Nat) :
    PeakAtMost p hooks routine ops c hk P args C C :=
  fun _ _ _ _ _ _ _ h hb => Nat.le_trans h.inUse_le hb

/-- the peak hypothesis at the entry, from any source: whatever first boundary the header establishes -/
def PeakHyp (p : AxCut.Prog) (hooks : Bool) (routine : List Code) (ops : List MockOp) (c : MemCfg)
    (hk : Code → Bool) (P : Prog) (args : List Word) (d0 : Def) (Pk C : Nat) : Prop :=
  ∀ (n0 : Nat) (X0 : MS), StepsN P c n0 (initMS c hk routine args) X0 →
    PeakFrom c hk P routine (Program.ofOps ops) hooks p ⟨d0.ctx, args.map .int, d0.body⟩ X0 Pk C

/-- the peak hypothesis on block-level states, from the one on machine states -/
theorem peakHyp_of_peakAtMost {p : AxCut.Prog} {hooks : Bool} {routine : List Code} {ops : List MockOp}
    {c : MemCfg} {hk : Code → Bool} {P : Prog} {args : List Word} {d0 : Def} {Pk C : Nat}
    (hP : PeakAtMost p hooks routine ops c hk P args Pk C) :
    PeakHyp p hooks routine ops c hk P args d0 Pk C := by
  intro n0 X0 h0 n X' st' cfg' hs' kp' _ hn T ho R hC rs lin live Fr I
  have hB : BoundaryOf p hooks routine ops c hk P st' X' := ⟨cfg', hs', kp', T, ho, R⟩
  obtain ⟨Γ', ι, κ, _, _, X3h, _⟩ := R
  exact hP (n0 + n) X' st' (h0.trans hn) hB _ _ (heapShapeAt_of_rel X3h.hrel I) (hC _ _ _ _ _ I)

theorem heapFields_trHeap (κ : Nat → Nat → Word) (h : Heap) : heapFields (K.trHeap κ h) = heapFields h := by
  unfold heapFields K.trHeap
  rw [List.map_map]
  congr 1
  apply List.map_congr_left
  intro e _
  simp [Function.comp, K.trO, K.trFs_length]

/-- THE PEAK HYPOTHESIS FROM THE SIZE OF THE SOURCE-LEVEL DATA, all programs -/
theorem peakFrom_of_data {c : MemCfg} {hkf : Code → Bool} {Pm : Prog} {cs : List Code} {P : Program} {hooks : Bool}
    {prog : AxCut.Prog} {st : Pos.State} {X : MS} {D C : Nat}
    (hD : ∀ st', Reachable prog st st' → valsFields st'.env ≤ D) :
    PeakFrom c hkf Pm cs P hooks prog st X D C := by
  intro n X' st' cfg' hs' kp' hr hn T ho R hC rs lin live Fr I
  obtain ⟨Γ', ι, κ, _, RX, X3h, _⟩ := R
  have h1 := live_le_heapFields X3h.href I
  rw [heapFields_trHeap] at h1
  have hord : ∀ e ∈ cfg'.heap, ∀ ch ∈ e.2.children, ch < e.1 := by
    intro e he ch hc
    have hm : (e.1, K.trO κ e.1 e.2) ∈ K.trHeap κ cfg'.heap := K.mem_trHeap κ he
    have := X3h.href.ord _ hm ch (by rw [K.trO_children]; exact hc)
    exact this
  have h2 := heapFields_le_vals RX hord
  have h3 := hD st' hr
  omega

theorem peakHyp_of_data {p : AxCut.Prog} {hooks : Bool} {routine : List Code} {ops : List MockOp} {c : MemCfg}
    {hk : Code → Bool} {P : Prog} {args : List Word} {d0 : Def} {D C : Nat}
    (hD : ∀ st, Reachable p ⟨d0.ctx, args.map .int, d0.body⟩ st → valsFields st.env ≤ D) :
    PeakHyp p hooks routine ops c hk P args d0 D C :=
  fun _ _ _ => peakFrom_of_data hD

/-! ## the runs, for any source of the peak hypothesis -/

/-- the frontier of the initial heap: one block -/
theorem frBound_init {base bytes B : Nat} (hb : 0 < base) (hl : 128 ≤ bytes) (hB : 1 ≤ B) :
    FrBound (Scc.Heap.init base (base + bytes)) B := by
  have hinit := Scc.Heap.init_inv (base := base) (limit := base + bytes) hb (by omega)
  intro rs lin lazy live Fr J
  have := (Scc.Heap.InvS.witness_unique hinit J).2.2
  have hbb : (Scc.Heap.init base (base + bytes)).base = base := rfl
  rw [hbb, this]
  omega

/-- the machine record of a configuration -/
def MS.mach (X : MS) (steps blocks : Nat) : Machine :=
  { σ := X.σ, pc := X.pc, out := X.out, steps := steps, blocks := blocks }

/-- `runProg` enters the run loop at `asm_main` in the entry state -/
theorem runProg_eq_runLoop {P : Prog} {hk : Code → Bool} {routine : List Code} {args : List Word}
    (hmain : P.labels["asm_main"]? = some (pcOf hk routine 2)) (hargs : args.length ≤ 7) (f : Nat) (cfg : MonCfg) :
    runProg P args f cfg = runLoop P cfg f ((initMS cfg.mem hk routine args).mach 0 0) := by
  unfold runProg
  simp only [hmain]
  rw [if_neg (by omega)]
  rfl

/-- the run loop along counted iterations (heap monitor off) -/
theorem runProg_stepsN {P : Prog} {hk : Code → Bool} {routine : List Code} {args : List Word} {cfg : MonCfg}
    (hh : cfg.heap = false) (hmain : P.labels["asm_main"]? = some (pcOf hk routine 2)) (hargs : args.length ≤ 7)
    {n : Nat} {X : MS} (h : StepsN P cfg.mem n (initMS cfg.mem hk routine args) X) :
    ∃ steps', ∀ fuel, runProg P args (n + fuel) cfg = runLoop P cfg fuel (X.mach steps' 0) := by
  obtain ⟨s', hs'⟩ := K.runLoop_mstepsN hh h 0 0
  exact ⟨s', fun fuel => by rw [runProg_eq_runLoop hmain hargs]; exact hs' fuel⟩

/-- a machine that makes `n` iterations from `asm_main` without ending has not ended with less fuel -/
theorem runProg_outOfFuel {P : Prog} {hk : Code → Bool} {routine : List Code} {args : List Word} {cfg : MonCfg}
    (hh : cfg.heap = false) (hmain : P.labels["asm_main"]? = some (pcOf hk routine 2)) (hargs : args.length ≤ 7)
    {n : Nat} {X : MS} (h : StepsN P cfg.mem n (initMS cfg.mem hk routine args) X) {f : Nat} (hf : f ≤ n) :
    (runProg P args f cfg).res = .outOfFuel := by
  rw [runProg_eq_runLoop hmain hargs]
  exact K.runLoop_outOfFuel hh h f 0 0 hf

section Gen

variable (p : AxCut.Prog) (args : List Word) (hooks : Bool) (body routine : List Code)
  (nargs : Nat) (d0 : Def) (ops : List MockOp) (c' : Nat)
  (hsafe : LabelSafe p = true) (htp : LinTypedProg p) (hprog : K.ProgOK p)
  (hcompM : (compile mockSym hooks p).run 0 = .ok ((ops, nargs), c')) (hfit : CodeFits ops)
  (hcompX : compileProg a64Backend p hooks 0 = .ok (body, nargs, routine))
  (hnd : (labs routine).Nodup)
  (hd : p.defs.head? = some d0) (hentry : ∀ b ∈ d0.ctx, b.chi = .ext ∧ b.ty = .i64)
  (hlen : d0.ctx.length = args.length)
  (hcap : ∀ st, Reachable p ⟨d0.ctx, args.map .int, d0.body⟩ st → 2 * st.ctx.length ≤ 280)

include hsafe htp hprog hcompM hfit hcompX hnd hd hentry hlen hcap in
/-- a terminating run from the machine's initial configuration (for any source of the peak hypothesis): the
machine reaches, in `n` iterations of its run loop, the final `RET` in a state that passes the exit check with the
result of the positional machine, having produced its trace; it passes through a boundary for every state -/
theorem programs_run_gen (fuel : Nat) (out : List (Bool × Word)) (v : Word) (hfuel : fuel + 1 < 2 ^ 64)
    (hrun : Pos.run p args fuel = ⟨out, .done v⟩)
    (c : MemCfg) (H : CfgCC c) (hb8 : c.heapBase % 8 = 0) (hb0 : 0 < c.heapBase)
    (Pk A : Nat) (hA : ∀ d ∈ p.defs, AllocLe A d.body) (hbytes : 64 * (Pk + A + 2) ≤ c.heapBytes)
    {hk : Code → Bool} {P : Prog} (HB : K.HoldsB hk P routine)
    (hfitX : c.codeBase + 4 * ninstr routine < 2 ^ 64)
    (hPH : PeakHyp p hooks routine ops c hk P args d0 Pk (A * fuel + 1)) :
    P.labels["asm_main"]? = some (pcOf hk routine 2) ∧ args.length ≤ 7 ∧
    ∃ n0 X0 n XL, StepsN P c n0 (initMS c hk routine args) X0 ∧
      BChain P c (ChainRel c hk P routine (Program.ofOps ops) hooks p Pk (A * fuel + 1))
        (statesOf p fuel ⟨d0.ctx, args.map .int, d0.body⟩) X0 ∧
      StepsN P c n X0 XL ∧ P.items[XL.pc]? = some (.instr .ret) ∧ exitCheck c XL.σ = .done v ∧
      XL.out.reverse = out := by
  have hmem : d0 ∈ p.defs := by
    cases hdefs : p.defs with
    | nil => rw [hdefs] at hd; simp at hd
    | cons d ds => rw [hdefs] at hd; simp at hd; subst hd; simp
  have hrun' : Pos.runState p fuel ⟨d0.ctx, args.map .int, d0.body⟩ [] = ⟨out, .done v⟩ := by
    rw [← run_eq_runState hd hlen]; exact hrun
  have hc0 := hcap _ Reachable.refl
  simp only at hc0
  obtain ⟨pre, σ0, kp0, a, En⟩ := entry_setup p args hooks body routine nargs d0 ops c' hsafe htp
    hcompM hcompX hnd hd hentry hlen hc0 c H hb0 (by omega) HB
  obtain ⟨n0, hn0⟩ := stepsN_of_msteps En.steps
  have hfb0 : FrBound (Scc.Heap.init c.heapBase (c.heapBase + c.heapBytes)) (Pk + 1) :=
    frBound_init hb0 (by omega) (by omega)
  have hcb0 : FrBound (Scc.Heap.init c.heapBase (c.heapBase + c.heapBytes)) 1 :=
    frBound_init hb0 (by omega) (Nat.le_refl _)
  obtain ⟨⟨kL, σL, outL, g1, g2, g3, g4⟩, hch⟩ := run3_peak H hb8 HB hnd hfitX En.split En.clean hooks p 0 ops nargs
    c' hcompM hsafe htp hfit En.defs hprog Pk (A * fuel + 1) A hA hbytes fuel _ [] (initConfig a args) _ σ0 kp0
    (pcOf hk routine kp0) out v 1 En.typed hcap (K.Tol.refl _ _) En.rel (hA d0 hmem) (valAll_ints _ args) rfl
    (by rw [En.next1]; omega) hfb0 hcb0 (by omega) (hPH n0 _ hn0) hrun'
  obtain ⟨n, hn⟩ := stepsN_of_msteps g1
  exact ⟨En.main, En.nargs, n0, _, n, ⟨σL, pcOf hk routine kL, outL⟩, hn0, hch, hn, g2, g3, g4⟩

include hsafe htp hprog hcompM hfit hcompX hnd hd hentry hlen hcap in
/-- every prefix of every run (for any source of the peak hypothesis): the chain of statement boundaries -/
theorem programs_prefix_gen (fuel : Nat) (hfuel : fuel + 1 < 2 ^ 64)
    (c : MemCfg) (H : CfgCC c) (hb8 : c.heapBase % 8 = 0) (hb0 : 0 < c.heapBase)
    (Pk A : Nat) (hA : ∀ d ∈ p.defs, AllocLe A d.body) (hbytes : 64 * (Pk + A + 2) ≤ c.heapBytes)
    {hk : Code → Bool} {P : Prog} (HB : K.HoldsB hk P routine)
    (hfitX : c.codeBase + 4 * ninstr routine < 2 ^ 64)
    (hPH : PeakHyp p hooks routine ops c hk P args d0 Pk (A * fuel + 1)) :
    P.labels["asm_main"]? = some (pcOf hk routine 2) ∧ args.length ≤ 7 ∧
    ∃ n0 X0, StepsN P c n0 (initMS c hk routine args) X0 ∧
      BChain P c (ChainRel c hk P routine (Program.ofOps ops) hooks p Pk (A * fuel + 1))
        (statesOf p fuel ⟨d0.ctx, args.map .int, d0.body⟩) X0 := by
  have hmem : d0 ∈ p.defs := by
    cases hdefs : p.defs with
    | nil => rw [hdefs] at hd; simp at hd
    | cons d ds => rw [hdefs] at hd; simp at hd; subst hd; simp
  have hc0 := hcap _ Reachable.refl
  simp only at hc0
  obtain ⟨pre, σ0, kp0, a, En⟩ := entry_setup p args hooks body routine nargs d0 ops c' hsafe htp
    hcompM hcompX hnd hd hentry hlen hc0 c H hb0 (by omega) HB
  obtain ⟨n0, hn0⟩ := stepsN_of_msteps En.steps
  have hfb0 : FrBound (Scc.Heap.init c.heapBase (c.heapBase + c.heapBytes)) (Pk + 1) :=
    frBound_init hb0 (by omega) (by omega)
  have hcb0 : FrBound (Scc.Heap.init c.heapBase (c.heapBase + c.heapBytes)) 1 :=
    frBound_init hb0 (by omega) (Nat.le_refl _)
  have hch := run3_prefix H hb8 HB hnd hfitX En.split En.clean hooks p 0 ops nargs
    c' hcompM hsafe htp hfit En.defs hprog Pk (A * fuel + 1) A hA hbytes fuel _ [] (initConfig a args) _ σ0 kp0
    (pcOf hk routine kp0) 1 En.typed hcap (K.Tol.refl _ _) En.rel (hA d0 hmem) (valAll_ints _ args) rfl
    (by rw [En.next1]; omega) hfb0 hcb0 (by omega) (hPH n0 _ hn0)
  exact ⟨En.main, En.nargs, n0, _, hn0, hch⟩

include hsafe htp hprog hcompM hfit hcompX hnd hd hentry hlen hcap in
/-- progress from the initial configuration (for any source of the peak hypothesis) -/
theorem programs_progress_gen (fuel : Nat) (hfuel : fuel + 1 < 2 ^ 64)
    (c : MemCfg) (H : CfgCC c) (hb8 : c.heapBase % 8 = 0) (hb0 : 0 < c.heapBase)
    (Pk A M : Nat) (hA : ∀ d ∈ p.defs, AllocLe A d.body) (hM : ∀ d ∈ p.defs, stmtSize d.body ≤ M)
    (hbytes : 64 * (Pk + A + 2) ≤ c.heapBytes)
    {hk : Code → Bool} {P : Prog} (HB : K.HoldsB hk P routine)
    (hfitX : c.codeBase + 4 * ninstr routine < 2 ^ 64)
    (hPH : PeakHyp p hooks routine ops c hk P args d0 Pk (A * fuel + 1))
    (out : List (Bool × Word))
    (hrun : Pos.runState p fuel ⟨d0.ctx, args.map .int, d0.body⟩ [] = ⟨out, .outOfFuel⟩)
    (N : Nat) (hN : N * (M + 1) + stmtSize d0.body ≤ fuel) :
    P.labels["asm_main"]? = some (pcOf hk routine 2) ∧ args.length ≤ 7 ∧
    ∃ n X, N ≤ n ∧ StepsN P c n (initMS c hk routine args) X := by
  have hmem : d0 ∈ p.defs := by
    cases hdefs : p.defs with
    | nil => rw [hdefs] at hd; simp at hd
    | cons d ds => rw [hdefs] at hd; simp at hd; subst hd; simp
  have hc0 := hcap _ Reachable.refl
  simp only at hc0
  obtain ⟨pre, σ0, kp0, a, En⟩ := entry_setup p args hooks body routine nargs d0 ops c' hsafe htp
    hcompM hcompX hnd hd hentry hlen hc0 c H hb0 (by omega) HB
  obtain ⟨n0, hn0⟩ := stepsN_of_msteps En.steps
  have hfb0 : FrBound (Scc.Heap.init c.heapBase (c.heapBase + c.heapBytes)) (Pk + 1) :=
    frBound_init hb0 (by omega) (by omega)
  have hcb0 : FrBound (Scc.Heap.init c.heapBase (c.heapBase + c.heapBytes)) 1 :=
    frBound_init hb0 (by omega) (Nat.le_refl _)
  obtain ⟨n, X, hn, hX⟩ := run3_progress H hb8 HB hnd hfitX En.split En.clean hooks p 0 ops nargs
    c' hcompM hsafe htp hfit En.defs hprog Pk (A * fuel + 1) A M hA hM hbytes fuel N _ [] (initConfig a args) _ σ0 kp0
    (pcOf hk routine kp0) out 1 En.typed hcap (K.Tol.refl _ _) En.rel (hA d0 hmem) (valAll_ints _ args) (hM d0 hmem)
    (valAll_ints _ args) rfl (by rw [En.next1]; omega) hfb0 hcb0 (by omega) (hPH n0 _ hn0) hrun hN
  exact ⟨En.main, En.nargs, n0 + n, X, by omega, hn0.trans hX⟩

end Gen

/-- the chain of block-level facts as a chain of facts about the raw machine states: every configuration of the
chain is a statement boundary whose heap has at most `Pk + 1` blocks below the frontier -/
theorem bchain_shape {p : AxCut.Prog} {hooks : Bool} {routine : List Code} {ops : List MockOp} {c : MemCfg}
    {hk : Code → Bool} {P : Prog} {Pk C : Nat} :
    ∀ (sts : List Pos.State) (X : MS),
      BChain P c (ChainRel c hk P routine (Program.ofOps ops) hooks p Pk C) sts X →
      BChain P c (fun st X => BoundaryOf p hooks routine ops c hk P st X ∧
        ∃ below inUse, HeapShapeAt c X.σ below inUse ∧ below ≤ Pk + 1) sts X := by
  intro sts
  induction sts with
  | nil => intro X _; trivial
  | cons st rest ih =>
    intro X hc
    obtain ⟨⟨cfgA, hs, kp, T, ho, R, hfb, hcC⟩, hrest⟩ := hc
    have hB : BoundaryOf p hooks routine ops c hk P st X := ⟨cfgA, hs, kp, T, ho, R⟩
    have hX3 : ∃ Γ' ι κ, K.X3 c Γ' cfgA hs ι κ X.σ cfgA.out := by
      obtain ⟨Γ', ι, κ, _, _, X3h, _⟩ := R
      exact ⟨Γ', ι, κ, X3h⟩
    obtain ⟨Γ', ι, κ, X3h⟩ := hX3
    obtain ⟨lin, lazy, live, Fr, I⟩ := X3h.href.conc
    have hsh := heapShapeAt_of_rel X3h.hrel I
    refine ⟨⟨hB, _, _, hsh, hfb _ _ _ _ _ I⟩, ?_⟩
    rcases hrest with e | ⟨n', X', hn', hc'⟩
    · exact Or.inl e
    · exact Or.inr ⟨n', X', hn', ih X' hc'⟩

/-- … with the peak hypothesis on machine states: at most `Pk` blocks in use at every configuration of the chain -/
theorem bchain_shape_peak {p : AxCut.Prog} {hooks : Bool} {routine : List Code} {ops : List MockOp} {c : MemCfg}
    {hk : Code → Bool} {P : Prog} {args : List Word} {Pk C : Nat}
    (hP : PeakAtMost p hooks routine ops c hk P args Pk C) :
    ∀ (sts : List Pos.State) (X : MS) (k : Nat), StepsN P c k (initMS c hk routine args) X →
      BChain P c (ChainRel c hk P routine (Program.ofOps ops) hooks p Pk C) sts X →
      BChain P c (fun st X => BoundaryOf p hooks routine ops c hk P st X ∧
        ∃ below inUse, HeapShapeAt c X.σ below inUse ∧ below ≤ Pk + 1 ∧ inUse ≤ Pk) sts X := by
  intro sts
  induction sts with
  | nil => intro X k _ _; trivial
  | cons st rest ih =>
    intro X k hk' hc
    obtain ⟨⟨cfgA, hs, kp, T, ho, R, hfb, hcC⟩, hrest⟩ := hc
    have hB : BoundaryOf p hooks routine ops c hk P st X := ⟨cfgA, hs, kp, T, ho, R⟩
    have hX3 : ∃ Γ' ι κ, K.X3 c Γ' cfgA hs ι κ X.σ cfgA.out := by
      obtain ⟨Γ', ι, κ, _, _, X3h, _⟩ := R
      exact ⟨Γ', ι, κ, X3h⟩
    obtain ⟨Γ', ι, κ, X3h⟩ := hX3
    obtain ⟨lin, lazy, live, Fr, I⟩ := X3h.href.conc
    have hsh := heapShapeAt_of_rel X3h.hrel I
    refine ⟨⟨hB, _, _, hsh, hfb _ _ _ _ _ I, hP k X st hk' hB _ _ hsh (hcC _ _ _ _ _ I)⟩, ?_⟩
    rcases hrest with e | ⟨n', X', hn', hc'⟩
    · exact Or.inl e
    · exact Or.inr ⟨n', X', hn', ih X' (k + n') (hk'.trans hn') hc'⟩

end Scc.A64.ConcK
