/-
  Scc.A64.RefRun — Theorem B (AArch64) for whole runs: a terminating run `Abs.runFrom … = ⟨out, done v⟩`
  of the abstract backend machine from a represented configuration is reproduced by the AArch64 SPEC
  machine: finitely many iterations of the run loop lead to the final `RET` in a state whose exit check
  succeeds with the same result, and the traces agree.
-/
import Scc.A64.RefStep

set_option linter.unusedVariables false
set_option linter.unusedSimpArgs false

namespace Scc.A64.Ref

open Scc.AxCut Scc.Backend Scc.Backend.Abs Scc.Backend.Sim Scc.A64 Scc.A64.CC Scc.Backend.PM

section Run

variable {c : MemCfg} (H : CfgCC c) {hk : Code → Bool} {P : Prog}
  {ops : List MockOp} {cs hdr body : List Code}
  (Hp : Holds hk P cs) (hcs : cs = hdr ++ body ++ cleanup) (W : Seg .normal ops body .normal)
  (hnodup : (labelNames ops).Nodup) (hhdr : ∀ n ∈ labelNames ops, n ∉ labs hdr)
  (hclean : "cleanup" ∉ labs hdr ++ labelNames ops)

include H Hp hcs W hnodup hhdr hclean in
/-- THEOREM B for runs: a terminating run of the abstract machine from a represented configuration is
    reproduced by the AArch64 machine -/
theorem abs_run_sim : ∀ (n : Nat) (cfg : Config) (g : Mode) (σ : State) (out : List (Bool × Word)) (k : Nat)
    (outF : List (Bool × Word)) (v : Word), RepA64 c g cfg σ out → At ops cs cfg.pc k g →
    Abs.runFrom (Program.ofOps ops) n cfg = ⟨outF, .done v⟩ →
    ∃ kL σL outL, MSteps P c σ (pcOf hk cs k) out σL (pcOf hk cs kL) outL ∧
      P.items[pcOf hk cs kL]? = some (.instr .ret) ∧ exitCheck c σL = .done v ∧ outL.reverse = outF
  | 0, cfg, g, σ, out, k, outF, v, R, A, hr => by simp [Abs.runFrom] at hr
  | n + 1, cfg, g, σ, out, k, outF, v, R, A, hr => by
    simp only [Abs.runFrom] at hr
    cases hs : Abs.step (Program.ofOps ops) cfg with
    | halt r =>
      simp only [hs, Behaviour.mk.injEq] at hr
      obtain ⟨ho, hres⟩ := hr
      subst hres
      obtain ⟨kL, σL, hk', hret, hx, hout⟩ := sim_halt H Hp hcs W hnodup hclean hs R A
      exact ⟨kL, σL, out, hk', hret, hx, by rw [hout, ho]⟩
    | next cfg' =>
      simp only [hs] at hr
      obtain ⟨k', σ', out', g', hk1, R', A'⟩ := sim_step H Hp hcs W hnodup hhdr hs R A
      obtain ⟨kL, σL, outL, hk2, hret, hx, hout⟩ := abs_run_sim n cfg' g' σ' out' k' outF v R' A' hr
      exact ⟨kL, σL, outL, hk1.trans hk2, hret, hx, hout⟩

end Run

end Scc.A64.Ref
