/-
  Scc.A64.RefClosXC — CLOSURES in the three-way relation (C07 on AArch64; port of the x86-64 file of the same name): THE CLOSURE INVARIANT `XC`
  (RefClosDefs.lean) IS PRESERVED by every statement form, from what the three-way simulation lemmas
  (RefHeapInt / RefHeapCall / RefHeapSubst / RefHeapLet / RefHeapSwitch) say about the positions
  (`KeepPos`, `SubstProv`, `LetProv`, `LoadProv`), the abstract steps (`oldFields_steps`) and the left half
  `RelX` of the relation in the new state.
-/
import Scc.A64.RefClosLemmas
import Scc.A64.RefClosHSubst
import Scc.A64.RefClosHCall

set_option linter.unusedVariables false
set_option linter.unusedSimpArgs false

namespace Scc.A64.Ref.K

open Scc.AxCut Scc.AxCut.Pos Scc.Backend Scc.Backend.Abs Scc.Backend.Sim Scc.Backend.Sim2 Scc.A64

section
variable {P : Program} {c : MemCfg} {cs : List Code} {hooks : Bool} {types : List TypeDecl}

/-- the machine word and the abstract word of a value that is not a closure do not matter -/
theorem XV.words_irrel {h : Heap} {κ : Nat → Nat → Word} {v : Value} {p : Option Word} {a w : Word}
    (hv : XV P c cs hooks types h κ v p a w) (hk : Sim2.kindOf v ≠ .cns) (a' w' : Word) :
    XV P c cs hooks types h κ v p a' w' := by
  cases hv with
  | int n p a w => exact .int n p a' w'
  | obj tag fields r a w hb => exact .obj tag fields r a' w' hb
  | clo _ _ _ _ _ _ _ _ _ _ _ => exact absurd rfl hk

/-- the pointer part of an integer does not matter -/
theorem XV.int_any {h : Heap} {κ : Nat → Nat → Word} (n : Word) (p : Option Word) (a w : Word) :
    XV P c cs hooks types h κ (.int n) p a w := .int n p a w

/-! ## the positions are untouched -/

/-- `lit`, `op`, `print`, `ifc`, `call`: the heap and the positions are untouched; the kinds of the context
are the same -/
theorem XC.keep {Γ Γ' : Ctx} {ρ : List Value} {cfg cfg' : Config} {κ : Nat → Nat → Word} {σ σ' : State}
    (C : XC P c cs hooks types Γ ρ cfg κ σ) (hchi : Γ.map (·.chi) = Γ'.map (·.chi))
    (K : KeepPos Γ.length cfg cfg' σ σ') (hh : cfg'.heap = cfg.heap) :
    XC P c cs hooks types Γ' ρ cfg' κ σ' := by
  have hlen : Γ.length = Γ'.length := by simpa using congrArg List.length hchi
  intro i h1 h2 w hw
  have h1' : i < Γ.length := by omega
  have e : Γ'[i].chi = Γ[i].chi := by
    have := congrArg (fun l => l[i]?) hchi
    simp only [List.getElem?_map, List.getElem?_eq_getElem h1', List.getElem?_eq_getElem h1,
      Option.map_some, Option.some.injEq] at this
    exact this.symm
  rw [K.mach i h1'] at hw
  rw [e, hh, K.temps _ (by omega), K.temps _ (by omega)]
  exact C i h1' h2 w hw

/-- a new integer position -/
theorem XC.snoc_int {Γ : Ctx} {ρ : List Value} {cfg cfg' : Config} {κ : Nat → Nat → Word} {σ σ' : State}
    (C : XC P c cs hooks types Γ ρ cfg κ σ) (hlen : ρ.length = Γ.length)
    (K : KeepPos Γ.length cfg cfg' σ σ') (hh : cfg'.heap = cfg.heap) (b : Binding) (n : Word) :
    XC P c cs hooks types (Γ ++ [b]) (ρ ++ [.int n]) cfg' κ σ' := by
  intro i h1 h2 w hw
  by_cases hi : i < Γ.length
  · have hi2 : i < ρ.length := by omega
    have g1 : (Γ ++ [b])[i] = Γ[i] := List.getElem_append_left hi
    have g2 : (ρ ++ [Value.int n])[i] = ρ[i] := List.getElem_append_left hi2
    rw [K.mach i hi] at hw
    rw [g1, g2, hh, K.temps _ (by omega), K.temps _ (by omega)]
    exact C i hi hi2 w hw
  · have hie : i = Γ.length := by simp at h1; omega
    subst hie
    have g2 : (ρ ++ [Value.int n])[Γ.length] = .int n := by
      rw [List.getElem_append_right (by omega)]; simp [hlen]
    rw [g2]
    exact .int n _ _ _

/-! ## `subst` -/

theorem ids_of_heapOK {h : Heap} {rs : List Nat} {next : Nat} (H : HeapOK h rs next) :
    ∀ id o, h.get id = some o → id < next := fun id o hg => (H.ids _ (heap_get_mem hg)).2.1

/-- `subst`: a new position holds what the position of its source variable held; objects may have been
erased or shared -/
theorem XC.subst {prog : AxCut.Prog} {Γ : Ctx} {ρ vs : List Value} {pairs : List (Binding × Ident)}
    {next : Stmt} {cfg cfg' : Config} {κ : Nat → Nat → Word} {σ σ' : State} {k : Nat}
    (C : XC P c cs hooks prog.types Γ ρ cfg κ σ) (hlen : ρ.length = Γ.length)
    (hH : HeapOK cfg.heap (roots Γ cfg.temps) cfg.next)
    (hsteps : stepsTo P k cfg cfg')
    (R' : RelX P hooks prog ⟨pairs.map (fun q : Binding × Ident => q.1), vs, next⟩ cfg')
    (SP : SubstProv Γ ρ pairs vs cfg cfg' σ σ') :
    XC P c cs hooks prog.types (pairs.map (fun q : Binding × Ident => q.1)) vs cfg' κ σ' := by
  obtain ⟨hold, _⟩ := oldFields_steps k cfg cfg' hsteps
  intro j h1 h2 w hw
  have hj : j < pairs.length := by simpa using h1
  obtain ⟨i, hi, hρ, hchi, ht1, ht0, hm⟩ := SP j hj
  have hi2 : i < ρ.length := by omega
  rw [hm] at hw
  have hC := C i hi hi2 w hw
  have hv : vs[j] = ρ[i] := by
    rw [List.getElem?_eq_getElem hi2, List.getElem?_eq_getElem h2] at hρ
    exact (Option.some.inj hρ).symm
  have hR := (R'.vals j h1 h2).1
  simp only at hR
  have hcj : ((pairs.map (fun q : Binding × Ident => q.1))[j]'h1).chi = Γ[i].chi := by simp [hchi]
  rw [hcj] at hR ⊢
  rw [hv] at hR ⊢
  rw [ht1]
  by_cases hce : (Γ[i].chi == .ext) = true
  · simp only [hce, if_true] at hC hR ⊢
    exact XV.sub hold (ids_of_heapOK hH) hC hR
  · simp only [hce, Bool.false_eq_true, if_false] at hC hR ⊢
    have hne : pairs[j].1.chi ≠ .ext := by
      rw [← hchi]; exact fun e => hce ((Sim2.chi_beq_ext _).mpr e)
    rw [ht0 hne] at hR ⊢
    exact XV.sub hold (ids_of_heapOK hH) hC hR

/-! ## a new last position -/

theorem XC.snoc {Γ0 : Ctx} {ρ0 : List Value} {cfg' : Config} {κ : Nat → Nat → Word} {σ' : State}
    (C : XC P c cs hooks types Γ0 ρ0 cfg' κ σ') (hlen : ρ0.length = Γ0.length) (b : Binding) (v : Value)
    (hv : ∀ w, σ'.tempVal (posTemp (2 * Γ0.length + 1)) = some w →
      XV P c cs hooks types cfg'.heap κ v (if b.chi == .ext then none else cfg'.temps.get (2 * Γ0.length))
        ((cfg'.temps.get (2 * Γ0.length + 1)).getD 0) w) :
    XC P c cs hooks types (Γ0 ++ [b]) (ρ0 ++ [v]) cfg' κ σ' := by
  intro i h1 h2 w hw
  by_cases hi : i < Γ0.length
  · have hi2 : i < ρ0.length := by omega
    have g1 : (Γ0 ++ [b])[i] = Γ0[i] := List.getElem_append_left hi
    have g2 : (ρ0 ++ [v])[i] = ρ0[i] := List.getElem_append_left hi2
    rw [g1, g2]
    exact C i hi hi2 w hw
  · have hie : i = Γ0.length := by simp at h1; omega
    subst hie
    have g1 : (Γ0 ++ [b])[Γ0.length] = b := by simp
    have g2 : (ρ0 ++ [v])[Γ0.length] = v := by
      rw [List.getElem_append_right (by omega)]; simp [hlen]
    rw [g1, g2]
    exact hv w hw

/-! ## `let` / `create`: the stored positions become the fields of a new object -/

theorem XF.get {h : Heap} {κ : Nat → Nat → Word} : ∀ {vs : List Value} {fs : List Field} {id j0 : Nat},
    XF P c cs hooks types h κ vs fs id j0 → ∀ j (h1 : j < vs.length) (h2 : j < fs.length),
      XV P c cs hooks types h κ vs[j] (if fs[j].chi == .ext then none else some fs[j].ptr) fs[j].val (κ id (j0 + j))
  | _, _, _, _, .nil id j0, j, h1, _ => by simp at h1
  | _, _, _, _, .cons v vs f fs id j0 hv hr, 0, _, _ => by simpa using hv
  | _, _, _, _, .cons v vs f fs id j0 hv hr, j + 1, h1, h2 => by
    have := XF.get hr j (by simpa using h1) (by simpa using h2)
    simp only [List.getElem_cons_succ]
    rw [show j0 + (j + 1) = j0 + 1 + j by omega]
    exact this

/-- the walk of the fields that `store` reads from the positions `k, k+1, …` -/
theorem xf_of_positions {h : Heap} {κ : Nat → Nat → Word} {σ : Temps} {id : Nat} :
    ∀ (Δ : Ctx) (ρΔ : List Value) (k j0 : Nat) (fields : List Field),
    readFields σ (Mock.kindsOf Δ) k = some fields → ρΔ.length = Δ.length →
    (∀ j (hj : j < Δ.length) (hj2 : j < ρΔ.length),
      XV P c cs hooks types h κ ρΔ[j] (if Δ[j].chi == .ext then none else σ.get (2 * (k + j)))
        ((σ.get (2 * (k + j) + 1)).getD 0) (κ id (j0 + j))) →
    XF P c cs hooks types h κ ρΔ fields id j0
  | [], ρΔ, k, j0, fields, hf, hl, _ => by
    have : ρΔ = [] := List.length_eq_zero_iff.mp (by simpa using hl)
    subst this
    simp only [Mock.kindsOf, List.map_nil, readFields, Option.some.injEq] at hf
    subst hf
    exact .nil id j0
  | b :: Δ, ρΔ, k, j0, fields, hf, hl, hx => by
    cases ρΔ with
    | nil => simp at hl
    | cons v vs =>
      obtain ⟨hlen, hspec⟩ := readFields_spec σ _ k fields hf
      cases fields with
      | nil => simp [Mock.kindsOf] at hlen
      | cons f fs =>
        have hf' : readFields σ (Mock.kindsOf Δ) (k + 1) = some fs := by
          simp only [Mock.kindsOf, List.map_cons, readFields] at hf
          cases hg : σ.get (2 * k + 1) with
          | none => simp [hg] at hf
          | some w =>
            cases hr : readFields σ (Δ.map (·.chi)) (k + 1) with
            | none => simp [hg, hr] at hf
            | some rest =>
              simp only [hg, hr] at hf
              split at hf
              · injection hf with hf; injection hf with _ h2
                show readFields σ (Δ.map (·.chi)) (k + 1) = some fs
                rw [← h2]; exact hr
              · split at hf
                · injection hf with hf; injection hf with _ h2
                  show readFields σ (Δ.map (·.chi)) (k + 1) = some fs
                  rw [← h2]; exact hr
                · cases hf
        have ih := xf_of_positions Δ vs (k + 1) (j0 + 1) fs hf' (by simpa using hl)
          (fun j hj hj2 => by
            have := hx (j + 1) (by simpa using hj) (by simpa using hj2)
            simp only [List.getElem_cons_succ] at this
            rw [show k + (j + 1) = k + 1 + j by omega, show j0 + (j + 1) = j0 + 1 + j by omega] at this
            exact this)
        have h0 := hx 0 (by simp) (by simp)
        simp only [List.getElem_cons_zero, Nat.add_zero] at h0
        obtain ⟨hc0, hv0, hp0⟩ := hspec 0 (by simp [Mock.kindsOf]) (by simp)
        simp only [List.getElem_cons_zero, Nat.add_zero, Mock.kindsOf, List.map_cons] at hc0 hv0 hp0
        refine .cons v vs f fs id j0 ?_ ih
        rw [hv0] at h0
        simp only [Option.getD_some] at h0
        rw [hc0]
        by_cases hce : (b.chi == .ext) = true
        · simpa [hce] using h0
        · simp only [hce, Bool.false_eq_true, if_false] at h0 ⊢
          have hne : f.chi ≠ .ext := by rw [hc0]; exact fun e => hce ((Sim2.chi_beq_ext _).mpr e)
          rw [hp0 hne] at h0
          exact h0

theorem allFieldsKept_cons {h : Heap} {n : Nat} (o : Obj) (hn : ∀ id o', h.get id = some o' → id ≠ n) :
    AllFieldsKept h ((n, o) :: h) := by
  intro id o' hg
  exact ⟨o', by rw [heap_get_cons_ne (hn id o' hg)]; exact hg, rfl⟩

/-- `let` / `create`: the first `N` positions in the new state, and the block of the stored values -/
theorem XC.let_parts {Γ : Ctx} {ρ : List Value} {N : Nat} {cfg cfg' : Config} {κ κ' : Nat → Nat → Word}
    {σ σ' : State} (C : XC P c cs hooks types Γ ρ cfg κ σ) (hlen : ρ.length = Γ.length) (hN : N ≤ Γ.length)
    (hH : HeapOK cfg.heap (roots Γ cfg.temps) cfg.next) (hnext : cfg.next < 2 ^ 64)
    (hdef : ∀ i, i < Γ.length → (σ.tempVal (posTemp (2 * i + 1))).isSome)
    (LP : LetProv Γ N cfg cfg' κ κ' σ σ') :
    XC P c cs hooks types (Γ.take N) (ρ.take N) cfg' κ' σ' ∧
    ∃ r, cfg'.temps.get (2 * N) = some r ∧ XB P c cs hooks types cfg'.heap κ' (ρ.drop N) r := by
  obtain ⟨K, fields, hf, hobj⟩ := LP
  have hids := ids_of_heapOK hH
  -- the old values in the new heap
  have hold : ∀ {v : Value} {p : Option Word} {a w : Word}, XV P c cs hooks types cfg.heap κ v p a w →
      XV P c cs hooks types cfg'.heap κ' v p a w := by
    intro v p a w hv
    rcases hobj with ⟨_, h2, h3, _⟩ | ⟨_, h2, h3, _⟩
    · rw [h2, h3]; exact hv
    · rw [h2]
      refine XV.kept (allFieldsKept_cons _ (fun id o' hg => by have := hids id o' hg; omega)) ?_
      refine XV.congrK (fun id o hg j => ?_) hv
      rw [h3]
      unfold storeK
      rw [if_neg (by have := hids id o hg; omega)]
  refine ⟨?_, ?_⟩
  · intro i h1 h2 w hw
    have hiN : i < N := by simp at h1; omega
    have hi : i < Γ.length := by omega
    have hi2 : i < ρ.length := by omega
    have g1 : (Γ.take N)[i] = Γ[i] := by simp
    have g2 : (ρ.take N)[i] = ρ[i] := by simp
    rw [K.mach i hiN] at hw
    rw [g1, g2, K.temps _ (by omega), K.temps _ (by omega)]
    exact hold (C i hi hi2 w hw)
  · have hlenD : (ρ.drop N).length = (Γ.drop N).length := by simp [hlen]
    rcases hobj with ⟨h1, h2, h3, h4⟩ | ⟨h1, h2, h3, h4⟩
    · have : ρ.drop N = [] := by
        apply List.length_eq_zero_iff.mp
        rw [hlenD, h1]; rfl
      rw [this]
      exact ⟨0, h4, .empty⟩
    · refine ⟨BitVec.ofNat 64 cfg.next, h4, ?_⟩
      have hrt : (BitVec.ofNat 64 cfg.next).toNat = cfg.next := ofNat_toNat_lt hnext
      have hr0 : BitVec.ofNat 64 cfg.next ≠ 0 := ofNat_ne_zero hH.pos hnext
      cases hρD : ρ.drop N with
      | nil =>
        rw [hρD] at hlenD
        have : Γ.drop N = [] := List.length_eq_zero_iff.mp hlenD.symm
        exact absurd this h1
      | cons v vs =>
        refine .block v vs _ ⟨0, fields⟩ hr0 (by rw [hrt, h2]; exact heap_get_cons_same) ?_
        rw [hrt, ← hρD]
        apply xf_of_positions (Γ.drop N) (ρ.drop N) N 0 fields hf hlenD
        intro j hj hj2
        have hj' : N + j < Γ.length := by simp at hj; omega
        have hj2' : N + j < ρ.length := by omega
        have g1 : (Γ.drop N)[j] = Γ[N + j] := by simp
        have g2 : (ρ.drop N)[j] = ρ[N + j] := by simp
        rw [g1, g2, Nat.zero_add]
        obtain ⟨w0, hw0⟩ := Option.isSome_iff_exists.mp (hdef (N + j) hj')
        have := hold (C (N + j) hj' hj2' w0 hw0)
        have hk : κ' cfg.next j = w0 := by
          rw [h3]; unfold storeK; rw [if_pos rfl, hw0]; rfl
        rw [hk]
        exact this

/-! ## `switch` / `invoke`: the fields of an object become positions -/

theorem XB.inv {h : Heap} {κ : Nat → Nat → Word} {vs : List Value} {r : Word}
    (hB : XB P c cs hooks types h κ vs r) (hne : vs ≠ []) :
    ∃ o, r ≠ 0 ∧ h.get r.toNat = some o ∧ XF P c cs hooks types h κ vs o.fields r.toNat 0 := by
  cases hB with
  | empty => exact absurd rfl hne
  | block v0 vs0 _ o hr0 hg hF => exact ⟨o, hr0, hg, hF⟩

/-- `switch` / `invoke`: the relation for the remaining and the loaded positions.  `hXB`: the block of the
value at the last position (from the walk of that value) -/
theorem XC.load {prog : AxCut.Prog} {Γ' Γ'' Δ : Ctx} {b : Binding} {ρ' vs : List Value} {v : Value} {body : Stmt}
    {cfg cfg' : Config} {κ : Nat → Nat → Word} {σ σ' : State} {k : Nat}
    (C : XC P c cs hooks prog.types (Γ' ++ [b]) (ρ' ++ [v]) cfg κ σ) (hlen : ρ'.length = Γ'.length)
    (hchi : Γ'.map (·.chi) = Γ''.map (·.chi))
    (hH : HeapOK cfg.heap (roots (Γ' ++ [b]) cfg.temps) cfg.next)
    (hsteps : stepsTo P k cfg cfg')
    (R' : RelX P hooks prog ⟨Γ'' ++ Δ, ρ' ++ vs, body⟩ cfg')
    (hkinds : vs.map Sim2.kindOf = Mock.kindsOf Δ)
    (LP : LoadProv Γ'.length Δ cfg cfg' κ σ σ')
    (hXB : ∀ r, cfg.temps.get (2 * Γ'.length) = some r → XB P c cs hooks prog.types cfg.heap κ vs r) :
    XC P c cs hooks prog.types (Γ'' ++ Δ) (ρ' ++ vs) cfg' κ σ' := by
  obtain ⟨hold, _⟩ := oldFields_steps k cfg cfg' hsteps
  have hids := ids_of_heapOK hH
  obtain ⟨K, hobj⟩ := LP
  have hlen'' : Γ'.length = Γ''.length := by simpa using congrArg List.length hchi
  have hlv : vs.length = Δ.length := by simpa [Mock.kindsOf] using congrArg List.length hkinds
  intro i h1 h2 w hw
  have hR := (R'.vals i h1 h2).1
  simp only at hR
  by_cases hi : i < Γ'.length
  · have hi'' : i < Γ''.length := by omega
    have hi2 : i < ρ'.length := by omega
    have e : Γ''[i].chi = Γ'[i].chi := by
      have := congrArg (fun l => l[i]?) hchi
      simp only [List.getElem?_map, List.getElem?_eq_getElem hi, List.getElem?_eq_getElem hi'',
        Option.map_some, Option.some.injEq] at this
      exact this.symm
    have g1 : (Γ'' ++ Δ)[i] = Γ''[i] := List.getElem_append_left hi''
    have g2 : (ρ' ++ vs)[i] = ρ'[i] := List.getElem_append_left hi2
    have hC := C i (by simp; omega) (by simp; omega) w (by rw [← K.mach i hi]; exact hw)
    have g1' : (Γ' ++ [b])[i]'(by simp; omega) = Γ'[i] := List.getElem_append_left hi
    have g2' : (ρ' ++ [v])[i]'(by simp; omega) = ρ'[i] := List.getElem_append_left hi2
    rw [g1', g2'] at hC
    rw [g1, g2, e, K.temps _ (by omega), K.temps _ (by omega)] at hR ⊢
    exact XV.sub hold hids hC hR
  · obtain ⟨j, rfl⟩ : ∃ j, i = Γ'.length + j := ⟨i - Γ'.length, by omega⟩
    have hjΔ : j < Δ.length := by simp at h1; omega
    have hjv : j < vs.length := by omega
    have g1 : (Γ'' ++ Δ)[Γ'.length + j] = Δ[j] := by
      rw [List.getElem_append_right (by omega)]; simp [hlen'']
    have g2 : (ρ' ++ vs)[Γ'.length + j] = vs[j] := by
      rw [List.getElem_append_right (by omega)]; simp [hlen]
    rcases hobj with ⟨hΔ, _⟩ | ⟨r, o, hr, hr0, hg, hk, hj'⟩
    · rw [hΔ] at hjΔ; simp at hjΔ
    · have hjo : j < o.fields.length := by
        have := congrArg List.length hk
        simp [Mock.kindsOf] at this; omega
      obtain ⟨ht1, ht0, hm⟩ := hj' j hjo
      obtain ⟨o2, _, hg2, hF⟩ := (hXB r hr).inv (fun e => by rw [e] at hjv; simp at hjv)
      rw [hg] at hg2
      injection hg2 with hg2
      subst hg2
      · skip
        have hx := XF.get hF j hjv hjo
        rw [Nat.zero_add] at hx
        have hcΔ : Δ[j].chi = o.fields[j].chi := by
          have := congrArg (fun l => l[j]?) hk
          simp only [Mock.kindsOf, List.getElem?_map, List.getElem?_eq_getElem hjo,
            List.getElem?_eq_getElem hjΔ, Option.map_some, Option.some.injEq] at this
          exact this.symm
        have hkv : Sim2.kindOf vs[j] = o.fields[j].chi := by
          have := congrArg (fun l => l[j]?) hkinds
          simp only [Mock.kindsOf, List.getElem?_map, List.getElem?_eq_getElem hjv,
            List.getElem?_eq_getElem hjΔ, Option.map_some, Option.some.injEq] at this
          rw [this, hcΔ]
        rw [hm] at hw
        injection hw with hw
        -- the machine word
        have hx' : XV P c cs hooks prog.types cfg.heap κ vs[j]
            (if o.fields[j].chi == .ext then none else some o.fields[j].ptr) o.fields[j].val w := by
          by_cases hcc : o.fields[j].chi = .cns
          · have : (trF κ r.toNat j o.fields[j]).val = κ r.toNat j := by
              unfold trF; simp only [hcc]
            rw [← hw, this]; exact hx
          · exact hx.words_irrel (by rw [hkv]; exact hcc) _ _
        rw [g1, g2, hcΔ, ht1, ht0] at hR ⊢
        simp only [Option.getD_some] at hR ⊢
        have e2 : (if (o.fields[j].chi == Chi.ext) = true then none else
            (if (o.fields[j].chi == Chi.ext) = true then none else some o.fields[j].ptr)) =
            (if (o.fields[j].chi == Chi.ext) = true then none else some o.fields[j].ptr) := by
          split <;> rfl
        rw [e2] at hR ⊢
        exact XV.sub hold hids hx' hR

/-! ## the walk at an object / at a closure -/

theorem XV.obj_inv {h : Heap} {κ : Nat → Nat → Word} {tag : Nat} {fields : List Value} {p : Option Word}
    {a w : Word} (hv : XV P c cs hooks types h κ (.obj tag fields) p a w) :
    ∃ r, p = some r ∧ XB P c cs hooks types h κ fields r := by
  cases hv with
  | obj _ _ r _ _ hb => exact ⟨r, rfl, hb⟩

theorem XV.clo_inv {h : Heap} {κ : Nat → Nat → Word} {envCtx : Ctx} {env : List Value} {clauses : Clauses}
    {p : Option Word} {a w : Word} (hv : XV P c cs hooks types h κ (.clo envCtx env clauses) p a w) :
    ∃ r a' envCtx', p = some r ∧ a = BitVec.ofNat 64 a' ∧ envCtx'.keys = envCtx.keys ∧
      XB P c cs hooks types h κ env r ∧ MethodsAt P hooks types a' envCtx' clauses ∧
      XMethodsAt c cs hooks types w envCtx' clauses := by
  cases hv with
  | clo _ envCtx' _ _ r a' _ hk hb hm hx => exact ⟨r, a', envCtx', rfl, rfl, hk, hb, hm, hx⟩

/-- the second temporary of every position of the context is defined on the machine -/
theorem X3R.mach_def {prog : AxCut.Prog} {Γ : Ctx} {ρ : List Value} {s : Stmt} {cfg : Config} {rs : List Nat}
    {hs : Scc.Heap.HState} {ι : Nat → Nat} {κ : Nat → Nat → Word} {σ : State} {out : List (Bool × Word)}
    (X : X3R c Γ cfg rs hs ι κ σ out) (R : RelX P hooks prog ⟨Γ, ρ, s⟩ cfg) :
    ∀ i, i < Γ.length → (σ.tempVal (posTemp (2 * i + 1))).isSome := by
  intro i hi
  have h2 : i < ρ.length := by have := R.len; simp only at this; omega
  obtain ⟨_, hsome, _, _⟩ := R.vals i hi h2
  obtain ⟨a, ha⟩ := Option.isSome_iff_exists.mp hsome
  rw [X.words i hi a ha]
  rfl

end

end Scc.A64.Ref.K
