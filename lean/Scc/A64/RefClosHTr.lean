/-
  Scc.A64.RefClosHTr — the translation `trHeap` of the word parts of an abstract heap (RefHeapDefs.lean)
  commutes with every heap operation of the abstract machine (`get`, `remove`, `set`, `share`, `shareAll`,
  `erase`, allocation, the abstract `load`): the operations look at ids, counts, kinds and pointer parts
  only.
  NOTE (fork): this file is the closure-aware version of Scc/A64/RefHeapTr.lean (same proofs, the
  three-way relation additionally carries the per-instance code-pointer map `κ`), in the namespace
  `Scc.A64.Ref.K`.  The original file is kept unchanged because Props/C07A64Heap.lean is built on its
  definitions.
-/
import Scc.A64.RefClosHDefs
import Scc.Heap.RefineLoad

set_option linter.unusedVariables false
set_option linter.unusedSimpArgs false

namespace Scc.A64.Ref.K

open Scc.AxCut Scc.Backend Scc.Backend.Abs Scc.Backend.Sim Scc.A64
open Scc.Heap.Refine (loadAbs)

section
variable (κ : Nat → Nat → Word)

theorem trO_count (id : Nat) (o : Obj) : (trO κ id o).count = o.count := rfl

theorem trO_fields (id : Nat) (o : Obj) : (trO κ id o).fields = trFs κ id 0 o.fields := rfl

theorem trF_chi (id j : Nat) (f : Abs.Field) : (trF κ id j f).chi = f.chi := rfl
theorem trF_ptr (id j : Nat) (f : Abs.Field) : (trF κ id j f).ptr = f.ptr := rfl

theorem trFs_length (id : Nat) : ∀ (j : Nat) (fs : List Abs.Field), (trFs κ id j fs).length = fs.length
  | _, [] => rfl
  | j, f :: fs => by simp [trFs, trFs_length id (j + 1) fs]

theorem trFs_map_chi (id : Nat) : ∀ (j : Nat) (fs : List Abs.Field),
    (trFs κ id j fs).map (·.chi) = fs.map (·.chi)
  | _, [] => rfl
  | j, f :: fs => by simp [trFs, trF_chi, trFs_map_chi id (j + 1) fs]

theorem trFs_getElem (id : Nat) : ∀ (j : Nat) (fs : List Abs.Field) (i : Nat) (hi : i < fs.length),
    (trFs κ id j fs)[i]'(by rw [trFs_length]; exact hi) = trF κ id (j + i) fs[i]
  | _, [], i, hi => by simp at hi
  | j, f :: fs, 0, _ => by simp [trFs]
  | j, f :: fs, i + 1, hi => by
    simp only [trFs, List.getElem_cons_succ]
    rw [trFs_getElem id (j + 1) fs i (by simpa using hi)]
    congr 1
    omega

theorem trFs_filterMap {α : Type} (g : Abs.Field → Option α) (hg : ∀ id j f, g (trF κ id j f) = g f)
    (id : Nat) : ∀ (j : Nat) (fs : List Abs.Field), (trFs κ id j fs).filterMap g = fs.filterMap g
  | _, [] => rfl
  | j, f :: fs => by
    simp only [trFs, List.filterMap_cons, hg, trFs_filterMap g hg id (j + 1) fs]

theorem trO_children (id : Nat) (o : Obj) : (trO κ id o).children = o.children := by
  unfold Obj.children
  rw [trO_fields]
  exact trFs_filterMap κ _ (fun _ _ _ => rfl) id 0 o.fields

theorem trO_with_count (id : Nat) (o : Obj) (c : Nat) :
    trO κ id { o with count := c } = { trO κ id o with count := c } := rfl

theorem trHeap_nil : trHeap κ [] = [] := rfl

theorem trHeap_cons (id : Nat) (o : Obj) (h : Heap) :
    trHeap κ ((id, o) :: h) = (id, trO κ id o) :: trHeap κ h := rfl

theorem trHeap_get (h : Heap) (id : Nat) : (trHeap κ h).get id = (h.get id).map (trO κ id) := by
  induction h with
  | nil => rfl
  | cons e h ih =>
    unfold Heap.get at ih ⊢
    rw [show (e :: h) = ((e.1, e.2) :: h) from rfl, trHeap_cons]
    simp only [List.find?_cons]
    by_cases he : (e.1 == id) = true
    · have : e.1 = id := by simpa using he
      simp [he, this]
    · simp only [he]
      exact ih

theorem trHeap_remove (h : Heap) (id : Nat) : (trHeap κ h).remove id = trHeap κ (h.remove id) := by
  unfold Heap.remove trHeap
  rw [List.filter_map]
  rfl

theorem trHeap_set (h : Heap) (id : Nat) (o : Obj) :
    (trHeap κ h).set id (trO κ id o) = trHeap κ (h.set id o) := by
  unfold Heap.set
  rw [trHeap_remove]
  rfl

theorem trHeap_share {h h' : Heap} {ref : Word} {k : Nat} (hs : h.share ref k = .ok h') :
    (trHeap κ h).share ref k = .ok (trHeap κ h') := by
  unfold Heap.share at hs ⊢
  by_cases h0 : (ref == 0) = true
  · rw [if_pos h0] at hs ⊢
    injection hs with hs; rw [hs]
  · rw [if_neg h0] at hs ⊢
    rw [trHeap_get]
    cases hg : h.get ref.toNat with
    | none => rw [hg] at hs; cases hs
    | some o =>
      rw [hg] at hs
      simp only [Option.map_some]
      injection hs with hs
      rw [← hs, ← trHeap_set]
      rfl

theorem trHeap_shareAll : ∀ (ids : List Nat) {h h' : Heap}, h.shareAll ids = .ok h' →
    (trHeap κ h).shareAll ids = .ok (trHeap κ h')
  | [], h, h', hs => by
    simp only [Heap.shareAll] at hs ⊢
    injection hs with hs; rw [hs]
  | id :: ids, h, h', hs => by
    simp only [Heap.shareAll] at hs ⊢
    cases h1 : h.share (BitVec.ofNat 64 id) 1 with
    | error e => rw [h1] at hs; cases hs
    | ok h1' =>
      rw [h1] at hs
      rw [trHeap_share κ h1]
      exact trHeap_shareAll ids hs

theorem trHeap_totalFields (h : Heap) : (trHeap κ h).totalFields = h.totalFields := by
  unfold Heap.totalFields trHeap
  rw [List.map_map]
  congr 1
  apply List.map_congr_left
  intro e _
  simp [trO, trFs_length]

theorem trHeap_eraseLoop : ∀ (fuel : Nat) (work : List Nat) {h h' : Heap},
    Heap.eraseLoop fuel work h = .ok h' → Heap.eraseLoop fuel work (trHeap κ h) = .ok (trHeap κ h')
  | 0, [], h, h', hs => by
    simp only [Heap.eraseLoop] at hs ⊢
    injection hs with hs; rw [hs]
  | 0, _ :: _, h, h', hs => by simp [Heap.eraseLoop] at hs
  | _ + 1, [], h, h', hs => by
    simp only [Heap.eraseLoop] at hs ⊢
    injection hs with hs; rw [hs]
  | fuel + 1, id :: work, h, h', hs => by
    simp only [Heap.eraseLoop] at hs ⊢
    rw [trHeap_get]
    cases hg : h.get id with
    | none => rw [hg] at hs; cases hs
    | some o =>
      rw [hg] at hs
      simp only [Option.map_some, trO_count, trO_children] at hs ⊢
      by_cases hc : o.count > 0
      · rw [if_pos hc] at hs ⊢
        have := trHeap_eraseLoop fuel work hs
        rw [← trHeap_set] at this
        exact this
      · rw [if_neg hc] at hs ⊢
        have := trHeap_eraseLoop fuel (o.children ++ work) hs
        rw [← trHeap_remove] at this
        exact this

theorem trHeap_erase {h h' : Heap} {ref : Word} (hs : h.erase ref = .ok h') :
    (trHeap κ h).erase ref = .ok (trHeap κ h') := by
  unfold Heap.erase at hs ⊢
  by_cases h0 : (ref == 0) = true
  · rw [if_pos h0] at hs ⊢
    injection hs with hs; rw [hs]
  · rw [if_neg h0] at hs ⊢
    rw [trHeap_totalFields]
    exact trHeap_eraseLoop κ _ _ hs

theorem trHeap_loadAbs {h h' : Heap} {id : Nat} {o : Obj} (hs : loadAbs h id o = .ok h') :
    loadAbs (trHeap κ h) id (trO κ id o) = .ok (trHeap κ h') := by
  unfold loadAbs at hs ⊢
  rw [trO_count, trO_children]
  by_cases hc : (o.count == 0) = true
  · rw [if_pos hc] at hs ⊢
    injection hs with hs
    rw [← hs, trHeap_remove]
  · rw [if_neg hc] at hs ⊢
    have := trHeap_shareAll κ _ hs
    rw [← trHeap_set] at this
    exact this

/-! ## what does not see the translation -/

theorem trHeap_ids (h : Heap) : (trHeap κ h).map (·.1) = h.map (·.1) := by
  unfold trHeap; rw [List.map_map]; rfl

theorem trHeap_mem {h : Heap} {e : Nat × Obj} (he : e ∈ trHeap κ h) : ∃ e0 ∈ h, e = (e0.1, trO κ e0.1 e0.2) := by
  unfold trHeap at he
  obtain ⟨e0, h0, rfl⟩ := List.mem_map.1 he
  exact ⟨e0, h0, rfl⟩

theorem mem_trHeap {h : Heap} {e : Nat × Obj} (he : e ∈ h) : (e.1, trO κ e.1 e.2) ∈ trHeap κ h :=
  List.mem_map.2 ⟨e, he, rfl⟩

theorem trHeap_refCount (h : Heap) (rs : List Nat) (id : Nat) :
    refCount (trHeap κ h) rs id = refCount h rs id := by
  unfold refCount trHeap
  rw [List.map_map]
  congr 2
  apply List.map_congr_left
  intro e _
  show List.count id (trO κ e.1 e.2).children = _
  rw [trO_children]

theorem heapOK_trHeap {h : Heap} {rs : List Nat} {next : Nat} (H : HeapOK h rs next) :
    HeapOK (trHeap κ h) rs next := by
  refine ⟨H.pos, by rw [trHeap_ids]; exact H.nodup, ?_, ?_, ?_⟩
  · intro e he
    obtain ⟨e0, h0, rfl⟩ := trHeap_mem κ he
    exact H.ids e0 h0
  · intro e he
    obtain ⟨e0, h0, rfl⟩ := trHeap_mem κ he
    rw [trHeap_refCount]
    exact H.counts e0 h0
  · intro id hid
    rw [trHeap_refCount] at hid
    rw [trHeap_get]
    have := H.live id hid
    cases hg : h.get id with
    | none => rw [hg] at this; cases this
    | some o => rfl

/-- the translation looks at `κ` only on the ids of the heap -/
theorem trFs_congr {κ' : Nat → Nat → Word} (id : Nat) (hκ : ∀ j, κ' id j = κ id j) :
    ∀ (j : Nat) (fs : List Abs.Field), trFs κ' id j fs = trFs κ id j fs
  | _, [] => rfl
  | j, f :: fs => by
    simp only [trFs, trFs_congr id hκ (j + 1) fs]
    congr 1
    unfold trF
    rw [hκ j]

theorem trHeap_congr {κ' : Nat → Nat → Word} : ∀ (h : Heap), (∀ e ∈ h, ∀ j, κ' e.1 j = κ e.1 j) →
    trHeap κ' h = trHeap κ h
  | [], _ => rfl
  | e :: h, hκ => by
    rw [show (e :: h) = ((e.1, e.2) :: h) from rfl, trHeap_cons, trHeap_cons,
      trHeap_congr h (fun e' he' => hκ e' (by simp [he']))]
    congr 2
    unfold trO
    rw [trFs_congr κ e.1 (hκ e (by simp))]

end

/-- the `words` clause from the word the machine holds -/
theorem words_of {x : Option Word} {v : Word} {chi : Chi} {a : Word} (hx : x = some v)
    (hv : chi ≠ .cns → v = trW chi a) : x = some (trWs x chi a) := by
  subst hx
  cases chi with
  | cns => rfl
  | prd => rw [hv (by decide)]; rfl
  | ext => rw [hv (by decide)]; rfl

theorem words_elim {x : Option Word} {chi : Chi} {a : Word} (h : x = some (trWs x chi a)) (hc : chi ≠ .cns) :
    x = some (trW chi a) := by
  cases chi with
  | cns => exact absurd rfl hc
  | prd => exact h
  | ext => exact h

theorem trF_val_of_ne (κ : Nat → Nat → Word) (id j : Nat) (f : Abs.Field) (hc : f.chi ≠ .cns) :
    (trF κ id j f).val = trW f.chi f.val := by
  unfold trF
  cases h : f.chi with
  | cns => exact absurd h hc
  | prd => rfl
  | ext => rfl

end Scc.A64.Ref.K
