/-
  Scc.A64.RefDefs — SPEC definitions for "Theorem B" (C07, AArch64): the REFINEMENT from the abstract
  backend machine `Scc.Backend.Abs` (AbstractMachine.lean: executes the `MockOp`s that the generic code
  generator emits with the mock backend) to the AArch64 SPEC machine (Scc/A64/Machine.lean) executing the
  instructions that the SAME generator emits with `a64Backend`.

  * `OpRel g op blk g'` — the AArch64 instruction list `blk` is the rendering of the abstract instruction
    `op` (temporary `t` of the mock numbering ↦ `posTemp t` = utils.rs temporary_from_position: logical
    registers X4..X29, i.e. the machine's X4–X17, X19–X30, then spill slots 1..255; RET1 ↦ X0), together
    with the static side conditions under which the backend method is correct.  `g`, `g'` : `Mode` is the
    scratch discipline of parallel_moves.rs before / after the instruction: between a `save` and the
    matching `restore` (`Mode.pm`) the abstract scratch cell lives in TEMP = X2 (the AArch64 `mov` goes
    through TEMP2 = X3 for a spill-to-spill move, so TEMP is never disturbed).
  * `Seg g ops cs g'` — the code list `cs` is the concatenation of the renderings of `ops`.
  * `At ops cs a k g` — abstract address `a` of `Program.ofOps ops` corresponds to list position `k` of
    the routine `cs` (the machine's program counter is then the number of ITEMS before position `k`: labels,
    directives and plain comments occupy no item of the laid-out program, `#ctx` hook comments do).
  * `RepA64` — the representation relation: temporary `t` of the abstract machine ↔ register / spill slot
    `posTemp t`; RET1 ↔ X0; scratch ↔ TEMP; equal traces; SP at the statement-boundary value with the
    callee-save area holding the entry values of X19–X30 (`CC.Core`, what the epilogue needs).
    INTEGER FRAGMENT: only the WORD parts of the positions (odd temporaries) are tracked, and the abstract
    heap is not represented (rung 4: Scc/A64/RefHeap*.lean).
-/
import Scc.A64.MemProofsStore
import Scc.A64.CCProofsRun
import Scc.Backend.SimDefs

namespace Scc.A64.Ref

open Scc.AxCut Scc.Backend Scc.Backend.Abs Scc.Backend.Sim Scc.A64

/-- scratch discipline of parallel_moves.rs -/
inductive Mode where
  | normal
  /-- between `save` and `restore`: TEMP holds the saved value -/
  | pm
  /-- between `mov RET1 t` and `jumplabel cleanup`: X0 holds the result -/
  | exit
  deriving DecidableEq, Repr

/-- the word-part temporary of a position within the capacity of utils.rs temporary_from_position -/
def PosW (t : Nat) : Prop := t % 2 = 1 ∧ t < 281

instance (t : Nat) : Decidable (PosW t) := by unfold PosW; infer_instance

/-- `blk` renders `op`; `g ⟶ g'` is the scratch mode before / after -/
def OpRel (g : Mode) (op : MockOp) (blk : List Code) (g' : Mode) : Prop :=
  match op with
  | .comment m => blk = [.COMMENT m] ∧ g' = g
  | .label n => blk = [.LAB n] ∧ g = .normal ∧ g' = .normal
  | .jumpLabel n => blk = [.B n] ∧ g' = .normal ∧ (g = .normal ∨ (g = .exit ∧ n = "cleanup"))
  | .jif c a b n => blk = jumpLabelIf c (posTemp a) (posTemp b) n ∧ PosW a ∧ PosW b ∧
      g = .normal ∧ g' = .normal
  | .jifz c a n => blk = jumpLabelIfZero c (posTemp a) n ∧ PosW a ∧ g = .normal ∧ g' = .normal
  | .li t imm => blk = loadImmediate (posTemp t) imm ∧ PosW t ∧ g = .normal ∧ g' = .normal
  | .binop o t a b => blk = Scc.A64.op o (posTemp t) (posTemp a) (posTemp b) ∧ PosW t ∧ PosW a ∧ PosW b ∧
      g = .normal ∧ g' = .normal
  | .mov t s =>
      (t = Mock.T_RET1 ∧ PosW s ∧ blk = mov (.register RETURN1) (posTemp s) ∧ g = .normal ∧ g' = .exit) ∨
      (PosW t ∧ PosW s ∧ blk = mov (posTemp t) (posTemp s) ∧ g' = g)
  | .print nl s kinds => ∃ ctx : Ctx, blk = printI64 nl (posTemp s) ctx ∧ kinds = Mock.kindsOf ctx ∧
      PosW s ∧ s < 2 * ctx.length ∧ g = .normal ∧ g' = .normal
  | .save t _ => ∃ b, blk = storeTemporary (posTemp t) b ∧ PosW t ∧ (g = .normal ∨ g = .pm) ∧ g' = .pm
  | .restore t _ => ∃ b, blk = restoreTemporary (posTemp t) b ∧ PosW t ∧ g = .pm ∧ g' = .normal
  | _ => False

/-- `cs` is the concatenation of the renderings of `ops` -/
inductive Seg : Mode → List MockOp → List Code → Mode → Prop where
  | nil (g : Mode) : Seg g [] [] g
  | cons {g g1 g' : Mode} {op : MockOp} {blk : List Code} {ops : List MockOp} {cs : List Code} :
      OpRel g op blk g1 → Seg g1 ops cs g' → Seg g (op :: ops) (blk ++ cs) g'

theorem Seg.append {g g1 g' : Mode} {o1 o2 : List MockOp} {c1 c2 : List Code}
    (h1 : Seg g o1 c1 g1) (h2 : Seg g1 o2 c2 g') : Seg g (o1 ++ o2) (c1 ++ c2) g' := by
  induction h1 with
  | nil g => simpa using h2
  | cons hop _ ih =>
    rw [List.cons_append, List.append_assoc]
    exact Seg.cons hop (ih h2)

theorem Seg.single {g g' : Mode} {op : MockOp} {blk : List Code} (h : OpRel g op blk g') :
    Seg g [op] blk g' := by
  have := Seg.cons h (Seg.nil g')
  simpa using this

/-- splitting at an instruction boundary -/
theorem Seg.split {g g' : Mode} : ∀ {o1 o2 : List MockOp} {cs : List Code}, Seg g (o1 ++ o2) cs g' →
    ∃ c1 c2 gm, cs = c1 ++ c2 ∧ Seg g o1 c1 gm ∧ Seg gm o2 c2 g'
  | [], o2, cs, h => ⟨[], cs, g, rfl, Seg.nil g, h⟩
  | op :: o1, o2, cs, h => by
    cases h with
    | cons hop hrest =>
      obtain ⟨c1, c2, gm, e, s1, s2⟩ := Seg.split hrest
      exact ⟨_ ++ c1, c2, gm, by rw [e, List.append_assoc], Seg.cons hop s1, s2⟩

/-- abstract address `a` ↔ list position `k`: the suffixes from there are related -/
def At (ops : List MockOp) (cs : List Code) (a k : Nat) (g : Mode) : Prop :=
  ∃ ops1 ops2 cs1 cs2 tail, ops = ops1 ++ ops2 ∧ cs = cs1 ++ cs2 ++ tail ∧ instrCount ops1 = a ∧
    cs1.length = k ∧ Seg g ops2 cs2 .normal

/-- THE REPRESENTATION RELATION (integer fragment); `out` is the trace of the machine (most recent first) -/
structure RepA64 (c : MemCfg) (g : Mode) (cfg : Config) (σ : State) (out : List (Bool × Word)) : Prop where
  /-- SP at its boundary value, the callee-save area holds the entry values of X19–X30 -/
  core : CC.Core c σ
  /-- word parts of the positions -/
  temps : ∀ t v, PosW t → cfg.temps.get t = some v → σ.tempVal (posTemp t) = some v
  /-- RET1 is X0 (defined only between `mov RET1 t` and `jumplabel cleanup`) -/
  ret : ∀ v, cfg.temps.get Mock.T_RET1 = some v → g = .exit ∧ σ.reg 0 = some v
  /-- the scratch cell of parallel moves -/
  scratch : g = .pm → ∀ w, cfg.scratch = some w → σ.reg xT = some w
  out : out = cfg.out

end Scc.A64.Ref
