/-
  Scc.A64.MemProofsLoadTop — the contract of `load` (memory.rs of axcut2aarch64: Memory::load with
  load_register) against `Scc.Heap.loadObj`: unique branch (count 0: the blocks go back onto the linear
  free list, the children move into the environment) and shared branch (count > 0: decrement, every
  pointer child is shared), for objects of ANY number of fields and EVERY placement; on the view, then
  on the machine.
-/
import Scc.A64.MemProofsLoadRec

set_option linter.unusedSimpArgs false
set_option linter.unusedVariables false

namespace Scc.A64

open Scc.AxCut
open Scc.Backend (GenM TempNum freshLabel)

/-! ## the generators succeed within the capacity (needed for the branch that does not run) -/

theorem loadValue_gen (b : Binding) (ctx : Ctx) (mbr : Register) (off : Nat) (mode : LoadMode) (k : Nat)
    (hcap : 2 * ctx.length + 1 < 281) :
    ∃ code k', (loadValue b ctx mbr off mode).run k = .ok (code, k') ∧ k ≤ k' ∧ LabsIn code k k' := by
  unfold loadValue
  rw [genm_bind (loadField_run .snd ctx mbr off k (by simpa [TempNum.toNat] using hcap))]
  by_cases hχ : (b.chi != .ext) = true
  · simp only [hχ, if_true]
    rw [genm_bind (loadField_run .fst ctx mbr off k (by simp [TempNum.toNat]; omega)),
      genm_bind (freshTemporary_run k (by simp [TempNum.toNat]; omega))]
    suffices hS : ∃ code k', StateT.run (
        if (mode == LoadMode.share) = true then
          (shareBlock (.register (ptrReg (posTemp (2 * ctx.length + TempNum.fst.toNat)))) >>= fun c3 =>
            pure (loadFieldCode (posTemp (2 * ctx.length + TempNum.snd.toNat)) mbr (fieldOffset TempNum.snd.toNat off) ++
              loadFieldCode (posTemp (2 * ctx.length + TempNum.fst.toNat)) mbr (fieldOffset TempNum.fst.toNat off) ++ c3) :
            GenM (List Code))
        else pure (loadFieldCode (posTemp (2 * ctx.length + TempNum.snd.toNat)) mbr (fieldOffset TempNum.snd.toNat off) ++
              loadFieldCode (posTemp (2 * ctx.length + TempNum.fst.toNat)) mbr (fieldOffset TempNum.fst.toNat off))) k =
          .ok (code, k') ∧ k ≤ k' ∧ LabsIn code k k' by
      revert hS
      cases posTemp (2 * ctx.length + TempNum.fst.toNat) <;> exact id
    cases mode with
    | release =>
      simp only [show (LoadMode.release == LoadMode.share) = false from rfl, Bool.false_eq_true, if_false]
      exact ⟨_, k, genm_pure _ k, Nat.le_refl _,
        ((noLab_loadFieldCode _ _ _).append (noLab_loadFieldCode _ _ _)).labsIn _ _⟩
    | share =>
      simp only [beq_self_eq_true, if_true]
      rw [genm_bind (shareBlock_reg_run _ k)]
      exact ⟨_, k + 1, genm_pure _ _, by omega,
        (((noLab_loadFieldCode _ _ _).append (noLab_loadFieldCode _ _ _)).labsIn _ _).append
          (labsIn_shareCode _ _ k)⟩
  · simp only [hχ, Bool.false_eq_true, if_false]
    exact ⟨_, k, genm_pure _ k, Nat.le_refl _, (noLab_loadFieldCode _ _ _).labsIn _ _⟩

theorem loadValuesLoop_gen (existing : Ctx) (mbr : Register) (mode : LoadMode) :
    ∀ (bsRev : List Binding) (ff k : Nat),
    2 * (existing.length + bsRev.length) ≤ 280 → bsRev.length ≤ ff →
    ∃ code k', (loadValuesLoop existing mbr mode bsRev ff).run k = .ok (code, k') ∧ k ≤ k' ∧ LabsIn code k k' := by
  intro bsRev
  induction bsRev with
  | nil => intro ff k _ _; exact ⟨[], k, rfl, Nat.le_refl _, LabsIn.nil _ _⟩
  | cons b rest ih =>
    intro ff k hcap hff
    simp only [List.length_cons] at hcap hff
    cases ff with
    | zero => omega
    | succ ff =>
      obtain ⟨c1, k1, hr1, hk1, hl1⟩ := loadValue_gen b (existing ++ rest.reverse) mbr ff mode k (by simp; omega)
      obtain ⟨c2, k2, hr2, hk2, hl2⟩ := ih ff k1 (by omega) (by omega)
      refine ⟨c1 ++ c2, k2, ?_, by omega, (hl1.mono (Nat.le_refl _) hk2).append (hl2.mono hk1 (Nat.le_refl _))⟩
      simp only [loadValuesLoop, Nat.add_one_ne_zero, if_false, Nat.add_sub_cancel]
      rw [genm_bind hr1, genm_bind hr2]
      rfl

theorem loadValues_gen (toLoad existing : Ctx) (mbr : Register) (ff : Nat) (mode : LoadMode) (k : Nat)
    (hcap : 2 * (existing.length + toLoad.length) ≤ 280) (hff : toLoad.length ≤ ff) :
    ∃ code k', (loadValues toLoad existing mbr ff mode).run k = .ok (code, k') ∧ k ≤ k' ∧ LabsIn code k k' := by
  obtain ⟨cs, k', hr, hk, hl⟩ := loadValuesLoop_gen existing mbr mode toLoad.reverse ff k (by simpa using hcap)
    (by simpa using hff)
  refine ⟨.COMMENT "###load values" :: cs, k', ?_, hk, hl.cons_other (by simp)⟩
  unfold loadValues
  rw [genm_bind hr]
  rfl

theorem loadLink_gen (pos : BlockPosition) (ctxAll : Ctx) (mbr : Register) (k : Nat)
    (hcap : 2 * ctxAll.length ≤ 280) :
    ∃ code, (loadLink pos ctxAll mbr).run k = .ok (code, k) ∧ NoLab code := by
  cases pos with
  | last => exact ⟨[], rfl, noLab_nil⟩
  | other =>
    refine ⟨_, ?_, (noLab_comment "###load link to next block").append
      (noLab_loadFieldCode (posTemp (2 * ctxAll.length + TempNum.fst.toNat)) mbr
        (fieldOffset TempNum.fst.toNat (FIELDS_PER_BLOCK - 1)))⟩
    unfold loadLink
    simp only [beq_self_eq_true, if_true]
    rw [genm_bind (loadField_run .fst ctxAll mbr (FIELDS_PER_BLOCK - 1) k (by simp [TempNum.toNat]; omega))]
    rfl

theorem sub_restLength_le (m : Nat) (pos : BlockPosition) :
    m - (if m ≤ FIELDS_PER_BLOCK - pos.toNat then 0 else m - (FIELDS_PER_BLOCK - pos.toNat)) ≤
      FIELDS_PER_BLOCK - pos.toNat := by
  split <;> omega

theorem loadFields_gen : ∀ (fuel : Nat) (toLoad existing : Ctx) (pos : BlockPosition) (mode : LoadMode)
    (rf : Bool) (k : Nat), toLoad.length < fuel → 2 * (existing.length + toLoad.length) ≤ 280 →
    ∃ code rf' k', (loadFields fuel toLoad existing pos mode rf).run k = .ok ((code, rf'), k') ∧ k ≤ k' ∧
      LabsIn code k k' := by
  intro fuel
  induction fuel with
  | zero => intro toLoad _ _ _ _ _ hf; exact absurd hf (Nat.not_lt_zero _)
  | succ fuel ih =>
    intro toLoad existing pos mode rf k hfuel hcap
    simp only [loadFields]
    by_cases hne : toLoad = []
    · subst hne
      simp only [List.isEmpty_nil, if_true]
      exact ⟨[], rf, k, genm_pure _ k, Nat.le_refl _, LabsIn.nil _ _⟩
    · have hie : toLoad.isEmpty = false := by cases toLoad <;> simp_all
      have hpos : 0 < toLoad.length := List.length_pos_iff.mpr hne
      have hrlt : (if toLoad.length ≤ FIELDS_PER_BLOCK - pos.toNat then 0
          else toLoad.length - (FIELDS_PER_BLOCK - pos.toNat)) < toLoad.length := by
        rw [restLength_eq]; exact Scc.Heap.restLength_lt _ _ hpos
      have hsub := sub_restLength_le toLoad.length pos
      simp only [hie, Bool.false_eq_true, if_false]
      generalize (if toLoad.length ≤ FIELDS_PER_BLOCK - pos.toNat then 0
          else toLoad.length - (FIELDS_PER_BLOCK - pos.toNat)) = rl at hrlt hsub ⊢
      have hlt2 : (toLoad.take rl).length = rl := by simp [List.length_take]; omega
      have hlt : (existing ++ toLoad.take rl).length = existing.length + rl := by simp [hlt2]
      have hla : (existing ++ toLoad).length = existing.length + toLoad.length := by simp
      have hdl : (toLoad.drop rl).length = toLoad.length - rl := by simp
      obtain ⟨c0, rfa, k1, hr0, hk1, hl0⟩ := ih (toLoad.take rl) existing .other mode rf k (by rw [hlt2]; omega)
        (by rw [hlt2]; omega)
      rw [genm_bind hr0, genm_bind (freshTemporary_run k1 (by rw [hlt]; simp [TempNum.toNat]; omega))]
      cases posTemp (2 * (existing ++ toLoad.take rl).length + TempNum.fst.toNat) with
      | register r =>
        obtain ⟨c2, hr2, hn2⟩ := loadLink_gen pos (existing ++ toLoad) r k1 (by rw [hla]; exact hcap)
        obtain ⟨c3, k', hr3, hk3, hl3⟩ := loadValues_gen (toLoad.drop rl) (existing ++ toLoad.take rl) r
          (FIELDS_PER_BLOCK - pos.toNat) mode k1 (by rw [hlt, hdl]; omega) (by rw [hdl]; exact hsub)
        simp only []
        rw [genm_bind hr2, genm_bind hr3]
        refine ⟨_, _, k', genm_pure _ _, by omega, ?_⟩
        refine LabsIn.append (LabsIn.append (LabsIn.append (hl0.mono (Nat.le_refl _) (by omega)) ?_)
          (hn2.labsIn _ _)) (hl3.mono hk1 (Nat.le_refl _))
        exact LabsIn.of_noLab _ _ (fun l => by split <;> simp [releaseBlock])
      | spill q =>
        obtain ⟨c2, hr2, hn2⟩ := loadLink_gen pos (existing ++ toLoad) TEMPORARY_TEMP k1 (by rw [hla]; exact hcap)
        obtain ⟨c3, k', hr3, hk3, hl3⟩ := loadValues_gen (toLoad.drop rl) (existing ++ toLoad.take rl)
          TEMPORARY_TEMP (FIELDS_PER_BLOCK - pos.toNat) mode k1 (by rw [hlt, hdl]; omega) (by rw [hdl]; exact hsub)
        simp only []
        rw [genm_bind hr2, genm_bind hr3]
        refine ⟨_, _, k', genm_pure _ _, by omega, ?_⟩
        refine LabsIn.append (LabsIn.append (LabsIn.append (LabsIn.append (LabsIn.append
          (hl0.mono (Nat.le_refl _) (by omega)) ?_) ?_) (hn2.labsIn _ _)) (hl3.mono hk1 (Nat.le_refl _))) ?_
        · exact LabsIn.of_noLab _ _ (fun l => by split <;> simp)
        · exact LabsIn.of_noLab _ _ (fun l => by
            simp only [List.mem_append, List.mem_cons, reduceCtorEq, List.not_mem_nil, or_false, false_or]
            split <;> simp [releaseBlock])
        · exact LabsIn.of_noLab _ _ (fun l => by split <;> simp)

/-! ## Memory::load -/

/-- memory.rs load_register: shape of the code, given the two runs of `load_fields` -/
theorem loadRegister_run (mb : Register) (toLoad existing : Ctx) {k kT kE : Nat} {cT cE : List Code} {rT rE : Bool}
    (hT : (loadFields (toLoad.length + 1) toLoad existing .last .release false).run k = .ok ((cT, rT), kT))
    (hE : (loadFields (toLoad.length + 1) toLoad existing .last .share false).run kT = .ok ((cE, rE), kE)) :
    (loadRegister mb toLoad existing).run k =
      .ok (.COMMENT "##check refcount" :: ([.CMPI TEMP2 0, .BEQ (labName (kE + 1))] ++
        ([.COMMENT "##either decrement refcount and share children...", .SUBI TEMP2 TEMP2 1,
          .STR TEMP2 mb REFERENCE_COUNT_OFFSET] ++ cE) ++
        [.B (labName (kE + 2)), .LAB (labName (kE + 1))] ++
        (.COMMENT "##... or release blocks onto linear free list when loading" :: cT) ++
        [.LAB (labName (kE + 2))]), kE + 2) := by
  unfold loadRegister
  rw [genm_bind hT]
  simp only []
  rw [genm_bind hE]
  simp only []
  rw [genm_bind (ifZeroThenElse_run TEMP2 _ _ kE)]
  rfl

/-- memory.rs load: shape of the code, both placements of the object pointer at once -/
theorem load_run (toLoad existing : Ctx) (hne : toLoad ≠ []) (hcap : 2 * existing.length < 281)
    {k k' : Nat} {cr : List Code}
    (hr : (loadRegister (ptrReg (posTemp (2 * existing.length))) toLoad existing).run k = .ok (cr, k')) :
    (load toLoad existing).run k =
      .ok ([.COMMENT "#load from memory"] ++ loadPtr (posTemp (2 * existing.length)) ++
        [.LDR TEMP2 (ptrReg (posTemp (2 * existing.length))) REFERENCE_COUNT_OFFSET] ++ cr, k') := by
  have hie : toLoad.isEmpty = false := by cases toLoad <;> simp_all
  unfold load
  simp only [hie, Bool.false_eq_true, if_false]
  rw [genm_bind (freshTemporary_run k (by simpa [TempNum.toNat] using hcap))]
  simp only [TempNum.toNat, Nat.add_zero]
  cases hpt : posTemp (2 * existing.length) with
  | register r =>
    rw [hpt] at hr
    simp only [ptrReg] at hr
    simp only []
    rw [genm_bind hr]
    rfl
  | spill q =>
    rw [hpt] at hr
    simp only [ptrReg] at hr
    simp only []
    rw [genm_bind hr]
    rfl

section Load
variable {c : MemCfg}

/-- CONTRACT of `load` on the view: unique branch (count 0) and shared branch (count > 0), ANY number
of fields, every placement -/
theorem m_load (C : HeapCfgOK c) {μ : MState} {h h' : Scc.Heap.HState} (H : HRelM c μ h)
    {toLoad existing : Ctx} (hcap : 2 * (existing.length + toLoad.length) ≤ 280) {pw : Word}
    (hp : μ.val (posTemp (2 * existing.length)) = some pw) {vals : List Scc.Heap.Field}
    (hop : Scc.Heap.loadObj h pw.toNat (toLoad.map kindOf) = .ok (h', vals))
    (hno : h.mem.get pw.toNat ≠ 0 → ∀ a, h'.mem.get a < 2 ^ 64) (k : Nat) :
    ∃ code k', (load toLoad existing).run k = .ok (code, k') ∧ k ≤ k' ∧ LabsIn code k k' ∧
      ∃ μ', mFwd c code μ = some (μ', .next) ∧ HRelM c μ' h' ∧ EnvFields μ' existing.length toLoad vals ∧
        (∀ u, u ≠ .register (.x 0) → u ≠ .register (.x 2) → u ≠ .register (.x 3) → u ≠ .spill 0 →
          (∀ m, 2 * existing.length ≤ m → m < 2 * (existing.length + toLoad.length) → u ≠ posTemp m) →
          μ'.val u = μ.val u) := by
  by_cases hne : toLoad = []
  · subst hne
    simp only [List.map_nil, Scc.Heap.loadObj, if_true, Except.ok.injEq, Prod.mk.injEq] at hop
    obtain ⟨rfl, rfl⟩ := hop
    exact ⟨[], k, rfl, Nat.le_refl _, LabsIn.nil _ _, μ, mFwd_nil c μ, H, trivial, fun _ _ _ _ _ _ => rfl⟩
  · have hkne : toLoad.map kindOf ≠ [] := by simpa using hne
    have hc0 : 2 * existing.length < 281 := by omega
    have htm := isVar_posTemp hc0
    obtain ⟨t0, t1, t2, t3⟩ := isVar_ne htm
    -- the two runs of load_fields
    obtain ⟨cT, rT, kT, hrT, hkT, hlT⟩ := loadFields_gen (toLoad.length + 1) toLoad existing .last .release false k
      (Nat.lt_succ_self _) hcap
    obtain ⟨cE, rE, kE, hrE, hkE, hlE⟩ := loadFields_gen (toLoad.length + 1) toLoad existing .last .share false kT
      (Nat.lt_succ_self _) hcap
    have hrun := load_run toLoad existing hne hc0
      (loadRegister_run (ptrReg (posTemp (2 * existing.length))) toLoad existing hrT hrE)
    have l12 : labName (kE + 1) ≠ labName (kE + 2) := fun e => by have := labName_inj.mp e; omega
    have hi0 : okImm12 0 = true := by decide
    have hi1 : okImm12 1 = true := by decide
    -- the object pointer in a register, the count compared with 0
    simp only [Scc.Heap.loadObj, hkne, if_false] at hop
    cases hrd : Scc.Heap.rd h pw.toNat with
    | error e => simp [hrd] at hop
    | ok cnt =>
      simp only [hrd] at hop
      obtain ⟨hok, hcnt⟩ := rd_eq_ok.1 hrd
      have ha : haddr c pw 0 = some pw.toNat := haddr_ok0 C H hok
      obtain ⟨j, hj, j30, j2, j3, _, μ0, x0, v0, hh0, F0⟩ := m_loadPtr (c := c) (μ := μ) htm
      have v0' : μ0.val (.register (.x j)) = some pw := v0.trans hp
      have hm0 : maddr c μ0 (.x j) REFERENCE_COUNT_OFFSET = some pw.toNat := by
        rw [refcount_zero, maddr_eq j30 v0', ha]
      let μ1 : MState := μ0.setT (.register (.x 3)) (some (μ.heap pw.toNat))
      have e1 : mFwd c ([.COMMENT "#load from memory"] ++ loadPtr (posTemp (2 * existing.length)) ++
            [.LDR TEMP2 (ptrReg (posTemp (2 * existing.length))) REFERENCE_COUNT_OFFSET] ++
            [.COMMENT "##check refcount", .CMPI TEMP2 0]) μ =
          some (μ1.setF (some (μ.heap pw.toNat, 0)), .next) := by
        rw [hj]
        refine mFwd_seq c (mFwd_seq c (mFwd_seq c (mFwd_comment c _ μ) x0)
          (mFwd_step c (mexecC_LDRh c (by decide : 3 < 30) hm0) (mFwd_nil c _))) ?_
        rw [hh0]
        simp [mFwd_cons, mFwd_nil, mcont, mexecC, mexec, TEMP2_eq, regOpnd, hi0, imm_zero, μ1]
      have j3' : ¬ Temporary.register (.x j) = .register (.x 3) := reg_ne j3
      have v1 : μ1.val (.register (.x j)) = some pw := by simp [μ1, j3', v0']
      have hh1 : μ1.heap = μ.heap := hh0
      have F1 : ∀ u, u ≠ .register (.x 2) → u ≠ .register (.x 3) → μ1.val u = μ.val u := by
        intro u h2 h3
        simp only [μ1, MState.setT_val, if_neg h3]
        exact F0 u h2
      have H1 : HRelM c (μ1.setF (some (μ.heap pw.toNat, 0))) h :=
        (H.of_frame hh1 (F1 _ (by simp) (by simp)) (F1 _ (by simp) (by simp))).setF _
      have hp1 : (lview (μ1.setF (some (μ.heap pw.toNat, 0))) false).val (posTemp (2 * existing.length)) =
          some pw := by
        rw [lview_false]; simp only [MState.setF_val]; rw [F1 _ t2 t3]; exact hp
      refine ⟨_, kE + 2, hrun, by omega, ?_, ?_⟩
      · refine LabsIn.append (LabsIn.append ((noLab_comment _).labsIn _ _ |>.append (LabsIn.of_noLab _ _ (fun l => by
          cases posTemp (2 * existing.length) <;> simp [loadPtr]))) (LabsIn.of_noLab _ _ (by simp))) ?_
        refine LabsIn.cons_other ?_ (by simp)
        refine LabsIn.append (LabsIn.append (LabsIn.append (LabsIn.append (LabsIn.of_noLab _ _ (by simp)) ?_) ?_) ?_) ?_
        · exact (LabsIn.of_noLab _ _ (by simp)).append (hlE.mono hkT (by omega))
        · exact ((LabsIn.nil _ _).cons_lab (n := kE + 1) (by omega) (by omega)).cons_other (by simp)
        · exact (hlT.mono (Nat.le_refl _) (by omega)).cons_other (by simp)
        · exact (LabsIn.nil _ _).cons_lab (by omega) (by omega)
      · rw [show ∀ (E T : List Code), [Code.COMMENT "#load from memory"] ++ loadPtr (posTemp (2 * existing.length)) ++
              [.LDR TEMP2 (ptrReg (posTemp (2 * existing.length))) REFERENCE_COUNT_OFFSET] ++
            (.COMMENT "##check refcount" :: ([Code.CMPI TEMP2 0, .BEQ (labName (kE + 1))] ++ E ++
              [.B (labName (kE + 2)), .LAB (labName (kE + 1))] ++ T ++ [.LAB (labName (kE + 2))])) =
            ([Code.COMMENT "#load from memory"] ++ loadPtr (posTemp (2 * existing.length)) ++
              [.LDR TEMP2 (ptrReg (posTemp (2 * existing.length))) REFERENCE_COUNT_OFFSET] ++
              [Code.COMMENT "##check refcount", Code.CMPI TEMP2 0]) ++ ([.BEQ (labName (kE + 1))] ++ E ++
              [.B (labName (kE + 2)), .LAB (labName (kE + 1))] ++ T ++ [.LAB (labName (kE + 2))])
            from fun E T => by simp, mFwd_pre c e1]
        by_cases hz : cnt = 0
        · -- unique: release the blocks, move the children
          subst hz
          have hx0 : μ.heap pw.toNat = 0#64 := BitVec.eq_of_toNat_eq (by rw [← H.mem, ← hcnt]; rfl)
          simp only [if_true] at hop
          cases hlf : Scc.Heap.loadFields h (toLoad.map kindOf) .last .release pw.toNat with
          | error e => simp [hlf] at hop
          | ok r =>
            obtain ⟨s1, vs, lk⟩ := r
            simp only [hlf, Except.ok.injEq, Prod.mk.injEq] at hop
            obtain ⟨rfl, rfl⟩ := hop
            rw [hx0] at H1 hp1 ⊢
            obtain ⟨code, rf', k', hr, _, _, _, μ', x, H', E', _, F'⟩ := m_loadFields C (toLoad.length + 1) toLoad existing
              .last .release false pw.toNat _ h s1 vs lk k (Nat.lt_succ_self _) H1 hcap (fun e => by cases e)
              (fun _ => rfl) ⟨pw, hp1, rfl⟩ hlf (fun e => by cases e)
            rw [hrT] at hr
            simp only [Except.ok.injEq, Prod.mk.injEq] at hr
            obtain ⟨⟨rfl, rfl⟩, rfl⟩ := hr
            simp only [outFlag, lview_false] at E' F'
            refine ⟨μ', ?_, H', E', fun u hH hT hT2 hS hu => ?_⟩
            · refine mFwd_ite_then c _ _ _ _ _ _ (a := 0#64) rfl ?_
                (mFwd_seq c (a := [.COMMENT "##... or release blocks onto linear free list when loading"])
                  (mFwd_comment c _ _) x)
              rw [skipTo_append]
              simp only [skipTo]
              exact hlE.skipTo_none (Or.inr (by omega))
            · rw [F' u hH hT hT2 hS (fun m h1 h2 => hu m h1 (by simpa [linkSlot] using h2))]
              simp only [MState.setF_val]
              exact F1 u hT hT2
        · -- shared: decrement, share the children
          have hx0 : ¬ μ.heap pw.toNat = 0#64 := fun e => hz (by rw [hcnt, H.mem, e]; rfl)
          rw [if_neg hz] at hop
          cases hwr : Scc.Heap.wr h pw.toNat (cnt - 1) with
          | error e => simp [hwr] at hop
          | ok s0 =>
            simp only [hwr] at hop
            obtain ⟨_, rfl⟩ := wr_eq_ok.1 hwr
            cases hlf : Scc.Heap.loadFields { h with mem := h.mem.set pw.toNat (cnt - 1) } (toLoad.map kindOf)
                .last .share pw.toNat with
            | error e => simp [hlf] at hop
            | ok r =>
              obtain ⟨s1, vs, lk⟩ := r
              simp only [hlf, Except.ok.injEq, Prod.mk.injEq] at hop
              obtain ⟨rfl, rfl⟩ := hop
              have hw : (μ.heap pw.toNat - imm 1).toNat = cnt - 1 := by
                rw [toNat_sub_one _ hx0, hcnt, H.mem]
              let μ2 : MState := ((μ1.setF (some (μ.heap pw.toNat, 0))).setT (.register (.x 3))
                (some (μ.heap pw.toNat - imm 1))).setH pw.toNat (μ.heap pw.toNat - imm 1)
              have H2 : HRelM c μ2 { h with mem := h.mem.set pw.toNat (cnt - 1) } := by
                have := (H1.setT (t := .register (.x 3)) (by simp) (by simp)
                  (some (μ.heap pw.toNat - imm 1))).setH pw.toNat (μ.heap pw.toNat - imm 1)
                rw [hw] at this
                exact this
              have hp2 : (lview μ2 false).val (posTemp (2 * existing.length)) = some pw := by
                rw [lview_false]
                simp only [μ2, MState.setF_val, MState.setH_val, MState.setT_val, if_neg t3]
                rw [F1 _ t2 t3]; exact hp
              have x2 : mFwd c [.COMMENT "##either decrement refcount and share children...",
                  .SUBI TEMP2 TEMP2 1, .STR TEMP2 (ptrReg (posTemp (2 * existing.length))) REFERENCE_COUNT_OFFSET]
                  (μ1.setF (some (μ.heap pw.toNat, 0))) = some (μ2, .next) := by
                rw [hj]
                simp [mFwd_cons, mFwd_nil, mcont, mexecC, mexec, TEMP2_eq, regOpnd, hi1, refcount_zero, maddr, j30, j3',
                  v1, v0', ha, srcVal, μ2, μ1]
              obtain ⟨code, rf', k', hr, _, _, _, μ', x, H', E', _, F'⟩ := m_loadFields C (toLoad.length + 1) toLoad
                existing .last .share false pw.toNat μ2 _ s1 vs lk kT (Nat.lt_succ_self _) H2 hcap
                (fun e => by cases e) (fun _ => rfl) ⟨pw, hp2, rfl⟩ hlf (fun _ => hno (by rw [← hcnt]; exact hz))
              rw [hrE] at hr
              simp only [Except.ok.injEq, Prod.mk.injEq] at hr
              obtain ⟨⟨rfl, rfl⟩, rfl⟩ := hr
              simp only [outFlag, lview_false] at E' F'
              refine ⟨μ', ?_, H', E', fun u hH hT hT2 hS hu => ?_⟩
              · refine mFwd_ite_else c _ _ _ _ _ _ (a := μ.heap pw.toNat) (b := 0) rfl hx0 l12 ?_
                  (mFwd_seq c x2 x)
                simp only [skipTo]
                exact hlT.skipTo_none (Or.inr (by omega))
              · rw [F' u hH hT hT2 hS (fun m h1 h2 => hu m h1 (by simpa [linkSlot] using h2))]
                simp only [μ2, MState.setF_val, MState.setH_val, MState.setT_val, if_neg hT2]
                exact F1 u hT hT2

end Load

/-! ## Memory::load on the machine -/

/-- CONTRACT of `load` (memory.rs Memory::load) on the machine, for ANY number of fields and EVERY
placement: the object whose pointer is in the first temporary of position `|existing|` is unpacked
into the variables `toLoad` (positions `|existing| …`) exactly as `Scc.Heap.loadObj` does on the
abstract heap — unique branch (count 0): the blocks of the chain go back onto the linear free list,
the children move; shared branch (count > 0): the count is decremented and every pointer child gets
one more reference.  From every state (SP in place) representing a heap on which the model succeeds,
the code runs to its end; the final state has the same SP, represents the model's result heap, and
the variables hold the loaded fields (`EnvFields`).
Changed: HEAP, TEMP, TEMP2, the flags, the heap, the spill slot SPILL_TEMP, the temporaries of the
loaded positions; preserved: FREE, every variable of `existing` (TEMPORARY_TEMP = X10 included:
evacuated and restored), the stack outside the spill area.
`hno` (shared branch only): the incremented counts of the model (unbounded naturals) fit in 64 bits. -/
theorem load_contract {c : MemCfg} {room : Nat} {σ : State} (h8 : c.heapBase % 8 = 0)
    (B : SpOk c σ.sp room) {h h' : Scc.Heap.HState} (R : HeapRel c σ h)
    {toLoad existing : Ctx} (hcap : 2 * (existing.length + toLoad.length) ≤ 280) {pw : Word}
    (hp : σ.tempVal (posTemp (2 * existing.length)) = some pw) {vals : List Scc.Heap.Field}
    (hop : Scc.Heap.loadObj h pw.toNat (toLoad.map kindOf) = .ok (h', vals))
    (hno : h.mem.get pw.toNat ≠ 0 → ∀ a, h'.mem.get a < 2 ^ 64) (k : Nat) :
    ∃ code k', (load toLoad existing).run k = .ok (code, k') ∧ k ≤ k' ∧ LabsIn code k k' ∧
      ∃ σ', execFwd c code σ = .ok (σ', .next) ∧ SpOk c σ'.sp room ∧ HeapRel c σ' h' ∧
        EnvFields (mview σ') existing.length toLoad vals ∧
        FrameT σ σ' (fun u => u = .register HEAP ∨ u = .register TEMP ∨ u = .register TEMP2 ∨
          u = .spill SPILL_TEMP ∨
          ∃ m, 2 * existing.length ≤ m ∧ m < 2 * (existing.length + toLoad.length) ∧ u = posTemp m) := by
  obtain ⟨code, k', hrun, hk, hl, μ', hx, H', E', hfr⟩ :=
    m_load (heapCfgOK_of_spOk h8 B) (heapRel_mview R) hcap (μ := mview σ) hp hop hno k
  obtain ⟨σ', e, B', M', F⟩ := m_to_machine B hx
    (changed := fun u => u = .register HEAP ∨ u = .register TEMP ∨ u = .register TEMP2 ∨
      u = .spill SPILL_TEMP ∨
      ∃ m, 2 * existing.length ≤ m ∧ m < 2 * (existing.length + toLoad.length) ∧ u = posTemp m)
    (fun u hu => hfr u (fun e => hu (Or.inl e)) (fun e => hu (Or.inr (Or.inl e)))
      (fun e => hu (Or.inr (Or.inr (Or.inl e)))) (fun e => hu (Or.inr (Or.inr (Or.inr (Or.inl e)))))
      (fun m h1 h2 e => hu (Or.inr (Or.inr (Or.inr (Or.inr ⟨m, h1, h2, e⟩))))))
  refine ⟨code, k', hrun, hk, hl, σ', e, B', heapRel_of_mrep M' H', ?_, F⟩
  exact E'.congr (fun m _ h2 => M'.vals _ (isVar_opndOK (isVar_posTemp (by omega))))

end Scc.A64
