/-
  Scc.A64.CCProofsSeg — property C13, AArch64, DYNAMIC part, the segments of a routine on the SPEC machine
  (Scc/A64/Machine.lean), WITHOUT any hypothesis on the values the program computes:

  * `Core c σ`     — the calling-convention invariant at statement boundaries: `SP` at the bottom of the
                     spill area (16-aligned), the entry values of X19…X30 (sentinels) in the 96-byte save
                     area above it;
  * `RetReady c σ` — what the exit check at `RET` needs: `SP` at its entry value, X19…X30 at their entry
                     values;
  * `Future Q l σ` — running the straight-line segment `l` (with external calls, `execCodesOut`) from `σ`
                     either ends in a state satisfying `Q` or stops with an error that is NOT a fault of the
                     calling-convention monitor (`OKErr`: not `misaligned-call`, not `misaligned-sp`).
  Proved: `straight_future` (plain instructions of integer programs keep `Core`), `setup_future` (entry
  state ⟶ `Core`), `block_future` (a print block keeps `Core`: the call and every SP-based access of the
  block happen with `SP ≡ 0 (mod 16)` WHATEVER the registers hold), `cleanup_future` (`Core` ⟶
  `RetReady`), `exitCheck_safe`.
-/
import Scc.A64.CCProofsFrame

set_option linter.unusedVariables false
set_option linter.unusedSimpArgs false

namespace Scc.A64.CC

open Scc.A64 Scc.AxCut

/-! ## configuration, invariants -/

/-- the memory layout is sane, the stack top is 16-aligned (AAPCS64: `SP ≡ 0 (mod 16)` at entry) and the
    stack region has room for the frame: save area (96), spill area (2048), stores of a print block (144) -/
structure CfgCC (c : MemCfg) : Prop where
  ok : MemOk c
  top16 : c.stackTop % 16 = 0
  room : c.stackLow + 2288 ≤ c.stackTop

theorem cfgCC_default : CfgCC defaultMem := ⟨⟨by decide, by decide⟩, by decide, by decide⟩

/-- the calling-convention invariant at statement boundaries -/
structure Core (c : MemCfg) (σ : State) : Prop where
  sp : σ.sp = BitVec.ofNat 64 (c.stackTop - 96 - 2048)
  saved : ∀ k (hk : k < 6),
    σ.slot (c.stackTop - 16 * (k + 1)) = some (sentinel (savedPairs[k]'hk).1.val) ∧
    σ.slot (c.stackTop - 16 * (k + 1) + 8) = some (sentinel (savedPairs[k]'hk).2.val)

/-- the state in which `RET` passes the exit check (up to the definedness of the result) -/
structure RetReady (c : MemCfg) (σ : State) : Prop where
  sp : σ.sp = BitVec.ofNat 64 c.stackTop
  regs : ∀ m : Fin 31, 19 ≤ m.val → σ.reg m = some (sentinel m.val)

/-- the AAPCS64 entry state of `asm_main` -/
structure Entry (c : MemCfg) (σ : State) : Prop where
  sp : σ.sp = BitVec.ofNat 64 c.stackTop
  x0 : ∃ h, σ.reg 0 = some h
  regs : ∀ m : Fin 31, 19 ≤ m.val → σ.reg m = some (sentinel m.val)

theorem entry_entryState (c : MemCfg) (args : List Word) : Entry c (entryState c args) := by
  refine ⟨rfl, ⟨BitVec.ofNat 64 c.heapBase, ?_⟩, ?_⟩
  · simp [entryState, State.reg, Vector.getElem_ofFn]
  · intro m hm
    simp only [entryState, State.reg, Vector.getElem_ofFn]
    have h1 : m ≠ 0 := by intro e; rw [e] at hm; simp at hm
    have h2 : ¬ m.val ≤ 7 := by omega
    simp [h1, h2, hm]

theorem Core.spNat (H : CfgCC c) {σ : State} (C : Core c σ) : σ.sp.toNat = c.stackTop - 96 - 2048 := by
  have := H.ok.top
  rw [C.sp, BitVec.toNat_ofNat]
  have h64 : (2:Nat)^64 = 18446744073709551616 := by decide
  omega

theorem Core.aligned (H : CfgCC c) {σ : State} (C : Core c σ) : σ.sp.toNat % 16 = 0 := by
  have := H.top16
  have := H.room
  rw [C.spNat H]; omega

/-! ## `execCodesOut` -/

section Seq
variable {c : MemCfg}

theorem execCodesOut_cons_noBL {code : Code} (h : code.isBL = false) (rest : List Code) (σ : State) :
    execCodesOut c (code :: rest) σ =
      match execCode c code σ with
      | .ok σ' => execCodesOut c rest σ'
      | .error e => .error e := by
  cases code <;> first | rfl | simp [Code.isBL] at h

/-- running the segment `l` from `σ` ends in `Q` or stops with an error that the calling-convention
    monitor does not raise -/
def Future (c : MemCfg) (Q : State → Prop) (l : List Code) (σ : State) : Prop :=
  match execCodesOut c l σ with
  | .ok (σ', _) => Q σ'
  | .error e => OKErr e

theorem Future.nil {Q : State → Prop} {σ : State} (h : Q σ) : Future c Q [] σ := h

theorem Future.mono {Q Q' : State → Prop} {l : List Code} {σ : State} (h : Future c Q l σ)
    (hq : ∀ σ', Q σ' → Q' σ') : Future c Q' l σ := by
  unfold Future at h ⊢
  cases h1 : execCodesOut c l σ with
  | error e => simp only [h1] at h ⊢; exact h
  | ok r => obtain ⟨σ1, o⟩ := r; simp only [h1] at h ⊢; exact hq _ h

/-- a successful call-free prefix -/
theorem Future.ofCodes {Q : State → Prop} {l1 l2 : List Code} {σ σ1 : State}
    (hn : ∀ code ∈ l1, code.isBL = false) (hx : execCodes c l1 σ = .ok σ1) (h : Future c Q l2 σ1) :
    Future c Q (l1 ++ l2) σ := by
  unfold Future at h ⊢
  rw [execCodesOut_pure c l1 l2 σ σ1 hn hx]
  exact h

theorem Future.ofCodes_nil {Q : State → Prop} {l : List Code} {σ σ1 : State}
    (hn : ∀ code ∈ l, code.isBL = false) (hx : execCodes c l σ = .ok σ1) (h : Q σ1) : Future c Q l σ := by
  have := Future.ofCodes (l2 := []) hn hx (Future.nil h)
  rwa [List.append_nil] at this

/-- one code that is not a call -/
theorem Future.cons_noBL {Q : State → Prop} {code : Code} {rest : List Code} {σ : State}
    (h : code.isBL = false) :
    Future c Q (code :: rest) σ ↔
      (match execCode c code σ with
       | .ok σ' => Future c Q rest σ'
       | .error e => OKErr e) := by
  unfold Future
  rw [execCodesOut_cons_noBL h]
  cases execCode c code σ <;> rfl

end Seq

/-! ## plain instructions keep the invariant -/

section Plain
variable {c : MemCfg}

theorem plainInt_spec {code : Code} (h : plainInt code = true) :
    plainCC code = true ∧ (∀ bi ∈ codeMems code, bi.1 = .sp) ∧ isIndirect code = false ∧
      (∀ l, codeJumpRef code = some l → l ≠ "asm_main") := by
  simp only [plainInt, Bool.and_eq_true, List.all_eq_true, beq_iff_eq, Bool.not_eq_true'] at h
  refine ⟨h.1.1.1, h.1.1.2, h.1.2, ?_⟩
  intro l hl
  have := h.2
  rw [hl] at this
  simpa using this

/-- fall-through plain instructions of integer programs -/
def straightInt (code : Code) : Bool := plainInt code && (codeJumpRef code).isNone

theorem execCode_meta {code : Code} (h : code.isMeta = true) (σ : State) : execCode c code σ = .ok σ := by
  cases code <;> first | rfl | simp [Code.isMeta] at h

theorem execCode_noInstr {code : Code} (hm : code.isMeta = false) (ht : code.toInstr = none) (σ : State) :
    execCode c code σ = .error "no such register" := by
  cases code <;> first | (simp [Code.isMeta] at hm; done) | (simp only [execCode, ht])

/-- ONE plain instruction of an integer program that is not a branch: an error that is not a
    calling-convention fault, or `Core` again -/
theorem plain_exec (H : CfgCC c) {σ : State} {code : Code} (C : Core c σ) (hp : plainInt code = true)
    (hj : codeJumpRef code = none) :
    match execCode c code σ with
    | .ok σ' => Core c σ'
    | .error e => MErr e := by
  obtain ⟨hcc, hb, hind, _⟩ := plainInt_spec hp
  obtain ⟨_, _, hslot⟩ := plainCC_spec hcc
  by_cases hm : code.isMeta = true
  · rw [execCode_meta hm]; exact C
  · have hm' : code.isMeta = false := by simpa using hm
    cases ht : code.toInstr with
    | none => rw [execCode_noInstr hm' ht]; exact .fixed _ (by simp [errFixed])
    | some i =>
      rw [execCode_of_toInstr σ ht]
      obtain ⟨hd, hpair, hsw, hstr⟩ := plain_toInstr hcc hind hj ht
      cases hx : i.exec c σ with
      | error e => exact exec_err hd (C.aligned H) hx
      | ok σ' =>
        obtain ⟨f1, f2⟩ := exec_frame hd hpair hx
        have hsp : σ'.sp = σ.sp := f1 hsw
        refine ⟨by rw [hsp]; exact C.sp, ?_⟩
        have hkeep : ∀ a, c.stackTop - 96 ≤ a → σ'.slot a = σ.slot a := by
          intro a ha
          apply f2
          intro t n off b hi hbase
          obtain ⟨r, bb, hcode, hbn⟩ := hstr t n off hi
          have hbsp : bb = .sp := hb (bb, off) (by rw [hcode]; simp [codeMems])
          subst hbsp
          have hn : n = .sp := by cases hbn; rfl
          subst hn
          have hso := hslot (.sp, off) (by rw [hcode]; simp [codeMems]) rfl
          simp only [slotOK, Bool.and_eq_true, decide_eq_true_eq] at hso
          have hbv : b = σ.sp := by
            simp only [State.base, C.aligned H, if_true, Except.ok.injEq] at hbase
            exact hbase.symm
          have ht := H.ok.top
          have hr := H.room
          rw [hbv, toNat_add_imm σ.sp off (by rw [C.spNat H]; omega) (by rw [C.spNat H]; omega), C.spNat H]
          omega
        intro k hk
        have hr := H.room
        rw [hkeep _ (by omega), hkeep _ (by omega)]
        exact C.saved k hk

theorem straight_future (H : CfgCC c) : ∀ (l : List Code), (∀ code ∈ l, straightInt code = true) →
    ∀ σ, Core c σ → Future c (Core c) l σ
  | [], _, σ, C => Future.nil C
  | code :: rest, hl, σ, C => by
    have hs := hl code (by simp)
    simp only [straightInt, Bool.and_eq_true, Option.isNone_iff_eq_none] at hs
    have hnb : code.isBL = false := by
      have := (plainCC_spec (plainInt_spec hs.1).1).1
      cases code <;> first | rfl | simp [isStackOp] at this
    rw [Future.cons_noBL hnb]
    have := plain_exec H C hs.1 hs.2
    cases hx : execCode c code σ with
    | error e => simp only [hx] at this ⊢; exact this.okErr
    | ok σ' =>
      simp only [hx] at this ⊢
      exact straight_future H rest (fun c' hc' => hl c' (by simp [hc'])) σ' this

end Plain

/-! ## setup, cleanup, RET -/

section Segs
variable {c : MemCfg}

theorem noBL_of_allCC {l : List Code} (h : AllCC l) : ∀ code ∈ l, code.isBL = false :=
  fun code hc => plainCC_noCall (List.all_eq_true.1 h code hc)

theorem moveArguments_le : ∀ (n : Nat) (codes : List Code), moveArguments n = .ok codes → n ≤ 7
  | 0, _, _ => by omega
  | 1, _, _ => by omega
  | k + 2, codes, h => by
    simp only [moveArguments] at h
    split at h
    · assumption
    · cases h

theorem savedPairs_ge : ∀ k (hk : k < 6), 19 ≤ (savedPairs[k]'hk).1.val ∧ 19 ≤ (savedPairs[k]'hk).2.val := by
  decide

/-- `setup` takes the entry state to the boundary invariant -/
theorem setup_core (H : CfgCC c) {σ : State} (E : Entry c σ) {n : Nat} {su : List Code} (hsu : setup n = .ok su) :
    ∃ σ1, execCodes c su σ = .ok σ1 ∧ Core c σ1 := by
  have ht := H.ok.top
  have hr := H.room
  have h16 := H.top16
  obtain ⟨moves, hmv, _⟩ := setup_eq hsu
  have hn := moveArguments_le n moves hmv
  obtain ⟨h, h0⟩ := E.x0
  have hS : σ.sp.toNat = c.stackTop := by
    rw [E.sp, BitVec.toNat_ofNat]
    have h64 : (2:Nat)^64 = 18446744073709551616 := by decide
    omega
  obtain ⟨codes, σ1, hc, he, hp⟩ := setup_correct H.ok n hn σ c.stackTop hS h16 (by omega) (Nat.le_refl _) h h0
  rw [hsu] at hc
  cases hc
  refine ⟨σ1, he, hp.sp, ?_⟩
  intro k hk
  obtain ⟨s1, s2⟩ := hp.saved k hk
  have hpair := savedPairs_ge k hk
  rw [s1, s2, E.regs _ hpair.1, E.regs _ hpair.2]
  exact ⟨rfl, rfl⟩

/-- the routine header from `asm_main:` to the first instruction of the body -/
theorem setup_future (H : CfgCC c) {σ : State} (E : Entry c σ) {n : Nat} {su : List Code}
    (hsu : setup n = .ok su) :
    Future c (Core c) (Code.LAB "asm_main" :: (su ++ [Code.COMMENT "actual code"])) σ := by
  obtain ⟨σ1, e1, C1⟩ := setup_core H E hsu
  rw [Future.cons_noBL rfl]
  show Future c (Core c) (su ++ [Code.COMMENT "actual code"]) σ
  refine Future.ofCodes (noCall_setup hsu) e1 ?_
  rw [Future.cons_noBL rfl]
  exact Future.nil C1

/-- `cleanup` (without `RET`) takes the boundary invariant to the exit condition -/
theorem cleanup_ready (H : CfgCC c) {σ : State} (C : Core c σ) :
    ∃ σ3, execCodes c cleanup.dropLast σ = .ok σ3 ∧ RetReady c σ3 := by
  have ht := H.ok.top
  have hr := H.room
  have h16 := H.top16
  obtain ⟨σ3, he3, hp3⟩ := cleanup_correct H.ok σ c.stackTop (C.spNat H) h16 (by omega) (Nat.le_refl _)
  refine ⟨σ3, he3, hp3.sp, ?_⟩
  intro m hm19
  have hmlt := m.isLt
  have hk : (m.val - 19) / 2 < 6 := by omega
  have hrr := hp3.restored ((m.val - 19) / 2) hk
  have hs := C.saved ((m.val - 19) / 2) hk
  have hpair : (savedPairs[(m.val - 19) / 2]'hk).1.val = 19 + 2 * ((m.val - 19) / 2) ∧
      (savedPairs[(m.val - 19) / 2]'hk).2.val = 20 + 2 * ((m.val - 19) / 2) := by
    have : (m.val - 19) / 2 = 0 ∨ (m.val - 19) / 2 = 1 ∨ (m.val - 19) / 2 = 2 ∨ (m.val - 19) / 2 = 3 ∨
        (m.val - 19) / 2 = 4 ∨ (m.val - 19) / 2 = 5 := by omega
    rcases this with e | e | e | e | e | e <;> simp only [e] <;> exact ⟨rfl, rfl⟩
  by_cases hpar : (m.val - 19) % 2 = 0
  · have hm1 : m = (savedPairs[(m.val - 19) / 2]'hk).1 := by apply Fin.ext; rw [hpair.1]; omega
    have e1 : σ3.reg m = σ3.reg (savedPairs[(m.val - 19) / 2]'hk).1 := congrArg σ3.reg hm1
    have e2 : (savedPairs[(m.val - 19) / 2]'hk).1.val = m.val := (congrArg Fin.val hm1).symm
    rw [e1, hrr.1, hs.1, e2]
  · have hm2 : m = (savedPairs[(m.val - 19) / 2]'hk).2 := by apply Fin.ext; rw [hpair.2]; omega
    have e1 : σ3.reg m = σ3.reg (savedPairs[(m.val - 19) / 2]'hk).2 := congrArg σ3.reg hm2
    have e2 : (savedPairs[(m.val - 19) / 2]'hk).2.val = m.val := (congrArg Fin.val hm2).symm
    rw [e1, hrr.2, hs.2, e2]

theorem noBL_cleanup_dropLast : ∀ code ∈ cleanup.dropLast, code.isBL = false := by decide

set_option maxRecDepth 4000 in
theorem cleanup_future (H : CfgCC c) {σ : State} (C : Core c σ) :
    Future c (RetReady c) cleanup.dropLast σ := by
  have h := cleanup_ready H C
  exact h.elim fun σ3 h3 => Future.ofCodes_nil noBL_cleanup_dropLast h3.1 h3.2

/-- the exit check from `RetReady`: `done`, or the result register is undefined — never a
    calling-convention violation -/
theorem exitCheck_safe (c : MemCfg) {σ : State} (R : RetReady c σ) :
    (∃ v, exitCheck c σ = .done v) ∨ exitCheck c σ = .fault "read-undefined X0" 0 := by
  have h30 : σ.regs[(30 : Fin 31)] = some (sentinel 30) := R.regs 30 (by decide)
  have hall : ∀ k, k < 11 → σ.regs[19 + k]? = some (some (sentinel (19 + k))) := by
    intro k hk
    have hlt : 19 + k < 31 := by omega
    have := R.regs ⟨19 + k, hlt⟩ (by simp)
    rw [Vector.getElem?_eq_getElem hlt]
    exact congrArg some this
  have hfind : (List.range 11).find? (fun k => σ.regs[19 + k]? != some (some (sentinel (19 + k)))) = none := by
    rw [List.find?_eq_none]
    intro k hk
    simp only [List.mem_range] at hk
    simp [hall k hk]
  cases h0 : σ.regs[(0 : Fin 31)] with
  | none => right; simp [exitCheck, h30, R.sp, hfind, h0]
  | some v => left; exact ⟨v, by simp [exitCheck, h30, R.sp, hfind, h0]⟩

/-! ### the print block -/

theorem spOkS_of_core (H : CfgCC c) {σ : State} (C : Core c σ) : SpOkS c 144 σ := by
  have ht := H.ok.top
  have hr := H.room
  have h16 := H.top16
  have hS := C.spNat H
  exact ⟨by rw [hS]; omega, by rw [hS]; omega, by rw [hS, SPILL_SPACE_eq]; omega, H.ok.disjoint, H.ok.top⟩

/-- the facts about the save list of a context that the block lemmas need -/
theorem save_facts (ctx : Ctx) :
    let fb := (callerSaveRegistersInfo ctx).1
    let regs := (callerSaveRegistersInfo ctx).2
    (∀ r ∈ regs, r < 30) ∧ regs.Nodup ∧ regs.length ≤ 17 ∧ pushedCount fb regs ≤ 18 ∧
    pushedCount fb regs % 2 = 0 ∧
    (∀ p ∈ saveMoves fb regs, p.1 < 30 ∧ p.2 < 30) ∧
    (∀ p ∈ saveMoves fb regs, ∀ q ∈ saveMoves fb regs, p.1 ≠ q.2) := by
  intro fb regs
  have hip := info_props false ctx
  have hfb : 18 ≤ fb := by
    have := hip.fb_eq
    show 18 ≤ (callerSaveRegistersInfoG false ctx).1
    rw [this]; omega
  have hr30 : ∀ r ∈ regs, r < 30 := fun r hr => by have := hip.cls r hr; omega
  have hu2 := backupUsed_le' fb regs
  obtain ⟨_, _, hre3⟩ := roundEven_props (regs.length - backupUsed fb regs)
  have hm1_tgt : ∀ p ∈ saveMoves fb regs, 18 ≤ p.1 ∧ p.1 ≤ 28 := by
    intro p hp
    obtain ⟨h1, h2, h3⟩ := mem_saveMoves hp
    omega
  refine ⟨hr30, hip.nodup, hip.len, pushedCount_le fb regs hip.len, hre3, ?_, ?_⟩
  · intro p hp
    obtain ⟨h1, h2, h3⟩ := mem_saveMoves hp
    exact ⟨by have := hm1_tgt p hp; omega, hr30 _ (List.mem_of_mem_take h3)⟩
  · intro p hp q hq
    have := hm1_tgt p hp
    obtain ⟨_, _, h3⟩ := mem_saveMoves hq
    have := hip.cls _ (List.mem_of_mem_take h3)
    omega

/-- the part of a print block before the call runs for ANY register contents; afterwards `SP` is the
    boundary `SP` minus an EVEN number of words and the stack from the boundary `SP` upwards is unchanged -/
theorem before_exec (H : CfgCC c) {ctx : Ctx} {t : Temporary} (hs : PrintSrc ctx t) {σ : State} (C : Core c σ) :
    ∃ σ4, execCodes c (blockBefore t ctx) σ = .ok σ4 ∧
      σ4.sp.toNat = (c.stackTop - 96 - 2048) -
        8 * pushedCount (callerSaveRegistersInfo ctx).1 (callerSaveRegistersInfo ctx).2 ∧
      (∀ a, c.stackTop - 96 - 2048 ≤ a → σ4.slot a = σ.slot a) := by
  obtain ⟨hr30, hnd, hlen, hpc, _, hm_lt, hm_disj⟩ := save_facts ctx
  generalize hfb : (callerSaveRegistersInfo ctx).1 = fb at *
  generalize hregs : (callerSaveRegistersInfo ctx).2 = regs at *
  have ht := H.ok.top
  have hr := H.room
  have h16 := H.top16
  have hS := C.spNat H
  -- the source temporary
  have hok : t.ok = true := by
    obtain ⟨pos, c0, c1, _, hrun⟩ := hs
    exact post_temporaryFromPosition _ c0 t c1 hrun
  -- step 0: staging of a spilled argument
  have h0 : ∃ σ0, execCodes c (printPre t) σ = .ok σ0 ∧ σ0.sp = σ.sp ∧ (∀ a, σ0.slot a = σ.slot a) := by
    rcases ok_cases hok with ⟨n, rfl, hn⟩ | ⟨p, rfl, hp⟩
    · exact ⟨σ, rfl, rfl, fun _ => rfl⟩
    · have hspok := spOkS_of_core H C
      refine ⟨σ.setReg xT (σ.slot (σ.slotAddr p)), ?_, rfl, fun _ => rfl⟩
      simp only [printPre, moveToRegister, execCodes, execCode_COMMENT, TEMP,
        execCode_LDR_sp xreg_TEMP, exec_ldr_slot c 144 σ xT p hspok (by rw [SPILL_NUM_eq]; exact hp)]
  obtain ⟨σ0, e0, hsp0, hsl0⟩ := h0
  -- step 1: the moves into the backup registers
  obtain ⟨σ1, e1, hsp1, _, hsl1, _, _⟩ :=
    exec_moveCodes c (saveMoves fb regs) σ0 hm_lt hm_disj (saveMoves_fst_nodup fb regs)
  have hS1 : σ1.sp.toNat = c.stackTop - 96 - 2048 := by rw [hsp1, hsp0]; exact hS
  -- steps 2–3: the stores
  obtain ⟨σ3, e3, hS3, _, _, _, habove3⟩ :=
    push_phase H.ok fb regs σ1 _ hS1 (by omega) (by omega) (by omega) hr30 (by omega)
  -- step 4: the argument
  have h4 : ∃ σ4, execCodes c [Code.COMMENT "#move argument into place", printArgMove t] σ3 = .ok σ4 ∧
      σ4.sp = σ3.sp ∧ (∀ a, σ4.slot a = σ3.slot a) := by
    have hx0 : xreg 0 = some (0 : Fin 31) := by decide
    rcases ok_cases hok with ⟨n, rfl, hn⟩ | ⟨p, rfl, hp⟩
    · refine ⟨σ3.setReg 0 (σ3.reg (ar n)), ?_, rfl, fun _ => rfl⟩
      simp only [printArgMove, execCodes, execCode_COMMENT, execCode_MOVR hx0 (xreg_ar hn), exec_mov_x]
    · refine ⟨σ3.setReg 0 (σ3.reg xT), ?_, rfl, fun _ => rfl⟩
      simp only [printArgMove, execCodes, execCode_COMMENT, TEMP, execCode_MOVR hx0 xreg_TEMP, exec_mov_x]
  obtain ⟨σ4, e4, hsp4, hsl4⟩ := h4
  refine ⟨σ4, ?_, by rw [hsp4]; exact hS3, ?_⟩
  · unfold blockBefore
    rw [hfb, hregs, save_decompose]
    rw [List.append_assoc, List.append_assoc, execCodes_append c _ _ _ _ e0]
    rw [show ([Code.COMMENT "#save caller-save registers"] ++
        ((moveCodes (saveMoves fb regs) ++
          if regs.length - backupUsed fb regs > 0 then
            [Code.SUBI .sp .sp (address (pushedCount fb regs))] ++ strCodes (pushItems fb regs) else []) ++
        [Code.COMMENT "#move argument into place", printArgMove t])) =
        Code.COMMENT "#save caller-save registers" :: (moveCodes (saveMoves fb regs) ++
          ((if regs.length - backupUsed fb regs > 0 then
            [Code.SUBI .sp .sp (address (pushedCount fb regs))] ++ strCodes (pushItems fb regs) else []) ++
          [Code.COMMENT "#move argument into place", printArgMove t])) from by simp]
    rw [execCodes_cons c _ _ _ _ (execCode_COMMENT c _ σ0), execCodes_append c _ _ _ _ e1,
      execCodes_append c _ _ _ _ e3]
    exact e4
  · intro a ha
    rw [hsl4, habove3 a ha, hsl1, hsl0]

/-- the part of a print block after the call, from ANY state whose `SP` is where the save sequence
    left it: it runs and puts `SP` back; the stack is not written -/
theorem after_exec (H : CfgCC c) (ctx : Ctx) {σ5 : State}
    (hS5 : σ5.sp.toNat = (c.stackTop - 96 - 2048) -
      8 * pushedCount (callerSaveRegistersInfo ctx).1 (callerSaveRegistersInfo ctx).2) :
    ∃ σ8, execCodes c (blockAfter ctx) σ5 = .ok σ8 ∧ σ8.sp.toNat = c.stackTop - 96 - 2048 ∧
      (∀ a, σ8.slot a = σ5.slot a) := by
  obtain ⟨hr30, hnd, hlen, hpc, _, hm_lt, hm_disj⟩ := save_facts ctx
  generalize hfb : (callerSaveRegistersInfo ctx).1 = fb at *
  generalize hregs : (callerSaveRegistersInfo ctx).2 = regs at *
  have ht := H.ok.top
  have hr := H.room
  have h16 := H.top16
  have hm2_lt : ∀ p ∈ (saveMoves fb regs).map (fun p => (p.2, p.1)), p.1 < 30 ∧ p.2 < 30 := by
    intro p hp
    simp only [List.mem_map] at hp
    obtain ⟨q, hq, rfl⟩ := hp
    exact ⟨(hm_lt q hq).2, (hm_lt q hq).1⟩
  have hm2_disj : ∀ p ∈ (saveMoves fb regs).map (fun p => (p.2, p.1)),
      ∀ q ∈ (saveMoves fb regs).map (fun p => (p.2, p.1)), p.1 ≠ q.2 := by
    intro p hp q hq
    simp only [List.mem_map] at hp hq
    obtain ⟨p', hp', rfl⟩ := hp
    obtain ⟨q', hq', rfl⟩ := hq
    exact fun e => hm_disj q' hq' p' hp' e.symm
  have hm2_nd : (((saveMoves fb regs).map (fun p => (p.2, p.1))).map (·.1)).Nodup := by
    rw [List.map_map]
    have : ((fun x : Nat × Nat => x.1) ∘ fun p : Nat × Nat => (p.2, p.1)) = (·.2) := rfl
    rw [this, saveMoves_snd]
    exact hnd.sublist (List.take_sublist _ _)
  obtain ⟨σ6, e6, hsp6, _, hsl6, _, _⟩ :=
    exec_moveCodes c ((saveMoves fb regs).map (fun p => (p.2, p.1))) σ5 hm2_lt hm2_disj hm2_nd
  have hS6 : σ6.sp.toNat = (c.stackTop - 96 - 2048) - 8 * pushedCount fb regs := by rw [hsp6]; exact hS5
  obtain ⟨σ8, e8, hS8, _, hsl8, _, _⟩ :=
    pop_phase H.ok fb regs σ6 _ hS6 (by omega) (by omega) (by omega) hr30 hnd (by omega)
  refine ⟨σ8, ?_, hS8, fun a => by rw [hsl8, hsl6]⟩
  unfold blockAfter
  rw [hfb, hregs, restore_decompose, execCodes_cons c _ _ _ _ (execCode_COMMENT c _ σ5),
    execCodes_append c _ _ _ _ e6]
  exact e8

theorem noBL_blockBefore (t : Temporary) (ctx : Ctx) : ∀ code ∈ blockBefore t ctx, code.isBL = false :=
  noCall_blockBefore t ctx

/-- A PRINT BLOCK KEEPS THE INVARIANT, whatever the registers hold: the save sequence always runs, the
    call is made with `SP ≡ 0 (mod 16)` (the only error it can raise is an undefined argument), every
    SP-based access of the block is made with `SP ≡ 0 (mod 16)`, and the restore sequence puts `SP` back;
    the save area is never touched -/
theorem block_future (H : CfgCC c) {ctx : Ctx} {t : Temporary} (hs : PrintSrc ctx t) (nl : Bool)
    {σ : State} (C : Core c σ) : Future c (Core c) (printI64 nl t ctx) σ := by
  have ht := H.ok.top
  have hr := H.room
  have h16 := H.top16
  obtain ⟨_, _, _, hpc, hpar, _, _⟩ := save_facts ctx
  obtain ⟨σ4, e4, hS4, hab4⟩ := before_exec H hs C
  rw [printI64_split]
  refine Future.ofCodes (noBL_blockBefore t ctx) e4 ?_
  unfold Future
  have hext : isExternal (printFn nl) = true := by cases nl <;> decide
  simp only [execCodesOut, hext, if_true]
  have hal4 : σ4.sp.toNat % 16 = 0 := by rw [hS4]; omega
  cases h0 : σ4.reg 0 with
  | none =>
    have : σ4.callExternal = .error s!"read-undefined X{(0 : Fin 31).val}" := by
      have hrd : σ4.rdX 0 = .error s!"read-undefined X{(0 : Fin 31).val}" := by rw [rdX_reg]; simp [h0]
      simp [State.callExternal, hal4, hrd]
    rw [this]
    exact (merr_undefX 0).okErr
  | some w =>
    rw [callExternal_ok σ4 w hal4 h0]
    dsimp only
    have hS5 : σ4.clobberCall.sp.toNat = (c.stackTop - 96 - 2048) -
        8 * pushedCount (callerSaveRegistersInfo ctx).1 (callerSaveRegistersInfo ctx).2 := by
      rw [clobberCall_sp]; exact hS4
    obtain ⟨σ8, e8, hS8, hsl8⟩ := after_exec H ctx hS5
    have hrest := execCodesOut_pure c (blockAfter ctx) [] σ4.clobberCall σ8 (noCall_blockAfter ctx) e8
    rw [List.append_nil] at hrest
    rw [hrest]
    simp only [execCodesOut]
    refine ⟨?_, ?_⟩
    · apply BitVec.eq_of_toNat_eq
      rw [hS8, BitVec.toNat_ofNat]
      have h64 : (2:Nat)^64 = 18446744073709551616 := by decide
      omega
    · have hkeep : ∀ a, c.stackTop - 96 ≤ a → σ8.slot a = σ.slot a := by
        intro a ha
        rw [hsl8, clobberCall_slot]
        have : σ4.sp.toNat ≤ a := by rw [hS4]; omega
        rw [if_pos this, hab4 a (by omega)]
      intro k hk
      rw [hkeep _ (by omega), hkeep _ (by omega)]
      exact C.saved k hk

end Segs

end Scc.A64.CC
