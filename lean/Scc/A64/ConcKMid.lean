/-
  Scc.A64.ConcKMid — runs of the AArch64 SPEC machine WITH THE POSITIONS OF THE `#ctx` HOOKS THEY VISIT (for the
  heap monitor; the AArch64 analogue of Scc/X86/ConcKMid.lean).  On AArch64 a hook is an ITEM of the laid-out
  program; the run loop calls `heapMonitor` exactly when the program counter is at a hook item.
  * `MStepsK Q P c …` — `MSteps` (Scc/A64/RefBridge.lean) in which every iteration at a hook item happens at an
    item index satisfying `Q`;  `MStepsI` = `MStepsK (fun _ => False)`: a run that visits NO hook item.
  * the builders of Scc/A64/RefBridge.lean / RefHeapBridge.lean again, for `MStepsK`: `msteps_codeK`,
    `msteps_codesK`, `msteps_codesOutK`, `msteps_fwdK`, `x_msteps_codesK`, …, `mstep_jumpK`, `mstep_bcondK`:
    a block whose hook comments (if any) lie at positions in `Q` (`HkIn`); `NoHk`: a block without hook comments.
  * `hkIn_hook_comment`: the block `hookCode ++ [statement comment]` every statement starts with has its only
    hook (if any) at its first position.
  * `MStepsH`: a run whose only hook step (if any) is its FIRST step — the `#ctx` hook of the statement boundary it
    starts at, visited in the state the run starts in; `x_msteps_c0H` (the first block of every statement),
    the `…I` builders (blocks without hook comments, `NoHk`), `tol_runI`, `tol_runH` (the machine ahead of the
    boundary by hooks visits none).
  * `MStepsIR` / `MStepsHR`: … through at least one instruction (for the progress argument).
  * `MStepsNP pass`: counted runs in which every hook step satisfies `pass σ vs`; `MStepsH.countP`, `tol_nextP`,
    `tol_run_instrP`, `tol_next_realP`: a run of the simulation from a boundary, the machine AT the boundary item or
    ahead of it by hooks, is a passing run provided the hook of the boundary passes when the machine is at it.
-/
import Scc.A64.ConcKDefs
import Scc.A64.RefHeapBridge

set_option linter.unusedVariables false
set_option linter.unusedSimpArgs false

namespace Scc.A64.Ref.K

open Scc.AxCut Scc.Backend Scc.A64 Scc.A64.CC

/-- `MSteps` in which every iteration at a `#ctx` hook item happens at an item index satisfying `Q` -/
inductive MStepsK (Q : Nat → Prop) (P : Prog) (c : MemCfg) :
    State → Nat → List (Bool × Word) → State → Nat → List (Bool × Word) → Prop
  | refl (σ : State) (pc : Nat) (out : List (Bool × Word)) : MStepsK Q P c σ pc out σ pc out
  | step {σ σ1 σ2 : State} {pc pc1 pc2 : Nat} {out out1 out2 : List (Bool × Word)} :
      MStep P c σ pc out σ1 pc1 out1 → (∀ vs, P.items[pc]? = some (.hook vs) → Q pc) →
      MStepsK Q P c σ1 pc1 out1 σ2 pc2 out2 → MStepsK Q P c σ pc out σ2 pc2 out2

/-- a run that visits no hook item -/
abbrev MStepsI (P : Prog) (c : MemCfg) := MStepsK (fun _ => False) P c

section K
variable {Q Q' : Nat → Prop} {P : Prog} {c : MemCfg} {σ1 σ2 σ3 : State} {pc1 pc2 pc3 : Nat}
  {o1 o2 o3 : List (Bool × Word)}

theorem MStepsK.trans (h1 : MStepsK Q P c σ1 pc1 o1 σ2 pc2 o2) (h2 : MStepsK Q P c σ2 pc2 o2 σ3 pc3 o3) :
    MStepsK Q P c σ1 pc1 o1 σ3 pc3 o3 := by
  induction h1 with
  | refl => exact h2
  | step hs hq _ ih => exact .step hs hq (ih h2)

theorem MStepsK.one (h : MStep P c σ1 pc1 o1 σ2 pc2 o2) (hq : ∀ vs, P.items[pc1]? = some (.hook vs) → Q pc1) :
    MStepsK Q P c σ1 pc1 o1 σ2 pc2 o2 := .step h hq (.refl _ _ _)

theorem MStepsK.msteps (h : MStepsK Q P c σ1 pc1 o1 σ2 pc2 o2) : MSteps P c σ1 pc1 o1 σ2 pc2 o2 := by
  induction h with
  | refl => exact .refl _ _ _
  | step hs _ _ ih => exact .step hs ih

theorem MStepsK.mono (hqq : ∀ pc, Q pc → Q' pc) (h : MStepsK Q P c σ1 pc1 o1 σ2 pc2 o2) :
    MStepsK Q' P c σ1 pc1 o1 σ2 pc2 o2 := by
  induction h with
  | refl => exact .refl _ _ _
  | step hs hq _ ih => exact .step hs (fun vs hv => hqq _ (hq vs hv)) ih

/-- a run without hooks is a run with hooks in any set -/
theorem MStepsK.ofI (h : MStepsI P c σ1 pc1 o1 σ2 pc2 o2) : MStepsK Q P c σ1 pc1 o1 σ2 pc2 o2 :=
  h.mono (fun _ hf => hf.elim)

/-- an instruction step visits no hook -/
theorem MStepsK.one_instr {i : Instr} (hi : P.items[pc1]? = some (.instr i))
    (h : MStep P c σ1 pc1 o1 σ2 pc2 o2) : MStepsK Q P c σ1 pc1 o1 σ2 pc2 o2 :=
  .one h (fun vs hv => by rw [hi] at hv; cases hv)

end K

/-! ## blocks and their hook comments -/

/-- the hook comments of the block at list position `k` lie at item indices in `Q` -/
def HkIn (hk : Code → Bool) (cs : List Code) (Q : Nat → Prop) (k : Nat) (blk : List Code) : Prop :=
  ∀ j (h : j < blk.length), hk blk[j] = true → Q (pcOf hk cs (k + j))

/-- the block contains no hook comment -/
def NoHk (hk : Code → Bool) (blk : List Code) : Prop := ∀ y ∈ blk, hk y = false

theorem NoHk.hkIn {hk : Code → Bool} {cs : List Code} {Q : Nat → Prop} {k : Nat} {blk : List Code}
    (h : NoHk hk blk) : HkIn hk cs Q k blk :=
  fun j hj hh => by rw [h _ (List.getElem_mem hj)] at hh; cases hh

theorem NoHk.append {hk : Code → Bool} {a b : List Code} (ha : NoHk hk a) (hb : NoHk hk b) : NoHk hk (a ++ b) :=
  fun y hy => (List.mem_append.1 hy).elim (ha y) (hb y)

theorem NoHk.cons {hk : Code → Bool} {a : Code} {b : List Code} (ha : hk a = false) (hb : NoHk hk b) :
    NoHk hk (a :: b) :=
  fun y hy => by
    rcases List.mem_cons.1 hy with rfl | hy
    · exact ha
    · exact hb y hy

theorem NoHk.nil {hk : Code → Bool} : NoHk hk [] := fun _ h => by cases h

theorem NoHk.left {hk : Code → Bool} {a b : List Code} (h : NoHk hk (a ++ b)) : NoHk hk a :=
  fun y hy => h y (List.mem_append_left _ hy)

theorem NoHk.right {hk : Code → Bool} {a b : List Code} (h : NoHk hk (a ++ b)) : NoHk hk b :=
  fun y hy => h y (List.mem_append_right _ hy)

theorem NoHk.tail {hk : Code → Bool} {a : Code} {b : List Code} (h : NoHk hk (a :: b)) : NoHk hk b :=
  fun y hy => h y (List.mem_cons_of_mem _ hy)

theorem HkIn.tail {hk : Code → Bool} {cs : List Code} {Q : Nat → Prop} {k : Nat} {a : Code} {b : List Code}
    (h : HkIn hk cs Q k (a :: b)) : HkIn hk cs Q (k + 1) b := by
  intro j hj hh
  have := h (j + 1) (by simpa using hj) (by simpa using hh)
  rw [show k + (j + 1) = k + 1 + j by omega] at this
  exact this

/-- codes that are no comments are no hooks -/
theorem hk_false_of_not_comment {hk : Code → Bool} {P : Prog} {cs : List Code} (Hp : Holds hk P cs) {y : Code}
    (h : ∀ m, y ≠ .COMMENT m) : hk y = false := by
  cases hh : hk y with
  | false => rfl
  | true => obtain ⟨m, e⟩ := Hp.hkComment _ hh; exact absurd e (h m)

/-- the block every statement starts with, `hookCode ++ [statement comment]`: its only hook (if any) is its first
code, at the position of the statement boundary -/
theorem hkIn_hook_comment {hk : Code → Bool} {cs : List Code} {kp : Nat} (hooks : Bool) (Γ : Ctx) {m : String}
    {rest : List Code} (hm : hk (.COMMENT m) = false) (hr : NoHk hk rest) :
    HkIn hk cs (fun pc => pc = pcOf hk cs kp) kp
      (hookCode a64Backend hooks Γ ++ (a64Backend.comment m :: rest)) := by
  intro j hj hh
  cases j with
  | zero => rfl
  | succ j =>
    exfalso
    have hnh : NoHk hk (a64Backend.comment m :: rest) := NoHk.cons hm hr
    cases hooks with
    | false =>
      simp only [hookCode, Bool.false_eq_true, if_false, List.nil_append] at hh hj
      rw [hnh _ (List.getElem_mem hj)] at hh; cases hh
    | true =>
      simp only [hookCode, if_true, List.cons_append, List.nil_append, List.getElem_cons_succ] at hh
      have hj' : j < (a64Backend.comment m :: rest).length := by
        simp only [hookCode, if_true, List.cons_append, List.nil_append, List.length_cons] at hj ⊢
        omega
      rw [hnh _ (List.getElem_mem hj')] at hh; cases hh

/-! ## the builders -/

section Holds

variable {hk : Code → Bool} {P : Prog} {cs : List Code} (Hp : Holds hk P cs) {c : MemCfg} {Q : Nat → Prop}

include Hp in
/-- ONE code that `execCode` executes, at list position `k` -/
theorem msteps_codeK {k : Nat} {code : Code} (hc : cs[k]? = some code) {σ σ' : State}
    (hx : execCode c code σ = .ok σ') (out : List (Bool × Word)) (hq : hk code = true → Q (pcOf hk cs k)) :
    MStepsK Q P c σ (pcOf hk cs k) out σ' (pcOf hk cs (k + 1)) out := by
  by_cases hm : code.isMeta = true
  · have hs : σ' = σ := by
      rw [execCode_meta hm] at hx; cases hx; rfl
    subst hs
    by_cases hh : hk code = true
    · obtain ⟨vs, hit⟩ := Hp.hook k code hc hh
      rw [pcOf_item hc (by simp [isItem, hh])]
      exact .one (.hook hit) (fun _ _ => hq hh)
    · rw [pcOf_noitem hc (by simp [isItem, hm, hh])]
      exact .refl _ _ _
  · have hm' : code.isMeta = false := by simpa using hm
    obtain ⟨i, hti, hit⟩ := Hp.instr k code hc hm'
    rw [execCode_of_toInstr σ hti] at hx
    have hd := isData_of_exec hx
    rw [pcOf_item hc (by simp [isItem, hm'])]
    refine .one_instr hit (.next hit ?_)
    rw [step_data (cfg := { mem := c }) hd]
    simp only [hx]

include Hp in
/-- a straight-line block at list position `k` -/
theorem msteps_codesK : ∀ (blk : List Code) (k : Nat) (σ σ' : State) (out : List (Bool × Word)),
    (∀ j (h : j < blk.length), cs[k + j]? = some blk[j]) → execCodes c blk σ = .ok σ' → HkIn hk cs Q k blk →
    MStepsK Q P c σ (pcOf hk cs k) out σ' (pcOf hk cs (k + blk.length)) out
  | [], k, σ, σ', out, _, hx, _ => by
    simp only [execCodes, Except.ok.injEq] at hx
    subst hx
    exact .refl _ _ _
  | code :: rest, k, σ, σ', out, hb, hx, hq => by
    simp only [execCodes] at hx
    cases h1 : execCode c code σ with
    | error e => simp [h1] at hx
    | ok σ1 =>
      simp only [h1] at hx
      have h0 := hb 0 (by simp)
      simp only [Nat.add_zero, List.getElem_cons_zero] at h0
      have hrest : ∀ j (h : j < rest.length), cs[k + 1 + j]? = some rest[j] := by
        intro j hj
        have := hb (j + 1) (by simpa using hj)
        rw [Nat.add_assoc, Nat.add_comm 1 j]
        simpa using this
      have := msteps_codesK rest (k + 1) σ1 σ' out hrest hx hq.tail
      rw [show k + 1 + rest.length = k + (code :: rest).length by simp; omega] at this
      exact (msteps_codeK Hp h0 h1 out (fun hh => by simpa using hq 0 (by simp) hh)).trans this

include Hp in
/-- a block with calls of the print runtime at list position `k` -/
theorem msteps_codesOutK : ∀ (blk : List Code) (k : Nat) (σ σ' : State) (out outs : List (Bool × Word)),
    (∀ j (h : j < blk.length), cs[k + j]? = some blk[j]) → execCodesOut c blk σ = .ok (σ', outs) →
    HkIn hk cs Q k blk →
    MStepsK Q P c σ (pcOf hk cs k) out σ' (pcOf hk cs (k + blk.length)) (outs.reverse ++ out)
  | [], k, σ, σ', out, outs, _, hx, _ => by
    simp only [execCodesOut, Except.ok.injEq, Prod.mk.injEq] at hx
    obtain ⟨rfl, rfl⟩ := hx
    exact .refl _ _ _
  | code :: rest, k, σ, σ', out, outs, hb, hx, hq => by
    have h0 := hb 0 (by simp)
    simp only [Nat.add_zero, List.getElem_cons_zero] at h0
    have hrest : ∀ j (h : j < rest.length), cs[k + 1 + j]? = some rest[j] := by
      intro j hj
      have := hb (j + 1) (by simpa using hj)
      rw [Nat.add_assoc, Nat.add_comm 1 j]
      simpa using this
    have elen : k + 1 + rest.length = k + (code :: rest).length := by simp; omega
    by_cases hbl : code.isBL = true
    · cases code <;> simp [Code.isBL] at hbl
      rename_i l
      simp only [execCodesOut] at hx
      by_cases hext : isExternal l = true
      · rw [if_pos hext] at hx
        cases hcall : σ.callExternal with
        | error e => simp [hcall] at hx
        | ok r =>
          obtain ⟨w, σ1⟩ := r
          simp only [hcall] at hx
          cases hr : execCodesOut c rest σ1 with
          | error e => simp [hr] at hx
          | ok r2 =>
            obtain ⟨σ2, o2⟩ := r2
            simp only [hr, Except.ok.injEq, Prod.mk.injEq] at hx
            obtain ⟨rfl, rfl⟩ := hx
            obtain ⟨i, hti, hit⟩ := Hp.instr k _ h0 rfl
            simp only [Code.toInstr, Option.some.injEq] at hti
            subst hti
            have hst : step P c (.bl l) σ (pcOf hk cs k) = .print (l == "println_i64") w σ1 (pcOf hk cs k + 1) := by
              simp only [step, hext, if_true, hcall]
            have h1 := msteps_codesOutK rest (k + 1) σ1 σ2 ((l == "println_i64", w) :: out) o2 hrest hr hq.tail
            rw [elen, pcOf_item h0 (by simp [isItem, Code.isMeta])] at h1
            have h2 : MStepsK Q P c σ (pcOf hk cs k) out σ1 (pcOf hk cs k + 1) ((l == "println_i64", w) :: out) :=
              .one_instr hit (.print hit hst)
            have := h2.trans h1
            rw [List.reverse_cons, List.append_assoc]
            exact this
      · rw [if_neg hext] at hx; cases hx
    · have hbl' : code.isBL = false := by simpa using hbl
      rw [execCodesOut_cons_noBL hbl'] at hx
      cases h1 : execCode c code σ with
      | error e => simp [h1] at hx
      | ok σ1 =>
        simp only [h1] at hx
        have := msteps_codesOutK rest (k + 1) σ1 σ' out outs hrest hx hq.tail
        rw [elen] at this
        exact (msteps_codeK Hp h0 h1 out (fun hh => by simpa using hq 0 (by simp) hh)).trans this

include Hp in
/-- `B l` -/
theorem mstep_jumpK {k : Nat} {l : String} (hc : cs[k]? = some (Code.B l)) {j : Nat} (hl : P.labels[l]? = some j)
    (σ : State) (out : List (Bool × Word)) : MStepsK Q P c σ (pcOf hk cs k) out σ j out := by
  obtain ⟨i, hti, hit⟩ := Hp.instr k _ hc rfl
  simp only [Code.toInstr, Option.some.injEq] at hti
  subst hti
  exact .one_instr hit (.next hit (by simp [step, Prog.gotoLabel, hl]))

include Hp in
/-- a conditional branch with defined flags: taken to the label, or falling through -/
theorem mstep_bcondK {k : Nat} {code : Code} {cd : Cond} {l : String} (hc : cs[k]? = some code)
    (hti : code.toInstr = some (.bcond cd l)) {σ : State} {a b : Word} (hf : σ.flags = some (a, b))
    {j : Nat} (hl : cd.holds a b = true → P.labels[l]? = some j) (out : List (Bool × Word)) :
    MStepsK Q P c σ (pcOf hk cs k) out σ (if cd.holds a b then j else pcOf hk cs (k + 1)) out := by
  have hm : code.isMeta = false := by
    cases code <;> first | rfl | (simp [Code.toInstr] at hti)
  obtain ⟨i, hti', hit⟩ := Hp.instr k _ hc hm
  rw [hti] at hti'
  cases hti'
  rw [pcOf_item hc (by simp [isItem, hm])]
  refine .one_instr hit (.next hit ?_)
  simp only [step, hf]
  by_cases hh : cd.holds a b = true
  · simp [hh, Prog.gotoLabel, hl hh]
  · simp [hh]

include Hp in
/-- THE BRIDGE for blocks with forward local labels -/
theorem msteps_fwdK (hnd : (labs cs).Nodup) (blk : List Code) (k : Nat)
    (hblk : ∀ j (h : j < blk.length), cs[k + j]? = some blk[j]) (out : List (Bool × Word))
    (hq : HkIn hk cs Q k blk) :
    ∀ (n off : Nat) (σ σ' : State), blk.length - off ≤ n → off ≤ blk.length →
      execFwd c (blk.drop off) σ = .ok (σ', .next) →
      MStepsK Q P c σ (pcOf hk cs (k + off)) out σ' (pcOf hk cs (k + blk.length)) out := by
  intro n
  induction n with
  | zero =>
    intro off σ σ' hn hoff hx
    have : off = blk.length := by omega
    subst this
    rw [List.drop_length, execFwd_nil] at hx
    simp only [Except.ok.injEq, Prod.mk.injEq, and_true] at hx
    subst hx
    exact .refl _ _ _
  | succ n ih =>
    intro off σ σ' hn hoff hx
    by_cases hlt : off < blk.length
    · have hdrop : blk.drop off = blk[off] :: blk.drop (off + 1) := List.drop_eq_getElem_cons hlt
      have hget := hblk off hlt
      rw [hdrop, execFwd_cons] at hx
      cases hex : execCodeC c blk[off] σ with
      | error e => simp [hex, contFwd] at hx
      | ok r =>
        obtain ⟨σ1, ctl⟩ := r
        rw [hex] at hx
        cases hti : blk[off].toInstr with
        | none =>
          obtain ⟨he, rfl, rfl⟩ := execCodeC_meta hti hex
          simp only [contFwd] at hx
          have h1 := msteps_codeK (c := c) (Q := Q) Hp hget he out (hq off hlt)
          have h2 := ih (off + 1) _ _ (by omega) (by omega) hx
          rw [← Nat.add_assoc] at h2
          exact h1.trans h2
        | some i =>
          have hm := isMeta_of_toInstr hti
          obtain ⟨i', hti', hit⟩ := Hp.instr _ _ hget hm
          rw [hti] at hti'
          cases hti'
          cases ctl with
          | next =>
            simp only [contFwd] at hx
            have hs := execCodeC_next_step P c (pcOf hk cs (k + off)) hti hex
            have h1 : MStepsK Q P c σ (pcOf hk cs (k + off)) out σ1 (pcOf hk cs (k + off + 1)) out := by
              rw [pcOf_item hget (by simp [isItem, hm])]
              exact .one_instr hit (.next hit hs)
            have h2 := ih (off + 1) _ _ (by omega) (by omega) hx
            rw [← Nat.add_assoc] at h2
            exact h1.trans h2
          | jump l =>
            simp only [contFwd] at hx
            cases hsk : skipTo l (blk.drop (off + 1)) with
            | none => simp [hsk] at hx
            | some rest =>
              simp only [hsk] at hx
              obtain ⟨j, hj, hrest⟩ := skipTo_spec hsk
              have hj' : blk[off + 1 + j]? = some (.LAB l) := by
                rw [List.getElem?_drop] at hj; exact hj
              obtain ⟨hjlt, hjeq⟩ := List.getElem?_eq_some_iff.1 hj'
              have hcsj : cs[k + (off + 1 + j)]? = some (.LAB l) := by
                rw [hblk _ hjlt, hjeq]
              have hl := label_of_nodup Hp hnd hcsj
              have hs := execCodeC_jump_step P c (pc := pcOf hk cs (k + off)) hti hex hl
              have h1 : MStepsK Q P c σ (pcOf hk cs (k + off)) out σ1 (pcOf hk cs (k + (off + 1 + j))) out :=
                .one_instr hit (.next hit hs)
              have h15 : MStepsK Q P c σ1 (pcOf hk cs (k + (off + 1 + j))) out σ1
                  (pcOf hk cs (k + (off + 1 + j) + 1)) out :=
                msteps_codeK (c := c) Hp hcsj rfl out
                  (fun hh => by rw [hk_false_of_not_comment Hp (fun m e => by cases e)] at hh; cases hh)
              have hd : blk.drop (off + 1 + j + 1) = rest := by
                rw [hrest, List.drop_drop, Nat.add_assoc]
              have h2 := ih (off + 1 + j + 1) _ _ (by omega) (by omega) (by rw [hd]; exact hx)
              rw [show k + (off + 1 + j + 1) = k + (off + 1 + j) + 1 by omega] at h2
              exact h1.trans (h15.trans h2)
    · have : off = blk.length := by omega
      subst this
      rw [List.drop_length, execFwd_nil] at hx
      simp only [Except.ok.injEq, Prod.mk.injEq, and_true] at hx
      subst hx
      exact .refl _ _ _

include Hp in
/-- straight-line codes at a position -/
theorem x_msteps_codesK {blk : List Code} {k : Nat} {σ σ' : State} (hat : XAt cs k blk)
    (hx : execCodes c blk σ = .ok σ') (out : List (Bool × Word)) (hq : HkIn hk cs Q k blk) :
    MStepsK Q P c σ (pcOf hk cs k) out σ' (pcOf hk cs (k + blk.length)) out :=
  msteps_codesK Hp blk k σ σ' out hat.get hx hq

include Hp in
/-- a block with calls of the print runtime at a position -/
theorem x_msteps_codesOutK {blk : List Code} {k : Nat} {σ σ' : State} {outs : List (Bool × Word)}
    (hat : XAt cs k blk) (hx : execCodesOut c blk σ = .ok (σ', outs)) (out : List (Bool × Word))
    (hq : HkIn hk cs Q k blk) :
    MStepsK Q P c σ (pcOf hk cs k) out σ' (pcOf hk cs (k + blk.length)) (outs.reverse ++ out) :=
  msteps_codesOutK Hp blk k σ σ' out outs hat.get hx hq

include Hp in
/-- a block with forward local labels at a position -/
theorem x_msteps_fwdK (hnd : (labs cs).Nodup) {blk : List Code} {k : Nat} {σ σ' : State} (hat : XAt cs k blk)
    (hx : execFwd c blk σ = .ok (σ', .next)) (out : List (Bool × Word)) (hq : HkIn hk cs Q k blk) :
    MStepsK Q P c σ (pcOf hk cs k) out σ' (pcOf hk cs (k + blk.length)) out := by
  have := msteps_fwdK Hp hnd blk k hat.get out hq blk.length 0 σ σ' (by omega) (by omega) (by simpa using hx)
  simpa using this

end Holds

/-! ## runs without hooks, and runs that start at the hook of a statement boundary -/

section I

variable {hk : Code → Bool} {P : Prog} {cs : List Code} (Hp : Holds hk P cs) {c : MemCfg}

include Hp in
theorem x_msteps_codesI {blk : List Code} {k : Nat} {σ σ' : State} (hat : XAt cs k blk)
    (hx : execCodes c blk σ = .ok σ') (out : List (Bool × Word)) (hn : NoHk hk blk) :
    MStepsI P c σ (pcOf hk cs k) out σ' (pcOf hk cs (k + blk.length)) out :=
  x_msteps_codesK Hp hat hx out hn.hkIn

include Hp in
theorem x_msteps_codesOutI {blk : List Code} {k : Nat} {σ σ' : State} {outs : List (Bool × Word)}
    (hat : XAt cs k blk) (hx : execCodesOut c blk σ = .ok (σ', outs)) (out : List (Bool × Word))
    (hn : NoHk hk blk) :
    MStepsI P c σ (pcOf hk cs k) out σ' (pcOf hk cs (k + blk.length)) (outs.reverse ++ out) :=
  x_msteps_codesOutK Hp hat hx out hn.hkIn

include Hp in
theorem x_msteps_fwdI (hnd : (labs cs).Nodup) {blk : List Code} {k : Nat} {σ σ' : State} (hat : XAt cs k blk)
    (hx : execFwd c blk σ = .ok (σ', .next)) (out : List (Bool × Word)) (hn : NoHk hk blk) :
    MStepsI P c σ (pcOf hk cs k) out σ' (pcOf hk cs (k + blk.length)) out :=
  x_msteps_fwdK Hp hnd hat hx out hn.hkIn

include Hp in
theorem msteps_codesI (blk : List Code) (k : Nat) (σ σ' : State) (out : List (Bool × Word))
    (hb : ∀ j (h : j < blk.length), cs[k + j]? = some blk[j]) (hx : execCodes c blk σ = .ok σ')
    (hn : NoHk hk blk) :
    MStepsI P c σ (pcOf hk cs k) out σ' (pcOf hk cs (k + blk.length)) out :=
  msteps_codesK Hp blk k σ σ' out hb hx hn.hkIn

include Hp in
theorem msteps_codeI {k : Nat} {code : Code} (hc : cs[k]? = some code) {σ σ' : State}
    (hx : execCode c code σ = .ok σ') (out : List (Bool × Word)) (hn : hk code = false) :
    MStepsI P c σ (pcOf hk cs k) out σ' (pcOf hk cs (k + 1)) out :=
  msteps_codeK Hp hc hx out (fun hh => by rw [hn] at hh; cases hh)

include Hp in
theorem mstep_jumpI {k : Nat} {l : String} (hc : cs[k]? = some (Code.B l)) {j : Nat} (hl : P.labels[l]? = some j)
    (σ : State) (out : List (Bool × Word)) : MStepsI P c σ (pcOf hk cs k) out σ j out :=
  mstep_jumpK Hp hc hl σ out

include Hp in
theorem mstep_bcondI {k : Nat} {code : Code} {cd : Cond} {l : String} (hc : cs[k]? = some code)
    (hti : code.toInstr = some (.bcond cd l)) {σ : State} {a b : Word} (hf : σ.flags = some (a, b))
    {j : Nat} (hl : cd.holds a b = true → P.labels[l]? = some j) (out : List (Bool × Word)) :
    MStepsI P c σ (pcOf hk cs k) out σ (if cd.holds a b then j else pcOf hk cs (k + 1)) out :=
  mstep_bcondK Hp hc hti hf hl out

end I

/-- a run whose only hook step (if any) is its FIRST step: the `#ctx` hook of the statement boundary it starts
at, visited in the state the run starts in -/
inductive MStepsH (P : Prog) (c : MemCfg) :
    State → Nat → List (Bool × Word) → State → Nat → List (Bool × Word) → Prop
  | here {σ σ' : State} {pc pc' : Nat} {out out' : List (Bool × Word)} :
      MStepsI P c σ pc out σ' pc' out' → MStepsH P c σ pc out σ' pc' out'
  | hook {σ σ' : State} {pc pc' : Nat} {out out' : List (Bool × Word)} {vs : List (String × Kind)} :
      P.items[pc]? = some (.hook vs) → MStepsI P c σ (pc + 1) out σ' pc' out' →
      MStepsH P c σ pc out σ' pc' out'

section H
variable {P : Prog} {c : MemCfg} {σ1 σ2 σ3 : State} {pc1 pc2 pc3 : Nat} {o1 o2 o3 : List (Bool × Word)}

theorem MStepsH.trans (h1 : MStepsH P c σ1 pc1 o1 σ2 pc2 o2) (h2 : MStepsI P c σ2 pc2 o2 σ3 pc3 o3) :
    MStepsH P c σ1 pc1 o1 σ3 pc3 o3 := by
  cases h1 with
  | here h => exact .here (h.trans h2)
  | hook hi h => exact .hook hi (h.trans h2)

theorem MStepsH.msteps (h : MStepsH P c σ1 pc1 o1 σ2 pc2 o2) : MSteps P c σ1 pc1 o1 σ2 pc2 o2 := by
  cases h with
  | here h => exact h.msteps
  | hook hi h => exact .step (.hook hi) h.msteps

/-- a hook-free run that starts at a hook item does nothing -/
theorem MStepsI.at_hook {vs : List (String × Kind)} (hi : P.items[pc1]? = some (.hook vs))
    (h : MStepsI P c σ1 pc1 o1 σ2 pc2 o2) : σ2 = σ1 ∧ pc2 = pc1 ∧ o2 = o1 := by
  cases h with
  | refl => exact ⟨rfl, rfl, rfl⟩
  | step hs hq _ => exact (hq vs hi).elim

/-- a hook-free run from the boundary, the machine ahead by hooks: the run from the machine's position, or
nothing happened -/
theorem tol_runI {pcR : Nat} (h : MStepsI P c σ1 pc1 o1 σ2 pc2 o2) (T : Tol P pc1 pcR) :
    MStepsI P c σ1 pcR o1 σ2 pc2 o2 ∨ (σ2 = σ1 ∧ o2 = o1 ∧ pc2 = pc1 ∧ pc1 < pcR) := by
  by_cases he : pc1 = pcR
  · subst he; exact Or.inl h
  · have hlt : pc1 < pcR := by have := T.1; omega
    obtain ⟨vs, hv⟩ := T.2 pc1 (Nat.le_refl _) hlt
    obtain ⟨e1, e2, e3⟩ := h.at_hook hv
    exact Or.inr ⟨e1, e3, e2, hlt⟩

/-- `tol_run` for hook-free runs -/
theorem tol_runI' {pcR : Nat} (h : MStepsI P c σ1 pc1 o1 σ2 pc2 o2) (T : Tol P pc1 pcR) :
    MStepsI P c σ1 pcR o1 σ2 pc2 o2 ∨ (σ2 = σ1 ∧ o2 = o1 ∧ Tol P pc2 pcR) := by
  rcases tol_runI h T with h | ⟨e1, e2, e3, _⟩
  · exact Or.inl h
  · exact Or.inr ⟨e1, e2, by rw [e3]; exact T⟩

/-- a run from the boundary, the machine ahead by at least one hook: the machine's run visits no hook -/
theorem tol_runH {pcR : Nat} (h : MStepsH P c σ1 pc1 o1 σ2 pc2 o2) (T : Tol P pc1 pcR) (hlt : pc1 < pcR) :
    MStepsI P c σ1 pcR o1 σ2 pc2 o2 ∨ (σ2 = σ1 ∧ o2 = o1 ∧ Tol P pc2 pcR) := by
  cases h with
  | here h =>
    rcases tol_runI h T with h | ⟨e1, e2, e3, _⟩
    · exact Or.inl h
    · exact Or.inr ⟨e1, e2, by rw [e3]; exact T⟩
  | hook hi h =>
    have T1 : Tol P (pc1 + 1) pcR := ⟨by omega, fun i h1 h2 => T.2 i (by omega) h2⟩
    rcases tol_runI h T1 with h | ⟨e1, e2, e3, _⟩
    · exact Or.inl h
    · exact Or.inr ⟨e1, e2, by rw [e3]; exact T1⟩

end H

section C0

variable {hk : Code → Bool} {P : Prog} {cs : List Code} (Hp : Holds hk P cs) {c : MemCfg}

include Hp in
/-- THE FIRST BLOCK OF EVERY STATEMENT, `hookCode ++ [statement comment]`: at most the hook step, in the state the
statement starts in -/
theorem x_msteps_c0H {k : Nat} {c0 : List Code} {hooks : Bool} {Γ : Ctx} {m : String} (hat : XAt cs k c0)
    (hc0 : hookCode a64Backend hooks Γ ++ [a64Backend.comment m] = c0) (hm : hk (.COMMENT m) = false)
    (σ : State) (out : List (Bool × Word)) :
    MStepsH P c σ (pcOf hk cs k) out σ (pcOf hk cs (k + c0.length)) out := by
  subst hc0
  have hcm : a64Backend.comment m = Code.COMMENT m := rfl
  cases hooks with
  | false =>
    simp only [hookCode, Bool.false_eq_true, if_false, List.nil_append, List.length_singleton] at hat ⊢
    have h0 := hat.get 0 (by simp)
    simp only [Nat.add_zero, List.getElem_cons_zero, hcm] at h0
    rw [pcOf_noitem h0 (by simp [isItem, hm, Code.isMeta])]
    exact .here (.refl _ _ _)
  | true =>
    simp only [hookCode, if_true, List.cons_append, List.nil_append, List.length_cons, List.length_nil] at hat ⊢
    have h0 := hat.get 0 (by simp)
    have h1 := hat.get 1 (by simp)
    simp only [Nat.add_zero, List.getElem_cons_zero, List.getElem_cons_succ, hcm] at h0 h1
    have e2 : pcOf hk cs (k + (0 + 1 + 1)) = pcOf hk cs (k + 1) := by
      rw [show k + (0 + 1 + 1) = k + 1 + 1 by omega]
      exact pcOf_noitem h1 (by simp [isItem, hm, Code.isMeta])
    rw [e2]
    by_cases hh : hk (a64Backend.comment (ctxHookComment Γ)) = true
    · obtain ⟨vs, hit⟩ := Hp.hook k _ h0 hh
      rw [pcOf_item h0 (by simp [isItem, hh])]
      exact .hook hit (.refl _ _ _)
    · have hcm' : a64Backend.comment (ctxHookComment Γ) = Code.COMMENT (ctxHookComment Γ) := rfl
      rw [hcm'] at hh h0
      rw [pcOf_noitem h0 (by
        have : hk (Code.COMMENT (ctxHookComment Γ)) = false := by simpa using hh
        simp [isItem, this, Code.isMeta])]
      exact .here (.refl _ _ _)

include Hp in
/-- … followed by a hook-free straight-line block -/
theorem x_msteps_c0H_app {k : Nat} {c0 rest : List Code} {hooks : Bool} {Γ : Ctx} {m : String}
    (hat : XAt cs k (c0 ++ rest))
    (hc0 : hookCode a64Backend hooks Γ ++ [a64Backend.comment m] = c0) (hm : hk (.COMMENT m) = false)
    {σ σ' : State} (hx : execCodes c rest σ = .ok σ') (hr : NoHk hk rest) (out : List (Bool × Word)) :
    MStepsH P c σ (pcOf hk cs k) out σ' (pcOf hk cs (k + (c0 ++ rest).length)) out := by
  have h1 := x_msteps_c0H (c := c) Hp hat.left hc0 hm σ out
  have h2 := x_msteps_codesI (c := c) Hp hat.right hx out hr
  rw [List.length_append, ← Nat.add_assoc]
  exact h1.trans h2

end C0

/-! ## runs through an instruction -/

/-- a hook-free run that executes at least one instruction -/
def MStepsIR (P : Prog) (c : MemCfg) (σ : State) (pc : Nat) (out : List (Bool × Word)) (σ' : State) (pc' : Nat)
    (out' : List (Bool × Word)) : Prop :=
  ∃ σa pca outa σb pcb outb i, MStepsI P c σ pc out σa pca outa ∧ P.items[pca]? = some (.instr i) ∧
    MStep P c σa pca outa σb pcb outb ∧ MStepsI P c σb pcb outb σ' pc' out'

/-- a run that starts at a statement boundary (`MStepsH`) and executes at least one instruction -/
def MStepsHR (P : Prog) (c : MemCfg) (σ : State) (pc : Nat) (out : List (Bool × Word)) (σ' : State) (pc' : Nat)
    (out' : List (Bool × Word)) : Prop :=
  ∃ σa pca outa σb pcb outb i, MStepsH P c σ pc out σa pca outa ∧ P.items[pca]? = some (.instr i) ∧
    MStep P c σa pca outa σb pcb outb ∧ MStepsI P c σb pcb outb σ' pc' out'

section HR
variable {P : Prog} {c : MemCfg} {σ1 σ2 σ3 : State} {pc1 pc2 pc3 : Nat} {o1 o2 o3 : List (Bool × Word)}

theorem MStepsIR.pre (h2 : MStepsIR P c σ2 pc2 o2 σ3 pc3 o3) (h1 : MStepsH P c σ1 pc1 o1 σ2 pc2 o2) :
    MStepsHR P c σ1 pc1 o1 σ3 pc3 o3 := by
  obtain ⟨σa, pca, outa, σb, pcb, outb, i, g1, gi, g2, g3⟩ := h2
  exact ⟨σa, pca, outa, σb, pcb, outb, i, h1.trans g1, gi, g2, g3⟩

theorem MStepsIR.post (h1 : MStepsIR P c σ1 pc1 o1 σ2 pc2 o2) (h2 : MStepsI P c σ2 pc2 o2 σ3 pc3 o3) :
    MStepsIR P c σ1 pc1 o1 σ3 pc3 o3 := by
  obtain ⟨σa, pca, outa, σb, pcb, outb, i, g1, gi, g2, g3⟩ := h1
  exact ⟨σa, pca, outa, σb, pcb, outb, i, g1, gi, g2, g3.trans h2⟩

theorem MStepsHR.post (h1 : MStepsHR P c σ1 pc1 o1 σ2 pc2 o2) (h2 : MStepsI P c σ2 pc2 o2 σ3 pc3 o3) :
    MStepsHR P c σ1 pc1 o1 σ3 pc3 o3 := by
  obtain ⟨σa, pca, outa, σb, pcb, outb, i, g1, gi, g2, g3⟩ := h1
  exact ⟨σa, pca, outa, σb, pcb, outb, i, g1, gi, g2, g3.trans h2⟩

theorem MStepsIR.one_next {i : Instr} (hi : P.items[pc1]? = some (.instr i))
    (hs : step P c i σ1 pc1 = .next σ2 pc2) : MStepsIR P c σ1 pc1 o1 σ2 pc2 o1 :=
  ⟨σ1, pc1, o1, σ2, pc2, o1, i, .refl _ _ _, hi, .next hi hs, .refl _ _ _⟩

theorem MStepsHR.mstepsH (h : MStepsHR P c σ1 pc1 o1 σ2 pc2 o2) : MStepsH P c σ1 pc1 o1 σ2 pc2 o2 := by
  obtain ⟨σa, pca, outa, σb, pcb, outb, i, g1, gi, g2, g3⟩ := h
  exact g1.trans (.step g2 (fun vs hv => by rw [gi] at hv; cases hv) g3)

theorem MStepsHR.mstepsR (h : MStepsHR P c σ1 pc1 o1 σ2 pc2 o2) : MStepsR P c σ1 pc1 o1 σ2 pc2 o2 := by
  obtain ⟨σa, pca, outa, σb, pcb, outb, i, g1, gi, g2, g3⟩ := h
  exact ⟨σa, pca, outa, σb, pcb, outb, i, g1.msteps, gi, g2, g3.msteps⟩

end HR

/-- `B l`, as a hook-free run through an instruction -/
theorem mstepIR_jump {hk : Code → Bool} {P : Prog} {cs : List Code} (Hp : Holds hk P cs) {c : MemCfg} {k : Nat}
    {l : String} (hc : cs[k]? = some (Code.B l)) {j : Nat} (hl : P.labels[l]? = some j)
    (σ : State) (out : List (Bool × Word)) : MStepsIR P c σ (pcOf hk cs k) out σ j out := by
  obtain ⟨i, hti, hit⟩ := Hp.instr k _ hc rfl
  simp only [Code.toInstr, Option.some.injEq] at hti
  subst hti
  exact MStepsIR.one_next hit (by simp [step, Prog.gotoLabel, hl])

/-! ## counted runs whose hook steps pass -/

/-- a run of exactly `n` iterations of the run loop in which every iteration at a hook item `#ctx vs`, in state
`σ`, satisfies `pass σ vs` (for the heap monitor: `heapMonitor c σ vs` returns `.ok`) -/
inductive MStepsNP (pass : State → List (String × Kind) → Prop) (P : Prog) (c : MemCfg) :
    Nat → State → Nat → List (Bool × Word) → State → Nat → List (Bool × Word) → Prop
  | refl (σ : State) (pc : Nat) (out : List (Bool × Word)) : MStepsNP pass P c 0 σ pc out σ pc out
  | step {n : Nat} {σ σ1 σ2 : State} {pc pc1 pc2 : Nat} {out out1 out2 : List (Bool × Word)} :
      MStep P c σ pc out σ1 pc1 out1 → (∀ vs, P.items[pc]? = some (.hook vs) → pass σ vs) →
      MStepsNP pass P c n σ1 pc1 out1 σ2 pc2 out2 → MStepsNP pass P c (n + 1) σ pc out σ2 pc2 out2

section NP
variable {pass : State → List (String × Kind) → Prop} {P : Prog} {c : MemCfg} {σ1 σ2 σ3 : State} {pc1 pc2 pc3 : Nat}
  {o1 o2 o3 : List (Bool × Word)}

theorem MStepsNP.trans {n m : Nat} (h1 : MStepsNP pass P c n σ1 pc1 o1 σ2 pc2 o2)
    (h2 : MStepsNP pass P c m σ2 pc2 o2 σ3 pc3 o3) : MStepsNP pass P c (n + m) σ1 pc1 o1 σ3 pc3 o3 := by
  induction h1 with
  | refl => rw [Nat.zero_add]; exact h2
  | @step n σ σa σb pc pca pcb out outa outb hs hp _ ih =>
    rw [show n + 1 + m = (n + m) + 1 by omega]
    exact .step hs hp (ih h2)

theorem MStepsNP.forget {n : Nat} (h : MStepsNP pass P c n σ1 pc1 o1 σ2 pc2 o2) :
    MStepsN P c n σ1 pc1 o1 σ2 pc2 o2 := by
  induction h with
  | refl => exact .refl _ _ _
  | step hs _ _ ih => exact .step hs ih

/-- a hook-free run passes -/
theorem MStepsK.countP (h : MStepsI P c σ1 pc1 o1 σ2 pc2 o2) : ∃ n, MStepsNP pass P c n σ1 pc1 o1 σ2 pc2 o2 := by
  induction h with
  | refl => exact ⟨0, .refl _ _ _⟩
  | step hs hq _ ih =>
    obtain ⟨n, hn⟩ := ih
    exact ⟨n + 1, .step hs (fun vs hv => (hq vs hv).elim) hn⟩

/-- a run from a statement boundary passes if its hook passes in the state it starts in -/
theorem MStepsH.countP (h : MStepsH P c σ1 pc1 o1 σ2 pc2 o2)
    (hp : ∀ vs, P.items[pc1]? = some (.hook vs) → pass σ1 vs) :
    ∃ n, MStepsNP pass P c n σ1 pc1 o1 σ2 pc2 o2 := by
  cases h with
  | here h => exact MStepsK.countP h
  | hook hi h =>
    obtain ⟨n, hn⟩ := MStepsK.countP (pass := pass) h
    exact ⟨n + 1, .step (.hook hi) hp hn⟩

/-- a run through an instruction takes at least one iteration -/
theorem MStepsIR.countP (h : MStepsIR P c σ1 pc1 o1 σ2 pc2 o2) :
    ∃ n, 1 ≤ n ∧ MStepsNP pass P c n σ1 pc1 o1 σ2 pc2 o2 := by
  obtain ⟨σa, pca, outa, σb, pcb, outb, i, g1, gi, g2, g3⟩ := h
  obtain ⟨n1, h1⟩ := MStepsK.countP (pass := pass) g1
  obtain ⟨n3, h3⟩ := MStepsK.countP (pass := pass) g3
  exact ⟨n1 + (n3 + 1), by omega, h1.trans (.step g2 (fun vs hv => by rw [gi] at hv; cases hv) h3)⟩

theorem MStepsHR.countP (h : MStepsHR P c σ1 pc1 o1 σ2 pc2 o2)
    (hp : ∀ vs, P.items[pc1]? = some (.hook vs) → pass σ1 vs) :
    ∃ n, 1 ≤ n ∧ MStepsNP pass P c n σ1 pc1 o1 σ2 pc2 o2 := by
  obtain ⟨σa, pca, outa, σb, pcb, outb, i, g1, gi, g2, g3⟩ := h
  obtain ⟨n1, h1⟩ := g1.countP (pass := pass) hp
  obtain ⟨n3, h3⟩ := MStepsK.countP (pass := pass) g3
  exact ⟨n1 + (n3 + 1), by omega, h1.trans (.step g2 (fun vs hv => by rw [gi] at hv; cases hv) h3)⟩

/-- THE MACHINE AHEAD OF THE BOUNDARY BY HOOKS (`tol_next` of Scc/A64/ConcKRun.lean for passing runs): the
simulation runs from the boundary item `pc0` to the item `pc1` (the next boundary `pc'` up to `Tol`), the machine
is at `pcR`; if the machine is AT the boundary item, its hook (if any) passes -/
theorem tol_nextP {pcR pc' : Nat} (T : Tol P pc1 pcR) (h : MStepsH P c σ1 pc1 o1 σ2 pc2 o2) (T' : Tol P pc' pc2)
    (hp : pcR = pc1 → ∀ vs, P.items[pc1]? = some (.hook vs) → pass σ1 vs) :
    ∃ pcR' n, MStepsNP pass P c n σ1 pcR o1 σ2 pcR' o2 ∧ Tol P pc' pcR' := by
  by_cases he : pcR = pc1
  · subst he
    obtain ⟨n, hn⟩ := h.countP (pass := pass) (hp rfl)
    exact ⟨pc2, n, hn, T'⟩
  · have hlt : pc1 < pcR := by have := T.1; omega
    rcases tol_runH h T hlt with hI | ⟨e1, e2, T2⟩
    · obtain ⟨n, hn⟩ := MStepsK.countP (pass := pass) hI
      exact ⟨pc2, n, hn, T'⟩
    · subst e1; subst e2
      exact ⟨pcR, 0, .refl _ _ _, T'.trans T2⟩

/-- … to the final `RET` -/
theorem tol_run_instrP {pcR : Nat} (T : Tol P pc1 pcR) (h : MStepsH P c σ1 pc1 o1 σ2 pc2 o2) {i : Instr}
    (hi : P.items[pc2]? = some (.instr i))
    (hp : pcR = pc1 → ∀ vs, P.items[pc1]? = some (.hook vs) → pass σ1 vs) :
    ∃ n, MStepsNP pass P c n σ1 pcR o1 σ2 pc2 o2 := by
  obtain ⟨pcR', n, hn, T2⟩ := tol_nextP (pass := pass) T h (Tol.refl P pc2) hp
  have : pcR' = pc2 := by
    by_cases hlt : pc2 < pcR'
    · obtain ⟨vs, hv⟩ := T2.2 pc2 (Nat.le_refl _) hlt
      rw [hv] at hi; cases hi
    · have := T2.1; omega
  subst this
  exact ⟨n, hn⟩

/-- … through an instruction -/
theorem tol_next_realP {pcR : Nat} (T : Tol P pc1 pcR) (h : MStepsHR P c σ1 pc1 o1 σ2 pc2 o2)
    (hp : pcR = pc1 → ∀ vs, P.items[pc1]? = some (.hook vs) → pass σ1 vs) :
    ∃ n, 1 ≤ n ∧ MStepsNP pass P c n σ1 pcR o1 σ2 pc2 o2 := by
  by_cases he : pcR = pc1
  · subst he
    exact h.countP (hp rfl)
  · have hlt : pc1 < pcR := by have := T.1; omega
    obtain ⟨σa, pca, outa, σb, pcb, outb, i, g1, gi, g2, g3⟩ := h
    have hI : MStepsI P c σ1 pcR o1 σa pca outa := by
      rcases tol_runH g1 T hlt with hI | ⟨e1, e2, T2⟩
      · exact hI
      · subst e1; subst e2
        have : pca = pcR := by
          by_cases hl : pca < pcR
          · obtain ⟨vs, hv⟩ := T2.2 pca (Nat.le_refl _) hl
            rw [hv] at gi; cases gi
          · have := T2.1; omega
        subst this
        exact .refl _ _ _
    exact MStepsIR.countP ⟨σa, pca, outa, σb, pcb, outb, i, hI, gi, g2, g3⟩

end NP

end Scc.A64.Ref.K
