/-
  Scc.A64.RefClosLemmas — CLOSURES in the three-way relation (C07 on AArch64; port of the x86-64 file of the same name): the generic lemmas about the
  walk `XV` (RefClosDefs.lean).
  * `oldFields_steps`: whatever the abstract machine does, an object with an OLD id that is still in the
    heap has the fields it had (objects are never modified, only their counts);
  * `XV.sub`: the walk survives such a heap change, for every value that is still represented (`RepV`);
  * `XV.kept`: the walk survives an extension of the heap;
  * `XV.congrK`: the walk looks at `κ` only on the objects it reaches.
-/
import Scc.A64.RefClosDefs
import Scc.Backend.ProofsRep2
import Scc.Backend.ProofsLoad
import Scc.A64.RefSim

set_option linter.unusedVariables false
set_option linter.unusedSimpArgs false

namespace Scc.A64.Ref.K

open Scc.AxCut Scc.AxCut.Pos Scc.Backend Scc.Backend.Abs Scc.Backend.Sim Scc.Backend.Sim2 Scc.A64

/-! ## objects are never modified -/

/-- an object of `h'` with an id below `n` is an object of `h` with the same fields -/
def OldFields (n : Nat) (h h' : Heap) : Prop :=
  ∀ id o', id < n → h'.get id = some o' → ∃ o, h.get id = some o ∧ o.fields = o'.fields

theorem OldFields.refl (n : Nat) (h : Heap) : OldFields n h h := fun id o' _ hg => ⟨o', hg, rfl⟩

theorem OldFields.trans {n m : Nat} {h1 h2 h3 : Heap} (a : OldFields n h1 h2) (b : OldFields m h2 h3)
    (hnm : n ≤ m) : OldFields n h1 h3 := by
  intro id o3 hid hg
  obtain ⟨o2, hg2, e2⟩ := b id o3 (by omega) hg
  obtain ⟨o1, hg1, e1⟩ := a id o2 hid hg2
  exact ⟨o1, hg1, by rw [e1, e2]⟩

theorem oldFields_set {n : Nat} {h : Heap} {id : Nat} {o : Obj} (hg : h.get id = some o) (cnt : Nat) :
    OldFields n h (h.set id { o with count := cnt }) := by
  intro id' o' _ hg'
  by_cases e : id' = id
  · subst e
    rw [heap_get_set_same] at hg'
    injection hg' with hg'
    exact ⟨o, hg, by rw [← hg']⟩
  · rw [heap_get_set_other _ _ e] at hg'
    exact ⟨o', hg', rfl⟩

theorem oldFields_remove {n : Nat} (h : Heap) (id : Nat) : OldFields n h (h.remove id) := by
  intro id' o' _ hg'
  by_cases e : id' = id
  · subst e
    rw [heap_get_remove_same] at hg'
    cases hg'
  · rw [heap_get_remove_other _ e] at hg'
    exact ⟨o', hg', rfl⟩

theorem oldFields_eraseLoop (n : Nat) : ∀ (fuel : Nat) (work : List Nat) (h h' : Heap),
    Heap.eraseLoop fuel work h = .ok h' → OldFields n h h'
  | 0, [], h, h', hs => by
    simp only [Heap.eraseLoop] at hs
    injection hs with hs; rw [← hs]; exact OldFields.refl _ _
  | 0, _ :: _, h, h', hs => by simp [Heap.eraseLoop] at hs
  | _ + 1, [], h, h', hs => by
    simp only [Heap.eraseLoop] at hs
    injection hs with hs; rw [← hs]; exact OldFields.refl _ _
  | fuel + 1, id :: work, h, h', hs => by
    simp only [Heap.eraseLoop] at hs
    cases hg : h.get id with
    | none => rw [hg] at hs; cases hs
    | some o =>
      rw [hg] at hs
      simp only at hs
      by_cases hc : o.count > 0
      · rw [if_pos hc] at hs
        exact (oldFields_set hg _).trans (oldFields_eraseLoop n fuel work _ _ hs) (Nat.le_refl _)
      · rw [if_neg hc] at hs
        exact (oldFields_remove h id).trans (oldFields_eraseLoop n fuel _ _ _ hs) (Nat.le_refl _)

theorem oldFields_erase {n : Nat} {h h' : Heap} {ref : Word} (hs : h.erase ref = .ok h') : OldFields n h h' := by
  unfold Heap.erase at hs
  split at hs
  · injection hs with hs; rw [← hs]; exact OldFields.refl _ _
  · exact oldFields_eraseLoop n _ _ _ _ hs

theorem oldFields_share {n : Nat} {h h' : Heap} {ref : Word} {k : Nat} (hs : h.share ref k = .ok h') :
    OldFields n h h' := by
  unfold Heap.share at hs
  split at hs
  · injection hs with hs; rw [← hs]; exact OldFields.refl _ _
  · cases hg : h.get ref.toNat with
    | none => rw [hg] at hs; cases hs
    | some o =>
      rw [hg] at hs
      injection hs with hs
      rw [← hs]
      exact oldFields_set hg _

theorem oldFields_shareAll (n : Nat) : ∀ (ids : List Nat) (h h' : Heap), h.shareAll ids = .ok h' →
    OldFields n h h'
  | [], h, h', hs => by
    simp only [Heap.shareAll] at hs
    injection hs with hs; rw [← hs]; exact OldFields.refl _ _
  | id :: ids, h, h', hs => by
    simp only [Heap.shareAll] at hs
    cases h1 : h.share (BitVec.ofNat 64 id) 1 with
    | error e => rw [h1] at hs; cases hs
    | ok h1' =>
      rw [h1] at hs
      exact (oldFields_share h1).trans (oldFields_shareAll n ids _ _ hs) (Nat.le_refl _)

/-- ONE STEP of the abstract machine: old objects keep their fields, the id counter does not decrease -/
theorem oldFields_step {P : Program} {c c' : Config} (h : Abs.step P c = .next c') :
    OldFields c.next c.heap c'.heap ∧ c.next ≤ c'.next := by
  have same : ∀ {c'' : Config}, c''.heap = c.heap → c''.next = c.next →
      OldFields c.next c.heap c''.heap ∧ c.next ≤ c''.next := by
    intro c'' e1 e2
    rw [e1, e2]; exact ⟨OldFields.refl _ _, Nat.le_refl _⟩
  have jt : ∀ {n : String} {c'' : Config}, jumpTo P c n = .next c'' →
      OldFields c.next c.heap c''.heap ∧ c.next ≤ c''.next := by
    intro n c'' hj
    unfold jumpTo at hj
    split at hj
    · injection hj with hj; subst hj; exact same rfl rfl
    · simp [stuck] at hj
  unfold Abs.step at h
  cases hc : P.code[c.pc]? with
  | none => rw [hc] at h; simp [stuck] at h
  | some op =>
    rw [hc] at h
    cases op with
    | comment m => simp only at h; injection h with h; subst h; exact same rfl rfl
    | label m => simp only at h; injection h with h; subst h; exact same rfl rfl
    | jump t =>
      simp only at h
      obtain ⟨v, _, h⟩ := getT_next h
      injection h with h; subst h; exact same rfl rfl
    | jumpLabel n =>
      simp only at h
      split at h
      · obtain ⟨v, _, h⟩ := getT_next h
        cases h
      · exact jt h
    | jumpFixed n => simp only at h; exact jt h
    | jif cnd a b n =>
      simp only at h
      obtain ⟨va, _, h⟩ := getT_next h
      obtain ⟨vb, _, h⟩ := getT_next h
      split at h
      · exact jt h
      · injection h with h; subst h; exact same rfl rfl
    | jifz cnd a n =>
      simp only at h
      obtain ⟨va, _, h⟩ := getT_next h
      split at h
      · exact jt h
      · injection h with h; subst h; exact same rfl rfl
    | li t imm => simp only at h; injection h with h; subst h; exact same rfl rfl
    | ll t n =>
      simp only at h
      split at h
      · injection h with h; subst h; exact same rfl rfl
      · simp [stuck] at h
    | addJump t imm =>
      simp only at h
      obtain ⟨v, _, h⟩ := getT_next h
      injection h with h; subst h; exact same rfl rfl
    | binop o t a b =>
      simp only at h
      obtain ⟨va, _, h⟩ := getT_next h
      obtain ⟨vb, _, h⟩ := getT_next h
      split at h
      · simp [stuck] at h
      · injection h with h; subst h; exact same rfl rfl
    | mov t s => simp only at h; injection h with h; subst h; exact same rfl rfl
    | print nl s kinds =>
      simp only at h
      obtain ⟨v, _, h⟩ := getT_next h
      injection h with h; subst h; exact same rfl rfl
    | erase t =>
      simp only at h
      obtain ⟨v, _, h⟩ := getT_next h
      split at h
      · simp [stuck] at h
      · rename_i hh he
        injection h with h; subst h
        exact ⟨oldFields_erase he, Nat.le_refl _⟩
    | share t k =>
      simp only at h
      obtain ⟨v, _, h⟩ := getT_next h
      split at h
      · simp [stuck] at h
      · rename_i hh he
        injection h with h; subst h
        exact ⟨oldFields_share he, Nat.le_refl _⟩
    | store kinds n =>
      simp only at h
      split at h
      · injection h with h; subst h; exact same rfl rfl
      · split at h
        · simp [stuck] at h
        · injection h with h; subst h
          refine ⟨?_, Nat.le_succ _⟩
          intro id o' hid hg
          simp only at hg
          rw [heap_get_cons_ne (by omega)] at hg
          exact ⟨o', hg, rfl⟩
    | load kinds n =>
      simp only at h
      split at h
      · injection h with h; subst h; exact same rfl rfl
      · obtain ⟨ref, _, h⟩ := getT_next h
        split at h
        · simp [stuck] at h
        · split at h
          · simp [stuck] at h
          · rename_i o hg
            split at h
            · simp [stuck] at h
            · split at h
              · injection h with h; subst h
                exact ⟨oldFields_remove _ _, Nat.le_refl _⟩
              · split at h
                · simp [stuck] at h
                · rename_i h'' hsh
                  injection h with h; subst h
                  exact ⟨(oldFields_set hg _).trans (oldFields_shareAll _ _ _ _ hsh) (Nat.le_refl _), Nat.le_refl _⟩
    | save t b => simp only at h; injection h with h; subst h; exact same rfl rfl
    | restore t b => simp only at h; injection h with h; subst h; exact same rfl rfl

theorem oldFields_steps {P : Program} : ∀ (k : Nat) (c c' : Config), stepsTo P k c c' →
    OldFields c.next c.heap c'.heap ∧ c.next ≤ c'.next
  | 0, c, c', h => by
    have : c = c' := h
    subst this
    exact ⟨OldFields.refl _ _, Nat.le_refl _⟩
  | k + 1, c, c', h => by
    obtain ⟨c1, hs, h'⟩ := h
    obtain ⟨a1, a2⟩ := oldFields_step hs
    obtain ⟨b1, b2⟩ := oldFields_steps k c1 c' h'
    exact ⟨a1.trans b1 a2, by omega⟩

/-! ## the walk under changes of the heap -/

section Walk
variable {P : Program} {c : MemCfg} {cs : List Code} {hooks : Bool} {types : List TypeDecl}

mutual
/-- the walk survives a change of the heap that keeps the fields of the old objects, for every value that
is still represented in the new heap -/
theorem XV.sub {n : Nat} {h h' : Heap} {κ : Nat → Nat → Word} (hold : OldFields n h h')
    (hids : ∀ id o, h.get id = some o → id < n) : ∀ {v : Value} {p : Option Word} {a w a' : Word},
    XV P c cs hooks types h κ v p a w → RepV P hooks types h' v p a' → XV P c cs hooks types h' κ v p a w
  | _, _, _, _, _, .int n p a w, _ => .int n p a w
  | _, _, _, _, _, .obj tag fields r a w hb, hr => by
    obtain ⟨r', hr', hB, _⟩ := hr.obj_inv
    injection hr' with hr'
    subst hr'
    exact .obj tag fields r a w (XB.sub hold hids hb hB)
  | _, _, _, _, _, .clo envCtx envCtx' env clauses r a w hk hb hm hx, hr => by
    obtain ⟨r', a'', envCtx'', hr', hB, _⟩ := hr.clo_inv
    injection hr' with hr'
    subst hr'
    exact .clo envCtx envCtx' env clauses r a w hk (XB.sub hold hids hb hB) hm hx
theorem XB.sub {n : Nat} {h h' : Heap} {κ : Nat → Nat → Word} (hold : OldFields n h h')
    (hids : ∀ id o, h.get id = some o → id < n) : ∀ {vs : List Value} {r : Word},
    XB P c cs hooks types h κ vs r → RepB P hooks types h' vs r → XB P c cs hooks types h' κ vs r
  | _, _, .empty, _ => .empty
  | _, _, .block v vs r o hr0 hg hf, hB => by
    cases hB with
    | block _ _ _ o' _ hg' hF' =>
      obtain ⟨o2, hg2, e2⟩ := hold r.toNat o' (hids _ _ hg) hg'
      rw [hg] at hg2
      injection hg2 with hg2
      subst hg2
      refine .block v vs r o' hr0 hg' ?_
      rw [← e2]
      rw [← e2] at hF'
      exact XF.sub hold hids hf hF'
theorem XF.sub {n : Nat} {h h' : Heap} {κ : Nat → Nat → Word} (hold : OldFields n h h')
    (hids : ∀ id o, h.get id = some o → id < n) : ∀ {vs : List Value} {fs : List Field} {id j : Nat},
    XF P c cs hooks types h κ vs fs id j → RepF P hooks types h' vs fs → XF P c cs hooks types h' κ vs fs id j
  | _, _, _, _, .nil id j, _ => .nil id j
  | _, _, _, _, .cons v vs f fs id j hv hr, hF => by
    cases hF with
    | cons _ _ _ _ hv' _ hr' =>
      exact .cons v vs f fs id j (XV.sub hold hids hv hv') (XF.sub hold hids hr hr')
end

mutual
/-- the walk survives a heap change that keeps the fields of every object -/
theorem XV.kept {h h' : Heap} {κ : Nat → Nat → Word} (hk : AllFieldsKept h h') :
    ∀ {v : Value} {p : Option Word} {a w : Word},
    XV P c cs hooks types h κ v p a w → XV P c cs hooks types h' κ v p a w
  | _, _, _, _, .int n p a w => .int n p a w
  | _, _, _, _, .obj tag fields r a w hb => .obj tag fields r a w (XB.kept hk hb)
  | _, _, _, _, .clo envCtx envCtx' env clauses r a w hkeys hb hm hx =>
    .clo envCtx envCtx' env clauses r a w hkeys (XB.kept hk hb) hm hx
theorem XB.kept {h h' : Heap} {κ : Nat → Nat → Word} (hk : AllFieldsKept h h') :
    ∀ {vs : List Value} {r : Word}, XB P c cs hooks types h κ vs r → XB P c cs hooks types h' κ vs r
  | _, _, .empty => .empty
  | _, _, .block v vs r o hr0 hg hf => by
    obtain ⟨o', hg', e⟩ := hk _ _ hg
    refine .block v vs r o' hr0 hg' ?_
    rw [e]
    exact XF.kept hk hf
theorem XF.kept {h h' : Heap} {κ : Nat → Nat → Word} (hk : AllFieldsKept h h') :
    ∀ {vs : List Value} {fs : List Field} {id j : Nat},
    XF P c cs hooks types h κ vs fs id j → XF P c cs hooks types h' κ vs fs id j
  | _, _, _, _, .nil id j => .nil id j
  | _, _, _, _, .cons v vs f fs id j hv hr => .cons v vs f fs id j (XV.kept hk hv) (XF.kept hk hr)
end

mutual
/-- the walk looks at `κ` only on the objects of the heap -/
theorem XV.congrK {h : Heap} {κ κ' : Nat → Nat → Word} (hκ : ∀ id o, h.get id = some o → ∀ j, κ' id j = κ id j) :
    ∀ {v : Value} {p : Option Word} {a w : Word},
    XV P c cs hooks types h κ v p a w → XV P c cs hooks types h κ' v p a w
  | _, _, _, _, .int n p a w => .int n p a w
  | _, _, _, _, .obj tag fields r a w hb => .obj tag fields r a w (XB.congrK hκ hb)
  | _, _, _, _, .clo envCtx envCtx' env clauses r a w hkeys hb hm hx =>
    .clo envCtx envCtx' env clauses r a w hkeys (XB.congrK hκ hb) hm hx
theorem XB.congrK {h : Heap} {κ κ' : Nat → Nat → Word} (hκ : ∀ id o, h.get id = some o → ∀ j, κ' id j = κ id j) :
    ∀ {vs : List Value} {r : Word}, XB P c cs hooks types h κ vs r → XB P c cs hooks types h κ' vs r
  | _, _, .empty => .empty
  | _, _, .block v vs r o hr0 hg hf => .block v vs r o hr0 hg (XF.congrK hκ hf (hκ _ _ hg))
theorem XF.congrK {h : Heap} {κ κ' : Nat → Nat → Word} (hκ : ∀ id o, h.get id = some o → ∀ j, κ' id j = κ id j) :
    ∀ {vs : List Value} {fs : List Field} {id j : Nat},
    XF P c cs hooks types h κ vs fs id j → (∀ j, κ' id j = κ id j) → XF P c cs hooks types h κ' vs fs id j
  | _, _, _, _, .nil id j, _ => .nil id j
  | _, _, _, _, .cons v vs f fs id j hv hr, hid => by
    refine .cons v vs f fs id j ?_ (XF.congrK hκ hr hid)
    rw [hid j]
    exact XV.congrK hκ hv
end

end Walk

end Scc.A64.Ref.K
