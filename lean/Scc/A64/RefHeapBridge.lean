/-
  Scc.A64.RefHeapBridge — from block executions (`execFwd`, blocks with forward local labels: the code of
  the memory operations) to iterations of the machine's run loop on a laid-out program that HOLDS the
  routine (`CC.Holds`) and whose labels are pairwise distinct.  Unlike `C07_block_bridge`
  (MemProofsBridge.lean) the block may contain comments that are laid out as `#ctx` hook items (they are
  skipped by one iteration of the run loop each; heap monitor off).
  * `XAt cs k items`: the routine holds `items` from list position `k` on.
  * `msteps_fwd`: the bridge; `x_msteps_codes`, `x_msteps_codesOut`, `x_msteps_fwd`: the three kinds of
    blocks at a position given by `XAt`.
-/
import Scc.A64.RefStep
import Scc.A64.MemProofsBridge

set_option linter.unusedVariables false
set_option linter.unusedSimpArgs false

namespace Scc.A64.Ref

open Scc.AxCut Scc.Backend Scc.A64 Scc.A64.CC

/-! ## labels of a routine with pairwise distinct labels -/

theorem getElem?_mid {α : Type} (l : List α) (a : α) (r : List α) : (l ++ a :: r)[l.length]? = some a := by
  rw [List.getElem?_append_right (Nat.le_refl _), Nat.sub_self]
  rfl

theorem split_at {α : Type} {cs : List α} {i : Nat} {a : α} (h : cs[i]? = some a) :
    cs = cs.take i ++ a :: cs.drop (i + 1) ∧ (cs.take i).length = i := by
  obtain ⟨hlt, heq⟩ := List.getElem?_eq_some_iff.1 h
  have h1 : cs.drop i = cs[i] :: cs.drop (i + 1) := List.drop_eq_getElem_cons hlt
  refine ⟨?_, by simp [Nat.min_eq_left (Nat.le_of_lt hlt)]⟩
  conv => lhs; rw [← List.take_append_drop i cs, h1, heq]

/-- with pairwise distinct labels, a label resolves to the position that defines it -/
theorem label_of_nodup {hk : Code → Bool} {P : Prog} {cs : List Code} (Hp : Holds hk P cs)
    (hnd : (labs cs).Nodup) {i : Nat} {l : String} (hi : cs[i]? = some (.LAB l)) :
    P.labels[l]? = some (pcOf hk cs i) := by
  obtain ⟨hsplit, hlen⟩ := split_at hi
  have hnot : Code.LAB l ∉ cs.take i := by
    apply lab_not_mem_of_labs
    rw [hsplit, labs_append] at hnd
    have := (List.nodup_append.1 hnd).2.2
    intro hm
    exact this l hm l (by simp [labs, labOf]) rfl
  have := label_pc Hp hsplit hnot
  rw [hlen] at this
  exact this

/-! ## the bridge -/

section Fwd

variable {hk : Code → Bool} {P : Prog} {cs : List Code} (Hp : Holds hk P cs) (hnd : (labs cs).Nodup)
  {c : MemCfg}

theorem execCodeC_meta {code : Code} (hm : code.toInstr = none) {σ σ1 : State} {ctl : Ctl}
    (hx : execCodeC c code σ = .ok (σ1, ctl)) : execCode c code σ = .ok σ ∧ σ1 = σ ∧ ctl = .next := by
  obtain ⟨h1, h2⟩ := execCodeC_nonitem hm hx
  refine ⟨?_, h1, h2⟩
  unfold execCodeC at hx
  rw [hm] at hx
  simp only [] at hx
  cases he : execCode c code σ with
  | error e => rw [he] at hx; cases hx
  | ok σ' =>
    rw [he] at hx
    simp only [Except.ok.injEq, Prod.mk.injEq] at hx
    rw [hx.1, h1]

theorem isMeta_of_toInstr {code : Code} {i : Instr} (h : code.toInstr = some i) : code.isMeta = false := by
  cases code <;> first | rfl | (simp [Code.toInstr] at h)

include Hp hnd in
/-- THE BRIDGE for blocks with forward local labels -/
theorem msteps_fwd (blk : List Code) (k : Nat) (hblk : ∀ j (h : j < blk.length), cs[k + j]? = some blk[j])
    (out : List (Bool × Word)) :
    ∀ (n off : Nat) (σ σ' : State), blk.length - off ≤ n → off ≤ blk.length →
      execFwd c (blk.drop off) σ = .ok (σ', .next) →
      MSteps P c σ (pcOf hk cs (k + off)) out σ' (pcOf hk cs (k + blk.length)) out := by
  intro n
  induction n with
  | zero =>
    intro off σ σ' hn hoff hx
    have : off = blk.length := by omega
    subst this
    rw [List.drop_length, execFwd_nil] at hx
    simp only [Except.ok.injEq, Prod.mk.injEq, and_true] at hx
    subst hx
    exact .refl _ _ _
  | succ n ih =>
    intro off σ σ' hn hoff hx
    by_cases hlt : off < blk.length
    · have hdrop : blk.drop off = blk[off] :: blk.drop (off + 1) := List.drop_eq_getElem_cons hlt
      have hget := hblk off hlt
      rw [hdrop, execFwd_cons] at hx
      cases hex : execCodeC c blk[off] σ with
      | error e => simp [hex, contFwd] at hx
      | ok r =>
        obtain ⟨σ1, ctl⟩ := r
        rw [hex] at hx
        cases hti : blk[off].toInstr with
        | none =>
          obtain ⟨he, rfl, rfl⟩ := execCodeC_meta hti hex
          simp only [contFwd] at hx
          have h1 := msteps_code (c := c) Hp hget he out
          have h2 := ih (off + 1) _ _ (by omega) (by omega) hx
          rw [← Nat.add_assoc] at h2
          exact h1.trans h2
        | some i =>
          have hm := isMeta_of_toInstr hti
          obtain ⟨i', hti', hit⟩ := Hp.instr _ _ hget hm
          rw [hti] at hti'
          cases hti'
          cases ctl with
          | next =>
            simp only [contFwd] at hx
            have hs := execCodeC_next_step P c (pcOf hk cs (k + off)) hti hex
            have h1 : MSteps P c σ (pcOf hk cs (k + off)) out σ1 (pcOf hk cs (k + off + 1)) out := by
              rw [pcOf_item hget (by simp [isItem, hm])]
              exact .one (.next hit hs)
            have h2 := ih (off + 1) _ _ (by omega) (by omega) hx
            rw [← Nat.add_assoc] at h2
            exact h1.trans h2
          | jump l =>
            simp only [contFwd] at hx
            cases hsk : skipTo l (blk.drop (off + 1)) with
            | none => simp [hsk] at hx
            | some rest =>
              simp only [hsk] at hx
              obtain ⟨j, hj, hrest⟩ := skipTo_spec hsk
              have hj' : blk[off + 1 + j]? = some (.LAB l) := by
                rw [List.getElem?_drop] at hj; exact hj
              obtain ⟨hjlt, hjeq⟩ := List.getElem?_eq_some_iff.1 hj'
              have hcsj : cs[k + (off + 1 + j)]? = some (.LAB l) := by
                rw [hblk _ hjlt, hjeq]
              have hl := label_of_nodup Hp hnd hcsj
              have hs := execCodeC_jump_step P c (pc := pcOf hk cs (k + off)) hti hex hl
              have h1 : MSteps P c σ (pcOf hk cs (k + off)) out σ1 (pcOf hk cs (k + (off + 1 + j))) out :=
                .one (.next hit hs)
              have h15 : MSteps P c σ1 (pcOf hk cs (k + (off + 1 + j))) out σ1
                  (pcOf hk cs (k + (off + 1 + j) + 1)) out :=
                msteps_code (c := c) Hp hcsj rfl out
              have hd : blk.drop (off + 1 + j + 1) = rest := by
                rw [hrest, List.drop_drop, Nat.add_assoc]
              have h2 := ih (off + 1 + j + 1) _ _ (by omega) (by omega) (by rw [hd]; exact hx)
              rw [show k + (off + 1 + j + 1) = k + (off + 1 + j) + 1 by omega] at h2
              exact h1.trans (h15.trans h2)
    · have : off = blk.length := by omega
      subst this
      rw [List.drop_length, execFwd_nil] at hx
      simp only [Except.ok.injEq, Prod.mk.injEq, and_true] at hx
      subst hx
      exact .refl _ _ _

end Fwd

/-! ## code at a position of the routine -/

/-- the routine `cs` holds `items` from list position `k` on -/
def XAt (cs : List Code) (k : Nat) (items : List Code) : Prop :=
  ∃ cs1 rest, cs = cs1 ++ items ++ rest ∧ cs1.length = k

theorem XAt.left {cs : List Code} {k : Nat} {a b : List Code} (h : XAt cs k (a ++ b)) : XAt cs k a := by
  obtain ⟨cs1, rest, e, hl⟩ := h
  exact ⟨cs1, b ++ rest, by rw [e]; simp, hl⟩

theorem XAt.right {cs : List Code} {k : Nat} {a b : List Code} (h : XAt cs k (a ++ b)) :
    XAt cs (k + a.length) b := by
  obtain ⟨cs1, rest, e, hl⟩ := h
  exact ⟨cs1 ++ a, rest, by rw [e]; simp, by simp [hl]⟩

theorem XAt.tail {cs : List Code} {k : Nat} {a : Code} {b : List Code} (h : XAt cs k (a :: b)) :
    XAt cs (k + 1) b := XAt.right (a := [a]) h

theorem XAt.get {cs : List Code} {k : Nat} {blk : List Code} (h : XAt cs k blk) :
    ∀ j (hj : j < blk.length), cs[k + j]? = some blk[j] := by
  obtain ⟨cs1, rest, e, hl⟩ := h
  subst hl
  exact block_get e

theorem XAt.head {cs : List Code} {k : Nat} {a : Code} {b : List Code} (h : XAt cs k (a :: b)) :
    cs[k]? = some a := by
  have := h.get 0 (by simp)
  simpa using this

section Steps

variable {hk : Code → Bool} {P : Prog} {cs : List Code} (Hp : Holds hk P cs) {c : MemCfg}

include Hp in
/-- straight-line codes at a position -/
theorem x_msteps_codes {blk : List Code} {k : Nat} {σ σ' : State} (hat : XAt cs k blk)
    (hx : execCodes c blk σ = .ok σ') (out : List (Bool × Word)) :
    MSteps P c σ (pcOf hk cs k) out σ' (pcOf hk cs (k + blk.length)) out :=
  msteps_codes Hp blk k σ σ' out hat.get hx

include Hp in
/-- a block with calls of the print runtime at a position -/
theorem x_msteps_codesOut {blk : List Code} {k : Nat} {σ σ' : State} {outs : List (Bool × Word)}
    (hat : XAt cs k blk) (hx : execCodesOut c blk σ = .ok (σ', outs)) (out : List (Bool × Word)) :
    MSteps P c σ (pcOf hk cs k) out σ' (pcOf hk cs (k + blk.length)) (outs.reverse ++ out) :=
  msteps_codesOut Hp blk k σ σ' out outs hat.get hx

include Hp in
/-- a block with forward local labels at a position -/
theorem x_msteps_fwd (hnd : (labs cs).Nodup) {blk : List Code} {k : Nat} {σ σ' : State} (hat : XAt cs k blk)
    (hx : execFwd c blk σ = .ok (σ', .next)) (out : List (Bool × Word)) :
    MSteps P c σ (pcOf hk cs k) out σ' (pcOf hk cs (k + blk.length)) out := by
  have := msteps_fwd Hp hnd blk k hat.get out blk.length 0 σ σ' (by omega) (by omega) (by simpa using hx)
  simpa using this

end Steps

/-- comments do nothing -/
theorem execCodes_comments (c : MemCfg) : ∀ (l : List Code) (σ : State),
    (∀ x ∈ l, ∃ m, x = Code.COMMENT m) → execCodes c l σ = .ok σ
  | [], _, _ => rfl
  | x :: l, σ, h => by
    obtain ⟨m, rfl⟩ := h x (by simp)
    rw [execCodes_cons c _ _ _ _ (execCode_COMMENT c m σ)]
    exact execCodes_comments c l σ (fun y hy => h y (by simp [hy]))

/-- labels and comments do nothing -/
theorem execCodes_noops (c : MemCfg) : ∀ (l : List Code) (σ : State),
    (∀ x ∈ l, (∃ m, x = Code.COMMENT m) ∨ ∃ n, x = Code.LAB n) → execCodes c l σ = .ok σ
  | [], _, _ => rfl
  | x :: l, σ, h => by
    have ih := execCodes_noops c l σ (fun y hy => h y (by simp [hy]))
    rcases h x (by simp) with ⟨m, rfl⟩ | ⟨n, rfl⟩
    · rw [execCodes_cons c _ _ _ _ (execCode_COMMENT c m σ)]; exact ih
    · rw [execCodes_cons c _ _ _ _ (show execCode c (.LAB n) σ = .ok σ from rfl)]; exact ih

end Scc.A64.Ref
