/-
  Scc.A64.RefMockTotal — the MOCK code generator is total on linearly typed programs (the generic
  totality theorem `compile_resOk`, Scc/Backend/TotalGen.lean, instantiated with the symbolic mock backend:
  no capacity error at all, since the mock numbering `2·position + number` is unbounded).  Used to
  discharge the hypothesis "the mock generator succeeds" of the run theorem for programs with data types.
-/
import Scc.Backend.TotalGen
import Scc.Backend.ProofsSubst

set_option linter.unusedVariables false
set_option linter.unusedSimpArgs false

namespace Scc.A64.Ref

open Scc.AxCut Scc.AxCut.Pos Scc.Backend Scc.Backend.Sim Scc.Backend.Total

theorem mock_vt_isVT {n : TempNum} {Γ : Ctx} {id t : Nat} (h : IsVT mockSym n Γ id t) :
    ∃ pos, posOf Γ id = some pos ∧ t = 2 * pos + n.toNat := by
  obtain ⟨c, k, h⟩ := h
  have h' : (Mock.variableTemporary n Γ id).run c = .ok (t, k) := h
  obtain ⟨pos, hp, ht, _⟩ := (vt_run_ok _ _ _ _ _ _).1 h'
  rw [ctxPosition_eq_posOf] at hp
  exact ⟨pos, hp, ht.symm⟩

/-- the mock backend satisfies the hypotheses of the generic totality theorem, with NO permitted error -/
theorem mock_total : TotalBackend mockSym (fun _ => False) (fun _ => True) where
  fits_mono := fun _ _ => trivial
  tempEq_iff := fun a b => by
    show (a == b) = true ↔ a = b
    exact beq_iff_eq
  vt_total := fun n Γ id hmem _ c => by
    obtain ⟨b, hb, rfl⟩ := hmem
    obtain ⟨pos, hpos⟩ := Option.isSome_iff_exists.mp (Scc.Backend.Subst.posOf_isSome_of_mem hb)
    have : (Mock.variableTemporary n Γ b.var.id).run c = .ok (2 * pos + n.toNat, c) :=
      (vt_run_ok _ _ _ _ _ _).2 ⟨pos, by rw [ctxPosition_eq_posOf]; exact hpos, rfl, rfl⟩
    have this' : (mockSym.variableTemporary n Γ b.var.id).run c = .ok (2 * pos + n.toNat, c) := this
    simp only [this']
  vt_inj := fun {Γ n n' id id' t} h1 h2 => by
    obtain ⟨p1, hp1, e1⟩ := mock_vt_isVT h1
    obtain ⟨p2, hp2, e2⟩ := mock_vt_isVT h2
    have hn : n.toNat < 2 := by cases n <;> simp [TempNum.toNat]
    have hn' : n'.toNat < 2 := by cases n' <;> simp [TempNum.toNat]
    have hp : p1 = p2 := by omega
    have hnn : n.toNat = n'.toNat := by omega
    subst hp
    obtain ⟨_, g1⟩ := Scc.Backend.Subst.posOf_getElem hp1
    obtain ⟨_, g2⟩ := Scc.Backend.Subst.posOf_getElem hp2
    refine ⟨?_, by rw [← g1, ← g2]⟩
    cases n <;> cases n' <;> simp [TempNum.toNat] at hnn <;> rfl
  vt_det := fun {Γ n id t t'} h1 h2 => by
    obtain ⟨p1, hp1, e1⟩ := mock_vt_isVT h1
    obtain ⟨p2, hp2, e2⟩ := mock_vt_isVT h2
    rw [hp1] at hp2
    cases hp2
    rw [e1, e2]
  printI64 := fun _ _ _ _ _ => trivial
  eraseBlock := fun _ _ => trivial
  shareBlockN := fun _ _ _ => trivial
  store := fun _ _ _ _ => trivial
  load := fun _ _ _ _ => trivial

/-- THE MOCK GENERATOR SUCCEEDS on every linearly typed program with at least one definition -/
theorem mock_compile_ok (hooks : Bool) (p : AxCut.Prog) (htp : LinTypedProg p) (hne : p.defs ≠ []) (c : Nat) :
    ∃ ops nargs c', (compile mockSym hooks p).run c = .ok ((ops, nargs), c') := by
  have h := compile_resOk mock_total hooks p htp hne trivial c
  cases hr : (compile mockSym hooks p).run c with
  | error e => rw [hr] at h; exact h.elim
  | ok r => exact ⟨r.1.1, r.1.2, r.2, rfl⟩

end Scc.A64.Ref
